import Gotlcp.Oracle.C06
def main : IO Unit := Gotlcp.Oracle.mainWith Gotlcp.Oracle.C06.judge

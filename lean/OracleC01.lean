import Gotlcp.Oracle.C01
def main : IO Unit := Gotlcp.Oracle.mainWith Gotlcp.Oracle.C01.judge

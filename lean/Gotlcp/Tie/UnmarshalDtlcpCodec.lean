/-
Tie by translation, dtlcp/handshake_messages.go, second half: the translated hand-written decoders
(`Gotlcp.Src.dtlcp.*`, regenerated from the Go source on every run) compute, for EVERY byte
string, what the C14 codec model (`Gotlcp.Model.CodecDtlcp`, instantiated with the regenerated
facts `codesD`) computes: the same Boolean answer, the same three header fields and the same
decoded body.  Bytes are `BitVec 8` in the translation and `UInt8` in the model; `abs` maps one
to the other.

Core Lean only.
-/
import Gotlcp.Tie.UnmarshalDtlcp
import Gotlcp.Model.CodecParams

set_option linter.unusedSimpArgs false
set_option linter.unusedVariables false

namespace Gotlcp.Tie.UnmarshalDtlcpCodec
open Gotlcp Gotlcp.Wire Gotlcp.Wire.Msg Gotlcp.Model.CodecDtlcp
open Gotlcp.Model.Codec (Codes codesD guardWith certCount certSplit decCertificateAt casLoop decCertificateRequestAt)
open Gotlcp.Tie.UnmarshalDtlcp (u16At u24At u24 u16 u24_def u16_def idx_ok slice_ok slice_end make_ok copyInto_full
  copyInto_take set_ok ok_bind bind_ok_of hdr_idx forIn_fuel forIn_inv certLen certLen_fold certLen_step walkN
  walkN_snoc u24_lt)

abbrev SBytes := List (BitVec 8)

/-- bytes of the translation → bytes of the model -/
def abs (l : SBytes) : Gotlcp.Bytes := l.map UInt8.ofBitVec

@[simp] theorem abs_length (l : SBytes) : (abs l).length = l.length := List.length_map _
theorem abs_drop (n : Nat) (l : SBytes) : abs (l.drop n) = (abs l).drop n := by
  simp [abs, List.map_drop]
theorem abs_take (n : Nat) (l : SBytes) : abs (l.take n) = (abs l).take n := by
  simp [abs, List.map_take]

theorem ofBitVec_inj {a b : BitVec 8} : UInt8.ofBitVec a = UInt8.ofBitVec b ↔ a = b :=
  ⟨fun h => congrArg UInt8.toBitVec h, fun h => by rw [h]⟩

/-- the translated decoder's answer `r` IS the model's outcome `o`: accepted with the same decoded
value (through `view`), or refused; the model outcome `panic` corresponds to nothing -/
def Agree {M α : Type} (view : M → α) (r : Except String (M × Bool)) (o : Outcome α) : Prop :=
  match o with
  | .ok a => ∃ m, r = .ok (m, true) ∧ view m = a
  | .reject => ∃ m, r = .ok (m, false)
  | .panic => False

/-! ## big-endian fields -/

/-- three bytes as a number -/
def n24 (a b c : BitVec 8) : Nat := a.toNat * 65536 + b.toNat * 256 + c.toNat
def n16 (a b : BitVec 8) : Nat := a.toNat * 256 + b.toNat

/-- the 24-bit field at offset `i` -/
def N24 (d : SBytes) (i : Nat) : Nat := n24 (d.getD i 0#8) (d.getD (i + 1) 0#8) (d.getD (i + 2) 0#8)

theorem n24_lt (a b c : BitVec 8) : n24 a b c < 16777216 := by
  have := a.isLt; have := b.isLt; have := c.isLt; unfold n24; omega

theorem nat_or3 (a b c : Nat) (hb : b < 256) (hc : c < 256) :
    a <<< 16 ||| b <<< 8 ||| c = a * 65536 + b * 256 + c := by
  have e1 : a <<< 16 = (a <<< 8) <<< 8 := by rw [← Nat.shiftLeft_add]
  rw [e1, ← Nat.shiftLeft_or_distrib, ← Nat.shiftLeft_add_eq_or_of_lt (by omega : b < 2 ^ 8),
    ← Nat.shiftLeft_add_eq_or_of_lt (by omega : c < 2 ^ 8)]
  simp only [Nat.shiftLeft_eq]
  omega

theorem nat_or2 (a b : Nat) (hb : b < 256) : a <<< 8 ||| b = a * 256 + b := by
  rw [← Nat.shiftLeft_add_eq_or_of_lt (by omega : b < 2 ^ 8), Nat.shiftLeft_eq]

theorem u24_toNat (a b c : BitVec 8) : (u24 a b c).toNat = n24 a b c := by
  have ha := a.isLt; have hb := b.isLt; have hc := c.isLt
  unfold u24 n24
  simp only [BitVec.toNat_or, BitVec.toNat_shiftLeft, BitVec.toNat_setWidth]
  rw [Nat.mod_eq_of_lt (by omega : a.toNat < 2 ^ 32), Nat.mod_eq_of_lt (by omega : b.toNat < 2 ^ 32),
    Nat.mod_eq_of_lt (by omega : c.toNat < 2 ^ 32)]
  have e4 : a.toNat <<< 16 % 2 ^ 32 = a.toNat <<< 16 := by
    apply Nat.mod_eq_of_lt; rw [Nat.shiftLeft_eq]; omega
  have e5 : b.toNat <<< 8 % 2 ^ 32 = b.toNat <<< 8 := by
    apply Nat.mod_eq_of_lt; rw [Nat.shiftLeft_eq]; omega
  rw [e4, e5]
  exact nat_or3 _ _ _ hb hc

theorem u16_toNat (a b : BitVec 8) : (u16 a b).toNat = n16 a b := by
  have ha := a.isLt; have hb := b.isLt
  unfold u16 n16
  simp only [BitVec.toNat_or, BitVec.toNat_shiftLeft, BitVec.toNat_setWidth]
  rw [Nat.mod_eq_of_lt (by omega : a.toNat < 2 ^ 16), Nat.mod_eq_of_lt (by omega : b.toNat < 2 ^ 16)]
  have e4 : a.toNat <<< 8 % 2 ^ 16 = a.toNat <<< 8 := by
    apply Nat.mod_eq_of_lt; rw [Nat.shiftLeft_eq]; omega
  rw [e4]
  exact nat_or2 _ _ hb

/-- `int(x)<<16 | int(y)<<8 | int(z)` -/
theorem orInt24 (a b c : BitVec 8) :
    Go.orInt (Go.orInt ((a.toNat : Int) * 2 ^ 16) ((b.toNat : Int) * 2 ^ 8)) (c.toNat : Int) = (n24 a b c : Int) := by
  have ha := a.isLt; have hb := b.isLt; have hc := c.isLt
  unfold Go.orInt
  rw [BitVec.ofInt_toInt]
  have e1 : (a.toNat : Int) * 2 ^ 16 = ((a.toNat * 65536 : Nat) : Int) := by omega
  have e2 : (b.toNat : Int) * 2 ^ 8 = ((b.toNat * 256 : Nat) : Int) := by omega
  rw [e1, e2]
  simp only [BitVec.ofInt_natCast]
  have hn : (BitVec.ofNat 64 (a.toNat * 65536) ||| BitVec.ofNat 64 (b.toNat * 256) ||| BitVec.ofNat 64 c.toNat).toNat
      = n24 a b c := by
    simp only [BitVec.toNat_or, BitVec.toNat_ofNat]
    rw [Nat.mod_eq_of_lt (by omega : a.toNat * 65536 < 2 ^ 64), Nat.mod_eq_of_lt (by omega : b.toNat * 256 < 2 ^ 64),
      Nat.mod_eq_of_lt (by omega : c.toNat < 2 ^ 64)]
    have := nat_or3 a.toNat b.toNat c.toNat hb hc
    simp only [Nat.shiftLeft_eq] at this
    exact this
  have hl := n24_lt a b c
  rw [BitVec.toInt_eq_toNat_of_lt (by rw [hn]; omega), hn]

/-! ## the model's checked accessors on `abs` -/

theorem idx_abs (d : SBytes) (i : Nat) (h : i < d.length) :
    idx (abs d) i = .ok (UInt8.ofBitVec (d.getD i 0#8)) := by
  unfold idx abs
  rw [List.getElem?_map, List.getElem?_eq_getElem h, List.getD_eq_getElem?_getD, List.getElem?_eq_getElem h]
  rfl

theorem nat24_abs (a b c : BitVec 8) :
    nat24 (UInt8.ofBitVec a) (UInt8.ofBitVec b) (UInt8.ofBitVec c) = n24 a b c := rfl

theorem nat16_abs (a b : BitVec 8) : nat16 (UInt8.ofBitVec a) (UInt8.ofBitVec b) = n16 a b := rfl

theorem idx24_abs (d : SBytes) (i : Nat) (h : i + 2 < d.length) : idx24 (abs d) i = .ok (N24 d i) := by
  unfold idx24
  rw [idx_abs d i (by omega), idx_abs d (i + 1) (by omega), idx_abs d (i + 2) h]
  rfl

theorem idx16_abs (d : SBytes) (i : Nat) (h : i + 1 < d.length) :
    idx16 (abs d) i = .ok (n16 (d.getD i 0#8) (d.getD (i + 1) 0#8)) := by
  unfold idx16
  rw [idx_abs d i (by omega), idx_abs d (i + 1) h]
  rfl

theorem sliceFrom_abs (d : SBytes) (i : Nat) (h : i ≤ d.length) : sliceFrom (abs d) i = .ok (abs (d.drop i)) := by
  unfold sliceFrom
  rw [if_pos (by rw [abs_length]; exact h), abs_drop]

theorem slice_abs (d : SBytes) (i j : Nat) (h1 : i ≤ j) (h2 : j ≤ d.length) :
    slice (abs d) i j = .ok (abs ((d.drop i).take (j - i))) := by
  unfold slice
  rw [if_pos ⟨h1, by rw [abs_length]; exact h2⟩, abs_take, abs_drop]

/-! ## `dtlcpIsCompleteMessage` -/

/-- closed form of `dtlcpIsCompleteMessage` -/
def completeD (data : SBytes) (t : BitVec 8) : Bool :=
  decide (12 ≤ data.length) && (data.getD 0 0#8 == t) &&
    (N24 data 6 == 0 && N24 data 9 == N24 data 1 && data.length - 12 == N24 data 1)

theorem completeD_len {data : SBytes} {t : BitVec 8} (h : completeD data t = true) :
    12 ≤ data.length ∧ data.length = N24 data 1 + 12 ∧ data.getD 0 0#8 = t := by
  simp only [completeD, Bool.and_eq_true, decide_eq_true_eq, beq_iff_eq] at h
  obtain ⟨⟨h1, h2⟩, ⟨_, _⟩, h3⟩ := h
  exact ⟨h1, by omega, h2⟩

/-- translated text = closed form -/
theorem isComplete_eq (data : SBytes) (t : BitVec 8) :
    Src.dtlcp.dtlcpIsCompleteMessage data t = .ok (completeD data t) := by
  unfold Src.dtlcp.dtlcpIsCompleteMessage completeD
  by_cases h : (data.length : Int) < 12
  · have h' : ¬ 12 ≤ data.length := by omega
    simp [h, h', bind, Except.bind, pure, Except.pure]
  · have hl : 12 ≤ data.length := by omega
    obtain ⟨e0, e1, e2, e3, e4, e5, e6, e7, e8, e9, e10, e11⟩ := hdr_idx data hl
    simp only [bind, Except.bind, pure, Except.pure, h, e0, e1, e2, e3, e6, e7, e8, e9, e10, e11,
      decide_false, Bool.not_false, if_true, orInt24, hl, decide_true, Bool.true_and]
    by_cases ht : data.getD 0 0#8 = t
    · simp only [ht, bne_self_eq_false, Bool.false_eq_true, if_false, beq_self_eq_true, Bool.true_and, N24,
        Nat.reduceAdd]
      congr 1
      rw [Bool.eq_iff_iff]
      simp only [Bool.and_eq_true, beq_iff_eq]
      omega
    · have hb : (data.getD 0 0#8 != t) = true := bne_iff_ne.mpr ht
      have hb2 : (data.getD 0 0#8 == t) = false := beq_eq_false_iff_ne.mpr ht
      simp only [hb, hb2, if_true, Bool.false_and]

/-- model = closed form (`T` is the model's type code, `t` the literal in the translated text) -/
theorem model_isComplete (data : SBytes) (t : BitVec 8) (T : Nat) (hT : u8 T = UInt8.ofBitVec t) :
    isCompleteMessage 12 (abs data) T = .ok (completeD data t) := by
  unfold isCompleteMessage completeD
  by_cases h : data.length < 12
  · have h' : ¬ 12 ≤ data.length := by omega
    simp [h, h']
  · have hl : 12 ≤ data.length := by omega
    rw [if_neg (by rw [abs_length]; exact h)]
    simp only [bind, Outcome.bind, idx_abs data 0 (by omega), idx24_abs data 1 (by omega),
      idx24_abs data 6 (by omega), idx24_abs data 9 (by omega), hT, abs_length, hl, decide_true, Bool.true_and]
    by_cases ht : data.getD 0 0#8 = t
    · simp only [ht, ne_eq, not_true_eq_false, if_false, beq_self_eq_true, Bool.true_and]
      congr 1
      rw [Bool.eq_iff_iff]
      simp only [Bool.and_eq_true, beq_iff_eq, decide_eq_true_eq]
      omega
    · have : UInt8.ofBitVec (data.getD 0 0#8) ≠ UInt8.ofBitVec t := fun hh => ht (ofBitVec_inj.mp hh)
      have hb2 : (data.getD 0 0#8 == t) = false := beq_eq_false_iff_ne.mpr ht
      simp only [this, ne_eq, not_false_eq_true, if_true, hb2, Bool.false_and]

/-! ## the literals of the translated text are the regenerated facts the model is instantiated with -/

theorem codes_facts :
    u8 codesD.tCertificate = UInt8.ofBitVec 11#8 ∧ u8 codesD.tServerKeyExchange = UInt8.ofBitVec 12#8 ∧
    u8 codesD.tCertificateRequest = UInt8.ofBitVec 13#8 ∧ u8 codesD.tServerHelloDone = UInt8.ofBitVec 14#8 ∧
    u8 codesD.tClientKeyExchange = UInt8.ofBitVec 16#8 ∧
    codesD.complete.contains codesD.tCertificate = true ∧ codesD.complete.contains codesD.tServerKeyExchange = true ∧
    codesD.complete.contains codesD.tCertificateRequest = true ∧ codesD.complete.contains codesD.tServerHelloDone = true ∧
    codesD.complete.contains codesD.tClientKeyExchange = true ∧ codesD.hl = 12 := by
  decide

/-- the guard in front of a decoder whose message type is in the regenerated list of guarded types -/
theorem model_guard {α : Type} (data : SBytes) (t : BitVec 8) (T : Nat) (hT : u8 T = UInt8.ofBitVec t)
    (hon : codesD.complete.contains T = true) (k : Outcome α) :
    guardD codesD T (abs data) k = if completeD data t then k else .reject := by
  unfold guardD guardWith
  rw [hon, codes_facts.2.2.2.2.2.2.2.2.2.2, model_isComplete data t T hT]
  cases completeD data t <;> rfl

/-! ## the three header fields -/

/-- the model's view of `messageSeq`, `fragmentOffset`, `fragmentLength` -/
def hdrView (seq : BitVec 16) (fo fl : BitVec 32) : DHdr := ⟨W16.ofNat seq.toNat, fo.toNat, fl.toNat⟩

theorem u8_toNat_bv (a : BitVec 8) : u8 a.toNat = UInt8.ofBitVec a := by
  apply UInt8.toNat_inj.mp
  rw [u8_toNat]
  have := a.isLt
  show a.toNat % 256 = a.toNat
  omega

theorem w16_u16 (a b : BitVec 8) : W16.ofNat (u16 a b).toNat = (UInt8.ofBitVec a, UInt8.ofBitVec b) := by
  have ha := a.isLt; have hb := b.isLt
  rw [u16_toNat]
  unfold W16.ofNat n16
  have h1 : (a.toNat * 256 + b.toNat) / 256 = a.toNat := by omega
  have h2 : u8 (a.toNat * 256 + b.toNat) = UInt8.ofBitVec b := by
    apply UInt8.toNat_inj.mp
    rw [u8_toNat]
    show (a.toNat * 256 + b.toNat) % 256 = b.toNat
    omega
  rw [h1, h2, u8_toNat_bv]

theorem hdr_model (data : SBytes) (h : 12 ≤ data.length) :
    hdrFields (abs data) = .ok (hdrView (u16At data 4) (u24At data 6) (u24At data 9)) := by
  unfold hdrFields idxW16
  simp only [bind, Outcome.bind, idx_abs data 4 (by omega), idx_abs data 5 (by omega),
    idx24_abs data 6 (by omega), idx24_abs data 9 (by omega), pure]
  congr 1
  unfold hdrView
  have e1 : u16At data 4 = u16 (data.getD 4 0#8) (data.getD 5 0#8) := rfl
  have e2 : u24At data 6 = u24 (data.getD 6 0#8) (data.getD 7 0#8) (data.getD 8 0#8) := rfl
  have e3 : u24At data 9 = u24 (data.getD 9 0#8) (data.getD 10 0#8) (data.getD 11 0#8) := rfl
  rw [e1, e2, e3, w16_u16, u24_toNat, u24_toNat]
  rfl

/-! ## `serverKeyExchangeMsg`, `clientKeyExchangeMsg`, `serverHelloDoneMsg` -/

/-- translated text = closed form -/
theorem skx_closed (m : Src.dtlcp.serverKeyExchangeMsg) (data : SBytes) :
    Src.dtlcp.serverKeyExchangeMsg.unmarshal m data = .ok (
      if completeD data 12#8 then
        ({ raw := data, key := data.drop 12, messageSeq := u16At data 4,
           fragmentOffset := u24At data 6, fragmentLength := u24At data 9 }, true)
      else (m, false)) := by
  unfold Src.dtlcp.serverKeyExchangeMsg.unmarshal
  simp only [isComplete_eq, ok_bind]
  cases hc : completeD data 12#8
  · rfl
  · obtain ⟨hl, _, _⟩ := completeD_len hc
    obtain ⟨e0, e1, e2, e3, e4, e5, e6, e7, e8, e9, e10, e11⟩ := hdr_idx data hl
    have hlt : ¬ ((data.length : Int) < 12) := by omega
    have em : (data.length : Int) - 12 = ((data.length - 12 : Nat) : Int) := by omega
    have es : Go.slice data (12 : Int) (data.length : Int) = .ok (data.drop 12) := slice_end data 12 hl
    simp only [hlt, e4, e5, e6, e7, e8, e9, e10, e11, em, make_ok, es, decide_false, Bool.not_true,
      Bool.false_eq_true, if_false, ok_bind, if_true]
    rw [copyInto_full _ _ (by simp)]
    rfl

theorem tie_codec_serverKeyExchange (m : Src.dtlcp.serverKeyExchangeMsg) (data : SBytes) :
    Agree (fun m' => (hdrView m'.messageSeq m'.fragmentOffset m'.fragmentLength, (⟨abs m'.key⟩ : Blob)))
      (Src.dtlcp.serverKeyExchangeMsg.unmarshal m data) (decServerKeyExchange codesD (abs data)) := by
  rw [skx_closed]
  unfold decServerKeyExchange
  rw [model_guard data 12#8 _ codes_facts.2.1 codes_facts.2.2.2.2.2.2.1, codes_facts.2.2.2.2.2.2.2.2.2.2]
  cases hc : completeD data 12#8
  · exact ⟨m, rfl⟩
  · obtain ⟨hl, _, _⟩ := completeD_len hc
    simp only [if_true, abs_length]
    rw [if_neg (by omega), hdr_model data hl]
    simp only [bind, Outcome.bind, sliceFrom_abs data 12 hl, pure]
    exact ⟨_, rfl, rfl⟩

/-- translated text = closed form (the test `l != len(data)-12` can never fire behind the guard) -/
theorem ckx_closed (m : Src.dtlcp.clientKeyExchangeMsg) (data : SBytes) :
    Src.dtlcp.clientKeyExchangeMsg.unmarshal m data = .ok (
      if completeD data 16#8 then
        ({ raw := data, ciphertext := data.drop 12, messageSeq := u16At data 4,
           fragmentOffset := u24At data 6, fragmentLength := u24At data 9 }, true)
      else (m, false)) := by
  unfold Src.dtlcp.clientKeyExchangeMsg.unmarshal
  simp only [isComplete_eq, ok_bind]
  cases hc : completeD data 16#8
  · rfl
  · obtain ⟨hl, hlen, _⟩ := completeD_len hc
    obtain ⟨e0, e1, e2, e3, e4, e5, e6, e7, e8, e9, e10, e11⟩ := hdr_idx data hl
    have hlt : ¬ ((data.length : Int) < 12) := by omega
    have es : Go.slice data (12 : Int) (data.length : Int) = .ok (data.drop 12) := slice_end data 12 hl
    have hl' : ¬ (((n24 (data.getD 1 0#8) (data.getD 2 0#8) (data.getD 3 0#8) : Nat) : Int)
        != (data.length : Int) - 12) = true := by
      simp only [bne_iff_ne, ne_eq, Decidable.not_not]
      have : N24 data 1 = n24 (data.getD 1 0#8) (data.getD 2 0#8) (data.getD 3 0#8) := rfl
      omega
    simp only [hlt, e1, e2, e3, e4, e5, e6, e7, e8, e9, e10, e11, decide_false, Bool.not_true,
      Bool.false_eq_true, if_false, ok_bind, if_true, orInt24, hl', make_ok, es]
    rw [copyInto_full _ _ (by
      have : N24 data 1 = n24 (data.getD 1 0#8) (data.getD 2 0#8) (data.getD 3 0#8) := rfl
      simp only [List.length_replicate, List.length_drop]; omega)]
    rfl

theorem tie_codec_clientKeyExchange (m : Src.dtlcp.clientKeyExchangeMsg) (data : SBytes) :
    Agree (fun m' => (hdrView m'.messageSeq m'.fragmentOffset m'.fragmentLength, (⟨abs m'.ciphertext⟩ : Blob)))
      (Src.dtlcp.clientKeyExchangeMsg.unmarshal m data) (decClientKeyExchange codesD (abs data)) := by
  rw [ckx_closed]
  unfold decClientKeyExchange
  rw [model_guard data 16#8 _ codes_facts.2.2.2.2.1 codes_facts.2.2.2.2.2.2.2.2.2.1, codes_facts.2.2.2.2.2.2.2.2.2.2]
  cases hc : completeD data 16#8
  · exact ⟨m, rfl⟩
  · obtain ⟨hl, hlen, _⟩ := completeD_len hc
    simp only [if_true, abs_length]
    rw [if_neg (by omega), hdr_model data hl]
    simp only [bind, Outcome.bind, idx24_abs data 1 (by omega), sliceFrom_abs data 12 hl, pure]
    rw [if_neg (by omega)]
    refine ⟨_, rfl, ?_⟩
    show (_, (⟨abs (data.drop 12)⟩ : Blob)) = _
    rw [List.take_of_length_le (by rw [abs_length, List.length_drop]; omega)]

/-- translated text = closed form (behind the guard `data[0] == typeServerHelloDone` always holds) -/
theorem shd_closed (m : Src.dtlcp.serverHelloDoneMsg) (data : SBytes) :
    Src.dtlcp.serverHelloDoneMsg.unmarshal m data = .ok (
      if completeD data 14#8 then
        ({ raw := data, messageSeq := u16At data 4,
           fragmentOffset := u24At data 6, fragmentLength := u24At data 9 }, N24 data 1 == 0)
      else (m, false)) := by
  unfold Src.dtlcp.serverHelloDoneMsg.unmarshal
  simp only [isComplete_eq, ok_bind]
  cases hc : completeD data 14#8
  · rfl
  · obtain ⟨hl, hlen, h0⟩ := completeD_len hc
    obtain ⟨e0, e1, e2, e3, e4, e5, e6, e7, e8, e9, e10, e11⟩ := hdr_idx data hl
    have hlt : ¬ ((data.length : Int) < 12) := by omega
    simp only [hlt, e0, e1, e2, e3, e4, e5, e6, e7, e8, e9, e10, e11, decide_false, Bool.not_true,
      Bool.false_eq_true, if_false, ok_bind, if_true, orInt24, h0, beq_self_eq_true]
    have : N24 data 1 = n24 (data.getD 1 0#8) (data.getD 2 0#8) (data.getD 3 0#8) := rfl
    rw [this]
    by_cases hz : n24 (data.getD 1 0#8) (data.getD 2 0#8) (data.getD 3 0#8) = 0
    · have hz' : (((n24 (data.getD 1 0#8) (data.getD 2 0#8) (data.getD 3 0#8) : Nat) : Int) == 0) = true := by
        rw [hz]; rfl
      simp only [hz', if_true]
      rw [hz]
      rfl
    · have hz' : (((n24 (data.getD 1 0#8) (data.getD 2 0#8) (data.getD 3 0#8) : Nat) : Int) == 0) = false := by
        rw [beq_eq_false_iff_ne]; omega
      have hz2 : (n24 (data.getD 1 0#8) (data.getD 2 0#8) (data.getD 3 0#8) == 0) = false := by
        rw [beq_eq_false_iff_ne]; exact hz
      simp only [hz', Bool.false_eq_true, if_false, hz2]
      rfl

theorem tie_codec_serverHelloDone (m : Src.dtlcp.serverHelloDoneMsg) (data : SBytes) :
    Agree (fun m' => (hdrView m'.messageSeq m'.fragmentOffset m'.fragmentLength, ()))
      (Src.dtlcp.serverHelloDoneMsg.unmarshal m data) (decServerHelloDone codesD (abs data)) := by
  rw [shd_closed]
  unfold decServerHelloDone
  rw [model_guard data 14#8 _ codes_facts.2.2.2.1 codes_facts.2.2.2.2.2.2.2.2.1, codes_facts.2.2.2.2.2.2.2.2.2.2]
  cases hc : completeD data 14#8
  · exact ⟨m, rfl⟩
  · obtain ⟨hl, hlen, h0⟩ := completeD_len hc
    simp only [if_true, abs_length]
    rw [if_neg (by omega), hdr_model data hl]
    simp only [bind, Outcome.bind, idx24_abs data 1 (by omega), idx_abs data 0 (by omega), h0,
      codes_facts.2.2.2.1, and_true]
    by_cases hz : N24 data 1 = 0
    · rw [if_pos hz, hz]
      exact ⟨_, rfl, rfl⟩
    · rw [if_neg hz, beq_eq_false_iff_ne.mpr hz]
      exact ⟨_, rfl⟩

/-! ## `certificateMsg` -/

/-- sequencing rule for an arbitrary property `Q` of the final result -/
theorem bind_rule {ε α β : Type} {x : Except ε α} {k : α → Except ε β} (Q : Except ε β → Prop)
    (P : α → Prop) (hx : ∃ v, x = .ok v ∧ P v) (hk : ∀ v, P v → Q (k v)) : Q (x >>= k) := by
  obtain ⟨v, rfl, hv⟩ := hx
  exact hk v hv

theorem obind_ok {α β : Type} (a : α) (f : α → Outcome β) : (Outcome.ok a).bind f = f a := rfl

/-- the same rule, first-order, for `Agree` -/
theorem agree_bind {M α σ : Type} {view : M → α} {o : Outcome α} {x : Except String σ}
    {k : σ → Except String (M × Bool)} (P : σ → Prop) (hx : ∃ v, x = .ok v ∧ P v)
    (hk : ∀ v, P v → Agree view (k v) o) : Agree view (x >>= k) o :=
  bind_rule (fun r => Agree view r o) P hx hk

theorem certLen_n24 (d : SBytes) : N24 d 0 = (certLen d).toNat := by
  rw [certLen, u24_toNat]; rfl

/-- closed form of the second loop: the certificates along a walk of `k` entries -/
def splitL : Nat → SBytes → List SBytes
  | 0, _ => []
  | k + 1, d =>
    ((d.drop 3).take ((3#32 + certLen d).toNat - 3)) :: splitL k (d.drop (3#32 + certLen d).toNat)

/-- second loop of the model (which has no checks, like the Go code) on a walk the first loop has
validated: it succeeds and returns the closed form -/
theorem split_model : ∀ (k : Nat) (d : SBytes), (walkN k d).isSome = true →
    certSplit k (abs d) = .ok ((splitL k d).map abs) := by
  intro k
  induction k with
  | zero => intro d _; cases d <;> rfl
  | succ k ih =>
    intro d h
    rw [walkN] at h
    split at h
    · rename_i hc
      obtain ⟨h4, hle⟩ := hc
      have hk := certLen_step d
      rw [certSplit]
      simp only [bind, Outcome.bind, idx24_abs d 0 (by omega), certLen_n24, ← hk,
        slice_abs d 3 _ (by omega) hle, sliceFrom_abs d _ hle, ih _ h, pure, splitL, List.map_cons]
    · cases h

/-- the header-only value every refusing exit after the length checks returns -/
def hdrM (m : Src.dtlcp.certificateMsg) (data : SBytes) : Src.dtlcp.certificateMsg :=
  { raw := data, certificates := m.certificates, messageSeq := u16At data 4,
    fragmentOffset := u24At data 6, fragmentLength := u24At data 9 }

abbrev S1 := Option (Src.dtlcp.certificateMsg × Bool) × BitVec 32 × Int × SBytes

/-- first loop, simulation invariant: from the current state the model's counting loop (with any
sufficient fuel) produces the model's overall answer `R` -/
def Inv1 (d0 : SBytes) (R : Outcome Nat) (s : S1) : Prop :=
  s.1 = none ∧ s.2.2.2.length = s.2.1.toNat ∧ 0 ≤ s.2.2.1 ∧ walkN s.2.2.1.toNat d0 = some s.2.2.2 ∧
  ∃ f, s.2.2.2.length < f ∧ certCount f (abs s.2.2.2) s.2.1.toNat s.2.2.1.toNat = R

def Post1 (M : Src.dtlcp.certificateMsg) (d0 : SBytes) (R : Outcome Nat) (s : S1) : Prop :=
  (s.1 = some (M, false) ∧ R = .reject) ∨
  (s.1 = none ∧ s.2.1 = 0#32 ∧ 0 ≤ s.2.2.1 ∧ (walkN s.2.2.1.toNat d0).isSome = true ∧ R = .ok s.2.2.1.toNat)

/-- second loop: the certificates written so far followed by the closed form of the rest is the
closed form of the whole -/
def Inv2 (M : Src.dtlcp.certificateMsg) (d0 : SBytes) (N : Nat) (rem : List Nat)
    (s : Src.dtlcp.certificateMsg × SBytes) : Prop :=
  ∃ done : List SBytes, s.1 = { M with certificates := done ++ List.replicate rem.length [] } ∧
    rem = List.range' done.length rem.length ∧ (walkN rem.length s.2).isSome = true ∧
    done ++ splitL rem.length s.2 = splitL N d0

theorem set_done {α : Type} (done : List α) (z c : α) (k : Nat) :
    (done ++ List.replicate (k + 1) z).set done.length c = (done ++ [c]) ++ List.replicate k z := by
  rw [List.replicate_succ, List.set_append_right _ _ (Nat.le_refl _), Nat.sub_self, List.set_cons_zero,
    List.append_assoc]
  rfl

/-- the model decoder, header length 12, unfolded down to its two loops -/
theorem model_certificate (data : SBytes) :
    decCertificate codesD (abs data) =
      if completeD data 11#8 then
        if data.length < 15 then .reject
        else if data.length ≠ N24 data 12 + 15 then .reject
        else
          (certCount ((data.drop 15).length + 1) (abs (data.drop 15)) (N24 data 12) 0).bind fun n =>
            (certSplit n (abs (data.drop 15))).bind fun cs =>
              .ok (hdrView (u16At data 4) (u24At data 6) (u24At data 9), ⟨cs⟩)
      else .reject := by
  unfold decCertificate
  rw [model_guard data 11#8 _ codes_facts.1 codes_facts.2.2.2.2.2.1, codes_facts.2.2.2.2.2.2.2.2.2.2]
  cases hc : completeD data 11#8
  · rfl
  · obtain ⟨hl, _, _⟩ := completeD_len hc
    simp only [if_true, abs_length]
    by_cases h15 : data.length < 15
    · rw [if_pos (show data.length < 12 + 3 by omega), if_pos h15]
    · rw [if_neg (show ¬ data.length < 12 + 3 by omega), if_neg h15, hdr_model data hl]
      unfold decCertificateAt
      simp only [bind, Outcome.bind, abs_length, idx24_abs data 12 (by omega), sliceFrom_abs data 15 (by omega)]
      rw [if_neg (show ¬ data.length < 12 + 3 by omega)]
      by_cases hne : data.length ≠ N24 data 12 + 15
      · rw [if_pos (show data.length ≠ N24 data 12 + 12 + 3 by omega), if_pos hne]
      · rw [if_neg (show ¬ data.length ≠ N24 data 12 + 12 + 3 by omega), if_neg hne]
        cases certCount ((data.drop 15).length + 1) (abs (data.drop 15)) (N24 data 12) 0 with
        | ok n =>
          simp only
          cases certSplit n (abs (data.drop 15)) <;> rfl
        | reject => rfl
        | panic => rfl

theorem tie_codec_certificate (m : Src.dtlcp.certificateMsg) (data : SBytes) :
    Agree (fun m' => (hdrView m'.messageSeq m'.fragmentOffset m'.fragmentLength,
                      (⟨m'.certificates.map abs⟩ : Certificate)))
      (Src.dtlcp.certificateMsg.unmarshal m data) (decCertificate codesD (abs data)) := by
  rw [model_certificate]
  unfold Src.dtlcp.certificateMsg.unmarshal
  simp only [isComplete_eq, ok_bind]
  cases hc : completeD data 11#8
  · exact ⟨m, rfl⟩
  · obtain ⟨hl, hlen0, _⟩ := completeD_len hc
    simp only [Bool.not_true, Bool.false_eq_true, if_false, if_true]
    by_cases h15 : (data.length : Int) < 15
    · simp only [h15, decide_true, if_true]
      rw [if_pos (show data.length < 15 by omega)]
      exact ⟨m, rfl⟩
    · have hl15 : 15 ≤ data.length := by omega
      rw [if_neg (show ¬ data.length < 15 by omega)]
      obtain ⟨e0, e1, e2, e3, e4, e5, e6, e7, e8, e9, e10, e11⟩ := hdr_idx data hl
      have e12 : Go.idx data (12 : Int) = .ok (data.getD 12 0#8) := idx_ok data 12 (by omega)
      have e13 : Go.idx data (13 : Int) = .ok (data.getD 13 0#8) := idx_ok data 13 (by omega)
      have e14 : Go.idx data (14 : Int) = .ok (data.getD 14 0#8) := idx_ok data 14 (by omega)
      have es : Go.slice data (15 : Int) (data.length : Int) = .ok (data.drop 15) := slice_end data 15 hl15
      simp only [h15, decide_false, Bool.false_eq_true, if_false, e4, e5, e6, e7, e8, e9, e10, e11,
        e12, e13, e14, ok_bind, es, u24_def]
      have hN : N24 data 12 = (u24 (data.getD 12 0#8) (data.getD 13 0#8) (data.getD 14 0#8)).toNat := by
        rw [u24_toNat]; rfl
      rw [hN]
      generalize hcl : u24 (data.getD 12 0#8) (data.getD 13 0#8) (data.getD 14 0#8) = certsLen
      have hcl24 : certsLen.toNat < 2 ^ 24 := by rw [← hcl]; exact u24_lt _ _ _
      have hu : data.length < 2 ^ 24 + 12 := by
        have := n24_lt (data.getD 1 0#8) (data.getD (1 + 1) 0#8) (data.getD (1 + 2) 0#8)
        unfold N24 at hlen0; omega
      -- `uint32(len(data)) != certsLen + 15` is `len(data) ≠ certsLen + 15`
      have heq : BitVec.ofInt 32 (data.length : Int) = certsLen + 12#32 + 3#32 ↔
          data.length = certsLen.toNat + 15 := by
        constructor
        · intro h
          have h1 := congrArg BitVec.toNat h
          rw [BitVec.ofInt_natCast, BitVec.toNat_ofNat, BitVec.toNat_add, BitVec.toNat_add] at h1
          simp at h1
          omega
        · intro h
          apply BitVec.eq_of_toNat_eq
          rw [BitVec.ofInt_natCast, BitVec.toNat_ofNat, BitVec.toNat_add, BitVec.toNat_add]
          simp
          omega
      have hiff : (BitVec.ofInt 32 (data.length : Int) != certsLen + 12#32 + 3#32) = true ↔
          data.length ≠ certsLen.toNat + 15 := by
        rw [bne_iff_ne, ne_eq, heq]
      by_cases hne : data.length ≠ certsLen.toNat + 15
      · rw [if_pos (hiff.mpr hne), if_pos hne]
        exact ⟨_, rfl⟩
      · rw [if_neg (fun h => hne (hiff.mp h)), if_neg hne]
        have hlen : data.length = certsLen.toNat + 15 := by omega
        have hd0 : (data.drop 15).length = certsLen.toNat := by rw [List.length_drop]; omega
        generalize hR : certCount ((data.drop 15).length + 1) (abs (data.drop 15)) certsLen.toNat 0 = R
        apply agree_bind (Post1 (hdrM m data) (data.drop 15) R)
        · apply forIn_fuel _ (Inv1 (data.drop 15) R) (Post1 (hdrM m data) (data.drop 15) R)
            (fun s => s.2.2.2.length)
          · intro x s hi
            obtain ⟨r, cl, n, d⟩ := s
            obtain ⟨hr, hdl, hn, hw, f, hf, hcc⟩ := hi
            simp only at hr hdl hn hw hf hcc ⊢
            subst hr
            have hcllt := cl.isLt
            obtain ⟨f', rfl⟩ : ∃ f', f = f' + 1 := ⟨f - 1, by omega⟩
            rw [certCount] at hcc
            by_cases hc0 : cl > 0#32
            · have hclpos : cl.toNat ≠ 0 := by
                rw [gt_iff_lt, BitVec.lt_def] at hc0; simp at hc0; omega
              rw [if_neg hclpos, abs_length] at hcc
              simp only [hc0, decide_true, Bool.not_true, Bool.false_eq_true, if_false]
              by_cases h4 : (d.length : Int) < 4
              · left
                rw [if_pos (show d.length < 4 by omega)] at hcc
                simp only [h4, decide_true, if_true]
                exact ⟨_, rfl, Or.inl ⟨rfl, hcc.symm⟩⟩
              · rw [if_neg (show ¬ d.length < 4 by omega)] at hcc
                have i0 : Go.idx d (0 : Int) = .ok (d.getD 0 0#8) := idx_ok d 0 (by omega)
                have i1 : Go.idx d (1 : Int) = .ok (d.getD 1 0#8) := idx_ok d 1 (by omega)
                have i2 : Go.idx d (2 : Int) = .ok (d.getD 2 0#8) := idx_ok d 2 (by omega)
                simp only [h4, decide_false, Bool.false_eq_true, if_false, i0, i1, i2, ok_bind, u24_def,
                  certLen_fold]
                have hk := certLen_step d
                simp only [bind, Outcome.bind, idx24_abs d 0 (by omega), certLen_n24, ← hk, abs_length] at hcc
                have hdn : (BitVec.ofInt 32 (d.length : Int)).toNat = d.length := by
                  rw [BitVec.ofInt_natCast, BitVec.toNat_ofNat]; omega
                by_cases hlt : BitVec.ofInt 32 (d.length : Int) < 3#32 + certLen d
                · left
                  have hlt' : d.length < (3#32 + certLen d).toNat := by
                    rw [BitVec.lt_def, hdn] at hlt; exact hlt
                  rw [if_pos hlt'] at hcc
                  simp only [hlt, decide_true, if_true]
                  exact ⟨_, rfl, Or.inl ⟨rfl, hcc.symm⟩⟩
                · right
                  have hle : (3#32 + certLen d).toNat ≤ d.length := by
                    rw [BitVec.lt_def, hdn] at hlt; omega
                  rw [if_neg (show ¬ d.length < (3#32 + certLen d).toNat by omega),
                    sliceFrom_abs d _ hle] at hcc
                  simp only at hcc
                  simp only [hlt, decide_false, Bool.false_eq_true, if_false,
                    slice_end d _ hle, ok_bind]
                  have hsub : (cl - (3#32 + certLen d)).toNat = cl.toNat - (3#32 + certLen d).toNat :=
                    BitVec.toNat_sub_of_le (by rw [BitVec.le_def]; omega)
                  have hn1 : (n + 1).toNat = n.toNat + 1 := by omega
                  refine ⟨_, rfl, ⟨rfl, ?_, ?_, ?_, f', ?_, ?_⟩, ?_⟩
                  · show (d.drop (3#32 + certLen d).toNat).length = (cl - (3#32 + certLen d)).toNat
                    rw [hsub, List.length_drop]
                    omega
                  · show (0 : Int) ≤ n + 1
                    omega
                  · show walkN (n + 1).toNat (data.drop 15) = some (d.drop (3#32 + certLen d).toNat)
                    rw [hn1]
                    exact walkN_snoc _ _ _ hw (by omega) hle
                  · show (d.drop (3#32 + certLen d).toNat).length < f'
                    rw [List.length_drop]; omega
                  · show certCount f' (abs (d.drop (3#32 + certLen d).toNat)) (cl - (3#32 + certLen d)).toNat
                        (n + 1).toNat = R
                    rw [hsub, hn1, ← hcc]
                    congr 1
                    omega
                  · show (d.drop (3#32 + certLen d).toNat).length < d.length
                    rw [List.length_drop]; omega
            · left
              have hcl0 : cl.toNat = 0 := by
                rw [gt_iff_lt, BitVec.lt_def] at hc0; simp at hc0; omega
              rw [if_pos hcl0] at hcc
              simp only [hc0, decide_false, Bool.not_false, if_true]
              refine ⟨_, rfl, Or.inr ⟨rfl, ?_, hn, ?_, hcc.symm⟩⟩
              · show cl = 0#32
                apply BitVec.eq_of_toNat_eq
                simpa using hcl0
              · show (walkN n.toNat (data.drop 15)).isSome = true
                rw [hw]; rfl
          · exact ⟨rfl, hd0, by simp, rfl, _, Nat.lt_succ_self _, hR⟩
          · simp only [List.length_range, List.length_drop]
            omega
        · intro s hpost
          obtain ⟨r, cl, n, d⟩ := s
          rcases hpost with ⟨hr, hRr⟩ | ⟨hr, hcl0, hn, hw, hRo⟩
          · simp only at hr
            subst hr
            rw [hRr]
            exact ⟨_, rfl⟩
          · simp only at hr hcl0 hn hw hRo
            subst hr; subst hcl0
            have h00 : ¬ (0#32 > 0#32) := by decide
            have hnn : n = ((n.toNat : Nat) : Int) := by omega
            simp only [h00, decide_false, Bool.false_eq_true, if_false]
            rw [hnn, make_ok, hRo]
            simp only [ok_bind, Int.toNat_natCast]
            rw [obind_ok, split_model n.toNat _ hw, obind_ok]
            apply agree_bind (Inv2 (hdrM m data) (data.drop 15) n.toNat [])
            · apply forIn_inv _ (Inv2 (hdrM m data) (data.drop 15) n.toNat)
              · intro x xs s hi
                obtain ⟨mm, d⟩ := s
                obtain ⟨done, hmm, hrem, hwk, hsp⟩ := hi
                simp only at hmm hrem hwk hsp ⊢
                subst hmm
                rw [List.length_cons, List.range'_succ] at hrem
                obtain ⟨hx, hxs⟩ := List.cons.inj hrem
                subst hx
                rw [List.length_cons, walkN] at hwk
                rw [List.length_cons, splitL] at hsp
                split at hwk
                · rename_i hcnd
                  obtain ⟨h4, hle⟩ := hcnd
                  have hk := certLen_step d
                  have i0 : Go.idx d (0 : Int) = .ok (d.getD 0 0#8) := idx_ok d 0 (by omega)
                  have i1 : Go.idx d (1 : Int) = .ok (d.getD 1 0#8) := idx_ok d 1 (by omega)
                  have i2 : Go.idx d (2 : Int) = .ok (d.getD 2 0#8) := idx_ok d 2 (by omega)
                  simp only [i0, i1, i2, ok_bind, u24_def, certLen_fold]
                  have s3 : Go.slice d (3 : Int) ((3#32 + certLen d).toNat : Int)
                      = .ok ((d.drop 3).take ((3#32 + certLen d).toNat - 3)) :=
                    slice_ok d 3 _ (by omega) hle
                  have hset := set_ok (done ++ List.replicate (xs.length + 1) ([] : SBytes)) done.length
                    ((d.drop 3).take ((3#32 + certLen d).toNat - 3)) (by simp)
                  simp only [hdrM, s3, ok_bind, List.length_cons, hset, slice_end d _ hle]
                  refine ⟨_, rfl, ?_⟩
                  refine ⟨done ++ [(d.drop 3).take ((3#32 + certLen d).toNat - 3)], ?_, ?_, hwk, ?_⟩
                  · show _ = ({ hdrM m data with certificates := _ } : Src.dtlcp.certificateMsg)
                    rw [set_done]
                    rfl
                  · rw [List.length_append]
                    exact hxs
                  · rw [List.append_assoc]
                    exact hsp
                · cases hwk
              · refine ⟨[], ?_, ?_, ?_, ?_⟩
                · simp only [List.length_range, List.nil_append]; rfl
                · simp [List.range_eq_range']
                · simpa using hw
                · simp
            · intro s hfin
              obtain ⟨done, hmm, _, _, hsp⟩ := hfin
              simp only [List.length_nil, splitL, List.append_nil, List.replicate_zero] at hmm hsp
              refine ⟨s.1, rfl, ?_⟩
              rw [hmm, hsp]
              rfl

/-! ## `certificateRequestMsg` -/

/-- number of certificate types, rest after the count byte, rest after the types, CA block length -/
def crN (data : SBytes) : Nat := (data.getD 12 0#8).toNat
def crD1 (data : SBytes) : SBytes := (data.drop 13).drop (crN data)
def crCL (data : SBytes) : Nat := n16 ((crD1 data).getD 0 0#8) ((crD1 data).getD 1 0#8)
def crD2 (data : SBytes) : SBytes := (crD1 data).drop 2

/-- the model decoder, header length 12, unfolded down to its loop -/
theorem model_certificateRequest (data : SBytes) :
    decCertificateRequest codesD (abs data) =
      if completeD data 13#8 then
        if data.length < 13 then .reject
        else if crN data = 0 ∨ (data.drop 13).length ≤ crN data then .reject
        else if (crD1 data).length < 2 then .reject
        else if (crD2 data).length < crCL data then .reject
        else
          (casLoop (crCL data + 1) (abs ((crD2 data).take (crCL data)))).bind fun l =>
            if ((crD2 data).drop (crCL data)).length = 0 then
              .ok (hdrView (u16At data 4) (u24At data 6) (u24At data 9),
                   ⟨abs ((data.drop 13).take (crN data)), l⟩)
            else .reject
      else .reject := by
  unfold decCertificateRequest
  rw [model_guard data 13#8 _ codes_facts.2.2.1 codes_facts.2.2.2.2.2.2.2.1, codes_facts.2.2.2.2.2.2.2.2.2.2]
  cases hc : completeD data 13#8
  · rfl
  · obtain ⟨hl, hlen0, _⟩ := completeD_len hc
    simp only [if_true, abs_length]
    by_cases h13 : data.length < 13
    · rw [if_pos (show data.length < 12 + 1 by omega), if_pos h13]
    · rw [if_neg (show ¬ data.length < 12 + 1 by omega), if_neg h13, hdr_model data hl]
      unfold decCertificateRequestAt
      simp only [bind, Outcome.bind, abs_length, idx24_abs data 1 (by omega), idx_abs data 12 (by omega),
        sliceFrom_abs data 13 (by omega), UInt8.toNat_ofBitVec]
      rw [if_neg (show ¬ data.length < 12 + 1 by omega), if_neg (show ¬ data.length - 12 ≠ N24 data 1 by omega)]
      by_cases hct : crN data = 0 ∨ (data.drop 13).length ≤ crN data
      · have hct' : (data.getD 12 0#8).toNat = 0 ∨ (data.drop 13).length ≤ (data.getD 12 0#8).toNat := hct
        simp only [hct, hct', if_true]
      · have hct' : ¬ ((data.getD 12 0#8).toNat = 0 ∨ (data.drop 13).length ≤ (data.getD 12 0#8).toNat) := hct
        have hn : crN data < (data.drop 13).length := by omega
        have htl : ¬ ((abs (data.drop 13)).take (data.getD 12 0#8).toNat).length ≠ (data.getD 12 0#8).toNat := by
          rw [List.length_take, abs_length]; exact fun h => h (Nat.min_eq_left (Nat.le_of_lt hn))
        have hsf : sliceFrom (abs (data.drop 13)) (data.getD 12 0#8).toNat = .ok (abs (crD1 data)) :=
          sliceFrom_abs (data.drop 13) (crN data) (by omega)
        simp only [hct, hct', if_false, htl, hsf, abs_length]
        by_cases h2 : (crD1 data).length < 2
        · simp only [h2, if_true]
        · have hi16 : idx16 (abs (crD1 data)) 0 = .ok (crCL data) := idx16_abs (crD1 data) 0 (by omega)
          have hsf2 : sliceFrom (abs (crD1 data)) 2 = .ok (abs (crD2 data)) := sliceFrom_abs (crD1 data) 2 (by omega)
          simp only [h2, if_false, hi16, hsf2, abs_length]
          by_cases h3 : (crD2 data).length < crCL data
          · simp only [h3, if_true]
          · simp only [h3, if_false, sliceFrom_abs (crD2 data) (crCL data) (by omega), ← abs_take, abs_length,
              List.length_take, Nat.min_eq_left (Nat.le_of_not_lt h3)]
            cases casLoop (crCL data + 1) (abs ((crD2 data).take (crCL data))) with
            | ok l =>
              simp only
              by_cases h0 : ((crD2 data).drop (crCL data)).length = 0
              · simp only [h0, if_true]; rfl
              · simp only [h0, if_false]
            | reject => rfl
            | panic => rfl

def omap {α β : Type} (f : α → β) : Outcome α → Outcome β
  | .ok a => .ok (f a)
  | .reject => .reject
  | .panic => .panic

/-- the value of `m` when the CA loop starts -/
def creqM (data : SBytes) : Src.dtlcp.certificateRequestMsg :=
  { raw := data, certificateTypes := (data.drop 13).take (crN data), certificateAuthorities := [],
    messageSeq := u16At data 4, fragmentOffset := u24At data 6, fragmentLength := u24At data 9 }

abbrev S3 := Option (Src.dtlcp.certificateRequestMsg × Bool) × Src.dtlcp.certificateRequestMsg × SBytes

/-- CA loop, simulation invariant: the names collected so far followed by what the model's loop
(with any sufficient fuel) returns from here is the model's overall answer `R` -/
def Inv3 (data : SBytes) (R : Outcome (List Gotlcp.Bytes)) (s : S3) : Prop :=
  s.1 = none ∧ ∃ acc : List SBytes, s.2.1 = { creqM data with certificateAuthorities := acc } ∧
    ∃ f, s.2.2.length < f ∧ omap (fun rest => acc.map abs ++ rest) (casLoop f (abs s.2.2)) = R

def Post3 (data : SBytes) (R : Outcome (List Gotlcp.Bytes)) (s : S3) : Prop :=
  (∃ mm, s.1 = some (mm, false) ∧ R = .reject) ∨
  (s.1 = none ∧ s.2.2.length = 0 ∧
    ∃ acc : List SBytes, s.2.1 = { creqM data with certificateAuthorities := acc } ∧ R = .ok (acc.map abs))

theorem tie_codec_certificateRequest (m : Src.dtlcp.certificateRequestMsg) (data : SBytes) :
    Agree (fun m' => (hdrView m'.messageSeq m'.fragmentOffset m'.fragmentLength,
                      (⟨abs m'.certificateTypes, m'.certificateAuthorities.map abs⟩ : CertificateRequest)))
      (Src.dtlcp.certificateRequestMsg.unmarshal m data) (decCertificateRequest codesD (abs data)) := by
  rw [model_certificateRequest]
  unfold Src.dtlcp.certificateRequestMsg.unmarshal
  simp only [isComplete_eq, ok_bind]
  cases hc : completeD data 13#8
  · exact ⟨m, rfl⟩
  · obtain ⟨hl, hlen0, _⟩ := completeD_len hc
    simp only [Bool.not_true, Bool.false_eq_true, if_false, if_true]
    by_cases h13 : (data.length : Int) < 13
    · simp only [h13, decide_true, if_true]
      rw [if_pos (show data.length < 13 by omega)]
      exact ⟨_, rfl⟩
    · have hl13 : 13 ≤ data.length := by omega
      rw [if_neg (show ¬ data.length < 13 by omega)]
      obtain ⟨e0, e1, e2, e3, e4, e5, e6, e7, e8, e9, e10, e11⟩ := hdr_idx data hl
      have e12 : Go.idx data (12 : Int) = .ok (data.getD 12 0#8) := idx_ok data 12 (by omega)
      have es : Go.slice data (13 : Int) (data.length : Int) = .ok (data.drop 13) := slice_end data 13 hl13
      have hu : data.length < 2 ^ 24 + 12 := by
        have := n24_lt (data.getD 1 0#8) (data.getD (1 + 1) 0#8) (data.getD (1 + 2) 0#8)
        unfold N24 at hlen0; omega
      -- `uint32(len(data)) - 12 != length` cannot fire behind the guard
      have hne1 : ¬ ((BitVec.ofInt 32 (data.length : Int) - 12#32 !=
          u24 (data.getD 1 0#8) (data.getD 2 0#8) (data.getD 3 0#8)) = true) := by
        rw [bne_iff_ne, ne_eq, Decidable.not_not]
        apply BitVec.eq_of_toNat_eq
        have h12 : (12#32 : BitVec 32) ≤ BitVec.ofInt 32 (data.length : Int) := by
          rw [BitVec.le_def, BitVec.ofInt_natCast, BitVec.toNat_ofNat]; simp; omega
        rw [BitVec.toNat_sub_of_le h12, BitVec.ofInt_natCast, BitVec.toNat_ofNat, u24_toNat,
          Nat.mod_eq_of_lt (by omega)]
        have : N24 data 1 = n24 (data.getD 1 0#8) (data.getD 2 0#8) (data.getD 3 0#8) := rfl
        have h12n : (12#32 : BitVec 32).toNat = 12 := rfl
        rw [h12n]
        omega
      simp only [h13, decide_false, Bool.false_eq_true, if_false, e1, e2, e3, e4, e5, e6, e7, e8, e9,
        e10, e11, e12, ok_bind, es, u24_def, hne1]
      have hsrc1 : ((((data.getD 12 0#8).toNat : Int) == 0) ||
          decide (((data.drop 13).length : Int) ≤ ((data.getD 12 0#8).toNat : Int))) = true ↔
          (crN data = 0 ∨ (data.drop 13).length ≤ crN data) := by
        simp only [Bool.or_eq_true, beq_iff_eq, decide_eq_true_eq, crN]
        omega
      by_cases hct : crN data = 0 ∨ (data.drop 13).length ≤ crN data
      · rw [if_pos (hsrc1.mpr hct), if_pos hct]
        exact ⟨_, rfl⟩
      · rw [if_neg (fun h => hct (hsrc1.mp h)), if_neg hct]
        have hn : crN data < (data.drop 13).length := by omega
        have hcrN : (data.getD 12 0#8).toNat = crN data := rfl
        rw [hcrN, make_ok]
        simp only [ok_bind]
        rw [copyInto_take _ _ (by rw [List.length_replicate]; omega)]
        simp only [ok_bind, List.length_replicate]
        have hmin : ¬ ((min (((data.drop 13).take (crN data)).length : Int) ((data.drop 13).length : Int)
            != (crN data : Int)) = true) := by
          rw [bne_iff_ne, ne_eq, Decidable.not_not, List.length_take]
          omega
        have s1 : Go.slice (data.drop 13) (crN data : Int) ((data.drop 13).length : Int) = .ok (crD1 data) :=
          slice_end (data.drop 13) (crN data) (by omega)
        simp only [hmin, if_false, s1, ok_bind]
        by_cases h2 : (crD1 data).length < 2
        · have h2' : ((crD1 data).length : Int) < 2 := by omega
          simp only [h2', decide_true, if_true]
          rw [if_pos h2]
          exact ⟨_, rfl⟩
        · have h2' : ¬ ((crD1 data).length : Int) < 2 := by omega
          rw [if_neg h2]
          have j0 : Go.idx (crD1 data) (0 : Int) = .ok ((crD1 data).getD 0 0#8) := idx_ok _ 0 (by omega)
          have j1 : Go.idx (crD1 data) (1 : Int) = .ok ((crD1 data).getD 1 0#8) := idx_ok _ 1 (by omega)
          have s2 : Go.slice (crD1 data) (2 : Int) ((crD1 data).length : Int) = .ok (crD2 data) :=
            slice_end (crD1 data) 2 (by omega)
          have hcl : (u16 ((crD1 data).getD 0 0#8) ((crD1 data).getD 1 0#8)).toNat = crCL data := u16_toNat _ _
          simp only [h2', decide_false, Bool.false_eq_true, if_false, j0, j1, s2, ok_bind, u16_def, hcl]
          by_cases h3 : (crD2 data).length < crCL data
          · have h3' : ((crD2 data).length : Int) < (crCL data : Int) := by omega
            simp only [h3', decide_true, if_true]
            rw [if_pos h3]
            exact ⟨_, rfl⟩
          · have h3' : ¬ ((crD2 data).length : Int) < (crCL data : Int) := by omega
            have hcle : crCL data ≤ (crD2 data).length := by omega
            rw [if_neg h3]
            simp only [h3', decide_false, Bool.false_eq_true, if_false, make_ok, ok_bind]
            rw [copyInto_take _ _ (by rw [List.length_replicate]; omega)]
            simp only [ok_bind, List.length_replicate, slice_end (crD2 data) (crCL data) hcle]
            generalize hR : casLoop (crCL data + 1) (abs ((crD2 data).take (crCL data))) = R
            have hbl : (crD2 data).length ≤ data.length := by
              simp only [crD2, crD1, List.length_drop]; omega
            apply agree_bind (Post3 data R)
            · apply forIn_fuel _ (Inv3 data R) (Post3 data R) (fun s => s.2.2.length)
              · intro x s hi
                obtain ⟨r, mm, cas⟩ := s
                obtain ⟨hr, acc, hmm, f, hf, hsim⟩ := hi
                simp only at hr hmm hf hsim ⊢
                subst hr; subst hmm
                obtain ⟨f', rfl⟩ : ∃ f', f = f' + 1 := ⟨f - 1, by omega⟩
                rw [casLoop, abs_length] at hsim
                by_cases hc0 : (cas.length : Int) > 0
                · rw [if_neg (show ¬ cas.length = 0 by omega)] at hsim
                  simp only [hc0, decide_true, Bool.not_true, Bool.false_eq_true, if_false]
                  by_cases hc2 : (cas.length : Int) < 2
                  · left
                    rw [if_pos (show cas.length < 2 by omega)] at hsim
                    simp only [hc2, decide_true, if_true]
                    exact ⟨_, rfl, Or.inl ⟨_, rfl, hsim.symm⟩⟩
                  · rw [if_neg (show ¬ cas.length < 2 by omega)] at hsim
                    have k0 : Go.idx cas (0 : Int) = .ok (cas.getD 0 0#8) := idx_ok cas 0 (by omega)
                    have k1 : Go.idx cas (1 : Int) = .ok (cas.getD 1 0#8) := idx_ok cas 1 (by omega)
                    have s3 : Go.slice cas (2 : Int) (cas.length : Int) = .ok (cas.drop 2) :=
                      slice_end cas 2 (by omega)
                    have hca : (u16 (cas.getD 0 0#8) (cas.getD 1 0#8)).toNat = n16 (cas.getD 0 0#8) (cas.getD 1 0#8) :=
                      u16_toNat _ _
                    simp only [hc2, decide_false, Bool.false_eq_true, if_false, k0, k1, s3, ok_bind, u16_def, hca]
                    simp only [bind, Outcome.bind, idx16_abs cas 0 (by omega), sliceFrom_abs cas 2 (by omega),
                      abs_length] at hsim
                    by_cases hc3 : (cas.drop 2).length < n16 (cas.getD 0 0#8) (cas.getD (0 + 1) 0#8)
                    · left
                      have hc3' : (((cas.drop 2).length : Nat) : Int) < ((n16 (cas.getD 0 0#8) (cas.getD 1 0#8) : Nat) : Int) := by
                        have : n16 (cas.getD 0 0#8) (cas.getD (0 + 1) 0#8) = n16 (cas.getD 0 0#8) (cas.getD 1 0#8) := rfl
                        omega
                      rw [if_pos hc3] at hsim
                      simp only [hc3', decide_true, if_true]
                      exact ⟨_, rfl, Or.inl ⟨_, rfl, hsim.symm⟩⟩
                    · right
                      have hle : n16 (cas.getD 0 0#8) (cas.getD 1 0#8) ≤ (cas.drop 2).length := by
                        have : n16 (cas.getD 0 0#8) (cas.getD (0 + 1) 0#8) = n16 (cas.getD 0 0#8) (cas.getD 1 0#8) := rfl
                        omega
                      have hc3' : ¬ (((cas.drop 2).length : Nat) : Int) < ((n16 (cas.getD 0 0#8) (cas.getD 1 0#8) : Nat) : Int) := by
                        omega
                      rw [if_neg hc3] at hsim
                      have hsl : slice (abs (cas.drop 2)) 0 (n16 (cas.getD 0 0#8) (cas.getD (0 + 1) 0#8)) =
                          .ok (abs (((cas.drop 2).drop 0).take (n16 (cas.getD 0 0#8) (cas.getD 1 0#8) - 0))) :=
                        slice_abs (cas.drop 2) 0 _ (by omega) hle
                      have hsf : sliceFrom (abs (cas.drop 2)) (n16 (cas.getD 0 0#8) (cas.getD (0 + 1) 0#8)) =
                          .ok (abs ((cas.drop 2).drop (n16 (cas.getD 0 0#8) (cas.getD 1 0#8)))) :=
                        sliceFrom_abs (cas.drop 2) _ hle
                      simp only [hsl, hsf] at hsim
                      have s4 : Go.slice (cas.drop 2) (0 : Int) ((n16 (cas.getD 0 0#8) (cas.getD 1 0#8) : Nat) : Int)
                          = .ok (((cas.drop 2).drop 0).take (n16 (cas.getD 0 0#8) (cas.getD 1 0#8) - 0)) :=
                        slice_ok (cas.drop 2) 0 _ (by omega) hle
                      simp only [hc3', decide_false, Bool.false_eq_true, if_false, s4, ok_bind,
                        slice_end (cas.drop 2) _ hle]
                      refine ⟨_, rfl, ⟨rfl, acc ++ [((cas.drop 2).drop 0).take (n16 (cas.getD 0 0#8) (cas.getD 1 0#8) - 0)],
                        rfl, f', ?_, ?_⟩, ?_⟩
                      · show ((cas.drop 2).drop _).length < f'
                        rw [List.length_drop, List.length_drop]; omega
                      · show omap _ (casLoop f' (abs ((cas.drop 2).drop _))) = R
                        rw [← hsim]
                        cases casLoop f' (abs ((cas.drop 2).drop (n16 (cas.getD 0 0#8) (cas.getD 1 0#8)))) with
                        | ok rest => simp [omap, pure]
                        | reject => rfl
                        | panic => rfl
                      · show ((cas.drop 2).drop _).length < cas.length
                        rw [List.length_drop, List.length_drop]; omega
                · left
                  have hcz : cas.length = 0 := by omega
                  rw [if_pos hcz] at hsim
                  simp only [hc0, decide_false, Bool.not_false, if_true]
                  refine ⟨_, rfl, Or.inr ⟨rfl, hcz, acc, rfl, ?_⟩⟩
                  rw [← hsim]
                  simp [omap]
              · refine ⟨rfl, [], rfl, crCL data + 1, ?_, ?_⟩
                · show ((crD2 data).take (crCL data)).length < crCL data + 1
                  rw [List.length_take]; omega
                · show omap _ (casLoop (crCL data + 1) (abs ((crD2 data).take (crCL data)))) = R
                  rw [hR]
                  cases R <;> simp [omap]
              · simp only [List.length_range, List.length_take]
                omega
            · intro s hpost
              obtain ⟨r, mm, cas⟩ := s
              rcases hpost with ⟨mm', hr, hRr⟩ | ⟨hr, hc0, acc, hmm, hRo⟩
              · simp only at hr
                subst hr
                rw [hRr]
                exact ⟨_, rfl⟩
              · simp only at hr hc0 hmm
                subst hr; subst hmm
                have h00 : ¬ ((cas.length : Int) > 0) := by omega
                simp only [h00, decide_false, Bool.false_eq_true, if_false]
                rw [hRo, obind_ok]
                by_cases hend : ((crD2 data).drop (crCL data)).length = 0
                · rw [if_pos hend, hend]
                  exact ⟨_, rfl, rfl⟩
                · rw [if_neg hend]
                  have : ((((crD2 data).drop (crCL data)).length : Int) == 0) = false := by
                    rw [beq_eq_false_iff_ne]; omega
                  rw [this]
                  exact ⟨_, rfl⟩

/-! ## `dtlcpWriteHeader` (the encoder side of the twelve header bytes) -/

theorem ofBitVec_ofNat (n : Nat) : UInt8.ofBitVec (BitVec.ofNat 8 n) = u8 n := rfl

theorem byte_int (n k : Nat) : UInt8.ofBitVec (BitVec.ofInt 8 ((n : Int) >>> k)) = u8 (n / 2 ^ k) := by
  have : (n : Int) >>> k = ((n / 2 ^ k : Nat) : Int) := by
    rw [Int.shiftRight_eq_div_pow]; norm_cast
  rw [this, BitVec.ofInt_natCast, ofBitVec_ofNat]

theorem byte_int0 (n : Nat) : UInt8.ofBitVec (BitVec.ofInt 8 (n : Int)) = u8 n := by
  rw [BitVec.ofInt_natCast, ofBitVec_ofNat]

theorem byte_bv {w : Nat} (x : BitVec w) (k : Nat) :
    UInt8.ofBitVec (BitVec.setWidth 8 (x >>> k)) = u8 (x.toNat / 2 ^ k) := by
  apply UInt8.toNat_inj.mp
  rw [u8_toNat]
  show (BitVec.setWidth 8 (x >>> k)).toNat = _
  rw [BitVec.toNat_setWidth, BitVec.toNat_ushiftRight, Nat.shiftRight_eq_div_pow]

theorem byte_bv0 {w : Nat} (x : BitVec w) : UInt8.ofBitVec (BitVec.setWidth 8 x) = u8 x.toNat := by
  apply UInt8.toNat_inj.mp
  rw [u8_toNat]
  show (BitVec.setWidth 8 x).toNat = _
  rw [BitVec.toNat_setWidth]

/-- on a destination of at least 12 bytes the translated `dtlcpWriteHeader` overwrites the first
twelve with exactly the model's header bytes (`bodyLen` is a Go `int`; callers pass a length) and
leaves the rest alone -/
theorem tie_codec_writeHeader (dst : SBytes) (h : 12 ≤ dst.length) (t : BitVec 8) (bodyLen : Nat)
    (seq : BitVec 16) (fo fl : BitVec 32) :
    ∃ r, Src.dtlcp.dtlcpWriteHeader dst t (bodyLen : Int) seq fo fl = .ok r ∧
      abs r = writeHeader t.toNat bodyLen (W16.ofNat seq.toNat) fo.toNat fl.toNat ++ abs (dst.drop 12) := by
  match dst, h with
  | b0 :: b1 :: b2 :: b3 :: b4 :: b5 :: b6 :: b7 :: b8 :: b9 :: b10 :: b11 :: rest, _ =>
    refine ⟨t :: BitVec.ofInt 8 ((bodyLen : Int) >>> 16) :: BitVec.ofInt 8 ((bodyLen : Int) >>> 8) ::
      BitVec.ofInt 8 (bodyLen : Int) :: BitVec.setWidth 8 (seq >>> 8) :: BitVec.setWidth 8 seq ::
      BitVec.setWidth 8 (fo >>> 16) :: BitVec.setWidth 8 (fo >>> 8) :: BitVec.setWidth 8 fo ::
      BitVec.setWidth 8 (fl >>> 16) :: BitVec.setWidth 8 (fl >>> 8) :: BitVec.setWidth 8 fl :: rest, rfl, ?_⟩
    simp only [abs, List.map_cons, List.drop_succ_cons, List.drop_zero,
      writeHeader, be24, W16.bytes, W16.ofNat, List.cons_append, List.nil_append, List.append_assoc]
    rw [byte_int bodyLen 16, byte_int bodyLen 8, byte_int0, byte_bv seq 8, byte_bv0 seq, byte_bv fo 16,
      byte_bv fo 8, byte_bv0 fo, byte_bv fl 16, byte_bv fl 8, byte_bv0 fl, u8_toNat_bv]

end Gotlcp.Tie.UnmarshalDtlcpCodec

/-
Tie by translation, dtlcp cookie code: `clientHelloMsg.marshalForCookie`
(dtlcp/handshake_server.go), `generateCookie`, `verifyCookie` (dtlcp/cookie.go) are regenerated
from the Go source on every run by `harness/cmd/go2lean` (`Gotlcp.Src.dtlcp`; the keyed hash is the
parameter `ext.hmacSM3`, `subtle.ConstantTimeCompare` is equality).  The theorems below prove, for
ALL hellos, addresses, secrets and cookies, that the translated text feeds exactly the model's
byte strings (`Gotlcp.Model.Cookie`) to the MAC.
-/
import Gotlcp.Generated.Src
import Gotlcp.Model.Cookie

namespace Gotlcp.Tie.Cookie
open Gotlcp.Model.Cookie

abbrev BV := List (BitVec 8)

/-- bytes of the translation (`BitVec 8`) as bytes of the models (`UInt8`) -/
def toBytes (l : BV) : Bytes := l.map UInt8.ofBitVec

@[simp] theorem toBytes_append (a b : BV) : toBytes (a ++ b) = toBytes a ++ toBytes b := by
  simp [toBytes]
@[simp] theorem toBytes_nil : toBytes [] = [] := rfl
@[simp] theorem toBytes_cons (a : BitVec 8) (l : BV) : toBytes (a :: l) = UInt8.ofBitVec a :: toBytes l := rfl
@[simp] theorem toBytes_length (a : BV) : (toBytes a).length = a.length := by simp [toBytes]

/-- the covered fields of a translated `clientHelloMsg` -/
def absHello (m : Src.dtlcp.clientHelloMsg) : Hello :=
  { vers := m.vers.toNat, random := toBytes m.random, sessionId := toBytes m.sessionId,
    suites := m.cipherSuites.map (·.toNat), compression := toBytes m.compressionMethods }

theorem b8_ofInt (n : Nat) : UInt8.ofBitVec (BitVec.ofInt 8 (n : Int)) = b8 n := by
  apply UInt8.toBitVec_inj.mp
  simp [b8, BitVec.ofInt_natCast]
  rfl

theorem b8_ofInt_shr (n : Nat) : UInt8.ofBitVec (BitVec.ofInt 8 ((n : Int) >>> 8)) = b8 (n / 256) := by
  have : ((n : Int) >>> 8) = ((n / 256 : Nat) : Int) := by
    rw [Int.shiftRight_eq_div_pow]; norm_cast
  rw [this, b8_ofInt]

theorem b8_setWidth (v : BitVec 16) : UInt8.ofBitVec (BitVec.setWidth 8 v) = b8 v.toNat := by
  apply UInt8.toBitVec_inj.mp
  simp [b8, UInt8.toBitVec_ofNat]
  apply BitVec.eq_of_toNat_eq
  simp

theorem b8_setWidth_shr (v : BitVec 16) : UInt8.ofBitVec (BitVec.setWidth 8 (v >>> 8)) = b8 (v.toNat / 256) := by
  rw [b8_setWidth]
  simp [BitVec.toNat_ushiftRight, Nat.shiftRight_eq_div_pow]

/-- the `for _, cs := range m.cipherSuites { b = append(b, f cs...) }` loop -/
theorem append_loop {α : Type} (f : α → BV) (l : List α) (b : BV) :
    (forIn (m := Id) l b (fun cs r => ForInStep.yield (r ++ f cs))) = b ++ l.flatMap f := by
  induction l generalizing b with
  | nil => simp; rfl
  | cons c l ih =>
    simp only [List.forIn_cons, List.flatMap_cons]
    show forIn (m := Id) l (b ++ f c) _ = _
    rw [ih]; simp

/-- `marshalForCookie`, any hello: the translated source produces the model's bytes -/
theorem tie_marshalForCookie (m : Src.dtlcp.clientHelloMsg) :
    toBytes (Src.dtlcp.clientHelloMsg.marshalForCookie m) = marshalForCookie (absHello m) := by
  unfold Src.dtlcp.clientHelloMsg.marshalForCookie marshalForCookie absHello
  simp only [Id.run, pure, bind]
  rw [append_loop (fun (cs : BitVec 16) => [BitVec.setWidth 8 (cs >>> (8 : Nat)), BitVec.setWidth 8 cs])]
  simp only [toBytes_append, toBytes_cons, toBytes_nil, List.nil_append, List.append_assoc,
    b8_ofInt, b8_ofInt_shr, b8_setWidth, b8_setWidth_shr, u16, toBytes_length, List.length_map,
    List.cons_append, List.flatMap_map]
  have hflat : ∀ l : List (BitVec 16),
      toBytes (l.flatMap fun (cs : BitVec 16) => [BitVec.setWidth 8 (cs >>> (8 : Nat)), BitVec.setWidth 8 cs])
        = l.flatMap fun a => [b8 (a.toNat / 256), b8 a.toNat] := by
    intro l
    induction l with
    | nil => rfl
    | cons c l ih => simp [List.flatMap_cons, ih, b8_setWidth, Nat.shiftRight_eq_div_pow]
  rw [hflat]
  simp [BitVec.toNat_ushiftRight, Nat.shiftRight_eq_div_pow]

/-- what the translated `generateCookie` writes into the keyed hash -/
def srcCookieInput (addr params : BV) : BV :=
  [] ++ [BitVec.ofInt 8 ((addr.length : Int) >>> 8), BitVec.ofInt 8 (addr.length : Int)] ++ addr ++ params

/-- `generateCookie`: the translated source MACs, under the given secret, exactly
`srcCookieInput` — whatever the keyed hash is -/
theorem tie_generateCookie (ext : Go.Extern) (secret addr params : BV) :
    Src.dtlcp.generateCookie ext secret addr params = ext.hmacSM3 secret (srcCookieInput addr params) := by
  unfold Src.dtlcp.generateCookie srcCookieInput
  simp only [Id.run, pure, bind]

/-- … and that input is the model's framed input (16-bit address length, address, parameters) -/
theorem tie_cookieInput (addr params : BV) :
    toBytes (srcCookieInput addr params) = cookieInputFramed (toBytes addr) (toBytes params) := by
  unfold srcCookieInput cookieInputFramed
  simp only [toBytes_append, toBytes_cons, toBytes_nil, List.nil_append, b8_ofInt, b8_ofInt_shr, u16,
    toBytes_length, List.append_assoc, List.cons_append]

/-- `verifyCookie`: recompute and compare for equality -/
theorem tie_verifyCookie (ext : Go.Extern) (secret addr params cookie : BV) :
    Src.dtlcp.verifyCookie ext secret addr params cookie
      = decide (ext.hmacSM3 secret (srcCookieInput addr params) = cookie) := by
  unfold Src.dtlcp.verifyCookie
  simp only [Id.run, pure, bind, tie_generateCookie, Go.constantTimeCompare]
  by_cases h : ext.hmacSM3 secret (srcCookieInput addr params) = cookie <;> simp [h]

theorem toBytes_inj {a b : BV} (h : toBytes a = toBytes b) : a = b := by
  induction a generalizing b with
  | nil => cases b with
    | nil => rfl
    | cons _ _ => simp [toBytes] at h
  | cons x a ih => cases b with
    | nil => simp [toBytes] at h
    | cons y b =>
      simp only [toBytes_cons, List.cons.injEq] at h
      have hx : x = y := by
        have := congrArg UInt8.toBitVec h.1
        simpa using this
      rw [hx, ih h.2]

end Gotlcp.Tie.Cookie

/-
Tie by translation, the record-size arithmetic of both stacks (tlcp/conn.go, dtlcp/conn.go):
`Gotlcp.Src.{tlcp,dtlcp}.halfConn.explicitNonceLen` and `Conn.maxPayloadSizeForWrite` are
regenerated from the Go source on every run by `harness/cmd/go2lean`, over *view* structures
(`Conn`, `Config`, `halfConn`, `goSized`, `goAEAD`, `goCBC`, `goStream`; `Dyn` = the dynamic type of
the interface value `c.out.cipher`).  The theorems below prove, for ALL views in the stated ranges,
that they compute what the hand-written models `Gotlcp.Model.RecordTx` (C06) and
`Gotlcp.Model.DtlcpTx` (C15) compute — C06 instantiated with the regenerated facts, C15 with the
literal `Model.DtlcpTx.treeConsts` (so the C15 tie does not depend on any text-matching fact about
these very functions: a rename-only edit leaves it intact, a semantic edit breaks it).

Go `int64` counters are `BitVec 64` with signed comparisons; `x & ^(b-1)` on `int` is
`Go.andInt x (Int.not (b - 1))` (two's complement on 64 bits), shown here to be rounding down to
a multiple of `b` for every power of two `b ≤ 2^62` and every 64-bit `x` (`andInt_mask`).

Core Lean only.
-/
import Gotlcp.Generated.Src
import Gotlcp.Generated.Facts
import Gotlcp.Model.RecordTx
import Gotlcp.Model.RecordTxFacts
import Gotlcp.Model.DtlcpTx

set_option linter.unusedSimpArgs false
set_option linter.unusedVariables false

namespace Gotlcp.Tie.RecordSize

/-! ### `x & ^(b - 1)` for a power of two `b` -/

/-- the masks `^(2^k - 1)`, `k ≤ 62`, as 64-bit words (kernel evaluation of the 63 cases) -/
theorem mask_eq : ∀ k : Fin 63,
    BitVec.ofInt 64 (Int.not ((2 : Int) ^ k.val - 1)) = BitVec.allOnes 64 <<< k.val := by decide

/-- Go's `x & ^(2^k - 1)` on a 64-bit `int` rounds `x` down (towards −∞) to a multiple of `2^k` -/
theorem andInt_mask (x : Int) (k : Nat) (hk : k ≤ 62)
    (hlo : -(2 : Int) ^ 63 ≤ x) (hhi : x < (2 : Int) ^ 63) :
    Go.andInt x (Int.not ((2 : Int) ^ k - 1)) = x / (2 : Int) ^ k * (2 : Int) ^ k := by
  unfold Go.andInt
  rw [mask_eq ⟨k, by omega⟩, ← BitVec.shiftLeft_ushiftRight]
  have hpq : (2 : Nat) ^ (63 - k) * 2 ^ k = 2 ^ 63 := by
    rw [← Nat.pow_add]; congr 1; omega
  have hppos : 0 < (2 : Nat) ^ k := Nat.pow_pos (by decide)
  generalize hp : (2 : Nat) ^ k = p at hpq hppos
  generalize hq : (2 : Nat) ^ (63 - k) = q at hpq
  have hpI : (2 : Int) ^ k = (p : Int) := by rw [← hp]; simp
  rw [hpI]
  have hqpI : (q : Int) * p = 2 ^ 63 := by
    have : ((q * p : Nat) : Int) = ((2 ^ 63 : Nat) : Int) := by rw [hpq]
    rw [Int.natCast_mul] at this
    rw [this]; rfl
  have hvn : (BitVec.ofInt 64 x).toNat = (x % 2 ^ 64).toNat := by simp
  have hr : ((BitVec.ofInt 64 x >>> k) <<< k).toNat = (BitVec.ofInt 64 x).toNat / p * p := by
    rw [BitVec.toNat_shiftLeft, BitVec.toNat_ushiftRight, Nat.shiftRight_eq_div_pow, Nat.shiftLeft_eq, hp]
    apply Nat.mod_eq_of_lt
    have := Nat.div_mul_le_self (BitVec.ofInt 64 x).toNat p
    have := (BitVec.ofInt 64 x).isLt
    omega
  rw [BitVec.toInt_eq_toNat_cond, hr]
  generalize hv : (BitVec.ofInt 64 x).toNat = vn at hvn hr
  have hle : vn / p * p ≤ vn := Nat.div_mul_le_self vn p
  have e : ((vn / p * p : Nat) : Int) = (vn : Int) / p * p := by
    rw [Int.natCast_mul, Int.natCast_ediv]
  by_cases hx : 0 ≤ x
  · have hvx : (vn : Int) = x := by omega
    have : 2 * (vn / p * p) < 2 ^ 64 := by omega
    rw [if_pos this, e, hvx]
  · have hvx : (vn : Int) = x + 2 * q * p := by
      rw [Int.mul_assoc, hqpI]; omega
    have hge : q * p ≤ vn / p * p := by
      apply Nat.mul_le_mul_right
      rw [Nat.le_div_iff_mul_le hppos]
      omega
    have : ¬ 2 * (vn / p * p) < 2 ^ 64 := by omega
    rw [if_neg this, e, hvx,
      Int.add_mul_ediv_right _ _ (by omega : (p : Int) ≠ 0), Int.add_mul, Int.mul_assoc, hqpI]
    generalize x / (p : Int) * p = y
    omega

/-- the instance the suites use: block size 16 -/
theorem andInt_mask16 (x : Int) (hlo : -(2 : Int) ^ 63 ≤ x) (hhi : x < (2 : Int) ^ 63) :
    Go.andInt x (Int.not (16 - 1)) = x / 16 * 16 :=
  andInt_mask x 4 (by decide) hlo hhi

/-- the Nat-level mask of `Model.RecordTx.andNotMask` is the same rounding -/
theorem andNotMask_pow (x k : Nat) :
    Model.RecordTx.andNotMask x (2 ^ k) = x / 2 ^ k * 2 ^ k := by
  unfold Model.RecordTx.andNotMask
  rw [Nat.and_two_pow_sub_one_eq_mod]
  generalize (2 : Nat) ^ k = p
  have h := Nat.div_add_mod x p
  rw [Nat.mul_comm (x / p) p]
  generalize p * (x / p) = y at h ⊢
  omega

/-- a non-negative `int64`: its value is its bit pattern, below `2^63` -/
theorem toInt_nonneg (x : BitVec 64) (h : 0 ≤ x.toInt) : x.toInt = x.toNat ∧ x.toNat < 2 ^ 63 := by
  rw [BitVec.toInt_eq_toNat_cond] at h ⊢
  have := x.isLt
  by_cases hc : 2 * x.toNat < 2 ^ 64
  · rw [if_pos hc]; exact ⟨rfl, by omega⟩
  · rw [if_neg hc] at h; omega

/-! ## tlcp (C06) -/

namespace Tlcp
open Gotlcp.Model.RecordTx

abbrev SrcConn := Gotlcp.Src.tlcp.Conn
abbrev SrcHalf := Gotlcp.Src.tlcp.halfConn

/-- the parameters of the tree under test (the record the C06 theorems use) -/
abbrev P : Params := factsTx

/-- what the source text (whose constants go/types folded into literals) needs of the facts -/
theorem P_facts :
    P.tcpMSSEstimate = 1208 ∧ P.recordHeaderLen = 5 ∧ P.maxPlaintext = 16384 ∧
    P.boostThreshold = 131072 ∧ P.pktGuard = 1000 ∧ P.aeadExplicit = 8 ∧ P.aeadOverhead = 16 ∧
    P.blockSize = 16 ∧ P.macSize = 32 := by decide

/-- abstraction: the two `int64` counters read as natural numbers -/
def abs (c : SrcConn) : TxState := ⟨c.bytesSent.toNat, c.packetsSent.toNat⟩

/-- the view `hc` of `c.out` is protected as `k`, with the size parameters of the real suites -/
inductive Matches (hc : SrcHalf) : Kind → Prop
  | none : hc.cipher = .nil → Matches hc .none
  | aead (a : Src.tlcp.goAEAD) : hc.cipher = .goAEAD a → a.overhead = (P.aeadOverhead : Int) →
      a.nonce = (P.aeadExplicit : Int) → Matches hc .aead
  | cbc (b : Src.tlcp.goCBC) : hc.cipher = .goCBC b → b.blockSize = (P.blockSize : Int) →
      hc.mac.size = (P.macSize : Int) → Matches hc .cbc

/-- `halfConn.explicitNonceLen` of ANY view: never an error (the `default: panic` arm is reached by
no `Dyn` value: `nil` returns before the switch) -/
theorem src_nonce (hc : SrcHalf) :
    Src.tlcp.halfConn.explicitNonceLen hc = .ok (match hc.cipher with
      | .nil => 0 | .goStream _ => 0 | .goAEAD a => a.nonce | .goCBC b => b.blockSize) := by
  unfold Src.tlcp.halfConn.explicitNonceLen
  cases h : hc.cipher <;>
    simp [pure, Except.pure, Src.tlcp.goAEAD.explicitNonceLen, Src.tlcp.goCBC.BlockSize, Id.run]

/-- `explicitNonceLen` equals the model's -/
theorem tie_explicitNonceLen (hc : SrcHalf) (k : Kind) (hm : Matches hc k) :
    Src.tlcp.halfConn.explicitNonceLen hc = .ok (explicitNonceLen P k : Int) := by
  rw [src_nonce]
  cases hm with
  | none h => rw [h]; rfl
  | aead a h _ hn => rw [h]; simp only [hn, explicitNonceLen]
  | cbc b h hb _ => rw [h]; simp only [hb, explicitNonceLen]

/-- `payloadBytes` after the type switch, as the source text computes it, per dynamic type -/
def srcPayloadBytes (hc : SrcHalf) : Int :=
  match hc.cipher with
  | .nil => 1203
  | .goStream _ => 1203 - 0 - hc.mac.size
  | .goAEAD a => 1203 - a.nonce - a.overhead
  | .goCBC b => Go.andInt (1203 - b.blockSize) (Int.not (b.blockSize - 1)) - 1 - hc.mac.size

/-- the result of `maxPayloadSizeForWrite` as a total function of the view -/
def srcResult (c : SrcConn) (typ : BitVec 8) : SrcConn × Int :=
  if c.config.DynamicRecordSizingDisabled || typ != 23#8 then (c, 16384)
  else if BitVec.sle 131072#64 c.bytesSent then (c, 16384)
  else
    let c' := { c with packetsSent := c.packetsSent + 1#64 }
    if BitVec.slt 1000#64 c.packetsSent then (c', 16384)
    else if srcPayloadBytes c.out * (c.packetsSent + 1#64).toInt > 16384 then (c', 16384)
    else (c', srcPayloadBytes c.out * (c.packetsSent + 1#64).toInt)

/-- **No panic, any view.**  The translated `maxPayloadSizeForWrite` returns normally for EVERY
view — every dynamic type of `c.out.cipher` (also `goStream`, which no TLCP suite installs: then
the MAC length is subtracted and nothing else), every counter value (also negative ones), every
record type: the `default: panic("unknown cipher type")` arm is reached by no value of `Dyn`. -/
theorem src_shape (c : SrcConn) (typ : BitVec 8) :
    Src.tlcp.Conn.maxPayloadSizeForWrite c typ = .ok (srcResult c typ) := by
  unfold Src.tlcp.Conn.maxPayloadSizeForWrite srcResult srcPayloadBytes
  -- first, while every `Decidable` instance still matches its proposition syntactically
  simp only [decide_eq_true_eq]
  simp only [src_nonce]
  -- The proof does not follow the order or the spelling of the statements: every condition the
  -- function can test is decided first (each atom on its own, so `a || b` and `b || a`, or the two
  -- early returns swapped, make no difference), then both sides are straight-line arithmetic, closed
  -- up to commutative-ring / linear normalisation (`1208 - (5 + n)` vs `1203 - n`, `a * b` vs `b * a`,
  -- `n = 16384` vs an early `return 16384`).  A renaming or an equivalent re-arrangement of the Go
  -- function is accepted; a different value for any view is not (`srcResult` is fixed).
  cases hd : c.config.DynamicRecordSizingDisabled <;>
  by_cases ht : typ = 23#8 <;>
  by_cases h2 : BitVec.sle 131072#64 c.bytesSent = true <;>
  cases h : c.out.cipher <;>
  by_cases h3 : BitVec.slt 1000#64 c.packetsSent = true <;>
    simp only [hd, ht, h2, h3, bind, Except.bind, pure, Except.pure, Src.tlcp.goAEAD.Overhead, Src.tlcp.goCBC.BlockSize,
      Src.tlcp.goSized.Size, Id.run, bne_self_eq_false, Bool.false_eq_true, if_false, Bool.or_false, Bool.false_or,
      Bool.or_true, Bool.true_or, Bool.or_self,
      bne_iff_ne, ne_eq, reduceCtorEq, not_false_eq_true, not_true_eq_false, if_true, decide_eq_true_eq, Int.sub_zero,
      apply_ite (Except.ok (ε := String))] <;>
    (first | done | rfl | grind)

/-- the function touches nothing but `packetsSent` -/
theorem srcResult_frame (c : SrcConn) (typ : BitVec 8) :
    (srcResult c typ).1.config = c.config ∧ (srcResult c typ).1.out = c.out ∧
    (srcResult c typ).1.bytesSent = c.bytesSent := by
  unfold srcResult
  simp only []
  split
  · exact ⟨rfl, rfl, rfl⟩
  · split
    · exact ⟨rfl, rfl, rfl⟩
    · split
      · exact ⟨rfl, rfl, rfl⟩
      · split <;> exact ⟨rfl, rfl, rfl⟩

/-- `payloadBytes` of the source text is the model's, for the three protections TLCP has -/
theorem tie_payloadBytes (hc : SrcHalf) (k : Kind) (hm : Matches hc k) :
    srcPayloadBytes hc = payloadBytes P k := by
  obtain ⟨h1, h2, _, _, _, h6, h7, h8, h9⟩ := P_facts
  unfold srcPayloadBytes
  cases hm with
  | none h => rw [h]; simp only [payloadBytes, explicitNonceLen, h1, h2]; decide
  | aead a h ho hn =>
    rw [h]; simp only [ho, hn, payloadBytes, explicitNonceLen, h1, h2, h6, h7]; decide
  | cbc b h hb hmac =>
    rw [h]
    simp only [hb, hmac, payloadBytes, explicitNonceLen, h1, h2, h8, h9]
    have e : Go.andInt ((1203 : Int) - ((16 : Nat) : Int)) (Int.not (((16 : Nat) : Int) - 1)) = 1184 := by
      have := andInt_mask16 (1203 - 16) (by decide) (by decide)
      simpa using this
    have e2 : andNotMask ((((1208 : Nat) : Int) - ((5 : Nat) : Int) - ((16 : Nat) : Int))).toNat 16 = 1184 := by
      have := andNotMask_pow 1187 4
      simpa using this
    rw [e, e2]
    decide

/-- the `goStream` arm (reachable by a view, by no TLCP suite): MSS estimate − header − MAC -/
theorem src_payloadBytes_stream (hc : SrcHalf) (s : Src.tlcp.goStream) (h : hc.cipher = .goStream s) :
    srcPayloadBytes hc = 1203 - hc.mac.size := by
  unfold srcPayloadBytes; rw [h]; simp

/-- **`maxPayloadSizeForWrite` is the model**, every view of a connection whose `c.out` is
unprotected, SM4-GCM or SM4-CBC-SM3, every non-negative pair of counters, every record type:
same size, same successor counters. -/
theorem tie_maxPayload (c : SrcConn) (typ : BitVec 8) (k : Kind) (hm : Matches c.out k)
    (hp : 0 ≤ c.packetsSent.toInt) (hb : 0 ≤ c.bytesSent.toInt) :
    ((srcResult c typ).2, abs (srcResult c typ).1)
      = maxPayload P c.config.DynamicRecordSizingDisabled k (typ == 23#8) (abs c) := by
  obtain ⟨_, _, h3, h4, h5, _⟩ := P_facts
  have hpb := tie_payloadBytes c.out k hm
  obtain ⟨hbn, _⟩ := toInt_nonneg c.bytesSent hb
  obtain ⟨hpn, hp63⟩ := toInt_nonneg c.packetsSent hp
  have hsucc : (c.packetsSent + 1#64).toNat = c.packetsSent.toNat + 1 := by
    rw [BitVec.toNat_add]; simp only [BitVec.toNat_ofNat]; omega
  have hmp : ((P.maxPlaintext : Nat) : Int) = 16384 := by rw [h3]; rfl
  have hbne : (typ != 23#8) = !(typ == 23#8) := rfl
  have hsle : (BitVec.sle 131072#64 c.bytesSent = true) ↔ 131072 ≤ (abs c).bytesSent := by
    show _ ↔ 131072 ≤ c.bytesSent.toNat
    rw [BitVec.sle_iff_toInt_le, hbn]
    have : (131072#64).toInt = 131072 := by decide
    rw [this]; omega
  have hslt : (BitVec.slt 1000#64 c.packetsSent = true) ↔ 1000 < (abs c).packetsSent := by
    show _ ↔ 1000 < c.packetsSent.toNat
    rw [BitVec.slt_iff_toInt_lt, hpn]
    have : (1000#64).toInt = 1000 := by decide
    rw [this]; omega
  have habs' : abs { c with packetsSent := c.packetsSent + 1#64 } =
      { abs c with packetsSent := (abs c).packetsSent + 1 } := by
    simp only [abs, hsucc]
  unfold srcResult maxPayload
  rw [hpb, hmp, h4, h5, hbne]
  by_cases h1 : (c.config.DynamicRecordSizingDisabled || !(typ == 23#8)) = true
  · rw [if_pos h1, if_pos h1]
  rw [if_neg h1, if_neg h1]
  by_cases h2 : BitVec.sle 131072#64 c.bytesSent = true
  · rw [if_pos h2, if_pos (hsle.mp h2)]
  rw [if_neg h2, if_neg (fun h => h2 (hsle.mpr h))]
  simp only []
  by_cases h3 : BitVec.slt 1000#64 c.packetsSent = true
  · rw [if_pos h3, if_pos (hslt.mp h3), habs']
  rw [if_neg h3, if_neg (fun h => h3 (hslt.mpr h))]
  have hle : c.packetsSent.toNat ≤ 1000 := by
    have : ¬ 1000 < c.packetsSent.toNat := fun h => h3 (hslt.mpr h)
    omega
  have hmul : (c.packetsSent + 1#64).toInt = ((abs c).packetsSent : Int) + 1 := by
    show _ = (c.packetsSent.toNat : Int) + 1
    rw [BitVec.toInt_eq_toNat_of_lt (by rw [hsucc]; omega), hsucc]; omega
  rw [hmul]
  by_cases h4 : payloadBytes P k * (((abs c).packetsSent : Int) + 1) > 16384
  · rw [if_pos h4, if_pos (by omega), habs']
  · rw [if_neg h4, if_neg (by omega), habs']

/-- the statement about the translated function itself -/
theorem tie_maxPayloadSizeForWrite (c : SrcConn) (typ : BitVec 8) (k : Kind) (hm : Matches c.out k)
    (hp : 0 ≤ c.packetsSent.toInt) (hb : 0 ≤ c.bytesSent.toInt) :
    ∃ c' n, Src.tlcp.Conn.maxPayloadSizeForWrite c typ = .ok (c', n) ∧
      (n, abs c') = maxPayload P c.config.DynamicRecordSizingDisabled k (typ == 23#8) (abs c) ∧
      c'.config = c.config ∧ c'.out = c.out ∧ c'.bytesSent = c.bytesSent :=
  ⟨(srcResult c typ).1, (srcResult c typ).2, src_shape c typ, tie_maxPayload c typ k hm hp hb,
    srcResult_frame c typ⟩

end Tlcp

/-! ## dtlcp (C15) -/

namespace Dtlcp
open Gotlcp.Model.DtlcpTx

abbrev SrcConn := Gotlcp.Src.dtlcp.Conn
abbrev SrcHalf := Gotlcp.Src.dtlcp.halfConn

/-- the constants of the tree under test (the same record as `Props.C15.here`): the literal
`Model.DtlcpTx.treeConsts` — default PMTU 1400, padding budgeted — over the two package constants
the extractor evaluates; no text-matching fact about the translated functions is involved -/
def K : Consts := treeConsts Facts.dtlcp.recordHeaderLen Facts.dtlcp.maxPlaintext

/-- what the source text (constants folded into literals; the CBC arm budgets the padding) needs
of the (evaluated) package constants -/
theorem K_facts :
    K.defaultPmtu = 1400 ∧ K.recordHeaderLen = 13 ∧ K.maxPlaintext = 16384 ∧
    K.cbcBudgetsPadding = true := by decide

/-- the view `hc` of `c.out` has the sizes of the model cipher: unprotected; AEAD with any
non-negative nonce and tag lengths; CBC with any power-of-two block size up to `2^62` and any
non-negative MAC length.  A `goStream` value (no DTLCP suite installs one) has no arm in the
switch of `maxPayloadSizeForWrite` and no explicit nonce: sizes as unprotected. -/
inductive Matches (hc : SrcHalf) : Cipher → Prop
  | none : hc.cipher = .nil → Matches hc .none
  | stream (s : Src.dtlcp.goStream) : hc.cipher = .goStream s → Matches hc .none
  | aead (a : Src.dtlcp.goAEAD) : hc.cipher = .goAEAD a → 0 ≤ a.nonce → 0 ≤ a.overhead →
      Matches hc (.aead a.nonce.toNat a.overhead.toNat)
  | cbc (b : Src.dtlcp.goCBC) (k : Nat) : hc.cipher = .goCBC b → k ≤ 62 → b.blockSize = (2 : Int) ^ k →
      0 ≤ hc.mac.size → Matches hc (.cbc (2 ^ k) hc.mac.size.toNat)

/-- `halfConn.explicitNonceLen` of ANY view: never an error -/
theorem src_nonce (hc : SrcHalf) :
    Src.dtlcp.halfConn.explicitNonceLen hc = .ok (match hc.cipher with
      | .nil => 0 | .goStream _ => 0 | .goAEAD a => a.nonce | .goCBC b => b.blockSize) := by
  unfold Src.dtlcp.halfConn.explicitNonceLen
  cases h : hc.cipher <;>
    simp [pure, Except.pure, Src.dtlcp.goAEAD.explicitNonceLen, Src.dtlcp.goCBC.BlockSize, Id.run]

/-- `explicitNonceLen` equals the model's -/
theorem tie_explicitNonceLen (hc : SrcHalf) (ciph : Cipher) (hm : Matches hc ciph) :
    Src.dtlcp.halfConn.explicitNonceLen hc = .ok (explicitNonceLen ciph : Int) := by
  rw [src_nonce]
  cases hm with
  | none h => rw [h]; rfl
  | stream s h => rw [h]; rfl
  | aead a h hn _ => rw [h]; simp only [explicitNonceLen]; congr 1; omega
  | cbc b k h _ hb _ => rw [h]; simp only [explicitNonceLen, hb, Int.natCast_pow]; rfl

/-- the path MTU in force -/
def srcPmtu (c : SrcConn) : Int := if c.config.PMTU ≤ 0 then 1400 else c.config.PMTU

/-- `maxPayload` before the two clamps, as the source text computes it, per dynamic type -/
def srcRaw (c : SrcConn) : Int :=
  match c.out.cipher with
  | .nil => srcPmtu c - 13 - 0
  | .goStream _ => srcPmtu c - 13 - 0
  | .goAEAD a => srcPmtu c - 13 - a.nonce - a.overhead
  | .goCBC b =>
    Go.andInt (srcPmtu c - 13 - b.blockSize) (Int.not (b.blockSize - 1)) - 1 - c.out.mac.size

def clamp (m : Int) : Int :=
  if 16384 < m then 16384 else if m < 1 then 1 else m

/-- **No panic, any view**: the translated `maxPayloadSizeForWrite` returns normally for every
view (any dynamic type, any sizes, any PMTU), and its result is the clamped budget. -/
theorem src_shape (c : SrcConn) (typ : BitVec 8) :
    Src.dtlcp.Conn.maxPayloadSizeForWrite c typ = .ok (clamp (srcRaw c)) := by
  unfold Src.dtlcp.Conn.maxPayloadSizeForWrite clamp srcRaw srcPmtu
  -- first, while every `Decidable` instance still matches its proposition syntactically
  simp only [decide_eq_true_eq]
  simp only [src_nonce]
  by_cases hp : c.config.PMTU ≤ 0 <;>
  cases h : c.out.cipher <;>
    simp only [hp, bind, Except.bind, pure, Except.pure, Src.dtlcp.goAEAD.Overhead, Src.dtlcp.goCBC.BlockSize,
      Src.dtlcp.goSized.Size, Id.run, bne_self_eq_false, Bool.false_eq_true, if_false,
      bne_iff_ne, ne_eq, reduceCtorEq, not_false_eq_true, if_true, Int.sub_zero,
      apply_ite (Except.ok (ε := String))] <;>
    (first | done | rfl | (simp; done))

/-- in any case the result lies in `[1, 16384]` -/
theorem clamp_range (m : Int) : 1 ≤ clamp m ∧ clamp m ≤ 16384 := by
  unfold clamp
  split
  · omega
  · split <;> omega

/-- the unclamped budget of the source text is the model's `rawBudget` -/
theorem tie_raw (c : SrcConn) (ciph : Cipher) (hm : Matches c.out ciph)
    (hlo : -(2 : Int) ^ 63 ≤ c.config.PMTU) (hhi : c.config.PMTU < (2 : Int) ^ 63) :
    srcRaw c = rawBudget K c.config.PMTU ciph := by
  obtain ⟨h1, h2, _, h4⟩ := K_facts
  have hd : ((K.defaultPmtu : Nat) : Int) = 1400 := by rw [h1]; rfl
  have hh : ((K.recordHeaderLen : Nat) : Int) = 13 := by rw [h2]; rfl
  unfold srcRaw rawBudget srcPmtu
  rw [hd, hh]
  cases hm with
  | none h => rw [h]; simp only [explicitNonceLen]; rfl
  | stream s h => rw [h]; simp only [explicitNonceLen]; rfl
  | aead a h hn ho =>
    rw [h]; simp only [explicitNonceLen]
    rw [Int.toNat_of_nonneg hn, Int.toNat_of_nonneg ho]
  | cbc b k h hk hb hmac =>
    rw [h]; simp only [explicitNonceLen, h4, if_true]
    rw [Int.toNat_of_nonneg hmac, hb, Int.natCast_pow]
    have hpow : (2 : Int) ^ k ≤ 2 ^ 62 := by
      have : (2 : Nat) ^ k ≤ 2 ^ 62 := Nat.pow_le_pow_right (by decide) hk
      have : (((2 : Nat) ^ k : Nat) : Int) ≤ (((2 : Nat) ^ 62 : Nat) : Int) := Int.ofNat_le.mpr this
      simpa using this
    have hpos : (0 : Int) < 2 ^ k := Int.pow_pos (by decide)
    rw [andInt_mask _ k hk]
    · rfl
    · split <;> omega
    · split <;> omega

/-- **`maxPayloadSizeForWrite` is the model**, every view (unprotected / AEAD of any sizes / CBC
with any power-of-two block size and any MAC length), every `Config.PMTU` a Go `int` can hold,
every record type; the value is between 1 and `maxPlaintext`. -/
theorem tie_maxPayloadSizeForWrite (c : SrcConn) (typ : BitVec 8) (ciph : Cipher) (hm : Matches c.out ciph)
    (hlo : -(2 : Int) ^ 63 ≤ c.config.PMTU) (hhi : c.config.PMTU < (2 : Int) ^ 63) :
    ∃ n, Src.dtlcp.Conn.maxPayloadSizeForWrite c typ = .ok n ∧
      n.toNat = maxPayloadSizeForWrite K c.config.PMTU ciph ∧
      n = (maxPayloadSizeForWrite K c.config.PMTU ciph : Int) ∧
      1 ≤ n ∧ n ≤ (K.maxPlaintext : Int) := by
  have hr := tie_raw c ciph hm hlo hhi
  have hmp : ((K.maxPlaintext : Nat) : Int) = 16384 := by rw [K_facts.2.2.1]; rfl
  have hrange := clamp_range (srcRaw c)
  have e : (clamp (srcRaw c)).toNat = maxPayloadSizeForWrite K c.config.PMTU ciph := by
    unfold maxPayloadSizeForWrite clamp
    rw [hr, hmp]
    generalize rawBudget K c.config.PMTU ciph = m
    simp only []
    by_cases h1 : m > 16384
    · have : (16384 : Int) < m := h1
      simp [h1, this]
    · have : ¬ (16384 : Int) < m := h1
      simp only [h1, this, if_false]
  refine ⟨clamp (srcRaw c), src_shape c typ, e, ?_, hrange.1, by rw [hmp]; exact hrange.2⟩
  rw [← e]; omega

end Dtlcp

end Gotlcp.Tie.RecordSize

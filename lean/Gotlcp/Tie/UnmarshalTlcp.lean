/-
Tie by translation, tlcp/handshake_messages.go — the hand-written byte-indexing decoders
`tlcpIsCompleteMessage`, `certificateMsg.unmarshal`, `certificateRequestMsg.unmarshal`,
`serverKeyExchangeMsg.unmarshal`, `clientKeyExchangeMsg.unmarshal`, `serverHelloDoneMsg.unmarshal`.
The definitions `Gotlcp.Src.tlcp.*` are regenerated from the Go source on every run by
`harness/cmd/go2lean`; in them every `a[i]`, `a[lo:hi]`, `make`, `copy` is a checked helper that
returns `.error` exactly where the Go runtime panics, and a `for cond {}` loop is a bounded loop
(`len(data)+1` iterations) followed by `throw "loop fuel exhausted"` when `cond` still holds.

The theorems below prove, for EVERY message value and EVERY byte string (no hypothesis on the
length is needed: `tlcpIsCompleteMessage` compares the 24-bit length field with `len(data)-4`
in `int`, so every later `uint32(len(...))` conversion is exact), that each translated function
returns `.ok _`: the function text in the tree neither panics nor runs out of loop fuel.

  * `tie_isComplete`, `tie_serverKeyExchange`, `tie_clientKeyExchange`, `tie_serverHelloDone`
    give the exact value computed (closed form);
  * `tie_certificate`: the result is the closed form `certResult` (first loop = `cnt`, second loop =
    `split`).  First loop — invariant `certsLen = len(d)` (so `certsLen -= 3+certLen` never wraps),
    `numCerts` entries lead from `data[7:]` to `d` (`walk`), fuel left > `len(d)`; second loop — its
    unchecked `d[0..2]`, `d[3:3+certLen]`, `m.certificates[i] = …` are in range because the first
    loop has walked the same `numCerts` entries;
  * `tie_certificateRequest`: the result is the closed form `creqResult` (CA loop = `casList`); all
    slices are guarded; the CA loop consumes ≥ 2 bytes of `cas` per iteration and
    `len(cas) ≤ len(data)`, so the fuel suffices; the repeated length check
    `uint32(len(data))-4 != length` never fires after `tlcpIsCompleteMessage`.
  * `no_panic_*`: the six results in the form `∃ r, f … = .ok r`.
`Gotlcp.Tie.UnmarshalTlcpCodec` relates the closed forms to the C14 codec model.

Core Lean only.
-/
import Gotlcp.Generated.Src

set_option linter.unusedSimpArgs false
set_option linter.unusedVariables false

namespace Gotlcp.Tie.UnmarshalTlcp
open Gotlcp

abbrev Bytes := List (BitVec 8)

/-! ## the checked helpers on arguments known to be in range -/

theorem idx_ok {α : Type} (a : List α) (i : Nat) (h : i < a.length) (z : Int) (hz : z = (i : Int)) :
    Go.idx a z = .ok a[i] := by
  subst hz
  unfold Go.idx
  have : ¬ ((i : Int) < 0) := by omega
  simp [this, h]

theorem slice_ok {α : Type} (a : List α) (lo hi : Nat) (h1 : lo ≤ hi) (h2 : hi ≤ a.length)
    (zl zh : Int) (hl : zl = (lo : Int)) (hh : zh = (hi : Int)) :
    Go.slice a zl zh = .ok ((a.drop lo).take (hi - lo)) := by
  subst hl hh
  unfold Go.slice
  have : ¬ ((lo : Int) < 0 ∨ (hi : Int) < (lo : Int) ∨ (a.length : Int) < (hi : Int)) := by omega
  simp only [this, if_false, Int.toNat_natCast]

theorem slice_end {α : Type} (a : List α) (lo : Nat) (h1 : lo ≤ a.length)
    (zl zh : Int) (hl : zl = (lo : Int)) (hh : zh = (a.length : Int)) :
    Go.slice a zl zh = .ok (a.drop lo) := by
  rw [slice_ok a lo a.length h1 (Nat.le_refl _) zl zh hl hh]
  congr 1
  apply List.take_of_length_le
  simp

/-! ## 24-bit big-endian lengths -/

def u24 (a b c : BitVec 8) : Nat := a.toNat * 65536 + b.toNat * 256 + c.toNat

theorem u24_lt (a b c : BitVec 8) : u24 a b c < 16777216 := by
  unfold u24; have := a.isLt; have := b.isLt; have := c.isLt; omega

theorem nat_or3 (a b c : Nat) (hb : b < 256) (hc : c < 256) :
    a <<< 16 ||| b <<< 8 ||| c = a * 65536 + b * 256 + c := by
  have e1 : a <<< 16 = (a <<< 8) <<< 8 := by rw [← Nat.shiftLeft_add]
  rw [e1, ← Nat.shiftLeft_or_distrib, ← Nat.shiftLeft_add_eq_or_of_lt (by omega : b < 2 ^ 8),
    ← Nat.shiftLeft_add_eq_or_of_lt (by omega : c < 2 ^ 8)]
  simp only [Nat.shiftLeft_eq]
  omega

/-- `uint32(a)<<16 | uint32(b)<<8 | uint32(c)` -/
def bv24 (a b c : BitVec 8) : BitVec 32 :=
  BitVec.setWidth 32 a <<< 16 ||| BitVec.setWidth 32 b <<< 8 ||| BitVec.setWidth 32 c

theorem bv24_toNat (a b c : BitVec 8) : (bv24 a b c).toNat = u24 a b c := by
  have ha := a.isLt; have hb := b.isLt; have hc := c.isLt
  unfold bv24 u24
  simp only [BitVec.toNat_or, BitVec.toNat_shiftLeft, BitVec.toNat_setWidth]
  have e1 : a.toNat % 2 ^ 32 = a.toNat := Nat.mod_eq_of_lt (by omega)
  have e2 : b.toNat % 2 ^ 32 = b.toNat := Nat.mod_eq_of_lt (by omega)
  have e3 : c.toNat % 2 ^ 32 = c.toNat := Nat.mod_eq_of_lt (by omega)
  rw [e1, e2, e3]
  have e4 : a.toNat <<< 16 % 2 ^ 32 = a.toNat <<< 16 := by
    apply Nat.mod_eq_of_lt; rw [Nat.shiftLeft_eq]; omega
  have e5 : b.toNat <<< 8 % 2 ^ 32 = b.toNat <<< 8 := by
    apply Nat.mod_eq_of_lt; rw [Nat.shiftLeft_eq]; omega
  rw [e4, e5]
  exact nat_or3 _ _ _ hb hc

/-- `int(a)<<16 | int(b)<<8 | int(c)` -/
theorem orInt_u24 (a b c : BitVec 8) :
    Go.orInt (Go.orInt ((a.toNat : Int) * 2 ^ 16) ((b.toNat : Int) * 2 ^ 8)) (c.toNat : Int) = (u24 a b c : Int) := by
  have ha := a.isLt; have hb := b.isLt; have hc := c.isLt
  unfold Go.orInt
  rw [BitVec.ofInt_toInt]
  have e1 : (a.toNat : Int) * 2 ^ 16 = ((a.toNat * 65536 : Nat) : Int) := by omega
  have e2 : (b.toNat : Int) * 2 ^ 8 = ((b.toNat * 256 : Nat) : Int) := by omega
  rw [e1, e2]
  simp only [BitVec.ofInt_natCast]
  have hn : (BitVec.ofNat 64 (a.toNat * 65536) ||| BitVec.ofNat 64 (b.toNat * 256) ||| BitVec.ofNat 64 c.toNat).toNat
      = u24 a b c := by
    simp only [BitVec.toNat_or, BitVec.toNat_ofNat]
    rw [Nat.mod_eq_of_lt (by omega : a.toNat * 65536 < 2 ^ 64), Nat.mod_eq_of_lt (by omega : b.toNat * 256 < 2 ^ 64),
      Nat.mod_eq_of_lt (by omega : c.toNat < 2 ^ 64)]
    have := nat_or3 a.toNat b.toNat c.toNat hb hc
    simp only [Nat.shiftLeft_eq] at this
    exact this
  have hl := u24_lt a b c
  rw [BitVec.toInt_eq_toNat_of_lt (by rw [hn]; omega), hn]

/-! ## `tlcpIsCompleteMessage` -/

/-- what `tlcpIsCompleteMessage` computes -/
def complete : Bytes → BitVec 8 → Bool
  | a :: b :: c :: d :: rest, t => a == t && u24 b c d == rest.length
  | _, _ => false

theorem tie_isComplete (data : Bytes) (t : BitVec 8) :
    Src.tlcp.tlcpIsCompleteMessage data t = .ok (complete data t) := by
  unfold Src.tlcp.tlcpIsCompleteMessage
  match data with
  | [] => simp [complete, bind, Except.bind, pure, Except.pure]
  | [_] => simp [complete, bind, Except.bind, pure, Except.pure]
  | [_, _] => simp [complete, bind, Except.bind, pure, Except.pure]
  | [_, _, _] => simp [complete, bind, Except.bind, pure, Except.pure]
  | a :: b :: c :: d :: rest =>
    have h4 : ¬ (((a :: b :: c :: d :: rest).length : Int) < 4) := by simp only [List.length_cons]; omega
    have i0 : Go.idx (a :: b :: c :: d :: rest) 0 = .ok a := idx_ok _ 0 (by simp) _ rfl
    have i1 : Go.idx (a :: b :: c :: d :: rest) 1 = .ok b := idx_ok _ 1 (by simp) _ rfl
    have i2 : Go.idx (a :: b :: c :: d :: rest) 2 = .ok c := idx_ok _ 2 (by simp) _ rfl
    have i3 : Go.idx (a :: b :: c :: d :: rest) 3 = .ok d := idx_ok _ 3 (by simp) _ rfl
    simp only [bind, Except.bind, pure, Except.pure, h4, decide_false, Bool.not_false, if_true, i0]
    by_cases hat : a = t
    · subst hat
      simp only [bne_self_eq_false, Bool.false_eq_true, if_false]
      simp only [i1, i2, i3, orInt_u24]
      unfold complete
      simp only [beq_self_eq_true, Bool.true_and, List.length_cons]
      congr 1
      rw [Bool.eq_iff_iff]
      simp only [beq_iff_eq]
      omega
    · have : (a != t) = true := by simp [hat]
      simp only [this, if_true]
      simp [complete, hat]

theorem complete_true {data : Bytes} {t : BitVec 8} (h : complete data t = true) :
    ∃ b c d rest, data = t :: b :: c :: d :: rest ∧ u24 b c d = rest.length := by
  match data with
  | [] => simp [complete] at h
  | [_] => simp [complete] at h
  | [_, _] => simp [complete] at h
  | [_, _, _] => simp [complete] at h
  | a :: b :: c :: d :: rest =>
    simp only [complete, Bool.and_eq_true, beq_iff_eq] at h
    exact ⟨b, c, d, rest, by rw [h.1], h.2⟩

/-- `∃ r, x = .ok r`: the Go code neither panics nor runs out of translator loop fuel -/
def NoPanic {α : Type} (x : Except String α) : Prop := ∃ r, x = .ok r

/-! ## `serverKeyExchangeMsg.unmarshal`, `clientKeyExchangeMsg.unmarshal`, `serverHelloDoneMsg.unmarshal` -/

theorem tie_serverKeyExchange (m : Src.tlcp.serverKeyExchangeMsg) (data : Bytes) :
    Src.tlcp.serverKeyExchangeMsg.unmarshal m data =
      .ok (if complete data 12#8 then ({ raw := data, key := data.drop 4 }, true) else (m, false)) := by
  unfold Src.tlcp.serverKeyExchangeMsg.unmarshal
  simp only [bind, Except.bind, pure, Except.pure, tie_isComplete]
  cases hc : complete data 12#8
  · simp
  · obtain ⟨b, c, d, rest, rfl, hl⟩ := complete_true hc
    have h4 : ¬ (((12#8 :: b :: c :: d :: rest).length : Int) < 4) := by simp only [List.length_cons]; omega
    have hs : Go.slice (12#8 :: b :: c :: d :: rest) 4 ((12#8 :: b :: c :: d :: rest).length : Int) = .ok rest :=
      slice_end _ 4 (by simp) _ _ rfl rfl
    simp only [Bool.not_true, Bool.false_eq_true, if_false, h4, decide_false, hs, if_true]
    simp

theorem tie_clientKeyExchange (m : Src.tlcp.clientKeyExchangeMsg) (data : Bytes) :
    Src.tlcp.clientKeyExchangeMsg.unmarshal m data =
      .ok (if complete data 16#8 then ({ raw := data, ciphertext := data.drop 4 }, true) else (m, false)) := by
  unfold Src.tlcp.clientKeyExchangeMsg.unmarshal
  simp only [bind, Except.bind, pure, Except.pure, tie_isComplete]
  cases hc : complete data 16#8
  · simp
  · obtain ⟨b, c, d, rest, rfl, hl⟩ := complete_true hc
    have h4 : ¬ (((16#8 :: b :: c :: d :: rest).length : Int) < 4) := by simp only [List.length_cons]; omega
    have i1 : Go.idx (16#8 :: b :: c :: d :: rest) 1 = .ok b := idx_ok _ 1 (by simp) _ rfl
    have i2 : Go.idx (16#8 :: b :: c :: d :: rest) 2 = .ok c := idx_ok _ 2 (by simp) _ rfl
    have i3 : Go.idx (16#8 :: b :: c :: d :: rest) 3 = .ok d := idx_ok _ 3 (by simp) _ rfl
    have hs : Go.slice (16#8 :: b :: c :: d :: rest) 4 ((16#8 :: b :: c :: d :: rest).length : Int) = .ok rest :=
      slice_end _ 4 (by simp) _ _ rfl rfl
    have hl' : ¬ ((u24 b c d : Int) != ((16#8 :: b :: c :: d :: rest).length : Int) - 4) = true := by
      simp only [List.length_cons, bne_iff_ne, ne_eq, Decidable.not_not]; omega
    simp only [Bool.not_true, Bool.false_eq_true, if_false, h4, decide_false]
    simp only [i1, i2, i3, orInt_u24, hl', if_false, hs]
    simp

theorem tie_serverHelloDone (m : Src.tlcp.serverHelloDoneMsg) (data : Bytes) :
    Src.tlcp.serverHelloDoneMsg.unmarshal m data = .ok (complete data 14#8 && data.length == 4) := by
  unfold Src.tlcp.serverHelloDoneMsg.unmarshal
  simp only [bind, Except.bind, pure, Except.pure, tie_isComplete]
  cases hc : complete data 14#8
  · simp
  · simp only [Bool.not_true, Bool.false_eq_true, if_false, Bool.true_and]
    congr 1
    rw [Bool.eq_iff_iff]
    simp only [beq_iff_eq]
    omega

@[simp] theorem ok_bind {α β : Type} (a : α) (f : α → Except String β) : Except.bind (.ok a) f = f a := rfl
@[simp] theorem error_bind {α β : Type} (e : String) (f : α → Except String β) :
    Except.bind (.error e : Except String α) f = .error e := rfl

/-! ## loops: invariant rule for `forIn` over a list in `Except` -/

/-- invariant rule: `Inv` may mention the iterations still to come (this is how loop fuel and the
counter of a counting loop are tracked) -/
theorem forIn_inv {σ α : Type} (f : α → σ → Except String (ForInStep σ))
    (Inv : List α → σ → Prop) (Post : σ → Prop)
    (hnil : ∀ s, Inv [] s → Post s)
    (hstep : ∀ x l s, Inv (x :: l) s →
      (∃ s', f x s = .ok (.yield s') ∧ Inv l s') ∨ (∃ s', f x s = .ok (.done s') ∧ Post s')) :
    ∀ l s, Inv l s → ∃ s', forIn l s f = .ok s' ∧ Post s' := by
  intro l
  induction l with
  | nil => intro s h; exact ⟨s, rfl, hnil s h⟩
  | cons x l ih =>
    intro s h
    rw [List.forIn_cons]
    rcases hstep x l s h with ⟨s', he, hi⟩ | ⟨s', he, hp⟩
    · rw [he]; exact ih s' hi
    · rw [he]; exact ⟨s', rfl, hp⟩

/-! ## `certificateMsg.unmarshal` -/

/-- one certificate entry: 3 bytes of length, then that many bytes -/
def step : Bytes → Option Bytes
  | a :: b :: c :: rest => if u24 a b c ≤ rest.length then some (rest.drop (u24 a b c)) else none
  | _ => none

/-- `n` entries from the front of `d`; the rest -/
def walk : Nat → Bytes → Option Bytes
  | 0, d => some d
  | n + 1, d => (step d).bind (walk n)

theorem walk_snoc (n : Nat) (d : Bytes) : walk (n + 1) d = (walk n d).bind step := by
  induction n generalizing d with
  | zero => simp [walk]
  | succ n ih =>
    rw [walk, walk]
    cases h : step d with
    | none => rfl
    | some d' => simp only [Option.bind_some]; rw [← ih d', walk]

theorem bv24_def (a b c : BitVec 8) :
    BitVec.setWidth 32 a <<< 16 ||| BitVec.setWidth 32 b <<< 8 ||| BitVec.setWidth 32 c = bv24 a b c := rfl

theorem three_add_bv24 (a b c : BitVec 8) : (3#32 + bv24 a b c).toNat = 3 + u24 a b c := by
  have := u24_lt a b c
  rw [BitVec.toNat_add, bv24_toNat]
  simp only [BitVec.toNat_ofNat]
  omega

theorem drop3 {α : Type} (a b c : α) (l : List α) (n : Nat) : (a :: b :: c :: l).drop (n + 3) = l.drop n := rfl

theorem step_some {d d' : Bytes} (h : step d = some d') :
    ∃ a b c r, d = a :: b :: c :: r ∧ u24 a b c ≤ r.length ∧ d' = r.drop (u24 a b c) := by
  match d, h with
  | a :: b :: c :: r, h =>
    simp only [step] at h
    by_cases hu : u24 a b c ≤ r.length
    · rw [if_pos hu] at h
      exact ⟨a, b, c, r, rfl, hu, (Option.some.inj h).symm⟩
    · rw [if_neg hu] at h; cases h
  | [], h => simp [step] at h
  | [_], h => simp [step] at h
  | [_, _], h => simp [step] at h

theorem make_ok {α : Type} (z : α) (n : Int) (h : 0 ≤ n) : Go.make z n = .ok (List.replicate n.toNat z) := by
  unfold Go.make
  rw [if_neg (by omega)]

theorem set_ok {α : Type} (a : List α) (i : Nat) (v : α) (h : i < a.length) (z : Int) (hz : z = (i : Int)) :
    Go.set a z v = .ok (a.set i v) := by
  subst hz
  unfold Go.set
  rw [if_neg (by omega), if_pos (by simpa using h)]
  simp

/-- the same rule for a loop followed by the rest `K` of the function, when the whole must equal `.ok v` -/
theorem forIn_bind_eq {σ α β : Type} (f : α → σ → Except String (ForInStep σ))
    (Inv : List α → σ → Prop) (Post : σ → Prop) (l : List α) (init : σ) (K : σ → Except String β) (v : β)
    (hnil : ∀ s, Inv [] s → Post s)
    (hstep : ∀ x l s, Inv (x :: l) s →
      (∃ s', f x s = .ok (.yield s') ∧ Inv l s') ∨ (∃ s', f x s = .ok (.done s') ∧ Post s'))
    (hinit : Inv l init) (hK : ∀ s, Post s → K s = .ok v) :
    Except.bind (forIn l init f) K = .ok v := by
  obtain ⟨s', he, hp⟩ := forIn_inv f Inv Post hnil hstep l init hinit
  rw [he]
  exact hK s' hp

/-- the first loop in closed form: the number of entries; `none` = `return false`
(the argument `f` mirrors the loop bound; `len(d) + 1` always suffices) -/
def cnt : Nat → Bytes → Option Nat
  | 0, _ => none
  | f + 1, d =>
    if d.length = 0 then some 0
    else if d.length < 4 then none
    else match step d with
      | none => none
      | some d' => (cnt f d').map (· + 1)

/-- the second loop in closed form: the first `n` entries -/
def split : Nat → Bytes → List Bytes
  | n + 1, a :: b :: c :: r => r.take (u24 a b c) :: split n (r.drop (u24 a b c))
  | _, _ => []

/-- `certificateMsg.unmarshal` in closed form -/
def certResult (m : Src.tlcp.certificateMsg) (data : Bytes) : Src.tlcp.certificateMsg × Bool :=
  if complete data 11#8 then
    match data with
    | _ :: _ :: _ :: _ :: e :: f :: g :: d0 =>
      if d0.length = u24 e f g then
        match cnt (d0.length + 1) d0 with
        | some n => ({ raw := data, certificates := split n d0 }, true)
        | none => ({ m with raw := data }, false)
      else ({ m with raw := data }, false)
    | _ => (m, false)
  else (m, false)

theorem pos_iff (cl : BitVec 32) : cl > 0#32 ↔ 0 < cl.toNat := by
  show 0#32 < cl ↔ _
  rw [BitVec.lt_def]; simp

/-- state of the first loop: pending `return`, `certsLen`, `numCerts`, `d` -/
abbrev S1 := Option (Src.tlcp.certificateMsg × Bool) × BitVec 32 × Int × Bytes

/-- first loop: `certsLen` is exactly the number of bytes left (so the `uint32` subtraction never
wraps), `numCerts` entries lead from the start of the list to `d`, the fuel left exceeds the bytes
left, and counting on from `d` gives the overall count `R` -/
def Inv1 (d0 : Bytes) (R : Option Nat) (l : List Nat) (s : S1) : Prop :=
  s.1 = none ∧ s.2.1.toNat = s.2.2.2.length ∧ 0 ≤ s.2.2.1 ∧ walk s.2.2.1.toNat d0 = some s.2.2.2 ∧
    s.2.2.2.length < l.length ∧
    ∃ f, s.2.2.2.length < f ∧ (cnt f s.2.2.2).map (· + s.2.2.1.toNat) = R

def Post1 (M0 : Src.tlcp.certificateMsg) (d0 : Bytes) (R : Option Nat) (s : S1) : Prop :=
  (s.1 = some (M0, false) ∧ R = none) ∨
    (s.1 = none ∧ ¬ (s.2.1 > 0#32) ∧ 0 ≤ s.2.2.1 ∧ R = some s.2.2.1.toNat ∧ ∃ e, walk s.2.2.1.toNat d0 = some e)

/-- state of the second loop: `m`, `d` -/
abbrev S2 := Src.tlcp.certificateMsg × Bytes

/-- second loop: iteration `i` of `n`; `m.certificates` holds the first `i` entries followed by
`n - i` empty slots; `n - i` entries can still be walked from `d` (because the first loop walked them) -/
def Inv2 (data : Bytes) (n : Nat) (CS : List Bytes) (l : List Nat) (s : S2) : Prop :=
  ∃ i, l = List.range' i (n - i) ∧ i ≤ n ∧ s.1.raw = data ∧
    ∃ pre, s.1.certificates = pre ++ List.replicate (n - i) [] ∧ pre.length = i ∧
      pre ++ split (n - i) s.2 = CS ∧ ∃ e, walk (n - i) s.2 = some e

def Post2 (data : Bytes) (CS : List Bytes) (s : S2) : Prop := s.1 = { raw := data, certificates := CS }

/-- **`certificateMsg.unmarshal`, every receiver, every byte string**: no panic, loop fuel suffices,
and the result is the closed form -/
theorem tie_certificate (m : Src.tlcp.certificateMsg) (data : Bytes) :
    Src.tlcp.certificateMsg.unmarshal m data = .ok (certResult m data) := by
  unfold Src.tlcp.certificateMsg.unmarshal
  simp only [bind, pure, Except.pure, tie_isComplete, ok_bind]
  cases hc : complete data 11#8
  · simp [certResult, hc]
  · obtain ⟨b, c, d, rest, rfl, hl⟩ := complete_true hc
    simp only [Bool.not_true, Bool.false_eq_true, if_false]
    by_cases h7 : (((11#8 :: b :: c :: d :: rest).length : Int) < 7)
    · simp only [h7, decide_true, if_true]
      match rest, h7 with
      | [], _ => simp [certResult, hc]
      | [_], _ => simp [certResult, hc]
      | [_, _], _ => simp [certResult, hc]
      | _ :: _ :: _ :: r, h => simp only [List.length_cons] at h; omega
    · simp only [h7, decide_false, Bool.false_eq_true, if_false]
      obtain ⟨e, f, g, rest', rfl⟩ : ∃ e f g rest', rest = e :: f :: g :: rest' := by
        match rest, h7 with
        | e :: f :: g :: r, _ => exact ⟨e, f, g, r, rfl⟩
        | [], h => simp at h
        | [_], h => simp only [List.length_cons, List.length_nil] at h; omega
        | [_, _], h => simp only [List.length_cons, List.length_nil] at h; omega
      have i4 : Go.idx (11#8 :: b :: c :: d :: e :: f :: g :: rest') 4 = .ok e := idx_ok _ 4 (by simp) _ rfl
      have i5 : Go.idx (11#8 :: b :: c :: d :: e :: f :: g :: rest') 5 = .ok f := idx_ok _ 5 (by simp) _ rfl
      have i6 : Go.idx (11#8 :: b :: c :: d :: e :: f :: g :: rest') 6 = .ok g := idx_ok _ 6 (by simp) _ rfl
      have hs : Go.slice (11#8 :: b :: c :: d :: e :: f :: g :: rest') 7
          ((11#8 :: b :: c :: d :: e :: f :: g :: rest').length : Int) = .ok rest' :=
        slice_end _ 7 (by simp) _ _ rfl rfl
      simp only [i4, i5, i6, bv24_def, hs, ok_bind]
      have heq_iff : (BitVec.ofInt 32 ((11#8 :: b :: c :: d :: e :: f :: g :: rest').length : Int) = bv24 e f g + 7#32)
          ↔ rest'.length = u24 e f g := by
        have l1 := u24_lt b c d
        have l2 := u24_lt e f g
        simp only [List.length_cons] at hl
        constructor
        · intro h
          have h2 := congrArg BitVec.toNat h
          rw [BitVec.toNat_add, bv24_toNat] at h2
          simp only [List.length_cons, BitVec.ofInt_natCast, BitVec.toNat_ofNat] at h2
          omega
        · intro h
          apply BitVec.eq_of_toNat_eq
          rw [BitVec.toNat_add, bv24_toNat]
          simp only [List.length_cons, BitVec.ofInt_natCast, BitVec.toNat_ofNat]
          omega
      have hne_iff : (BitVec.ofInt 32 ((11#8 :: b :: c :: d :: e :: f :: g :: rest').length : Int) != bv24 e f g + 7#32) = true
          ↔ ¬ rest'.length = u24 e f g := by
        rw [bne_iff_ne, ne_eq, heq_iff]
      by_cases hne : (BitVec.ofInt 32 ((11#8 :: b :: c :: d :: e :: f :: g :: rest').length : Int) != bv24 e f g + 7#32) = true
      · simp only [hne, if_true]
        have := hne_iff.mp hne
        simp [certResult, hc, this]
      · simp only [hne, Bool.false_eq_true, if_false]
        have hlen : rest'.length = u24 e f g := Decidable.not_not.mp (fun h => hne (hne_iff.mpr h))
        have hres : certResult m (11#8 :: b :: c :: d :: e :: f :: g :: rest') =
            match cnt (rest'.length + 1) rest' with
            | some n => ({ raw := 11#8 :: b :: c :: d :: e :: f :: g :: rest', certificates := split n rest' }, true)
            | none => ({ m with raw := 11#8 :: b :: c :: d :: e :: f :: g :: rest' }, false) := by
          simp only [certResult, hc, if_true, hlen]
        rw [hres]
        refine forIn_bind_eq _ (Inv1 rest' (cnt (rest'.length + 1) rest'))
          (Post1 { m with raw := 11#8 :: b :: c :: d :: e :: f :: g :: rest' } rest' (cnt (rest'.length + 1) rest'))
          _ _ _ _ ?_ ?_ ?_ ?_
        · rintro ⟨r, cl, n, dd⟩ ⟨_, _, _, _, hfuel, _⟩
          simp at hfuel
        · rintro x l ⟨r, cl, n, dd⟩ ⟨hr, hcl, hn, hw, hfuel, fu, hfu, hcnt⟩
          simp only at hr hcl hn hw hfuel hfu hcnt
          subst hr
          obtain ⟨fu', rfl⟩ : ∃ fu', fu = fu' + 1 := ⟨fu - 1, by omega⟩
          rw [cnt] at hcnt
          by_cases hpos : cl > 0#32
          · have hdpos : ¬ dd.length = 0 := by
              rw [← hcl]; intro h0
              have := (pos_iff cl).mp hpos; omega
            rw [if_neg hdpos] at hcnt
            simp only [hpos, decide_true, Bool.not_true, Bool.false_eq_true, if_false]
            by_cases h4 : ((dd.length : Int) < 4)
            · simp only [h4, decide_true, if_true]
              rw [if_pos (by omega)] at hcnt
              exact Or.inr ⟨_, rfl, Or.inl ⟨rfl, hcnt.symm⟩⟩
            · simp only [h4, decide_false, Bool.false_eq_true, if_false]
              rw [if_neg (by omega)] at hcnt
              obtain ⟨a1, a2, a3, r3, rfl⟩ : ∃ a1 a2 a3 r3, dd = a1 :: a2 :: a3 :: r3 := by
                match dd, h4 with
                | a1 :: a2 :: a3 :: r, _ => exact ⟨a1, a2, a3, r, rfl⟩
                | [], h => simp at h
                | [_], h => simp only [List.length_cons, List.length_nil] at h; omega
                | [_, _], h => simp only [List.length_cons, List.length_nil] at h; omega
              have j0 : Go.idx (a1 :: a2 :: a3 :: r3) 0 = .ok a1 := idx_ok _ 0 (by simp) _ rfl
              have j1 : Go.idx (a1 :: a2 :: a3 :: r3) 1 = .ok a2 := idx_ok _ 1 (by simp) _ rfl
              have j2 : Go.idx (a1 :: a2 :: a3 :: r3) 2 = .ok a3 := idx_ok _ 2 (by simp) _ rfl
              simp only [j0, j1, j2, ok_bind]
              have hX := three_add_bv24 a1 a2 a3
              have hcl32 := cl.isLt
              have hdl : (BitVec.ofInt 32 ((a1 :: a2 :: a3 :: r3).length : Int)).toNat = r3.length + 3 := by
                simp only [List.length_cons] at hcl
                simp only [List.length_cons, BitVec.ofInt_natCast, BitVec.toNat_ofNat]
                omega
              simp only [step] at hcnt
              by_cases hlt : BitVec.ofInt 32 ((a1 :: a2 :: a3 :: r3).length : Int) < 3#32 + bv24 a1 a2 a3
              · simp only [hlt, decide_true, if_true]
                have hnle : ¬ u24 a1 a2 a3 ≤ r3.length := by
                  rw [BitVec.lt_def, hdl, hX] at hlt; omega
                rw [if_neg hnle] at hcnt
                dsimp only at hcnt
                exact Or.inr ⟨_, rfl, Or.inl ⟨rfl, hcnt.symm⟩⟩
              · simp only [hlt, decide_false, Bool.false_eq_true, if_false]
                have hle : 3 + u24 a1 a2 a3 ≤ r3.length + 3 := by
                  rw [BitVec.lt_def, hdl, hX] at hlt; omega
                rw [if_pos (by omega)] at hcnt
                dsimp only at hcnt
                have hsl : Go.slice (a1 :: a2 :: a3 :: r3) ((3#32 + bv24 a1 a2 a3).toNat : Int)
                    ((a1 :: a2 :: a3 :: r3).length : Int) = .ok (r3.drop (u24 a1 a2 a3)) := by
                  rw [slice_end _ (3 + u24 a1 a2 a3) (by simp only [List.length_cons]; omega) _ _ (by rw [hX]) rfl]
                  congr 1
                  rw [Nat.add_comm 3]
                  exact drop3 _ _ _ _ _
                simp only [hsl, ok_bind]
                have hn1 : (n + 1).toNat = n.toNat + 1 := by omega
                refine Or.inl ⟨_, rfl, rfl, ?_, (by show 0 ≤ n + 1; omega), ?_, ?_, fu', ?_, ?_⟩
                · show (cl - (3#32 + bv24 a1 a2 a3)).toNat = (r3.drop (u24 a1 a2 a3)).length
                  have : 3#32 + bv24 a1 a2 a3 ≤ cl := by
                    rw [BitVec.le_def, hX, hcl]; simp only [List.length_cons]; omega
                  rw [BitVec.toNat_sub_of_le this, hX, hcl]
                  simp only [List.length_cons, List.length_drop]; omega
                · show walk (n + 1).toNat rest' = some (r3.drop (u24 a1 a2 a3))
                  rw [hn1, walk_snoc, hw]
                  simp only [Option.bind_some, step]
                  rw [if_pos (by omega)]
                · show (r3.drop (u24 a1 a2 a3)).length < l.length
                  simp only [List.length_cons, List.length_drop] at hfuel ⊢
                  omega
                · show (r3.drop (u24 a1 a2 a3)).length < fu'
                  simp only [List.length_cons, List.length_drop] at hfu ⊢
                  omega
                · show (cnt fu' (r3.drop (u24 a1 a2 a3))).map (· + (n + 1).toNat) = _
                  rw [← hcnt, hn1]
                  cases cnt fu' (r3.drop (u24 a1 a2 a3)) with
                  | none => rfl
                  | some k => simp only [Option.map_some]; congr 1; omega
          · simp only [hpos, decide_false, Bool.not_false, if_true]
            have hd0 : dd.length = 0 := by
              rw [← hcl]
              have : ¬ 0 < cl.toNat := fun h => hpos ((pos_iff cl).mpr h)
              omega
            rw [if_pos hd0] at hcnt
            refine Or.inr ⟨_, rfl, Or.inr ⟨rfl, hpos, hn, ?_, _, hw⟩⟩
            rw [← hcnt]; simp
        · refine ⟨rfl, ?_, Int.le_refl 0, rfl, ?_, rest'.length + 1, Nat.lt_succ_self _, ?_⟩
          · show (bv24 e f g).toNat = rest'.length
            rw [bv24_toNat, hlen]
          · show rest'.length < (List.range _).length
            simp only [List.length_range, List.length_cons]
            omega
          · show (cnt (rest'.length + 1) rest').map (· + (0 : Int).toNat) = _
            cases cnt (rest'.length + 1) rest' <;> simp
        · rintro ⟨r, cl, n, dd⟩ (⟨hr, hR⟩ | ⟨hr, hpos, hn, hR, e', hw⟩)
          · simp only at hr hR; subst hr; rw [hR]
          · simp only at hr hpos hn hw hR; subst hr
            rw [hR]
            simp only [hpos, decide_false, Bool.false_eq_true, if_false, make_ok _ n hn, ok_bind, hs]
            refine forIn_bind_eq _ (Inv2 (11#8 :: b :: c :: d :: e :: f :: g :: rest') n.toNat (split n.toNat rest'))
              (Post2 (11#8 :: b :: c :: d :: e :: f :: g :: rest') (split n.toNat rest')) _ _ _ _ ?_ ?_ ?_ ?_
            · rintro ⟨mm, d2⟩ ⟨i, hl, hin, hraw, pre, hcs, hpl, hsp, _⟩
              simp only at hraw hcs hsp
              have h0 : n.toNat - i = 0 := by
                cases hk : n.toNat - i with
                | zero => rfl
                | succ k => rw [hk, List.range'_succ] at hl; cases hl
              rw [h0] at hcs hsp
              simp only [List.replicate_zero, List.append_nil, split] at hcs hsp
              show mm = _
              cases mm
              simp only at hraw hcs
              rw [hraw, hcs, hsp]
            · rintro x l ⟨mm, d2⟩ ⟨i, hl, hin, hraw, pre, hcs, hpl, hsp, e2, hw2⟩
              simp only at hraw hcs hsp hw2
              obtain ⟨k, hk⟩ : ∃ k, n.toNat - i = k + 1 := by
                cases hk : n.toNat - i with
                | zero => rw [hk] at hl; simp at hl
                | succ k => exact ⟨k, rfl⟩
              rw [hk] at hl hw2 hcs hsp
              rw [List.range'_succ] at hl
              obtain ⟨rfl, rfl⟩ := List.cons.inj hl
              rw [walk] at hw2
              cases hst : step d2 with
              | none => rw [hst] at hw2; cases hw2
              | some d3 =>
                rw [hst] at hw2
                simp only [Option.bind_some] at hw2
                obtain ⟨a1, a2, a3, r3, rfl, hu, rfl⟩ := step_some hst
                have j0 : Go.idx (a1 :: a2 :: a3 :: r3) 0 = .ok a1 := idx_ok _ 0 (by simp) _ rfl
                have j1 : Go.idx (a1 :: a2 :: a3 :: r3) 1 = .ok a2 := idx_ok _ 1 (by simp) _ rfl
                have j2 : Go.idx (a1 :: a2 :: a3 :: r3) 2 = .ok a3 := idx_ok _ 2 (by simp) _ rfl
                have hX := three_add_bv24 a1 a2 a3
                have hs1 : Go.slice (a1 :: a2 :: a3 :: r3) 3 ((3#32 + bv24 a1 a2 a3).toNat : Int)
                    = .ok (r3.take (u24 a1 a2 a3)) := by
                  rw [slice_ok (a1 :: a2 :: a3 :: r3) 3 (3 + u24 a1 a2 a3) (by omega)
                    (by simp only [List.length_cons]; omega) 3 ((3#32 + bv24 a1 a2 a3).toNat : Int) rfl (by rw [hX])]
                  congr 2
                  omega
                have hs2 : Go.slice (a1 :: a2 :: a3 :: r3) ((3#32 + bv24 a1 a2 a3).toNat : Int)
                    ((a1 :: a2 :: a3 :: r3).length : Int) = .ok (r3.drop (u24 a1 a2 a3)) := by
                  rw [slice_end _ (3 + u24 a1 a2 a3) (by simp only [List.length_cons]; omega) _ _ (by rw [hX]) rfl]
                  congr 1
                  rw [Nat.add_comm 3]
                  exact drop3 _ _ _ _ _
                have hclen : mm.certificates.length = n.toNat := by
                  rw [hcs, List.length_append, List.length_replicate, hpl]; omega
                have hset := set_ok mm.certificates x (r3.take (u24 a1 a2 a3)) (by omega) (x : Int) rfl
                simp only [j0, j1, j2, ok_bind, hs1, hs2, hset]
                have hk' : n.toNat - (x + 1) = k := by omega
                refine Or.inl ⟨_, rfl, x + 1, by rw [hk'], by omega, hraw, pre ++ [r3.take (u24 a1 a2 a3)], ?_, ?_, ?_, e2, ?_⟩
                · show mm.certificates.set x _ = _
                  rw [hcs, hk', List.replicate_succ, List.set_append_right _ _ (by omega), hpl, Nat.sub_self,
                    List.set_cons_zero, List.append_assoc]
                  rfl
                · simp [hpl]
                · rw [hk', ← hsp, split, List.append_assoc]; rfl
                · rw [hk']; exact hw2
            · refine ⟨0, by simp [List.range_eq_range'], by omega, rfl, [], by simp, rfl, by simp, e', ?_⟩
              simpa using hw
            · rintro ⟨mm, d2⟩ hp
              simp only [Post2] at hp
              rw [hp]

/-- the form `∃ r, … = .ok r` -/
theorem certificate_noPanic (m : Src.tlcp.certificateMsg) (data : Bytes) :
    NoPanic (Src.tlcp.certificateMsg.unmarshal m data) := ⟨_, tie_certificate m data⟩

/-! ## `certificateRequestMsg.unmarshal` -/

/-- `uint16(a)<<8 | uint16(b)` -/
def bv16 (a b : BitVec 8) : BitVec 16 := BitVec.setWidth 16 a <<< 8 ||| BitVec.setWidth 16 b

theorem bv16_def (a b : BitVec 8) : BitVec.setWidth 16 a <<< 8 ||| BitVec.setWidth 16 b = bv16 a b := rfl

/-- `copy(a, src)` when `src` is at least as long as `a`: the first `len(a)` bytes of `src` -/
theorem copyInto_take {α : Type} (a src : List α) (h : a.length ≤ src.length) (zh : Int) (hz : zh = (a.length : Int)) :
    Go.copyInto a 0 zh src = .ok (src.take a.length) := by
  subst hz
  unfold Go.copyInto
  rw [if_neg (by omega)]
  simp only [Int.toNat_zero, Int.toNat_natCast, Nat.sub_zero, List.take_zero, List.nil_append, Nat.zero_add,
    Nat.min_eq_left h, List.drop_length, List.append_nil]

/-- the most general form of the loop rule: any property `Q` of the whole -/
theorem forIn_bind_rule {σ α β : Type} (Q : Except String β → Prop) (f : α → σ → Except String (ForInStep σ))
    (Inv : List α → σ → Prop) (Post : σ → Prop) (l : List α) (init : σ) (K : σ → Except String β)
    (hnil : ∀ s, Inv [] s → Post s)
    (hstep : ∀ x l s, Inv (x :: l) s →
      (∃ s', f x s = .ok (.yield s') ∧ Inv l s') ∨ (∃ s', f x s = .ok (.done s') ∧ Post s'))
    (hinit : Inv l init) (hK : ∀ s, Post s → Q (K s)) :
    Q (Except.bind (forIn l init f) K) := by
  obtain ⟨s', he, hp⟩ := forIn_inv f Inv Post hnil hstep l init hinit
  rw [he]
  exact hK s' hp

/-- the CA-name loop in closed form: the names; `none` = `return false` -/
def casList : Nat → Bytes → Option (List Bytes)
  | 0, _ => none
  | _ + 1, [] => some []
  | _ + 1, [_] => none
  | f + 1, y0 :: y1 :: cs2 =>
    if cs2.length < (bv16 y0 y1).toNat then none
    else (casList f (cs2.drop (bv16 y0 y1).toNat)).map (cs2.take (bv16 y0 y1).toNat :: ·)

/-- `certificateRequestMsg.unmarshal` in closed form: `some (certificateTypes, certificateAuthorities)` when
the message is accepted -/
def creqResult (data : Bytes) : Option (Bytes × List Bytes) :=
  if complete data 13#8 then
    match data with
    | _ :: _ :: _ :: _ :: e :: rest1 =>
      if e.toNat = 0 ∨ rest1.length ≤ e.toNat then none
      else match rest1.drop e.toNat with
        | x0 :: x1 :: data3 =>
          if data3.length < (bv16 x0 x1).toNat then none
          else match casList ((bv16 x0 x1).toNat + 1) (data3.take (bv16 x0 x1).toNat) with
            | none => none
            | some cas => if data3.length = (bv16 x0 x1).toNat then some (rest1.take e.toNat, cas) else none
        | _ => none
    | _ => none
  else none

/-- the answer `x` of the translated decoder is the closed form: it is `.ok (m', b)`, `b` says whether the
closed form accepts, and when it does `m'` holds `data` and the decoded fields -/
def CreqIs (data : Bytes) (x : Except String (Src.tlcp.certificateRequestMsg × Bool)) : Prop :=
  ∃ m', x = .ok (m', (creqResult data).isSome) ∧
    ∀ ct cas, creqResult data = some (ct, cas) →
      m' = { raw := data, certificateTypes := ct, certificateAuthorities := cas }

theorem creq_reject {data : Bytes} (h : creqResult data = none) (M : Src.tlcp.certificateRequestMsg) :
    CreqIs data (.ok (M, false)) :=
  ⟨M, by rw [h]; rfl, by intro ct cas h2; rw [h] at h2; cases h2⟩

/-- state of the loop: pending `return`, `m`, `cas` -/
abbrev S3 := Option (Src.tlcp.certificateRequestMsg × Bool) × Src.tlcp.certificateRequestMsg × Bytes

/-- the fuel left exceeds the bytes of `cas` left; only `m.certificateAuthorities` changes; appending what
remains to be decoded to what has been decoded gives the overall list `R` -/
def Inv3 (data ct : Bytes) (R : Option (List Bytes)) (l : List Nat) (s : S3) : Prop :=
  s.1 = none ∧ s.2.2.length < l.length ∧ s.2.1.raw = data ∧ s.2.1.certificateTypes = ct ∧
    ∃ f, s.2.2.length < f ∧ (casList f s.2.2).map (s.2.1.certificateAuthorities ++ ·) = R

def Post3 (data ct : Bytes) (R : Option (List Bytes)) (s : S3) : Prop :=
  (∃ m', s.1 = some (m', false) ∧ R = none) ∨
    (s.1 = none ∧ ¬ ((s.2.2.length : Int) > 0) ∧ s.2.1.raw = data ∧ s.2.1.certificateTypes = ct ∧
      R = some s.2.1.certificateAuthorities)

/-- **`certificateRequestMsg.unmarshal`, every receiver, every byte string**: no panic, loop fuel
suffices, and the result is the closed form -/
theorem tie_certificateRequest (m : Src.tlcp.certificateRequestMsg) (data : Bytes) :
    CreqIs data (Src.tlcp.certificateRequestMsg.unmarshal m data) := by
  unfold Src.tlcp.certificateRequestMsg.unmarshal
  simp only [bind, pure, Except.pure, tie_isComplete, ok_bind]
  cases hc : complete data 13#8
  · exact creq_reject (by simp [creqResult, hc]) _
  · obtain ⟨b, c, d, rest, rfl, hl⟩ := complete_true hc
    simp only [Bool.not_true, Bool.false_eq_true, if_false]
    by_cases h5 : (((13#8 :: b :: c :: d :: rest).length : Int) < 5)
    · simp only [h5, decide_true, if_true]
      match rest, h5 with
      | [], _ => exact creq_reject (by simp [creqResult, hc]) _
      | _ :: r, h => simp only [List.length_cons] at h; omega
    · simp only [h5, decide_false, Bool.false_eq_true, if_false]
      obtain ⟨e, rest1, rfl⟩ : ∃ e rest1, rest = e :: rest1 := by
        match rest, h5 with
        | e :: r, _ => exact ⟨e, r, rfl⟩
        | [], h => simp at h
      have i1 : Go.idx (13#8 :: b :: c :: d :: e :: rest1) 1 = .ok b := idx_ok _ 1 (by simp) _ rfl
      have i2 : Go.idx (13#8 :: b :: c :: d :: e :: rest1) 2 = .ok c := idx_ok _ 2 (by simp) _ rfl
      have i3 : Go.idx (13#8 :: b :: c :: d :: e :: rest1) 3 = .ok d := idx_ok _ 3 (by simp) _ rfl
      have i4 : Go.idx (13#8 :: b :: c :: d :: e :: rest1) 4 = .ok e := idx_ok _ 4 (by simp) _ rfl
      have hs : Go.slice (13#8 :: b :: c :: d :: e :: rest1) 5
          ((13#8 :: b :: c :: d :: e :: rest1).length : Int) = .ok rest1 :=
        slice_end _ 5 (by simp) _ _ rfl rfl
      simp only [i1, i2, i3, i4, bv24_def, hs, ok_bind]
      -- the second length check repeats what `tlcpIsCompleteMessage` established: it never fires
      have hne : ¬ (BitVec.ofInt 32 ((13#8 :: b :: c :: d :: e :: rest1).length : Int) - 4#32 != bv24 b c d) = true := by
        rw [bne_iff_ne, ne_eq, Decidable.not_not]
        have l1 := u24_lt b c d
        simp only [List.length_cons] at hl
        apply BitVec.eq_of_toNat_eq
        have hle : 4#32 ≤ BitVec.ofInt 32 ((13#8 :: b :: c :: d :: e :: rest1).length : Int) := by
          rw [BitVec.le_def]
          simp only [List.length_cons, BitVec.ofInt_natCast, BitVec.toNat_ofNat]
          omega
        rw [BitVec.toNat_sub_of_le hle, bv24_toNat]
        simp only [List.length_cons, BitVec.ofInt_natCast, BitVec.toNat_ofNat]
        omega
      simp only [hne, Bool.false_eq_true, if_false]
      by_cases hct : (((e.toNat : Int) == 0 || decide ((rest1.length : Int) ≤ (e.toNat : Int))) = true)
      · simp only [hct, if_true]
        have : e.toNat = 0 ∨ rest1.length ≤ e.toNat := by
          simp only [Bool.or_eq_true, decide_eq_true_eq, beq_iff_eq] at hct
          omega
        exact creq_reject (by simp only [creqResult, hc, if_true, this]) _
      · simp only [hct, Bool.false_eq_true, if_false]
        have hct0 : ¬ (e.toNat = 0 ∨ rest1.length ≤ e.toNat) := by
          simp only [Bool.or_eq_true, decide_eq_true_eq, beq_iff_eq] at hct
          omega
        have hct' : e.toNat < rest1.length := by omega
        have hcp := copyInto_take (List.replicate e.toNat 0#8) rest1 (by rw [List.length_replicate]; omega)
          ((List.replicate e.toNat 0#8).length : Int) rfl
        rw [List.length_replicate] at hcp
        simp only [make_ok 0#8 (e.toNat : Int) (by omega), Int.toNat_natCast, ok_bind, List.length_replicate, hcp]
        have hmin : ¬ (min ((rest1.take e.toNat).length : Int) (rest1.length : Int) != (e.toNat : Int)) = true := by
          rw [bne_iff_ne, ne_eq, Decidable.not_not, List.length_take]
          omega
        simp only [hmin, Bool.false_eq_true, if_false]
        have hs2 : Go.slice rest1 (e.toNat : Int) (rest1.length : Int) = .ok (rest1.drop e.toNat) :=
          slice_end _ e.toNat (by omega) _ _ rfl rfl
        simp only [hs2, ok_bind]
        have hres0 : creqResult (13#8 :: b :: c :: d :: e :: rest1) =
            match rest1.drop e.toNat with
            | x0 :: x1 :: data3 =>
              if data3.length < (bv16 x0 x1).toNat then none
              else match casList ((bv16 x0 x1).toNat + 1) (data3.take (bv16 x0 x1).toNat) with
                | none => none
                | some cas => if data3.length = (bv16 x0 x1).toNat then some (rest1.take e.toNat, cas) else none
            | _ => none := by
          simp only [creqResult, hc, if_true, hct0, if_false]
        generalize hd2 : rest1.drop e.toNat = data2 at hres0 ⊢
        have hd2l : data2.length ≤ rest1.length := by rw [← hd2, List.length_drop]; omega
        by_cases h2 : ((data2.length : Int) < 2)
        · simp only [h2, decide_true, if_true]
          refine creq_reject ?_ _
          rw [hres0]
          match data2, h2 with
          | [], _ => rfl
          | [_], _ => rfl
          | _ :: _ :: r, h => simp only [List.length_cons] at h; omega
        · simp only [h2, decide_false, Bool.false_eq_true, if_false]
          obtain ⟨x0, x1, data3, rfl⟩ : ∃ x0 x1 data3, data2 = x0 :: x1 :: data3 := by
            match data2, h2 with
            | x0 :: x1 :: r, _ => exact ⟨x0, x1, r, rfl⟩
            | [], h => simp at h
            | [_], h => simp only [List.length_cons, List.length_nil] at h; omega
          have k0 : Go.idx (x0 :: x1 :: data3) 0 = .ok x0 := idx_ok _ 0 (by simp) _ rfl
          have k1 : Go.idx (x0 :: x1 :: data3) 1 = .ok x1 := idx_ok _ 1 (by simp) _ rfl
          have hs3 : Go.slice (x0 :: x1 :: data3) 2 ((x0 :: x1 :: data3).length : Int) = .ok data3 :=
            slice_end _ 2 (by simp) _ _ rfl rfl
          simp only [k0, k1, hs3, ok_bind, bv16_def]
          dsimp only at hres0
          have hd3l : data3.length ≤ rest1.length := by simp only [List.length_cons] at hd2l; omega
          by_cases hcas : ((data3.length : Int) < ((bv16 x0 x1).toNat : Int))
          · simp only [hcas, decide_true, if_true]
            refine creq_reject ?_ _
            rw [hres0, if_pos (by omega)]
          · simp only [hcas, decide_false, Bool.false_eq_true, if_false]
            rw [if_neg (by omega)] at hres0
            have hcp2 := copyInto_take (List.replicate (bv16 x0 x1).toNat 0#8) data3
              (by rw [List.length_replicate]; omega) ((List.replicate (bv16 x0 x1).toNat 0#8).length : Int) rfl
            rw [List.length_replicate] at hcp2
            have hs4 : Go.slice data3 ((bv16 x0 x1).toNat : Int) (data3.length : Int) = .ok (data3.drop (bv16 x0 x1).toNat) :=
              slice_end _ (bv16 x0 x1).toNat (by omega) _ _ rfl rfl
            simp only [make_ok 0#8 ((bv16 x0 x1).toNat : Int) (by omega), Int.toNat_natCast, ok_bind,
              List.length_replicate, hcp2, hs4]
            have hcasl : (data3.take (bv16 x0 x1).toNat).length = (bv16 x0 x1).toNat := by
              rw [List.length_take]; omega
            refine forIn_bind_rule (CreqIs (13#8 :: b :: c :: d :: e :: rest1)) _
              (Inv3 (13#8 :: b :: c :: d :: e :: rest1) (rest1.take e.toNat)
                (casList ((bv16 x0 x1).toNat + 1) (data3.take (bv16 x0 x1).toNat)))
              (Post3 (13#8 :: b :: c :: d :: e :: rest1) (rest1.take e.toNat)
                (casList ((bv16 x0 x1).toNat + 1) (data3.take (bv16 x0 x1).toNat))) _ _ _ ?_ ?_ ?_ ?_
            · rintro ⟨r, mm, cs⟩ ⟨_, hfuel, _⟩
              simp at hfuel
            · rintro x l ⟨r, mm, cs⟩ ⟨hr, hfuel, hraw, htypes, fu, hfu, hR⟩
              simp only at hr hfuel hraw htypes hfu hR
              subst hr
              obtain ⟨fu', rfl⟩ : ∃ fu', fu = fu' + 1 := ⟨fu - 1, by omega⟩
              by_cases hpos : ((cs.length : Int) > 0)
              · simp only [hpos, decide_true, Bool.not_true, Bool.false_eq_true, if_false]
                by_cases hc2 : ((cs.length : Int) < 2)
                · simp only [hc2, decide_true, if_true]
                  refine Or.inr ⟨_, rfl, Or.inl ⟨_, rfl, ?_⟩⟩
                  rw [← hR]
                  match cs, hc2, hpos with
                  | [_], _, _ => simp [casList]
                  | [], _, h => simp at h
                  | _ :: _ :: r, h, _ => simp only [List.length_cons] at h; omega
                · simp only [hc2, decide_false, Bool.false_eq_true, if_false]
                  obtain ⟨y0, y1, cs2, rfl⟩ : ∃ y0 y1 cs2, cs = y0 :: y1 :: cs2 := by
                    match cs, hc2 with
                    | y0 :: y1 :: r, _ => exact ⟨y0, y1, r, rfl⟩
                    | [], h => simp at h
                    | [_], h => simp only [List.length_cons, List.length_nil] at h; omega
                  rw [casList] at hR
                  have l0 : Go.idx (y0 :: y1 :: cs2) 0 = .ok y0 := idx_ok _ 0 (by simp) _ rfl
                  have l1 : Go.idx (y0 :: y1 :: cs2) 1 = .ok y1 := idx_ok _ 1 (by simp) _ rfl
                  have hs5 : Go.slice (y0 :: y1 :: cs2) 2 ((y0 :: y1 :: cs2).length : Int) = .ok cs2 :=
                    slice_end _ 2 (by simp) _ _ rfl rfl
                  simp only [l0, l1, hs5, ok_bind]
                  by_cases hca : ((cs2.length : Int) < ((bv16 y0 y1).toNat : Int))
                  · simp only [hca, decide_true, if_true]
                    rw [if_pos (by omega)] at hR
                    exact Or.inr ⟨_, rfl, Or.inl ⟨_, rfl, hR.symm⟩⟩
                  · simp only [hca, decide_false, Bool.false_eq_true, if_false]
                    rw [if_neg (by omega)] at hR
                    have hs6 : Go.slice cs2 0 ((bv16 y0 y1).toNat : Int) = .ok (cs2.take (bv16 y0 y1).toNat) := by
                      rw [slice_ok cs2 0 (bv16 y0 y1).toNat (by omega) (by omega) 0 ((bv16 y0 y1).toNat : Int) rfl rfl]
                      rfl
                    have hs7 : Go.slice cs2 ((bv16 y0 y1).toNat : Int) (cs2.length : Int)
                        = .ok (cs2.drop (bv16 y0 y1).toNat) :=
                      slice_end _ _ (by omega) _ _ rfl rfl
                    simp only [hs6, hs7, ok_bind]
                    refine Or.inl ⟨_, rfl, rfl, ?_, hraw, htypes, fu', ?_, ?_⟩
                    · show (cs2.drop (bv16 y0 y1).toNat).length < l.length
                      simp only [List.length_cons, List.length_drop] at hfuel ⊢
                      omega
                    · show (cs2.drop (bv16 y0 y1).toNat).length < fu'
                      simp only [List.length_cons, List.length_drop] at hfu ⊢
                      omega
                    · show (casList fu' (cs2.drop (bv16 y0 y1).toNat)).map
                        ((mm.certificateAuthorities ++ [cs2.take (bv16 y0 y1).toNat]) ++ ·) = _
                      rw [← hR]
                      cases casList fu' (cs2.drop (bv16 y0 y1).toNat) with
                      | none => rfl
                      | some k => simp only [Option.map_some, List.append_assoc, List.singleton_append]
              · simp only [hpos, decide_false, Bool.not_false, if_true]
                have hnil : cs = [] := List.eq_nil_of_length_eq_zero (by omega)
                subst hnil
                refine Or.inr ⟨_, rfl, Or.inr ⟨rfl, hpos, hraw, htypes, ?_⟩⟩
                rw [← hR]; simp [casList]
            · refine ⟨rfl, ?_, rfl, rfl, (bv16 x0 x1).toNat + 1, ?_, ?_⟩
              · show (data3.take (bv16 x0 x1).toNat).length < (List.range _).length
                simp only [List.length_range, List.length_cons, hcasl]
                omega
              · show (data3.take (bv16 x0 x1).toNat).length < _
                rw [hcasl]; omega
              · show (casList _ _).map (([] : List Bytes) ++ ·) = _
                cases casList ((bv16 x0 x1).toNat + 1) (data3.take (bv16 x0 x1).toNat) <;> simp
            · rintro ⟨r, mm, cs⟩ (⟨m', hr, hR⟩ | ⟨hr, hpos, hraw, htypes, hR⟩)
              · simp only at hr hR; subst hr
                refine creq_reject ?_ _
                rw [hres0, hR]
              · simp only at hr hpos hraw htypes hR; subst hr
                simp only [hpos, decide_false, Bool.false_eq_true, if_false]
                rw [hR] at hres0
                dsimp only at hres0
                by_cases hend : data3.length = (bv16 x0 x1).toNat
                · rw [if_pos hend] at hres0
                  have hb : (((data3.drop (bv16 x0 x1).toNat).length : Int) == 0) = true := by
                    rw [beq_iff_eq, List.length_drop]; omega
                  rw [hb]
                  refine ⟨mm, by rw [hres0]; rfl, ?_⟩
                  intro ct cas h2
                  rw [hres0] at h2
                  simp only [Option.some.injEq, Prod.mk.injEq] at h2
                  cases mm
                  simp only at hraw htypes h2
                  rw [hraw, htypes, h2.1, h2.2]
                · rw [if_neg hend] at hres0
                  have hb : (((data3.drop (bv16 x0 x1).toNat).length : Int) == 0) = false := by
                    rw [beq_eq_false_iff_ne, ne_eq, List.length_drop]; omega
                  rw [hb]
                  exact creq_reject hres0 _

/-- the form `∃ r, … = .ok r` -/
theorem certificateRequest_noPanic (m : Src.tlcp.certificateRequestMsg) (data : Bytes) :
    NoPanic (Src.tlcp.certificateRequestMsg.unmarshal m data) := by
  obtain ⟨m', h, _⟩ := tie_certificateRequest m data
  exact ⟨_, h⟩

/-! ## the six results in the form `∃ r, f … = .ok r` -/

theorem no_panic_tlcpIsCompleteMessage (data : Bytes) (msgType : BitVec 8) :
    ∃ r, Src.tlcp.tlcpIsCompleteMessage data msgType = .ok r := ⟨_, tie_isComplete data msgType⟩

theorem no_panic_certificateMsg_unmarshal (m : Src.tlcp.certificateMsg) (data : Bytes) :
    ∃ r, Src.tlcp.certificateMsg.unmarshal m data = .ok r := certificate_noPanic m data

theorem no_panic_certificateRequestMsg_unmarshal (m : Src.tlcp.certificateRequestMsg) (data : Bytes) :
    ∃ r, Src.tlcp.certificateRequestMsg.unmarshal m data = .ok r := certificateRequest_noPanic m data

theorem no_panic_serverKeyExchangeMsg_unmarshal (m : Src.tlcp.serverKeyExchangeMsg) (data : Bytes) :
    ∃ r, Src.tlcp.serverKeyExchangeMsg.unmarshal m data = .ok r := ⟨_, tie_serverKeyExchange m data⟩

theorem no_panic_clientKeyExchangeMsg_unmarshal (m : Src.tlcp.clientKeyExchangeMsg) (data : Bytes) :
    ∃ r, Src.tlcp.clientKeyExchangeMsg.unmarshal m data = .ok r := ⟨_, tie_clientKeyExchange m data⟩

theorem no_panic_serverHelloDoneMsg_unmarshal (m : Src.tlcp.serverHelloDoneMsg) (data : Bytes) :
    ∃ r, Src.tlcp.serverHelloDoneMsg.unmarshal m data = .ok r := ⟨_, tie_serverHelloDone m data⟩

/-- `x` is `.ok r` with `r = expected` (`Except` has no `DecidableEq`) -/
def isOk {α : Type} [DecidableEq α] (x : Except String α) (expected : α) : Bool :=
  match x with
  | .ok r => decide (r = expected)
  | .error _ => false

theorem isOk_iff {α : Type} [DecidableEq α] (x : Except String α) (e : α) : isOk x e = true ↔ x = .ok e := by
  cases x <;> simp [isOk]

/-- non-vacuity: a Certificate message with two entries (2 and 1 bytes) is decoded, not just "not a panic" -/
example :
    isOk (Src.tlcp.certificateMsg.unmarshal {} [11, 0, 0, 12, 0, 0, 9, 0, 0, 2, 0xaa, 0xbb, 0, 0, 1, 0xcc])
      ({ raw := [11, 0, 0, 12, 0, 0, 9, 0, 0, 2, 0xaa, 0xbb, 0, 0, 1, 0xcc],
         certificates := [[0xaa, 0xbb], [0xcc]] }, true) = true := by
  decide

end Gotlcp.Tie.UnmarshalTlcp

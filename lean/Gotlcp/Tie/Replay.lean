/-
Tie by translation, dtlcp/replay.go: the definitions `Gotlcp.Src.dtlcp.newReplayWindow`,
`replayWindow.span`, `replayWindow.check` are regenerated from the Go source on every run by
`harness/cmd/go2lean`; the theorems below prove, for ALL windows and sequence numbers, that they
compute what the hand-written model `Gotlcp.Model.Replay` (instantiated with the regenerated
facts) computes.  The property theorems of C16 therefore hold of the translated source text.
-/
import Gotlcp.Generated.Src
import Gotlcp.Generated.Facts
import Gotlcp.Model.Replay

namespace Gotlcp.Tie.Replay
open Gotlcp.Model.Replay

abbrev SrcWindow := Gotlcp.Src.dtlcp.replayWindow

/-- the parameters of the tree under test (the same record as `Props.C16.P`) -/
def P : Params :=
  treeParams Facts.dtlcp.defaultReplayWindowSize

/-- abstraction: `right uint48` read as a natural number, `size int` as a natural number -/
def abs (w : SrcWindow) : Window :=
  { right := w.right.toNat, size := w.size.toNat, bitmap := w.bitmap }

/-- `newReplayWindow`, any argument -/
theorem tie_new (n : Int) :
    abs (Src.dtlcp.newReplayWindow n) = newWindow P n ∧ 0 ≤ (Src.dtlcp.newReplayWindow n).size := by
  unfold Src.dtlcp.newReplayWindow newWindow abs P
  simp only [Id.run, pure, treeParams]
  by_cases h : n < 32 <;> simp [h] <;> omega

/-- `span`, any window with a non-negative size -/
theorem tie_span (w : SrcWindow) (h : 0 ≤ w.size) :
    (Src.dtlcp.replayWindow.span w).toNat = span P (abs w) := by
  unfold Src.dtlcp.replayWindow.span span abs P
  simp only [Id.run, pure, treeParams]
  by_cases h64 : w.size > 64
  · have : w.size.toNat > 64 := by omega
    simp [h64, this]
  · have : ¬ w.size.toNat > 64 := by omega
    simp [h64, this]
    omega

/-- `check`, any window with a non-negative size, any 64-bit sequence number: same answer,
same successor window -/
theorem tie_check (w : SrcWindow) (seq : BitVec 64) (h : 0 ≤ w.size) :
    (abs (Src.dtlcp.replayWindow.check w seq).1, (Src.dtlcp.replayWindow.check w seq).2)
      = check P (abs w) seq.toNat ∧ (Src.dtlcp.replayWindow.check w seq).1.size = w.size := by
  have hs := tie_span w h
  unfold Src.dtlcp.replayWindow.check check
  simp only [Id.run, pure]
  have hr : (abs w).right = w.right.toNat := rfl
  have hb : (abs w).bitmap = w.bitmap := rfl
  by_cases h1 : seq > w.right
  · have h1' : seq.toNat > (abs w).right := by simpa [abs, BitVec.lt_def] using h1
    have hd : (seq - w.right).toNat = seq.toNat - (abs w).right := by
      rw [hr, BitVec.toNat_sub_of_le (BitVec.le_of_lt h1)]
    by_cases h2 : seq - w.right ≥ Src.dtlcp.replayWindow.span w
    · have h2' : seq.toNat - (abs w).right ≥ span P (abs w) := by
        rw [← hs, ← hd]; simpa [BitVec.le_def] using h2
      simp only [h1, h1', h2, h2', decide_true, if_true]
      simp [abs]
    · have h2' : ¬ seq.toNat - (abs w).right ≥ span P (abs w) := by
        rw [← hs, ← hd]; simpa [BitVec.le_def] using h2
      simp only [h1, h1', h2, h2', decide_true, decide_false, if_true, if_false, Bool.false_eq_true]
      simp [abs, hd]
  · have h1' : ¬ seq.toNat > (abs w).right := by simpa [abs, BitVec.lt_def] using h1
    have hle : seq ≤ w.right := by simpa [BitVec.le_def, BitVec.lt_def] using h1
    have hd : (w.right - seq).toNat = (abs w).right - seq.toNat := by
      rw [hr, BitVec.toNat_sub_of_le hle]
    by_cases h2 : w.right - seq ≥ Src.dtlcp.replayWindow.span w
    · have h2' : (abs w).right - seq.toNat ≥ span P (abs w) := by
        rw [← hs, ← hd]; simpa [BitVec.le_def] using h2
      simp only [h1, h1', h2, h2', decide_true, decide_false, if_true, if_false, Bool.false_eq_true]
      simp
    · have h2' : ¬ (abs w).right - seq.toNat ≥ span P (abs w) := by
        rw [← hs, ← hd]; simpa [BitVec.le_def] using h2
      simp only [h1, h1', h2, h2', decide_true, decide_false, if_true, if_false, Bool.false_eq_true, hd, hb]
      rw [hr]
      by_cases h3 : (w.bitmap &&& 1#64 <<< (w.right.toNat - seq.toNat)) = 0#64
      · simp [h3, abs]
      · simp [h3, abs]

/-- a delivery history through the TRANSLATED `check`: final window and the answers -/
def srcRun (w : SrcWindow) : List (BitVec 64) → SrcWindow × List Bool
  | [] => (w, [])
  | s :: ss =>
    let r := Src.dtlcp.replayWindow.check w s
    let (w2, bs) := srcRun r.1 ss
    (w2, r.2 :: bs)

/-- all histories: the translated source answers exactly as the model does -/
theorem tie_run (ss : List (BitVec 64)) (w : SrcWindow) (h : 0 ≤ w.size) :
    (abs (srcRun w ss).1, (srcRun w ss).2) = run P (abs w) (ss.map (·.toNat)) := by
  induction ss generalizing w with
  | nil => rfl
  | cons s ss ih =>
    have hc := tie_check w s h
    have ih' := ih (Src.dtlcp.replayWindow.check w s).1 (by rw [hc.2]; exact h)
    simp only [srcRun, run, List.map_cons]
    have h1 := congrArg Prod.fst hc.1
    have h2 := congrArg Prod.snd hc.1
    simp only at h1 h2
    rw [← h1, ← h2, ← ih']

/-- histories from a fresh window, any argument of `newReplayWindow` -/
theorem tie_run_new (n : Int) (ss : List (BitVec 64)) :
    (srcRun (Src.dtlcp.newReplayWindow n) ss).2 = (run P (newWindow P n) (ss.map (·.toNat))).2 := by
  have h := tie_new n
  have := tie_run ss (Src.dtlcp.newReplayWindow n) h.2
  rw [h.1] at this
  exact (congrArg Prod.snd this)

end Gotlcp.Tie.Replay

/-
Tie by translation, `serverHelloMsg.unmarshal` (cryptobyte based; tlcp/handshake_messages.go and, in
Tie/CodecSHDtlcp.lean, dtlcp/handshake_messages.go).  `Gotlcp.Src.tlcp.codec.serverHelloMsg.unmarshal`
is regenerated from the Go source on every run by `harness/cmd/go2lean`, statement by statement;
`cryptobyte.String` is the stub `cbString` whose methods `Tie/CbString.lean` specifies.

This file
  * writes the body decoder (everything after the handshake header) ONCE, as a pure function `decBody`
    over a lens `Lens M` onto the nine fields the Go code assigns (`SH`): the two stacks differ only in
    the message struct (dtlcp carries three more header fields) and in how the header is consumed;
  * proves `tie_serverHello`: for EVERY receiver and EVERY byte string the translated tlcp decoder
    returns `.ok` of that pure function — no `Except.error`, i.e. no Go panic and no exhausted loop
    fuel (`for !extensions.Empty()` consumes at least four bytes per round: `iter_fuel`);
  * the comparison of `decBody` with the hand model `Model.Codec.decServerHelloBody` is in
    Tie/CodecSHModel.lean.

Core Lean only.
-/
import Gotlcp.Tie.CbString
import Gotlcp.Tie.UnmarshalTlcp

set_option linter.unusedSimpArgs false
set_option linter.unusedVariables false

namespace Gotlcp.Tie.CodecSH
open Gotlcp Gotlcp.Tie.CbString
open Gotlcp.Tie.UnmarshalTlcp (ok_bind error_bind complete tie_isComplete complete_true u24)

/-! ## the cbString reads as named functions (so that the rewritten text stays small) -/

/-- `s.ReadUint8(&out)`: (rest, out, ok) -/
def rd8 (s : BV) (out : BitVec 8) : BV × BitVec 8 × Bool :=
  match s with | [] => (s, out, false) | b :: r => (r, b, true)

/-- `s.ReadUint16(&out)` -/
def rd16 (s : BV) (out : BitVec 16) : BV × BitVec 16 × Bool :=
  match s with
  | a :: b :: r => (r, (BitVec.setWidth 16 a <<< 8) ||| BitVec.setWidth 16 b, true)
  | _ => (s, out, false)

/-- `s.ReadBytes(&out, n)` -/
def rdBytes (s out : BV) (n : Int) : BV × BV × Bool :=
  if (readSpec s n).2.2 then ((readSpec s n).1, (readSpec s n).2.1, true) else (s, out, false)

open Gotlcp.Src.tlcp.codec in
theorem rU8 (s : BV) (out : BitVec 8) : cbString.ReadUint8 s out = .ok (rd8 s out) := by
  rw [readUint8_eq]; cases s <;> rfl

open Gotlcp.Src.tlcp.codec in
theorem rU16 (s : BV) (out : BitVec 16) : cbString.ReadUint16 s out = .ok (rd16 s out) := by
  rw [readUint16_eq]
  match s with
  | [] => rfl
  | [_] => rfl
  | _ :: _ :: _ => rfl

open Gotlcp.Src.tlcp.codec in
theorem rBytes (s out : BV) (n : Int) : cbString.ReadBytes s out n = .ok (rdBytes s out n) := readBytes_eq s out n

theorem rd8_len (s : BV) (o : BitVec 8) : (rd8 s o).1.length ≤ s.length := by
  cases s <;> simp [rd8]

theorem rd16_len (s : BV) (o : BitVec 16) : (rd16 s o).1.length ≤ s.length := by
  match s with
  | [] => simp [rd16]
  | [_] => simp [rd16]
  | _ :: _ :: _ => simp [rd16]; omega

theorem rd16_shorter (s : BV) (o : BitVec 16) (h : (rd16 s o).2.2 = true) : (rd16 s o).1.length + 2 = s.length := by
  match s, h with
  | [], h => simp [rd16] at h
  | [_], h => simp [rd16] at h
  | _ :: _ :: _, _ => simp [rd16]

theorem rdBytes_len (s o : BV) (n : Int) : (rdBytes s o n).1.length ≤ s.length := by
  unfold rdBytes readSpec
  by_cases h : (s.length : Int) < n ∨ n < 0 <;> simp [h]

theorem lpSpec_len (s o : BV) (k : Nat) : (lpSpec s o k).1.length ≤ s.length := by
  unfold lpSpec
  split
  · exact Nat.le_refl _
  · simp only []
    split
    · simp only [List.length_drop]; omega
    · simp only [List.length_drop]; omega

theorem lpSpec_child_len (s o : BV) (k : Nat) (h : (lpSpec s o k).2.2 = true) :
    (lpSpec s o k).2.1.length + k ≤ s.length := by
  have := lpSpec_length s o k h; omega

/-! ## the nine fields the body decoder writes, and a stack's message struct as a lens onto them -/

structure SH where
  vers : BitVec 16 := 0#16
  random : BV := []
  sessionId : BV := []
  cipherSuite : BitVec 16 := 0#16
  compressionMethod : BitVec 8 := 0#8
  ocspStapling : Bool := false
  ocspResponse : BV := []
  alpnProtocol : BV := []
  serverNameAck : Bool := false
deriving Repr, DecidableEq

/-- the message struct `M` of a stack seen as "the nine fields, and the rest" -/
structure Lens (M : Type) where
  get : M → SH
  put : M → SH → M
  get_put : ∀ m e, get (put m e) = e
  put_put : ∀ m e e', put (put m e) e' = put m e'

/-- loop state as go2lean's `for` leaves it: pending `return`, `m`, `extensions` -/
abbrev St (M : Type) := Option (M × Bool) × M × BV

variable {M : Type}

/-- `case extensionStatusRequest:` followed by the `extData.Empty()` check after the switch -/
def ocspG (L : Lens M) (m : M) (extData rest : BV) : ForInStep (St M) :=
  let r := rd8 extData 0#8
  if !r.2.2 then .done (some (m, false), m, rest) else
  if r.2.1 != 1#8 then .done (some (m, false), m, rest) else
  let q := lpSpec r.1 (L.get m).ocspResponse 3
  let m2 := L.put m { L.get m with ocspStapling := true, ocspResponse := q.2.1 }
  if !q.2.2 then .done (some (m2, false), m2, rest) else
  if !q.1.isEmpty then .done (some (m2, false), m2, rest) else .yield (none, m2, rest)

/-- `case extensionALPN:` … -/
def alpnG (L : Lens M) (m : M) (extData rest : BV) : ForInStep (St M) :=
  let p := lpSpec extData [] 2
  if !p.2.2 || p.2.1.isEmpty then .done (some (m, false), m, rest) else
  let q := lpSpec p.2.1 [] 1
  if (!q.2.2 || q.2.1.isEmpty) || !q.1.isEmpty then .done (some (m, false), m, rest) else
  let m2 := L.put m { L.get m with alpnProtocol := q.2.1 }
  if !p.1.isEmpty then .done (some (m2, false), m2, rest) else .yield (none, m2, rest)

/-- `case extensionServerName:` … -/
def sniG (L : Lens M) (m : M) (extData rest : BV) : ForInStep (St M) :=
  if ((extData.length : Int) != 0) then .done (some (m, false), m, rest) else
  let m2 := L.put m { L.get m with serverNameAck := true }
  if !extData.isEmpty then .done (some (m2, false), m2, rest) else .yield (none, m2, rest)

/-- the `switch extension` (`default: continue`) -/
def caseG (L : Lens M) (m : M) (ty : BitVec 16) (extData rest : BV) : ForInStep (St M) :=
  if ty == 5#16 then ocspG L m extData rest
  else if ty == 16#16 then alpnG L m extData rest
  else if ty == 0#16 then sniG L m extData rest
  else .yield (none, m, rest)

/-- one iteration of `for !extensions.Empty()` -/
def stepG (L : Lens M) (s : St M) : ForInStep (St M) :=
  if s.2.2.isEmpty then .done (none, s.2.1, s.2.2) else
  let r := rd16 s.2.2 0#16
  if !r.2.2 then .done (some (s.2.1, false), s.2.1, r.1) else
  let p := lpSpec r.1 [] 2
  if !p.2.2 then .done (some (s.2.1, false), s.2.1, p.1) else
  caseG L s.2.1 r.2.1 p.2.1 p.1

/-- a loop whose body never fails is a pure iteration -/
def iter {σ : Type} (g : σ → ForInStep σ) : Nat → σ → σ
  | 0, s => s
  | n + 1, s => match g s with
    | .done s' => s'
    | .yield s' => iter g n s'

theorem forIn_pure {σ α : Type} (g : σ → ForInStep σ) (f : α → σ → Except String (ForInStep σ))
    (hf : ∀ x s, f x s = .ok (g s)) (l : List α) (init : σ) :
    forIn l init f = .ok (iter g l.length init) := by
  induction l generalizing init with
  | nil => rfl
  | cons x l ih =>
    rw [List.forIn_cons, hf]
    simp only [List.length_cons, iter]
    cases g init with
    | done s' => rfl
    | yield s' => exact ih s'

/-- what the function returns after the loop: the pending `return`, or `(m, true)` -/
def finish (s : St M) : M × Bool :=
  match s.1 with
  | some r => r
  | none => (s.2.1, true)

/-- from `if s.Empty() { return true }` on -/
def decExts (L : Lens M) (fuel : Nat) (m : M) (s : BV) : M × Bool :=
  if s.isEmpty then (m, true) else
  let p := lpSpec s [] 2
  if !p.2.2 || !p.1.isEmpty then (m, false) else
  finish (iter (stepG L) fuel (none, m, p.2.1))

/-- the decoder after the handshake header: `s.ReadUint16(&m.vers) … ` to the end -/
def decBody (L : Lens M) (fuel : Nat) (m : M) (s : BV) : M × Bool :=
  let r1 := rd16 s (L.get m).vers
  let m1 := L.put m { L.get m with vers := r1.2.1 }
  if !r1.2.2 then (m1, false) else
  let r2 := rdBytes r1.1 (L.get m1).random 32
  let m2 := L.put m1 { L.get m1 with random := r2.2.1 }
  if !r2.2.2 then (m2, false) else
  let r3 := lpSpec r2.1 (L.get m2).sessionId 1
  let m3 := L.put m2 { L.get m2 with sessionId := r3.2.1 }
  if !r3.2.2 then (m3, false) else
  let r4 := rd16 r3.1 (L.get m3).cipherSuite
  let m4 := L.put m3 { L.get m3 with cipherSuite := r4.2.1 }
  if !r4.2.2 then (m4, false) else
  let r5 := rd8 r4.1 (L.get m4).compressionMethod
  let m5 := L.put m4 { L.get m4 with compressionMethod := r5.2.1 }
  if !r5.2.2 then (m5, false) else
  decExts L fuel m5 r5.1

/-! ## the loop cannot spin: every round that continues has consumed at least four bytes -/

theorem caseG_yield (L : Lens M) (m : M) (ty : BitVec 16) (extData rest : BV) (s' : St M)
    (h : caseG L m ty extData rest = .yield s') : s'.1 = none ∧ s'.2.2 = rest := by
  unfold caseG ocspG alpnG sniG at h
  simp only [] at h
  repeat' split at h
  all_goals first
    | (cases h; exact ⟨rfl, rfl⟩)
    | cases h

theorem caseG_done (L : Lens M) (m : M) (ty : BitVec 16) (extData rest : BV) (s' : St M)
    (h : caseG L m ty extData rest = .done s') : ∃ m', s'.1 = some (m', false) := by
  unfold caseG ocspG alpnG sniG at h
  simp only [] at h
  repeat' split at h
  all_goals first
    | (cases h; exact ⟨_, rfl⟩)
    | cases h

theorem stepG_yield (L : Lens M) (s s' : St M) (h : stepG L s = .yield s') :
    s'.1 = none ∧ s'.2.2.length + 4 ≤ s.2.2.length := by
  unfold stepG at h
  simp only [] at h
  split at h
  · cases h
  · split at h
    · cases h
    · split at h
      · cases h
      · rename_i h1 h2
        obtain ⟨e1, e2⟩ := caseG_yield L _ _ _ _ _ h
        refine ⟨e1, ?_⟩
        rw [e2]
        have a1 := rd16_shorter s.2.2 0#16 (by simpa using h1)
        have a2 := lpSpec_length (rd16 s.2.2 0#16).1 [] 2 (by simpa using h2)
        omega

theorem stepG_done (L : Lens M) (s s' : St M) (h : stepG L s = .done s') :
    (s'.1 = none ∧ s'.2.2 = []) ∨ ∃ m', s'.1 = some (m', false) := by
  unfold stepG at h
  simp only [] at h
  split at h
  · rename_i h0
    cases h
    exact Or.inl ⟨rfl, by simpa using h0⟩
  · split at h
    · cases h; exact Or.inr ⟨_, rfl⟩
    · split at h
      · cases h; exact Or.inr ⟨_, rfl⟩
      · exact Or.inr (caseG_done L _ _ _ _ _ h)

/-- with more rounds than bytes the loop ends by `break` (nothing left) or by `return false` -/
theorem iter_fuel (L : Lens M) : ∀ (n : Nat) (s : St M), s.2.2.length < n →
    ((iter (stepG L) n s).1 = none ∧ (iter (stepG L) n s).2.2 = []) ∨
      ∃ m', (iter (stepG L) n s).1 = some (m', false) := by
  intro n
  induction n with
  | zero => intro s h; omega
  | succ n ih =>
    intro s h
    rw [iter]
    cases hg : stepG L s with
    | done s' => exact stepG_done L s s' hg
    | yield s' =>
      have := stepG_yield L s s' hg
      exact ih s' (by omega)

/-- decide the `if`s of the translated text one after the other; the closed form follows -/
macro "sh_ifs" : tactic =>
  `(tactic| repeat' (first | rfl | (split <;> rename_i hh <;> (try simp only [hh, if_true, if_false]))))

/-- one round of the translated loop IS `stepG` (used for both stacks; the arguments unfold the lens) -/
syntax "sh_step " Lean.Parser.Tactic.simpLemma,* : tactic
macro_rules
  | `(tactic| sh_step $ls,*) => `(tactic| (
    intro x s
    obtain ⟨r, m, exts⟩ := s
    unfold stepG
    rcases Bool.eq_false_or_eq_true exts.isEmpty with hE | hE
    · simp only [hE, Bool.not_true, Bool.not_false, Bool.false_eq_true, if_false, if_true]
    simp only [hE, Bool.not_true, Bool.not_false, Bool.false_eq_true, if_false, if_true]
    rcases Bool.eq_false_or_eq_true (rd16 exts 0#16).2.2 with h1 | h1
    rotate_left
    · simp only [h1, Bool.not_true, Bool.not_false, Bool.false_eq_true, if_false, if_true]
    simp only [h1, Bool.not_true, Bool.not_false, Bool.false_eq_true, if_false, if_true]
    rcases Bool.eq_false_or_eq_true (lpSpec (rd16 exts 0#16).1 [] 2).2.2 with h2 | h2
    rotate_left
    · simp only [h2, Bool.not_true, Bool.not_false, Bool.false_eq_true, if_false, if_true]
    simp only [h2, Bool.not_true, Bool.not_false, Bool.false_eq_true, if_false, if_true]
    unfold caseG
    rcases Bool.eq_false_or_eq_true ((rd16 exts 0#16).2.1 == 5#16) with t5 | t5
    · simp only [t5, Bool.not_true, Bool.not_false, Bool.false_eq_true, if_false, if_true]
      unfold ocspG
      simp only [$ls,*]
      sh_ifs
    simp only [t5, Bool.not_true, Bool.not_false, Bool.false_eq_true, if_false, if_true]
    rcases Bool.eq_false_or_eq_true ((rd16 exts 0#16).2.1 == 16#16) with t16 | t16
    · simp only [t16, Bool.not_true, Bool.not_false, Bool.false_eq_true, if_false, if_true]
      unfold alpnG
      simp only [$ls,*]
      sh_ifs
    simp only [t16, Bool.not_true, Bool.not_false, Bool.false_eq_true, if_false, if_true]
    rcases Bool.eq_false_or_eq_true ((rd16 exts 0#16).2.1 == 0#16) with t0 | t0
    · simp only [t0, Bool.not_true, Bool.not_false, Bool.false_eq_true, if_false, if_true]
      unfold sniG
      simp only [$ls,*]
      sh_ifs
    simp only [t0, Bool.not_true, Bool.not_false, Bool.false_eq_true, if_false, if_true]))

theorem iter_fuel' (L : Lens M) (n : Nat) (r0 : Option (M × Bool)) (m0 : M) (e0 : BV) (t : St M)
    (ht : iter (stepG L) n (r0, m0, e0) = t) (h : e0.length < n) :
    (t.1 = none ∧ t.2.2 = []) ∨ ∃ m', t.1 = some (m', false) := by
  subst ht; exact iter_fuel L n _ h

/-! ## tlcp -/

section tlcp
open Gotlcp.Src.tlcp.codec

def getT (m : serverHelloMsg) : SH :=
  ⟨m.vers, m.random, m.sessionId, m.cipherSuite, m.compressionMethod, m.ocspStapling, m.ocspResponse,
    m.alpnProtocol, m.serverNameAck⟩

def putT (m : serverHelloMsg) (e : SH) : serverHelloMsg :=
  { raw := m.raw, vers := e.vers, random := e.random, sessionId := e.sessionId, cipherSuite := e.cipherSuite,
    compressionMethod := e.compressionMethod, ocspStapling := e.ocspStapling, ocspResponse := e.ocspResponse,
    alpnProtocol := e.alpnProtocol, serverNameAck := e.serverNameAck }

def lensT : Lens serverHelloMsg := ⟨getT, putT, fun _ _ => rfl, fun _ _ _ => rfl⟩

theorem lensT_get : lensT.get = getT := rfl
theorem lensT_put : lensT.put = putT := rfl

theorem codec_isComplete (data : BV) (t : BitVec 8) :
    Src.tlcp.codec.tlcpIsCompleteMessage data t = .ok (complete data t) := tie_isComplete data t

/-- `serverHelloMsg.unmarshal` (tlcp) in closed form -/
def shT (m : serverHelloMsg) (data : BV) : serverHelloMsg × Bool :=
  if complete data 2#8 then decBody lensT (data.length + 1) { raw := data } (data.drop 4) else (m, false)

/-- **`serverHelloMsg.unmarshal` (tlcp), every receiver, every byte string**: never `Except.error`
(no panic, the extension loop stays within its fuel), and the result is the closed form -/
theorem tie_serverHello (m : serverHelloMsg) (data : BV) :
    serverHelloMsg.unmarshal m data = .ok (shT m data) := by
  unfold serverHelloMsg.unmarshal
  simp only [bind, pure, Except.pure, ok_bind, codec_isComplete, rU8, rU16, rBytes, skip_eq, readUint8LP_eq,
    readUint16LengthPrefixed_eq, readUint24LP_eq, readUint8LengthPrefixed_eq, empty_eq]
  unfold shT
  cases hc : complete data 2#8
  · simp only [Bool.not_false, if_true, Bool.false_eq_true, if_false]
  obtain ⟨b, c, d, rest, rfl, hl⟩ := complete_true hc
  have hsk : readSpec (2#8 :: b :: c :: d :: rest) 4 = (rest, [2#8, b, c, d], true) := by
    unfold readSpec
    rw [if_neg (by simp only [List.length_cons]; omega)]
    rfl
  have hdrop : (2#8 :: b :: c :: d :: rest).drop 4 = rest := rfl
  have hfuel : (((2#8 :: b :: c :: d :: rest).length : Int) + 1).toNat = (2#8 :: b :: c :: d :: rest).length + 1 := by
    omega
  rw [hsk, hdrop, hfuel]
  generalize hD : 2#8 :: b :: c :: d :: rest = data
  have hrl : rest.length < data.length := by rw [← hD]; simp only [List.length_cons]; omega
  unfold decBody decExts
  simp only [lensT_get, lensT_put, getT, putT]
  rcases Bool.eq_false_or_eq_true (rd16 rest 0#16).2.2 with h1 | h1
  rotate_left
  · simp only [h1, Bool.not_true, Bool.not_false, Bool.false_eq_true, if_false, if_true]
  simp only [h1, Bool.not_true, Bool.not_false, Bool.false_eq_true, if_false, if_true]
  have l1 := rd16_len rest 0#16
  rcases Bool.eq_false_or_eq_true (rdBytes (rd16 rest 0#16).1 [] 32).2.2 with h2 | h2
  rotate_left
  · simp only [h2, Bool.not_true, Bool.not_false, Bool.false_eq_true, if_false, if_true]
  simp only [h2, Bool.not_true, Bool.not_false, Bool.false_eq_true, if_false, if_true]
  have l2 := rdBytes_len (rd16 rest 0#16).1 [] 32
  rcases Bool.eq_false_or_eq_true (lpSpec (rdBytes (rd16 rest 0#16).1 [] 32).1 [] 1).2.2 with h3 | h3
  rotate_left
  · simp only [h3, Bool.not_true, Bool.not_false, Bool.false_eq_true, if_false, if_true]
  simp only [h3, Bool.not_true, Bool.not_false, Bool.false_eq_true, if_false, if_true]
  have l3 := lpSpec_len (rdBytes (rd16 rest 0#16).1 [] 32).1 [] 1
  rcases Bool.eq_false_or_eq_true (rd16 (lpSpec (rdBytes (rd16 rest 0#16).1 [] 32).1 [] 1).1 0#16).2.2 with h4 | h4
  rotate_left
  · simp only [h4, Bool.not_true, Bool.not_false, Bool.false_eq_true, if_false, if_true]
  simp only [h4, Bool.not_true, Bool.not_false, Bool.false_eq_true, if_false, if_true]
  have l4 := rd16_len (lpSpec (rdBytes (rd16 rest 0#16).1 [] 32).1 [] 1).1 0#16
  rcases Bool.eq_false_or_eq_true (rd8 (rd16 (lpSpec (rdBytes (rd16 rest 0#16).1 [] 32).1 [] 1).1 0#16).1 0#8).2.2 with h5 | h5
  rotate_left
  · simp only [h5, Bool.not_true, Bool.not_false, Bool.false_eq_true, if_false, if_true]
  simp only [h5, Bool.not_true, Bool.not_false, Bool.false_eq_true, if_false, if_true]
  have l5 := rd8_len (rd16 (lpSpec (rdBytes (rd16 rest 0#16).1 [] 32).1 [] 1).1 0#16).1 0#8
  rcases Bool.eq_false_or_eq_true (rd8 (rd16 (lpSpec (rdBytes (rd16 rest 0#16).1 [] 32).1 [] 1).1 0#16).1 0#8).1.isEmpty with h6 | h6
  · simp only [h6, Bool.not_true, Bool.not_false, Bool.false_eq_true, if_false, if_true]
  simp only [h6, Bool.not_true, Bool.not_false, Bool.false_eq_true, if_false, if_true]
  rcases Bool.eq_false_or_eq_true (!(lpSpec (rd8 (rd16 (lpSpec (rdBytes (rd16 rest 0#16).1 [] 32).1 [] 1).1 0#16).1 0#8).1 [] 2).2.2 || !(lpSpec (rd8 (rd16 (lpSpec (rdBytes (rd16 rest 0#16).1 [] 32).1 [] 1).1 0#16).1 0#8).1 [] 2).1.isEmpty) with h7 | h7
  · simp only [h7, Bool.not_true, Bool.not_false, Bool.false_eq_true, if_false, if_true]
  simp only [h7, Bool.not_true, Bool.not_false, Bool.false_eq_true, if_false, if_true]
  have hok : (lpSpec (rd8 (rd16 (lpSpec (rdBytes (rd16 rest 0#16).1 [] 32).1 [] 1).1 0#16).1 0#8).1 [] 2).2.2 = true := by
    cases hq : (lpSpec (rd8 (rd16 (lpSpec (rdBytes (rd16 rest 0#16).1 [] 32).1 [] 1).1 0#16).1 0#8).1 [] 2).2.2
    · rw [hq] at h7; simp at h7
    · rfl
  have l6 := lpSpec_child_len _ [] 2 hok
  rw [forIn_pure (stepG lensT) _ ?hf, ok_bind]
  case hf =>
    sh_step lensT_get, lensT_put, getT, putT
  rw [List.length_range]
  generalize hst : iter (stepG lensT) (data.length + 1) _ = st
  have hfu := iter_fuel' lensT _ _ _ _ st hst (by omega)
  obtain ⟨r, m', e⟩ := st
  rcases hfu with ⟨e1, e2⟩ | ⟨m'', e1⟩
  · simp only at e1 e2; subst e1 e2; rfl
  · simp only at e1; subst e1; rfl

end tlcp

end Gotlcp.Tie.CodecSH

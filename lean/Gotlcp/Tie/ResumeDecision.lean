/-
Tie by translation, the resumption decision (C10, C01): the server's `serverHandshakeState.checkForResumption` and the
client's `clientHandshakeState.serverResumedSession` / `clientHandshakeState.processServerHello` (namespaces
`Gotlcp.Src.tlcp.sel` / `Gotlcp.Src.dtlcp.sel`) are regenerated from the Go source of BOTH stacks on every run.
Conventions of the `sel` group: see `Gotlcp.Tie.Select`.  The session cache is the stub `goCache` (an association
list with a pure `Get` that returns the FIRST entry under the key); `hs.hello.sessionId != nil` is the parameter
`nb` (`nonNilBytes`).  Every theorem holds for every table `tbl`, every `nn`, every `nb`, every cache.

Server (`checkForResumption`), under the hypotheses `hs.c ≠ nil`, `hs.c.config ≠ nil`, `hs.clientHello ≠ nil`:

* `cfr_eq`: the translated text equals the loop-free decision tree `cfrSpec`;
* `cfr_true_iff`: it answers true EXACTLY under `Resumes` (cache configured, non-empty id, first entry under
  `hex(id)` with a non-nil state `st`, the two client-authentication guards, `st.vers = c.vers`, the client still
  offers `st.cipherSuite`, and `selectCipherSuite([st.cipherSuite], configured, cipherSuiteOk)` finds a suite), and
  then `hs.sessionState = st`, `hs.suite` = that suite; `cfr_false_frame`: on false nothing but `hs.sessionState`
  (and possibly `hs.suite := nil`) changed;
* the panics: `cfr_nil_conn`, `cfr_nil_hello` (`cfr_no_cache`: without a cache a nil ClientHello is never touched);
  `cfr_total`: under the non-nil hypotheses there is NO failure, whatever the cache answers; `cfr_nil_state`: a cache
  that answers `(nil, true)` is refused like a miss (finding F65: before its repair the Go code dereferenced the nil
  state, `len(hs.sessionState.peerCertificates)`, and panicked — the closed form of the unrepaired text had an
  `Except.error` leaf there, which is how the defect was found);
* `tie_resumeDecision`: the decision on a found session is `Model.Negotiate.serverResumes` with
  `resumeHonoursPolicy = resumeSuiteGuards = true` (this is what justifies the literals `treeResumePolicyGuards`,
  `treeResumeSuiteGuards`); `tie_model_checkForResumption`: it is the decision of `Model.Resumption.checkForResumption`
  (C10's model) through an abstraction of the one lookup performed.

Client (`processServerHello`), under `hs.c ≠ nil`, `hs.hello ≠ nil`, `hs.serverHello ≠ nil` (`psh_nil` otherwise):
`psh_eq` (decision tree `pshSpec`), `psh_true_iff`, `psh_not_resumed`, `psh_resumed`.

Dropping a guard of `checkForResumption` (policy, version, "still offered", "still enabled"), resuming with another
suite than the session's, accepting a resumption with a different suite on the client … make a proof below fail;
renaming a local or re-arranging equivalent statements does not.
-/
import Gotlcp.Tie.Select
import Gotlcp.Model.Resumption
import Gotlcp.Lemmas.Resumption

set_option linter.unusedSimpArgs false
set_option linter.unusedVariables false

namespace Gotlcp.Tie.ResumeDecision
open Gotlcp.Model.Negotiate (Params)

/-- the policy numbering and the resumption guards of the model that the tie below justifies (the numbering and
`requiresClientCert` are go/types-evaluated facts; the two guard flags are the literals
`treeResumePolicyGuards` / `treeResumeSuiteGuards`) -/
structure TreeResume (p : Params) : Prop where
  requires : p.requires = [2, 4, 5]
  iota : p.authIota = [0, 1, 2, 3, 4, 5]
  policy : p.resumeHonoursPolicy = true
  suite : p.resumeSuiteGuards = true

theorem requires_cast (n : Nat) : (((n : Int) == 2) || ((n : Int) == 4) || ((n : Int) == 5)) = [2, 4, 5].contains n := by
  rw [Bool.eq_iff_iff]
  simp only [Bool.or_eq_true, beq_iff_eq, List.contains_iff_mem, List.mem_cons, List.not_mem_nil, or_false]
  omega

theorem zero_cast (n : Nat) : ((n : Int) == 0) = (n == 0) := by
  rw [Bool.eq_iff_iff]
  simp only [beq_iff_eq]
  omega

end Gotlcp.Tie.ResumeDecision

/-! ### TLCP -/

namespace Gotlcp.Tie.ResumeDecision.tlcp
open Gotlcp.Src.tlcp.sel
open Gotlcp.Tie.Select Gotlcp.Tie.Select.tlcp Gotlcp.Tie.ResumeDecision
open Gotlcp.Model.Negotiate (Params KeyFlags)
open Gotlcp.Tie.Negotiate (checkPick Str)

/-- the cache stub's `Get`: the FIRST entry under the key -/
theorem get_eq (cache : goCache) (key : List (BitVec 8)) :
    goCache.Get cache key =
      match cache.entries.find? (fun e => e.key == key) with
      | some e => (e.state, true)
      | none => (none, false) := by
  unfold goCache.Get
  simp only [Id.run, pure, bind, forIn_id_loop]
  have k := loop_find (fun e : goCacheEntry => e.key == key) (fun e => (e.state, true)) _ (fun x st => rfl) cache.entries
  generalize loop _ cache.entries _ = r at k
  obtain ⟨r1, r2⟩ := r
  simp only at k
  subst k
  cases List.find? _ cache.entries <;> rfl

/-- `requiresClientCert`: RequireAnyClientCert (2), RequireAndVerifyClientCert (4), RequireAndVerifyAnyKeyUsageClientCert (5) -/
theorem requiresClientCert_eq (a : Int) : requiresClientCert a = (a == 2 || a == 4 || a == 5) := by
  unfold requiresClientCert
  simp only [Id.run, pure, bind]
  split <;> simp_all

/-- What the translated `checkForResumption` computes, as a decision tree without loops. -/
def cfrSpec (tbl : BitVec 16 → Option cipherSuite) (nn : List (BitVec 16) → Bool) (hs : serverHandshakeState)
    (c : Conn) (cfg : Config) (ch : clientHelloMsg) : Except String (serverHandshakeState × Bool) :=
  match cfg.SessionCache with
  | none => .ok (hs, false)
  | some cache =>
    if ch.sessionId.isEmpty = true then .ok (hs, false)
    else
      match cache.entries.find? (fun e => e.key == Go.hexEncode ch.sessionId) with
      | none => .ok ({ hs with sessionState := none }, false)
      | some e =>
        match e.state with
        | none => .ok ({ hs with sessionState := none }, false)
        | some st =>
          if (requiresClientCert cfg.ClientAuth && st.peerCertificates.isEmpty) = true then
            .ok ({ hs with sessionState := some st }, false)
          else if (!st.peerCertificates.isEmpty && cfg.ClientAuth == 0) = true then
            .ok ({ hs with sessionState := some st }, false)
          else if (c.vers != st.vers) = true then .ok ({ hs with sessionState := some st }, false)
          else if ch.cipherSuites.contains st.cipherSuite = false then .ok ({ hs with sessionState := some st }, false)
          else
            match selectSpec tbl [st.cipherSuite] (Config.cipherSuites nn cfg) (fun s => okFlags (keys hs) s.flags) with
            | none => .ok ({ hs with sessionState := some st, suite := none }, false)
            | some s => .ok ({ hs with sessionState := some st, suite := some s }, true)

/-- The translated `checkForResumption` IS `cfrSpec`, for every state with non-nil `hs.c`, `hs.c.config`,
`hs.clientHello` -/
theorem cfr_eq (tbl : BitVec 16 → Option cipherSuite) (nn : List (BitVec 16) → Bool) (hs : serverHandshakeState)
    (c : Conn) (cfg : Config) (ch : clientHelloMsg)
    (hc : hs.c = some c) (hcfg : c.config = some cfg) (hch : hs.clientHello = some ch) :
    serverHandshakeState.checkForResumption tbl nn hs = cfrSpec tbl nn hs c cfg ch := by
  unfold serverHandshakeState.checkForResumption cfrSpec
  simp only [bind, pure, Except.pure, hc, hcfg, hch, deref_some, bind_ok]
  cases hcache : cfg.SessionCache with
  | none => simp only [Option.isNone_none, if_true]
  | some cache =>
    simp only [Option.isNone_some, Bool.false_eq_true, if_false, deref_some, bind_ok, get_eq, len_beq_zero, len_bne_zero]
    by_cases hsid : ch.sessionId.isEmpty = true
    · simp only [hsid, if_true]
    · simp only [hsid, if_false]
      cases hf : cache.entries.find? (fun e => e.key == Go.hexEncode ch.sessionId) with
      | none => simp only [Bool.not_false, Bool.true_or, if_true]
      | some e =>
        cases hst : e.state with
        | none => simp only [hst, Bool.not_true, Option.isNone_none, Bool.or_true, Bool.false_eq_true, if_false, if_true]
        | some st =>
          simp only [hst, Bool.not_true, Option.isNone_some, Bool.or_false, Bool.false_eq_true, if_false]
          have hok : ∀ x : Option cipherSuite, serverHandshakeState.cipherSuiteOk
              { c := some c, clientHello := some ch, suite := x, sessionState := some st,
                ecdheOk := hs.ecdheOk, ecSignOk := hs.ecSignOk, ecDecryptOk := hs.ecDecryptOk,
                rsaDecryptOk := hs.rsaDecryptOk, rsaSignOk := hs.rsaSignOk } = fun s => okFlags (keys hs) s.flags :=
            fun x => funext fun s => cipherSuiteOk_eq _ s
          have hflag : (forIn ch.cipherSuites false fun id' __s =>
              if (id' == st.cipherSuite) = true then (Except.ok (ForInStep.done true) : Except String _)
              else Except.ok (ForInStep.yield __s)) = Except.ok (ch.cipherSuites.contains st.cipherSuite) := by
            rw [forIn_ok_loop _ (fun id' b => if (id' == st.cipherSuite) = true then ForInStep.done true else ForInStep.yield b)
              (fun a b => by split <;> rfl), loop_flag st.cipherSuite _ (fun x b => rfl), Bool.or_false]
          simp only [deref_some, bind_ok, select_eq, hok, hflag]
          generalize requiresClientCert cfg.ClientAuth = b1
          generalize st.peerCertificates.isEmpty = b2
          generalize (cfg.ClientAuth == 0) = b3
          generalize (c.vers != st.vers) = b4
          generalize ch.cipherSuites.contains st.cipherSuite = b5
          generalize selectSpec tbl [st.cipherSuite] (Config.cipherSuites nn cfg) (fun s => okFlags (keys hs) s.flags) = o
          cases b1 <;> cases b2 <;> cases b3 <;> cases b4 <;> cases b5 <;> cases o <;> rfl


/-- `checkForResumption` dereferences `hs.c` and `hs.c.config` first: nil there is a panic … -/
theorem cfr_nil_conn (tbl : BitVec 16 → Option cipherSuite) (nn : List (BitVec 16) → Bool) (hs : serverHandshakeState)
    (h : hs.c = none ∨ ∃ c, hs.c = some c ∧ c.config = none) :
    serverHandshakeState.checkForResumption tbl nn hs = .error nilDeref := by
  unfold serverHandshakeState.checkForResumption
  rcases h with h | ⟨c, hc, hcfg⟩
  · simp only [bind, pure, Except.pure, h, deref_none, bind_error]
  · simp only [bind, pure, Except.pure, hc, hcfg, deref_some, bind_ok, deref_none, bind_error]

/-- … without a session cache it returns false before it looks at the ClientHello (a nil `hs.clientHello` is not
dereferenced) … -/
theorem cfr_no_cache (tbl : BitVec 16 → Option cipherSuite) (nn : List (BitVec 16) → Bool) (hs : serverHandshakeState)
    (c : Conn) (cfg : Config) (hc : hs.c = some c) (hcfg : c.config = some cfg) (hcache : cfg.SessionCache = none) :
    serverHandshakeState.checkForResumption tbl nn hs = .ok (hs, false) := by
  unfold serverHandshakeState.checkForResumption
  simp only [bind, pure, Except.pure, hc, hcfg, hcache, deref_some, bind_ok, Option.isNone_none, if_true]

/-- … and with a session cache a nil `hs.clientHello` is a panic. -/
theorem cfr_nil_hello (tbl : BitVec 16 → Option cipherSuite) (nn : List (BitVec 16) → Bool) (hs : serverHandshakeState)
    (c : Conn) (cfg : Config) (cache : goCache) (hc : hs.c = some c) (hcfg : c.config = some cfg)
    (hcache : cfg.SessionCache = some cache) (hch : hs.clientHello = none) :
    serverHandshakeState.checkForResumption tbl nn hs = .error nilDeref := by
  unfold serverHandshakeState.checkForResumption
  simp only [bind, pure, Except.pure, hc, hcfg, hcache, hch, deref_some, bind_ok, Option.isNone_some,
    Bool.false_eq_true, if_false, deref_none, bind_error]

/-- the cache answers `(nil, true)` for the offered identifier: the first entry under `hex(sessionId)` holds a nil
state -/
def NilHit (cfg : Config) (ch : clientHelloMsg) : Prop :=
  ∃ cache e, cfg.SessionCache = some cache ∧ ch.sessionId ≠ [] ∧
    cache.entries.find? (fun e => e.key == Go.hexEncode ch.sessionId) = some e ∧ e.state = none

/-- What the Go code does when the cache returns `(nil, true)` (finding F65, repaired): the guard is
`!ok || hs.sessionState == nil`, so the answer is a REFUSAL — false, no error, `hs.sessionState = nil`, nothing else
touched — and the full handshake follows.  (Before the repair the guard was `!ok` alone and the next statement,
`len(hs.sessionState.peerCertificates)`, dereferenced nil: a panic of the server's handshake goroutine.) -/
theorem cfr_nil_state (tbl : BitVec 16 → Option cipherSuite) (nn : List (BitVec 16) → Bool) (hs : serverHandshakeState)
    (c : Conn) (cfg : Config) (ch : clientHelloMsg)
    (hc : hs.c = some c) (hcfg : c.config = some cfg) (hch : hs.clientHello = some ch) (h : NilHit cfg ch) :
    serverHandshakeState.checkForResumption tbl nn hs = .ok ({ hs with sessionState := none }, false) := by
  obtain ⟨cache, e, hcache, hsid, hf, hst⟩ := h
  rw [cfr_eq tbl nn hs c cfg ch hc hcfg hch]
  unfold cfrSpec
  have : ch.sessionId.isEmpty = false := by cases h : ch.sessionId with | nil => exact absurd h hsid | cons _ _ => rfl
  simp only [hcache, this, Bool.false_eq_true, if_false, hf, hst]

/-- The conditions under which `checkForResumption` answers true, with the session `st` it resumes and the suite
`s` it stores: a session cache is configured; the ClientHello's session id is non-empty; the FIRST cache entry under
`hex(session id)` holds the non-nil state `st`; a policy that requires a client certificate finds one recorded; a
session with a recorded client certificate is not resumed under NoClientCert; the session's version is the
connection's; the client still offers the session's suite; and `selectCipherSuite([st.cipherSuite], configured,
cipherSuiteOk)` finds `s` — the table knows the suite, the key types admit it, the configuration in use enables it. -/
structure Resumes (tbl : BitVec 16 → Option cipherSuite) (nn : List (BitVec 16) → Bool) (hs : serverHandshakeState)
    (c : Conn) (cfg : Config) (ch : clientHelloMsg) (st : SessionState) (s : cipherSuite) : Prop where
  cached : ∃ cache e, cfg.SessionCache = some cache ∧
    cache.entries.find? (fun e => e.key == Go.hexEncode ch.sessionId) = some e ∧ e.state = some st
  offeredId : ch.sessionId ≠ []
  needCert : requiresClientCert cfg.ClientAuth = true → st.peerCertificates ≠ []
  noCertPolicy : st.peerCertificates ≠ [] → cfg.ClientAuth ≠ 0
  version : st.vers = c.vers
  stillOffered : st.cipherSuite ∈ ch.cipherSuites
  known : tbl st.cipherSuite = some s
  keysOk : serverHandshakeState.cipherSuiteOk hs s = true
  stillEnabled : st.cipherSuite ∈ Config.cipherSuites nn cfg

theorem isEmpty_eq_false_iff {α : Type} (l : List α) : l.isEmpty = false ↔ l ≠ [] := by
  cases l <;> simp

/-- `checkForResumption` returns true EXACTLY under `Resumes`, and then `hs.sessionState` is the session found and
`hs.suite` the suite selected for the session's OWN suite id; nothing else changes. -/
theorem cfr_true_iff (tbl : BitVec 16 → Option cipherSuite) (nn : List (BitVec 16) → Bool) (hs : serverHandshakeState)
    (c : Conn) (cfg : Config) (ch : clientHelloMsg)
    (hc : hs.c = some c) (hcfg : c.config = some cfg) (hch : hs.clientHello = some ch) (hs' : serverHandshakeState) :
    serverHandshakeState.checkForResumption tbl nn hs = .ok (hs', true) ↔
      ∃ st s, Resumes tbl nn hs c cfg ch st s ∧ hs' = { hs with sessionState := some st, suite := some s } := by
  rw [cfr_eq tbl nn hs c cfg ch hc hcfg hch]
  unfold cfrSpec
  constructor
  · intro h
    cases hcache : cfg.SessionCache with
    | none => rw [hcache] at h; simp only [Except.ok.injEq, Prod.mk.injEq, Bool.false_eq_true, and_false] at h
    | some cache =>
      rw [hcache] at h
      simp only at h
      split at h
      · simp only [Except.ok.injEq, Prod.mk.injEq, Bool.false_eq_true, and_false] at h
      · rename_i hsid
        cases hf : cache.entries.find? (fun e => e.key == Go.hexEncode ch.sessionId) with
        | none => rw [hf] at h; simp only [Except.ok.injEq, Prod.mk.injEq, Bool.false_eq_true, and_false] at h
        | some e =>
          rw [hf] at h
          simp only at h
          cases hst : e.state with
          | none => rw [hst] at h; simp only [Except.ok.injEq, Prod.mk.injEq, Bool.false_eq_true, and_false] at h
          | some st =>
            rw [hst] at h
            simp only at h
            split at h
            · simp only [Except.ok.injEq, Prod.mk.injEq, Bool.false_eq_true, and_false] at h
            · rename_i g1
              split at h
              · simp only [Except.ok.injEq, Prod.mk.injEq, Bool.false_eq_true, and_false] at h
              · rename_i g2
                split at h
                · simp only [Except.ok.injEq, Prod.mk.injEq, Bool.false_eq_true, and_false] at h
                · rename_i g3
                  split at h
                  · simp only [Except.ok.injEq, Prod.mk.injEq, Bool.false_eq_true, and_false] at h
                  · rename_i g4
                    split at h
                    · simp only [Except.ok.injEq, Prod.mk.injEq, Bool.false_eq_true, and_false] at h
                    · rename_i s hsel
                      simp only [Except.ok.injEq, Prod.mk.injEq, and_true] at h
                      obtain ⟨k1, k2, k3⟩ := (selectSpec_singleton _ _ _ _ _).mp hsel
                      refine ⟨st, s, ⟨⟨cache, e, hcache, hf, hst⟩, ?_, ?_, ?_, ?_, ?_, k1, ?_, k3⟩, h.symm⟩
                      · exact (isEmpty_eq_false_iff _).mp (by simpa using hsid)
                      · intro hr
                        have : st.peerCertificates.isEmpty = false := by
                          cases hx : st.peerCertificates.isEmpty with
                          | false => rfl
                          | true => rw [hr, hx] at g1; exact absurd rfl g1
                        exact (isEmpty_eq_false_iff _).mp this
                      · intro hne h0
                        have h1 : st.peerCertificates.isEmpty = false := (isEmpty_eq_false_iff _).mpr hne
                        rw [h1, h0] at g2
                        exact g2 rfl
                      · have : (c.vers != st.vers) = false := by simpa using g3
                        have : c.vers = st.vers := by simpa using this
                        exact this.symm
                      · have : ch.cipherSuites.contains st.cipherSuite = true := by simpa using g4
                        simpa using this
                      · rw [cipherSuiteOk_eq]; exact k2
  · rintro ⟨st, s, ⟨⟨cache, e, hcache, hf, hst⟩, hsid, hneed, hno, hv, hoff, hk, hko, hen⟩, rfl⟩
    have h0 : ch.sessionId.isEmpty = false := (isEmpty_eq_false_iff _).mpr hsid
    have g1 : (requiresClientCert cfg.ClientAuth && st.peerCertificates.isEmpty) = false := by
      cases hr : requiresClientCert cfg.ClientAuth with
      | false => rfl
      | true => simp only [Bool.true_and]; exact (isEmpty_eq_false_iff _).mpr (hneed hr)
    have g2 : (!st.peerCertificates.isEmpty && cfg.ClientAuth == 0) = false := by
      cases hx : st.peerCertificates.isEmpty with
      | true => rfl
      | false =>
        simp only [Bool.not_false, Bool.true_and]
        have := hno ((isEmpty_eq_false_iff _).mp hx)
        simpa using this
    have g3 : (c.vers != st.vers) = false := by simp [hv]
    have g4 : ch.cipherSuites.contains st.cipherSuite = true := by simpa using hoff
    have g5 : selectSpec tbl [st.cipherSuite] (Config.cipherSuites nn cfg) (fun s => okFlags (keys hs) s.flags) = some s :=
      (selectSpec_singleton _ _ _ _ _).mpr ⟨hk, by rw [← cipherSuiteOk_eq]; exact hko, hen⟩
    simp only [hcache, h0, Bool.false_eq_true, if_false, hf, hst, g1, g2, g3, g4, Bool.true_eq_false, g5]

/-- Frame: when `checkForResumption` answers false, nothing changed but `hs.sessionState` (the cache's answer) and
possibly `hs.suite`, which is then nil; the connection, the ClientHello and the key flags are untouched — the full
handshake that follows starts from the state it would have started from without a cache, except for `hs.suite`,
which `pickCipherSuite` overwrites. -/
theorem cfr_false_frame (tbl : BitVec 16 → Option cipherSuite) (nn : List (BitVec 16) → Bool) (hs : serverHandshakeState)
    (c : Conn) (cfg : Config) (ch : clientHelloMsg)
    (hc : hs.c = some c) (hcfg : c.config = some cfg) (hch : hs.clientHello = some ch) (hs' : serverHandshakeState)
    (h : serverHandshakeState.checkForResumption tbl nn hs = .ok (hs', false)) :
    ∃ ss, (hs' = { hs with sessionState := ss } ∨ hs' = { hs with sessionState := ss, suite := none }) := by
  rw [cfr_eq tbl nn hs c cfg ch hc hcfg hch] at h
  unfold cfrSpec at h
  split at h
  · exact ⟨hs.sessionState, Or.inl (by simp only [Except.ok.injEq, Prod.mk.injEq, and_true] at h; rw [← h])⟩
  · split at h
    · exact ⟨hs.sessionState, Or.inl (by simp only [Except.ok.injEq, Prod.mk.injEq, and_true] at h; rw [← h])⟩
    · split at h
      · exact ⟨none, Or.inl (by simp only [Except.ok.injEq, Prod.mk.injEq, and_true] at h; rw [← h])⟩
      · split at h
        · exact ⟨none, Or.inl (by simp only [Except.ok.injEq, Prod.mk.injEq, and_true] at h; rw [← h])⟩
        · rename_i st _
          refine ⟨some st, ?_⟩
          split at h
          · exact Or.inl (by simp only [Except.ok.injEq, Prod.mk.injEq, and_true] at h; rw [← h])
          · split at h
            · exact Or.inl (by simp only [Except.ok.injEq, Prod.mk.injEq, and_true] at h; rw [← h])
            · split at h
              · exact Or.inl (by simp only [Except.ok.injEq, Prod.mk.injEq, and_true] at h; rw [← h])
              · split at h
                · exact Or.inl (by simp only [Except.ok.injEq, Prod.mk.injEq, and_true] at h; rw [← h])
                · split at h
                  · exact Or.inr (by simp only [Except.ok.injEq, Prod.mk.injEq, and_true] at h; rw [← h])
                  · simp only [Except.ok.injEq, Prod.mk.injEq, Bool.true_eq_false, and_false] at h

/-- Under the non-nil hypotheses `checkForResumption` NEVER fails, whatever the cache answers — a miss, a state, or
`(nil, true)`. -/
theorem cfr_total (tbl : BitVec 16 → Option cipherSuite) (nn : List (BitVec 16) → Bool) (hs : serverHandshakeState)
    (c : Conn) (cfg : Config) (ch : clientHelloMsg)
    (hc : hs.c = some c) (hcfg : c.config = some cfg) (hch : hs.clientHello = some ch) :
    ∃ r, serverHandshakeState.checkForResumption tbl nn hs = .ok r := by
  rw [cfr_eq tbl nn hs c cfg ch hc hcfg hch]
  unfold cfrSpec
  repeat' first | exact ⟨_, rfl⟩ | split

/-! #### the decision is the model's -/

/-- the decision `checkForResumption` takes once the cache has returned the session `st` -/
def decision (tbl : BitVec 16 → Option cipherSuite) (nn : List (BitVec 16) → Bool) (hs : serverHandshakeState)
    (c : Conn) (cfg : Config) (ch : clientHelloMsg) (st : SessionState) : Bool :=
  !(requiresClientCert cfg.ClientAuth && st.peerCertificates.isEmpty) &&
  !(!st.peerCertificates.isEmpty && cfg.ClientAuth == 0) &&
  c.vers == st.vers && ch.cipherSuites.contains st.cipherSuite &&
  (selectSpec tbl [st.cipherSuite] (Config.cipherSuites nn cfg) (fun s => okFlags (keys hs) s.flags)).isSome

theorem cfr_found (tbl : BitVec 16 → Option cipherSuite) (nn : List (BitVec 16) → Bool) (hs : serverHandshakeState)
    (c : Conn) (cfg : Config) (ch : clientHelloMsg) (cache : goCache) (e : goCacheEntry) (st : SessionState)
    (hc : hs.c = some c) (hcfg : c.config = some cfg) (hch : hs.clientHello = some ch)
    (hcache : cfg.SessionCache = some cache) (hsid : ch.sessionId ≠ [])
    (hf : cache.entries.find? (fun e => e.key == Go.hexEncode ch.sessionId) = some e) (hst : e.state = some st) :
    ∃ hs', serverHandshakeState.checkForResumption tbl nn hs = .ok (hs', decision tbl nn hs c cfg ch st) := by
  rw [cfr_eq tbl nn hs c cfg ch hc hcfg hch]
  unfold cfrSpec decision
  have h0 : ch.sessionId.isEmpty = false := (isEmpty_eq_false_iff _).mpr hsid
  simp only [hcache, h0, Bool.false_eq_true, if_false, hf, hst]
  generalize requiresClientCert cfg.ClientAuth = b1
  generalize st.peerCertificates.isEmpty = b2
  generalize (cfg.ClientAuth == 0) = b3
  have hv : (c.vers != st.vers) = !(c.vers == st.vers) := rfl
  rw [hv]
  generalize (c.vers == st.vers) = b4
  generalize ch.cipherSuites.contains st.cipherSuite = b5
  generalize selectSpec tbl [st.cipherSuite] (Config.cipherSuites nn cfg) (fun s => okFlags (keys hs) s.flags) = o
  cases b1 <;> cases b2 <;> cases b3 <;> cases b4 <;> cases b5 <;> cases o <;> exact ⟨_, rfl⟩

theorem cfr_miss (tbl : BitVec 16 → Option cipherSuite) (nn : List (BitVec 16) → Bool) (hs : serverHandshakeState)
    (c : Conn) (cfg : Config) (ch : clientHelloMsg) (cache : goCache)
    (hc : hs.c = some c) (hcfg : c.config = some cfg) (hch : hs.clientHello = some ch)
    (hcache : cfg.SessionCache = some cache) (hsid : ch.sessionId ≠ [])
    (hf : cache.entries.find? (fun e => e.key == Go.hexEncode ch.sessionId) = none) :
    serverHandshakeState.checkForResumption tbl nn hs = .ok ({ hs with sessionState := none }, false) := by
  rw [cfr_eq tbl nn hs c cfg ch hc hcfg hch]
  unfold cfrSpec
  have h0 : ch.sessionId.isEmpty = false := (isEmpty_eq_false_iff _).mpr hsid
  simp only [hcache, h0, Bool.false_eq_true, if_false, hf]

/-- The decision of the translated `checkForResumption` on a found session IS the model's `serverResumes`
(`Gotlcp.Model.Negotiate`) with both guard flags `true`: the two client-authentication guards, the version guard,
"the client still offers the suite" and "the configuration in use still enables it with usable keys". -/
theorem tie_resumeDecision (p : Params) (hp : TreeParams p) (hr : TreeResume p)
    (tbl : BitVec 16 → Option cipherSuite) (hT : TblAbs cipherSuite.flags p tbl) (nn : List (BitVec 16) → Bool)
    (hs : serverHandshakeState) (c : Conn) (cfg : Config) (ch : clientHelloMsg) (st : SessionState)
    (s : Gotlcp.Negotiate.ServerCfg) (hsu : s.suites = absSuites nn cfg.CipherSuites)
    (hauth : cfg.ClientAuth = ((Model.Negotiate.authVal p s.auth : Nat) : Int))
    (sess : Model.Negotiate.Session) (hvers : sess.vers = st.vers.toNat) (hsuite : sess.suite = st.cipherSuite.toNat)
    (hpeer : sess.serverPeer.length = st.peerCertificates.length) :
    decision tbl nn hs c cfg ch st =
      Model.Negotiate.serverResumes p (keys hs) s c.vers.toNat (ch.cipherSuites.map (·.toNat)) sess := by
  unfold decision Model.Negotiate.serverResumes
  have hsel := tie_selectSpec_isSome cipherSuite.flags p tbl hT (fun x => okFlags (keys hs) x.flags)
    (Model.Negotiate.cipherSuiteOk p (keys hs)) (fun x f hf => by rw [hf]; exact okFlags_model p hp.ecSign hp.ecdhe _ f)
    [st.cipherSuite] (Config.cipherSuites nn cfg)
  rw [hsel, tie_cfgSuites p hp, ← hsu]
  have h0 : Model.Negotiate.authVal p Gotlcp.Negotiate.ClientAuth.noClientCert = 0 := by
    unfold Model.Negotiate.authVal; rw [hr.iota]; rfl
  have hreq : requiresClientCert cfg.ClientAuth = Model.Negotiate.requiresClientCert p s.auth := by
    rw [requiresClientCert_eq, hauth, requires_cast]
    unfold Model.Negotiate.requiresClientCert
    rw [hr.requires]
  have hhas : decide (sess.serverPeer.length ≠ 0) = !st.peerCertificates.isEmpty := by
    rw [hpeer]; cases st.peerCertificates <;> simp
  have hv : (c.vers == st.vers) = (c.vers.toNat == sess.vers) := by
    rw [hvers, Bool.eq_iff_iff]
    simp only [beq_iff_eq]
    exact ⟨fun h => by rw [h], fun h => BitVec.eq_of_toNat_eq h⟩
  have hc : ch.cipherSuites.contains st.cipherSuite = (ch.cipherSuites.map (·.toNat)).contains sess.suite := by
    rw [hsuite]
    exact (Gotlcp.Tie.Negotiate.contains_map_inj (fun v : BitVec 16 => v.toNat)
      Gotlcp.Tie.Negotiate.toNat_injective16 ch.cipherSuites st.cipherSuite).symm
  rw [hreq]
  simp only [hr.policy, hr.suite, Bool.true_and, if_true, hhas, hv, hc, h0, hauth, zero_cast, hsuite,
    List.map_cons, List.map_nil, Bool.not_not]
  generalize (Model.Negotiate.selectCipherSuite p [st.cipherSuite.toNat] (Model.Negotiate.configSuites p s.suites)
    (Model.Negotiate.cipherSuiteOk p (keys hs))).isSome = b6
  cases Model.Negotiate.requiresClientCert p s.auth <;> cases st.peerCertificates.isEmpty <;>
    cases (Model.Negotiate.authVal p s.auth == 0) <;> cases (c.vers.toNat == sess.vers) <;>
    cases ((ch.cipherSuites.map (·.toNat)).contains st.cipherSuite.toNat) <;> cases b6 <;> rfl

/-! #### … and the decision of the C10 model (`Gotlcp.Model.Resumption.checkForResumption`)

The model's server cache is an LRU of object identifiers over a heap; the translated stub is an association list of
states.  They are related through the ONE lookup `checkForResumption` performs (`LookAbs`: same hit / miss for the
offered identifier, and on a hit the model's heap object describes the Go state).  The model has one protocol
version, no suite table and no key types: the hypotheses `hvers` and `husable` say so (every configured suite is in
the table with usable keys).  A `(nil, true)` answer is a refusal on both sides (since the repair of F65 in Go; the
model always treated it as a miss). -/

/-- a server-side session record of the C10 model describes a Go `SessionState` -/
def SessAbs (t : Model.Resumption.Session) (st : SessionState) : Prop :=
  t.vers = st.vers.toNat ∧ t.suite = st.cipherSuite.toNat ∧ t.cpeer.isNone = st.peerCertificates.isEmpty

/-- the cache stub answers the lookup under `key` as the model's LRU answers the lookup of identifier `x` -/
def LookAbs (w : Model.Resumption.World) (srv x : Nat) (cache : goCache) (key : List (BitVec 8)) : Prop :=
  match cache.entries.find? (fun e => e.key == key),
        Model.LRU.findVal (w.servers srv).q (Model.Resumption.idKey x) with
  | none, none => True
  | some e, some none => e.state = none
  | some e, some (some o) => ∃ st, e.state = some st ∧ SessAbs (w.heap o) st
  | _, _ => False

theorem tie_model_checkForResumption (p : Model.Resumption.Params) (hreq : p.requires = [2, 4, 5])
    (w : Model.Resumption.World) (mc : Model.Resumption.Conn) (off : List Nat) (x : Nat)
    (tbl : BitVec 16 → Option cipherSuite) (nn : List (BitVec 16) → Bool) (hs : serverHandshakeState)
    (c : Conn) (cfg : Config) (ch : clientHelloMsg) (cache : goCache)
    (hc : hs.c = some c) (hcfg : c.config = some cfg) (hch : hs.clientHello = some ch)
    (hcache : cfg.SessionCache = some cache) (hsid : ch.sessionId ≠ [])
    (hauth : cfg.ClientAuth = ((mc.auth : Nat) : Int)) (hvers : c.vers.toNat = p.version)
    (hoff : off = ch.cipherSuites.map (·.toNat)) (hss : mc.ssuites = (Config.cipherSuites nn cfg).map (·.toNat))
    (husable : ∀ id, id ∈ Config.cipherSuites nn cfg →
      ∃ s, tbl id = some s ∧ serverHandshakeState.cipherSuiteOk hs s = true)
    (hlook : LookAbs w mc.server x cache (Go.hexEncode ch.sessionId)) :
    ∃ hs', serverHandshakeState.checkForResumption tbl nn hs =
      .ok (hs', (Model.Resumption.checkForResumption p w mc off (some x)).2.isSome) := by
  unfold LookAbs at hlook
  have hk : (Model.Resumption.idKey x == "") = false := by
    simpa using Gotlcp.Lemmas.Resumption.idKey_ne_empty x
  unfold Model.Resumption.checkForResumption Model.LRU.get
  simp only [hk, Bool.false_eq_true, if_false]
  cases hf : cache.entries.find? (fun e => e.key == Go.hexEncode ch.sessionId) with
  | none =>
    rw [hf] at hlook
    cases hv : Model.LRU.findVal (w.servers mc.server).q (Model.Resumption.idKey x) with
    | some v => rw [hv] at hlook; exact hlook.elim
    | none =>
      exact ⟨_, cfr_miss tbl nn hs c cfg ch cache hc hcfg hch hcache hsid hf⟩
  | some e =>
    rw [hf] at hlook
    cases hv : Model.LRU.findVal (w.servers mc.server).q (Model.Resumption.idKey x) with
    | none => rw [hv] at hlook; exact hlook.elim
    | some v =>
      rw [hv] at hlook
      cases v with
      | none =>
        exact ⟨_, cfr_nil_state tbl nn hs c cfg ch hc hcfg hch ⟨cache, e, hcache, hsid, hf, hlook⟩⟩
      | some o =>
        obtain ⟨st, hst, ha1, ha2, ha3⟩ := hlook
        obtain ⟨hs', hres⟩ := cfr_found tbl nn hs c cfg ch cache e st hc hcfg hch hcache hsid hf hst
        refine ⟨hs', ?_⟩
        rw [hres]
        congr 2
        unfold decision
        simp only
        have hsel : (selectSpec tbl [st.cipherSuite] (Config.cipherSuites nn cfg) (fun s => okFlags (keys hs) s.flags)).isSome =
            mc.ssuites.contains (w.heap o).suite := by
          rw [hss, ha2, Gotlcp.Tie.Negotiate.contains_map_inj (fun v : BitVec 16 => v.toNat)
            Gotlcp.Tie.Negotiate.toNat_injective16]
          cases hm : (Config.cipherSuites nn cfg).contains st.cipherSuite with
          | true =>
            obtain ⟨s, h1, h2⟩ := husable _ (by simpa using hm)
            rw [(selectSpec_singleton _ _ _ _ s).mpr ⟨h1, by rw [← cipherSuiteOk_eq]; exact h2, by simpa using hm⟩]
            rfl
          | false =>
            cases hsp : selectSpec tbl [st.cipherSuite] (Config.cipherSuites nn cfg) (fun s => okFlags (keys hs) s.flags) with
            | none => rfl
            | some s =>
              have := ((selectSpec_singleton _ _ _ _ s).mp hsp).2.2
              have : (Config.cipherSuites nn cfg).contains st.cipherSuite = true := by simpa using this
              rw [hm] at this; cases this
        have hr : requiresClientCert cfg.ClientAuth = Model.Resumption.requiresCert p mc.auth := by
          rw [requiresClientCert_eq, hauth, requires_cast]
          unfold Model.Resumption.requiresCert
          rw [hreq]
        have hv' : (c.vers == st.vers) = ((w.heap o).vers == p.version) := by
          rw [ha1, ← hvers, Bool.eq_iff_iff]
          simp only [beq_iff_eq]
          exact ⟨fun h => by rw [h], fun h => (BitVec.eq_of_toNat_eq h).symm⟩
        have hc' : ch.cipherSuites.contains st.cipherSuite = off.contains (w.heap o).suite := by
          rw [hoff, ha2]
          exact (Gotlcp.Tie.Negotiate.contains_map_inj (fun v : BitVec 16 => v.toNat)
            Gotlcp.Tie.Negotiate.toNat_injective16 ch.cipherSuites st.cipherSuite).symm
        have hsome : (w.heap o).cpeer.isSome = !st.peerCertificates.isEmpty := by
          rw [← ha3]; cases (w.heap o).cpeer <;> rfl
        rw [hsel, hr, hv', hc', hauth, zero_cast, ← ha3]
        simp only [hsome, ← ha3]
        generalize Model.Resumption.requiresCert p mc.auth = b1
        generalize (w.heap o).cpeer.isNone = b2
        generalize (mc.auth == 0) = b3
        generalize ((w.heap o).vers == p.version) = b4
        generalize off.contains (w.heap o).suite = b5
        generalize mc.ssuites.contains (w.heap o).suite = b6
        cases b1 <;> cases b2 <;> cases b3 <;> cases b4 <;> cases b5 <;> cases b6 <;> rfl

/-! #### the client: `serverResumedSession`, `processServerHello` -/

/-- `serverResumedSession`: a session is held, a (non-nil) id was sent, the server echoed a non-empty identical id -/
def echoed (nb : List (BitVec 8) → Bool) (h : clientHelloMsg) (sh : serverHelloMsg) : Bool :=
  nb h.sessionId && !sh.sessionId.isEmpty && sh.sessionId == h.sessionId

/-- `serverResumedSession`, for non-nil `hs.hello`, `hs.serverHello` -/
theorem resumed_eq (nb : List (BitVec 8) → Bool) (hs : clientHandshakeState) (h : clientHelloMsg) (sh : serverHelloMsg)
    (hh : hs.hello = some h) (hsh : hs.serverHello = some sh) :
    clientHandshakeState.serverResumedSession nb hs = .ok (hs.session.isSome && echoed nb h sh) := by
  unfold clientHandshakeState.serverResumedSession echoed
  simp only [bind, pure, Except.pure, hh, hsh, deref_some, bind_ok, len_pos]
  cases hs.session.isSome <;> cases nb h.sessionId <;> cases sh.sessionId.isEmpty <;> cases (sh.sessionId == h.sessionId) <;> rfl

/-- What the translated `processServerHello` computes, as a decision tree. -/
def pshSpec (tbl : BitVec 16 → Option cipherSuite) (nb : List (BitVec 8) → Bool) (hs : clientHandshakeState)
    (c : Conn) (h : clientHelloMsg) (sh : serverHelloMsg) : clientHandshakeState × Bool × Option Go.Error :=
  match mutualSpec tbl h.cipherSuites sh.cipherSuite with
  | none => ({ hs with suite := none, c := some (alerted c 40#8) }, false, some Go.Error.other)
  | some s =>
    let c1 : Conn := { c with cipherSuite := s.id }
    if (sh.compressionMethod != 0#8) = true then
      ({ hs with suite := some s, c := some (alerted c1 10#8) }, false, some Go.Error.other)
    else
      match checkPick h.alpnProtocols sh.alpnProtocol with
      | some e => ({ hs with suite := some s, c := some (alerted c1 110#8) }, false, some e)
      | none =>
        let c2 : Conn := { c1 with clientProtocol := sh.alpnProtocol }
        match hs.session with
        | none => ({ hs with suite := some s, c := some c2 }, false, none)
        | some sess =>
          if echoed nb h sh = false then ({ hs with suite := some s, c := some c2 }, false, none)
          else if (sess.vers != c.vers) = true then
            ({ hs with suite := some s, c := some (alerted c2 40#8) }, false, some Go.Error.other)
          else if (sess.cipherSuite != s.id) = true then
            ({ hs with suite := some s, c := some (alerted c2 40#8) }, false, some Go.Error.other)
          else if sess.masterSecret.isEmpty = true then
            ({ hs with suite := some s, c := some (alerted c2 80#8) }, false, some Go.Error.other)
          else
            ({ hs with suite := some s, masterSecret := sess.masterSecret,
                       c := some { c2 with peerCertificates := sess.peerCertificates } }, true, none)

/-- The translated `processServerHello` IS `pshSpec`, for every state with non-nil `hs.c`, `hs.hello`,
`hs.serverHello`; it never fails there -/
theorem psh_eq (tbl : BitVec 16 → Option cipherSuite) (nb : List (BitVec 8) → Bool) (hs : clientHandshakeState)
    (c : Conn) (h : clientHelloMsg) (sh : serverHelloMsg)
    (hc : hs.c = some c) (hh : hs.hello = some h) (hsh : hs.serverHello = some sh) :
    clientHandshakeState.processServerHello tbl nb hs = .ok (pshSpec tbl nb hs c h sh) := by
  unfold clientHandshakeState.processServerHello pshSpec
  simp only [bind, pure, Except.pure, clientPick_eq tbl hs c h sh hc hh hsh, bind_ok]
  cases hm : mutualSpec tbl h.cipherSuites sh.cipherSuite with
  | none => simp only [Option.isSome_some, if_true]
  | some s =>
    simp only [Option.isSome_none, Bool.false_eq_true, if_false, deref_some, bind_ok, hh, hsh, checkALPN_eq]
    rw [resumed_eq nb _ h sh rfl rfl]
    simp only [bind_ok, Conn.sendAlert, Id.run, pure, bind, alerted]
    cases hsess : hs.session with
    | none =>
      simp only [Option.isSome_none, Bool.false_and, Bool.not_false, if_true]
      generalize (sh.compressionMethod != 0#8) = b1
      generalize checkPick h.alpnProtocols sh.alpnProtocol = o
      cases b1 <;> cases o <;> rfl
    | some sess =>
      simp only [Option.isSome_some, Bool.true_and, deref_some, bind_ok, len_pos, make_eq, copy_eq]
      generalize (sh.compressionMethod != 0#8) = b1
      generalize checkPick h.alpnProtocols sh.alpnProtocol = o
      generalize echoed nb h sh = b2
      generalize (sess.vers != c.vers) = b3
      generalize (sess.cipherSuite != s.id) = b4
      generalize sess.masterSecret.isEmpty = b5
      cases b1 <;> cases o <;> cases b2 <;> cases b3 <;> cases b4 <;> cases b5 <;> rfl

theorem psh_nil (tbl : BitVec 16 → Option cipherSuite) (nb : List (BitVec 8) → Bool) (hs : clientHandshakeState)
    (h : ¬ ClientNonNil hs) : clientHandshakeState.processServerHello tbl nb hs = .error nilDeref := by
  unfold clientHandshakeState.processServerHello
  simp only [bind, pure, Except.pure, clientPick_nil tbl hs h, bind_error]

/-- `processServerHello` up to the resumption question: the suite is refused (alert 40), or the compression method
(alert 10), or the ALPN protocol (alert 110); otherwise `c.cipherSuite` and `c.clientProtocol` are set -/
def accepted (tbl : BitVec 16 → Option cipherSuite) (h : clientHelloMsg) (sh : serverHelloMsg) (s : cipherSuite) : Prop :=
  mutualSpec tbl h.cipherSuites sh.cipherSuite = some s ∧ sh.compressionMethod = 0#8 ∧
  checkPick h.alpnProtocols sh.alpnProtocol = none

/-- the connection after the ServerHello's suite and protocol were accepted -/
def negotiated (c : Conn) (sh : serverHelloMsg) (s : cipherSuite) : Conn :=
  { c with cipherSuite := s.id, clientProtocol := sh.alpnProtocol }

/-- not a resumption: no session held, or no (non-nil) id sent, or the echo is empty or different -/
theorem psh_not_resumed (tbl : BitVec 16 → Option cipherSuite) (nb : List (BitVec 8) → Bool) (hs : clientHandshakeState)
    (c : Conn) (h : clientHelloMsg) (sh : serverHelloMsg) (s : cipherSuite) (ha : accepted tbl h sh s)
    (hn : (hs.session.isSome && echoed nb h sh) = false) :
    pshSpec tbl nb hs c h sh = ({ hs with suite := some s, c := some (negotiated c sh s) }, false, none) := by
  obtain ⟨h1, h2, h3⟩ := ha
  unfold pshSpec negotiated
  have h2' : (sh.compressionMethod != 0#8) = false := by simp [h2]
  simp only [h1, h2', h3, Bool.false_eq_true, if_false]
  cases hsess : hs.session with
  | none => rfl
  | some sess =>
    rw [hsess] at hn
    simp only [Option.isSome_some, Bool.true_and] at hn
    simp only [hn, if_true]

/-- a resumption (a session is held and its id came back): refused with handshake_failure (40) when the session's
version or suite is not the negotiated one, with internal_error (80) when it has no master secret; accepted
otherwise, and then `hs.masterSecret` is (a copy of) the session's and `c.peerCertificates` the session's -/
theorem psh_resumed (tbl : BitVec 16 → Option cipherSuite) (nb : List (BitVec 8) → Bool) (hs : clientHandshakeState)
    (c : Conn) (h : clientHelloMsg) (sh : serverHelloMsg) (s : cipherSuite) (sess : SessionState)
    (ha : accepted tbl h sh s) (hsess : hs.session = some sess) (he : echoed nb h sh = true) :
    pshSpec tbl nb hs c h sh =
      if (sess.vers != c.vers || sess.cipherSuite != s.id) = true then
        ({ hs with suite := some s, c := some (alerted (negotiated c sh s) 40#8) }, false, some Go.Error.other)
      else if sess.masterSecret.isEmpty = true then
        ({ hs with suite := some s, c := some (alerted (negotiated c sh s) 80#8) }, false, some Go.Error.other)
      else
        ({ hs with suite := some s, masterSecret := sess.masterSecret,
                   c := some { negotiated c sh s with peerCertificates := sess.peerCertificates } }, true, none) := by
  obtain ⟨h1, h2, h3⟩ := ha
  unfold pshSpec negotiated
  have h2' : (sh.compressionMethod != 0#8) = false := by simp [h2]
  simp only [h1, h2', h3, Bool.false_eq_true, if_false, hsess, he, Bool.true_eq_false]
  generalize (sess.vers != c.vers) = b1
  generalize (sess.cipherSuite != s.id) = b2
  generalize sess.masterSecret.isEmpty = b3
  cases b1 <;> cases b2 <;> cases b3 <;> rfl

/-- `processServerHello` reports "resumed" EXACTLY when the suite, compression method and protocol are accepted, a
session is held, a non-nil id was sent and echoed non-empty and identical, and the session has the negotiated
version, the negotiated suite and a master secret. -/
theorem psh_true_iff (tbl : BitVec 16 → Option cipherSuite) (nb : List (BitVec 8) → Bool) (hs : clientHandshakeState)
    (c : Conn) (h : clientHelloMsg) (sh : serverHelloMsg) :
    (pshSpec tbl nb hs c h sh).2.1 = true ↔
      ∃ s sess, accepted tbl h sh s ∧ hs.session = some sess ∧ echoed nb h sh = true ∧
        sess.vers = c.vers ∧ sess.cipherSuite = s.id ∧ sess.masterSecret ≠ [] := by
  constructor
  · intro hr
    cases hm : mutualSpec tbl h.cipherSuites sh.cipherSuite with
    | none => unfold pshSpec at hr; rw [hm] at hr; cases hr
    | some s =>
      by_cases hcomp : sh.compressionMethod = 0#8
      · cases hal : checkPick h.alpnProtocols sh.alpnProtocol with
        | some e =>
          unfold pshSpec at hr
          have h2' : (sh.compressionMethod != 0#8) = false := by simp [hcomp]
          simp only [hm, h2', hal, Bool.false_eq_true, if_false] at hr
        | none =>
          have ha : accepted tbl h sh s := ⟨hm, hcomp, hal⟩
          cases hn : (hs.session.isSome && echoed nb h sh) with
          | false => rw [psh_not_resumed tbl nb hs c h sh s ha hn] at hr; cases hr
          | true =>
            simp only [Bool.and_eq_true, Option.isSome_iff_exists] at hn
            obtain ⟨⟨sess, hsess⟩, he⟩ := hn
            rw [psh_resumed tbl nb hs c h sh s sess ha hsess he] at hr
            split at hr
            · cases hr
            · rename_i g1
              split at hr
              · cases hr
              · rename_i g2
                simp only [Bool.or_eq_true, bne_iff_ne, ne_eq, not_or, Decidable.not_not] at g1
                exact ⟨s, sess, ha, hsess, he, g1.1, g1.2, (isEmpty_eq_false_iff _).mp (by simpa using g2)⟩
      · unfold pshSpec at hr
        have h2' : (sh.compressionMethod != 0#8) = true := by simp [hcomp]
        simp only [hm, h2', if_true] at hr
        cases hr
  · rintro ⟨s, sess, ha, hsess, he, hv, hsu, hms⟩
    rw [psh_resumed tbl nb hs c h sh s sess ha hsess he]
    have g1 : (sess.vers != c.vers || sess.cipherSuite != s.id) = false := by simp [hv, hsu]
    have g2 : sess.masterSecret.isEmpty = false := (isEmpty_eq_false_iff _).mpr hms
    simp only [g1, g2, Bool.false_eq_true, if_false]

end Gotlcp.Tie.ResumeDecision.tlcp

/-! ### DTLCP (the same statements and proof scripts, about `Gotlcp.Src.dtlcp.sel`) -/

namespace Gotlcp.Tie.ResumeDecision.dtlcp
open Gotlcp.Src.dtlcp.sel
open Gotlcp.Tie.Select Gotlcp.Tie.Select.dtlcp Gotlcp.Tie.ResumeDecision
open Gotlcp.Model.Negotiate (Params KeyFlags)
open Gotlcp.Tie.Negotiate (checkPick Str)

/-- the cache stub's `Get`: the FIRST entry under the key -/
theorem get_eq (cache : goCache) (key : List (BitVec 8)) :
    goCache.Get cache key =
      match cache.entries.find? (fun e => e.key == key) with
      | some e => (e.state, true)
      | none => (none, false) := by
  unfold goCache.Get
  simp only [Id.run, pure, bind, forIn_id_loop]
  have k := loop_find (fun e : goCacheEntry => e.key == key) (fun e => (e.state, true)) _ (fun x st => rfl) cache.entries
  generalize loop _ cache.entries _ = r at k
  obtain ⟨r1, r2⟩ := r
  simp only at k
  subst k
  cases List.find? _ cache.entries <;> rfl

/-- `requiresClientCert`: RequireAnyClientCert (2), RequireAndVerifyClientCert (4), RequireAndVerifyAnyKeyUsageClientCert (5) -/
theorem requiresClientCert_eq (a : Int) : requiresClientCert a = (a == 2 || a == 4 || a == 5) := by
  unfold requiresClientCert
  simp only [Id.run, pure, bind]
  split <;> simp_all

/-- What the translated `checkForResumption` computes, as a decision tree without loops. -/
def cfrSpec (tbl : BitVec 16 → Option cipherSuite) (nn : List (BitVec 16) → Bool) (hs : serverHandshakeState)
    (c : Conn) (cfg : Config) (ch : clientHelloMsg) : Except String (serverHandshakeState × Bool) :=
  match cfg.SessionCache with
  | none => .ok (hs, false)
  | some cache =>
    if ch.sessionId.isEmpty = true then .ok (hs, false)
    else
      match cache.entries.find? (fun e => e.key == Go.hexEncode ch.sessionId) with
      | none => .ok ({ hs with sessionState := none }, false)
      | some e =>
        match e.state with
        | none => .ok ({ hs with sessionState := none }, false)
        | some st =>
          if (requiresClientCert cfg.ClientAuth && st.peerCertificates.isEmpty) = true then
            .ok ({ hs with sessionState := some st }, false)
          else if (!st.peerCertificates.isEmpty && cfg.ClientAuth == 0) = true then
            .ok ({ hs with sessionState := some st }, false)
          else if (c.vers != st.vers) = true then .ok ({ hs with sessionState := some st }, false)
          else if ch.cipherSuites.contains st.cipherSuite = false then .ok ({ hs with sessionState := some st }, false)
          else
            match selectSpec tbl [st.cipherSuite] (Config.cipherSuites nn cfg) (fun s => okFlags (keys hs) s.flags) with
            | none => .ok ({ hs with sessionState := some st, suite := none }, false)
            | some s => .ok ({ hs with sessionState := some st, suite := some s }, true)

/-- The translated `checkForResumption` IS `cfrSpec`, for every state with non-nil `hs.c`, `hs.c.config`,
`hs.clientHello` -/
theorem cfr_eq (tbl : BitVec 16 → Option cipherSuite) (nn : List (BitVec 16) → Bool) (hs : serverHandshakeState)
    (c : Conn) (cfg : Config) (ch : clientHelloMsg)
    (hc : hs.c = some c) (hcfg : c.config = some cfg) (hch : hs.clientHello = some ch) :
    serverHandshakeState.checkForResumption tbl nn hs = cfrSpec tbl nn hs c cfg ch := by
  unfold serverHandshakeState.checkForResumption cfrSpec
  simp only [bind, pure, Except.pure, hc, hcfg, hch, deref_some, bind_ok]
  cases hcache : cfg.SessionCache with
  | none => simp only [Option.isNone_none, if_true]
  | some cache =>
    simp only [Option.isNone_some, Bool.false_eq_true, if_false, deref_some, bind_ok, get_eq, len_beq_zero, len_bne_zero]
    by_cases hsid : ch.sessionId.isEmpty = true
    · simp only [hsid, if_true]
    · simp only [hsid, if_false]
      cases hf : cache.entries.find? (fun e => e.key == Go.hexEncode ch.sessionId) with
      | none => simp only [Bool.not_false, Bool.true_or, if_true]
      | some e =>
        cases hst : e.state with
        | none => simp only [hst, Bool.not_true, Option.isNone_none, Bool.or_true, Bool.false_eq_true, if_false, if_true]
        | some st =>
          simp only [hst, Bool.not_true, Option.isNone_some, Bool.or_false, Bool.false_eq_true, if_false]
          have hok : ∀ x : Option cipherSuite, serverHandshakeState.cipherSuiteOk
              { c := some c, clientHello := some ch, suite := x, sessionState := some st,
                ecdheOk := hs.ecdheOk, ecSignOk := hs.ecSignOk, ecDecryptOk := hs.ecDecryptOk,
                rsaDecryptOk := hs.rsaDecryptOk, rsaSignOk := hs.rsaSignOk } = fun s => okFlags (keys hs) s.flags :=
            fun x => funext fun s => cipherSuiteOk_eq _ s
          have hflag : (forIn ch.cipherSuites false fun id' __s =>
              if (id' == st.cipherSuite) = true then (Except.ok (ForInStep.done true) : Except String _)
              else Except.ok (ForInStep.yield __s)) = Except.ok (ch.cipherSuites.contains st.cipherSuite) := by
            rw [forIn_ok_loop _ (fun id' b => if (id' == st.cipherSuite) = true then ForInStep.done true else ForInStep.yield b)
              (fun a b => by split <;> rfl), loop_flag st.cipherSuite _ (fun x b => rfl), Bool.or_false]
          simp only [deref_some, bind_ok, select_eq, hok, hflag]
          generalize requiresClientCert cfg.ClientAuth = b1
          generalize st.peerCertificates.isEmpty = b2
          generalize (cfg.ClientAuth == 0) = b3
          generalize (c.vers != st.vers) = b4
          generalize ch.cipherSuites.contains st.cipherSuite = b5
          generalize selectSpec tbl [st.cipherSuite] (Config.cipherSuites nn cfg) (fun s => okFlags (keys hs) s.flags) = o
          cases b1 <;> cases b2 <;> cases b3 <;> cases b4 <;> cases b5 <;> cases o <;> rfl


/-- `checkForResumption` dereferences `hs.c` and `hs.c.config` first: nil there is a panic … -/
theorem cfr_nil_conn (tbl : BitVec 16 → Option cipherSuite) (nn : List (BitVec 16) → Bool) (hs : serverHandshakeState)
    (h : hs.c = none ∨ ∃ c, hs.c = some c ∧ c.config = none) :
    serverHandshakeState.checkForResumption tbl nn hs = .error nilDeref := by
  unfold serverHandshakeState.checkForResumption
  rcases h with h | ⟨c, hc, hcfg⟩
  · simp only [bind, pure, Except.pure, h, deref_none, bind_error]
  · simp only [bind, pure, Except.pure, hc, hcfg, deref_some, bind_ok, deref_none, bind_error]

/-- … without a session cache it returns false before it looks at the ClientHello (a nil `hs.clientHello` is not
dereferenced) … -/
theorem cfr_no_cache (tbl : BitVec 16 → Option cipherSuite) (nn : List (BitVec 16) → Bool) (hs : serverHandshakeState)
    (c : Conn) (cfg : Config) (hc : hs.c = some c) (hcfg : c.config = some cfg) (hcache : cfg.SessionCache = none) :
    serverHandshakeState.checkForResumption tbl nn hs = .ok (hs, false) := by
  unfold serverHandshakeState.checkForResumption
  simp only [bind, pure, Except.pure, hc, hcfg, hcache, deref_some, bind_ok, Option.isNone_none, if_true]

/-- … and with a session cache a nil `hs.clientHello` is a panic. -/
theorem cfr_nil_hello (tbl : BitVec 16 → Option cipherSuite) (nn : List (BitVec 16) → Bool) (hs : serverHandshakeState)
    (c : Conn) (cfg : Config) (cache : goCache) (hc : hs.c = some c) (hcfg : c.config = some cfg)
    (hcache : cfg.SessionCache = some cache) (hch : hs.clientHello = none) :
    serverHandshakeState.checkForResumption tbl nn hs = .error nilDeref := by
  unfold serverHandshakeState.checkForResumption
  simp only [bind, pure, Except.pure, hc, hcfg, hcache, hch, deref_some, bind_ok, Option.isNone_some,
    Bool.false_eq_true, if_false, deref_none, bind_error]

/-- the cache answers `(nil, true)` for the offered identifier: the first entry under `hex(sessionId)` holds a nil
state -/
def NilHit (cfg : Config) (ch : clientHelloMsg) : Prop :=
  ∃ cache e, cfg.SessionCache = some cache ∧ ch.sessionId ≠ [] ∧
    cache.entries.find? (fun e => e.key == Go.hexEncode ch.sessionId) = some e ∧ e.state = none

/-- What the Go code does when the cache returns `(nil, true)` (finding F65, repaired): the guard is
`!ok || hs.sessionState == nil`, so the answer is a REFUSAL — false, no error, `hs.sessionState = nil`, nothing else
touched — and the full handshake follows.  (Before the repair the guard was `!ok` alone and the next statement,
`len(hs.sessionState.peerCertificates)`, dereferenced nil: a panic of the server's handshake goroutine.) -/
theorem cfr_nil_state (tbl : BitVec 16 → Option cipherSuite) (nn : List (BitVec 16) → Bool) (hs : serverHandshakeState)
    (c : Conn) (cfg : Config) (ch : clientHelloMsg)
    (hc : hs.c = some c) (hcfg : c.config = some cfg) (hch : hs.clientHello = some ch) (h : NilHit cfg ch) :
    serverHandshakeState.checkForResumption tbl nn hs = .ok ({ hs with sessionState := none }, false) := by
  obtain ⟨cache, e, hcache, hsid, hf, hst⟩ := h
  rw [cfr_eq tbl nn hs c cfg ch hc hcfg hch]
  unfold cfrSpec
  have : ch.sessionId.isEmpty = false := by cases h : ch.sessionId with | nil => exact absurd h hsid | cons _ _ => rfl
  simp only [hcache, this, Bool.false_eq_true, if_false, hf, hst]

/-- The conditions under which `checkForResumption` answers true, with the session `st` it resumes and the suite
`s` it stores: a session cache is configured; the ClientHello's session id is non-empty; the FIRST cache entry under
`hex(session id)` holds the non-nil state `st`; a policy that requires a client certificate finds one recorded; a
session with a recorded client certificate is not resumed under NoClientCert; the session's version is the
connection's; the client still offers the session's suite; and `selectCipherSuite([st.cipherSuite], configured,
cipherSuiteOk)` finds `s` — the table knows the suite, the key types admit it, the configuration in use enables it. -/
structure Resumes (tbl : BitVec 16 → Option cipherSuite) (nn : List (BitVec 16) → Bool) (hs : serverHandshakeState)
    (c : Conn) (cfg : Config) (ch : clientHelloMsg) (st : SessionState) (s : cipherSuite) : Prop where
  cached : ∃ cache e, cfg.SessionCache = some cache ∧
    cache.entries.find? (fun e => e.key == Go.hexEncode ch.sessionId) = some e ∧ e.state = some st
  offeredId : ch.sessionId ≠ []
  needCert : requiresClientCert cfg.ClientAuth = true → st.peerCertificates ≠ []
  noCertPolicy : st.peerCertificates ≠ [] → cfg.ClientAuth ≠ 0
  version : st.vers = c.vers
  stillOffered : st.cipherSuite ∈ ch.cipherSuites
  known : tbl st.cipherSuite = some s
  keysOk : serverHandshakeState.cipherSuiteOk hs s = true
  stillEnabled : st.cipherSuite ∈ Config.cipherSuites nn cfg

theorem isEmpty_eq_false_iff {α : Type} (l : List α) : l.isEmpty = false ↔ l ≠ [] := by
  cases l <;> simp

/-- `checkForResumption` returns true EXACTLY under `Resumes`, and then `hs.sessionState` is the session found and
`hs.suite` the suite selected for the session's OWN suite id; nothing else changes. -/
theorem cfr_true_iff (tbl : BitVec 16 → Option cipherSuite) (nn : List (BitVec 16) → Bool) (hs : serverHandshakeState)
    (c : Conn) (cfg : Config) (ch : clientHelloMsg)
    (hc : hs.c = some c) (hcfg : c.config = some cfg) (hch : hs.clientHello = some ch) (hs' : serverHandshakeState) :
    serverHandshakeState.checkForResumption tbl nn hs = .ok (hs', true) ↔
      ∃ st s, Resumes tbl nn hs c cfg ch st s ∧ hs' = { hs with sessionState := some st, suite := some s } := by
  rw [cfr_eq tbl nn hs c cfg ch hc hcfg hch]
  unfold cfrSpec
  constructor
  · intro h
    cases hcache : cfg.SessionCache with
    | none => rw [hcache] at h; simp only [Except.ok.injEq, Prod.mk.injEq, Bool.false_eq_true, and_false] at h
    | some cache =>
      rw [hcache] at h
      simp only at h
      split at h
      · simp only [Except.ok.injEq, Prod.mk.injEq, Bool.false_eq_true, and_false] at h
      · rename_i hsid
        cases hf : cache.entries.find? (fun e => e.key == Go.hexEncode ch.sessionId) with
        | none => rw [hf] at h; simp only [Except.ok.injEq, Prod.mk.injEq, Bool.false_eq_true, and_false] at h
        | some e =>
          rw [hf] at h
          simp only at h
          cases hst : e.state with
          | none => rw [hst] at h; simp only [Except.ok.injEq, Prod.mk.injEq, Bool.false_eq_true, and_false] at h
          | some st =>
            rw [hst] at h
            simp only at h
            split at h
            · simp only [Except.ok.injEq, Prod.mk.injEq, Bool.false_eq_true, and_false] at h
            · rename_i g1
              split at h
              · simp only [Except.ok.injEq, Prod.mk.injEq, Bool.false_eq_true, and_false] at h
              · rename_i g2
                split at h
                · simp only [Except.ok.injEq, Prod.mk.injEq, Bool.false_eq_true, and_false] at h
                · rename_i g3
                  split at h
                  · simp only [Except.ok.injEq, Prod.mk.injEq, Bool.false_eq_true, and_false] at h
                  · rename_i g4
                    split at h
                    · simp only [Except.ok.injEq, Prod.mk.injEq, Bool.false_eq_true, and_false] at h
                    · rename_i s hsel
                      simp only [Except.ok.injEq, Prod.mk.injEq, and_true] at h
                      obtain ⟨k1, k2, k3⟩ := (selectSpec_singleton _ _ _ _ _).mp hsel
                      refine ⟨st, s, ⟨⟨cache, e, hcache, hf, hst⟩, ?_, ?_, ?_, ?_, ?_, k1, ?_, k3⟩, h.symm⟩
                      · exact (isEmpty_eq_false_iff _).mp (by simpa using hsid)
                      · intro hr
                        have : st.peerCertificates.isEmpty = false := by
                          cases hx : st.peerCertificates.isEmpty with
                          | false => rfl
                          | true => rw [hr, hx] at g1; exact absurd rfl g1
                        exact (isEmpty_eq_false_iff _).mp this
                      · intro hne h0
                        have h1 : st.peerCertificates.isEmpty = false := (isEmpty_eq_false_iff _).mpr hne
                        rw [h1, h0] at g2
                        exact g2 rfl
                      · have : (c.vers != st.vers) = false := by simpa using g3
                        have : c.vers = st.vers := by simpa using this
                        exact this.symm
                      · have : ch.cipherSuites.contains st.cipherSuite = true := by simpa using g4
                        simpa using this
                      · rw [cipherSuiteOk_eq]; exact k2
  · rintro ⟨st, s, ⟨⟨cache, e, hcache, hf, hst⟩, hsid, hneed, hno, hv, hoff, hk, hko, hen⟩, rfl⟩
    have h0 : ch.sessionId.isEmpty = false := (isEmpty_eq_false_iff _).mpr hsid
    have g1 : (requiresClientCert cfg.ClientAuth && st.peerCertificates.isEmpty) = false := by
      cases hr : requiresClientCert cfg.ClientAuth with
      | false => rfl
      | true => simp only [Bool.true_and]; exact (isEmpty_eq_false_iff _).mpr (hneed hr)
    have g2 : (!st.peerCertificates.isEmpty && cfg.ClientAuth == 0) = false := by
      cases hx : st.peerCertificates.isEmpty with
      | true => rfl
      | false =>
        simp only [Bool.not_false, Bool.true_and]
        have := hno ((isEmpty_eq_false_iff _).mp hx)
        simpa using this
    have g3 : (c.vers != st.vers) = false := by simp [hv]
    have g4 : ch.cipherSuites.contains st.cipherSuite = true := by simpa using hoff
    have g5 : selectSpec tbl [st.cipherSuite] (Config.cipherSuites nn cfg) (fun s => okFlags (keys hs) s.flags) = some s :=
      (selectSpec_singleton _ _ _ _ _).mpr ⟨hk, by rw [← cipherSuiteOk_eq]; exact hko, hen⟩
    simp only [hcache, h0, Bool.false_eq_true, if_false, hf, hst, g1, g2, g3, g4, Bool.true_eq_false, g5]

/-- Frame: when `checkForResumption` answers false, nothing changed but `hs.sessionState` (the cache's answer) and
possibly `hs.suite`, which is then nil; the connection, the ClientHello and the key flags are untouched — the full
handshake that follows starts from the state it would have started from without a cache, except for `hs.suite`,
which `pickCipherSuite` overwrites. -/
theorem cfr_false_frame (tbl : BitVec 16 → Option cipherSuite) (nn : List (BitVec 16) → Bool) (hs : serverHandshakeState)
    (c : Conn) (cfg : Config) (ch : clientHelloMsg)
    (hc : hs.c = some c) (hcfg : c.config = some cfg) (hch : hs.clientHello = some ch) (hs' : serverHandshakeState)
    (h : serverHandshakeState.checkForResumption tbl nn hs = .ok (hs', false)) :
    ∃ ss, (hs' = { hs with sessionState := ss } ∨ hs' = { hs with sessionState := ss, suite := none }) := by
  rw [cfr_eq tbl nn hs c cfg ch hc hcfg hch] at h
  unfold cfrSpec at h
  split at h
  · exact ⟨hs.sessionState, Or.inl (by simp only [Except.ok.injEq, Prod.mk.injEq, and_true] at h; rw [← h])⟩
  · split at h
    · exact ⟨hs.sessionState, Or.inl (by simp only [Except.ok.injEq, Prod.mk.injEq, and_true] at h; rw [← h])⟩
    · split at h
      · exact ⟨none, Or.inl (by simp only [Except.ok.injEq, Prod.mk.injEq, and_true] at h; rw [← h])⟩
      · split at h
        · exact ⟨none, Or.inl (by simp only [Except.ok.injEq, Prod.mk.injEq, and_true] at h; rw [← h])⟩
        · rename_i st _
          refine ⟨some st, ?_⟩
          split at h
          · exact Or.inl (by simp only [Except.ok.injEq, Prod.mk.injEq, and_true] at h; rw [← h])
          · split at h
            · exact Or.inl (by simp only [Except.ok.injEq, Prod.mk.injEq, and_true] at h; rw [← h])
            · split at h
              · exact Or.inl (by simp only [Except.ok.injEq, Prod.mk.injEq, and_true] at h; rw [← h])
              · split at h
                · exact Or.inl (by simp only [Except.ok.injEq, Prod.mk.injEq, and_true] at h; rw [← h])
                · split at h
                  · exact Or.inr (by simp only [Except.ok.injEq, Prod.mk.injEq, and_true] at h; rw [← h])
                  · simp only [Except.ok.injEq, Prod.mk.injEq, Bool.true_eq_false, and_false] at h

/-- Under the non-nil hypotheses `checkForResumption` NEVER fails, whatever the cache answers — a miss, a state, or
`(nil, true)`. -/
theorem cfr_total (tbl : BitVec 16 → Option cipherSuite) (nn : List (BitVec 16) → Bool) (hs : serverHandshakeState)
    (c : Conn) (cfg : Config) (ch : clientHelloMsg)
    (hc : hs.c = some c) (hcfg : c.config = some cfg) (hch : hs.clientHello = some ch) :
    ∃ r, serverHandshakeState.checkForResumption tbl nn hs = .ok r := by
  rw [cfr_eq tbl nn hs c cfg ch hc hcfg hch]
  unfold cfrSpec
  repeat' first | exact ⟨_, rfl⟩ | split

/-! #### the decision is the model's -/

/-- the decision `checkForResumption` takes once the cache has returned the session `st` -/
def decision (tbl : BitVec 16 → Option cipherSuite) (nn : List (BitVec 16) → Bool) (hs : serverHandshakeState)
    (c : Conn) (cfg : Config) (ch : clientHelloMsg) (st : SessionState) : Bool :=
  !(requiresClientCert cfg.ClientAuth && st.peerCertificates.isEmpty) &&
  !(!st.peerCertificates.isEmpty && cfg.ClientAuth == 0) &&
  c.vers == st.vers && ch.cipherSuites.contains st.cipherSuite &&
  (selectSpec tbl [st.cipherSuite] (Config.cipherSuites nn cfg) (fun s => okFlags (keys hs) s.flags)).isSome

theorem cfr_found (tbl : BitVec 16 → Option cipherSuite) (nn : List (BitVec 16) → Bool) (hs : serverHandshakeState)
    (c : Conn) (cfg : Config) (ch : clientHelloMsg) (cache : goCache) (e : goCacheEntry) (st : SessionState)
    (hc : hs.c = some c) (hcfg : c.config = some cfg) (hch : hs.clientHello = some ch)
    (hcache : cfg.SessionCache = some cache) (hsid : ch.sessionId ≠ [])
    (hf : cache.entries.find? (fun e => e.key == Go.hexEncode ch.sessionId) = some e) (hst : e.state = some st) :
    ∃ hs', serverHandshakeState.checkForResumption tbl nn hs = .ok (hs', decision tbl nn hs c cfg ch st) := by
  rw [cfr_eq tbl nn hs c cfg ch hc hcfg hch]
  unfold cfrSpec decision
  have h0 : ch.sessionId.isEmpty = false := (isEmpty_eq_false_iff _).mpr hsid
  simp only [hcache, h0, Bool.false_eq_true, if_false, hf, hst]
  generalize requiresClientCert cfg.ClientAuth = b1
  generalize st.peerCertificates.isEmpty = b2
  generalize (cfg.ClientAuth == 0) = b3
  have hv : (c.vers != st.vers) = !(c.vers == st.vers) := rfl
  rw [hv]
  generalize (c.vers == st.vers) = b4
  generalize ch.cipherSuites.contains st.cipherSuite = b5
  generalize selectSpec tbl [st.cipherSuite] (Config.cipherSuites nn cfg) (fun s => okFlags (keys hs) s.flags) = o
  cases b1 <;> cases b2 <;> cases b3 <;> cases b4 <;> cases b5 <;> cases o <;> exact ⟨_, rfl⟩

theorem cfr_miss (tbl : BitVec 16 → Option cipherSuite) (nn : List (BitVec 16) → Bool) (hs : serverHandshakeState)
    (c : Conn) (cfg : Config) (ch : clientHelloMsg) (cache : goCache)
    (hc : hs.c = some c) (hcfg : c.config = some cfg) (hch : hs.clientHello = some ch)
    (hcache : cfg.SessionCache = some cache) (hsid : ch.sessionId ≠ [])
    (hf : cache.entries.find? (fun e => e.key == Go.hexEncode ch.sessionId) = none) :
    serverHandshakeState.checkForResumption tbl nn hs = .ok ({ hs with sessionState := none }, false) := by
  rw [cfr_eq tbl nn hs c cfg ch hc hcfg hch]
  unfold cfrSpec
  have h0 : ch.sessionId.isEmpty = false := (isEmpty_eq_false_iff _).mpr hsid
  simp only [hcache, h0, Bool.false_eq_true, if_false, hf]

/-- The decision of the translated `checkForResumption` on a found session IS the model's `serverResumes`
(`Gotlcp.Model.Negotiate`) with both guard flags `true`: the two client-authentication guards, the version guard,
"the client still offers the suite" and "the configuration in use still enables it with usable keys". -/
theorem tie_resumeDecision (p : Params) (hp : TreeParams p) (hr : TreeResume p)
    (tbl : BitVec 16 → Option cipherSuite) (hT : TblAbs cipherSuite.flags p tbl) (nn : List (BitVec 16) → Bool)
    (hs : serverHandshakeState) (c : Conn) (cfg : Config) (ch : clientHelloMsg) (st : SessionState)
    (s : Gotlcp.Negotiate.ServerCfg) (hsu : s.suites = absSuites nn cfg.CipherSuites)
    (hauth : cfg.ClientAuth = ((Model.Negotiate.authVal p s.auth : Nat) : Int))
    (sess : Model.Negotiate.Session) (hvers : sess.vers = st.vers.toNat) (hsuite : sess.suite = st.cipherSuite.toNat)
    (hpeer : sess.serverPeer.length = st.peerCertificates.length) :
    decision tbl nn hs c cfg ch st =
      Model.Negotiate.serverResumes p (keys hs) s c.vers.toNat (ch.cipherSuites.map (·.toNat)) sess := by
  unfold decision Model.Negotiate.serverResumes
  have hsel := tie_selectSpec_isSome cipherSuite.flags p tbl hT (fun x => okFlags (keys hs) x.flags)
    (Model.Negotiate.cipherSuiteOk p (keys hs)) (fun x f hf => by rw [hf]; exact okFlags_model p hp.ecSign hp.ecdhe _ f)
    [st.cipherSuite] (Config.cipherSuites nn cfg)
  rw [hsel, tie_cfgSuites p hp, ← hsu]
  have h0 : Model.Negotiate.authVal p Gotlcp.Negotiate.ClientAuth.noClientCert = 0 := by
    unfold Model.Negotiate.authVal; rw [hr.iota]; rfl
  have hreq : requiresClientCert cfg.ClientAuth = Model.Negotiate.requiresClientCert p s.auth := by
    rw [requiresClientCert_eq, hauth, requires_cast]
    unfold Model.Negotiate.requiresClientCert
    rw [hr.requires]
  have hhas : decide (sess.serverPeer.length ≠ 0) = !st.peerCertificates.isEmpty := by
    rw [hpeer]; cases st.peerCertificates <;> simp
  have hv : (c.vers == st.vers) = (c.vers.toNat == sess.vers) := by
    rw [hvers, Bool.eq_iff_iff]
    simp only [beq_iff_eq]
    exact ⟨fun h => by rw [h], fun h => BitVec.eq_of_toNat_eq h⟩
  have hc : ch.cipherSuites.contains st.cipherSuite = (ch.cipherSuites.map (·.toNat)).contains sess.suite := by
    rw [hsuite]
    exact (Gotlcp.Tie.Negotiate.contains_map_inj (fun v : BitVec 16 => v.toNat)
      Gotlcp.Tie.Negotiate.toNat_injective16 ch.cipherSuites st.cipherSuite).symm
  rw [hreq]
  simp only [hr.policy, hr.suite, Bool.true_and, if_true, hhas, hv, hc, h0, hauth, zero_cast, hsuite,
    List.map_cons, List.map_nil, Bool.not_not]
  generalize (Model.Negotiate.selectCipherSuite p [st.cipherSuite.toNat] (Model.Negotiate.configSuites p s.suites)
    (Model.Negotiate.cipherSuiteOk p (keys hs))).isSome = b6
  cases Model.Negotiate.requiresClientCert p s.auth <;> cases st.peerCertificates.isEmpty <;>
    cases (Model.Negotiate.authVal p s.auth == 0) <;> cases (c.vers.toNat == sess.vers) <;>
    cases ((ch.cipherSuites.map (·.toNat)).contains st.cipherSuite.toNat) <;> cases b6 <;> rfl

/-! #### … and the decision of the C10 model (`Gotlcp.Model.Resumption.checkForResumption`)

The model's server cache is an LRU of object identifiers over a heap; the translated stub is an association list of
states.  They are related through the ONE lookup `checkForResumption` performs (`LookAbs`: same hit / miss for the
offered identifier, and on a hit the model's heap object describes the Go state).  The model has one protocol
version, no suite table and no key types: the hypotheses `hvers` and `husable` say so (every configured suite is in
the table with usable keys).  A `(nil, true)` answer is a refusal on both sides (since the repair of F65 in Go; the
model always treated it as a miss). -/

/-- a server-side session record of the C10 model describes a Go `SessionState` -/
def SessAbs (t : Model.Resumption.Session) (st : SessionState) : Prop :=
  t.vers = st.vers.toNat ∧ t.suite = st.cipherSuite.toNat ∧ t.cpeer.isNone = st.peerCertificates.isEmpty

/-- the cache stub answers the lookup under `key` as the model's LRU answers the lookup of identifier `x` -/
def LookAbs (w : Model.Resumption.World) (srv x : Nat) (cache : goCache) (key : List (BitVec 8)) : Prop :=
  match cache.entries.find? (fun e => e.key == key),
        Model.LRU.findVal (w.servers srv).q (Model.Resumption.idKey x) with
  | none, none => True
  | some e, some none => e.state = none
  | some e, some (some o) => ∃ st, e.state = some st ∧ SessAbs (w.heap o) st
  | _, _ => False

theorem tie_model_checkForResumption (p : Model.Resumption.Params) (hreq : p.requires = [2, 4, 5])
    (w : Model.Resumption.World) (mc : Model.Resumption.Conn) (off : List Nat) (x : Nat)
    (tbl : BitVec 16 → Option cipherSuite) (nn : List (BitVec 16) → Bool) (hs : serverHandshakeState)
    (c : Conn) (cfg : Config) (ch : clientHelloMsg) (cache : goCache)
    (hc : hs.c = some c) (hcfg : c.config = some cfg) (hch : hs.clientHello = some ch)
    (hcache : cfg.SessionCache = some cache) (hsid : ch.sessionId ≠ [])
    (hauth : cfg.ClientAuth = ((mc.auth : Nat) : Int)) (hvers : c.vers.toNat = p.version)
    (hoff : off = ch.cipherSuites.map (·.toNat)) (hss : mc.ssuites = (Config.cipherSuites nn cfg).map (·.toNat))
    (husable : ∀ id, id ∈ Config.cipherSuites nn cfg →
      ∃ s, tbl id = some s ∧ serverHandshakeState.cipherSuiteOk hs s = true)
    (hlook : LookAbs w mc.server x cache (Go.hexEncode ch.sessionId)) :
    ∃ hs', serverHandshakeState.checkForResumption tbl nn hs =
      .ok (hs', (Model.Resumption.checkForResumption p w mc off (some x)).2.isSome) := by
  unfold LookAbs at hlook
  have hk : (Model.Resumption.idKey x == "") = false := by
    simpa using Gotlcp.Lemmas.Resumption.idKey_ne_empty x
  unfold Model.Resumption.checkForResumption Model.LRU.get
  simp only [hk, Bool.false_eq_true, if_false]
  cases hf : cache.entries.find? (fun e => e.key == Go.hexEncode ch.sessionId) with
  | none =>
    rw [hf] at hlook
    cases hv : Model.LRU.findVal (w.servers mc.server).q (Model.Resumption.idKey x) with
    | some v => rw [hv] at hlook; exact hlook.elim
    | none =>
      exact ⟨_, cfr_miss tbl nn hs c cfg ch cache hc hcfg hch hcache hsid hf⟩
  | some e =>
    rw [hf] at hlook
    cases hv : Model.LRU.findVal (w.servers mc.server).q (Model.Resumption.idKey x) with
    | none => rw [hv] at hlook; exact hlook.elim
    | some v =>
      rw [hv] at hlook
      cases v with
      | none =>
        exact ⟨_, cfr_nil_state tbl nn hs c cfg ch hc hcfg hch ⟨cache, e, hcache, hsid, hf, hlook⟩⟩
      | some o =>
        obtain ⟨st, hst, ha1, ha2, ha3⟩ := hlook
        obtain ⟨hs', hres⟩ := cfr_found tbl nn hs c cfg ch cache e st hc hcfg hch hcache hsid hf hst
        refine ⟨hs', ?_⟩
        rw [hres]
        congr 2
        unfold decision
        simp only
        have hsel : (selectSpec tbl [st.cipherSuite] (Config.cipherSuites nn cfg) (fun s => okFlags (keys hs) s.flags)).isSome =
            mc.ssuites.contains (w.heap o).suite := by
          rw [hss, ha2, Gotlcp.Tie.Negotiate.contains_map_inj (fun v : BitVec 16 => v.toNat)
            Gotlcp.Tie.Negotiate.toNat_injective16]
          cases hm : (Config.cipherSuites nn cfg).contains st.cipherSuite with
          | true =>
            obtain ⟨s, h1, h2⟩ := husable _ (by simpa using hm)
            rw [(selectSpec_singleton _ _ _ _ s).mpr ⟨h1, by rw [← cipherSuiteOk_eq]; exact h2, by simpa using hm⟩]
            rfl
          | false =>
            cases hsp : selectSpec tbl [st.cipherSuite] (Config.cipherSuites nn cfg) (fun s => okFlags (keys hs) s.flags) with
            | none => rfl
            | some s =>
              have := ((selectSpec_singleton _ _ _ _ s).mp hsp).2.2
              have : (Config.cipherSuites nn cfg).contains st.cipherSuite = true := by simpa using this
              rw [hm] at this; cases this
        have hr : requiresClientCert cfg.ClientAuth = Model.Resumption.requiresCert p mc.auth := by
          rw [requiresClientCert_eq, hauth, requires_cast]
          unfold Model.Resumption.requiresCert
          rw [hreq]
        have hv' : (c.vers == st.vers) = ((w.heap o).vers == p.version) := by
          rw [ha1, ← hvers, Bool.eq_iff_iff]
          simp only [beq_iff_eq]
          exact ⟨fun h => by rw [h], fun h => (BitVec.eq_of_toNat_eq h).symm⟩
        have hc' : ch.cipherSuites.contains st.cipherSuite = off.contains (w.heap o).suite := by
          rw [hoff, ha2]
          exact (Gotlcp.Tie.Negotiate.contains_map_inj (fun v : BitVec 16 => v.toNat)
            Gotlcp.Tie.Negotiate.toNat_injective16 ch.cipherSuites st.cipherSuite).symm
        have hsome : (w.heap o).cpeer.isSome = !st.peerCertificates.isEmpty := by
          rw [← ha3]; cases (w.heap o).cpeer <;> rfl
        rw [hsel, hr, hv', hc', hauth, zero_cast, ← ha3]
        simp only [hsome, ← ha3]
        generalize Model.Resumption.requiresCert p mc.auth = b1
        generalize (w.heap o).cpeer.isNone = b2
        generalize (mc.auth == 0) = b3
        generalize ((w.heap o).vers == p.version) = b4
        generalize off.contains (w.heap o).suite = b5
        generalize mc.ssuites.contains (w.heap o).suite = b6
        cases b1 <;> cases b2 <;> cases b3 <;> cases b4 <;> cases b5 <;> cases b6 <;> rfl

/-! #### the client: `serverResumedSession`, `processServerHello` -/

/-- `serverResumedSession`: a session is held, a (non-nil) id was sent, the server echoed a non-empty identical id -/
def echoed (nb : List (BitVec 8) → Bool) (h : clientHelloMsg) (sh : serverHelloMsg) : Bool :=
  nb h.sessionId && !sh.sessionId.isEmpty && sh.sessionId == h.sessionId

/-- `serverResumedSession`, for non-nil `hs.hello`, `hs.serverHello` -/
theorem resumed_eq (nb : List (BitVec 8) → Bool) (hs : clientHandshakeState) (h : clientHelloMsg) (sh : serverHelloMsg)
    (hh : hs.hello = some h) (hsh : hs.serverHello = some sh) :
    clientHandshakeState.serverResumedSession nb hs = .ok (hs.session.isSome && echoed nb h sh) := by
  unfold clientHandshakeState.serverResumedSession echoed
  simp only [bind, pure, Except.pure, hh, hsh, deref_some, bind_ok, len_pos]
  cases hs.session.isSome <;> cases nb h.sessionId <;> cases sh.sessionId.isEmpty <;> cases (sh.sessionId == h.sessionId) <;> rfl

/-- What the translated `processServerHello` computes, as a decision tree. -/
def pshSpec (tbl : BitVec 16 → Option cipherSuite) (nb : List (BitVec 8) → Bool) (hs : clientHandshakeState)
    (c : Conn) (h : clientHelloMsg) (sh : serverHelloMsg) : clientHandshakeState × Bool × Option Go.Error :=
  match mutualSpec tbl h.cipherSuites sh.cipherSuite with
  | none => ({ hs with suite := none, c := some (alerted c 40#8) }, false, some Go.Error.other)
  | some s =>
    let c1 : Conn := { c with cipherSuite := s.id }
    if (sh.compressionMethod != 0#8) = true then
      ({ hs with suite := some s, c := some (alerted c1 10#8) }, false, some Go.Error.other)
    else
      match checkPick h.alpnProtocols sh.alpnProtocol with
      | some e => ({ hs with suite := some s, c := some (alerted c1 110#8) }, false, some e)
      | none =>
        let c2 : Conn := { c1 with clientProtocol := sh.alpnProtocol }
        match hs.session with
        | none => ({ hs with suite := some s, c := some c2 }, false, none)
        | some sess =>
          if echoed nb h sh = false then ({ hs with suite := some s, c := some c2 }, false, none)
          else if (sess.vers != c.vers) = true then
            ({ hs with suite := some s, c := some (alerted c2 40#8) }, false, some Go.Error.other)
          else if (sess.cipherSuite != s.id) = true then
            ({ hs with suite := some s, c := some (alerted c2 40#8) }, false, some Go.Error.other)
          else if sess.masterSecret.isEmpty = true then
            ({ hs with suite := some s, c := some (alerted c2 80#8) }, false, some Go.Error.other)
          else
            ({ hs with suite := some s, masterSecret := sess.masterSecret,
                       c := some { c2 with peerCertificates := sess.peerCertificates } }, true, none)

/-- The translated `processServerHello` IS `pshSpec`, for every state with non-nil `hs.c`, `hs.hello`,
`hs.serverHello`; it never fails there -/
theorem psh_eq (tbl : BitVec 16 → Option cipherSuite) (nb : List (BitVec 8) → Bool) (hs : clientHandshakeState)
    (c : Conn) (h : clientHelloMsg) (sh : serverHelloMsg)
    (hc : hs.c = some c) (hh : hs.hello = some h) (hsh : hs.serverHello = some sh) :
    clientHandshakeState.processServerHello tbl nb hs = .ok (pshSpec tbl nb hs c h sh) := by
  unfold clientHandshakeState.processServerHello pshSpec
  simp only [bind, pure, Except.pure, clientPick_eq tbl hs c h sh hc hh hsh, bind_ok]
  cases hm : mutualSpec tbl h.cipherSuites sh.cipherSuite with
  | none => simp only [Option.isSome_some, if_true]
  | some s =>
    simp only [Option.isSome_none, Bool.false_eq_true, if_false, deref_some, bind_ok, hh, hsh, checkALPN_eq]
    rw [resumed_eq nb _ h sh rfl rfl]
    simp only [bind_ok, Conn.sendAlert, Id.run, pure, bind, alerted]
    cases hsess : hs.session with
    | none =>
      simp only [Option.isSome_none, Bool.false_and, Bool.not_false, if_true]
      generalize (sh.compressionMethod != 0#8) = b1
      generalize checkPick h.alpnProtocols sh.alpnProtocol = o
      cases b1 <;> cases o <;> rfl
    | some sess =>
      simp only [Option.isSome_some, Bool.true_and, deref_some, bind_ok, len_pos, make_eq, copy_eq]
      generalize (sh.compressionMethod != 0#8) = b1
      generalize checkPick h.alpnProtocols sh.alpnProtocol = o
      generalize echoed nb h sh = b2
      generalize (sess.vers != c.vers) = b3
      generalize (sess.cipherSuite != s.id) = b4
      generalize sess.masterSecret.isEmpty = b5
      cases b1 <;> cases o <;> cases b2 <;> cases b3 <;> cases b4 <;> cases b5 <;> rfl

theorem psh_nil (tbl : BitVec 16 → Option cipherSuite) (nb : List (BitVec 8) → Bool) (hs : clientHandshakeState)
    (h : ¬ ClientNonNil hs) : clientHandshakeState.processServerHello tbl nb hs = .error nilDeref := by
  unfold clientHandshakeState.processServerHello
  simp only [bind, pure, Except.pure, clientPick_nil tbl hs h, bind_error]

/-- `processServerHello` up to the resumption question: the suite is refused (alert 40), or the compression method
(alert 10), or the ALPN protocol (alert 110); otherwise `c.cipherSuite` and `c.clientProtocol` are set -/
def accepted (tbl : BitVec 16 → Option cipherSuite) (h : clientHelloMsg) (sh : serverHelloMsg) (s : cipherSuite) : Prop :=
  mutualSpec tbl h.cipherSuites sh.cipherSuite = some s ∧ sh.compressionMethod = 0#8 ∧
  checkPick h.alpnProtocols sh.alpnProtocol = none

/-- the connection after the ServerHello's suite and protocol were accepted -/
def negotiated (c : Conn) (sh : serverHelloMsg) (s : cipherSuite) : Conn :=
  { c with cipherSuite := s.id, clientProtocol := sh.alpnProtocol }

/-- not a resumption: no session held, or no (non-nil) id sent, or the echo is empty or different -/
theorem psh_not_resumed (tbl : BitVec 16 → Option cipherSuite) (nb : List (BitVec 8) → Bool) (hs : clientHandshakeState)
    (c : Conn) (h : clientHelloMsg) (sh : serverHelloMsg) (s : cipherSuite) (ha : accepted tbl h sh s)
    (hn : (hs.session.isSome && echoed nb h sh) = false) :
    pshSpec tbl nb hs c h sh = ({ hs with suite := some s, c := some (negotiated c sh s) }, false, none) := by
  obtain ⟨h1, h2, h3⟩ := ha
  unfold pshSpec negotiated
  have h2' : (sh.compressionMethod != 0#8) = false := by simp [h2]
  simp only [h1, h2', h3, Bool.false_eq_true, if_false]
  cases hsess : hs.session with
  | none => rfl
  | some sess =>
    rw [hsess] at hn
    simp only [Option.isSome_some, Bool.true_and] at hn
    simp only [hn, if_true]

/-- a resumption (a session is held and its id came back): refused with handshake_failure (40) when the session's
version or suite is not the negotiated one, with internal_error (80) when it has no master secret; accepted
otherwise, and then `hs.masterSecret` is (a copy of) the session's and `c.peerCertificates` the session's -/
theorem psh_resumed (tbl : BitVec 16 → Option cipherSuite) (nb : List (BitVec 8) → Bool) (hs : clientHandshakeState)
    (c : Conn) (h : clientHelloMsg) (sh : serverHelloMsg) (s : cipherSuite) (sess : SessionState)
    (ha : accepted tbl h sh s) (hsess : hs.session = some sess) (he : echoed nb h sh = true) :
    pshSpec tbl nb hs c h sh =
      if (sess.vers != c.vers || sess.cipherSuite != s.id) = true then
        ({ hs with suite := some s, c := some (alerted (negotiated c sh s) 40#8) }, false, some Go.Error.other)
      else if sess.masterSecret.isEmpty = true then
        ({ hs with suite := some s, c := some (alerted (negotiated c sh s) 80#8) }, false, some Go.Error.other)
      else
        ({ hs with suite := some s, masterSecret := sess.masterSecret,
                   c := some { negotiated c sh s with peerCertificates := sess.peerCertificates } }, true, none) := by
  obtain ⟨h1, h2, h3⟩ := ha
  unfold pshSpec negotiated
  have h2' : (sh.compressionMethod != 0#8) = false := by simp [h2]
  simp only [h1, h2', h3, Bool.false_eq_true, if_false, hsess, he, Bool.true_eq_false]
  generalize (sess.vers != c.vers) = b1
  generalize (sess.cipherSuite != s.id) = b2
  generalize sess.masterSecret.isEmpty = b3
  cases b1 <;> cases b2 <;> cases b3 <;> rfl

/-- `processServerHello` reports "resumed" EXACTLY when the suite, compression method and protocol are accepted, a
session is held, a non-nil id was sent and echoed non-empty and identical, and the session has the negotiated
version, the negotiated suite and a master secret. -/
theorem psh_true_iff (tbl : BitVec 16 → Option cipherSuite) (nb : List (BitVec 8) → Bool) (hs : clientHandshakeState)
    (c : Conn) (h : clientHelloMsg) (sh : serverHelloMsg) :
    (pshSpec tbl nb hs c h sh).2.1 = true ↔
      ∃ s sess, accepted tbl h sh s ∧ hs.session = some sess ∧ echoed nb h sh = true ∧
        sess.vers = c.vers ∧ sess.cipherSuite = s.id ∧ sess.masterSecret ≠ [] := by
  constructor
  · intro hr
    cases hm : mutualSpec tbl h.cipherSuites sh.cipherSuite with
    | none => unfold pshSpec at hr; rw [hm] at hr; cases hr
    | some s =>
      by_cases hcomp : sh.compressionMethod = 0#8
      · cases hal : checkPick h.alpnProtocols sh.alpnProtocol with
        | some e =>
          unfold pshSpec at hr
          have h2' : (sh.compressionMethod != 0#8) = false := by simp [hcomp]
          simp only [hm, h2', hal, Bool.false_eq_true, if_false] at hr
        | none =>
          have ha : accepted tbl h sh s := ⟨hm, hcomp, hal⟩
          cases hn : (hs.session.isSome && echoed nb h sh) with
          | false => rw [psh_not_resumed tbl nb hs c h sh s ha hn] at hr; cases hr
          | true =>
            simp only [Bool.and_eq_true, Option.isSome_iff_exists] at hn
            obtain ⟨⟨sess, hsess⟩, he⟩ := hn
            rw [psh_resumed tbl nb hs c h sh s sess ha hsess he] at hr
            split at hr
            · cases hr
            · rename_i g1
              split at hr
              · cases hr
              · rename_i g2
                simp only [Bool.or_eq_true, bne_iff_ne, ne_eq, not_or, Decidable.not_not] at g1
                exact ⟨s, sess, ha, hsess, he, g1.1, g1.2, (isEmpty_eq_false_iff _).mp (by simpa using g2)⟩
      · unfold pshSpec at hr
        have h2' : (sh.compressionMethod != 0#8) = true := by simp [hcomp]
        simp only [hm, h2', if_true] at hr
        cases hr
  · rintro ⟨s, sess, ha, hsess, he, hv, hsu, hms⟩
    rw [psh_resumed tbl nb hs c h sh s sess ha hsess he]
    have g1 : (sess.vers != c.vers || sess.cipherSuite != s.id) = false := by simp [hv, hsu]
    have g2 : sess.masterSecret.isEmpty = false := (isEmpty_eq_false_iff _).mpr hms
    simp only [g1, g2, Bool.false_eq_true, if_false]

end Gotlcp.Tie.ResumeDecision.dtlcp

/-
The specification of `clientHelloMsg.unmarshal` (Gotlcp.Tie.CodecCH: `chSpecT`, `chSpecD`, built from
`sniStep`, `taStep`, `alpnStep`, `extCaseS`, `extStepS`, `bodyS` on `List (BitVec 8)`) IS the C14 codec model
(`Gotlcp.Model.Codec.unmarshalClientHello codesT`, `Gotlcp.Model.CodecDtlcp.decClientHello codesD`, built from
`sniStep`, `taStep`, `alpnStep`, `clientExtCase`, `clientExtStep`, `decClientHelloBody` on `List UInt8`), extension
by extension, for every byte string.  Pure functional reasoning; the translated text does not occur here.
-/
import Gotlcp.Tie.CodecCH
import Gotlcp.Tie.CodecSmallDtlcp
import Gotlcp.Model.CodecParams

set_option linter.unusedSimpArgs false
set_option linter.unusedVariables false

namespace Gotlcp.Tie.CodecCHModel
open Gotlcp Gotlcp.Wire Gotlcp.Wire.Msg
open Gotlcp.Model.Codec (Codes codesT codesD clientExtCase clientExtStep decClientHelloBody listMode lastDot)
open Gotlcp.Tie.CbString
open Gotlcp.Tie.CodecCH
open Gotlcp.Tie.UnmarshalTlcpCodec (abs abs_nil abs_cons abs_length abs_drop abs_take abs_append)
open Gotlcp.Tie.CodecSmall (lp8_model lp16_model isEmpty_abs)

/-! ## abstraction: bytes, 16-bit codes, the decoded fields -/

/-- a 16-bit code of the translation as the model carries it (its two bytes) -/
def w16 (x : BitVec 16) : W16 := W16.ofNat x.toNat

theorem w16_bv16 (a b : BitVec 8) : w16 (bv16 a b) = (UInt8.ofBitVec a, UInt8.ofBitVec b) :=
  Gotlcp.Tie.UnmarshalDtlcpCodec.w16_u16 a b

theorem bv16_toNat (a b : BitVec 8) : (bv16 a b).toNat = nat16 (UInt8.ofBitVec a) (UInt8.ofBitVec b) :=
  Gotlcp.Tie.UnmarshalTlcpCodec.bv16_toNat a b

def absTA (t : BitVec 8 × BV) : TA := ⟨UInt8.ofBitVec t.1, abs t.2⟩

/-- the decoded fields as the model's record (`raw` and the dtlcp header fields are not part of it) -/
def absCH (v : CHv) : ClientHello :=
  { vers := w16 v.vers, random := abs v.random, sessionId := abs v.sessionId, cookie := abs v.cookie,
    suites := v.suites.map w16, compression := abs v.compression, serverName := abs v.serverName,
    tas := v.tas.map absTA, ocsp := v.ocsp, curves := v.curves.map w16, sigAlgs := v.sigAlgs.map w16,
    alpn := v.alpn.map abs, clientId := abs v.clientId }

/-! ## the readers -/

theorem readU8_abs (s : BV) : readU8 (abs s) = (rdU8 s).map (fun p => (UInt8.ofBitVec p.1, abs p.2)) := by
  cases s <;> rfl

theorem readW16_abs (s : BV) : readW16 (abs s) = (rdU16 s).map (fun p => (w16 p.1, abs p.2)) := by
  match s with
  | [] => rfl
  | [_] => rfl
  | a :: b :: r => simp only [abs_cons, readW16, rdU16, Option.map_some, w16_bv16]

theorem readU16_abs (s : BV) : readU16 (abs s) = (rdU16 s).map (fun p => (p.1.toNat, abs p.2)) := by
  match s with
  | [] => rfl
  | [_] => rfl
  | a :: b :: r => simp only [abs_cons, readU16, rdU16, Option.map_some, bv16_toNat]

theorem readBytes_abs (n : Nat) (s : BV) :
    readBytes n (abs s) = (rdBytes n s).map (fun p => (abs p.1, abs p.2)) := by
  unfold readBytes rdBytes
  by_cases h : n ≤ s.length
  · simp only [abs_length, h, if_true, Option.map_some, abs_take, abs_drop]
  · simp only [abs_length, h, if_false, Option.map_none]

theorem readVec8_abs (s : BV) : readVec8 (abs s) = (rdVec 1 s).map (fun p => (abs p.1, abs p.2)) := by
  rw [lp8_model s []]
  unfold rdVec
  cases (lpSpec s [] 1).2.2 <;> rfl

theorem readVec16_abs (s : BV) : readVec16 (abs s) = (rdVec 2 s).map (fun p => (abs p.1, abs p.2)) := by
  rw [lp16_model s []]
  unfold rdVec
  cases (lpSpec s [] 2).2.2 <;> rfl

theorem abs_isEmpty (s : BV) : (abs s).isEmpty = s.isEmpty := by cases s <;> rfl

theorem abs_eq_nil (s : BV) : abs s = [] ↔ s = [] := by cases s <;> simp

/-! ## loops -/

/-- the model's `for !s.Empty()` loop against the specification's: same steps, so the same result; the
fuel of either side only has to cover the bytes -/
theorem foldMany_loopS {σ V : Type} (ms : σ → Bytes → Option (σ × Bytes)) (ss : V → BV → Option (V × BV))
    (α : V → σ) (B : Nat)
    (hstep : ∀ v a s, (a :: s).length ≤ B →
      ms (α v) (abs (a :: s)) = (ss v (a :: s)).map (fun p => (α p.1, abs p.2)))
    (hdec : ∀ v s v' s', ss v s = some (v', s') → s'.length < s.length) :
    ∀ (f1 f2 : Nat) (v : V) (s : BV), s.length ≤ B → s.length < f1 → s.length ≤ f2 →
      foldMany ms f2 (α v) (abs s) = (loopS ss f1 v s).map α := by
  intro f1
  induction f1 with
  | zero => intro f2 v s _ h; omega
  | succ f1 ih =>
    intro f2 v s hB h1 h2
    cases s with
    | nil => cases f2 <;> rfl
    | cons a s =>
      cases f2 with
      | zero => simp at h2
      | succ f2 =>
        simp only [abs_cons, foldMany, loopS]
        have hs := hstep v a s hB
        simp only [abs_cons] at hs
        rw [hs]
        cases hst : ss v (a :: s) with
        | none => rfl
        | some p =>
          obtain ⟨v', s'⟩ := p
          have hd := hdec _ _ _ _ hst
          simp only [List.length_cons] at hd h1 h2 hB
          simp only [Option.map_some]
          exact ih f2 v' s' (by omega) (by omega) (by omega)

/-- a step of the form "read a 16-bit code, append it to one list" -/
def u16Step (app : CHv → BitVec 16 → CHv) (v : CHv) (s : BV) : Option (CHv × BV) :=
  match rdU16 s with
  | none => none
  | some (x, r) => some (app v x, r)

def appSuite (v : CHv) (x : BitVec 16) : CHv := { v with suites := v.suites ++ [x] }
def appCurve (v : CHv) (x : BitVec 16) : CHv := { v with curves := v.curves ++ [x] }
def appSigAlg (v : CHv) (x : BitVec 16) : CHv := { v with sigAlgs := v.sigAlgs ++ [x] }
theorem suiteStep_eq : suiteStep = u16Step appSuite := rfl
theorem curveStep_eq : curveStep = u16Step appCurve := rfl
theorem sigAlgStep_eq : sigAlgStep = u16Step appSigAlg := rfl

/-- the model's `many readW16` against such a loop: `appM` appends the decoded list -/
theorem many_loopS (app : CHv → BitVec 16 → CHv) (appM : ClientHello → List W16 → ClientHello)
    (h1 : ∀ v x, absCH (app v x) = appM (absCH v) [w16 x])
    (h2 : ∀ m l1 l2, appM (appM m l1) l2 = appM m (l1 ++ l2))
    (h3 : ∀ m, appM m [] = m) :
    ∀ (f1 f2 : Nat) (v : CHv) (s : BV), s.length < f1 → s.length ≤ f2 →
      (loopS (u16Step app) f1 v s).map absCH = (many readW16 f2 (abs s)).map (appM (absCH v)) := by
  intro f1
  induction f1 with
  | zero => intro f2 v s h; omega
  | succ f1 ih =>
    intro f2 v s hf1 hf2
    cases s with
    | nil => cases f2 <;> simp [loopS, many, h3]
    | cons a s =>
      cases f2 with
      | zero => simp at hf2
      | succ f2 =>
        simp only [loopS, abs_cons, many]
        have hr := readW16_abs (a :: s)
        simp only [abs_cons] at hr
        rw [hr]
        cases hst : rdU16 (a :: s) with
        | none =>
          have hu : u16Step app v (a :: s) = none := by simp only [u16Step, hst]
          rw [hu]; rfl
        | some p =>
          obtain ⟨x, r⟩ := p
          have hu : u16Step app v (a :: s) = some (app v x, r) := by simp only [u16Step, hst]
          rw [hu]
          have hl := rdU16_len hst
          simp only [List.length_cons] at hl hf1 hf2
          simp only [Option.map_some]
          rw [ih f2 (app v x) r (by omega) (by omega), h1]
          cases many readW16 f2 (abs r) with
          | none => rfl
          | some l => simp only [Option.map_some, h2, List.singleton_append]


/-! ## every step shortens its String -/

theorem u16Step_dec (app : CHv → BitVec 16 → CHv) (v : CHv) (s : BV) (v' : CHv) (s' : BV)
    (h : u16Step app v s = some (v', s')) : s'.length < s.length := by
  unfold u16Step at h
  cases hr : rdU16 s with
  | none => simp [hr] at h
  | some p =>
    obtain ⟨x, r⟩ := p
    simp only [hr] at h
    simp only [Option.some.injEq, Prod.mk.injEq] at h
    have := rdU16_len hr
    rw [← h.2]; omega

theorem sniStep_dec (v : CHv) (s : BV) (v' : CHv) (s' : BV) (h : CodecCH.sniStep v s = some (v', s')) :
    s'.length < s.length := by
  unfold CodecCH.sniStep at h
  cases h1 : rdU8 s with
  | none => simp [h1] at h
  | some p =>
    obtain ⟨t, s1⟩ := p
    simp only [h1] at h
    cases h2 : rdVec 2 s1 with
    | none => simp [h2] at h
    | some q =>
      obtain ⟨name, s2⟩ := q
      simp only [h2] at h
      have l1 := rdU8_len h1
      have l2 := rdVec_len h2
      have : s' = s2 := by
        split at h
        · cases h
        · split at h
          · simp only [Option.some.injEq, Prod.mk.injEq] at h; exact h.2.symm
          · split at h
            · simp only [Option.some.injEq, Prod.mk.injEq] at h; exact h.2.symm
            · split at h
              · cases h
              · simp only [Option.some.injEq, Prod.mk.injEq] at h; exact h.2.symm
      rw [this]; omega

theorem taStep_dec (v : CHv) (s : BV) (v' : CHv) (s' : BV) (h : CodecCH.taStep v s = some (v', s')) :
    s'.length < s.length := by
  unfold CodecCH.taStep at h
  cases h1 : rdU8 s with
  | none => simp [h1] at h
  | some p =>
    obtain ⟨t, s1⟩ := p
    simp only [h1] at h
    have l1 := rdU8_len h1
    split at h
    · simp only [Option.some.injEq, Prod.mk.injEq] at h; rw [← h.2]; omega
    · split at h
      · cases h2 : rdBytes 32 s1 with
        | none => simp [h2] at h
        | some q =>
          obtain ⟨id, s2⟩ := q
          simp only [h2] at h
          simp only [Option.some.injEq, Prod.mk.injEq] at h
          have := (rdBytes_len h2).1
          rw [← h.2]; omega
      · split at h
        · cases h2 : rdVec 2 s1 with
          | none => simp [h2] at h
          | some q =>
            obtain ⟨id, s2⟩ := q
            simp only [h2] at h
            simp only [Option.some.injEq, Prod.mk.injEq] at h
            have := rdVec_len h2
            rw [← h.2]; omega
        · simp only [Option.some.injEq, Prod.mk.injEq] at h; rw [← h.2]; omega

theorem alpnStep_dec (v : CHv) (s : BV) (v' : CHv) (s' : BV) (h : CodecCH.alpnStep v s = some (v', s')) :
    s'.length < s.length := by
  unfold CodecCH.alpnStep at h
  cases h1 : rdVec 1 s with
  | none => simp [h1] at h
  | some p =>
    obtain ⟨pr, s1⟩ := p
    simp only [h1] at h
    have l1 := rdVec_len h1
    split at h
    · cases h
    · simp only [Option.some.injEq, Prod.mk.injEq] at h; rw [← h.2]; omega

theorem extStepS_dec (reset : Bool) (n : Nat) (v : CHv) (s : BV) (v' : CHv) (s' : BV)
    (h : extStepS reset n v s = some (v', s')) : s'.length < s.length := by
  unfold extStepS at h
  cases h1 : rdU16 s with
  | none => simp [h1] at h
  | some p =>
    obtain ⟨ty, s1⟩ := p
    simp only [h1] at h
    cases h2 : rdVec 2 s1 with
    | none => simp [h2] at h
    | some q =>
      obtain ⟨d, s2⟩ := q
      simp only [h2] at h
      have l1 := rdU16_len h1
      have l2 := rdVec_len h2
      cases h3 : extCaseS reset n v ty d with
      | none => simp [h3] at h
      | some w =>
        obtain ⟨v'', d', cont⟩ := w
        simp only [h3] at h
        split at h
        · simp only [Option.some.injEq, Prod.mk.injEq] at h; rw [← h.2]; omega
        · cases h


/-! ## the constants of the model against the literals of the translated text -/

/-- the codes the model is instantiated with are the literals the specification (= the translated text)
compares with; `reset` = the curve / signature-algorithm lists are re-made in front of their loops -/
structure CodesOK (c : Codes) (reset : Bool) : Prop where
  sni : c.extServerName = 0
  tca : c.extTrustedCAKeys = 3
  sr : c.extStatusRequest = 5
  cur : c.extSupportedCurves = 10
  sig : c.extSignatureAlgorithms = 13
  alpn : c.extALPN = 16
  cid : c.extClientID = 66
  pre : c.taPreAgreed = 0
  x509 : c.taX509Name = 2
  kh : c.taKeyHash = 4
  ch : c.taCertHash = 5
  rl : c.randomLen = 32
  hl : c.hashLen = 32
  cm : c.curvesMode = if reset then 1 else 0
  sm : c.sigAlgsMode = if reset then 1 else 0

theorem codesT_ok : CodesOK codesT false := by constructor <;> rfl
theorem codesD_ok : CodesOK codesD true := by constructor <;> rfl

theorem u8_ne_zero (t : BitVec 8) : (UInt8.ofBitVec t ≠ 0) ↔ (t != 0#8) = true := by
  rw [bne_iff_ne]
  constructor
  · intro h e; exact h (by rw [e]; rfl)
  · intro h e; exact h (by have := congrArg UInt8.toBitVec e; simpa using this)

theorem u8_beq_one (t : BitVec 8) : (UInt8.ofBitVec t == 1) = (t == 1#8) := by
  rw [Bool.eq_iff_iff, beq_iff_eq, beq_iff_eq]
  constructor
  · intro h; have := congrArg UInt8.toBitVec h; simpa using this
  · intro h; rw [h]; rfl

theorem u8_toNat_eq (t : BitVec 8) (k : Nat) (hk : k < 256) :
    (t.toNat = k) ↔ (t == BitVec.ofNat 8 k) = true := by
  rw [beq_iff_eq]
  constructor
  · intro h; apply BitVec.eq_of_toNat_eq; rw [h, BitVec.toNat_ofNat]; omega
  · intro h; rw [h, BitVec.toNat_ofNat]; omega

theorem bv16_toNat_eq (x : BitVec 16) (k : Nat) (hk : k < 65536) :
    (x.toNat = k) ↔ (x == BitVec.ofNat 16 k) = true := by
  rw [beq_iff_eq]
  constructor
  · intro h; apply BitVec.eq_of_toNat_eq; rw [h, BitVec.toNat_ofNat]; omega
  · intro h; rw [h, BitVec.toNat_ofNat]; omega

theorem lastDot_abs (name : BV) : lastDot (abs name) = Go.hasSuffix name [46#8] := by
  unfold lastDot Go.hasSuffix
  rw [Bool.eq_iff_iff, List.isSuffixOf_iff_suffix]
  cases hg : (abs name).getLast? with
  | none =>
    have : abs name = [] := List.getLast?_eq_none_iff.mp hg
    have : name = [] := (abs_eq_nil name).mp this
    subst this
    simp
  | some b =>
    obtain ⟨ys, hys⟩ := List.getLast?_eq_some_iff.mp hg
    simp only [beq_iff_eq]
    constructor
    · intro hb
      subst hb
      refine ⟨name.take ys.length, ?_⟩
      have hd : abs (name.drop ys.length) = [46] := by
        rw [abs_drop, hys]; simp
      have hd' : name.drop ys.length = [46#8] := by
        match hn : name.drop ys.length, hd with
        | [x], hd =>
          simp only [abs_cons, abs_nil, List.cons.injEq, and_true] at hd
          have := congrArg UInt8.toBitVec hd
          simp only [UInt8.toBitVec_ofBitVec] at this
          rw [this]; rfl
      rw [← hd', List.take_append_drop]
    · rintro ⟨t, ht⟩
      have : abs name = abs t ++ [46] := by rw [← ht, abs_append]; rfl
      rw [this] at hys
      have := List.append_inj_right' hys (by simp)
      simpa using this.symm


/-! ## the loop bodies, one lemma per loop -/

/-- how a step result is abstracted -/
abbrev absP (p : CHv × BV) : ClientHello × Bytes := (absCH p.1, abs p.2)

theorem absCH_serverName (v : CHv) : (absCH v).serverName = abs v.serverName := rfl
theorem absCH_tas (v : CHv) : (absCH v).tas = v.tas.map absTA := rfl

/-- server_name list entry -/
theorem sniStep_model (v : CHv) (s : BV) :
    Model.Codec.sniStep (absCH v) (abs s) = (CodecCH.sniStep v s).map absP := by
  unfold Model.Codec.sniStep CodecCH.sniStep
  rw [readU8_abs]
  rcases h1 : rdU8 s with _ | ⟨t, s1⟩
  · rfl
  simp only [Option.map_some]
  rw [readVec16_abs]
  rcases h2 : rdVec 2 s1 with _ | ⟨name, s2⟩
  · rfl
  simp only [Option.map_some, isEmpty_abs, absCH_serverName, abs_length, lastDot_abs]
  cases hn : name.isEmpty
  rotate_left
  · simp
  cases ht : t != 0#8
  rotate_left
  · have := (u8_ne_zero t).mpr ht
    simp [this, absP]
  have ht' : ¬ (UInt8.ofBitVec t ≠ 0) := fun h => by rw [(u8_ne_zero t).mp h] at ht; cases ht
  cases hs : v.serverName.isEmpty
  · have : v.serverName.length ≠ 0 := by
      intro h; rw [List.length_eq_zero_iff] at h; rw [h] at hs; cases hs
    simp [ht', this, absP]
  have : ¬ v.serverName.length ≠ 0 := by
    rw [List.isEmpty_iff] at hs; rw [hs]; simp
  cases hd : Go.hasSuffix name [46#8]
  · simp [ht', this, absP, absCH]
  · simp [ht', this]

/-- trusted authority -/
theorem taStep_model (c : Codes) (reset : Bool) (hc : CodesOK c reset) (v : CHv) (s : BV) :
    Model.Codec.taStep c (absCH v) (abs s) = (CodecCH.taStep v s).map absP := by
  unfold Model.Codec.taStep CodecCH.taStep
  rw [readU8_abs]
  rcases h1 : rdU8 s with _ | ⟨t, s1⟩
  · rfl
  simp only [Option.map_some, hc.pre, hc.kh, hc.ch, hc.x509, hc.hl, UInt8.toNat_ofBitVec]
  have e0 := u8_toNat_eq t 0 (by omega)
  have e4 := u8_toNat_eq t 4 (by omega)
  have e5 := u8_toNat_eq t 5 (by omega)
  have e2 := u8_toNat_eq t 2 (by omega)
  cases h0 : t == 0#8
  rotate_left
  · have := e0.mpr h0
    simp [this, absP, absCH, absTA]
  have n0 : ¬ t.toNat = 0 := fun h => by rw [e0.mp h] at h0; cases h0
  cases h45 : (t == 4#8 || t == 5#8)
  rotate_left
  · have : t.toNat = 4 ∨ t.toNat = 5 := by
      rw [Bool.or_eq_true] at h45
      rcases h45 with h | h
      · exact Or.inl (e4.mpr h)
      · exact Or.inr (e5.mpr h)
    simp only [n0, if_false, this, if_true, readBytes_abs]
    rcases h2 : rdBytes 32 s1 with _ | ⟨id, s2⟩
    · rfl
    · simp [absP, absCH, absTA]
  have n45 : ¬ (t.toNat = 4 ∨ t.toNat = 5) := by
    rw [Bool.or_eq_false_iff] at h45
    rintro (h | h)
    · rw [e4.mp h] at h45; cases h45.1
    · rw [e5.mp h] at h45; cases h45.2
  cases h2' : t == 2#8
  · have n2 : ¬ t.toNat = 2 := fun h => by rw [e2.mp h] at h2'; cases h2'
    simp [n0, n45, n2, absP]
  · have := e2.mpr h2'
    simp only [n0, n45, if_false, this, if_true, readVec16_abs]
    rcases h2 : rdVec 2 s1 with _ | ⟨id, s2⟩
    · rfl
    · simp [absP, absCH, absTA]

/-- ALPN protocol name -/
theorem alpnStep_model (v : CHv) (s : BV) :
    Model.Codec.alpnStep (absCH v) (abs s) = (CodecCH.alpnStep v s).map absP := by
  unfold Model.Codec.alpnStep CodecCH.alpnStep
  rw [readVec8_abs]
  rcases h1 : rdVec 1 s with _ | ⟨pr, s1⟩
  · rfl
  simp only [Option.map_some, isEmpty_abs]
  cases hp : pr.isEmpty
  · simp [absP, absCH]
  · simp


/-! ## the extension switch, one case per extension -/

/-- how the result of the extension switch is abstracted -/
abbrev absQ (p : CHv × BV × Bool) : ClientHello × Bytes × Bool := (absCH p.1, abs p.2.1, p.2.2)

/-- a loop-carrying extension (server_name, trusted_ca_keys, ALPN): vector, non-empty, item loop -/
theorem vecLoop_model (ms : ClientHello → Bytes → Option (ClientHello × Bytes)) (ss : CHv → BV → Option (CHv × BV))
    (hstep : ∀ v s, ms (absCH v) (abs s) = (ss v s).map absP)
    (hdec : ∀ v s v' s', ss v s = some (v', s') → s'.length < s.length)
    (n : Nat) (v : CHv) (d : BV) (hd : d.length < n) :
    (match readVec16 (abs d) with
      | none => none
      | some (l, d') =>
        if Model.Codec.isEmpty l then none else
        match foldMany ms l.length (absCH v) l with
        | none => none
        | some m' => some (m', d', false)) =
    (match rdVec 2 d with
      | none => none
      | some (l, d') =>
        if l.isEmpty then none else
        match loopS ss n v l with
        | none => none
        | some v' => some (v', d', false)).map absQ := by
  rw [readVec16_abs]
  rcases h : rdVec 2 d with _ | ⟨l, d'⟩
  · rfl
  have hl := rdVec_len h
  simp only [Option.map_some, isEmpty_abs, abs_length]
  cases he : l.isEmpty
  · have := foldMany_loopS ms ss absCH l.length (fun v a s _ => hstep v (a :: s)) hdec n l.length v l
      (Nat.le_refl _) (by omega) (Nat.le_refl _)
    simp only [Bool.false_eq_true, if_false]
    rw [this]
    cases loopS ss n v l <;> rfl
  · rfl

/-- supported curves / signature algorithms: vector, non-empty, `many readW16`, placed by `listMode` -/
theorem u16List_model (app : CHv → BitVec 16 → CHv) (appM : ClientHello → List W16 → ClientHello)
    (h1 : ∀ v x, absCH (app v x) = appM (absCH v) [w16 x])
    (h2 : ∀ m l1 l2, appM (appM m l1) l2 = appM m (l1 ++ l2))
    (h3 : ∀ m, appM m [] = m)
    (n : Nat) (v0 : CHv) (put : List W16 → ClientHello) (hput : ∀ l, appM (absCH v0) l = put l)
    (d : BV) (hd : d.length < n) :
    (match readVec16 (abs d) with
      | none => none
      | some (cs, d') =>
        if Model.Codec.isEmpty cs then none else
        match many readW16 cs.length cs with
        | none => none
        | some l => some (put l, d', false)) =
    (match rdVec 2 d with
      | none => none
      | some (cs, d') =>
        if cs.isEmpty then none else
        match loopS (u16Step app) n v0 cs with
        | none => none
        | some v' => some (v', d', false)).map absQ := by
  rw [readVec16_abs]
  rcases h : rdVec 2 d with _ | ⟨l, d'⟩
  · rfl
  have hl := rdVec_len h
  simp only [Option.map_some, isEmpty_abs, abs_length]
  cases he : l.isEmpty
  · have := many_loopS app appM h1 h2 h3 n l.length v0 l (by omega) (Nat.le_refl _)
    simp only [Bool.false_eq_true, if_false]
    cases hm : many readW16 l.length (abs l) with
    | none =>
      rw [hm] at this
      cases hl' : loopS (u16Step app) n v0 l with
      | none => rfl
      | some v' => rw [hl'] at this; cases this
    | some q =>
      rw [hm] at this
      cases hl' : loopS (u16Step app) n v0 l with
      | none => rw [hl'] at this; cases this
      | some v' =>
        rw [hl'] at this
        simp only [Option.map_some, Option.some.injEq] at this
        simp only [Option.map_some, absQ, this, hput]
  · rfl

theorem extCase_model (c : Codes) (reset : Bool) (hc : CodesOK c reset) (n : Nat) (v : CHv) (x : BitVec 16) (d : BV)
    (hd : d.length < n) :
    clientExtCase c (absCH v) x.toNat (abs d) = (extCaseS reset n v x d).map absQ := by
  unfold clientExtCase extCaseS
  simp only [hc.sni, hc.tca, hc.sr, hc.cur, hc.sig, hc.alpn, hc.cid]
  have e0 := bv16_toNat_eq x 0 (by omega)
  have e3 := bv16_toNat_eq x 3 (by omega)
  have e5 := bv16_toNat_eq x 5 (by omega)
  have e10 := bv16_toNat_eq x 10 (by omega)
  have e13 := bv16_toNat_eq x 13 (by omega)
  have e16 := bv16_toNat_eq x 16 (by omega)
  have e66 := bv16_toNat_eq x 66 (by omega)
  cases t0 : x == 0#16
  rotate_left
  · -- server_name
    rw [if_pos (e0.mpr t0)]
    simp only [if_true]
    exact vecLoop_model _ _ sniStep_model sniStep_dec n v d hd
  rw [if_neg (fun h => by rw [e0.mp h] at t0; cases t0)]
  cases t3 : x == 3#16
  rotate_left
  · -- trusted_ca_keys
    rw [if_pos (e3.mpr t3)]
    simp only [Bool.false_eq_true, if_false, if_true]
    exact vecLoop_model _ _ (taStep_model c reset hc) taStep_dec n v d hd
  rw [if_neg (fun h => by rw [e3.mp h] at t3; cases t3)]
  cases t5 : x == 5#16
  rotate_left
  · -- status_request
    rw [if_pos (e5.mpr t5)]
    simp only [Bool.false_eq_true, if_false, if_true]
    rw [readU8_abs]
    rcases g1 : rdU8 d with _ | ⟨st, d1⟩
    · rfl
    simp only [Option.map_some]
    rw [readVec16_abs]
    rcases g2 : rdVec 2 d1 with _ | ⟨i1, d2⟩
    · rfl
    simp only [Option.map_some]
    rw [readVec16_abs]
    rcases g3 : rdVec 2 d2 with _ | ⟨i2, d3⟩
    · rfl
    simp only [Option.map_some, absQ, absCH, u8_beq_one]
  rw [if_neg (fun h => by rw [e5.mp h] at t5; cases t5)]
  cases t10 : x == 10#16
  rotate_left
  · -- supported curves
    rw [if_pos (e10.mpr t10)]
    simp only [Bool.false_eq_true, if_false, if_true]
    rw [curveStep_eq]
    refine u16List_model appCurve (fun m l => { m with curves := m.curves ++ l }) ?_ ?_ ?_ n _ _ ?_ d hd
    · intro v x; simp [absCH, appCurve]
    · intro m l1 l2; simp
    · intro m; simp
    · intro l
      rw [hc.cm]
      cases reset <;> simp [listMode, absCH]
  rw [if_neg (fun h => by rw [e10.mp h] at t10; cases t10)]
  cases t13 : x == 13#16
  rotate_left
  · -- signature algorithms
    rw [if_pos (e13.mpr t13)]
    simp only [Bool.false_eq_true, if_false, if_true]
    rw [sigAlgStep_eq]
    refine u16List_model appSigAlg (fun m l => { m with sigAlgs := m.sigAlgs ++ l }) ?_ ?_ ?_ n _ _ ?_ d hd
    · intro v x; simp [absCH, appSigAlg]
    · intro m l1 l2; simp
    · intro m; simp
    · intro l
      rw [hc.sm]
      cases reset <;> simp [listMode, absCH]
  rw [if_neg (fun h => by rw [e13.mp h] at t13; cases t13)]
  cases t16 : x == 16#16
  rotate_left
  · -- ALPN
    rw [if_pos (e16.mpr t16)]
    simp only [Bool.false_eq_true, if_false, if_true]
    exact vecLoop_model _ _ alpnStep_model alpnStep_dec n v d hd
  rw [if_neg (fun h => by rw [e16.mp h] at t16; cases t16)]
  cases t66 : x == 66#16
  rotate_left
  · -- IBSDH client id
    rw [if_pos (e66.mpr t66)]
    simp only [Bool.false_eq_true, if_false, if_true]
    rw [readVec16_abs]
    rcases g1 : rdVec 2 d with _ | ⟨id, d'⟩
    · rfl
    · rfl
  rw [if_neg (fun h => by rw [e66.mp h] at t66; cases t66)]
  simp only [Bool.false_eq_true, if_false]
  rfl

/-- one extension -/
theorem extStep_model (c : Codes) (reset : Bool) (hc : CodesOK c reset) (n : Nat) (v : CHv) (s : BV)
    (hs : s.length < n) :
    clientExtStep c (absCH v) (abs s) = (extStepS reset n v s).map absP := by
  unfold clientExtStep extStepS
  rw [readU16_abs]
  rcases h1 : rdU16 s with _ | ⟨x, s1⟩
  · rfl
  simp only [Option.map_some]
  rw [readVec16_abs]
  rcases h2 : rdVec 2 s1 with _ | ⟨d, s2⟩
  · rfl
  have l1 := rdU16_len h1
  have l2 := rdVec_len h2
  simp only [Option.map_some]
  rw [extCase_model c reset hc n v x d (by omega)]
  rcases h3 : extCaseS reset n v x d with _ | ⟨v', d', cont⟩
  · rfl
  simp only [Option.map_some, absQ, isEmpty_abs]
  cases cont || d'.isEmpty <;> rfl


/-! ## the body of the message -/

theorem body_model (c : Codes) (dtlcp reset : Bool) (hc : CodesOK c reset) (n : Nat)
    (r : BV) (sq : BitVec 16) (fo fl : BitVec 32) (s : BV) (hs : s.length < n) :
    decClientHelloBody c dtlcp (abs s) =
      (bodyS dtlcp reset n { raw := r, seq := sq, fragOff := fo, fragLen := fl } s).map absCH := by
  unfold decClientHelloBody bodyS
  rw [readW16_abs]
  rcases h1 : rdU16 s with _ | ⟨vers, s1⟩
  · rfl
  simp only [Option.map_some, hc.rl]
  rw [readBytes_abs]
  rcases h2 : rdBytes 32 s1 with _ | ⟨rnd, s2⟩
  · rfl
  simp only [Option.map_some]
  rw [readVec8_abs]
  rcases h3 : rdVec 1 s2 with _ | ⟨sid, s3⟩
  · rfl
  simp only [Option.map_some]
  have l1 := rdU16_len h1
  have l2 := (rdBytes_len h2).1
  have l3 := rdVec_len h3
  -- the cookie vector (dtlcp only)
  have hck : (if dtlcp = true then readVec8 (abs s3) else some ([], abs s3)) =
      (if dtlcp = true then rdVec 1 s3 else some ([], s3)).map (fun p => (abs p.1, abs p.2)) := by
    cases dtlcp
    · rfl
    · simp only [if_true]; exact readVec8_abs s3
  rw [hck]
  rcases h3c : (if dtlcp = true then rdVec 1 s3 else some ([], s3)) with _ | ⟨ck, s4⟩
  · rfl
  have l3c : s4.length ≤ s3.length := by
    cases dtlcp
    · simp only [Bool.false_eq_true, if_false, Option.some.injEq, Prod.mk.injEq] at h3c
      rw [← h3c.2]; omega
    · simp only [if_true] at h3c
      have := rdVec_len h3c; omega
  simp only [Option.map_some]
  rw [readVec16_abs]
  rcases h4 : rdVec 2 s4 with _ | ⟨csb, s5⟩
  · rfl
  have l4 := rdVec_len h4
  simp only [Option.map_some, abs_length]
  -- the cipher-suite loop
  have hm := many_loopS appSuite (fun m l => { m with suites := m.suites ++ l })
    (by intro v x; simp [absCH, appSuite]) (by intro m l1 l2; simp) (by intro m; simp) n csb.length
    { raw := r, seq := sq, fragOff := fo, fragLen := fl, vers := vers, random := rnd, sessionId := sid,
      cookie := ck, suites := [] } csb (by omega) (Nat.le_refl _)
  rw [← suiteStep_eq] at hm
  cases hmany : many readW16 csb.length (abs csb) with
  | none =>
    rw [hmany] at hm
    cases hl : loopS suiteStep n { raw := r, seq := sq, fragOff := fo, fragLen := fl, vers := vers, random := rnd, sessionId := sid, cookie := ck, suites := [] } csb with
    | none => rfl
    | some v1 => rw [hl] at hm; cases hm
  | some suites =>
    rw [hmany] at hm
    cases hl : loopS suiteStep n { raw := r, seq := sq, fragOff := fo, fragLen := fl, vers := vers, random := rnd, sessionId := sid, cookie := ck, suites := [] } csb with
    | none => rw [hl] at hm; cases hm
    | some v1 =>
      rw [hl] at hm
      simp only [Option.map_some, Option.some.injEq] at hm
      simp only
      rw [readVec8_abs]
      rcases h5 : rdVec 1 s5 with _ | ⟨cm, s6⟩
      · rfl
      have l5 := rdVec_len h5
      simp only [Option.map_some, isEmpty_abs]
      have hm0 : absCH { v1 with compression := cm } =
          ⟨w16 vers, abs rnd, abs sid, abs ck, suites, abs cm, [], [], false, [], [], [], []⟩ := by
        have : absCH { v1 with compression := cm } = { absCH v1 with compression := abs cm } := rfl
        rw [this, hm]
        simp [absCH]
      cases he : s6.isEmpty
      · simp only [Bool.false_eq_true, if_false]
        rw [readVec16_abs]
        rcases h6 : rdVec 2 s6 with _ | ⟨exts, s7⟩
        · rfl
        have l6 := rdVec_len h6
        simp only [Option.map_some, isEmpty_abs, abs_length]
        cases he7 : s7.isEmpty
        · rfl
        · simp only [Bool.not_true, Bool.false_eq_true, if_false]
          rw [← hm0]
          exact foldMany_loopS (clientExtStep c) (extStepS reset n) absCH exts.length
            (fun v a s hB => extStep_model c reset hc n v (a :: s) (by omega))
            (extStepS_dec reset n) n exts.length _ exts (Nat.le_refl _) (by omega) (Nat.le_refl _)
      · simp only [if_true, Option.map_some, hm0]


/-! ## `raw` and the dtlcp header fields are not touched by the body -/

/-- what the body never writes -/
def hdrOf (v : CHv) : BV × BitVec 16 × BitVec 32 × BitVec 32 := (v.raw, v.seq, v.fragOff, v.fragLen)

theorem loopS_hdr (ss : CHv → BV → Option (CHv × BV))
    (h : ∀ v s v' s', ss v s = some (v', s') → hdrOf v' = hdrOf v) :
    ∀ (f : Nat) (v : CHv) (s : BV) (v' : CHv), loopS ss f v s = some v' → hdrOf v' = hdrOf v := by
  intro f
  induction f with
  | zero =>
    intro v s v' hl
    cases s with
    | nil => simp only [loopS, Option.some.injEq] at hl; rw [hl]
    | cons a s => simp [loopS] at hl
  | succ f ih =>
    intro v s v' hl
    cases s with
    | nil => simp only [loopS, Option.some.injEq] at hl; rw [hl]
    | cons a s =>
      simp only [loopS] at hl
      cases hst : ss v (a :: s) with
      | none => simp [hst] at hl
      | some p =>
        obtain ⟨v1, s1⟩ := p
        simp only [hst] at hl
        rw [ih v1 s1 v' hl, h _ _ _ _ hst]

theorem u16Step_hdr (app : CHv → BitVec 16 → CHv) (happ : ∀ v x, hdrOf (app v x) = hdrOf v)
    (v : CHv) (s : BV) (v' : CHv) (s' : BV) (h : u16Step app v s = some (v', s')) : hdrOf v' = hdrOf v := by
  unfold u16Step at h
  cases hr : rdU16 s with
  | none => simp [hr] at h
  | some p =>
    obtain ⟨x, r⟩ := p
    simp only [hr, Option.some.injEq, Prod.mk.injEq] at h
    rw [← h.1, happ]

theorem sniStep_hdr (v : CHv) (s : BV) (v' : CHv) (s' : BV) (h : CodecCH.sniStep v s = some (v', s')) :
    hdrOf v' = hdrOf v := by
  unfold CodecCH.sniStep at h
  cases h1 : rdU8 s with
  | none => simp [h1] at h
  | some p =>
    obtain ⟨t, s1⟩ := p
    simp only [h1] at h
    cases h2 : rdVec 2 s1 with
    | none => simp [h2] at h
    | some q =>
      obtain ⟨name, s2⟩ := q
      simp only [h2] at h
      split at h
      · cases h
      · split at h
        · simp only [Option.some.injEq, Prod.mk.injEq] at h; rw [h.1]
        · split at h
          · simp only [Option.some.injEq, Prod.mk.injEq] at h; rw [h.1]
          · split at h
            · cases h
            · simp only [Option.some.injEq, Prod.mk.injEq] at h; rw [← h.1]; rfl

theorem taStep_hdr (v : CHv) (s : BV) (v' : CHv) (s' : BV) (h : CodecCH.taStep v s = some (v', s')) :
    hdrOf v' = hdrOf v := by
  unfold CodecCH.taStep at h
  cases h1 : rdU8 s with
  | none => simp [h1] at h
  | some p =>
    obtain ⟨t, s1⟩ := p
    simp only [h1] at h
    split at h
    · simp only [Option.some.injEq, Prod.mk.injEq] at h; rw [← h.1]; rfl
    · split at h
      · cases h2 : rdBytes 32 s1 with
        | none => simp [h2] at h
        | some q =>
          obtain ⟨id, s2⟩ := q
          simp only [h2, Option.some.injEq, Prod.mk.injEq] at h
          rw [← h.1]; rfl
      · split at h
        · cases h2 : rdVec 2 s1 with
          | none => simp [h2] at h
          | some q =>
            obtain ⟨id, s2⟩ := q
            simp only [h2, Option.some.injEq, Prod.mk.injEq] at h
            rw [← h.1]; rfl
        · simp only [Option.some.injEq, Prod.mk.injEq] at h; rw [h.1]

theorem alpnStep_hdr (v : CHv) (s : BV) (v' : CHv) (s' : BV) (h : CodecCH.alpnStep v s = some (v', s')) :
    hdrOf v' = hdrOf v := by
  unfold CodecCH.alpnStep at h
  cases h1 : rdVec 1 s with
  | none => simp [h1] at h
  | some p =>
    obtain ⟨pr, s1⟩ := p
    simp only [h1] at h
    split at h
    · cases h
    · simp only [Option.some.injEq, Prod.mk.injEq] at h; rw [← h.1]; rfl

/-- a loop-carrying case of the switch -/
theorem vecLoop_hdr (ss : CHv → BV → Option (CHv × BV))
    (hss : ∀ v s v' s', ss v s = some (v', s') → hdrOf v' = hdrOf v)
    (n : Nat) (v0 v : CHv) (hv0 : hdrOf v0 = hdrOf v) (d : BV) (w : CHv × BV × Bool)
    (h : (match rdVec 2 d with
      | none => none
      | some (l, d') =>
        if l.isEmpty then none else
        match loopS ss n v0 l with
        | none => none
        | some v' => some (v', d', false)) = some w) : hdrOf w.1 = hdrOf v := by
  cases h1 : rdVec 2 d with
  | none => simp [h1] at h
  | some p =>
    obtain ⟨l, d'⟩ := p
    simp only [h1] at h
    split at h
    · cases h
    · cases h2 : loopS ss n v0 l with
      | none => simp [h2] at h
      | some v' =>
        simp only [h2, Option.some.injEq] at h
        rw [← h, ← hv0]
        exact loopS_hdr ss hss n v0 l v' h2

theorem extCaseS_hdr (reset : Bool) (n : Nat) (v : CHv) (x : BitVec 16) (d : BV) (w : CHv × BV × Bool)
    (h : extCaseS reset n v x d = some w) : hdrOf w.1 = hdrOf v := by
  unfold extCaseS at h
  split at h
  · exact vecLoop_hdr _ sniStep_hdr n v v rfl d w h
  split at h
  · exact vecLoop_hdr _ taStep_hdr n v v rfl d w h
  split at h
  · cases h1 : rdU8 d with
    | none => simp [h1] at h
    | some p =>
      obtain ⟨st, d1⟩ := p
      simp only [h1] at h
      cases h2 : rdVec 2 d1 with
      | none => simp [h2] at h
      | some q =>
        obtain ⟨i1, d2⟩ := q
        simp only [h2] at h
        cases h3 : rdVec 2 d2 with
        | none => simp [h3] at h
        | some q' =>
          obtain ⟨i2, d3⟩ := q'
          simp only [h3, Option.some.injEq] at h
          rw [← h]; rfl
  split at h
  · rw [curveStep_eq] at h
    refine vecLoop_hdr _ (u16Step_hdr appCurve (fun _ _ => rfl)) n _ v ?_ d w h
    cases reset <;> rfl
  split at h
  · rw [sigAlgStep_eq] at h
    refine vecLoop_hdr _ (u16Step_hdr appSigAlg (fun _ _ => rfl)) n _ v ?_ d w h
    cases reset <;> rfl
  split at h
  · exact vecLoop_hdr _ alpnStep_hdr n v v rfl d w h
  split at h
  · cases h1 : rdVec 2 d with
    | none => simp [h1] at h
    | some p =>
      obtain ⟨id, d'⟩ := p
      simp only [h1, Option.some.injEq] at h
      rw [← h]; rfl
  · simp only [Option.some.injEq] at h
    rw [← h]

theorem extStepS_hdr (reset : Bool) (n : Nat) (v : CHv) (s : BV) (v' : CHv) (s' : BV)
    (h : extStepS reset n v s = some (v', s')) : hdrOf v' = hdrOf v := by
  unfold extStepS at h
  cases h1 : rdU16 s with
  | none => simp [h1] at h
  | some p =>
    obtain ⟨ty, s1⟩ := p
    simp only [h1] at h
    cases h2 : rdVec 2 s1 with
    | none => simp [h2] at h
    | some q =>
      obtain ⟨d, s2⟩ := q
      simp only [h2] at h
      cases h3 : extCaseS reset n v ty d with
      | none => simp [h3] at h
      | some w =>
        simp only [h3] at h
        split at h
        · simp only [Option.some.injEq, Prod.mk.injEq] at h
          rw [← h.1]; exact extCaseS_hdr reset n v ty d w h3
        · cases h

/-- the body leaves `raw` and the header fields as they were set in front of it -/
theorem bodyS_hdr (dtlcp reset : Bool) (n : Nat) (v0 : CHv) (s : BV) (v : CHv)
    (h : bodyS dtlcp reset n v0 s = some v) : hdrOf v = hdrOf v0 := by
  unfold bodyS at h
  cases h1 : rdU16 s with
  | none => simp [h1] at h
  | some p1 =>
  obtain ⟨vers, s1⟩ := p1
  simp only [h1] at h
  cases h2 : rdBytes 32 s1 with
  | none => simp [h2] at h
  | some p2 =>
  obtain ⟨rnd, s2⟩ := p2
  simp only [h2] at h
  cases h3 : rdVec 1 s2 with
  | none => simp [h3] at h
  | some p3 =>
  obtain ⟨sid, s3⟩ := p3
  simp only [h3] at h
  cases h3c : (if dtlcp = true then rdVec 1 s3 else some ([], s3)) with
  | none => simp [h3c] at h
  | some p3c =>
  obtain ⟨ck, s4⟩ := p3c
  simp only [h3c] at h
  cases h4 : rdVec 2 s4 with
  | none => simp [h4] at h
  | some p4 =>
  obtain ⟨csb, s5⟩ := p4
  simp only [h4] at h
  cases hl : loopS suiteStep n { v0 with vers := vers, random := rnd, sessionId := sid, cookie := ck, suites := [] } csb with
  | none => simp [hl] at h
  | some v1 =>
  simp only [hl] at h
  have hv1 : hdrOf v1 = hdrOf v0 := by
    rw [suiteStep_eq] at hl
    have := loopS_hdr _ (u16Step_hdr appSuite (fun _ _ => rfl)) n _ csb v1 hl
    rw [this]; rfl
  cases h5 : rdVec 1 s5 with
  | none => simp [h5] at h
  | some p5 =>
  obtain ⟨cm, s6⟩ := p5
  simp only [h5] at h
  split at h
  · simp only [Option.some.injEq] at h
    rw [← h, ← hv1]; rfl
  · cases h6 : rdVec 2 s6 with
    | none => simp [h6] at h
    | some p6 =>
    obtain ⟨exts, s7⟩ := p6
    simp only [h6] at h
    split at h
    · cases h
    · rw [loopS_hdr _ (extStepS_hdr reset n) n _ exts v h, ← hv1]; rfl


/-! ## the whole message: specification = model -/

theorem codes_facts :
    u8 codesT.tClientHello = UInt8.ofBitVec 1#8 ∧ codesT.complete.contains codesT.tClientHello = true ∧
    u8 codesD.tClientHello = UInt8.ofBitVec 1#8 ∧ codesD.complete.contains codesD.tClientHello = true := by
  decide

/-- **tlcp**: the specification of the translated `clientHelloMsg.unmarshal` is the model decoder
`unmarshalClientHello codesT` on the same bytes -/
theorem spec_model_tlcp (data : BV) :
    Model.Codec.unmarshalClientHello codesT (abs data) =
      match chSpecT data with
      | some v => .ok (absCH v)
      | none => .reject := by
  unfold Model.Codec.unmarshalClientHello chSpecT
  rw [Gotlcp.Tie.UnmarshalTlcpCodec.model_guard data 1#8 _ codes_facts.1 codes_facts.2.1]
  cases hc : Gotlcp.Tie.UnmarshalTlcp.complete data 1#8
  · rfl
  · obtain ⟨b, c, d, rest, rfl, hl⟩ := Gotlcp.Tie.UnmarshalTlcp.complete_true hc
    simp only [if_true, Model.Codec.decClientHello, abs_cons, skip, List.length_cons, abs_length, List.drop_succ_cons,
      List.drop_zero]
    rw [if_pos (by omega)]
    simp only
    rw [body_model codesT false false codesT_ok (rest.length + 1 + 1 + 1 + 1 + 1) _ 0#16 0#32 0#32 rest (by omega)]
    cases bodyS false false (rest.length + 1 + 1 + 1 + 1 + 1) { raw := 1#8 :: b :: c :: d :: rest } rest <;> rfl

/-- the specification keeps `raw` (tlcp) -/
theorem chSpecT_raw (data : BV) (v : CHv) (h : chSpecT data = some v) :
    v.raw = data := by
  unfold chSpecT at h
  split at h
  · have := bodyS_hdr _ _ _ _ _ _ h
    simp only [hdrOf, Prod.mk.injEq] at this
    exact this.1
  · cases h

end Gotlcp.Tie.CodecCHModel

/-
Tie by translation, clientHelloMsg.unmarshal (cryptobyte based; tlcp and dtlcp): shared infrastructure.
-/
import Lean.Elab.Tactic.Simproc
import Lean.Meta.Tactic.Simp
import Gotlcp.Tie.CbString
import Gotlcp.Tie.UnmarshalTlcp

set_option linter.unusedSimpArgs false
set_option linter.unusedVariables false

namespace Gotlcp.Tie.CodecCH
open Gotlcp Gotlcp.Tie.CbString
open Gotlcp.Tie.UnmarshalTlcp (ok_bind error_bind complete tie_isComplete complete_true u24 forIn_inv)

/-! ## pure readers on `List (BitVec 8)` (the shape of `Gotlcp.Wire`'s parsers) -/

def rdU8 : BV → Option (BitVec 8 × BV)
  | a :: r => some (a, r)
  | [] => none

def bv16 (a b : BitVec 8) : BitVec 16 := BitVec.setWidth 16 a <<< 8 ||| BitVec.setWidth 16 b

def rdU16 : BV → Option (BitVec 16 × BV)
  | a :: b :: r => some (bv16 a b, r)
  | _ => none

def rdBytes (n : Nat) (s : BV) : Option (BV × BV) :=
  if n ≤ s.length then some (s.take n, s.drop n) else none

/-- a `k`-byte big-endian length, then that many bytes -/
def rdVec (k : Nat) (s : BV) : Option (BV × BV) :=
  if (lpSpec s [] k).2.2 then some ((lpSpec s [] k).2.1, (lpSpec s [] k).1) else none

theorem lpSpec_flag_out (s out out' : BV) (k : Nat) : (lpSpec s out k).2.2 = (lpSpec s out' k).2.2 := by
  unfold lpSpec
  by_cases h1 : s.length < k
  · rw [if_pos h1, if_pos h1]
  · rw [if_neg h1, if_neg h1]
    by_cases h2 : (s.drop k).length < (be32 (s.take k)).toNat
    · simp only [h2, if_true]
    · simp only [h2, if_false]

theorem rdVec_some {k : Nat} {s c s' : BV} (h : rdVec k s = some (c, s')) (out : BV) :
    lpSpec s out k = (s', c, true) ∧ s'.length + c.length + k = s.length := by
  unfold rdVec at h
  by_cases hf : (lpSpec s [] k).2.2 = true
  · rw [if_pos hf] at h
    have hf' : (lpSpec s out k).2.2 = true := by rw [lpSpec_flag_out s out [] k]; exact hf
    obtain ⟨_, _, e⟩ := lpSpec_ok s out k hf'
    obtain ⟨_, _, e0⟩ := lpSpec_ok s [] k hf
    have hl := lpSpec_length s out k hf'
    rw [e0] at h
    simp only [Option.some.injEq, Prod.mk.injEq] at h
    rw [e] at hl ⊢
    obtain ⟨h1, h2⟩ := h
    subst h1; subst h2
    exact ⟨rfl, hl⟩
  · rw [if_neg hf] at h; cases h

theorem rdVec_none {k : Nat} {s : BV} (h : rdVec k s = none) (out : BV) :
    ∃ s'', lpSpec s out k = (s'', out, false) := by
  unfold rdVec at h
  by_cases hf : (lpSpec s [] k).2.2 = true
  · rw [if_pos hf] at h; cases h
  · have hf' : (lpSpec s out k).2.2 = false := by
      rw [lpSpec_flag_out s out [] k]; simpa using hf
    unfold lpSpec at hf' ⊢
    by_cases h1 : s.length < k
    · exact ⟨s, by rw [if_pos h1]⟩
    · rw [if_neg h1] at hf' ⊢
      by_cases h2 : (s.drop k).length < (be32 (s.take k)).toNat
      · exact ⟨s.drop k, by simp only [h2, if_true]⟩
      · simp only [h2, if_false] at hf'; cases hf'

/-! ## the answer of a translated decoder against a pure specification -/

/-- the translated decoder's answer `r` against the specification's answer `o` (through the view `view` of
the message struct): accepted with the specified fields, or refused; in particular `r` is never `.error` -/
def Res {M V : Type} (view : M → V) (r : Except String (M × Bool)) (o : Option V) : Prop :=
  match o with
  | some v => ∃ m, r = .ok (m, true) ∧ view m = v
  | none => ∃ m, r = .ok (m, false)

theorem Res.noError {M V : Type} {view : M → V} {r : Except String (M × Bool)} {o : Option V}
    (h : Res view r o) : ∃ v, r = .ok v := by
  cases o with
  | some a => obtain ⟨m, h, _⟩ := h; exact ⟨_, h⟩
  | none => obtain ⟨m, h⟩ := h; exact ⟨_, h⟩

theorem Res.reject {M V : Type} {view : M → V} (m : M) : Res view (.ok (m, false)) none := ⟨m, rfl⟩
theorem Res.accept {M V : Type} {view : M → V} (m : M) (v : V) (h : view m = v) :
    Res view (.ok (m, true)) (some v) := ⟨m, rfl, h⟩

theorem Res.of_eq {M V : Type} {view : M → V} {r : Except String (M × Bool)} {o o' : Option V} (h : o = o')
    (hr : Res view r o') : Res view r o := by rw [h]; exact hr

/-! ## `for !s.Empty() { … }` over state `(pending return, m, s)` -/

/-- loop state of every decoding loop of the hello decoders: pending `return`, the message, the String -/
abbrev LS (M : Type) := Option (M × Bool) × M × BV

/-- the loop as a function: `step` is one iteration (`none` = `return false`) -/
def loopS {V : Type} (step : V → BV → Option (V × BV)) : Nat → V → BV → Option V
  | _, v, [] => some v
  | 0, _, _ :: _ => none
  | f + 1, v, a :: s =>
    match step v (a :: s) with
    | none => none
    | some (v', s') => loopS step f v' s'

/-- one iteration of a translated loop body against its specification: it yields the specified next
state with a String shorter than `L`, or returns `(_, false)` when the specification refuses -/
def StepOK {M V : Type} (view : M → V) (o : Option (V × BV)) (L : Nat)
    (r : Except String (ForInStep (LS M))) : Prop :=
  match o with
  | some (v', s') => ∃ m', r = .ok (.yield (none, m', s')) ∧ view m' = v' ∧ s'.length < L
  | none => ∃ m1 m2 s2, r = .ok (.done (some (m1, false), m2, s2))

theorem StepOK.yield {M V : Type} {view : M → V} (m' : M) (v' : V) (s' : BV) (L : Nat)
    (hv : view m' = v') (hl : s'.length < L) :
    StepOK view (some (v', s')) L (.ok (.yield (none, m', s'))) := ⟨m', rfl, hv, hl⟩

theorem StepOK.ret {M V : Type} {view : M → V} (m1 m2 : M) (s2 : BV) (L : Nat) :
    StepOK view (none : Option (V × BV)) L (.ok (.done (some (m1, false), m2, s2))) := ⟨m1, m2, s2, rfl⟩

theorem StepOK.of_eq {M V : Type} {view : M → V} {o o' : Option (V × BV)} {L : Nat}
    {r : Except String (ForInStep (LS M))} (h : o = o') (hr : StepOK view o' L r) : StepOK view o L r := by
  rw [h]; exact hr

/-- The loop rule. `f` is the translated loop body, `step` its specification (on the view of the
message): on an empty String the body breaks; otherwise `StepOK`. Then with more fuel than bytes the
bounded loop never runs out of fuel, and the rest `K` of the function sees a final state whose view
is the specified one, with the String empty. -/
theorem loop_rule {M V β : Type} (view : M → V) (Q : Except String β → Prop)
    (f : Nat → LS M → Except String (ForInStep (LS M))) (step : V → BV → Option (V × BV))
    (B n : Nat) (m : M) (s : BV) (K : LS M → Except String β)
    (hbreak : ∀ x r m, f x (r, m, []) = .ok (.done (none, m, [])))
    (hstep : ∀ x r m a s, (a :: s).length ≤ B →
      StepOK view (step (view m) (a :: s)) (a :: s).length (f x (r, m, a :: s)))
    (hB : s.length ≤ B) (hfuel : s.length < n)
    (hsome : ∀ v' m', loopS step n (view m) s = some v' → view m' = v' → Q (K (none, m', [])))
    (hnone : loopS step n (view m) s = none → ∀ m1 m2 s2, Q (K (some (m1, false), m2, s2))) :
    Q (Except.bind (forIn (List.range n) (none, m, s) f) K) := by
  suffices h : ∀ (l : List Nat) (r : Option (M × Bool)) (m : M) (s : BV), s.length ≤ B → s.length < l.length →
      match loopS step l.length (view m) s with
      | some v' => ∃ m', forIn l (r, m, s) f = .ok (none, m', []) ∧ view m' = v'
      | none => ∃ m1 m2 s2, forIn l (r, m, s) f = .ok (some (m1, false), m2, s2) by
    have h' := h (List.range n) none m s hB (by simpa using hfuel)
    rw [List.length_range] at h'
    cases hl : loopS step n (view m) s with
    | some v' =>
      rw [hl] at h'; simp only at h'
      obtain ⟨m', e, hv⟩ := h'
      rw [e]; exact hsome v' m' hl hv
    | none =>
      rw [hl] at h'; simp only at h'
      obtain ⟨m1, m2, s2, e⟩ := h'
      rw [e]; exact hnone hl m1 m2 s2
  intro l
  induction l with
  | nil => intro r m s _ h; simp at h
  | cons x l ih =>
    intro r m s hB hl
    cases s with
    | nil =>
      simp only [loopS, List.length_cons]
      rw [List.forIn_cons, hbreak]
      exact ⟨m, rfl, rfl⟩
    | cons a s =>
      have hs := hstep x r m a s hB
      simp only [List.length_cons, loopS]
      cases hst : step (view m) (a :: s) with
      | none =>
        rw [hst] at hs
        obtain ⟨m1, m2, s2, e⟩ := hs
        exact ⟨m1, m2, s2, by rw [List.forIn_cons, e]; rfl⟩
      | some p =>
        obtain ⟨v', s'⟩ := p
        rw [hst] at hs
        obtain ⟨m', e, hv, hlt⟩ := hs
        simp only [List.length_cons] at hlt hl hB
        have := ih none m' s' (by omega) (by omega)
        rw [hv] at this
        simp only
        cases hl' : loopS step l.length v' s' with
        | some v'' =>
          rw [hl'] at this; simp only at this ⊢
          obtain ⟨m'', e2, hv2⟩ := this
          exact ⟨m'', by rw [List.forIn_cons, e]; exact e2, hv2⟩
        | none =>
          rw [hl'] at this; simp only at this ⊢
          obtain ⟨m1, m2, s2, e2⟩ := this
          exact ⟨m1, m2, s2, by rw [List.forIn_cons, e]; exact e2⟩

/-- more fuel than bytes: the amount does not matter (every step shortens the String) -/
theorem loopS_fuel {V : Type} (step : V → BV → Option (V × BV))
    (hdec : ∀ v s v' s', step v s = some (v', s') → s'.length < s.length) :
    ∀ (f1 f2 : Nat) (v : V) (s : BV), s.length < f1 → s.length < f2 → loopS step f1 v s = loopS step f2 v s := by
  intro f1
  induction f1 with
  | zero => intro f2 v s h; omega
  | succ f1 ih =>
    intro f2 v s h1 h2
    cases f2 with
    | zero => omega
    | succ f2 =>
      cases s with
      | nil => rfl
      | cons a s =>
        simp only [loopS]
        cases hst : step v (a :: s) with
        | none => rfl
        | some p =>
          obtain ⟨v', s'⟩ := p
          have := hdec _ _ _ _ hst
          simp only [List.length_cons] at this h1 h2
          exact ih f2 v' s' (by omega) (by omega)


/-! ## symbolic evaluation of the translated text with `simp`

The translated functions are evaluated lazily, along one path at a time: every rule below is used as a
PRE-rewrite (`↓`), so a `x >>= K` is resolved before `simp` looks into `K`; `stopAtLoop` keeps `simp` out
of a loop and of everything behind it (the loop rule takes over there). -/

open Lean Meta Simp in
/-- do not simplify a loop (nor what follows it): the loop rule is applied to it as it stands -/
simproc_decl stopAtLoop (Bind.bind (forIn _ _ _) _) := fun e => return .done { expr := e }

theorem bind_ok {α β : Type} (a : α) (K : α → Except String β) : (Except.ok a >>= K) = K a := rfl
theorem bind_of_eq {α β : Type} {X : Except String α} {v : α} (h : X = .ok v) (K : α → Except String β) :
    (X >>= K) = K v := by rw [h]; rfl
theorem pure_ok {α : Type} (a : α) : (pure a : Except String α) = .ok a := rfl

theorem toNat_succ (n : Nat) : ((n : Int) + 1).toNat = n + 1 := by omega

theorem intlen_ne_zero {α : Type} (l : List α) : (((l.length : Int)) != (0 : Int)) = !l.isEmpty := by
  cases l with
  | nil => rfl
  | cons a l => simp only [List.length_cons, List.isEmpty_cons, Bool.not_false, bne_iff_ne, ne_eq]; omega

open Gotlcp.Src.tlcp.codec

theorem bind_make32 {β : Type} (z : BitVec 8) (K : BV → Except String β) :
    (Go.make z (32 : Int) >>= K) = K (List.replicate 32 z) := rfl

theorem bind_skip4_ok {β : Type} (a b c d : BitVec 8) (s : BV) (K : BV × Bool → Except String β) :
    (cbString.Skip (a :: b :: c :: d :: s) (4 : Int) >>= K) = K (s, true) := by
  rw [skip_eq]; rfl

theorem bind_skip_ok {β : Type} (s : BV) (n : Nat) (h : n ≤ s.length) (K : BV × Bool → Except String β) :
    (cbString.Skip s (n : Int) >>= K) = K (s.drop n, true) := by
  rw [skip_eq]
  have : readSpec s (n : Int) = (s.drop n, s.take n, true) := by
    unfold readSpec
    rw [if_neg (by omega)]; simp
  rw [this]; rfl

theorem bind_u8_some {β : Type} {s r : BV} {x : BitVec 8} (h : rdU8 s = some (x, r)) (out : BitVec 8)
    (K : BV × BitVec 8 × Bool → Except String β) : (cbString.ReadUint8 s out >>= K) = K (r, x, true) := by
  rw [readUint8_eq]
  match s, h with
  | a :: t, h =>
    simp only [rdU8, Option.some.injEq, Prod.mk.injEq] at h
    obtain ⟨h1, h2⟩ := h; subst h1; subst h2; rfl

theorem bind_u8_none {β : Type} {s : BV} (h : rdU8 s = none) (out : BitVec 8)
    (K : BV × BitVec 8 × Bool → Except String β) : (cbString.ReadUint8 s out >>= K) = K (s, out, false) := by
  rw [readUint8_eq]
  match s, h with
  | [], _ => rfl

theorem rdU8_len {s r : BV} {x : BitVec 8} (h : rdU8 s = some (x, r)) : r.length + 1 = s.length := by
  match s, h with
  | a :: t, h =>
    simp only [rdU8, Option.some.injEq, Prod.mk.injEq] at h
    obtain ⟨h1, h2⟩ := h; subst h2; simp

theorem bind_u16_some {β : Type} {s r : BV} {x : BitVec 16} (h : rdU16 s = some (x, r)) (out : BitVec 16)
    (K : BV × BitVec 16 × Bool → Except String β) : (cbString.ReadUint16 s out >>= K) = K (r, x, true) := by
  rw [readUint16_eq]
  match s, h with
  | a :: b :: t, h =>
    simp only [rdU16, Option.some.injEq, Prod.mk.injEq] at h
    obtain ⟨h1, h2⟩ := h; subst h1; subst h2; rfl

theorem bind_u16_none {β : Type} {s : BV} (h : rdU16 s = none) (out : BitVec 16)
    (K : BV × BitVec 16 × Bool → Except String β) : (cbString.ReadUint16 s out >>= K) = K (s, out, false) := by
  rw [readUint16_eq]
  match s, h with
  | [], _ => rfl
  | [_], _ => rfl

theorem rdU16_len {s r : BV} {x : BitVec 16} (h : rdU16 s = some (x, r)) : r.length + 2 = s.length := by
  match s, h with
  | a :: b :: t, h =>
    simp only [rdU16, Option.some.injEq, Prod.mk.injEq] at h
    obtain ⟨h1, h2⟩ := h; subst h2; simp

theorem bind_bytes_some {β : Type} {n : Nat} {s x r : BV} (h : rdBytes n s = some (x, r)) (out : BV)
    (K : BV × BV × Bool → Except String β) : (cbString.ReadBytes s out (n : Int) >>= K) = K (r, x, true) := by
  rw [readBytes_eq]
  unfold rdBytes at h
  by_cases hn : n ≤ s.length
  · rw [if_pos hn] at h
    simp only [Option.some.injEq, Prod.mk.injEq] at h
    obtain ⟨h1, h2⟩ := h; subst h1; subst h2
    have : readSpec s (n : Int) = (s.drop n, s.take n, true) := by
      unfold readSpec
      rw [if_neg (by omega)]; simp
    rw [this]; rfl
  · rw [if_neg hn] at h; cases h

theorem bind_bytes_none {β : Type} {n : Nat} {s : BV} (h : rdBytes n s = none) (out : BV)
    (K : BV × BV × Bool → Except String β) : (cbString.ReadBytes s out (n : Int) >>= K) = K (s, out, false) := by
  rw [readBytes_eq]
  unfold rdBytes at h
  by_cases hn : n ≤ s.length
  · rw [if_pos hn] at h; cases h
  · have : readSpec s (n : Int) = (s, [], false) := by
      unfold readSpec
      rw [if_pos (by omega)]
    rw [this]; rfl

theorem bind_bytes32_some {β : Type} {s x r : BV} (h : rdBytes 32 s = some (x, r)) (out : BV)
    (K : BV × BV × Bool → Except String β) : (cbString.ReadBytes s out (32 : Int) >>= K) = K (r, x, true) :=
  bind_bytes_some h out K
theorem bind_bytes32_none {β : Type} {s : BV} (h : rdBytes 32 s = none) (out : BV)
    (K : BV × BV × Bool → Except String β) : (cbString.ReadBytes s out (32 : Int) >>= K) = K (s, out, false) :=
  bind_bytes_none h out K

theorem rdBytes_len {n : Nat} {s x r : BV} (h : rdBytes n s = some (x, r)) : r.length + n = s.length ∧ x.length = n := by
  unfold rdBytes at h
  by_cases hn : n ≤ s.length
  · rw [if_pos hn] at h
    simp only [Option.some.injEq, Prod.mk.injEq] at h
    obtain ⟨h1, h2⟩ := h; subst h1; subst h2
    simp only [List.length_drop, List.length_take]; omega
  · rw [if_neg hn] at h; cases h

theorem rdVec_len {k : Nat} {s c s' : BV} (h : rdVec k s = some (c, s')) : s'.length + c.length + k = s.length :=
  (rdVec_some h []).2

theorem bind_lp8_some {β : Type} {s c s' : BV} (h : rdVec 1 s = some (c, s')) (out : BV)
    (K : BV × BV × Bool → Except String β) : (cbString.ReadUint8LengthPrefixed s out >>= K) = K (s', c, true) := by
  rw [readUint8LengthPrefixed_eq, (rdVec_some h out).1]; rfl
theorem bind_lp8_none {β : Type} {s : BV} (h : rdVec 1 s = none) (out : BV)
    (K : BV × BV × Bool → Except String β) :
    (cbString.ReadUint8LengthPrefixed s out >>= K) = K ((lpSpec s out 1).1, out, false) := by
  obtain ⟨s'', e⟩ := rdVec_none h out
  rw [readUint8LengthPrefixed_eq, e]; rfl
theorem bind_lp16_some {β : Type} {s c s' : BV} (h : rdVec 2 s = some (c, s')) (out : BV)
    (K : BV × BV × Bool → Except String β) : (cbString.ReadUint16LengthPrefixed s out >>= K) = K (s', c, true) := by
  rw [readUint16LengthPrefixed_eq, (rdVec_some h out).1]; rfl
theorem bind_lp16_none {β : Type} {s : BV} (h : rdVec 2 s = none) (out : BV)
    (K : BV × BV × Bool → Except String β) :
    (cbString.ReadUint16LengthPrefixed s out >>= K) = K ((lpSpec s out 2).1, out, false) := by
  obtain ⟨s'', e⟩ := rdVec_none h out
  rw [readUint16LengthPrefixed_eq, e]; rfl
/-- the package-level wrappers `readUint8LengthPrefixed`, `readUint16LengthPrefixed` -/
theorem bind_LP8_some {β : Type} {s c s' : BV} (h : rdVec 1 s = some (c, s')) (out : BV)
    (K : BV × BV × Bool → Except String β) : (readUint8LengthPrefixed s out >>= K) = K (s', c, true) := by
  rw [readUint8LP_eq, (rdVec_some h out).1]; rfl
theorem bind_LP8_none {β : Type} {s : BV} (h : rdVec 1 s = none) (out : BV)
    (K : BV × BV × Bool → Except String β) :
    (readUint8LengthPrefixed s out >>= K) = K ((lpSpec s out 1).1, out, false) := by
  obtain ⟨s'', e⟩ := rdVec_none h out
  rw [readUint8LP_eq, e]; rfl
theorem bind_LP16_some {β : Type} {s c s' : BV} (h : rdVec 2 s = some (c, s')) (out : BV)
    (K : BV × BV × Bool → Except String β) : (readUint16LengthPrefixed s out >>= K) = K (s', c, true) := by
  rw [readUint16LP_eq, (rdVec_some h out).1]; rfl
theorem bind_LP16_none {β : Type} {s : BV} (h : rdVec 2 s = none) (out : BV)
    (K : BV × BV × Bool → Except String β) :
    (readUint16LengthPrefixed s out >>= K) = K ((lpSpec s out 2).1, out, false) := by
  obtain ⟨s'', e⟩ := rdVec_none h out
  rw [readUint16LP_eq, e]; rfl

/-! ## the specification of `clientHelloMsg.unmarshal` (both stacks) on the decoded fields -/

/-- the fields a ClientHello decoder fills (the view of either stack's `clientHelloMsg`; `cookie` and the
three header fields stay at their defaults for tlcp) -/
structure CHv where
  raw : BV := []
  seq : BitVec 16 := 0#16
  fragOff : BitVec 32 := 0#32
  fragLen : BitVec 32 := 0#32
  vers : BitVec 16 := 0#16
  random : BV := []
  sessionId : BV := []
  cookie : BV := []
  suites : List (BitVec 16) := []
  compression : BV := []
  serverName : BV := []
  tas : List (BitVec 8 × BV) := []
  ocsp : Bool := false
  curves : List (BitVec 16) := []
  sigAlgs : List (BitVec 16) := []
  alpn : List BV := []
  clientId : BV := []
deriving Repr, DecidableEq

/-- body of `for !cipherSuites.Empty()` -/
def suiteStep (v : CHv) (s : BV) : Option (CHv × BV) :=
  match rdU16 s with
  | none => none
  | some (x, r) => some ({ v with suites := v.suites ++ [x] }, r)

/-- body of `for !curves.Empty()` -/
def curveStep (v : CHv) (s : BV) : Option (CHv × BV) :=
  match rdU16 s with
  | none => none
  | some (x, r) => some ({ v with curves := v.curves ++ [x] }, r)

/-- body of `for !sigAndAlgs.Empty()` -/
def sigAlgStep (v : CHv) (s : BV) : Option (CHv × BV) :=
  match rdU16 s with
  | none => none
  | some (x, r) => some ({ v with sigAlgs := v.sigAlgs ++ [x] }, r)

/-- body of `for !nameList.Empty()` -/
def sniStep (v : CHv) (s : BV) : Option (CHv × BV) :=
  match rdU8 s with
  | none => none
  | some (t, s1) =>
    match rdVec 2 s1 with
    | none => none
    | some (name, s2) =>
      if name.isEmpty then none
      else if t != 0#8 then some (v, s2)
      else if !v.serverName.isEmpty then some (v, s2)
      else if Go.hasSuffix name [46#8] then none
      else some ({ v with serverName := name }, s2)

/-- body of `for !taList.Empty()` -/
def taStep (v : CHv) (s : BV) : Option (CHv × BV) :=
  match rdU8 s with
  | none => none
  | some (ty, s1) =>
    if ty == 0#8 then some ({ v with tas := v.tas ++ [(ty, [])] }, s1)
    else if ty == 4#8 || ty == 5#8 then
      match rdBytes 32 s1 with
      | none => none
      | some (id, s2) => some ({ v with tas := v.tas ++ [(ty, id)] }, s2)
    else if ty == 2#8 then
      match rdVec 2 s1 with
      | none => none
      | some (id, s2) => some ({ v with tas := v.tas ++ [(ty, id)] }, s2)
    else some (v, s1)

/-- body of `for !protoList.Empty()` -/
def alpnStep (v : CHv) (s : BV) : Option (CHv × BV) :=
  match rdVec 1 s with
  | none => none
  | some (p, s1) => if p.isEmpty then none else some ({ v with alpn := v.alpn ++ [p] }, s1)

/-- the `switch extension { … }`: the updated fields and what is left of `extData`, or `none` for
`return false`; the flag says that the case ended in `continue` (unknown extension), which skips the
`extData.Empty()` check. `reset`: the dtlcp text re-makes the curve / signature-algorithm list in front of
its loop, the tlcp text appends to what an earlier extension of the same kind left. `n` is the loop bound. -/
def extCaseS (reset : Bool) (n : Nat) (v : CHv) (ty : BitVec 16) (d : BV) : Option (CHv × BV × Bool) :=
  if ty == 0#16 then
    match rdVec 2 d with
    | none => none
    | some (nl, d') =>
      if nl.isEmpty then none else
      match loopS sniStep n v nl with
      | none => none
      | some v' => some (v', d', false)
  else if ty == 3#16 then
    match rdVec 2 d with
    | none => none
    | some (tl, d') =>
      if tl.isEmpty then none else
      match loopS taStep n v tl with
      | none => none
      | some v' => some (v', d', false)
  else if ty == 5#16 then
    match rdU8 d with
    | none => none
    | some (st, d1) =>
      match rdVec 2 d1 with
      | none => none
      | some (_, d2) =>
        match rdVec 2 d2 with
        | none => none
        | some (_, d3) => some ({ v with ocsp := st == 1#8 }, d3, false)
  else if ty == 10#16 then
    match rdVec 2 d with
    | none => none
    | some (cs, d') =>
      if cs.isEmpty then none else
      match loopS curveStep n (if reset then { v with curves := [] } else v) cs with
      | none => none
      | some v' => some (v', d', false)
  else if ty == 13#16 then
    match rdVec 2 d with
    | none => none
    | some (sa, d') =>
      if sa.isEmpty then none else
      match loopS sigAlgStep n (if reset then { v with sigAlgs := [] } else v) sa with
      | none => none
      | some v' => some (v', d', false)
  else if ty == 16#16 then
    match rdVec 2 d with
    | none => none
    | some (pl, d') =>
      if pl.isEmpty then none else
      match loopS alpnStep n v pl with
      | none => none
      | some v' => some (v', d', false)
  else if ty == 66#16 then
    match rdVec 2 d with
    | none => none
    | some (id, d') => some ({ v with clientId := id }, d', false)
  else some (v, d, true)

/-- body of `for !extensions.Empty()` -/
def extStepS (reset : Bool) (n : Nat) (v : CHv) (s : BV) : Option (CHv × BV) :=
  match rdU16 s with
  | none => none
  | some (ty, s1) =>
    match rdVec 2 s1 with
    | none => none
    | some (d, s2) =>
      match extCaseS reset n v ty d with
      | none => none
      | some (v', d', cont) => if cont || d'.isEmpty then some (v', s2) else none

/-- `clientHelloMsg.unmarshal` after the handshake header (`dtlcp`: with the cookie vector); `v0` carries
`raw` (and the dtlcp header fields), `n` is the loop bound `len(data)+1` -/
def bodyS (dtlcp reset : Bool) (n : Nat) (v0 : CHv) (s : BV) : Option CHv :=
  match rdU16 s with
  | none => none
  | some (vers, s1) =>
  match rdBytes 32 s1 with
  | none => none
  | some (rnd, s2) =>
  match rdVec 1 s2 with
  | none => none
  | some (sid, s3) =>
  match (if dtlcp then rdVec 1 s3 else some ([], s3)) with
  | none => none
  | some (ck, s4) =>
  match rdVec 2 s4 with
  | none => none
  | some (csb, s5) =>
  match loopS suiteStep n { v0 with vers := vers, random := rnd, sessionId := sid, cookie := ck, suites := [] } csb with
  | none => none
  | some v1 =>
  match rdVec 1 s5 with
  | none => none
  | some (cm, s6) =>
    if s6.isEmpty then some { v1 with compression := cm } else
    match rdVec 2 s6 with
    | none => none
    | some (exts, s7) =>
      if !s7.isEmpty then none else loopS (extStepS reset n) n { v1 with compression := cm } exts

/-- tlcp `clientHelloMsg.unmarshal`: the decoded fields, `none` = `return false` -/
def chSpecT (data : BV) : Option CHv :=
  if complete data 1#8 then bodyS false false (data.length + 1) { raw := data } (data.drop 4) else none

end Gotlcp.Tie.CodecCH

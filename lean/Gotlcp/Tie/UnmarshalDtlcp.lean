/-
Tie by translation, dtlcp/handshake_messages.go (the hand-written, byte-indexing decoders):
`Gotlcp.Src.dtlcp.dtlcpIsCompleteMessage`, `dtlcpWriteHeader`, `certificateMsg.unmarshal`,
`certificateRequestMsg.unmarshal`, `serverKeyExchangeMsg.unmarshal`,
`clientKeyExchangeMsg.unmarshal`, `serverHelloDoneMsg.unmarshal` are regenerated from the Go
source on every run by `harness/cmd/go2lean`.  In the translation `.error` stands for a Go
run-time PANIC (index / slice bounds out of range, negative `make`) or for an exhausted loop
bound of a `for cond {}` loop.  The theorems below prove, for EVERY receiver value and EVERY
byte string, that the translated text returns `.ok`: the decoders that are in the tree can
neither panic nor spin, whatever the peer sends.

No length hypothesis is needed: every decoder first calls `dtlcpIsCompleteMessage`, which only
answers `true` when `len(data) - 12` equals the 24-bit length field, hence
`len(data) < 2^24 + 12`; this is what makes the `uint32(len(data))` conversions exact.
-/
import Gotlcp.Generated.Src

set_option linter.unusedSimpArgs false
set_option linter.unusedVariables false

namespace Gotlcp.Tie.UnmarshalDtlcp
open Gotlcp

abbrev Bytes := List (BitVec 8)

/-! ### Go helpers on in-range arguments -/

theorem idx_ok (a : Bytes) (n : Nat) (h : n < a.length) :
    Go.idx a (n : Int) = .ok (a.getD n 0#8) := by
  unfold Go.idx
  have : ¬ ((n : Int) < 0) := by omega
  simp [this, List.getD_eq_getElem?_getD, List.getElem?_eq_getElem h]

theorem slice_ok {α : Type} (a : List α) (lo hi : Nat) (h1 : lo ≤ hi) (h2 : hi ≤ a.length) :
    Go.slice a (lo : Int) (hi : Int) = .ok ((a.drop lo).take (hi - lo)) := by
  unfold Go.slice
  have : ¬ ((lo : Int) < 0 ∨ (hi : Int) < (lo : Int) ∨ (a.length : Int) < (hi : Int)) := by omega
  rw [if_neg this]
  simp

theorem slice_end {α : Type} (a : List α) (lo : Nat) (h : lo ≤ a.length) :
    Go.slice a (lo : Int) (a.length : Int) = .ok (a.drop lo) := by
  rw [slice_ok a lo a.length h (Nat.le_refl _)]
  rw [List.take_of_length_le (by simp)]

theorem make_ok {α : Type} (z : α) (n : Nat) : Go.make z (n : Int) = .ok (List.replicate n z) := by
  unfold Go.make
  have : ¬ ((n : Int) < 0) := by omega
  simp [this]

theorem copyInto_all {α : Type} (a src : List α) :
    Go.copyInto a (0 : Int) (a.length : Int) src
      = .ok (src.take (min a.length src.length) ++ a.drop (min a.length src.length)) := by
  unfold Go.copyInto
  have : ¬ ((0 : Int) < 0 ∨ (a.length : Int) < (0 : Int) ∨ (a.length : Int) < (a.length : Int)) := by omega
  simp [this]

/-- `copy(a, src)` with `len(a) = len(src)` -/
theorem copyInto_full {α : Type} (a src : List α) (h : a.length = src.length) :
    Go.copyInto a (0 : Int) (a.length : Int) src = .ok src := by
  rw [copyInto_all, h, Nat.min_self, List.take_of_length_le (Nat.le_refl _),
    List.drop_eq_nil_of_le (by omega), List.append_nil]

theorem set_ok {α : Type} (a : List α) (i : Nat) (v : α) (h : i < a.length) :
    Go.set a (i : Int) v = .ok (a.set i v) := by
  unfold Go.set
  have : ¬ ((i : Int) < 0) := by omega
  simp [this, h]

/-- `a | b` on non-negative `int`s below `2^k` stays below `2^k` -/
theorem orInt_bound (k : Nat) (hk : k ≤ 63) (a b : Int) (ha : 0 ≤ a) (ha' : a < 2 ^ k)
    (hb : 0 ≤ b) (hb' : b < 2 ^ k) : 0 ≤ Go.orInt a b ∧ Go.orInt a b < 2 ^ k := by
  obtain ⟨n, rfl⟩ := Int.eq_ofNat_of_zero_le ha
  obtain ⟨m, rfl⟩ := Int.eq_ofNat_of_zero_le hb
  have hn : n < 2 ^ k := by exact_mod_cast ha'
  have hm : m < 2 ^ k := by exact_mod_cast hb'
  have hk' : 2 ^ k ≤ 2 ^ 63 := Nat.pow_le_pow_right (by omega) hk
  unfold Go.orInt
  rw [BitVec.ofInt_natCast, BitVec.ofInt_natCast]
  have e : (BitVec.ofNat 64 n ||| BitVec.ofNat 64 m).toNat = n ||| m := by
    rw [BitVec.toNat_or, BitVec.toNat_ofNat, BitVec.toNat_ofNat,
      Nat.mod_eq_of_lt (by omega), Nat.mod_eq_of_lt (by omega)]
  have hlt : n ||| m < 2 ^ k := Nat.or_lt_two_pow hn hm
  rw [BitVec.toInt_eq_toNat_of_lt (by rw [e]; omega), e]
  constructor
  · omega
  · exact_mod_cast hlt

/-- a 24-bit big-endian field read into an `int` -/
theorem u24int_bound (x y z : BitVec 8) :
    0 ≤ Go.orInt (Go.orInt ((x.toNat : Int) * 2 ^ 16) ((y.toNat : Int) * 2 ^ 8)) (z.toNat : Int) ∧
    Go.orInt (Go.orInt ((x.toNat : Int) * 2 ^ 16) ((y.toNat : Int) * 2 ^ 8)) (z.toNat : Int) < 2 ^ 24 := by
  have hx := x.isLt; have hy := y.isLt; have hz := z.isLt
  have h1 := orInt_bound 24 (by omega) ((x.toNat : Int) * 2 ^ 16) ((y.toNat : Int) * 2 ^ 8)
    (by omega) (by omega) (by omega) (by omega)
  exact orInt_bound 24 (by omega) _ (z.toNat : Int) h1.1 h1.2 (by omega) (by omega)

/-- the twelve header bytes, read with literal indices -/
theorem hdr_idx (data : Bytes) (h : 12 ≤ data.length) :
    Go.idx data (0 : Int) = .ok (data.getD 0 0#8) ∧ Go.idx data (1 : Int) = .ok (data.getD 1 0#8) ∧
    Go.idx data (2 : Int) = .ok (data.getD 2 0#8) ∧ Go.idx data (3 : Int) = .ok (data.getD 3 0#8) ∧
    Go.idx data (4 : Int) = .ok (data.getD 4 0#8) ∧ Go.idx data (5 : Int) = .ok (data.getD 5 0#8) ∧
    Go.idx data (6 : Int) = .ok (data.getD 6 0#8) ∧ Go.idx data (7 : Int) = .ok (data.getD 7 0#8) ∧
    Go.idx data (8 : Int) = .ok (data.getD 8 0#8) ∧ Go.idx data (9 : Int) = .ok (data.getD 9 0#8) ∧
    Go.idx data (10 : Int) = .ok (data.getD 10 0#8) ∧ Go.idx data (11 : Int) = .ok (data.getD 11 0#8) :=
  ⟨idx_ok data 0 (by omega), idx_ok data 1 (by omega), idx_ok data 2 (by omega),
   idx_ok data 3 (by omega), idx_ok data 4 (by omega), idx_ok data 5 (by omega),
   idx_ok data 6 (by omega), idx_ok data 7 (by omega), idx_ok data 8 (by omega),
   idx_ok data 9 (by omega), idx_ok data 10 (by omega), idx_ok data 11 (by omega)⟩

/-! ### `dtlcpIsCompleteMessage` -/

/-- never panics; answers `true` only for at least 12 and fewer than `2^24 + 12` bytes -/
theorem isComplete_spec (data : Bytes) (t : BitVec 8) :
    ∃ b, Src.dtlcp.dtlcpIsCompleteMessage data t = .ok b ∧
      (b = true → 12 ≤ data.length ∧ data.length < 2 ^ 24 + 12) := by
  unfold Src.dtlcp.dtlcpIsCompleteMessage
  by_cases h : (data.length : Int) < 12
  · simp [h, bind, Except.bind, pure, Except.pure]
  · have hl : 12 ≤ data.length := by omega
    obtain ⟨e0, e1, e2, e3, e4, e5, e6, e7, e8, e9, e10, e11⟩ := hdr_idx data hl
    simp only [bind, Except.bind, pure, Except.pure, h, e0, e1, e2, e3, e6, e7, e8, e9, e10, e11,
      decide_false, Bool.not_false, if_true]
    have hb := u24int_bound (data.getD 1 0#8) (data.getD 2 0#8) (data.getD 3 0#8)
    split
    · exact ⟨false, rfl, by simp⟩
    · refine ⟨_, rfl, fun hc => ?_⟩
      simp only [Bool.and_eq_true, beq_iff_eq] at hc
      have h3 := hc.2
      omega

/-! ### `dtlcpWriteHeader` -/

/-- `dtlcpWriteHeader` writes `dst[0..11]`: it returns (no panic) exactly when `len(dst) ≥ 12`,
and panics (index out of range) for every shorter destination -/
theorem writeHeader_cases (dst : Bytes) (msgType : BitVec 8) (bodyLen : Int) (msgSeq : BitVec 16)
    (fragOff fragLen : BitVec 32) :
    (12 ≤ dst.length ∧ ∃ r, Src.dtlcp.dtlcpWriteHeader dst msgType bodyLen msgSeq fragOff fragLen = .ok r
        ∧ r.length = dst.length ∧ r.drop 12 = dst.drop 12) ∨
    (dst.length < 12 ∧ ∃ e, Src.dtlcp.dtlcpWriteHeader dst msgType bodyLen msgSeq fragOff fragLen = .error e) := by
  match dst with
  | [] => exact Or.inr ⟨by simp, _, rfl⟩
  | [b0] => exact Or.inr ⟨by simp, _, rfl⟩
  | [b0, b1] => exact Or.inr ⟨by simp, _, rfl⟩
  | [b0, b1, b2] => exact Or.inr ⟨by simp, _, rfl⟩
  | [b0, b1, b2, b3] => exact Or.inr ⟨by simp, _, rfl⟩
  | [b0, b1, b2, b3, b4] => exact Or.inr ⟨by simp, _, rfl⟩
  | [b0, b1, b2, b3, b4, b5] => exact Or.inr ⟨by simp, _, rfl⟩
  | [b0, b1, b2, b3, b4, b5, b6] => exact Or.inr ⟨by simp, _, rfl⟩
  | [b0, b1, b2, b3, b4, b5, b6, b7] => exact Or.inr ⟨by simp, _, rfl⟩
  | [b0, b1, b2, b3, b4, b5, b6, b7, b8] => exact Or.inr ⟨by simp, _, rfl⟩
  | [b0, b1, b2, b3, b4, b5, b6, b7, b8, b9] => exact Or.inr ⟨by simp, _, rfl⟩
  | [b0, b1, b2, b3, b4, b5, b6, b7, b8, b9, b10] => exact Or.inr ⟨by simp, _, rfl⟩
  | b0 :: b1 :: b2 :: b3 :: b4 :: b5 :: b6 :: b7 :: b8 :: b9 :: b10 :: b11 :: rest =>
    refine Or.inl ⟨by simp, _, rfl, by simp, by simp⟩

/-! ### header fields -/

/-- `uint16(d[i])<<8 | uint16(d[i+1])` -/
def u16At (d : Bytes) (i : Nat) : BitVec 16 :=
  BitVec.setWidth 16 (d.getD i 0#8) <<< 8 ||| BitVec.setWidth 16 (d.getD (i + 1) 0#8)

/-- `uint32(d[i])<<16 | uint32(d[i+1])<<8 | uint32(d[i+2])` -/
def u24At (d : Bytes) (i : Nat) : BitVec 32 :=
  BitVec.setWidth 32 (d.getD i 0#8) <<< 16 ||| BitVec.setWidth 32 (d.getD (i + 1) 0#8) <<< 8 |||
    BitVec.setWidth 32 (d.getD (i + 2) 0#8)

/-! ### `serverKeyExchangeMsg.unmarshal` -/

theorem skx_eq (m : Src.dtlcp.serverKeyExchangeMsg) (data : Bytes) :
    Src.dtlcp.serverKeyExchangeMsg.unmarshal m data = .ok (m, false) ∨
    (12 ≤ data.length ∧ Src.dtlcp.serverKeyExchangeMsg.unmarshal m data =
      .ok ({ raw := data, key := data.drop 12, messageSeq := u16At data 4,
             fragmentOffset := u24At data 6, fragmentLength := u24At data 9 }, true)) := by
  unfold Src.dtlcp.serverKeyExchangeMsg.unmarshal
  obtain ⟨b, hb, hs⟩ := isComplete_spec data 12#8
  simp only [bind, Except.bind, pure, Except.pure, hb]
  cases b
  · left; rfl
  · right
    obtain ⟨hl, hu⟩ := hs rfl
    obtain ⟨e0, e1, e2, e3, e4, e5, e6, e7, e8, e9, e10, e11⟩ := hdr_idx data hl
    have hlt : ¬ ((data.length : Int) < 12) := by omega
    have em : (data.length : Int) - 12 = ((data.length - 12 : Nat) : Int) := by omega
    have es : Go.slice data (12 : Int) (data.length : Int) = .ok (data.drop 12) := slice_end data 12 hl
    simp only [hlt, e4, e5, e6, e7, e8, e9, e10, e11, em, make_ok, es, decide_false, Bool.not_true,
      Bool.false_eq_true, if_false]
    rw [copyInto_full _ _ (by simp)]
    exact ⟨hl, rfl⟩

/-! ### `clientKeyExchangeMsg.unmarshal` -/

theorem ckx_eq (m : Src.dtlcp.clientKeyExchangeMsg) (data : Bytes) :
    Src.dtlcp.clientKeyExchangeMsg.unmarshal m data = .ok (m, false) ∨
    (12 ≤ data.length ∧ Src.dtlcp.clientKeyExchangeMsg.unmarshal m data =
      .ok ({ raw := data, ciphertext := m.ciphertext, messageSeq := u16At data 4,
             fragmentOffset := u24At data 6, fragmentLength := u24At data 9 }, false)) ∨
    (12 ≤ data.length ∧ Src.dtlcp.clientKeyExchangeMsg.unmarshal m data =
      .ok ({ raw := data, ciphertext := data.drop 12, messageSeq := u16At data 4,
             fragmentOffset := u24At data 6, fragmentLength := u24At data 9 }, true)) := by
  unfold Src.dtlcp.clientKeyExchangeMsg.unmarshal
  obtain ⟨b, hb, hs⟩ := isComplete_spec data 16#8
  simp only [bind, Except.bind, pure, Except.pure, hb]
  cases b
  · left; rfl
  · right
    obtain ⟨hl, hu⟩ := hs rfl
    obtain ⟨e0, e1, e2, e3, e4, e5, e6, e7, e8, e9, e10, e11⟩ := hdr_idx data hl
    have hlt : ¬ ((data.length : Int) < 12) := by omega
    have em : (data.length : Int) - 12 = ((data.length - 12 : Nat) : Int) := by omega
    have es : Go.slice data (12 : Int) (data.length : Int) = .ok (data.drop 12) := slice_end data 12 hl
    simp only [hlt, e1, e2, e3, e4, e5, e6, e7, e8, e9, e10, e11, decide_false, Bool.not_true,
      Bool.false_eq_true, if_false]
    split
    · left; exact ⟨hl, rfl⟩
    · rename_i hne
      right
      simp only [bne_iff_ne, ne_eq, Decidable.not_not] at hne
      rw [hne, em]
      simp only [make_ok, es]
      rw [copyInto_full _ _ (by simp)]
      exact ⟨hl, rfl⟩

/-! ### `serverHelloDoneMsg.unmarshal` -/

theorem shd_eq (m : Src.dtlcp.serverHelloDoneMsg) (data : Bytes) :
    Src.dtlcp.serverHelloDoneMsg.unmarshal m data = .ok (m, false) ∨
    (12 ≤ data.length ∧ ∃ b, Src.dtlcp.serverHelloDoneMsg.unmarshal m data =
      .ok ({ raw := data, messageSeq := u16At data 4,
             fragmentOffset := u24At data 6, fragmentLength := u24At data 9 }, b)) := by
  unfold Src.dtlcp.serverHelloDoneMsg.unmarshal
  obtain ⟨b, hb, hs⟩ := isComplete_spec data 14#8
  simp only [bind, Except.bind, pure, Except.pure, hb]
  cases b
  · left; rfl
  · right
    obtain ⟨hl, hu⟩ := hs rfl
    obtain ⟨e0, e1, e2, e3, e4, e5, e6, e7, e8, e9, e10, e11⟩ := hdr_idx data hl
    have hlt : ¬ ((data.length : Int) < 12) := by omega
    simp only [hlt, e0, e1, e2, e3, e4, e5, e6, e7, e8, e9, e10, e11, decide_false, Bool.not_true,
      Bool.false_eq_true, if_false]
    refine ⟨hl, ?_⟩
    split
    · exact ⟨_, rfl⟩
    · exact ⟨_, rfl⟩

/-! ### loops -/

theorem ok_bind {ε α β : Type} (v : α) (k : α → Except ε β) : (Except.ok v >>= k) = k v := rfl

/-- sequencing: if `x` returns a value satisfying `P` and `k` returns on every such value -/
theorem bind_ok_of {ε α β : Type} {x : Except ε α} {k : α → Except ε β} (P : α → Prop)
    (hx : ∃ v, x = .ok v ∧ P v) (hk : ∀ v, P v → ∃ r, k v = .ok r) : ∃ r, (x >>= k) = .ok r := by
  obtain ⟨v, rfl, hv⟩ := hx
  exact hk v hv

/-- a `for cond { … }` loop translated with a fuel list `l`: if every iteration from a state
satisfying `Inv` either leaves (in a state satisfying `Post`) or continues in a state satisfying
`Inv` with a smaller measure, and the measure is below the fuel, the loop returns normally -/
theorem forIn_fuel {σ ε α : Type} (f : α → σ → Except ε (ForInStep σ)) (Inv Post : σ → Prop)
    (μ : σ → Nat)
    (hstep : ∀ x s, Inv s → (∃ s', f x s = .ok (.done s') ∧ Post s') ∨
                             (∃ s', f x s = .ok (.yield s') ∧ Inv s' ∧ μ s' < μ s))
    (l : List α) (s : σ) (h : Inv s) (hμ : μ s < l.length) :
    ∃ s', forIn l s f = .ok s' ∧ Post s' := by
  induction l generalizing s with
  | nil => simp at hμ
  | cons x xs ih =>
    rcases hstep x s h with ⟨s', h1, hp⟩ | ⟨s', h1, hi, hm⟩
    · rw [List.forIn_cons, h1]; exact ⟨s', rfl, hp⟩
    · rw [List.forIn_cons, h1]
      exact ih s' hi (by simp at hμ; omega)

/-- a counting loop without early exit -/
theorem forIn_inv {σ ε α : Type} (f : α → σ → Except ε (ForInStep σ)) (Inv : List α → σ → Prop)
    (hstep : ∀ x xs s, Inv (x :: xs) s → ∃ s', f x s = .ok (.yield s') ∧ Inv xs s')
    (l : List α) (s : σ) (h : Inv l s) : ∃ s', forIn l s f = .ok s' ∧ Inv [] s' := by
  induction l generalizing s with
  | nil => exact ⟨s, rfl, h⟩
  | cons x xs ih =>
    obtain ⟨s', h1, hi⟩ := hstep x xs s h
    rw [List.forIn_cons, h1]
    exact ih s' hi

/-! ### `certificateMsg.unmarshal` -/

/-- `uint32(x)<<16 | uint32(y)<<8 | uint32(z)` -/
def u24 (x y z : BitVec 8) : BitVec 32 :=
  BitVec.setWidth 32 x <<< 16 ||| BitVec.setWidth 32 y <<< 8 ||| BitVec.setWidth 32 z

theorem u24_def (x y z : BitVec 8) :
    BitVec.setWidth 32 x <<< 16 ||| BitVec.setWidth 32 y <<< 8 ||| BitVec.setWidth 32 z = u24 x y z := rfl

theorem u24_lt (x y z : BitVec 8) : (u24 x y z).toNat < 2 ^ 24 := by
  unfold u24
  have hx := x.isLt; have hy := y.isLt; have hz := z.isLt
  rw [BitVec.toNat_or, BitVec.toNat_or]
  refine Nat.or_lt_two_pow (Nat.or_lt_two_pow ?_ ?_) ?_
  · rw [BitVec.toNat_shiftLeft, BitVec.toNat_setWidth, Nat.shiftLeft_eq]; omega
  · rw [BitVec.toNat_shiftLeft, BitVec.toNat_setWidth, Nat.shiftLeft_eq]; omega
  · rw [BitVec.toNat_setWidth]; omega

theorem three_add (c : BitVec 32) (h : c.toNat < 2 ^ 24) : (3#32 + c).toNat = 3 + c.toNat := by
  rw [BitVec.toNat_add]; simp; omega

/-- the 24-bit length in front of a certificate entry -/
def certLen (d : Bytes) : BitVec 32 := u24 (d.getD 0 0#8) (d.getD 1 0#8) (d.getD 2 0#8)

theorem certLen_fold (d : Bytes) :
    u24 (d.getD 0 0#8) (d.getD 1 0#8) (d.getD 2 0#8) = certLen d := rfl

theorem certLen_step (d : Bytes) : (3#32 + certLen d).toNat = 3 + (certLen d).toNat :=
  three_add _ (u24_lt _ _ _)

/-- `k` steps of the walk both loops of certificateMsg.unmarshal perform over the certificate
list: `some rest` when every step stays inside the bytes (what the FIRST loop checks), `none`
otherwise -/
def walkN : Nat → Bytes → Option Bytes
  | 0, d => some d
  | k + 1, d =>
    if 4 ≤ d.length ∧ (3#32 + certLen d).toNat ≤ d.length then
      walkN k (d.drop (3#32 + certLen d).toNat)
    else none

/-- one more checked step at the far end -/
theorem walkN_snoc (k : Nat) (d0 d : Bytes) (h : walkN k d0 = some d) (h4 : 4 ≤ d.length)
    (hle : (3#32 + certLen d).toNat ≤ d.length) :
    walkN (k + 1) d0 = some (d.drop (3#32 + certLen d).toNat) := by
  induction k generalizing d0 with
  | zero =>
    simp only [walkN] at h
    injection h with h; subst h
    rw [walkN, if_pos ⟨h4, hle⟩, walkN]
  | succ k ih =>
    rw [walkN] at h
    split at h
    · rename_i hc
      rw [walkN, if_pos hc]
      exact ih _ h
    · cases h

/-- state of the first loop: pending early `return`, `certsLen`, `numCerts`, `d` -/
abbrev S1 := Option (Src.dtlcp.certificateMsg × Bool) × BitVec 32 × Int × Bytes

/-- invariant of the first loop: the bytes left are exactly `certsLen` (so the `uint32`
subtraction never wraps), and `numCerts` checked steps lead from the start to `d` -/
def Inv1 (d0 : Bytes) (s : S1) : Prop :=
  s.1 = none ∧ s.2.2.2.length = s.2.1.toNat ∧ 0 ≤ s.2.2.1 ∧ walkN s.2.2.1.toNat d0 = some s.2.2.2

def Post1 (d0 : Bytes) (s : S1) : Prop :=
  (∃ r, s.1 = some r) ∨
  (s.1 = none ∧ s.2.1 = 0#32 ∧ 0 ≤ s.2.2.1 ∧ (walkN s.2.2.1.toNat d0).isSome = true)

/-- invariant of the second loop over the indices still to come: `m.certificates` keeps its
length `N`, and the remaining iterations are checked steps from `d` -/
def Inv2 (N : Nat) (rem : List Nat) (s : Src.dtlcp.certificateMsg × Bytes) : Prop :=
  s.1.certificates.length = N ∧ (∀ x ∈ rem, x < N) ∧ (walkN rem.length s.2).isSome = true

theorem cert_ok (m : Src.dtlcp.certificateMsg) (data : Bytes) :
    ∃ r, Src.dtlcp.certificateMsg.unmarshal m data = .ok r := by
  unfold Src.dtlcp.certificateMsg.unmarshal
  obtain ⟨b, hb, hs⟩ := isComplete_spec data 11#8
  simp only [hb, ok_bind]
  cases b
  · exact ⟨_, rfl⟩
  · obtain ⟨hl, hu⟩ := hs rfl
    simp only [Bool.not_true, Bool.false_eq_true, if_false]
    by_cases h15 : (data.length : Int) < 15
    · simp only [h15, decide_true, if_true]; exact ⟨_, rfl⟩
    · have hl15 : 15 ≤ data.length := by omega
      obtain ⟨e0, e1, e2, e3, e4, e5, e6, e7, e8, e9, e10, e11⟩ := hdr_idx data hl
      have e12 : Go.idx data (12 : Int) = .ok (data.getD 12 0#8) := idx_ok data 12 (by omega)
      have e13 : Go.idx data (13 : Int) = .ok (data.getD 13 0#8) := idx_ok data 13 (by omega)
      have e14 : Go.idx data (14 : Int) = .ok (data.getD 14 0#8) := idx_ok data 14 (by omega)
      have es : Go.slice data (15 : Int) (data.length : Int) = .ok (data.drop 15) := slice_end data 15 hl15
      simp only [h15, decide_false, Bool.false_eq_true, if_false, e4, e5, e6, e7, e8, e9, e10, e11,
        e12, e13, e14, ok_bind, es, u24_def]
      generalize hcl : u24 (data.getD 12 0#8) (data.getD 13 0#8) (data.getD 14 0#8) = certsLen
      have hcl24 : certsLen.toNat < 2 ^ 24 := by rw [← hcl]; exact u24_lt _ _ _
      split
      · exact ⟨_, rfl⟩
      · rename_i hne
        -- `uint32(len(data)) == certsLen + 15` without wrap-around
        have hlen : data.length = certsLen.toNat + 15 := by
          simp only [bne_iff_ne, ne_eq, Decidable.not_not] at hne
          have h1 := congrArg BitVec.toNat hne
          rw [BitVec.ofInt_natCast, BitVec.toNat_ofNat, BitVec.toNat_add, BitVec.toNat_add] at h1
          simp at h1
          omega
        apply bind_ok_of (Post1 (data.drop 15))
        · apply forIn_fuel _ (Inv1 (data.drop 15)) (Post1 (data.drop 15)) (fun s => s.2.2.2.length)
          · intro x s hi
            obtain ⟨r, cl, n, d⟩ := s
            obtain ⟨hr, hdl, hn, hw⟩ := hi
            simp only at hr hdl hn hw ⊢
            subst hr
            have hcllt := cl.isLt
            by_cases hc : cl > 0#32
            · simp only [hc, decide_true, Bool.not_true, Bool.false_eq_true, if_false]
              by_cases h4 : (d.length : Int) < 4
              · left
                simp only [h4, decide_true, if_true]
                exact ⟨_, rfl, Or.inl ⟨_, rfl⟩⟩
              · have i0 : Go.idx d (0 : Int) = .ok (d.getD 0 0#8) := idx_ok d 0 (by omega)
                have i1 : Go.idx d (1 : Int) = .ok (d.getD 1 0#8) := idx_ok d 1 (by omega)
                have i2 : Go.idx d (2 : Int) = .ok (d.getD 2 0#8) := idx_ok d 2 (by omega)
                simp only [h4, decide_false, Bool.false_eq_true, if_false, i0, i1, i2, ok_bind, u24_def,
                  certLen_fold]
                have hk := certLen_step d
                have hdn : (BitVec.ofInt 32 (d.length : Int)).toNat = d.length := by
                  rw [BitVec.ofInt_natCast, BitVec.toNat_ofNat]; omega
                by_cases hlt : BitVec.ofInt 32 (d.length : Int) < 3#32 + certLen d
                · left
                  simp only [hlt, decide_true, if_true]
                  exact ⟨_, rfl, Or.inl ⟨_, rfl⟩⟩
                · right
                  have hle : (3#32 + certLen d).toNat ≤ d.length := by
                    rw [BitVec.lt_def, hdn] at hlt; omega
                  simp only [hlt, decide_false, Bool.false_eq_true, if_false,
                    slice_end d _ hle, ok_bind]
                  refine ⟨_, rfl, ⟨rfl, ?_, ?_, ?_⟩, ?_⟩
                  · show (d.drop (3#32 + certLen d).toNat).length = (cl - (3#32 + certLen d)).toNat
                    rw [BitVec.toNat_sub_of_le (by rw [BitVec.le_def]; omega), List.length_drop]
                    omega
                  · show (0 : Int) ≤ n + 1
                    omega
                  · show walkN (n + 1).toNat (data.drop 15) = some (d.drop (3#32 + certLen d).toNat)
                    have : (n + 1).toNat = n.toNat + 1 := by omega
                    rw [this]
                    exact walkN_snoc _ _ _ hw (by omega) hle
                  · show (d.drop (3#32 + certLen d).toNat).length < d.length
                    rw [List.length_drop]; omega
            · left
              simp only [hc, decide_false, Bool.not_false, if_true]
              refine ⟨_, rfl, Or.inr ⟨rfl, ?_, hn, ?_⟩⟩
              · show cl = 0#32
                apply BitVec.eq_of_toNat_eq
                rw [gt_iff_lt, BitVec.lt_def] at hc
                simp at hc ⊢
                omega
              · show (walkN n.toNat (data.drop 15)).isSome = true
                rw [hw]; rfl
          · exact ⟨rfl, by simp only [List.length_drop]; omega, by simp, rfl⟩
          · simp only [List.length_range, List.length_drop]
            omega
        · intro s hpost
          obtain ⟨r, cl, n, d⟩ := s
          rcases hpost with ⟨r', hr⟩ | ⟨hr, hcl0, hn, hw⟩
          · simp only at hr
            subst hr
            exact ⟨_, rfl⟩
          · simp only at hr hcl0 hn hw
            subst hr; subst hcl0
            have h00 : ¬ (0#32 > 0#32) := by decide
            have hnn : n = ((n.toNat : Nat) : Int) := by omega
            simp only [h00, decide_false, Bool.false_eq_true, if_false]
            rw [hnn, make_ok]
            simp only [ok_bind, Int.toNat_natCast]
            apply bind_ok_of (Inv2 n.toNat [])
            · apply forIn_inv _ (Inv2 n.toNat)
              · intro x xs s hi
                obtain ⟨mm, d⟩ := s
                obtain ⟨hcert, hmem, hwk⟩ := hi
                simp only at hcert hmem hwk ⊢
                have hx : x < n.toNat := hmem x (by simp)
                rw [List.length_cons, walkN] at hwk
                split at hwk
                · rename_i hc
                  obtain ⟨h4, hle⟩ := hc
                  have hk := certLen_step d
                  have i0 : Go.idx d (0 : Int) = .ok (d.getD 0 0#8) := idx_ok d 0 (by omega)
                  have i1 : Go.idx d (1 : Int) = .ok (d.getD 1 0#8) := idx_ok d 1 (by omega)
                  have i2 : Go.idx d (2 : Int) = .ok (d.getD 2 0#8) := idx_ok d 2 (by omega)
                  simp only [i0, i1, i2, ok_bind, u24_def, certLen_fold]
                  have s3 : Go.slice d (3 : Int) ((3#32 + certLen d).toNat : Int)
                      = .ok ((d.drop 3).take ((3#32 + certLen d).toNat - 3)) :=
                    slice_ok d 3 _ (by omega) hle
                  simp only [s3, ok_bind, set_ok _ _ _ (hcert ▸ hx), slice_end d _ hle]
                  refine ⟨_, rfl, ?_, fun y hy => hmem y (by simp [hy]), hwk⟩
                  show (mm.certificates.set x _).length = n.toNat
                  rw [List.length_set]; exact hcert
                · cases hwk
              · refine ⟨by simp, fun x hx => by simpa using hx, ?_⟩
                simpa using hw
            · intro s _
              exact ⟨_, rfl⟩

/-! ### `certificateRequestMsg.unmarshal` -/

/-- `copy(a, src)` with `len(a) ≤ len(src)` -/
theorem copyInto_take {α : Type} (a src : List α) (h : a.length ≤ src.length) :
    Go.copyInto a (0 : Int) (a.length : Int) src = .ok (src.take a.length) := by
  rw [copyInto_all, Nat.min_eq_left h, List.drop_eq_nil_of_le (Nat.le_refl _), List.append_nil]

/-- `uint16(x)<<8 | uint16(y)` -/
def u16 (x y : BitVec 8) : BitVec 16 := BitVec.setWidth 16 x <<< 8 ||| BitVec.setWidth 16 y

theorem u16_def (x y : BitVec 8) : BitVec.setWidth 16 x <<< 8 ||| BitVec.setWidth 16 y = u16 x y := rfl

/-- state of the `for len(cas) > 0` loop: pending early `return`, `m`, `cas` -/
abbrev SC := Option (Src.dtlcp.certificateRequestMsg × Bool) × Src.dtlcp.certificateRequestMsg × Bytes

def InvC (s : SC) : Prop := s.1 = none

def PostC (s : SC) : Prop := (∃ r, s.1 = some r) ∨ (s.1 = none ∧ s.2.2.length = 0)

theorem creq_ok (m : Src.dtlcp.certificateRequestMsg) (data : Bytes) :
    ∃ r, Src.dtlcp.certificateRequestMsg.unmarshal m data = .ok r := by
  unfold Src.dtlcp.certificateRequestMsg.unmarshal
  obtain ⟨b, hb, hs⟩ := isComplete_spec data 13#8
  simp only [hb, ok_bind]
  cases b
  · exact ⟨_, rfl⟩
  · obtain ⟨hl, hu⟩ := hs rfl
    simp only [Bool.not_true, Bool.false_eq_true, if_false]
    by_cases h13 : (data.length : Int) < 13
    · simp only [h13, decide_true, if_true]; exact ⟨_, rfl⟩
    · have hl13 : 13 ≤ data.length := by omega
      obtain ⟨e0, e1, e2, e3, e4, e5, e6, e7, e8, e9, e10, e11⟩ := hdr_idx data hl
      have e12 : Go.idx data (12 : Int) = .ok (data.getD 12 0#8) := idx_ok data 12 (by omega)
      have es : Go.slice data (13 : Int) (data.length : Int) = .ok (data.drop 13) := slice_end data 13 hl13
      simp only [h13, decide_false, Bool.false_eq_true, if_false, e1, e2, e3, e4, e5, e6, e7, e8, e9,
        e10, e11, e12, ok_bind, es, u24_def]
      split
      · exact ⟨_, rfl⟩
      · generalize hbody : data.drop 13 = body
        generalize (data.getD 12 0#8).toNat = nct
        have hbl : body.length ≤ data.length := by rw [← hbody, List.length_drop]; omega
        split
        · exact ⟨_, rfl⟩
        · rename_i hn1 hn2
          simp only [Bool.or_eq_true, beq_iff_eq, decide_eq_true_eq, not_or, Nat.not_le] at hn2
          have hnct : nct < body.length := by omega
          rw [make_ok]
          simp only [ok_bind]
          rw [copyInto_take _ _ (by rw [List.length_replicate]; omega)]
          simp only [ok_bind, List.length_replicate]
          split
          · exact ⟨_, rfl⟩
          · have s1 : Go.slice body (nct : Int) (body.length : Int) = .ok (body.drop nct) :=
              slice_end body nct (by omega)
            simp only [s1, ok_bind]
            have hb1l : (body.drop nct).length ≤ data.length := by rw [List.length_drop]; omega
            generalize body.drop nct = body1 at hb1l ⊢
            by_cases h2 : (body1.length : Int) < 2
            · simp only [h2, decide_true, if_true]; exact ⟨_, rfl⟩
            · have j0 : Go.idx body1 (0 : Int) = .ok (body1.getD 0 0#8) := idx_ok body1 0 (by omega)
              have j1 : Go.idx body1 (1 : Int) = .ok (body1.getD 1 0#8) := idx_ok body1 1 (by omega)
              have s2 : Go.slice body1 (2 : Int) (body1.length : Int) = .ok (body1.drop 2) :=
                slice_end body1 2 (by omega)
              simp only [h2, decide_false, Bool.false_eq_true, if_false, j0, j1, s2, ok_bind, u16_def]
              have hb2l : (body1.drop 2).length ≤ data.length := by rw [List.length_drop]; omega
              generalize body1.drop 2 = body2 at hb2l ⊢
              by_cases h3 : (body2.length : Int) < ((u16 (body1.getD 0 0#8) (body1.getD 1 0#8)).toNat : Int)
              · simp only [h3, decide_true, if_true]; exact ⟨_, rfl⟩
              · have hcl : (u16 (body1.getD 0 0#8) (body1.getD 1 0#8)).toNat ≤ body2.length := by omega
                simp only [h3, decide_false, Bool.false_eq_true, if_false, make_ok, ok_bind]
                rw [copyInto_take _ _ (by rw [List.length_replicate]; omega)]
                simp only [ok_bind, List.length_replicate, slice_end body2 _ hcl]
                apply bind_ok_of PostC
                · apply forIn_fuel _ InvC PostC (fun s => s.2.2.length)
                  · intro x s hi
                    obtain ⟨r, mm, cas⟩ := s
                    simp only [InvC] at hi
                    subst hi
                    simp only
                    by_cases hc : (cas.length : Int) > 0
                    · simp only [hc, decide_true, Bool.not_true, Bool.false_eq_true, if_false]
                      by_cases hc2 : (cas.length : Int) < 2
                      · left
                        simp only [hc2, decide_true, if_true]
                        exact ⟨_, rfl, Or.inl ⟨_, rfl⟩⟩
                      · have k0 : Go.idx cas (0 : Int) = .ok (cas.getD 0 0#8) := idx_ok cas 0 (by omega)
                        have k1 : Go.idx cas (1 : Int) = .ok (cas.getD 1 0#8) := idx_ok cas 1 (by omega)
                        have s3 : Go.slice cas (2 : Int) (cas.length : Int) = .ok (cas.drop 2) :=
                          slice_end cas 2 (by omega)
                        simp only [hc2, decide_false, Bool.false_eq_true, if_false, k0, k1, s3, ok_bind]
                        by_cases hc3 : ((cas.drop 2).length : Int) < ((u16 (cas.getD 0 0#8) (cas.getD 1 0#8)).toNat : Int)
                        · left
                          simp only [hc3, decide_true, if_true]
                          exact ⟨_, rfl, Or.inl ⟨_, rfl⟩⟩
                        · right
                          have hle : (u16 (cas.getD 0 0#8) (cas.getD 1 0#8)).toNat ≤ (cas.drop 2).length := by omega
                          have s4 : Go.slice (cas.drop 2) (0 : Int) ((u16 (cas.getD 0 0#8) (cas.getD 1 0#8)).toNat : Int)
                              = .ok (((cas.drop 2).drop 0).take ((u16 (cas.getD 0 0#8) (cas.getD 1 0#8)).toNat - 0)) :=
                            slice_ok (cas.drop 2) 0 _ (by omega) hle
                          simp only [hc3, decide_false, Bool.false_eq_true, if_false, s4, ok_bind,
                            slice_end (cas.drop 2) _ hle]
                          refine ⟨_, rfl, rfl, ?_⟩
                          show ((cas.drop 2).drop _).length < cas.length
                          rw [List.length_drop, List.length_drop]
                          omega
                    · left
                      simp only [hc, decide_false, Bool.not_false, if_true]
                      refine ⟨_, rfl, Or.inr ⟨rfl, ?_⟩⟩
                      show cas.length = 0
                      omega
                  · rfl
                  · simp only [List.length_range, List.length_take]
                    omega
                · intro s hpost
                  obtain ⟨r, mm, cas⟩ := s
                  rcases hpost with ⟨r', hr⟩ | ⟨hr, hc0⟩
                  · simp only at hr
                    subst hr
                    exact ⟨_, rfl⟩
                  · simp only at hr hc0
                    subst hr
                    have h00 : ¬ ((cas.length : Int) > 0) := by omega
                    simp only [h00, decide_false, Bool.false_eq_true, if_false]
                    exact ⟨_, rfl⟩

/-! ### summary: none of the translated decoders can panic or exhaust its loop bound -/

theorem isComplete_ok (data : Bytes) (t : BitVec 8) :
    ∃ r, Src.dtlcp.dtlcpIsCompleteMessage data t = .ok r :=
  let ⟨b, hb, _⟩ := isComplete_spec data t; ⟨b, hb⟩

/-- `dtlcpWriteHeader` returns normally exactly when `len(dst) ≥ 12` -/
theorem writeHeader_ok_iff (dst : Bytes) (msgType : BitVec 8) (bodyLen : Int) (msgSeq : BitVec 16)
    (fragOff fragLen : BitVec 32) :
    (∃ r, Src.dtlcp.dtlcpWriteHeader dst msgType bodyLen msgSeq fragOff fragLen = .ok r) ↔ 12 ≤ dst.length := by
  rcases writeHeader_cases dst msgType bodyLen msgSeq fragOff fragLen with ⟨h, r, hr, _⟩ | ⟨h, e, he⟩
  · exact ⟨fun _ => h, fun _ => ⟨r, hr⟩⟩
  · constructor
    · rintro ⟨r, hr⟩; rw [he] at hr; cases hr
    · intro h'; omega

/-- … and panics for every shorter destination -/
theorem writeHeader_panics (dst : Bytes) (msgType : BitVec 8) (bodyLen : Int) (msgSeq : BitVec 16)
    (fragOff fragLen : BitVec 32) (h : dst.length < 12) :
    ∃ e, Src.dtlcp.dtlcpWriteHeader dst msgType bodyLen msgSeq fragOff fragLen = .error e := by
  rcases writeHeader_cases dst msgType bodyLen msgSeq fragOff fragLen with ⟨h', _⟩ | ⟨_, e, he⟩
  · omega
  · exact ⟨e, he⟩

theorem skx_ok (m : Src.dtlcp.serverKeyExchangeMsg) (data : Bytes) :
    ∃ r, Src.dtlcp.serverKeyExchangeMsg.unmarshal m data = .ok r := by
  rcases skx_eq m data with h | ⟨_, h⟩ <;> exact ⟨_, h⟩

theorem ckx_ok (m : Src.dtlcp.clientKeyExchangeMsg) (data : Bytes) :
    ∃ r, Src.dtlcp.clientKeyExchangeMsg.unmarshal m data = .ok r := by
  rcases ckx_eq m data with h | ⟨_, h⟩ | ⟨_, h⟩ <;> exact ⟨_, h⟩

theorem shd_ok (m : Src.dtlcp.serverHelloDoneMsg) (data : Bytes) :
    ∃ r, Src.dtlcp.serverHelloDoneMsg.unmarshal m data = .ok r := by
  rcases shd_eq m data with h | ⟨_, b, h⟩ <;> exact ⟨_, h⟩

end Gotlcp.Tie.UnmarshalDtlcp

/-
Tie by translation, sender side: the records the TRANSLATED `Src.dtlcp.tx.Conn.writeHandshakeRecord` plans
(`Tie.TxFragment.txPlan`, which `Tie.TxFragment.src_eq` proves it to send) are byte for byte those of the
hand-written model `Gotlcp.Model.Fragment.writeHandshake` / `fragmentize` — for every maximum payload and every
marshalled message below `2^32` bytes (`txPlan_model`).  The model's sender theorems (C17_sender_receiver_conn,
C17_wire_is_txMsgs, C17_transcript_pmtu_independent, …) therefore speak about the function text that is in the
tree; no text-matching fact about `writeHandshakeRecord`'s statements is needed for them any more.

Bytes: `ob : BitVec 8 → UInt8` (`Tie.Fragment`).  Core Lean only.
-/
import Gotlcp.Tie.TxFragment
import Gotlcp.Tie.Fragment
import Gotlcp.Model.Fragment

set_option linter.unusedSimpArgs false
set_option linter.unusedVariables false

namespace Gotlcp.Tie.TxFragmentModel
open Gotlcp
open Gotlcp.Tie.TxFragment
open Gotlcp.Tie.Fragment (ob)
open Gotlcp.Model.Fragment

/-! ## bytes -/

theorem ob_ofNat (n : Nat) : ob (BitVec.ofNat 8 n) = UInt8.ofNat n := rfl

theorem ob_be (n k : Nat) (hn : n < 2 ^ 32) :
    ob (BitVec.setWidth 8 (BitVec.ofNat 32 n >>> k)) = UInt8.ofNat (n >>> k) := by
  rw [← ob_ofNat]
  congr 1
  apply BitVec.eq_of_toNat_eq
  simp only [BitVec.toNat_setWidth, BitVec.toNat_ushiftRight, BitVec.toNat_ofNat, Nat.mod_eq_of_lt hn]

theorem ob_be0 (n : Nat) (hn : n < 2 ^ 32) :
    ob (BitVec.setWidth 8 (BitVec.ofNat 32 n)) = UInt8.ofNat n := by
  have := ob_be n 0 hn
  simpa using this

theorem be3_map (n : Nat) (hn : n < 2 ^ 32) : (TxFragment.be3 (BitVec.ofNat 32 n)).map ob = Model.Fragment.be3 n := by
  simp only [TxFragment.be3, Model.Fragment.be3, List.map_cons, List.map_nil, ob_be n 16 hn, ob_be n 8 hn, ob_be0 n hn]

theorem seq_hi (a b : BitVec 8) :
    BitVec.setWidth 8 ((BitVec.setWidth 16 a <<< 8 ||| BitVec.setWidth 16 b) >>> 8) = a := by
  apply BitVec.eq_of_toNat_eq
  have ha := a.isLt; have hb := b.isLt
  simp only [BitVec.toNat_setWidth, BitVec.toNat_ushiftRight, BitVec.toNat_or, BitVec.toNat_shiftLeft,
    Nat.shiftRight_eq_div_pow]
  rw [Nat.mod_eq_of_lt (by omega : a.toNat < 2 ^ 16), Nat.mod_eq_of_lt (by omega : b.toNat < 2 ^ 16),
    Nat.shiftLeft_eq, Nat.mod_eq_of_lt (by omega : a.toNat * 2 ^ 8 < 2 ^ 16)]
  have : a.toNat * 2 ^ 8 ||| b.toNat = a.toNat * 2 ^ 8 + b.toNat := by
    rw [← Nat.shiftLeft_eq, Nat.shiftLeft_add_eq_or_of_lt hb]
  rw [this]; omega

theorem seq_lo (a b : BitVec 8) :
    BitVec.setWidth 8 (BitVec.setWidth 16 a <<< 8 ||| BitVec.setWidth 16 b) = b := by
  apply BitVec.eq_of_toNat_eq
  have ha := a.isLt; have hb := b.isLt
  simp only [BitVec.toNat_setWidth, BitVec.toNat_or, BitVec.toNat_shiftLeft]
  rw [Nat.mod_eq_of_lt (by omega : a.toNat < 2 ^ 16), Nat.mod_eq_of_lt (by omega : b.toNat < 2 ^ 16),
    Nat.shiftLeft_eq, Nat.mod_eq_of_lt (by omega : a.toNat * 2 ^ 8 < 2 ^ 16)]
  have : a.toNat * 2 ^ 8 ||| b.toNat = a.toNat * 2 ^ 8 + b.toNat := by
    rw [← Nat.shiftLeft_eq, Nat.shiftLeft_add_eq_or_of_lt hb]
  rw [this]; omega

theorem be2_model (a b : BitVec 8) :
    Model.Fragment.be2 ((ob a).toNat <<< 8 ||| (ob b).toNat) = [ob a, ob b] := by
  have ha : (ob a).toNat < 256 := (ob a).toNat_lt
  have hb : (ob b).toNat < 256 := (ob b).toNat_lt
  unfold Model.Fragment.be2
  rw [← Nat.shiftLeft_add_eq_or_of_lt (by omega : (ob b).toNat < 2 ^ 8)]
  simp only [Nat.shiftLeft_eq, Nat.shiftRight_eq_div_pow]
  congr 1
  · apply UInt8.toNat_inj.mp
    rw [UInt8.toNat_ofNat']; omega
  · congr 1
    apply UInt8.toNat_inj.mp
    rw [UInt8.toNat_ofNat']; omega


/-! ## the fragment list is the model's `fragmentize` -/

/-- more fuel than needed changes nothing -/
theorem fragsFrom_succ_fuel (t : BitVec 8) (seq : BitVec 16) (body : TxFragment.Bytes) (m : Nat) (hm : 1 ≤ m) :
    ∀ (fuel off : Nat), body.length - off ≤ fuel →
      fragsFrom t seq body m (fuel + 1) off = fragsFrom t seq body m fuel off := by
  intro fuel
  induction fuel with
  | zero =>
    intro off h
    rw [fragsFrom_done _ _ _ _ _ _ (by omega), fragsFrom_done _ _ _ _ _ _ (by omega)]
  | succ k ih =>
    intro off h
    by_cases hlt : off < body.length
    · rw [fragsFrom, if_pos hlt, ih _ (by omega)]
      conv => rhs; rw [fragsFrom, if_pos hlt]
    · rw [fragsFrom_done _ _ _ _ _ _ (by omega), fragsFrom_done _ _ _ _ _ _ (by omega)]

theorem fragsFrom_add_fuel (t : BitVec 8) (seq : BitVec 16) (body : TxFragment.Bytes) (m : Nat) (hm : 1 ≤ m)
    (fuel off : Nat) (h : body.length - off ≤ fuel) (d : Nat) :
    fragsFrom t seq body m (fuel + d) off = fragsFrom t seq body m fuel off := by
  induction d with
  | zero => rfl
  | succ k ih => rw [← Nat.add_assoc, fragsFrom_succ_fuel _ _ _ _ hm _ _ (by omega), ih]

theorem fragRec_map (a b t : BitVec 8) (body : TxFragment.Bytes) (off len : Nat)
    (hL : body.length < 2 ^ 32) (ho : off < 2 ^ 32) (hl : len < 2 ^ 32) :
    (fragRec t (BitVec.setWidth 16 a <<< 8 ||| BitVec.setWidth 16 b) body off len).map ob =
      header (ob t).toNat body.length ((ob a).toNat <<< 8 ||| (ob b).toNat) off len
        ++ ((body.map ob).drop off).take len := by
  unfold fragRec TxFragment.hdr header
  simp only [List.map_append, List.map_cons, List.map_nil, be3_map _ hL, be3_map _ ho, be3_map _ hl, seq_hi, seq_lo,
    be2_model, List.map_take, List.map_drop, List.cons_append, List.append_assoc]
  congr 1
  apply UInt8.toNat_inj.mp
  rw [UInt8.toNat_ofNat']
  have := (ob t).toNat_lt
  omega

theorem fragsFrom_model (a b t : BitVec 8) (body : TxFragment.Bytes) (m : Nat) (hL : body.length < 2 ^ 32) :
    ∀ (fuel off : Nat),
      (fragsFrom t (BitVec.setWidth 16 a <<< 8 ||| BitVec.setWidth 16 b) body m fuel off).map (fun r => r.map ob) =
        (fragLoop (body.map ob) m fuel off).map fun f =>
          header (ob t).toNat body.length ((ob a).toNat <<< 8 ||| (ob b).toNat) f.off f.len ++ f.body := by
  intro fuel
  induction fuel with
  | zero => intro off; rfl
  | succ k ih =>
    intro off
    unfold fragsFrom fragLoop
    rw [List.length_map]
    by_cases hlt : off < body.length
    · have e1 : (if off + m > body.length then body.length else off + m) = off + min m (body.length - off) := by
        split <;> omega
      simp only [hlt, if_true, e1, List.map_cons, Nat.add_sub_cancel_left]
      rw [ih, fragRec_map a b t body off _ hL (by omega) (by omega)]
    · simp only [hlt, if_false, List.map_nil]


/-! ## the plan of the translated function is the model's `writeHandshake` -/

/-- the records of a model result (`none`: one of the two refusals) -/
def modelRecords : TxResult → Option (List Gotlcp.Bytes)
  | .single d => some [d]
  | .frags rs => some rs
  | .errTooShort => none
  | .errPmtuTooSmall => none

theorem getD_take (l : List UInt8) (i n : Nat) (h : i < n) : (l.take n).getD i 0 = l.getD i 0 := by
  simp only [List.getD_eq_getElem?_getD, List.getElem?_take, h, if_true]

/-- **The translated sender is the model** `Model.Fragment.writeHandshake` (which the sender theorems of C17 —
`C17_sender_receiver_conn`, `C17_wire_is_txMsgs`, `C17_transcript_pmtu_independent` — are about): for every
maximum payload `≥ 1` and every marshalled message below `2^32` bytes the records the translated function plans
(`txPlan`, which `src_eq` proves it to send) are, byte for byte, the model's. -/
theorem txPlan_model (mp : Int) (hmp : 1 ≤ mp) (data : TxFragment.Bytes) (h : data.length < 2 ^ 32) :
    (txPlan mp data).map (fun l => l.map (fun r => r.map ob)) = modelRecords (writeHandshake (data.map ob) mp.toNat) := by
  unfold txPlan writeHandshake
  rw [List.length_map]
  by_cases h1 : (data.length : Int) ≤ mp
  · have c1 : data.length ≤ mp.toNat := by omega
    rw [if_pos h1, if_pos c1]; rfl
  have c1 : ¬ data.length ≤ mp.toNat := by omega
  rw [if_neg h1, if_neg c1]
  by_cases h2 : data.length ≤ 12
  · rw [if_pos (Or.inl h2), if_pos h2]; rfl
  rw [if_neg h2]
  simp only []
  by_cases h3 : mp ≤ 12
  · have c3 : mp.toNat ≤ 12 := by omega
    rw [if_pos (Or.inr h3), if_pos c3]; rfl
  have c3 : ¬ mp.toNat ≤ 12 := by omega
  have c4 : ¬ (data.length ≤ 12 ∨ mp ≤ 12) := by omega
  rw [if_neg c4, if_neg c3]
  simp only [modelRecords, Option.map_some, Option.some.injEq, seqOf]
  have hl : (data.drop 12).length = data.length - 12 := List.length_drop
  have hfuel : data.length + 1 = (data.drop 12).length + 13 := by omega
  rw [hfuel, fragsFrom_add_fuel _ _ _ _ (by omega) _ _ (by omega), fragsFrom_model _ _ _ _ _ (by omega)]
  simp only [fragmentize, List.map_drop, List.length_drop, List.length_map, getD_take _ _ _ (by omega : 0 < 12),
    getD_take _ _ _ (by omega : 4 < 12), getD_take _ _ _ (by omega : 5 < 12), Tie.Fragment.getD_map_ob]
  have e : mp.toNat - 12 = (mp - 12).toNat := by omega
  rw [e]

end Gotlcp.Tie.TxFragmentModel

/-
Tie by translation, dtlcp/retransmit.go: `RetransmitTimer.backoff` and `reset` are regenerated from
the Go source on every run (`Gotlcp.Src.dtlcp`; `time.Duration` is `int64` = `BitVec 64` with
signed comparison; `start()` is a stub that counts its calls — arming a wall-clock timer is
runtime).  For every timer with `0 ≤ current < 2^62` and `0 ≤ max` the translated `backoff`
computes the model's `backoffValue` (double, cap at `max`) and re-arms exactly once.
-/
import Gotlcp.Generated.Src
import Gotlcp.Model.Flights
import Gotlcp.Lemmas.Flights
import Gotlcp.Spec.FlightsSpec

namespace Gotlcp.Tie.Timer
open Gotlcp.Model.Flights

abbrev SrcTimer := Gotlcp.Src.dtlcp.RetransmitTimer

theorem tie_backoff (t : SrcTimer) (h0 : 0 ≤ t.current.toInt) (h1 : t.current.toInt < 2 ^ 62)
    (hm : 0 ≤ t.max.toInt) :
    ((Src.dtlcp.RetransmitTimer.backoff t).current.toInt.toNat
        = backoffValue ⟨2, true⟩ t.current.toInt.toNat t.max.toInt.toNat)
    ∧ (Src.dtlcp.RetransmitTimer.backoff t).starts = t.starts + 1
    ∧ (Src.dtlcp.RetransmitTimer.backoff t).max = t.max
    ∧ (Src.dtlcp.RetransmitTimer.backoff t).initial = t.initial := by
  unfold Src.dtlcp.RetransmitTimer.backoff Src.dtlcp.RetransmitTimer.start backoffValue
  simp only [Id.run, pure]
  have hmul : (t.current * 2#64).toInt = 2 * t.current.toInt := by
    rw [BitVec.toInt_mul]
    have h2 : (2#64 : BitVec 64).toInt = 2 := by decide
    rw [h2, Int.bmod_eq_of_le] <;> omega
  have hslt : BitVec.slt t.max (t.current * 2#64) = decide (t.max.toInt < 2 * t.current.toInt) := by
    rw [BitVec.slt, hmul]
  rw [hslt]
  by_cases hc : t.max.toInt < 2 * t.current.toInt
  · have hc' : t.max.toInt.toNat < t.current.toInt.toNat * 2 := by omega
    simp [hc, hc']
  · have hc' : ¬ t.max.toInt.toNat < t.current.toInt.toNat * 2 := by omega
    simp [hc, hc', hmul]
    omega

theorem tie_reset (t : SrcTimer) :
    (Src.dtlcp.RetransmitTimer.reset t).current = t.initial
    ∧ (Src.dtlcp.RetransmitTimer.reset t).starts = t.starts + 1
    ∧ (Src.dtlcp.RetransmitTimer.reset t).max = t.max
    ∧ (Src.dtlcp.RetransmitTimer.reset t).initial = t.initial := by
  unfold Src.dtlcp.RetransmitTimer.reset Src.dtlcp.RetransmitTimer.start
  simp [Id.run, pure]

/-- `backoff` applied k times -/
def backoffs : Nat → SrcTimer → SrcTimer
  | 0, t => t
  | k + 1, t => Src.dtlcp.RetransmitTimer.backoff (backoffs k t)

/-- k expiries after a reset, on the TRANSLATED timer: the documented schedule
`min(initial · 2^k, max)` (durations in nanoseconds, `0 ≤ initial ≤ max < 2^62`) -/
theorem tie_schedule (t : SrcTimer) (hi : 0 ≤ t.initial.toInt) (him : t.initial.toInt ≤ t.max.toInt)
    (hm : t.max.toInt < 2 ^ 62) (k : Nat) :
    let tk := backoffs k (Src.dtlcp.RetransmitTimer.reset t)
    tk.current.toInt.toNat = Spec.Flights.sched t.initial.toInt.toNat t.max.toInt.toNat k
      ∧ 0 ≤ tk.current.toInt ∧ tk.current.toInt ≤ t.max.toInt ∧ tk.max = t.max ∧ tk.starts = t.starts + 1 + k := by
  induction k with
  | zero =>
    have hr := tie_reset t
    simp only [backoffs, Spec.Flights.sched, Nat.pow_zero, Nat.mul_one]
    rw [hr.1, hr.2.1, hr.2.2.1]
    refine ⟨?_, hi, him, rfl, by omega⟩
    exact (Nat.min_eq_left (by omega)).symm
  | succ n ih =>
    simp only [backoffs]
    generalize backoffs n (Src.dtlcp.RetransmitTimer.reset t) = tn at ih
    obtain ⟨hc, h0, hle, hmax, hst⟩ := ih
    have hb := tie_backoff tn h0 (by omega) (by rw [hmax]; omega)
    obtain ⟨b1, b2, b3, _⟩ := hb
    have hstep := Lemmas.Flights.backoffValue_step t.initial.toInt.toNat t.max.toInt.toNat n
    have hnew : (Src.dtlcp.RetransmitTimer.backoff tn).current.toInt.toNat
        = Spec.Flights.sched t.initial.toInt.toNat t.max.toInt.toNat (n + 1) := by
      rw [b1, hc, hmax]
      simpa [Spec.Flights.sched] using hstep
    refine ⟨hnew, ?_, ?_, by rw [b3, hmax], by rw [b2, hst]; omega⟩
    · -- non-negative: the translated value is `max` or `2·current`
      unfold Src.dtlcp.RetransmitTimer.backoff Src.dtlcp.RetransmitTimer.start
      simp only [Id.run, pure]
      have hmul : (tn.current * 2#64).toInt = 2 * tn.current.toInt := by
        rw [BitVec.toInt_mul]
        have h2 : (2#64 : BitVec 64).toInt = 2 := by decide
        rw [h2, Int.bmod_eq_of_le] <;> omega
      by_cases hcmp : BitVec.slt tn.max (tn.current * 2#64)
      · simp [hcmp]; rw [hmax]; omega
      · simp [hcmp, hmul]; omega
    · unfold Src.dtlcp.RetransmitTimer.backoff Src.dtlcp.RetransmitTimer.start
      simp only [Id.run, pure]
      have hmul : (tn.current * 2#64).toInt = 2 * tn.current.toInt := by
        rw [BitVec.toInt_mul]
        have h2 : (2#64 : BitVec 64).toInt = 2 := by decide
        rw [h2, Int.bmod_eq_of_le] <;> omega
      by_cases hcmp : BitVec.slt tn.max (tn.current * 2#64)
      · simp [hcmp]; rw [hmax]; omega
      · have : ¬ tn.max.toInt < 2 * tn.current.toInt := by
          rw [BitVec.slt, hmul, decide_eq_true_iff] at hcmp; exact hcmp
        simp [hcmp, hmul]; rw [hmax] at this; omega

end Gotlcp.Tie.Timer

/-
Tie by translation, record sequence numbers: tlcp `halfConn.incSeq` (big-endian increment of the
8-byte sequence number, panic on wrap-around) and dtlcp `Conn.setWriteSeq` (epoch ‖ 48-bit sequence
number) are regenerated from the Go source on every run (`Gotlcp.Src`).  For every 8-byte value the
translated functions compute what the models of C04 (`Gotlcp.Model.KeySchedule`) compute.
-/
import Gotlcp.Generated.Src
import Gotlcp.Model.KeySchedule

namespace Gotlcp.Tie.Seq
open Gotlcp.Model.KeySchedule

abbrev BV := List (BitVec 8)
def toBytes (l : BV) : Bytes := l.map UInt8.ofBitVec

theorem ob_add_one (b : BitVec 8) : UInt8.ofBitVec (b + 1#8) = UInt8.ofBitVec b + 1 := rfl

theorem ob_ne_zero (b : BitVec 8) : (UInt8.ofBitVec b != 0) = (b != 0#8) := by
  rw [Bool.eq_iff_iff, bne_iff_ne, bne_iff_ne]
  constructor
  · intro hne e; apply hne; subst e; rfl
  · intro hne e; apply hne; exact congrArg UInt8.toBitVec e

/-- result of the translated `incSeq` as the model reports it: the new sequence bytes, or `none`
for the wrap-around panic -/
def incResult (r : Except String Src.tlcp.halfConn) : Option Bytes :=
  match r with
  | .ok h => some (toBytes h.seq)
  | .error _ => none

/-- `incSeq`, every 8-byte sequence number: the translated source increments exactly as the model
(`none` = the "sequence number wraparound" panic), and touches nothing else -/
theorem tie_incSeq (hc : Src.tlcp.halfConn) (b0 b1 b2 b3 b4 b5 b6 b7 : BitVec 8)
    (h : hc.seq = [b0, b1, b2, b3, b4, b5, b6, b7]) :
    incResult (Src.tlcp.halfConn.incSeq hc) = incSeq (toBytes hc.seq)
    ∧ ∀ h', Src.tlcp.halfConn.incSeq hc = .ok h' → h'.cipher = hc.cipher ∧ h'.mac = hc.mac := by
  unfold Src.tlcp.halfConn.incSeq incSeq
  have hz : ∀ b : BitVec 8, b + 1#8 = 0#8 → (UInt8.ofBitVec b + 1 != 0) = false := by
    intro b hb; rw [← ob_add_one, ob_ne_zero, hb]; rfl
  have hnz : ∀ b : BitVec 8, ¬ b + 1#8 = 0#8 → (UInt8.ofBitVec b + 1 != 0) = true := by
    intro b hb; rw [← ob_add_one, ob_ne_zero]; simp [hb]
  by_cases h7 : b7 + 1#8 = 0#8
  ·
    by_cases h6 : b6 + 1#8 = 0#8
    ·
      by_cases h5 : b5 + 1#8 = 0#8
      ·
        by_cases h4 : b4 + 1#8 = 0#8
        ·
          by_cases h3 : b3 + 1#8 = 0#8
          ·
            by_cases h2 : b2 + 1#8 = 0#8
            ·
              by_cases h1 : b1 + 1#8 = 0#8
              ·
                by_cases h0 : b0 + 1#8 = 0#8
                ·
                  simp [h, List.range, List.range.loop, Go.idx, Go.set, bind, Except.bind, pure, Except.pure, incResult,
                    toBytes, incSeqRev, hz, hnz, throw, throwThe, MonadExceptOf.throw, h7, h6, h5, h4, h3, h2, h1, h0, ob_add_one]
                · simp [h, List.range, List.range.loop, Go.idx, Go.set, bind, Except.bind, pure, Except.pure, incResult,
                    toBytes, incSeqRev, hz, hnz, throw, throwThe, MonadExceptOf.throw, h7, h6, h5, h4, h3, h2, h1, h0, ob_add_one]
              · simp [h, List.range, List.range.loop, Go.idx, Go.set, bind, Except.bind, pure, Except.pure, incResult,
                  toBytes, incSeqRev, hz, hnz, throw, throwThe, MonadExceptOf.throw, h7, h6, h5, h4, h3, h2, h1, ob_add_one]
            · simp [h, List.range, List.range.loop, Go.idx, Go.set, bind, Except.bind, pure, Except.pure, incResult,
                toBytes, incSeqRev, hz, hnz, throw, throwThe, MonadExceptOf.throw, h7, h6, h5, h4, h3, h2, ob_add_one]
          · simp [h, List.range, List.range.loop, Go.idx, Go.set, bind, Except.bind, pure, Except.pure, incResult,
              toBytes, incSeqRev, hz, hnz, throw, throwThe, MonadExceptOf.throw, h7, h6, h5, h4, h3, ob_add_one]
        · simp [h, List.range, List.range.loop, Go.idx, Go.set, bind, Except.bind, pure, Except.pure, incResult,
            toBytes, incSeqRev, hz, hnz, throw, throwThe, MonadExceptOf.throw, h7, h6, h5, h4, ob_add_one]
      · simp [h, List.range, List.range.loop, Go.idx, Go.set, bind, Except.bind, pure, Except.pure, incResult,
          toBytes, incSeqRev, hz, hnz, throw, throwThe, MonadExceptOf.throw, h7, h6, h5, ob_add_one]
    · simp [h, List.range, List.range.loop, Go.idx, Go.set, bind, Except.bind, pure, Except.pure, incResult,
        toBytes, incSeqRev, hz, hnz, throw, throwThe, MonadExceptOf.throw, h7, h6, ob_add_one]
  · simp [h, List.range, List.range.loop, Go.idx, Go.set, bind, Except.bind, pure, Except.pure, incResult,
      toBytes, incSeqRev, hz, hnz, throw, throwThe, MonadExceptOf.throw, h7, ob_add_one]

/-- `byte(x >> k)` of a 16-bit value is the corresponding digit of its numeric value -/
theorem ob_shr16 (v : BitVec 16) (k : Nat) :
    UInt8.ofBitVec (BitVec.setWidth 8 (v >>> k)) = UInt8.ofNat (v.toNat / 2 ^ k % 256) := by
  apply UInt8.toBitVec_inj.mp
  apply BitVec.eq_of_toNat_eq
  simp [BitVec.toNat_ushiftRight, Nat.shiftRight_eq_div_pow]

theorem ob_shr64 (v : BitVec 64) (k : Nat) :
    UInt8.ofBitVec (BitVec.setWidth 8 (v >>> k)) = UInt8.ofNat (v.toNat / 2 ^ k % 256) := by
  apply UInt8.toBitVec_inj.mp
  apply BitVec.eq_of_toNat_eq
  simp [BitVec.toNat_ushiftRight, Nat.shiftRight_eq_div_pow]

/-- `setWriteSeq`, every epoch and every 64-bit counter, any 8-byte array: the translated source loads
`be 2 epoch ‖ be 6 seq` (the model's bytes) and cannot panic -/
theorem tie_setWriteSeq (c : Src.dtlcp.Conn) (h : c.out.seq.length = 8) :
    ∃ c', Src.dtlcp.Conn.setWriteSeq c = .ok c'
      ∧ toBytes c'.out.seq = Crypto.be 2 c.writeEpoch.toNat ++ Crypto.be 6 c.writeSeq.toNat
      ∧ c'.writeEpoch = c.writeEpoch ∧ c'.writeSeq = c.writeSeq ∧ c'.config = c.config
      ∧ c'.out.cipher = c.out.cipher ∧ c'.out.mac = c.out.mac := by
  obtain ⟨cfg, out, ep, sq⟩ := c
  obtain ⟨ci, mac, seq⟩ := out
  simp only at h
  match seq, h with
  | [s0, s1, s2, s3, s4, s5, s6, s7], _ =>
    have hrun : Src.dtlcp.Conn.setWriteSeq
        { config := cfg, out := { cipher := ci, mac := mac, seq := [s0, s1, s2, s3, s4, s5, s6, s7] },
          writeEpoch := ep, writeSeq := sq }
        = .ok { config := cfg,
                out := { cipher := ci, mac := mac,
                         seq := [BitVec.setWidth 8 (ep >>> 8), BitVec.setWidth 8 ep, BitVec.setWidth 8 (sq >>> 40),
                                 BitVec.setWidth 8 (sq >>> 32), BitVec.setWidth 8 (sq >>> 24), BitVec.setWidth 8 (sq >>> 16),
                                 BitVec.setWidth 8 (sq >>> 8), BitVec.setWidth 8 sq] },
                writeEpoch := ep, writeSeq := sq } := by
      unfold Src.dtlcp.Conn.setWriteSeq
      simp [Go.set, bind, Except.bind, pure, Except.pure]
    refine ⟨_, hrun, ?_, rfl, rfl, rfl, rfl, rfl⟩
    have e16 : ∀ v : BitVec 16, UInt8.ofBitVec (BitVec.setWidth 8 v) = UInt8.ofNat (v.toNat / 2 ^ 0 % 256) := by
      intro v; rw [← ob_shr16 v 0]; simp
    have e64 : ∀ v : BitVec 64, UInt8.ofBitVec (BitVec.setWidth 8 v) = UInt8.ofNat (v.toNat / 2 ^ 0 % 256) := by
      intro v; rw [← ob_shr64 v 0]; simp
    simp only [toBytes, List.map, ob_shr16, ob_shr64, e16, e64]
    simp [Crypto.be, Nat.div_div_eq_div_mul, Nat.shiftRight_eq_div_pow]

end Gotlcp.Tie.Seq

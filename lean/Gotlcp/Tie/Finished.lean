/-
Tie of the translated Finished computation (`Src.<stack>.fin`: `finishedHash.Write / Sum / clientSum /
serverSum`, translated from prf.go of both stacks) to the model's PRF: for every keyed-hash function of
fixed positive output length,

  clientSum h master = PRF(master, "client finished", digest(h))[0 .. 12)
  serverSum h master = PRF(master, "server finished", digest(h))[0 .. 12)

where `digest(h)` is what `h.msgHash.Sum(nil)` returns, a function of the bytes written so far, and `Write`
appends to those bytes.  The PRF is the one `Tie/KeySched.lean` ties to the standard's (`tie_prf12`).
-/
import Gotlcp.Tie.KeySched

namespace Gotlcp.Tie.Finished
open Gotlcp Gotlcp.Tie.KeySched

/-- the labels as the source spells them -/
def clientLabel : Bytes := [99, 108, 105, 101, 110, 116, 32, 102, 105, 110, 105, 115, 104, 101, 100]  -- "client finished"
def serverLabel : Bytes := [115, 101, 114, 118, 101, 114, 32, 102, 105, 110, 105, 115, 104, 101, 100]  -- "server finished"

example : String.fromUTF8! ⟨clientLabel.toArray⟩ = "client finished" ∧ String.fromUTF8! ⟨serverLabel.toArray⟩ = "server finished" := by
  decide

theorem labels_tlcp : toBytes Src.tlcp.fin.clientFinishedLabel = clientLabel ∧
    toBytes Src.tlcp.fin.serverFinishedLabel = serverLabel := by decide
theorem labels_dtlcp : toBytes Src.dtlcp.fin.clientFinishedLabel = clientLabel ∧
    toBytes Src.dtlcp.fin.serverFinishedLabel = serverLabel := by decide

/-- the copies of the PRF in the `fin` groups are the definitions `Tie/KeySched.lean` is about -/
theorem fin_prf12_tlcp : @Src.tlcp.fin.prf12 = @Src.tlcp.prf12 := rfl
theorem fin_prf12_dtlcp : @Src.dtlcp.fin.prf12 = @Src.tlcp.prf12 := rfl

/-- `Write` appends to the transcript and reports the whole length, without error -/
theorem write_tlcp (h : Src.tlcp.fin.finishedHash) (msg : BV) :
    Src.tlcp.fin.finishedHash.Write h msg =
      ({ h with msgHash := { h.msgHash with input := h.msgHash.input ++ msg } }, (msg.length : Int), none) := by
  simp [Src.tlcp.fin.finishedHash.Write, Id.run, pure]
theorem write_dtlcp (h : Src.dtlcp.fin.finishedHash) (msg : BV) :
    Src.dtlcp.fin.finishedHash.Write h msg =
      ({ h with msgHash := { h.msgHash with input := h.msgHash.input ++ msg } }, (msg.length : Int), none) := by
  simp [Src.dtlcp.fin.finishedHash.Write, Id.run, pure]

/-- after a sequence of writes the transcript is the concatenation, in order -/
theorem writes_tlcp (h : Src.tlcp.fin.finishedHash) (msgs : List BV) :
    (msgs.foldl (fun h m => (Src.tlcp.fin.finishedHash.Write h m).1) h).msgHash.input = h.msgHash.input ++ msgs.flatten ∧
    (msgs.foldl (fun h m => (Src.tlcp.fin.finishedHash.Write h m).1) h).msgHash.alg = h.msgHash.alg ∧
    (msgs.foldl (fun h m => (Src.tlcp.fin.finishedHash.Write h m).1) h).msgHash.key = h.msgHash.key ∧
    (msgs.foldl (fun h m => (Src.tlcp.fin.finishedHash.Write h m).1) h).version = h.version := by
  induction msgs generalizing h with
  | nil => simp
  | cons m ms ih =>
    have e : (Src.tlcp.fin.finishedHash.Write h m).1 =
        { h with msgHash := { h.msgHash with input := h.msgHash.input ++ m } } := by rw [write_tlcp]
    simp only [List.foldl_cons, List.flatten_cons, e]
    have := ih { h with msgHash := { h.msgHash with input := h.msgHash.input ++ m } }
    simpa [List.append_assoc] using this

/-- the digest `Sum` returns: the keyed-hash parameter at the hash's own (algorithm, key, transcript) -/
theorem sum_tlcp (ext : Go.Extern) (h : Src.tlcp.fin.finishedHash) :
    Src.tlcp.fin.finishedHash.Sum ext h = ext.hmac h.msgHash.alg h.msgHash.key h.msgHash.input := by
  simp [Src.tlcp.fin.finishedHash.Sum, Id.run, pure]
theorem sum_dtlcp (ext : Go.Extern) (h : Src.dtlcp.fin.finishedHash) :
    Src.dtlcp.fin.finishedHash.Sum ext h = ext.hmac h.msgHash.alg h.msgHash.key h.msgHash.input := by
  simp [Src.dtlcp.fin.finishedHash.Sum, Id.run, pure]

/-- verify_data of the client: 12 bytes of the PRF over the label and the transcript digest -/
theorem tie_clientSum_tlcp (ext : Go.Extern) (n : Nat) (hl : ∀ k x, (ext.hmac .sm3 k x).length = n) (hpos : 0 < n)
    (h : Src.tlcp.fin.finishedHash) (master : BV) :
    ∃ r, Src.tlcp.fin.finishedHash.clientSum ext h master = .ok r ∧ r.length = 12 ∧
      toBytes r = Model.KeySchedule.prf12 (hm ext .sm3) (toBytes master) clientLabel
        (toBytes (ext.hmac h.msgHash.alg h.msgHash.key h.msgHash.input)) 12 := by
  unfold Src.tlcp.fin.finishedHash.clientSum Src.tlcp.fin.prfForVersion
  rw [fin_prf12_tlcp]
  obtain ⟨r, hr, hlen, hb⟩ := tie_prf12 ext .sm3 n hl hpos (List.replicate 12 0#8) master
    Src.tlcp.fin.clientFinishedLabel (Src.tlcp.fin.finishedHash.Sum ext h)
  refine ⟨r, ?_, by simpa using hlen, ?_⟩
  · have hr' := hr
    simp [List.replicate] at hr'
    simp [Go.make, bind, Except.bind, pure, Except.pure, hr']
  · rw [hb, labels_tlcp.1, sum_tlcp]; simp

theorem tie_serverSum_tlcp (ext : Go.Extern) (n : Nat) (hl : ∀ k x, (ext.hmac .sm3 k x).length = n) (hpos : 0 < n)
    (h : Src.tlcp.fin.finishedHash) (master : BV) :
    ∃ r, Src.tlcp.fin.finishedHash.serverSum ext h master = .ok r ∧ r.length = 12 ∧
      toBytes r = Model.KeySchedule.prf12 (hm ext .sm3) (toBytes master) serverLabel
        (toBytes (ext.hmac h.msgHash.alg h.msgHash.key h.msgHash.input)) 12 := by
  unfold Src.tlcp.fin.finishedHash.serverSum Src.tlcp.fin.prfForVersion
  rw [fin_prf12_tlcp]
  obtain ⟨r, hr, hlen, hb⟩ := tie_prf12 ext .sm3 n hl hpos (List.replicate 12 0#8) master
    Src.tlcp.fin.serverFinishedLabel (Src.tlcp.fin.finishedHash.Sum ext h)
  refine ⟨r, ?_, by simpa using hlen, ?_⟩
  · have hr' := hr
    simp [List.replicate] at hr'
    simp [Go.make, bind, Except.bind, pure, Except.pure, hr']
  · rw [hb, labels_tlcp.2, sum_tlcp]; simp

theorem tie_clientSum_dtlcp (ext : Go.Extern) (n : Nat) (hl : ∀ k x, (ext.hmac .sm3 k x).length = n) (hpos : 0 < n)
    (h : Src.dtlcp.fin.finishedHash) (master : BV) :
    ∃ r, Src.dtlcp.fin.finishedHash.clientSum ext h master = .ok r ∧ r.length = 12 ∧
      toBytes r = Model.KeySchedule.prf12 (hm ext .sm3) (toBytes master) clientLabel
        (toBytes (ext.hmac h.msgHash.alg h.msgHash.key h.msgHash.input)) 12 := by
  unfold Src.dtlcp.fin.finishedHash.clientSum Src.dtlcp.fin.prfForVersion
  rw [fin_prf12_dtlcp]
  obtain ⟨r, hr, hlen, hb⟩ := tie_prf12 ext .sm3 n hl hpos (List.replicate 12 0#8) master
    Src.dtlcp.fin.clientFinishedLabel (Src.dtlcp.fin.finishedHash.Sum ext h)
  refine ⟨r, ?_, by simpa using hlen, ?_⟩
  · have hr' := hr
    simp [List.replicate] at hr'
    simp [Go.make, bind, Except.bind, pure, Except.pure, hr']
  · rw [hb, labels_dtlcp.1, sum_dtlcp]; simp

theorem tie_serverSum_dtlcp (ext : Go.Extern) (n : Nat) (hl : ∀ k x, (ext.hmac .sm3 k x).length = n) (hpos : 0 < n)
    (h : Src.dtlcp.fin.finishedHash) (master : BV) :
    ∃ r, Src.dtlcp.fin.finishedHash.serverSum ext h master = .ok r ∧ r.length = 12 ∧
      toBytes r = Model.KeySchedule.prf12 (hm ext .sm3) (toBytes master) serverLabel
        (toBytes (ext.hmac h.msgHash.alg h.msgHash.key h.msgHash.input)) 12 := by
  unfold Src.dtlcp.fin.finishedHash.serverSum Src.dtlcp.fin.prfForVersion
  rw [fin_prf12_dtlcp]
  obtain ⟨r, hr, hlen, hb⟩ := tie_prf12 ext .sm3 n hl hpos (List.replicate 12 0#8) master
    Src.dtlcp.fin.serverFinishedLabel (Src.dtlcp.fin.finishedHash.Sum ext h)
  refine ⟨r, ?_, by simpa using hlen, ?_⟩
  · have hr' := hr
    simp [List.replicate] at hr'
    simp [Go.make, bind, Except.bind, pure, Except.pure, hr']
  · rw [hb, labels_dtlcp.2, sum_dtlcp]; simp

end Gotlcp.Tie.Finished

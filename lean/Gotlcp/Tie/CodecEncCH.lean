/-
Tie by translation, `clientHelloMsg.marshal` of tlcp/handshake_messages.go (cryptobyte based).

  * `marshal_clientHello_cps`: the translated function IS (by `rfl`) a chain of seven optional
    extension blocks on the `exts` builder followed by the common tail `tailK` of Tie/CodecEncSH.lean;
  * one lemma per extension (`bld_chF1` … `bld_chF7`): under `bld` the block appends exactly the
    model's encoding of that extension (server_name, trusted_ca_keys with its per-type loop,
    status_request, supported_groups, signature_algorithms, ALPN with its item loop, client id);
  * `tie_enc_clientHello`: for every fresh message object the translated marshal computes
    `Model.Codec.encClientHello codesT` of the abstracted fields (`EncAgree`).

Core Lean only.
-/
import Gotlcp.Tie.CodecEncSH

set_option linter.unusedSimpArgs false
set_option linter.unusedVariables false

namespace Gotlcp.Tie.CodecEnc
open Gotlcp Gotlcp.Wire Gotlcp.Wire.Msg Gotlcp.Model.Codec Gotlcp.Tie.CbBuilder
open Gotlcp.Src.tlcp.codec
open Gotlcp.Tie.UnmarshalTlcpCodec (abs abs_nil abs_cons abs_append abs_length)

/-! ## loops over a builder, under `bld` -/

theorem concatMapM_cons {α : Type} (f : α → Option Bytes) (x : α) (xs : List α) :
    concatMapM f (x :: xs) = oapp (f x) (concatMapM f xs) := by
  simp only [concatMapM]
  cases f x <;> cases concatMapM f xs <;> rfl

/-- a loop whose body appends the encoding of one item appends the concatenation of the encodings -/
theorem bld_foldl {α β : Type} (step : cbBuilder → α → cbBuilder) (enc : β → Option Bytes) (ab : α → β)
    (hstep : ∀ s x, bld (step s x) = oapp (bld s) (enc (ab x))) (l : List α) (b : cbBuilder) :
    bld (l.foldl step b) = oapp (bld b) (concatMapM enc (l.map ab)) := by
  induction l generalizing b with
  | nil => simp [concatMapM, oapp_nil_right]
  | cons x xs ih => simp only [List.foldl_cons, List.map_cons]; rw [ih, hstep, oapp_assoc, concatMapM_cons]

/-! ## trusted authorities -/

def absTA (t : TrustedAuthority) : TA := ⟨UInt8.ofBitVec t.IdentifierType, abs t.Identifier⟩

/-- body of `for _, ta := range m.trustedAuthorities` -/
def taStep (s : cbBuilder) (ta : TrustedAuthority) : cbBuilder :=
  let c := cbBuilder.AddUint8 s ta.IdentifierType
  if (ta.IdentifierType == 0#8) = true then c
  else if (ta.IdentifierType == 4#8 || ta.IdentifierType == 5#8) = true then cbBuilder.AddBytes c ta.Identifier
  else if (ta.IdentifierType == 2#8) = true then cbBuilder.addLengthPrefixed c 2 (cbBuilder.AddBytes B0 ta.Identifier)
  else c

/-- the loop as the do-notation elaborates it (every `switch` arm ends the iteration) -/
def taLoop (l : List TrustedAuthority) (init : cbBuilder) : cbBuilder :=
  Id.run (forIn l init fun ta s =>
    let c := cbBuilder.AddUint8 s ta.IdentifierType
    if (ta.IdentifierType == 0#8) = true then pure (ForInStep.yield c)
    else if (ta.IdentifierType == 4#8 || ta.IdentifierType == 5#8) = true then
      pure (ForInStep.yield (cbBuilder.AddBytes c ta.Identifier))
    else if (ta.IdentifierType == 2#8) = true then
      pure (ForInStep.yield (cbBuilder.addLengthPrefixed c 2 (cbBuilder.AddBytes B0 ta.Identifier)))
    else pure (ForInStep.yield c))

theorem taBody_eq (ta : TrustedAuthority) (s : cbBuilder) :
    (let c := cbBuilder.AddUint8 s ta.IdentifierType
     if (ta.IdentifierType == 0#8) = true then (pure (ForInStep.yield c) : Id (ForInStep cbBuilder))
     else if (ta.IdentifierType == 4#8 || ta.IdentifierType == 5#8) = true then
       pure (ForInStep.yield (cbBuilder.AddBytes c ta.Identifier))
     else if (ta.IdentifierType == 2#8) = true then
       pure (ForInStep.yield (cbBuilder.addLengthPrefixed c 2 (cbBuilder.AddBytes B0 ta.Identifier)))
     else pure (ForInStep.yield c)) = pure (ForInStep.yield (taStep s ta)) := by
  unfold taStep
  simp only
  split
  · rfl
  · split
    · rfl
    · split <;> rfl

theorem taLoop_eq (l : List TrustedAuthority) (init : cbBuilder) : taLoop l init = l.foldl taStep init := by
  rw [← loopId_eq]
  unfold taLoop loopId
  refine congrArg (fun f => Id.run (forIn l init f)) ?_
  funext ta s
  exact taBody_eq ta s

theorem toNat_ne {t k : BitVec 8} (h : t ≠ k) : (UInt8.ofBitVec t).toNat ≠ k.toNat := by
  intro e; exact h (BitVec.eq_of_toNat_eq (by simpa using e))

theorem bld_taStep (s : cbBuilder) (ta : TrustedAuthority) :
    bld (taStep s ta) = oapp (bld s) (encTA codesT (absTA ta)) := by
  unfold taStep encTA absTA
  have c0 : codesT.taPreAgreed = (0#8).toNat := by decide
  have c2 : codesT.taX509Name = (2#8).toNat := by decide
  have c4 : codesT.taKeyHash = (4#8).toNat := by decide
  have c5 : codesT.taCertHash = (5#8).toNat := by decide
  rw [c0, c2, c4, c5]
  by_cases h0 : ta.IdentifierType = 0#8
  · simp only [h0, beq_self_eq_true, if_true]; bld_simp; rfl
  · have n0 := toNat_ne h0
    have b0 : (ta.IdentifierType == 0#8) = false := by simpa using h0
    simp only [b0, Bool.false_eq_true, if_false, n0]
    by_cases h4 : ta.IdentifierType = 4#8
    · simp only [h4]; rw [if_pos (by decide), if_pos (by decide)]; bld_simp; rw [oapp_assoc]; rfl
    · by_cases h5 : ta.IdentifierType = 5#8
      · simp only [h5]; rw [if_pos (by decide), if_pos (by decide)]; bld_simp; rw [oapp_assoc]; rfl
      · have n4 := toNat_ne h4
        have n5 := toNat_ne h5
        have b4 : (ta.IdentifierType == 4#8) = false := by simpa using h4
        have b5 : (ta.IdentifierType == 5#8) = false := by simpa using h5
        simp only [b4, b5, Bool.or_self, Bool.false_eq_true, if_false, n4, n5, or_self]
        by_cases h2 : ta.IdentifierType = 2#8
        · simp only [h2]; rw [if_pos (by decide), if_pos (by decide)]; bld_simp; rw [prefixed_eq, oapp_assoc]
        · have n2 := toNat_ne h2
          have b2 : (ta.IdentifierType == 2#8) = false := by simpa using h2
          simp only [b2, Bool.false_eq_true, if_false, n2]
          bld_simp

/-! ## clientHelloMsg -/

/-- the model's view of a tlcp `clientHelloMsg` object (no cookie) -/
def absCH (m : clientHelloMsg) : ClientHello :=
  ⟨w16 m.vers, abs m.random, abs m.sessionId, [], m.cipherSuites.map w16, abs m.compressionMethods, abs m.serverName,
    m.trustedAuthorities.map absTA, m.ocspStapling, m.supportedCurves.map w16, m.supportedSignatureAlgorithms.map w16,
    m.alpnProtocols.map abs, abs m.ibsdhClientID⟩

def setRawCH (m : clientHelloMsg) (r : BV) : clientHelloMsg := { m with raw := r }

/-- server_name -/
def chF1 (m : clientHelloMsg) (e : cbBuilder) : cbBuilder :=
  cbBuilder.addLengthPrefixed (cbBuilder.AddUint16 e 0#16) 2
    (cbBuilder.addLengthPrefixed B0 2
      (cbBuilder.addLengthPrefixed (cbBuilder.AddUint8 B0 0#8) 2 (cbBuilder.AddBytes B0 m.serverName)))
/-- trusted_ca_keys -/
def chF2 (m : clientHelloMsg) (e : cbBuilder) : cbBuilder :=
  cbBuilder.addLengthPrefixed (cbBuilder.AddUint16 e 3#16) 2
    (cbBuilder.addLengthPrefixed B0 2 (taLoop m.trustedAuthorities B0))
/-- status_request -/
def chF3 (e : cbBuilder) : cbBuilder :=
  cbBuilder.addLengthPrefixed (cbBuilder.AddUint16 e 5#16) 2
    (cbBuilder.AddUint16 (cbBuilder.AddUint16 (cbBuilder.AddUint8 B0 1#8) 0#16) 0#16)
/-- supported_groups -/
def chF4 (m : clientHelloMsg) (e : cbBuilder) : cbBuilder :=
  cbBuilder.addLengthPrefixed (cbBuilder.AddUint16 e 10#16) 2
    (cbBuilder.addLengthPrefixed B0 2 (loopId m.supportedCurves B0 cbBuilder.AddUint16))
/-- signature_algorithms -/
def chF5 (m : clientHelloMsg) (e : cbBuilder) : cbBuilder :=
  cbBuilder.addLengthPrefixed (cbBuilder.AddUint16 e 13#16) 2
    (cbBuilder.addLengthPrefixed B0 2 (loopId m.supportedSignatureAlgorithms B0 cbBuilder.AddUint16))
/-- ALPN -/
def chF6 (m : clientHelloMsg) (e : cbBuilder) : cbBuilder :=
  cbBuilder.addLengthPrefixed (cbBuilder.AddUint16 e 16#16) 2
    (cbBuilder.addLengthPrefixed B0 2
      (loopId m.alpnProtocols B0 fun s p => cbBuilder.addLengthPrefixed s 1 (cbBuilder.AddBytes B0 p)))
/-- IBSDH client id -/
def chF7 (m : clientHelloMsg) (e : cbBuilder) : cbBuilder :=
  cbBuilder.addLengthPrefixed (cbBuilder.AddUint16 e 66#16) 2
    (cbBuilder.addLengthPrefixed B0 2 (cbBuilder.AddBytes B0 m.ibsdhClientID))

/-- the fixed fields -/
def chBody (m : clientHelloMsg) : cbBuilder :=
  cbBuilder.addLengthPrefixed (cbBuilder.addLengthPrefixed (cbBuilder.addLengthPrefixed
    (addBytesWithLength (cbBuilder.AddUint16 B0 m.vers) m.random 32) 1 (cbBuilder.AddBytes B0 m.sessionId))
    2 (loopId m.cipherSuites B0 cbBuilder.AddUint16)) 1 (cbBuilder.AddBytes B0 m.compressionMethods)

/-- the extensions builder after the seven optional blocks -/
def chExts (m : clientHelloMsg) : cbBuilder :=
  optExt (decide ((m.ibsdhClientID.length : Int) > 0)) (chF7 m)
   (optExt (decide ((m.alpnProtocols.length : Int) > 0)) (chF6 m)
    (optExt (decide ((m.supportedSignatureAlgorithms.length : Int) > 0)) (chF5 m)
     (optExt (decide ((m.supportedCurves.length : Int) > 0)) (chF4 m)
      (optExt m.ocspStapling chF3
       (optExt (decide ((m.trustedAuthorities.length : Int) > 0)) (chF2 m)
        (optExt (decide ((m.serverName.length : Int) > 0)) (chF1 m) B0))))))

/-- the generated definition, re-read as seven guarded blocks and the tail (definitional unfolding) -/
theorem marshal_clientHello_cps (m : clientHelloMsg) : clientHelloMsg.marshal m =
    if !m.raw.isEmpty then (m, m.raw, none) else
    stepK (decide ((m.serverName.length : Int) > 0)) (chF1 m)
     (stepK (decide ((m.trustedAuthorities.length : Int) > 0)) (chF2 m)
      (stepK m.ocspStapling chF3
       (stepK (decide ((m.supportedCurves.length : Int) > 0)) (chF4 m)
        (stepK (decide ((m.supportedSignatureAlgorithms.length : Int) > 0)) (chF5 m)
         (stepK (decide ((m.alpnProtocols.length : Int) > 0)) (chF6 m)
          (stepK (decide ((m.ibsdhClientID.length : Int) > 0)) (chF7 m)
            (tailK (setRawCH m) m 1#8 (chBody m)))))))) B0 := rfl

theorem marshal_clientHello_cached (m : clientHelloMsg) (h : m.raw ≠ []) :
    clientHelloMsg.marshal m = (m, m.raw, none) := by
  rw [marshal_clientHello_cps]
  have : (!m.raw.isEmpty) = true := by cases hr : m.raw with | nil => exact absurd hr h | cons _ _ => rfl
  rw [if_pos this]

theorem marshal_clientHello_eq (m : clientHelloMsg) (h : m.raw = []) :
    clientHelloMsg.marshal m = tailK (setRawCH m) m 1#8 (chBody m) (chExts m) := by
  rw [marshal_clientHello_cps, h]
  simp only [List.isEmpty_nil, Bool.not_true, Bool.false_eq_true, if_false, stepK_eq]
  rfl

/-! ### one lemma per extension -/

theorem bld_chF1 (m : clientHelloMsg) (e : cbBuilder) :
    bld (chF1 m e) = oapp (bld e) (encSNI codesT (abs m.serverName)) := by
  unfold chF1 encSNI
  rw [ext_eq, vec16x2_eq, prefixed_eq]
  bld_simp
  rw [oapp_assoc]; rfl

theorem bld_chF2 (m : clientHelloMsg) (e : cbBuilder) :
    bld (chF2 m e) = oapp (bld e)
      (ext codesT.extTrustedCAKeys (vec16x2 (concatMapM (encTA codesT) (m.trustedAuthorities.map absTA)))) := by
  unfold chF2
  rw [ext_eq, vec16x2_eq, taLoop_eq, bld_addLP2, bld_addLP2, bld_foldl taStep (encTA codesT) absTA bld_taStep]
  bld_simp
  rw [oapp_assoc]; rfl

theorem bld_chF3 (e : cbBuilder) :
    bld (chF3 e) = oapp (bld e) (ext codesT.extStatusRequest (some [1, 0, 0, 0, 0])) := by
  unfold chF3
  rw [ext_eq]
  bld_simp
  rw [oapp_assoc]; rfl

theorem bld_loop16 (l : List (BitVec 16)) : bld (loopId l B0 cbBuilder.AddUint16) = some (w16s (l.map w16)) := by
  rw [loopId_eq, bld_fold_addUint16, bld_B0, oapp_nil_left]

theorem bld_chF4 (m : clientHelloMsg) (e : cbBuilder) :
    bld (chF4 m e) = oapp (bld e)
      (ext codesT.extSupportedCurves (vec16x2 (some (w16s (m.supportedCurves.map w16))))) := by
  unfold chF4
  rw [ext_eq, vec16x2_eq, bld_addLP2, bld_addLP2, bld_loop16]
  bld_simp
  rw [oapp_assoc]; rfl

theorem bld_chF5 (m : clientHelloMsg) (e : cbBuilder) :
    bld (chF5 m e) = oapp (bld e)
      (ext codesT.extSignatureAlgorithms (vec16x2 (some (w16s (m.supportedSignatureAlgorithms.map w16))))) := by
  unfold chF5
  rw [ext_eq, vec16x2_eq, bld_addLP2, bld_addLP2, bld_loop16]
  bld_simp
  rw [oapp_assoc]; rfl

theorem bld_alpnStep (s : cbBuilder) (p : BV) :
    bld (cbBuilder.addLengthPrefixed s 1 (cbBuilder.AddBytes B0 p)) = oapp (bld s) (alpnItem (abs p)) := by
  unfold alpnItem
  bld_simp

theorem bld_chF6 (m : clientHelloMsg) (e : cbBuilder) :
    bld (chF6 m e) = oapp (bld e)
      (ext codesT.extALPN (vec16x2 (concatMapM alpnItem (m.alpnProtocols.map abs)))) := by
  unfold chF6
  rw [ext_eq, vec16x2_eq, loopId_eq, bld_addLP2, bld_addLP2,
    bld_foldl (fun s p => cbBuilder.addLengthPrefixed s 1 (cbBuilder.AddBytes B0 p)) alpnItem abs bld_alpnStep]
  bld_simp
  rw [oapp_assoc]; rfl

theorem bld_chF7 (m : clientHelloMsg) (e : cbBuilder) :
    bld (chF7 m e) = oapp (bld e) (ext codesT.extClientID (vec16x2 (some (abs m.ibsdhClientID)))) := by
  unfold chF7
  rw [ext_eq, vec16x2_eq]
  bld_simp
  rw [oapp_assoc]; rfl

/-! ### all extensions, the fixed fields, the whole message -/

theorem encClientExtensions_eq (c : Codes) (m : ClientHello) :
    encClientExtensions c m =
      oapp (oapp (oapp (oapp (oapp (oapp
        (optBytes (decide (m.serverName.length > 0)) (encSNI c m.serverName))
        (optBytes (decide (m.tas.length > 0)) (ext c.extTrustedCAKeys (vec16x2 (concatMapM (encTA c) m.tas)))))
        (optBytes m.ocsp (ext c.extStatusRequest (some [1, 0, 0, 0, 0]))))
        (optBytes (decide (m.curves.length > 0)) (ext c.extSupportedCurves (vec16x2 (some (w16s m.curves))))))
        (optBytes (decide (m.sigAlgs.length > 0)) (ext c.extSignatureAlgorithms (vec16x2 (some (w16s m.sigAlgs))))))
        (optBytes (decide (m.alpn.length > 0)) (ext c.extALPN (vec16x2 (concatMapM alpnItem m.alpn)))))
        (optBytes (decide (m.clientId.length > 0)) (ext c.extClientID (vec16x2 (some m.clientId)))) := by
  unfold encClientExtensions
  cases optBytes (decide (m.serverName.length > 0)) (encSNI c m.serverName) <;>
  cases optBytes (decide (m.tas.length > 0)) (ext c.extTrustedCAKeys (vec16x2 (concatMapM (encTA c) m.tas))) <;>
  cases optBytes m.ocsp (ext c.extStatusRequest (some [1, 0, 0, 0, 0])) <;>
  cases optBytes (decide (m.curves.length > 0)) (ext c.extSupportedCurves (vec16x2 (some (w16s m.curves)))) <;>
  cases optBytes (decide (m.sigAlgs.length > 0)) (ext c.extSignatureAlgorithms (vec16x2 (some (w16s m.sigAlgs)))) <;>
  cases optBytes (decide (m.alpn.length > 0)) (ext c.extALPN (vec16x2 (concatMapM alpnItem m.alpn))) <;>
  cases optBytes (decide (m.clientId.length > 0)) (ext c.extClientID (vec16x2 (some m.clientId))) <;> rfl

theorem bld_chExts (m : clientHelloMsg) : bld (chExts m) = encClientExtensions codesT (absCH m) := by
  unfold chExts
  rw [bld_optExt _ _ _ _ (bld_chF7 m _), bld_optExt _ _ _ _ (bld_chF6 m _), bld_optExt _ _ _ _ (bld_chF5 m _),
    bld_optExt _ _ _ _ (bld_chF4 m _), bld_optExt _ _ _ _ (bld_chF3 _), bld_optExt _ _ _ _ (bld_chF2 m _),
    bld_optExt _ _ _ _ (bld_chF1 m _), encClientExtensions_eq, bld_B0, oapp_nil_left]
  simp only [int_pos, absCH, abs_length, List.length_map]

/-- the fixed fields of a ClientHello in the model (`d`: with the dtlcp cookie vector) -/
def chBodyModel (c : Codes) (d : Bool) (m : ClientHello) : Option Bytes :=
  oapp (oapp (oapp (oapp (oapp (some m.vers.bytes) (exactly c.randomLen m.random)) (vec8 m.sessionId))
    (optBytes d (vec8 m.cookie))) (vec16 (w16s m.suites))) (vec8 m.compression)

theorem encClientHelloBody_eq (c : Codes) (d : Bool) (m : ClientHello) :
    encClientHelloBody c d m = (encClientExtensions c m).bind fun e => oapp (chBodyModel c d m) (extBlock e) := by
  unfold encClientHelloBody chBodyModel
  cases encClientExtensions c m with
  | none => rfl
  | some e =>
    simp only [Option.bind_some]
    cases exactly c.randomLen m.random <;> cases vec8 m.sessionId <;> cases optBytes d (vec8 m.cookie) <;>
      cases vec16 (w16s m.suites) <;> cases vec8 m.compression <;> cases extBlock e <;> rfl

theorem encClientHello_eq (c : Codes) (m : ClientHello) (t : BitVec 8) (ht : u8 c.tClientHello = UInt8.ofBitVec t) :
    encClientHello c m = tailModel t (encClientExtensions c m) (chBodyModel c false m) := by
  unfold encClientHello tailModel
  rw [encClientHelloBody_eq, ← ht]
  cases encClientExtensions c m with
  | none => rfl
  | some e =>
    simp only [Option.bind_some]
    cases oapp (chBodyModel c false m) (extBlock e) with
    | none => rfl
    | some b => simp only [Option.bind_some]; cases vec24 b <;> rfl

theorem bld_chBody (m : clientHelloMsg) : bld (chBody m) = chBodyModel codesT false (absCH m) := by
  unfold chBody chBodyModel
  have h32 : ((32 : Int)) = ((32 : Nat) : Int) := rfl
  rw [h32, bld_addLP1, bld_addLP2, bld_addLP1, bld_loop16]
  bld_simp
  simp only [optBytes, Bool.false_eq_true, if_false, oapp_nil_right]
  rfl

/-- **`clientHelloMsg.marshal`** = model encoder, every fresh message object -/
theorem tie_enc_clientHello (m : clientHelloMsg) (h : m.raw = []) :
    EncAgree (setRawCH m) m (clientHelloMsg.marshal m) (encClientHello codesT (absCH m)) := by
  rw [marshal_clientHello_eq m h, encClientHello_eq codesT (absCH m) 1#8 (by decide)]
  exact tail_agree _ m (by cases m; simp only [setRawCH] at *; subst h; rfl) 1#8 _ _ _ _ (bld_chExts m) (bld_chBody m)

end Gotlcp.Tie.CodecEnc

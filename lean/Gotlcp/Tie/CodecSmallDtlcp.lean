/-
Tie by translation, part "Small" of the cryptobyte-based decoders, dtlcp (DESIGN.md 12.4):
`dtlcpUnmarshalHeader`, `finishedMsg.unmarshal`, `certificateVerifyMsg.unmarshal`,
`helloVerifyRequestMsg.unmarshal` of `Gotlcp.Src.dtlcp.codec` (regenerated from
dtlcp/handshake_messages.go by `harness/cmd/go2lean` on every run).  For EVERY receiver and EVERY
byte string:

  * `unmarshalHeader_eq`: `dtlcpUnmarshalHeader data = .ok (hdrSpec data)` — never an error;
    `unmarshalHeader_spec` reads `hdrSpec` off: `ok` exactly when there are 12 bytes and
    fragment_length does not exceed what follows them; then the five numbers are the big-endian
    header fields and `body` is the fragment_length-byte prefix of the rest (all of the rest when
    fragment_length = 0); when not `ok` all seven results are zero values;
    `model_unmarshalHeader`: it is `Model.CodecDtlcp.unmarshalHeader` on the same bytes;
  * `finished_eq`, `certificateVerify_eq`, `helloVerifyRequest_eq`: closed forms of the three decoders
    (no panic; there are no loops);
  * `tie_codec_finished`, `tie_codec_certificateVerify`, `tie_codec_helloVerifyRequest`: accepted with
    the model's header fields and body fields exactly when `Model.CodecDtlcp.decK codesD` accepts,
    refused exactly when it refuses.

Core Lean only.
-/
import Gotlcp.Tie.CodecSmall
import Gotlcp.Tie.UnmarshalDtlcpCodec

set_option linter.unusedSimpArgs false
set_option linter.unusedVariables false

namespace Gotlcp.Tie.CodecSmallDtlcp
open Gotlcp Gotlcp.Wire Gotlcp.Wire.Msg Gotlcp.Model.CodecDtlcp
open Gotlcp.Model.Codec (Codes codesD guardWith)
open Gotlcp.Tie.CbString
open Gotlcp.Tie.UnmarshalDtlcp (u16 u24 u16At u24At)
open Gotlcp.Tie.UnmarshalDtlcpCodec (abs abs_length abs_drop abs_take Agree n24 n16 N24 n24_lt u24_toNat u16_toNat
  completeD completeD_len model_guard hdrView w16_u16 nat24_abs)
open Gotlcp.Tie.CodecSmall (lp8_model lp16_model isEmpty_abs)

/-- the two `abs` (tlcp tie, dtlcp tie) are the same function -/
theorem abs_same : @Gotlcp.Tie.UnmarshalDtlcpCodec.abs = @Gotlcp.Tie.UnmarshalTlcpCodec.abs := rfl

@[simp] theorem abs_nil : abs [] = [] := rfl
@[simp] theorem abs_cons (a : BitVec 8) (l : BV) : abs (a :: l) = UInt8.ofBitVec a :: abs l := rfl

/-- the codec group's copy of `dtlcpIsCompleteMessage` is the same term -/
theorem codec_isComplete (data : BV) (t : BitVec 8) :
    Src.dtlcp.codec.dtlcpIsCompleteMessage data t = .ok (completeD data t) :=
  Gotlcp.Tie.UnmarshalDtlcpCodec.isComplete_eq data t

/-! ## `dtlcpUnmarshalHeader` -/

/-- the seven results: msgType, bodyLen, messageSeq, fragmentOffset, fragmentLength, body, ok -/
abbrev Hdr := BitVec 8 × BitVec 32 × BitVec 16 × BitVec 32 × BitVec 32 × BV × Bool

def hdrZero : Hdr := (0#8, 0#32, 0#16, 0#32, 0#32, [], false)

/-- what `dtlcpUnmarshalHeader` computes -/
def hdrSpec (data : BV) : Hdr :=
  match data with
  | a0 :: a1 :: a2 :: a3 :: a4 :: a5 :: a6 :: a7 :: a8 :: a9 :: a10 :: a11 :: rest =>
    if 0 < (u24 a9 a10 a11).toNat then
      if rest.length < (u24 a9 a10 a11).toNat then hdrZero
      else (a0, u24 a1 a2 a3, u16 a4 a5, u24 a6 a7 a8, u24 a9 a10 a11, rest.take (u24 a9 a10 a11).toNat, true)
    else (a0, u24 a1 a2 a3, u16 a4 a5, u24 a6 a7 a8, u24 a9 a10 a11, rest, true)
  | _ => hdrZero

theorem pos_iff (cl : BitVec 32) : cl > 0#32 ↔ 0 < cl.toNat := by
  show 0#32 < cl ↔ _
  rw [BitVec.lt_def]; simp

/-- the last statements of `dtlcpUnmarshalHeader` (`if fragmentLength > 0 { … body = s[:fragmentLength] } else { body = s }`) -/
theorem hdr_tail (fl : BitVec 32) (s : BV) (K : BV → Hdr) :
    (if decide (fl > 0#32) = true then
        if decide ((fl.toNat : Int) > (s.length : Int)) = true then (Except.ok hdrZero : Except String Hdr)
        else (Go.slice s (0 : Int) (fl.toNat : Int)).bind fun v => Except.ok (K v)
      else Except.ok (K s)) =
    .ok (if 0 < fl.toNat then if s.length < fl.toNat then hdrZero else K (s.take fl.toNat) else K s) := by
  simp only [decide_eq_true_eq]
  by_cases h0 : 0 < fl.toNat
  · rw [if_pos ((pos_iff _).2 h0), if_pos h0]
    by_cases h1 : s.length < fl.toNat
    · rw [if_pos (by omega), if_pos h1]
    · have hs := Gotlcp.Tie.UnmarshalDtlcp.slice_ok s 0 fl.toNat (by omega) (by omega)
      have hs' : Go.slice s (0 : Int) (fl.toNat : Int) = .ok (s.take fl.toNat) := by
        simpa using hs
      rw [if_neg (by omega), if_neg h1, hs']
      rfl
  · rw [if_neg (fun h => h0 ((pos_iff _).1 h)), if_neg h0]

/-- fewer than 12 bytes: one of the five reads fails -/
macro "hdr_short" : tactic =>
  `(tactic| (simp only [Src.dtlcp.codec.dtlcpUnmarshalHeader, dtlcp_ReadUint8, dtlcp_ReadUint16, dtlcp_ReadUint24,
      readUint8_eq, readUint16_eq, readUint24_eq, bind, Except.bind, pure, Except.pure, Bool.not_true,
      Bool.not_false, Bool.false_eq_true, if_false, if_true]; rfl))

theorem unmarshalHeader_eq (data : BV) :
    Src.dtlcp.codec.dtlcpUnmarshalHeader data = .ok (hdrSpec data) := by
  match data with
  | [] => hdr_short
  | [_] => hdr_short
  | [_, _] => hdr_short
  | [_, _, _] => hdr_short
  | [_, _, _, _] => hdr_short
  | [_, _, _, _, _] => hdr_short
  | [_, _, _, _, _, _] => hdr_short
  | [_, _, _, _, _, _, _] => hdr_short
  | [_, _, _, _, _, _, _, _] => hdr_short
  | [_, _, _, _, _, _, _, _, _] => hdr_short
  | [_, _, _, _, _, _, _, _, _, _] => hdr_short
  | [_, _, _, _, _, _, _, _, _, _, _] => hdr_short
  | a0 :: a1 :: a2 :: a3 :: a4 :: a5 :: a6 :: a7 :: a8 :: a9 :: a10 :: a11 :: rest =>
    simp only [Src.dtlcp.codec.dtlcpUnmarshalHeader, dtlcp_ReadUint8, dtlcp_ReadUint16, dtlcp_ReadUint24,
      readUint8_eq, readUint16_eq, readUint24_eq, bind, Gotlcp.Tie.UnmarshalTlcp.ok_bind, pure, Except.pure,
      Bool.not_true, Bool.not_false, Bool.false_eq_true, if_false, if_true]
    exact hdr_tail (u24 a9 a10 a11) rest
      (fun v => (a0, u24 a1 a2 a3, u16 a4 a5, u24 a6 a7 a8, u24 a9 a10 a11, v, true))

theorem u24At_toNat (d : BV) (i : Nat) : (u24At d i).toNat = N24 d i := u24_toNat _ _ _

/-- **`dtlcpUnmarshalHeader`**: never an error; `ok` exactly when `data` has its 12 header bytes and
fragment_length does not exceed the bytes after them; then the outputs are exactly the big-endian
fields of the header and `body` is the fragment_length-byte prefix of the rest (the whole rest when
fragment_length = 0); when not `ok`, every output is its zero value -/
theorem unmarshalHeader_spec (data : BV) :
    ∃ t bl seq fo fl body ok,
      Src.dtlcp.codec.dtlcpUnmarshalHeader data = .ok (t, bl, seq, fo, fl, body, ok) ∧
      (ok = true ↔ 12 ≤ data.length ∧ N24 data 9 ≤ data.length - 12) ∧
      (ok = true →
        t = data.getD 0 0#8 ∧ bl = u24At data 1 ∧ seq = u16At data 4 ∧ fo = u24At data 6 ∧ fl = u24At data 9 ∧
        bl.toNat = N24 data 1 ∧ fo.toNat = N24 data 6 ∧ fl.toNat = N24 data 9 ∧
        body = if N24 data 9 = 0 then data.drop 12 else (data.drop 12).take (N24 data 9)) ∧
      (ok = false → t = 0#8 ∧ bl = 0#32 ∧ seq = 0#16 ∧ fo = 0#32 ∧ fl = 0#32 ∧ body = []) := by
  refine ⟨_, _, _, _, _, _, _, unmarshalHeader_eq data, ?_⟩
  match data with
  | [] => simp [hdrSpec, hdrZero]
  | [_] => simp [hdrSpec, hdrZero]
  | [_, _] => simp [hdrSpec, hdrZero]
  | [_, _, _] => simp [hdrSpec, hdrZero]
  | [_, _, _, _] => simp [hdrSpec, hdrZero]
  | [_, _, _, _, _] => simp [hdrSpec, hdrZero]
  | [_, _, _, _, _, _] => simp [hdrSpec, hdrZero]
  | [_, _, _, _, _, _, _] => simp [hdrSpec, hdrZero]
  | [_, _, _, _, _, _, _, _] => simp [hdrSpec, hdrZero]
  | [_, _, _, _, _, _, _, _, _] => simp [hdrSpec, hdrZero]
  | [_, _, _, _, _, _, _, _, _, _] => simp [hdrSpec, hdrZero]
  | [_, _, _, _, _, _, _, _, _, _, _] => simp [hdrSpec, hdrZero]
  | a0 :: a1 :: a2 :: a3 :: a4 :: a5 :: a6 :: a7 :: a8 :: a9 :: a10 :: a11 :: rest =>
    have e9 : N24 (a0 :: a1 :: a2 :: a3 :: a4 :: a5 :: a6 :: a7 :: a8 :: a9 :: a10 :: a11 :: rest) 9
        = (u24 a9 a10 a11).toNat := by rw [u24_toNat]; rfl
    have e1 : N24 (a0 :: a1 :: a2 :: a3 :: a4 :: a5 :: a6 :: a7 :: a8 :: a9 :: a10 :: a11 :: rest) 1
        = (u24 a1 a2 a3).toNat := by rw [u24_toNat]; rfl
    have e6 : N24 (a0 :: a1 :: a2 :: a3 :: a4 :: a5 :: a6 :: a7 :: a8 :: a9 :: a10 :: a11 :: rest) 6
        = (u24 a6 a7 a8).toNat := by rw [u24_toNat]; rfl
    have el : (a0 :: a1 :: a2 :: a3 :: a4 :: a5 :: a6 :: a7 :: a8 :: a9 :: a10 :: a11 :: rest).length - 12
        = rest.length := by simp only [List.length_cons]; omega
    have el2 : 12 ≤ (a0 :: a1 :: a2 :: a3 :: a4 :: a5 :: a6 :: a7 :: a8 :: a9 :: a10 :: a11 :: rest).length := by
      simp only [List.length_cons]; omega
    have ed : (a0 :: a1 :: a2 :: a3 :: a4 :: a5 :: a6 :: a7 :: a8 :: a9 :: a10 :: a11 :: rest).drop 12 = rest := rfl
    have eu1 : u24At (a0 :: a1 :: a2 :: a3 :: a4 :: a5 :: a6 :: a7 :: a8 :: a9 :: a10 :: a11 :: rest) 1 = u24 a1 a2 a3 := rfl
    have eu4 : u16At (a0 :: a1 :: a2 :: a3 :: a4 :: a5 :: a6 :: a7 :: a8 :: a9 :: a10 :: a11 :: rest) 4 = u16 a4 a5 := rfl
    have eu6 : u24At (a0 :: a1 :: a2 :: a3 :: a4 :: a5 :: a6 :: a7 :: a8 :: a9 :: a10 :: a11 :: rest) 6 = u24 a6 a7 a8 := rfl
    have eu9 : u24At (a0 :: a1 :: a2 :: a3 :: a4 :: a5 :: a6 :: a7 :: a8 :: a9 :: a10 :: a11 :: rest) 9 = u24 a9 a10 a11 := rfl
    have eg : (a0 :: a1 :: a2 :: a3 :: a4 :: a5 :: a6 :: a7 :: a8 :: a9 :: a10 :: a11 :: rest).getD 0 0#8 = a0 := rfl
    rw [e9, e1, e6, el, ed, eu1, eu4, eu6, eu9, eg]
    simp only [hdrSpec]
    by_cases h0 : 0 < (u24 a9 a10 a11).toNat
    · by_cases h1 : rest.length < (u24 a9 a10 a11).toNat
      · simp only [h0, h1, if_true, hdrZero]
        simp; omega
      · simp only [h0, h1, if_true, if_false]
        have hne : ¬ (u24 a9 a10 a11).toNat = 0 := by omega
        simp [hne, el2]; omega
    · simp only [h0, if_false]
      have he : (u24 a9 a10 a11).toNat = 0 := by omega
      simp [he, el2]

/-- the translated header parser is the model's -/
theorem model_unmarshalHeader (data : BV) :
    Model.CodecDtlcp.unmarshalHeader (abs data) =
      if (hdrSpec data).2.2.2.2.2.2 then
        some (UInt8.ofBitVec (hdrSpec data).1, (hdrSpec data).2.1.toNat,
          hdrView (hdrSpec data).2.2.1 (hdrSpec data).2.2.2.1 (hdrSpec data).2.2.2.2.1, abs (hdrSpec data).2.2.2.2.2.1)
      else none := by
  match data with
  | [] => rfl
  | [_] => rfl
  | [_, _] => rfl
  | [_, _, _] => rfl
  | [_, _, _, _] => rfl
  | [_, _, _, _, _] => rfl
  | [_, _, _, _, _, _] => rfl
  | [_, _, _, _, _, _, _] => rfl
  | [_, _, _, _, _, _, _, _] => rfl
  | [_, _, _, _, _, _, _, _, _] => rfl
  | [_, _, _, _, _, _, _, _, _, _] => rfl
  | [_, _, _, _, _, _, _, _, _, _, _] => rfl
  | a0 :: a1 :: a2 :: a3 :: a4 :: a5 :: a6 :: a7 :: a8 :: a9 :: a10 :: a11 :: rest =>
    simp only [Model.CodecDtlcp.unmarshalHeader, abs_cons, readU8, readU24, readW16, nat24_abs, hdrSpec,
      ← u24_toNat, abs_length]
    have hv : ∀ x, hdrView (u16 a4 a5) (u24 a6 a7 a8) x =
        ⟨(UInt8.ofBitVec a4, UInt8.ofBitVec a5), (u24 a6 a7 a8).toNat, x.toNat⟩ := by
      intro x; unfold hdrView; rw [w16_u16]
    by_cases h0 : 0 < (u24 a9 a10 a11).toNat
    · have h0' : (u24 a9 a10 a11).toNat > 0 := h0
      by_cases h1 : rest.length < (u24 a9 a10 a11).toNat
      · have h1' : (u24 a9 a10 a11).toNat > rest.length := h1
        simp only [h0, h0', h1, h1', if_true, hdrZero, Bool.false_eq_true, if_false]
      · have h1' : ¬ (u24 a9 a10 a11).toNat > rest.length := h1
        simp only [h0, h0', h1, h1', if_true, if_false, hv, abs_take]
    · have h0' : ¬ (u24 a9 a10 a11).toNat > 0 := h0
      simp only [h0, h0', if_false, if_true, hv]

/-- 12 or more bytes are 12 bytes and a rest -/
theorem exists12 (data : BV) (h : 12 ≤ data.length) :
    ∃ a0 a1 a2 a3 a4 a5 a6 a7 a8 a9 a10 a11 rest,
      data = a0 :: a1 :: a2 :: a3 :: a4 :: a5 :: a6 :: a7 :: a8 :: a9 :: a10 :: a11 :: rest := by
  match data, h with
  | a0 :: a1 :: a2 :: a3 :: a4 :: a5 :: a6 :: a7 :: a8 :: a9 :: a10 :: a11 :: rest, _ =>
    exact ⟨a0, a1, a2, a3, a4, a5, a6, a7, a8, a9, a10, a11, rest, rfl⟩
  | [], h => simp at h
  | [_], h => simp at h
  | [_, _], h => simp at h
  | [_, _, _], h => simp at h
  | [_, _, _, _], h => simp at h
  | [_, _, _, _, _], h => simp at h
  | [_, _, _, _, _, _], h => simp at h
  | [_, _, _, _, _, _, _], h => simp at h
  | [_, _, _, _, _, _, _, _], h => simp at h
  | [_, _, _, _, _, _, _, _, _], h => simp at h
  | [_, _, _, _, _, _, _, _, _, _], h => simp at h
  | [_, _, _, _, _, _, _, _, _, _, _], h => simp at h

/-- behind the complete-message guard the header parser succeeds, the type is the guarded one, the body
is everything after the 12 bytes and `bodyLen` is its length -/
theorem hdrSpec_complete {data : BV} {t : BitVec 8} (h : completeD data t = true) :
    hdrSpec data = (t, u24At data 1, u16At data 4, u24At data 6, u24At data 9, data.drop 12, true) ∧
    (u24At data 1).toNat = (data.drop 12).length := by
  obtain ⟨hl, hlen, ht⟩ := completeD_len h
  obtain ⟨a0, a1, a2, a3, a4, a5, a6, a7, a8, a9, a10, a11, rest, rfl⟩ := exists12 data hl
  simp only [completeD, Bool.and_eq_true, decide_eq_true_eq, beq_iff_eq] at h
  obtain ⟨_, ⟨_, h9⟩, _⟩ := h
  have e9 : N24 (a0 :: a1 :: a2 :: a3 :: a4 :: a5 :: a6 :: a7 :: a8 :: a9 :: a10 :: a11 :: rest) 9
      = (u24 a9 a10 a11).toNat := by rw [u24_toNat]; rfl
  have e1 : N24 (a0 :: a1 :: a2 :: a3 :: a4 :: a5 :: a6 :: a7 :: a8 :: a9 :: a10 :: a11 :: rest) 1
      = (u24 a1 a2 a3).toNat := by rw [u24_toNat]; rfl
  rw [e9, e1] at h9
  rw [e1] at hlen
  simp only [List.length_cons] at hlen
  have hr : rest.length = (u24 a9 a10 a11).toNat := by omega
  have ht' : a0 = t := ht
  subst ht'
  refine ⟨?_, ?_⟩
  · show hdrSpec _ = (a0, u24 a1 a2 a3, u16 a4 a5, u24 a6 a7 a8, u24 a9 a10 a11, rest, true)
    simp only [hdrSpec]
    by_cases h0 : 0 < (u24 a9 a10 a11).toNat
    · simp only [h0, if_true]
      rw [if_neg (by omega), ← hr, List.take_length]
    · simp only [h0, if_false]
  · show (u24 a1 a2 a3).toNat = rest.length
    omega

/-! ## the literals of the translated text are the regenerated facts -/

theorem codes_facts :
    u8 codesD.tFinished = UInt8.ofBitVec 20#8 ∧ u8 codesD.tCertificateVerify = UInt8.ofBitVec 15#8 ∧
    u8 codesD.tHelloVerifyRequest = UInt8.ofBitVec 3#8 ∧
    codesD.complete.contains codesD.tFinished = true ∧ codesD.complete.contains codesD.tCertificateVerify = true ∧
    codesD.complete.contains codesD.tHelloVerifyRequest = true ∧ codesD.maxHandshake = 65536 := by
  decide

/-- the header as the model sees it, behind the guard -/
theorem model_header_complete {data : BV} {t : BitVec 8} (h : completeD data t = true) :
    Model.CodecDtlcp.unmarshalHeader (abs data) =
      some (UInt8.ofBitVec t, (data.drop 12).length, hdrView (u16At data 4) (u24At data 6) (u24At data 9),
        abs (data.drop 12)) := by
  obtain ⟨hs, hlen⟩ := hdrSpec_complete h
  rw [model_unmarshalHeader, hs]
  simp only [if_true, hlen]

/-! ## `finishedMsg.unmarshal` -/

/-- what `finishedMsg.unmarshal` computes: behind the guard `bodyLen` is the number of bytes after the
header, so `make([]byte, bodyLen); copy(…, body)` is the body itself; a body of more than `maxHandshake`
bytes is refused after the header fields have been stored -/
def finSpec (m : Src.dtlcp.codec.finishedMsg) (data : BV) : Src.dtlcp.codec.finishedMsg × Bool :=
  if completeD data 20#8 then
    if 65536 < (u24At data 1).toNat then
      ({ raw := data, verifyData := m.verifyData, messageSeq := u16At data 4, fragmentOffset := u24At data 6,
         fragmentLength := u24At data 9 }, false)
    else
      ({ raw := data, verifyData := data.drop 12, messageSeq := u16At data 4, fragmentOffset := u24At data 6,
         fragmentLength := u24At data 9 }, true)
  else (m, false)

theorem gt_lit (x : BitVec 32) : (x > 65536#32) ↔ 65536 < x.toNat := by
  show 65536#32 < x ↔ _
  rw [BitVec.lt_def]; rfl

theorem finished_eq (m : Src.dtlcp.codec.finishedMsg) (data : BV) :
    Src.dtlcp.codec.finishedMsg.unmarshal m data = .ok (finSpec m data) := by
  unfold Src.dtlcp.codec.finishedMsg.unmarshal finSpec
  cases hc : completeD data 20#8
  · simp only [codec_isComplete, bind, Gotlcp.Tie.UnmarshalTlcp.ok_bind, pure, Except.pure, hc]
    rfl
  · obtain ⟨hs, hlen⟩ := hdrSpec_complete hc
    simp only [codec_isComplete, unmarshalHeader_eq, bind, Gotlcp.Tie.UnmarshalTlcp.ok_bind, pure, Except.pure, hc,
      hs, Bool.not_true, Bool.false_eq_true, if_false, bne_self_eq_false, Bool.or_false, if_true, decide_eq_true_eq,
      gt_lit]
    by_cases hb : 65536 < (u24At data 1).toNat
    · rw [if_pos hb, if_pos hb]
    · rw [if_neg hb, if_neg hb, Gotlcp.Tie.UnmarshalDtlcp.make_ok, Gotlcp.Tie.UnmarshalTlcp.ok_bind,
        Gotlcp.Tie.UnmarshalDtlcp.copyInto_full _ _ (by rw [List.length_replicate, hlen]),
        Gotlcp.Tie.UnmarshalTlcp.ok_bind]

theorem padTo_full (n : Nat) (b : Gotlcp.Bytes) (h : b.length = n) : padTo n b = b := by
  unfold padTo
  rw [List.take_append_of_le_length (by omega), ← h, List.take_length]

theorem model_finished (m : Src.dtlcp.codec.finishedMsg) (data : BV) :
    decFinished codesD (abs data) =
      if (finSpec m data).2 then
        .ok (hdrView (finSpec m data).1.messageSeq (finSpec m data).1.fragmentOffset (finSpec m data).1.fragmentLength,
          ⟨abs (finSpec m data).1.verifyData⟩)
      else .reject := by
  unfold decFinished
  rw [model_guard data 20#8 _ codes_facts.1 codes_facts.2.2.2.1]
  unfold finSpec
  cases hc : completeD data 20#8
  · simp
  · obtain ⟨hs, hlen⟩ := hdrSpec_complete hc
    simp only [if_true, model_header_complete hc, codes_facts.1, ne_eq, not_true_eq_false, if_false,
      codes_facts.2.2.2.2.2.2]
    by_cases hb : 65536 < (u24At data 1).toNat
    · rw [if_pos (by rw [← hlen]; exact hb), if_pos hb]
      simp
    · rw [if_neg (by rw [← hlen]; exact hb), if_neg hb]
      simp only [if_true]
      rw [padTo_full _ _ (by rw [abs_length])]

/-- **`finishedMsg.unmarshal`** = model: accepted with the model's header fields and verify_data, or refused -/
theorem tie_codec_finished (m : Src.dtlcp.codec.finishedMsg) (data : BV) :
    Agree (fun m' => (hdrView m'.messageSeq m'.fragmentOffset m'.fragmentLength, (⟨abs m'.verifyData⟩ : Blob)))
      (Src.dtlcp.codec.finishedMsg.unmarshal m data) (decFinished codesD (abs data)) := by
  rw [finished_eq, model_finished m data]
  cases h : (finSpec m data).2
  · exact ⟨(finSpec m data).1, by rw [← h]⟩
  · exact ⟨(finSpec m data).1, by rw [← h], rfl⟩

/-- an accepted verify_data is the input without the 12-byte header, at most `maxHandshake` bytes -/
theorem finSpec_len (m : Src.dtlcp.codec.finishedMsg) (data : BV) (h : (finSpec m data).2 = true) :
    (finSpec m data).1.verifyData.length + 12 = data.length ∧ (finSpec m data).1.verifyData.length ≤ 65536 := by
  unfold finSpec at h ⊢
  cases hc : completeD data 20#8
  · rw [hc] at h; simp at h
  · obtain ⟨hs, hlen⟩ := hdrSpec_complete hc
    obtain ⟨hl, _, _⟩ := completeD_len hc
    rw [hc] at h
    by_cases hb : 65536 < (u24At data 1).toNat
    · simp [hb] at h
    · simp only [if_true, hb, if_false, List.length_drop] at hlen ⊢
      omega

/-! ## `certificateVerifyMsg.unmarshal` -/

def cvSpec (m : Src.dtlcp.codec.certificateVerifyMsg) (data : BV) : Src.dtlcp.codec.certificateVerifyMsg × Bool :=
  if completeD data 15#8 then
    ({ raw := data, signature := (lpSpec (data.drop 12) m.signature 2).2.1, messageSeq := u16At data 4,
       fragmentOffset := u24At data 6, fragmentLength := u24At data 9 },
      (lpSpec (data.drop 12) m.signature 2).2.2 && (lpSpec (data.drop 12) m.signature 2).1.isEmpty)
  else (m, false)

theorem certificateVerify_eq (m : Src.dtlcp.codec.certificateVerifyMsg) (data : BV) :
    Src.dtlcp.codec.certificateVerifyMsg.unmarshal m data = .ok (cvSpec m data) := by
  unfold Src.dtlcp.codec.certificateVerifyMsg.unmarshal cvSpec
  cases hc : completeD data 15#8
  · simp only [codec_isComplete, bind, Gotlcp.Tie.UnmarshalTlcp.ok_bind, pure, Except.pure, hc]
    rfl
  · obtain ⟨hs, hlen⟩ := hdrSpec_complete hc
    simp only [codec_isComplete, unmarshalHeader_eq, bind, Gotlcp.Tie.UnmarshalTlcp.ok_bind, pure, Except.pure, hc,
      hs, Bool.not_true, Bool.false_eq_true, if_false, bne_self_eq_false, Bool.or_false, if_true,
      dtlcp_readUint16LengthPrefixed, readUint16LP_eq, dtlcp_Empty, empty_eq]

theorem model_certificateVerify (m : Src.dtlcp.codec.certificateVerifyMsg) (data : BV) :
    decCertificateVerify codesD (abs data) =
      if (cvSpec m data).2 then
        .ok (hdrView (cvSpec m data).1.messageSeq (cvSpec m data).1.fragmentOffset (cvSpec m data).1.fragmentLength,
          ⟨abs (cvSpec m data).1.signature⟩)
      else .reject := by
  unfold decCertificateVerify
  rw [model_guard data 15#8 _ codes_facts.2.1 codes_facts.2.2.2.2.1]
  unfold cvSpec
  cases hc : completeD data 15#8
  · simp
  · simp only [if_true, model_header_complete hc, codes_facts.2.1, ne_eq, not_true_eq_false, if_false]
    have hl := lp16_model (data.drop 12) m.signature
    rw [← abs_same] at hl
    rw [hl]
    cases h1 : (lpSpec (data.drop 12) m.signature 2).2.2
    · simp
    · have he := isEmpty_abs (lpSpec (data.drop 12) m.signature 2).1
      rw [← abs_same] at he
      simp only [if_true, he, Bool.true_and]

/-- **`certificateVerifyMsg.unmarshal`** = model: accepted with the model's header fields and signature, or refused -/
theorem tie_codec_certificateVerify (m : Src.dtlcp.codec.certificateVerifyMsg) (data : BV) :
    Agree (fun m' => (hdrView m'.messageSeq m'.fragmentOffset m'.fragmentLength, (⟨abs m'.signature⟩ : Blob)))
      (Src.dtlcp.codec.certificateVerifyMsg.unmarshal m data) (decCertificateVerify codesD (abs data)) := by
  rw [certificateVerify_eq, model_certificateVerify m data]
  cases h : (cvSpec m data).2
  · exact ⟨(cvSpec m data).1, by rw [← h]⟩
  · exact ⟨(cvSpec m data).1, by rw [← h], rfl⟩

theorem cvSpec_len (m : Src.dtlcp.codec.certificateVerifyMsg) (data : BV) (h : (cvSpec m data).2 = true) :
    (cvSpec m data).1.signature.length + 14 = data.length := by
  unfold cvSpec at h ⊢
  cases hc : completeD data 15#8
  · rw [hc] at h; simp at h
  · obtain ⟨hl, _, _⟩ := completeD_len hc
    rw [hc] at h
    simp only [if_true, Bool.and_eq_true, List.isEmpty_iff] at h ⊢
    have := lpSpec_length _ _ _ h.1
    rw [h.2] at this
    simp only [List.length_drop, List.length_nil] at this ⊢
    omega

/-! ## `helloVerifyRequestMsg.unmarshal` -/

/-- what `helloVerifyRequestMsg.unmarshal` computes: behind the guard the receiver is RESET (`*m = …{raw: data}`),
the header fields are stored, then `server_version` (2 bytes) and an 8-bit length-prefixed cookie that must end
the message -/
def hvrSpec (m : Src.dtlcp.codec.helloVerifyRequestMsg) (data : BV) : Src.dtlcp.codec.helloVerifyRequestMsg × Bool :=
  if completeD data 3#8 then
    match data.drop 12 with
    | a :: b :: s =>
      ({ raw := data, serverVersion := u16 a b, cookie := (lpSpec s [] 1).2.1, messageSeq := u16At data 4,
         fragmentOffset := u24At data 6, fragmentLength := u24At data 9 },
        (lpSpec s [] 1).2.2 && (lpSpec s [] 1).1.isEmpty)
    | _ =>
      ({ raw := data, serverVersion := 0#16, cookie := [], messageSeq := u16At data 4,
         fragmentOffset := u24At data 6, fragmentLength := u24At data 9 }, false)
  else (m, false)

theorem helloVerifyRequest_eq (m : Src.dtlcp.codec.helloVerifyRequestMsg) (data : BV) :
    Src.dtlcp.codec.helloVerifyRequestMsg.unmarshal m data = .ok (hvrSpec m data) := by
  unfold Src.dtlcp.codec.helloVerifyRequestMsg.unmarshal hvrSpec
  cases hc : completeD data 3#8
  · simp only [codec_isComplete, bind, Gotlcp.Tie.UnmarshalTlcp.ok_bind, pure, Except.pure, hc]
    rfl
  · obtain ⟨hs, hlen⟩ := hdrSpec_complete hc
    simp only [codec_isComplete, unmarshalHeader_eq, bind, Gotlcp.Tie.UnmarshalTlcp.ok_bind, pure, Except.pure, hc,
      hs, Bool.not_true, Bool.false_eq_true, if_false, bne_self_eq_false, Bool.or_false, if_true,
      dtlcp_ReadUint16, readUint16_eq, dtlcp_readUint8LengthPrefixed, readUint8LP_eq, dtlcp_Empty, empty_eq]
    generalize data.drop 12 = body
    match body with
    | [] => rfl
    | [_] => rfl
    | a :: b :: s => rfl

theorem model_helloVerifyRequest (m : Src.dtlcp.codec.helloVerifyRequestMsg) (data : BV) :
    decHelloVerifyRequest codesD (abs data) =
      if (hvrSpec m data).2 then
        .ok (hdrView (hvrSpec m data).1.messageSeq (hvrSpec m data).1.fragmentOffset (hvrSpec m data).1.fragmentLength,
          ⟨W16.ofNat (hvrSpec m data).1.serverVersion.toNat, abs (hvrSpec m data).1.cookie⟩)
      else .reject := by
  unfold decHelloVerifyRequest
  rw [model_guard data 3#8 _ codes_facts.2.2.1 codes_facts.2.2.2.2.2.1]
  unfold hvrSpec
  cases hc : completeD data 3#8
  · simp
  · simp only [if_true, model_header_complete hc, codes_facts.2.2.1, ne_eq, not_true_eq_false, if_false]
    generalize data.drop 12 = body
    match body with
    | [] => rfl
    | [_] => rfl
    | a :: b :: s =>
      have hl := lp8_model s []
      rw [← abs_same] at hl
      simp only [abs_cons, readW16, hl]
      cases h1 : (lpSpec s [] 1).2.2
      · simp
      · have he := isEmpty_abs (lpSpec s [] 1).1
        rw [← abs_same] at he
        simp only [if_true, he, Bool.true_and, w16_u16]

/-- **`helloVerifyRequestMsg.unmarshal`** = model: accepted with the model's header fields, server_version and
cookie, or refused -/
theorem tie_codec_helloVerifyRequest (m : Src.dtlcp.codec.helloVerifyRequestMsg) (data : BV) :
    Agree (fun m' => (hdrView m'.messageSeq m'.fragmentOffset m'.fragmentLength,
        (⟨W16.ofNat m'.serverVersion.toNat, abs m'.cookie⟩ : HelloVerifyRequest)))
      (Src.dtlcp.codec.helloVerifyRequestMsg.unmarshal m data) (decHelloVerifyRequest codesD (abs data)) := by
  rw [helloVerifyRequest_eq, model_helloVerifyRequest m data]
  cases h : (hvrSpec m data).2
  · exact ⟨(hvrSpec m data).1, by rw [← h]⟩
  · exact ⟨(hvrSpec m data).1, by rw [← h], rfl⟩

theorem hvrSpec_len (m : Src.dtlcp.codec.helloVerifyRequestMsg) (data : BV) (h : (hvrSpec m data).2 = true) :
    (hvrSpec m data).1.cookie.length + 15 = data.length ∧ (hvrSpec m data).1.cookie.length < 256 := by
  unfold hvrSpec at h ⊢
  cases hc : completeD data 3#8
  · rw [hc] at h; simp at h
  · obtain ⟨hl, _, _⟩ := completeD_len hc
    rw [hc] at h
    have hd : (data.drop 12).length + 12 = data.length := by rw [List.length_drop]; omega
    revert h hd
    generalize data.drop 12 = body
    intro h hd
    match body, h, hd with
    | [], h, _ => simp at h
    | [_], h, _ => simp at h
    | a :: b :: s, h, hd =>
      simp only [if_true, Bool.and_eq_true, List.isEmpty_iff] at h ⊢
      have h3 := lpSpec_length _ _ _ h.1
      obtain ⟨h4, h5, e⟩ := lpSpec_ok _ _ _ h.1
      rw [h.2] at h3
      simp only [List.length_cons, List.length_nil] at h3 hd
      refine ⟨by omega, ?_⟩
      match s, h4, e with
      | x :: s', _, e =>
        rw [e]
        simp only [List.take_succ_cons, List.take_zero, Gotlcp.Tie.CodecSmall.be32_1, List.length_take]
        have := x.isLt
        omega

/-! ## reading an `Agree` (the dtlcp tie's `Agree` is the tlcp tie's, unfolded) -/

theorem agree_accept {M α : Type} {view : M → α} {r : Except String (M × Bool)} {o : Outcome α} {m' : M}
    (ha : Agree view r o) (h : r = .ok (m', true)) : o = .ok (view m') :=
  Gotlcp.Tie.CodecSmall.agree_accept (show Gotlcp.Tie.UnmarshalTlcpCodec.Agree view r o from ha) h

theorem agree_refuse {M α : Type} {view : M → α} {r : Except String (M × Bool)} {o : Outcome α} {m' : M}
    (ha : Agree view r o) (h : r = .ok (m', false)) : o = .reject :=
  Gotlcp.Tie.CodecSmall.agree_refuse (show Gotlcp.Tie.UnmarshalTlcpCodec.Agree view r o from ha) h

theorem abs_unabs (b : Gotlcp.Bytes) : abs (Gotlcp.Tie.CodecSmall.unabs b) = b :=
  Gotlcp.Tie.CodecSmall.abs_unabs b

end Gotlcp.Tie.CodecSmallDtlcp

/-
Tie by translation, the ENCODERS of dtlcp/handshake_messages.go, part 1: the twelve-byte header
(`dtlcpWriteHeader`, `dtlcpMarshalHeader`), `messageType`, and the hand-written marshals
(finished, certificateVerify, helloVerifyRequest, serverKeyExchange, clientKeyExchange,
serverHelloDone).  The hello messages are in Tie/CodecEncDtlcpHello.lean.  certificateMsg.marshal and
certificateRequestMsg.marshal are not translated (moving window; model + correspondence only).

Every statement is about `Gotlcp.Src.dtlcp.codec.*`, regenerated from the Go source on every run, and
compares with `Gotlcp.Model.CodecDtlcp` instantiated with the regenerated facts `codesD`; a dtlcp
message object is abstracted to the pair (header fields `hdrView`, body fields).

None of the hand-written marshals can fail: no Go panic (`Except.error`) and a nil `error`, for every
object; their length fields truncate as the Go conversions do (the model says the same).

Core Lean only.
-/
import Gotlcp.Tie.CodecEnc
import Gotlcp.Tie.UnmarshalDtlcpCodec

set_option linter.unusedSimpArgs false
set_option linter.unusedVariables false

namespace Gotlcp.Tie.CodecEncDtlcp
open Gotlcp Gotlcp.Wire Gotlcp.Wire.Msg Gotlcp.Model.CodecDtlcp Gotlcp.Tie.CbBuilder Gotlcp.Tie.CodecEnc
open Gotlcp.Model.Codec (Codes codesD)
open Gotlcp.Src.dtlcp.codec
open Gotlcp.Tie.UnmarshalTlcpCodec (abs abs_nil abs_cons abs_append abs_length)
open Gotlcp.Tie.UnmarshalDtlcpCodec (hdrView byte_bv byte_bv0 u8_toNat_bv)

/-! ## the header -/

/-- the twelve bytes `dtlcpWriteHeader` stores -/
def hdrBytes (t : BitVec 8) (n : Int) (seq : BitVec 16) (fo fl : BitVec 32) : BV :=
  [t, BitVec.ofInt 8 (n >>> 16), BitVec.ofInt 8 (n >>> 8), BitVec.ofInt 8 n,
   BitVec.setWidth 8 (seq >>> 8), BitVec.setWidth 8 seq,
   BitVec.setWidth 8 (fo >>> 16), BitVec.setWidth 8 (fo >>> 8), BitVec.setWidth 8 fo,
   BitVec.setWidth 8 (fl >>> 16), BitVec.setWidth 8 (fl >>> 8), BitVec.setWidth 8 fl]

/-- `fragLen := m.fragmentLength; if fragLen == 0 { fragLen = uint32(bodyLen) }` -/
def fragLenOr (fl : BitVec 32) (n : Int) : BitVec 32 := if fl == 0#32 then BitVec.ofInt 32 n else fl

/-- the codec group's copy of `dtlcpWriteHeader` is the one Tie/UnmarshalDtlcp*.lean is about -/
theorem writeHeader_same : @Src.dtlcp.codec.dtlcpWriteHeader = @Src.dtlcp.dtlcpWriteHeader := rfl

theorem writeHeader_cons (b0 b1 b2 b3 b4 b5 b6 b7 b8 b9 b10 b11 : BitVec 8) (rest : BV) (t : BitVec 8) (n : Int)
    (seq : BitVec 16) (fo fl : BitVec 32) :
    dtlcpWriteHeader (b0 :: b1 :: b2 :: b3 :: b4 :: b5 :: b6 :: b7 :: b8 :: b9 :: b10 :: b11 :: rest) t n seq fo fl =
      .ok (hdrBytes t n seq fo fl ++ rest) := rfl

theorem be24_mod (n : Nat) : be24 (n % 4294967296) = be24 n := by
  unfold be24
  have e1 : u8 (n % 4294967296 / 65536) = u8 (n / 65536) := by
    apply UInt8.toNat_inj.mp; rw [u8_toNat, u8_toNat]; omega
  have e2 : u8 (n % 4294967296 / 256) = u8 (n / 256) := by
    apply UInt8.toNat_inj.mp; rw [u8_toNat, u8_toNat]; omega
  have e3 : u8 (n % 4294967296) = u8 n := by
    apply UInt8.toNat_inj.mp; rw [u8_toNat, u8_toNat]; omega
  rw [e1, e2, e3]

theorem be24_bv (x : BitVec 32) :
    [UInt8.ofBitVec (BitVec.setWidth 8 (x >>> 16)), UInt8.ofBitVec (BitVec.setWidth 8 (x >>> 8)),
      UInt8.ofBitVec (BitVec.setWidth 8 x)] = be24 x.toNat := by
  rw [byte_bv x 16, byte_bv x 8, byte_bv0 x]; rfl

/-- the header bytes are the model's `header` of the object's three header fields -/
theorem abs_hdrBytes (t : BitVec 8) (T : Nat) (hT : u8 T = UInt8.ofBitVec t) (n : Nat) (seq : BitVec 16)
    (fo fl : BitVec 32) :
    abs (hdrBytes t (n : Int) seq fo (fragLenOr fl (n : Int))) = header T n (hdrView seq fo fl) := by
  unfold hdrBytes header writeHeader hdrView
  simp only [abs_cons, abs_nil]
  rw [byte_int n 16, byte_int n 8, byte_int0, byte_bv seq 8, byte_bv0 seq, hT]
  have hfo := be24_bv fo
  have hfl := be24_bv (fragLenOr fl (n : Int))
  simp only [be24, List.cons.injEq, and_true] at hfo hfl
  rw [hfo.1, hfo.2.1, hfo.2.2, hfl.1, hfl.2.1, hfl.2.2]
  have hlen : be24 (fragLenOr fl (n : Int)).toNat = be24 (if fl.toNat = 0 then n else fl.toNat) := by
    unfold fragLenOr
    by_cases h0 : fl = 0#32
    · subst h0
      simp only [beq_self_eq_true, if_true, BitVec.toNat_ofNat, Nat.zero_mod]
      rw [BitVec.ofInt_natCast, BitVec.toNat_ofNat]
      exact be24_mod n
    · have hb : (fl == 0#32) = false := by simpa using h0
      have hn : fl.toNat ≠ 0 := fun e => h0 (BitVec.eq_of_toNat_eq (by simpa using e))
      simp only [hb, Bool.false_eq_true, if_false, hn]
  simp only [be24, List.cons.injEq, and_true] at hlen
  rw [hlen.1, hlen.2.1, hlen.2.2]
  rfl

/-- the two abstractions of a 16-bit value (`w16`: its two bytes; `hdrView` uses `W16.ofNat`) coincide -/
theorem w16_eq (v : BitVec 16) : w16 v = W16.ofNat v.toNat := by
  unfold w16 W16.ofNat
  rw [byte_bv v 8, byte_bv0 v]

/-! ## `make`, `copy` at the offsets the dtlcp marshals use -/

theorem make12 (n : Nat) : Go.make (0#8) ((12 : Int) + (n : Int)) =
    .ok (0#8 :: 0#8 :: 0#8 :: 0#8 :: 0#8 :: 0#8 :: 0#8 :: 0#8 :: 0#8 :: 0#8 :: 0#8 :: 0#8 :: List.replicate n 0#8) := by
  have : ((12 : Int) + (n : Int)) = (n : Int) + ((12 : Nat) : Int) := by omega
  rw [this]; exact makeN n 12
theorem make12_2 (n : Nat) : Go.make (0#8) ((12 : Int) + ((2 : Int) + (n : Int))) =
    .ok (0#8 :: 0#8 :: 0#8 :: 0#8 :: 0#8 :: 0#8 :: 0#8 :: 0#8 :: 0#8 :: 0#8 :: 0#8 :: 0#8 :: 0#8 :: 0#8 ::
      List.replicate n 0#8) := by
  have : ((12 : Int) + ((2 : Int) + (n : Int))) = (n : Int) + ((14 : Nat) : Int) := by omega
  rw [this]; exact makeN n 14
theorem make12_3 (n : Nat) : Go.make (0#8) ((12 : Int) + ((3 : Int) + (n : Int))) =
    .ok (0#8 :: 0#8 :: 0#8 :: 0#8 :: 0#8 :: 0#8 :: 0#8 :: 0#8 :: 0#8 :: 0#8 :: 0#8 :: 0#8 :: 0#8 :: 0#8 :: 0#8 ::
      List.replicate n 0#8) := by
  have : ((12 : Int) + ((3 : Int) + (n : Int))) = (n : Int) + ((15 : Nat) : Int) := by omega
  rw [this]; exact makeN n 15

theorem copy12 (x0 x1 x2 x3 x4 x5 x6 x7 x8 x9 x10 x11 : BitVec 8) (rest src : BV) (h : rest.length = src.length) :
    Go.copyInto (x0 :: x1 :: x2 :: x3 :: x4 :: x5 :: x6 :: x7 :: x8 :: x9 :: x10 :: x11 :: rest) (12 : Int)
      ((x0 :: x1 :: x2 :: x3 :: x4 :: x5 :: x6 :: x7 :: x8 :: x9 :: x10 :: x11 :: rest).length : Int) src =
      .ok (x0 :: x1 :: x2 :: x3 :: x4 :: x5 :: x6 :: x7 :: x8 :: x9 :: x10 :: x11 :: src) :=
  copyInto_tail [x0, x1, x2, x3, x4, x5, x6, x7, x8, x9, x10, x11] rest src 12 rfl h
theorem copy14 (x0 x1 x2 x3 x4 x5 x6 x7 x8 x9 x10 x11 x12 x13 : BitVec 8) (rest src : BV)
    (h : rest.length = src.length) :
    Go.copyInto (x0 :: x1 :: x2 :: x3 :: x4 :: x5 :: x6 :: x7 :: x8 :: x9 :: x10 :: x11 :: x12 :: x13 :: rest) (14 : Int)
      ((x0 :: x1 :: x2 :: x3 :: x4 :: x5 :: x6 :: x7 :: x8 :: x9 :: x10 :: x11 :: x12 :: x13 :: rest).length : Int) src =
      .ok (x0 :: x1 :: x2 :: x3 :: x4 :: x5 :: x6 :: x7 :: x8 :: x9 :: x10 :: x11 :: x12 :: x13 :: src) :=
  copyInto_tail [x0, x1, x2, x3, x4, x5, x6, x7, x8, x9, x10, x11, x12, x13] rest src 14 rfl h
theorem copy15 (x0 x1 x2 x3 x4 x5 x6 x7 x8 x9 x10 x11 x12 x13 x14 : BitVec 8) (rest src : BV)
    (h : rest.length = src.length) :
    Go.copyInto (x0 :: x1 :: x2 :: x3 :: x4 :: x5 :: x6 :: x7 :: x8 :: x9 :: x10 :: x11 :: x12 :: x13 :: x14 :: rest)
      (15 : Int)
      ((x0 :: x1 :: x2 :: x3 :: x4 :: x5 :: x6 :: x7 :: x8 :: x9 :: x10 :: x11 :: x12 :: x13 :: x14 :: rest).length : Int)
      src =
      .ok (x0 :: x1 :: x2 :: x3 :: x4 :: x5 :: x6 :: x7 :: x8 :: x9 :: x10 :: x11 :: x12 :: x13 :: x14 :: src) :=
  copyInto_tail [x0, x1, x2, x3, x4, x5, x6, x7, x8, x9, x10, x11, x12, x13, x14] rest src 15 rfl h

/-- twelve indexed stores `x[0] = v0 … x[11] = v11` on a slice of at least twelve bytes (the inline header
of the key-exchange marshals), followed by the rest `k` of the function -/
theorem sets12 {R : Type} (x0 x1 x2 x3 x4 x5 x6 x7 x8 x9 x10 x11 v0 v1 v2 v3 v4 v5 v6 v7 v8 v9 v10 v11 : BitVec 8) (rest : BV) (k : BV → Except String R) :
    Except.bind (Go.set (x0 :: x1 :: x2 :: x3 :: x4 :: x5 :: x6 :: x7 :: x8 :: x9 :: x10 :: x11 :: rest) (0 : Int) v0) (fun x =>
      Except.bind (Go.set x (1 : Int) v1) (fun x =>
      Except.bind (Go.set x (2 : Int) v2) (fun x =>
      Except.bind (Go.set x (3 : Int) v3) (fun x =>
      Except.bind (Go.set x (4 : Int) v4) (fun x =>
      Except.bind (Go.set x (5 : Int) v5) (fun x =>
      Except.bind (Go.set x (6 : Int) v6) (fun x =>
      Except.bind (Go.set x (7 : Int) v7) (fun x =>
      Except.bind (Go.set x (8 : Int) v8) (fun x =>
      Except.bind (Go.set x (9 : Int) v9) (fun x =>
      Except.bind (Go.set x (10 : Int) v10) (fun x =>
      Except.bind (Go.set x (11 : Int) v11) k))))))))))) =
      k (v0 :: v1 :: v2 :: v3 :: v4 :: v5 :: v6 :: v7 :: v8 :: v9 :: v10 :: v11 :: rest) := rfl

/-! ## `dtlcpMarshalHeader` -/

/-- `dtlcpMarshalHeader` never fails and returns header ++ body -/
theorem marshalHeader_eq (t : BitVec 8) (body : BV) (seq : BitVec 16) (fo fl : BitVec 32) :
    dtlcpMarshalHeader t body seq fo fl =
      .ok (hdrBytes t (body.length : Int) seq fo (fragLenOr fl (body.length : Int)) ++ body, none) := by
  unfold dtlcpMarshalHeader fragLenOr
  cases hfl : (fl == 0#32) <;>
  · simp only [hfl, Bool.false_eq_true, if_false, if_true, make12, bind, ebind_ok, pure, Except.pure, writeHeader_cons,
      hdrBytes, List.cons_append, List.nil_append]
    rw [copy12 _ _ _ _ _ _ _ _ _ _ _ _ _ _ (by simp)]
    rfl

/-- **`dtlcpMarshalHeader`** writes the model's header in front of the body -/
theorem tie_marshalHeader (t : BitVec 8) (T : Nat) (hT : u8 T = UInt8.ofBitVec t) (body : BV) (seq : BitVec 16)
    (fo fl : BitVec 32) :
    ∃ x, dtlcpMarshalHeader t body seq fo fl = .ok (x, none) ∧
      abs x = header T body.length (hdrView seq fo fl) ++ abs body := by
  refine ⟨_, marshalHeader_eq t body seq fo fl, ?_⟩
  rw [abs_append, abs_hdrBytes t T hT]

/-! ## `messageType` -/

theorem messageTypes :
    (∀ m, clientHelloMsg.messageType m = 1#8) ∧ (∀ m, serverHelloMsg.messageType m = 2#8) ∧
    (∀ m, helloVerifyRequestMsg.messageType m = 3#8) ∧ (∀ m, certificateMsg.messageType m = 11#8) ∧
    (∀ m, serverKeyExchangeMsg.messageType m = 12#8) ∧ (∀ m, serverHelloDoneMsg.messageType m = 14#8) ∧
    (∀ m, certificateVerifyMsg.messageType m = 15#8) ∧ (∀ m, clientKeyExchangeMsg.messageType m = 16#8) ∧
    (∀ m, finishedMsg.messageType m = 20#8) :=
  ⟨fun _ => rfl, fun _ => rfl, fun _ => rfl, fun _ => rfl, fun _ => rfl, fun _ => rfl, fun _ => rfl, fun _ => rfl,
    fun _ => rfl⟩

/-- the literals of the translated text are the regenerated facts the model is instantiated with -/
theorem codes_facts :
    u8 codesD.tClientHello = UInt8.ofBitVec 1#8 ∧ u8 codesD.tServerHello = UInt8.ofBitVec 2#8 ∧
    u8 codesD.tHelloVerifyRequest = UInt8.ofBitVec 3#8 ∧ u8 codesD.tServerKeyExchange = UInt8.ofBitVec 12#8 ∧
    u8 codesD.tServerHelloDone = UInt8.ofBitVec 14#8 ∧ u8 codesD.tCertificateVerify = UInt8.ofBitVec 15#8 ∧
    u8 codesD.tClientKeyExchange = UInt8.ofBitVec 16#8 ∧ u8 codesD.tFinished = UInt8.ofBitVec 20#8 := by
  decide

theorem not_empty {l : BV} (h : l ≠ []) : (!l.isEmpty) = true := by
  cases l with | nil => exact absurd rfl h | cons _ _ => rfl

/-! ## finishedMsg -/

def setRawFin (m : finishedMsg) (r : BV) : finishedMsg := { m with raw := r }

theorem marshal_finished_cached (m : finishedMsg) (h : m.raw ≠ []) : finishedMsg.marshal m = .ok (m, m.raw, none) := by
  unfold finishedMsg.marshal
  simp only [pure, Except.pure, not_empty h, if_true]

def finBytes (m : finishedMsg) : BV :=
  hdrBytes 20#8 (m.verifyData.length : Int) m.messageSeq m.fragmentOffset
    (fragLenOr m.fragmentLength (m.verifyData.length : Int)) ++ m.verifyData

theorem marshal_finished_eq (m : finishedMsg) (h : m.raw = []) :
    finishedMsg.marshal m = .ok (setRawFin m (finBytes m), finBytes m, none) := by
  unfold finishedMsg.marshal finBytes fragLenOr
  cases hfl : (m.fragmentLength == 0#32) <;>
  · simp only [h, List.isEmpty_nil, Bool.not_true, hfl, Bool.false_eq_true, if_false, if_true, make12, bind, ebind_ok,
      pure, Except.pure, writeHeader_cons, hdrBytes, List.cons_append, List.nil_append]
    rw [copy12 _ _ _ _ _ _ _ _ _ _ _ _ _ _ (by simp)]
    rfl

/-- **`finishedMsg.marshal`** (dtlcp) = model encoder; never an error -/
theorem tie_enc_finished (m : finishedMsg) (h : m.raw = []) :
    ∃ bytes, finishedMsg.marshal m = .ok (setRawFin m bytes, bytes, none) ∧
      encFinished codesD (hdrView m.messageSeq m.fragmentOffset m.fragmentLength) ⟨abs m.verifyData⟩ = some (abs bytes) := by
  refine ⟨_, marshal_finished_eq m h, ?_⟩
  unfold encFinished finBytes
  rw [abs_append, abs_hdrBytes 20#8 _ codes_facts.2.2.2.2.2.2.2, abs_length]

/-! ## certificateVerifyMsg -/

def setRawCV (m : certificateVerifyMsg) (r : BV) : certificateVerifyMsg := { m with raw := r }

theorem marshal_certificateVerify_cached (m : certificateVerifyMsg) (h : m.raw ≠ []) :
    certificateVerifyMsg.marshal m = .ok (m, m.raw, none) := by
  unfold certificateVerifyMsg.marshal
  simp only [pure, Except.pure, not_empty h, if_true]

def cvBytes (m : certificateVerifyMsg) : BV :=
  hdrBytes 15#8 ((2 : Int) + (m.signature.length : Int)) m.messageSeq m.fragmentOffset
    (fragLenOr m.fragmentLength ((2 : Int) + (m.signature.length : Int))) ++
  (BitVec.ofInt 8 ((m.signature.length : Int) >>> 8) :: BitVec.ofInt 8 (m.signature.length : Int) :: m.signature)

theorem marshal_certificateVerify_eq (m : certificateVerifyMsg) (h : m.raw = []) :
    certificateVerifyMsg.marshal m = .ok (setRawCV m (cvBytes m), cvBytes m, none) := by
  unfold certificateVerifyMsg.marshal cvBytes fragLenOr
  cases hfl : (m.fragmentLength == 0#32) <;>
  · simp only [h, List.isEmpty_nil, Bool.not_true, hfl, Bool.false_eq_true, if_false, if_true, make12_2, bind,
      ebind_ok, pure, Except.pure, writeHeader_cons, hdrBytes, List.cons_append, List.nil_append, set12, set13]
    rw [copy14 _ _ _ _ _ _ _ _ _ _ _ _ _ _ _ _ (by simp)]
    rfl

theorem int_add (a b : Nat) : ((a : Int) + (b : Int)) = ((a + b : Nat) : Int) := by omega

/-- **`certificateVerifyMsg.marshal`** (dtlcp) = model encoder; never an error (the 16-bit signature
length truncates) -/
theorem tie_enc_certificateVerify (m : certificateVerifyMsg) (h : m.raw = []) :
    ∃ bytes, certificateVerifyMsg.marshal m = .ok (setRawCV m bytes, bytes, none) ∧
      encCertificateVerify codesD (hdrView m.messageSeq m.fragmentOffset m.fragmentLength) ⟨abs m.signature⟩ =
        some (abs bytes) := by
  refine ⟨_, marshal_certificateVerify_eq m h, ?_⟩
  unfold encCertificateVerify cvBytes
  have e : ((2 : Int) + (m.signature.length : Int)) = ((2 + m.signature.length : Nat) : Int) := by omega
  rw [e, abs_append, abs_hdrBytes 15#8 _ codes_facts.2.2.2.2.2.1, abs_length]
  simp only [abs_cons, be16, List.append_assoc, List.cons_append, List.nil_append]
  rw [byte_int _ 8, byte_int0]

/-! ## helloVerifyRequestMsg -/

def setRawHVR (m : helloVerifyRequestMsg) (r : BV) : helloVerifyRequestMsg := { m with raw := r }

theorem marshal_helloVerifyRequest_cached (m : helloVerifyRequestMsg) (h : m.raw ≠ []) :
    helloVerifyRequestMsg.marshal m = .ok (m, m.raw, none) := by
  unfold helloVerifyRequestMsg.marshal
  simp only [pure, Except.pure, not_empty h, if_true]

def hvrBytes (m : helloVerifyRequestMsg) : BV :=
  hdrBytes 3#8 ((3 : Int) + (m.cookie.length : Int)) m.messageSeq m.fragmentOffset
    (fragLenOr m.fragmentLength ((3 : Int) + (m.cookie.length : Int))) ++
  (BitVec.setWidth 8 (m.serverVersion >>> 8) :: BitVec.setWidth 8 m.serverVersion ::
    BitVec.ofInt 8 (m.cookie.length : Int) :: m.cookie)

theorem marshal_helloVerifyRequest_eq (m : helloVerifyRequestMsg) (h : m.raw = []) :
    helloVerifyRequestMsg.marshal m = .ok (setRawHVR m (hvrBytes m), hvrBytes m, none) := by
  unfold helloVerifyRequestMsg.marshal hvrBytes fragLenOr
  cases hfl : (m.fragmentLength == 0#32) <;>
  · simp only [h, List.isEmpty_nil, Bool.not_true, hfl, Bool.false_eq_true, if_false, if_true, make12_3, bind,
      ebind_ok, pure, Except.pure, writeHeader_cons, hdrBytes, List.cons_append, List.nil_append, set12, set13, set14]
    rw [copy15 _ _ _ _ _ _ _ _ _ _ _ _ _ _ _ _ _ (by simp)]
    rfl

/-- the model's view of a `helloVerifyRequestMsg` body -/
def absHVR (m : helloVerifyRequestMsg) : HelloVerifyRequest := ⟨w16 m.serverVersion, abs m.cookie⟩

/-- **`helloVerifyRequestMsg.marshal`** = model encoder; never an error (the 8-bit cookie length truncates) -/
theorem tie_enc_helloVerifyRequest (m : helloVerifyRequestMsg) (h : m.raw = []) :
    ∃ bytes, helloVerifyRequestMsg.marshal m = .ok (setRawHVR m bytes, bytes, none) ∧
      encHelloVerifyRequest codesD (hdrView m.messageSeq m.fragmentOffset m.fragmentLength) (absHVR m) =
        some (abs bytes) := by
  refine ⟨_, marshal_helloVerifyRequest_eq m h, ?_⟩
  unfold encHelloVerifyRequest hvrBytes absHVR
  have e : ((3 : Int) + (m.cookie.length : Int)) = ((3 + m.cookie.length : Nat) : Int) := by omega
  rw [e, abs_append, abs_hdrBytes 3#8 _ codes_facts.2.2.1, abs_length]
  simp only [abs_cons, List.append_assoc, List.cons_append, List.nil_append]
  rw [byte_int0]
  rfl

/-! ## serverKeyExchangeMsg, clientKeyExchangeMsg (header stored inline) -/

def setRawSKX (m : serverKeyExchangeMsg) (r : BV) : serverKeyExchangeMsg := { m with raw := r }
def setRawCKX (m : clientKeyExchangeMsg) (r : BV) : clientKeyExchangeMsg := { m with raw := r }

theorem marshal_serverKeyExchange_cached (m : serverKeyExchangeMsg) (h : m.raw ≠ []) :
    serverKeyExchangeMsg.marshal m = .ok (m, m.raw, none) := by
  unfold serverKeyExchangeMsg.marshal
  simp only [pure, Except.pure, not_empty h, if_true]

def skxBytes (m : serverKeyExchangeMsg) : BV :=
  hdrBytes 12#8 (m.key.length : Int) m.messageSeq m.fragmentOffset (fragLenOr m.fragmentLength (m.key.length : Int)) ++ m.key

theorem marshal_serverKeyExchange_eq (m : serverKeyExchangeMsg) (h : m.raw = []) :
    serverKeyExchangeMsg.marshal m = .ok (setRawSKX m (skxBytes m), skxBytes m, none) := by
  unfold serverKeyExchangeMsg.marshal skxBytes fragLenOr
  cases hfl : (m.fragmentLength == 0#32) <;>
  · simp only [h, List.isEmpty_nil, Bool.not_true, hfl, Bool.false_eq_true, if_false, if_true, make12, bind, ebind_ok,
      pure, Except.pure]
    rw [sets12, copy12 _ _ _ _ _ _ _ _ _ _ _ _ _ _ (by simp)]
    rfl

/-- **`serverKeyExchangeMsg.marshal`** (dtlcp) = model encoder; never an error -/
theorem tie_enc_serverKeyExchange (m : serverKeyExchangeMsg) (h : m.raw = []) :
    ∃ bytes, serverKeyExchangeMsg.marshal m = .ok (setRawSKX m bytes, bytes, none) ∧
      encKeyMsg codesD.tServerKeyExchange (hdrView m.messageSeq m.fragmentOffset m.fragmentLength) ⟨abs m.key⟩ =
        some (abs bytes) := by
  refine ⟨_, marshal_serverKeyExchange_eq m h, ?_⟩
  unfold encKeyMsg skxBytes
  rw [abs_append, abs_hdrBytes 12#8 _ codes_facts.2.2.2.1, abs_length]

theorem marshal_clientKeyExchange_cached (m : clientKeyExchangeMsg) (h : m.raw ≠ []) :
    clientKeyExchangeMsg.marshal m = .ok (m, m.raw, none) := by
  unfold clientKeyExchangeMsg.marshal
  simp only [pure, Except.pure, not_empty h, if_true]

def ckxBytes (m : clientKeyExchangeMsg) : BV :=
  hdrBytes 16#8 (m.ciphertext.length : Int) m.messageSeq m.fragmentOffset
    (fragLenOr m.fragmentLength (m.ciphertext.length : Int)) ++ m.ciphertext

theorem marshal_clientKeyExchange_eq (m : clientKeyExchangeMsg) (h : m.raw = []) :
    clientKeyExchangeMsg.marshal m = .ok (setRawCKX m (ckxBytes m), ckxBytes m, none) := by
  unfold clientKeyExchangeMsg.marshal ckxBytes fragLenOr
  cases hfl : (m.fragmentLength == 0#32) <;>
  · simp only [h, List.isEmpty_nil, Bool.not_true, hfl, Bool.false_eq_true, if_false, if_true, make12, bind, ebind_ok,
      pure, Except.pure]
    rw [sets12, copy12 _ _ _ _ _ _ _ _ _ _ _ _ _ _ (by simp)]
    rfl

/-- **`clientKeyExchangeMsg.marshal`** (dtlcp) = model encoder; never an error -/
theorem tie_enc_clientKeyExchange (m : clientKeyExchangeMsg) (h : m.raw = []) :
    ∃ bytes, clientKeyExchangeMsg.marshal m = .ok (setRawCKX m bytes, bytes, none) ∧
      encKeyMsg codesD.tClientKeyExchange (hdrView m.messageSeq m.fragmentOffset m.fragmentLength) ⟨abs m.ciphertext⟩ =
        some (abs bytes) := by
  refine ⟨_, marshal_clientKeyExchange_eq m h, ?_⟩
  unfold encKeyMsg ckxBytes
  rw [abs_append, abs_hdrBytes 16#8 _ codes_facts.2.2.2.2.2.2.1, abs_length]

/-! ## serverHelloDoneMsg (only type and message_seq are written) -/

def setRawSHD (m : serverHelloDoneMsg) (r : BV) : serverHelloDoneMsg := { m with raw := r }

theorem marshal_serverHelloDone_cached (m : serverHelloDoneMsg) (h : m.raw ≠ []) :
    serverHelloDoneMsg.marshal m = .ok (m, m.raw, none) := by
  unfold serverHelloDoneMsg.marshal
  simp only [pure, Except.pure, not_empty h, if_true]

def shdBytes (m : serverHelloDoneMsg) : BV :=
  [14#8, 0#8, 0#8, 0#8, BitVec.setWidth 8 (m.messageSeq >>> 8), BitVec.setWidth 8 m.messageSeq, 0#8, 0#8, 0#8, 0#8, 0#8, 0#8]

theorem marshal_serverHelloDone_eq (m : serverHelloDoneMsg) (h : m.raw = []) :
    serverHelloDoneMsg.marshal m = .ok (setRawSHD m (shdBytes m), shdBytes m, none) := by
  unfold serverHelloDoneMsg.marshal shdBytes
  simp only [h, List.isEmpty_nil, Bool.not_true, Bool.false_eq_true, if_false]
  rfl

/-- **`serverHelloDoneMsg.marshal`** (dtlcp) = model encoder; never an error -/
theorem tie_enc_serverHelloDone (m : serverHelloDoneMsg) (h : m.raw = []) :
    ∃ bytes, serverHelloDoneMsg.marshal m = .ok (setRawSHD m bytes, bytes, none) ∧
      encServerHelloDone codesD (hdrView m.messageSeq m.fragmentOffset m.fragmentLength) = some (abs bytes) := by
  refine ⟨_, marshal_serverHelloDone_eq m h, ?_⟩
  unfold encServerHelloDone shdBytes hdrView
  simp only [abs_cons, abs_nil, List.cons_append, List.nil_append, W16.bytes, W16.ofNat]
  rw [byte_bv m.messageSeq 8, byte_bv0 m.messageSeq]
  rfl

end Gotlcp.Tie.CodecEncDtlcp

/-
Tie by translation, dtlcp/fragment.go: the definitions `Gotlcp.Src.dtlcp.newFragmentBuffer`,
`fragmentBuffer.addFragment`, `fragmentBuffer.complete`, `fragmentBuffer.assembled` are
regenerated from the Go source on every run by `harness/cmd/go2lean`; the theorems below prove,
for ALL well-formed buffers, offsets, lengths and fragment bodies, that they never panic and
compute what the hand-written model `Gotlcp.Model.Fragment` computes (through the abstraction
`abs`).  The buffer theorems of C17 therefore hold of the translated source text.
-/
import Gotlcp.Generated.Src
import Gotlcp.Model.Fragment
import Gotlcp.Lemmas.Fragment

set_option linter.unusedSimpArgs false
set_option linter.unusedVariables false

namespace Gotlcp.Tie.Fragment
open Gotlcp.Model.Fragment

abbrev SrcBuf := Gotlcp.Src.dtlcp.fragmentBuffer

/-- Go `byte` (`BitVec 8`) read as the model's `UInt8` -/
abbrev ob (b : BitVec 8) : UInt8 := UInt8.ofBitVec b

/-- abstraction: `totalLen uint24` and `numBytes int` as natural numbers, bytes as `UInt8` -/
def abs (fb : SrcBuf) : FragBuf :=
  { total := fb.totalLen.toNat, n := fb.numBytes.toNat,
    data := fb.data.map ob, received := fb.received.map ob }

/-- well-formed translated buffers: what `newFragmentBuffer` establishes and `addFragment`
preserves -/
structure WF (fb : SrcBuf) : Prop where
  npos : 1 ≤ fb.numBytes
  dlen : (fb.data.length : Int) = fb.numBytes
  rlen : (fb.received.length : Int) = (fb.numBytes + 7) / 8
  tot : fb.numBytes = if fb.totalLen.toNat < 1 then 1 else (fb.totalLen.toNat : Int)

/-! ### Go helpers on in-range arguments -/

theorem shr3_int (n : Nat) : ((n : Int) >>> 3) = ((n / 8 : Nat) : Int) := by
  rw [Int.shiftRight_eq_div_pow]; norm_cast

theorem andInt7 (n : Nat) (h : n < 2 ^ 63) : Go.andInt (n : Int) 7 = ((n % 8 : Nat) : Int) := by
  unfold Go.andInt
  rw [BitVec.ofInt_natCast]
  have h7 : BitVec.ofInt 64 7 = 7#64 := by decide
  rw [h7]
  have hn : (BitVec.ofNat 64 n &&& 7#64).toNat = n % 8 := by
    rw [BitVec.toNat_and, BitVec.toNat_ofNat, BitVec.toNat_ofNat]
    have : n % 2 ^ 64 = n := Nat.mod_eq_of_lt (by omega)
    rw [this]
    exact Gotlcp.Lemmas.Fragment.and7 n
  rw [BitVec.toInt_eq_toNat_of_lt (by rw [hn]; omega), hn]

theorem idx_ok (a : List (BitVec 8)) (i : Nat) (h : i < a.length) :
    Go.idx a (i : Int) = .ok (a.getD i 0#8) := by
  unfold Go.idx
  have : ¬ ((i : Int) < 0) := by omega
  simp [this, List.getD_eq_getElem?_getD, List.getElem?_eq_getElem h]

theorem set_ok (a : List (BitVec 8)) (i : Nat) (v : BitVec 8) (h : i < a.length) :
    Go.set a (i : Int) v = .ok (a.set i v) := by
  unfold Go.set
  have : ¬ ((i : Int) < 0) := by omega
  simp [this, h]

theorem getD_map_ob (r : List (BitVec 8)) (j : Nat) : (r.map ob).getD j 0 = ob (r.getD j 0#8) := by
  simp only [List.getD_eq_getElem?_getD, List.getElem?_map]
  cases r[j]? <;> rfl

theorem ob_or_bit (x : BitVec 8) (k : Nat) (hk : k < 8) :
    ob (x ||| 1#8 <<< k) = ob x ||| ((1 : UInt8) <<< UInt8.ofNat k) := by
  have : k = 0 ∨ k = 1 ∨ k = 2 ∨ k = 3 ∨ k = 4 ∨ k = 5 ∨ k = 6 ∨ k = 7 := by omega
  apply UInt8.eq_of_toBitVec_eq
  rcases this with h | h | h | h | h | h | h | h <;> subst h <;> rfl

theorem ob_mask (k : Nat) (hk : k < 8) : ob (1#8 <<< k - 1#8) = UInt8.ofNat ((1 <<< k) - 1) := by
  have : k = 0 ∨ k = 1 ∨ k = 2 ∨ k = 3 ∨ k = 4 ∨ k = 5 ∨ k = 6 ∨ k = 7 := by omega
  rcases this with h | h | h | h | h | h | h | h <;> subst h <;> decide

theorem ob_inj {a b : BitVec 8} : ob a = ob b ↔ a = b := by
  constructor
  · intro h; exact congrArg UInt8.toBitVec h
  · intro h; rw [h]

/-! ### `for k in List.range' a n` in `Except` -/

/-- iterate a pure step function over `a, a+1, …, a+n-1` -/
def iter {σ : Type} (g : Nat → σ → σ) : Nat → Nat → σ → σ
  | _, 0, s => s
  | a, n + 1, s => iter g (a + 1) n (g a s)

/-- a loop whose body cannot fail nor exit early while the invariant holds is `iter` -/
theorem forIn_range'_ok {σ ε : Type} (f : Nat → σ → Except ε (ForInStep σ)) (g : Nat → σ → σ)
    (Inv : σ → Prop) (hi : Nat)
    (hstep : ∀ k s, k < hi → Inv s → f k s = .ok (.yield (g k s)) ∧ Inv (g k s))
    (n a : Nat) (s : σ) (hle : a + n ≤ hi) (h0 : Inv s) :
    forIn (List.range' a n) s f = .ok (iter g a n s) ∧ Inv (iter g a n s) := by
  induction n generalizing a s with
  | zero => exact ⟨rfl, h0⟩
  | succ n ih =>
    obtain ⟨h1, h2⟩ := hstep a s (by omega) h0
    rw [List.range'_succ, List.forIn_cons, h1]
    simp only [iter]
    exact ih (a + 1) (g a s) (by omega) h2

/-- a loop that only tests (leaves with `d` at the first index satisfying `p`) -/
theorem forIn_range'_find {σ ε : Type} (f : Nat → σ → Except ε (ForInStep σ)) (p : Nat → Bool)
    (s d : σ) (hi : Nat)
    (hstep : ∀ k, k < hi → f k s = .ok (if p k then .done d else .yield s))
    (n a : Nat) (hle : a + n ≤ hi) :
    forIn (List.range' a n) s f = .ok (if (List.range' a n).any p then d else s) := by
  induction n generalizing a with
  | zero => rfl
  | succ n ih =>
    rw [List.range'_succ, List.forIn_cons, hstep a (by omega)]
    cases hp : p a
    · simp only [Bool.false_eq_true, if_false, List.any_cons, hp, Bool.false_or]
      exact ih (a + 1) (by omega)
    · simp only [if_true, List.any_cons, hp, Bool.true_or]
      rfl

/-! ### `newFragmentBuffer` -/

theorem map_replicate_zero (k : Nat) : (List.replicate k 0#8).map ob = List.replicate k (0 : UInt8) := by
  simp [List.map_replicate]

/-- `numBytes` of a fresh buffer -/
def nb (t : BitVec 32) : Nat := if t.toNat < 1 then 1 else t.toNat

theorem new_eq (t : BitVec 32) :
    Src.dtlcp.newFragmentBuffer t = .ok
      { totalLen := t, data := List.replicate (nb t) 0#8,
        received := List.replicate ((nb t + 7) / 8) 0#8, numBytes := (nb t : Int) } := by
  unfold Src.dtlcp.newFragmentBuffer nb
  simp only [bind, Except.bind, pure, Except.pure, Go.make]
  by_cases h : t.toNat < 1
  · have h0 : t.toNat = 0 := by omega
    have e8 : (8 : Int) >>> 3 = 1 := by decide
    simp [h0, e8]
  · have h1 : ¬ ((t.toNat : Int) < 1) := by omega
    have h2 : ¬ ((t.toNat : Int) < 0) := by omega
    have e : ((t.toNat : Int) + 7) = ((t.toNat + 7 : Nat) : Int) := by norm_cast
    have h3 : ¬ ((((t.toNat + 7) / 8 : Nat) : Int) < 0) := by omega
    simp only [h, h1, h2, e, h3, decide_false, if_false, Bool.false_eq_true, shr3_int, Int.toNat_natCast]

/-- `newFragmentBuffer`, every `uint24` (indeed every `uint32`) argument: no panic, the model's
fresh buffer, well-formed -/
theorem tie_new (t : BitVec 32) :
    ∃ fb, Src.dtlcp.newFragmentBuffer t = .ok fb ∧ abs fb = newBuf t.toNat ∧ WF fb := by
  refine ⟨_, new_eq t, ?_, ?_⟩
  · unfold abs newBuf nb
    simp only [map_replicate_zero, Gotlcp.Lemmas.Fragment.shr3, Int.toNat_natCast]
  · unfold nb
    constructor <;> simp only [List.length_replicate] <;> split <;> omega

/-! ### `addFragment` -/

/-- one iteration of the bit loop, `fb.received[i>>3] |= 1 << (i & 7)` with `i = o + k` -/
def stepBit (o k : Nat) (s : SrcBuf) : SrcBuf :=
  { totalLen := s.totalLen, data := s.data, numBytes := s.numBytes,
    received := s.received.set ((o + k) / 8) (s.received.getD ((o + k) / 8) 0#8 ||| 1#8 <<< ((o + k) % 8)) }

theorem stepBit_received (o k : Nat) (s : SrcBuf) :
    (stepBit o k s).received.map ob = setBit (s.received.map ob) (o + k) := by
  unfold stepBit setBit
  simp only [List.map_set, Gotlcp.Lemmas.Fragment.shr3, Gotlcp.Lemmas.Fragment.and7, getD_map_ob]
  rw [ob_or_bit _ _ (Nat.mod_lt _ (by omega))]

theorem iter_stepBit (o n a : Nat) (s : SrcBuf) :
    (iter (stepBit o) a n s).totalLen = s.totalLen ∧ (iter (stepBit o) a n s).data = s.data ∧
    (iter (stepBit o) a n s).numBytes = s.numBytes ∧
    (iter (stepBit o) a n s).received.length = s.received.length ∧
    (iter (stepBit o) a n s).received.map ob = setBits (s.received.map ob) (o + a) n := by
  induction n generalizing a s with
  | zero => simp [iter, setBits]
  | succ n ih =>
    obtain ⟨h1, h2, h3, h4, h5⟩ := ih (a + 1) (stepBit o a s)
    simp only [iter, setBits]
    refine ⟨h1, h2, h3, ?_, ?_⟩
    · rw [h4]; simp [stepBit]
    · rw [h5, stepBit_received]; rfl

/-- `addFragment`, every well-formed buffer, every offset, length (all `uint32` values, in
particular all `uint24`) and fragment body: no panic — the slice bounds of
`copy(fb.data[offset:offset+length], frag)` and the bitmap indices are in range whenever the
guard lets the call through —, the model's result, well-formedness preserved -/
theorem tie_add (fb : SrcBuf) (h : WF fb) (off len : BitVec 32) (frag : List (BitVec 8)) :
    ∃ fb' ok, Src.dtlcp.fragmentBuffer.addFragment fb off len frag = .ok (fb', ok) ∧
      (abs fb', ok) = addFragment (abs fb) off.toNat len.toNat (frag.map ob) ∧ WF fb' := by
  unfold Src.dtlcp.fragmentBuffer.addFragment addFragment
  simp only [bind, Except.bind, pure, Except.pure]
  have hnb : fb.numBytes < 2 ^ 32 := by
    have ht := h.tot; have := fb.totalLen.isLt
    split at ht <;> omega
  have hnp := h.npos
  by_cases hg : (off.toNat : Int) + (len.toNat : Int) > fb.numBytes
  · have hg' : off.toNat + len.toNat > (abs fb).n := by simp only [abs]; omega
    simp only [hg, hg', decide_true, if_true]
    exact ⟨fb, false, rfl, rfl, h⟩
  · have hg' : ¬ off.toNat + len.toNat > (abs fb).n := by simp only [abs]; omega
    simp only [hg, hg', decide_false, if_false, Bool.false_eq_true]
    have hsum : (off + len).toNat = off.toNat + len.toNat := by
      rw [BitVec.toNat_add]; apply Nat.mod_eq_of_lt; omega
    have hcnt : ((off.toNat : Int) + (len.toNat : Int) - (off.toNat : Int)).toNat = len.toNat := by omega
    rw [hsum, hcnt, List.range_eq_range']
    have hc : Go.copyInto fb.data (off.toNat : Int) ((off.toNat + len.toNat : Nat) : Int) frag
        = .ok (fb.data.take off.toNat ++ frag.take (min len.toNat frag.length)
                ++ fb.data.drop (off.toNat + min len.toNat frag.length)) := by
      unfold Go.copyInto
      have := h.dlen
      have c : ¬ ((off.toNat : Int) < 0 ∨ ((off.toNat + len.toNat : Nat) : Int) < (off.toNat : Int)
          ∨ (fb.data.length : Int) < ((off.toNat + len.toNat : Nat) : Int)) := by omega
      have e : ((off.toNat + len.toNat : Nat) : Int).toNat - ((off.toNat : Int)).toNat = len.toNat := by omega
      simp only [c, if_false, e, Int.toNat_natCast, Nat.add_sub_cancel_left]
    obtain ⟨d, hd⟩ : ∃ d, d = fb.data.take off.toNat ++ frag.take (min len.toNat frag.length)
        ++ fb.data.drop (off.toNat + min len.toNat frag.length) := ⟨_, rfl⟩
    rw [hc, ← hd]
    simp only []
    have hr := h.rlen
    have hrl : off.toNat + len.toNat ≤ 8 * fb.received.length := by omega
    rw [(forIn_range'_ok _ (stepBit off.toNat) (fun s => off.toNat + len.toNat ≤ 8 * s.received.length)
      len.toNat ?hs len.toNat 0
      { totalLen := fb.totalLen, data := d, received := fb.received, numBytes := fb.numBytes }
      (by omega) hrl).1]
    case hs =>
      intro k s hk hinv
      have e1 : ((off.toNat : Int) + (k : Int)) = ((off.toNat + k : Nat) : Int) := by norm_cast
      have hlt : (off.toNat + k) / 8 < s.received.length := by omega
      have hm : (((off.toNat + k) % 8 : Nat) : Int).toNat = (off.toNat + k) % 8 := by omega
      rw [e1, shr3_int, idx_ok _ _ hlt, andInt7 _ (by omega), hm]
      simp only []
      rw [set_ok _ _ _ hlt]
      refine ⟨rfl, ?_⟩
      simp only [stepBit, List.length_set]
      exact hinv
    simp only []
    obtain ⟨i1, i2, i3, i4, i5⟩ := iter_stepBit off.toNat len.toNat 0
      { totalLen := fb.totalLen, data := d, received := fb.received, numBytes := fb.numBytes }
    simp only [Nat.add_zero] at i1 i2 i3 i4 i5
    refine ⟨_, true, rfl, ?_, ?_⟩
    · simp only [abs, i1, i2, i3, i5]
      simp only [copyInto, hd, List.map_append, List.map_take, List.map_drop, List.length_map]
    · have hdl : d.length = fb.data.length := by
        have := h.dlen
        rw [hd]
        simp only [List.length_append, List.length_take, List.length_drop]
        omega
      exact ⟨by rw [i3]; exact h.npos, by rw [i2, i3]; simp only [hdl]; exact h.dlen,
        by rw [i4, i3]; exact h.rlen, by rw [i3, i1]; exact h.tot⟩

/-! ### `complete`, `assembled` -/

theorem ob_beq (x y : BitVec 8) : (ob x == ob y) = (x == y) := by
  apply Bool.eq_iff_iff.mpr
  simp only [beq_iff_eq]
  exact ob_inj

theorem ob_and (x y : BitVec 8) : ob (x &&& y) = ob x &&& ob y := rfl

theorem all_ff (r : List (BitVec 8)) (l : List Nat) :
    l.all (fun i => (r.map ob).getD i 0 == 0xFF) = !(l.any fun k => r.getD k 0#8 != 255#8) := by
  induction l with
  | nil => rfl
  | cons a l ih =>
    have : ((r.map ob).getD a 0 == 0xFF) = (r.getD a 0#8 == 255#8) := by
      rw [getD_map_ob]; exact ob_beq _ 255#8
    simp only [List.all_cons, List.any_cons, ih, this, bne, Bool.not_or, Bool.not_not]

/-- `complete`, every well-formed buffer: no panic (every bitmap index is in range), the
model's answer -/
theorem tie_complete (fb : SrcBuf) (h : WF fb) :
    Src.dtlcp.fragmentBuffer.complete fb = .ok (complete (abs fb)) := by
  have hnb : fb.numBytes < 2 ^ 32 := by
    have ht := h.tot; have := fb.totalLen.isLt
    split at ht <;> omega
  have hnp := h.npos
  have hr := h.rlen
  obtain ⟨n, hn⟩ : ∃ n : Nat, fb.numBytes = n := ⟨fb.numBytes.toNat, by omega⟩
  unfold Src.dtlcp.fragmentBuffer.complete complete
  simp only [bind, Except.bind, pure, Except.pure]
  have hn' : (abs fb).n = n := by simp only [abs, hn, Int.toNat_natCast]
  have hrec : (abs fb).received = fb.received.map ob := rfl
  rw [hn] at hr hnb
  rw [hn, hn', hrec, shr3_int, Int.toNat_natCast, List.range_eq_range', andInt7 n (by omega)]
  rw [forIn_range'_find _ (fun k => fb.received.getD k 0#8 != 255#8) (none, ()) (some false, ())
    (n / 8) ?hs (n / 8) 0 (by omega)]
  case hs =>
    intro k hk
    rw [idx_ok _ _ (by omega)]
    simp only []
    split <;> rfl
  rw [← List.range_eq_range']
  simp only [Gotlcp.Lemmas.Fragment.shr3, Gotlcp.Lemmas.Fragment.and7, all_ff]
  cases hany : (List.range (n / 8)).any (fun k => fb.received.getD k 0#8 != 255#8)
  · simp only [Bool.false_eq_true, if_false, Bool.not_false, Bool.not_true]
    by_cases hrem : n % 8 > 0
    · have hrem' : ((n % 8 : Nat) : Int) > 0 := by omega
      have hm : (((n % 8 : Nat)) : Int).toNat = n % 8 := by omega
      simp only [hrem, hrem', decide_true, if_true, hm]
      rw [idx_ok _ _ (by omega)]
      simp only [getD_map_ob, ← ob_mask _ (Nat.mod_lt n (by omega)), ← ob_and, ob_beq, bne,
        Bool.not_false, Bool.not_true, Bool.false_eq_true, if_false]
      split
      · rename_i hb; simp only [Bool.not_eq_true'] at hb; rw [hb]
      · rename_i hb; simp only [Bool.not_eq_true', Bool.not_eq_false] at hb; rw [hb]
    · have hrem' : ¬ ((n % 8 : Nat) : Int) > 0 := by omega
      simp only [hrem, hrem', decide_false, if_false, Bool.false_eq_true]
  · simp only [if_true, Bool.not_true, Bool.not_false]

/-- `assembled` is the data slice -/
theorem tie_assembled (fb : SrcBuf) :
    (Src.dtlcp.fragmentBuffer.assembled fb).map ob = assembled (abs fb) := rfl

/-! ### whole fragment lists -/

/-- a fragment as handed to the translated `addFragment` -/
structure SrcFrag where
  off : BitVec 32
  len : BitVec 32
  body : List (BitVec 8)
deriving Repr, DecidableEq

def absFrag (f : SrcFrag) : Frag := ⟨f.off.toNat, f.len.toNat, f.body.map ob⟩

/-- feed a list of fragments through the TRANSLATED `addFragment`, collecting the accept bits
(a panic anywhere is an `Except.error`) -/
def srcRun (fb : SrcBuf) : List SrcFrag → Except String (SrcBuf × List Bool)
  | [] => .ok (fb, [])
  | f :: fs =>
    match Src.dtlcp.fragmentBuffer.addFragment fb f.off f.len f.body with
    | .error e => .error e
    | .ok (fb1, ok) =>
      match srcRun fb1 fs with
      | .error e => .error e
      | .ok (fb2, oks) => .ok (fb2, ok :: oks)

/-- all fragment lists (any order, overlap, duplication, out-of-range fragments) from any
well-formed buffer: no panic, the model's buffer and accept bits -/
theorem tie_run (fs : List SrcFrag) (fb : SrcBuf) (h : WF fb) :
    ∃ fb' oks, srcRun fb fs = .ok (fb', oks) ∧ (abs fb', oks) = run (abs fb) (fs.map absFrag) ∧ WF fb' := by
  induction fs generalizing fb with
  | nil => exact ⟨fb, [], rfl, rfl, h⟩
  | cons f fs ih =>
    obtain ⟨fb1, ok, e1, m1, w1⟩ := tie_add fb h f.off f.len f.body
    obtain ⟨fb2, oks, e2, m2, w2⟩ := ih fb1 w1
    refine ⟨fb2, ok :: oks, ?_, ?_, w2⟩
    · simp only [srcRun, e1, e2]
    · simp only [List.map_cons, run, absFrag]
      have a1 := congrArg Prod.fst m1
      have a2 := congrArg Prod.snd m1
      simp only at a1 a2
      rw [← a1, ← a2]
      have b1 := congrArg Prod.fst m2
      have b2 := congrArg Prod.snd m2
      simp only at b1 b2
      rw [← b1, ← b2]

/-- the receiver's use of a buffer: `newFragmentBuffer(total)`, the fragments, then
`complete()` and `assembled()` — all through the translated source -/
def srcSession (t : BitVec 32) (fs : List SrcFrag) : Except String (List Bool × Bool × List (BitVec 8)) :=
  match Src.dtlcp.newFragmentBuffer t with
  | .error e => .error e
  | .ok fb =>
    match srcRun fb fs with
    | .error e => .error e
    | .ok (fb', oks) =>
      match Src.dtlcp.fragmentBuffer.complete fb' with
      | .error e => .error e
      | .ok c => .ok (oks, c, Src.dtlcp.fragmentBuffer.assembled fb')

/-- fresh buffer of any announced length, any fragment list: the translated source never
panics; accept bits, completeness and assembled bytes are the model's -/
theorem tie_session (t : BitVec 32) (fs : List SrcFrag) :
    ∃ d, srcSession t fs = .ok ((run (newBuf t.toNat) (fs.map absFrag)).2,
        complete (run (newBuf t.toNat) (fs.map absFrag)).1, d) ∧
      d.map ob = assembled (run (newBuf t.toNat) (fs.map absFrag)).1 := by
  obtain ⟨fb, e0, m0, w0⟩ := tie_new t
  obtain ⟨fb', oks, e1, m1, w1⟩ := tie_run fs fb w0
  have e2 := tie_complete fb' w1
  rw [m0] at m1
  have a1 := congrArg Prod.fst m1
  have a2 := congrArg Prod.snd m1
  simp only at a1 a2
  refine ⟨Src.dtlcp.fragmentBuffer.assembled fb', ?_, ?_⟩
  · simp only [srcSession, e0, e1, e2, a1, a2]
  · rw [tie_assembled, a1]

end Gotlcp.Tie.Fragment

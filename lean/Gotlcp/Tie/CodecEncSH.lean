/-
Tie by translation, `serverHelloMsg.marshal` of tlcp/handshake_messages.go (cryptobyte based).

  * `marshal_serverHello_cps`: the translated function IS (by `rfl`, i.e. by unfolding the generated
    do-block) a chain of three optional extension blocks on the `exts` builder followed by the common
    tail `tailK` (`exts.Bytes()`, error return, the body builder, the optional extension vector, the
    24-bit framed message, `m.raw`);
  * per extension: the block appends, under `bld`, exactly the model's extension encoding;
  * `tie_enc_serverHello`: for every fresh message object the translated marshal computes
    `Model.Codec.encServerHello codesT` of the abstracted fields (`EncAgree`).

The tail is shared with clientHelloMsg.marshal (Tie/CodecEncCH.lean).  Core Lean only.
-/
import Gotlcp.Tie.CodecEnc

set_option linter.unusedSimpArgs false
set_option linter.unusedVariables false

namespace Gotlcp.Tie.CodecEnc
open Gotlcp Gotlcp.Wire Gotlcp.Wire.Msg Gotlcp.Model.Codec Gotlcp.Tie.CbBuilder
open Gotlcp.Src.tlcp.codec
open Gotlcp.Tie.UnmarshalTlcpCodec (abs abs_nil abs_cons abs_append abs_length)

/-! ## the common tail of the two tlcp hello marshals -/

/-- from `extBytes, err := exts.Bytes()` to the `return`: `t` is the message type, `body` the builder
of the fixed fields, `e` the extensions builder -/
def tailK {M : Type} (setRaw : BV → M) (m : M) (t : BitVec 8) (body : cbBuilder) (e : cbBuilder) : Res M :=
  let t0 := cbBuilder.Bytes e
  if t0.2.isSome then (m, [], t0.2) else
  stepK (decide ((t0.1.length : Int) > 0)) (fun b => cbBuilder.addLengthPrefixed b 2 (cbBuilder.AddBytes B0 t0.1))
    (fun body =>
      let t1 := cbBuilder.Bytes (cbBuilder.addLengthPrefixed (cbBuilder.AddUint8 B0 t) 3 body)
      (setRaw t1.1, t1.1, t1.2)) body

/-- the model's view of the tail: extensions `oe`, fixed fields `ob` -/
def tailModel (t : BitVec 8) (oe ob : Option Bytes) : Option Bytes :=
  oe.bind fun x => oapp (some [UInt8.ofBitVec t]) ((oapp ob (extBlock x)).bind vec24)

theorem extBlock_eq (x : Bytes) : extBlock x = optBytes (decide (x.length > 0)) (vec16 x) := by
  unfold extBlock optBytes
  by_cases h : x.length > 0 <;> simp [h]

theorem tail_agree {M : Type} (setRaw : BV → M) (m : M) (h0 : setRaw [] = m) (t : BitVec 8) (body e : cbBuilder)
    (oe ob : Option Bytes) (he : bld e = oe) (hb : bld body = ob) :
    EncAgree setRaw m (tailK setRaw m t body e) (tailModel t oe ob) := by
  unfold tailK tailModel
  have hbe := bytes_bld e
  rw [he] at hbe
  cases oe with
  | none =>
    simp only at hbe
    simp only [hbe, Option.isSome_some, if_true, Option.bind_none, EncAgree]
  | some x =>
    obtain ⟨bs, ebs, hbs⟩ := hbe
    simp only [ebs, Option.isSome_none, Bool.false_eq_true, if_false, Option.bind_some, stepK_eq]
    apply agree_bytes _ _ _ _ _ h0
    have hopt : bld (optExt (decide ((bs.length : Int) > 0))
        (fun b => cbBuilder.addLengthPrefixed b 2 (cbBuilder.AddBytes B0 bs)) body) = oapp ob (extBlock x) := by
      rw [bld_optExt _ _ _ (vec16 x), hb, extBlock_eq, int_pos, ← hbs, abs_length]
      bld_simp
      rw [hbs]
    bld_simp
    rw [hopt]

/-! ## serverHelloMsg -/

/-- the model's view of a `serverHelloMsg` object -/
def absSH (m : serverHelloMsg) : ServerHello :=
  ⟨w16 m.vers, abs m.random, abs m.sessionId, w16 m.cipherSuite, UInt8.ofBitVec m.compressionMethod, m.ocspStapling,
    abs m.ocspResponse, abs m.alpnProtocol, m.serverNameAck⟩

def setRawSH (m : serverHelloMsg) (r : BV) : serverHelloMsg := { m with raw := r }

/-- status_request: `exts.AddUint16(5); exts.AddUint16LengthPrefixed{ AddUint8(1); AddUint24LengthPrefixed{ocspResponse} }` -/
def shF1 (m : serverHelloMsg) (e : cbBuilder) : cbBuilder :=
  cbBuilder.addLengthPrefixed (cbBuilder.AddUint16 e 5#16) 2
    (cbBuilder.addLengthPrefixed (cbBuilder.AddUint8 B0 1#8) 3 (cbBuilder.AddBytes B0 m.ocspResponse))
/-- ALPN -/
def shF2 (m : serverHelloMsg) (e : cbBuilder) : cbBuilder :=
  cbBuilder.addLengthPrefixed (cbBuilder.AddUint16 e 16#16) 2
    (cbBuilder.addLengthPrefixed B0 2 (cbBuilder.addLengthPrefixed B0 1 (cbBuilder.AddBytes B0 m.alpnProtocol)))
/-- server_name acknowledgement: `exts.AddUint16(0); exts.AddUint16(0)` -/
def shF3 (e : cbBuilder) : cbBuilder := cbBuilder.AddUint16 (cbBuilder.AddUint16 e 0#16) 0#16

/-- the fixed fields -/
def shBody (m : serverHelloMsg) : cbBuilder :=
  cbBuilder.AddUint8 (cbBuilder.AddUint16 (cbBuilder.addLengthPrefixed
    (addBytesWithLength (cbBuilder.AddUint16 B0 m.vers) m.random 32) 1 (cbBuilder.AddBytes B0 m.sessionId))
    m.cipherSuite) m.compressionMethod

/-- the extensions builder after the three optional blocks -/
def shExts (m : serverHelloMsg) : cbBuilder :=
  optExt m.serverNameAck shF3
    (optExt (m.alpnProtocol != []) (shF2 m)
      (optExt (m.ocspStapling && decide ((m.ocspResponse.length : Int) > 0)) (shF1 m) B0))

/-- the generated definition, re-read as three guarded blocks and the tail (definitional unfolding) -/
theorem marshal_serverHello_cps (m : serverHelloMsg) : serverHelloMsg.marshal m =
    if !m.raw.isEmpty then (m, m.raw, none) else
    stepK (m.ocspStapling && decide ((m.ocspResponse.length : Int) > 0)) (shF1 m)
      (stepK (m.alpnProtocol != []) (shF2 m)
        (stepK m.serverNameAck shF3 (tailK (setRawSH m) m 2#8 (shBody m)))) B0 := rfl

theorem marshal_serverHello_cached (m : serverHelloMsg) (h : m.raw ≠ []) :
    serverHelloMsg.marshal m = (m, m.raw, none) := by
  rw [marshal_serverHello_cps]
  have : (!m.raw.isEmpty) = true := by cases hr : m.raw with | nil => exact absurd hr h | cons _ _ => rfl
  rw [if_pos this]

theorem marshal_serverHello_eq (m : serverHelloMsg) (h : m.raw = []) :
    serverHelloMsg.marshal m = tailK (setRawSH m) m 2#8 (shBody m) (shExts m) := by
  rw [marshal_serverHello_cps, h]
  simp only [List.isEmpty_nil, Bool.not_true, Bool.false_eq_true, if_false, stepK_eq]
  rfl

theorem bld_shF1 (m : serverHelloMsg) (e : cbBuilder) :
    bld (shF1 m e) = oapp (bld e) (ext codesT.extStatusRequest (prefixed 1 (vec24 (abs m.ocspResponse)))) := by
  unfold shF1
  rw [ext_eq, prefixed_eq]
  bld_simp
  rw [oapp_assoc]; rfl

theorem bld_shF2 (m : serverHelloMsg) (e : cbBuilder) :
    bld (shF2 m e) = oapp (bld e) (ext codesT.extALPN (vec16x2 (vec8 (abs m.alpnProtocol)))) := by
  unfold shF2
  rw [ext_eq, vec16x2_eq]
  bld_simp
  rw [oapp_assoc]; rfl

theorem bld_shF3 (e : cbBuilder) : bld (shF3 e) = oapp (bld e) (some (be16 codesT.extServerName ++ [0, 0])) := by
  unfold shF3
  bld_simp
  rw [oapp_assoc]; rfl

theorem bne_nil (l : BV) : (l != []) = decide ((abs l).length > 0) := by
  cases l <;> simp [abs]

theorem encServerExtensions_eq (c : Codes) (m : ServerHello) :
    encServerExtensions c m =
      oapp (oapp (optBytes (m.ocsp && decide (m.ocspResponse.length > 0))
          (ext c.extStatusRequest (prefixed 1 (vec24 m.ocspResponse))))
        (optBytes (decide (m.alpn.length > 0)) (ext c.extALPN (vec16x2 (vec8 m.alpn)))))
        (optBytes m.sniAck (some (be16 c.extServerName ++ [0, 0]))) := by
  unfold encServerExtensions
  cases optBytes (m.ocsp && decide (m.ocspResponse.length > 0)) (ext c.extStatusRequest (prefixed 1 (vec24 m.ocspResponse))) <;>
  cases optBytes (decide (m.alpn.length > 0)) (ext c.extALPN (vec16x2 (vec8 m.alpn))) <;>
  cases optBytes m.sniAck (some (be16 c.extServerName ++ [0, 0])) <;> rfl

theorem bld_shExts (m : serverHelloMsg) : bld (shExts m) = encServerExtensions codesT (absSH m) := by
  unfold shExts
  rw [bld_optExt _ _ _ _ (bld_shF3 _), bld_optExt _ _ _ _ (bld_shF2 m _), bld_optExt _ _ _ _ (bld_shF1 m _),
    encServerExtensions_eq, bld_B0, oapp_nil_left, bne_nil, int_pos, ← abs_length m.ocspResponse]
  rfl

theorem exactly_eq (n : Nat) (v : Bytes) : exactly n v = if v.length = n then some v else none := rfl

theorem bld_shBody (m : serverHelloMsg) :
    bld (shBody m) = oapp (oapp (oapp (oapp (some (w16 m.vers).bytes) (exactly codesT.randomLen (abs m.random)))
      (vec8 (abs m.sessionId))) (some (w16 m.cipherSuite).bytes)) (some [UInt8.ofBitVec m.compressionMethod]) := by
  unfold shBody
  have h32 : ((32 : Int)) = ((32 : Nat) : Int) := rfl
  rw [h32]
  bld_simp
  rfl

theorem encServerHello_eq (c : Codes) (m : ServerHello) (t : BitVec 8) (ht : u8 c.tServerHello = UInt8.ofBitVec t) :
    encServerHello c m = tailModel t (encServerExtensions c m)
      (oapp (oapp (oapp (oapp (some m.vers.bytes) (exactly c.randomLen m.random)) (vec8 m.sessionId))
        (some m.suite.bytes)) (some [m.compression])) := by
  unfold encServerHello encServerHelloBody tailModel
  rw [← ht]
  cases encServerExtensions c m with
  | none => rfl
  | some e =>
    simp only [Option.bind_some]
    cases exactly c.randomLen m.random <;> cases vec8 m.sessionId <;> cases extBlock e <;>
      simp only [oapp, Option.bind_none, Option.bind_some, List.append_assoc] <;>
      (try rfl)
    rename_i a b c
    cases vec24 (m.vers.bytes ++ (a ++ (b ++ (m.suite.bytes ++ ([m.compression] ++ c))))) <;> rfl

/-- **`serverHelloMsg.marshal`** = model encoder, every fresh message object -/
theorem tie_enc_serverHello (m : serverHelloMsg) (h : m.raw = []) :
    EncAgree (setRawSH m) m (serverHelloMsg.marshal m) (encServerHello codesT (absSH m)) := by
  rw [marshal_serverHello_eq m h, encServerHello_eq codesT (absSH m) 2#8 (by decide)]
  exact tail_agree _ m (by cases m; simp only [setRawSH] at *; subst h; rfl) 2#8 _ _ _ _ (bld_shExts m) (bld_shBody m)

end Gotlcp.Tie.CodecEnc

/-
Tie by translation, `clientHelloMsg.unmarshal` of both stacks against the C14 codec model: the translated
text (Gotlcp.Tie.CodecCHTlcp / CodecCHDtlcp: it returns what the specification says) and the specification
(Gotlcp.Tie.CodecCHModel: it is the model) combined.  For EVERY receiver and EVERY byte string the
translated decoder returns `(m', true)` exactly when the model decoder accepts the same bytes, and then
every decoded field of `m'` is the model's; it returns `(_, false)` exactly when the model refuses.
-/
import Gotlcp.Tie.CodecCHTlcp
import Gotlcp.Tie.CodecCHDtlcp
import Gotlcp.Tie.CodecCHModel

set_option linter.unusedSimpArgs false
set_option linter.unusedVariables false

namespace Gotlcp.Tie.CodecCHCodec
open Gotlcp Gotlcp.Wire Gotlcp.Wire.Msg
open Gotlcp.Model.Codec (Codes codesT codesD)
open Gotlcp.Tie.CbString
open Gotlcp.Tie.CodecCH
open Gotlcp.Tie.CodecCHModel
open Gotlcp.Tie.UnmarshalTlcpCodec (abs Agree)
open Gotlcp.Tie.UnmarshalDtlcp (u16At u24At)
open Gotlcp.Tie.UnmarshalDtlcpCodec (completeD completeD_len hdrView)
open Gotlcp.Tie.CodecSmallDtlcp (model_header_complete)

/-- the model's view of a translated tlcp ClientHello -/
def fieldsT (m : Src.tlcp.codec.clientHelloMsg) : ClientHello := absCH (CodecCHTlcp.viewT m)

/-- the model's view of a translated dtlcp ClientHello: header fields and body fields -/
def fieldsD (m : Src.dtlcp.codec.clientHelloMsg) : DHdr × ClientHello :=
  (hdrView m.messageSeq m.fragmentOffset m.fragmentLength, absCH (CodecCHDtlcp.viewD m))

/-- **dtlcp**: the specification of the translated `clientHelloMsg.unmarshal` is the model decoder
`decClientHello codesD` on the same bytes -/
theorem spec_model_dtlcp (data : BV) :
    Model.CodecDtlcp.decClientHello codesD (abs data) =
      match CodecCHDtlcp.chSpecD data with
      | some v => .ok (hdrView (u16At data 4) (u24At data 6) (u24At data 9), absCH v)
      | none => .reject := by
  unfold Model.CodecDtlcp.decClientHello CodecCHDtlcp.chSpecD
  have hg := Gotlcp.Tie.UnmarshalDtlcpCodec.model_guard (α := DHdr × ClientHello) data 1#8 _ codes_facts.2.2.1 codes_facts.2.2.2
  rw [show Gotlcp.Tie.UnmarshalDtlcpCodec.abs data = abs data from rfl] at hg
  rw [hg]
  cases hc : completeD data 1#8
  · rfl
  · have hh := model_header_complete hc
    rw [show Gotlcp.Tie.UnmarshalDtlcpCodec.abs data = abs data from rfl,
      show Gotlcp.Tie.UnmarshalDtlcpCodec.abs (data.drop 12) = abs (data.drop 12) from rfl] at hh
    simp only [if_true, hh, codes_facts.2.2.1, ne_eq, not_true_eq_false, if_false]
    have l0 : (data.drop 12).length < data.length + 1 := by rw [List.length_drop]; omega
    rw [body_model codesD true true codesD_ok (data.length + 1) data (u16At data 4) (u24At data 6) (u24At data 9)
      (data.drop 12) l0]
    cases bodyS true true (data.length + 1)
      { raw := data, seq := u16At data 4, fragOff := u24At data 6, fragLen := u24At data 9 } (data.drop 12) <;> rfl

/-- the specification keeps `raw` and the header fields (dtlcp) -/
theorem chSpecD_hdr (data : BV) (v : CHv) (h : CodecCHDtlcp.chSpecD data = some v) :
    v.raw = data ∧ v.seq = u16At data 4 ∧ v.fragOff = u24At data 6 ∧ v.fragLen = u24At data 9 := by
  unfold CodecCHDtlcp.chSpecD at h
  split at h
  · have := bodyS_hdr _ _ _ _ _ _ h
    simp only [hdrOf, Prod.mk.injEq] at this
    exact this
  · cases h

/-- **tlcp `clientHelloMsg.unmarshal` = model**, every receiver, every byte string: accepted with the
model's fields, or refused like the model -/
theorem tie_codec_clientHello_tlcp (m : Src.tlcp.codec.clientHelloMsg) (data : BV) :
    Agree fieldsT (Src.tlcp.codec.clientHelloMsg.unmarshal m data)
      (Model.Codec.unmarshalClientHello codesT (abs data)) := by
  have h := CodecCHTlcp.tie_clientHello m data
  rw [spec_model_tlcp]
  cases hs : chSpecT data with
  | none => rw [hs] at h; exact h
  | some v =>
    rw [hs] at h
    obtain ⟨m', e, hv⟩ := h
    exact ⟨m', e, by unfold fieldsT; rw [hv]⟩

/-- … and the accepted message keeps the input as `raw` -/
theorem clientHello_raw_tlcp (m m' : Src.tlcp.codec.clientHelloMsg) (data : BV)
    (h : Src.tlcp.codec.clientHelloMsg.unmarshal m data = .ok (m', true)) : m'.raw = data := by
  have h0 := CodecCHTlcp.tie_clientHello m data
  cases hs : chSpecT data with
  | none => rw [hs] at h0; obtain ⟨m2, e⟩ := h0; rw [h] at e; cases e
  | some v =>
    rw [hs] at h0
    obtain ⟨m2, e, hv⟩ := h0
    rw [h] at e
    cases e
    have := chSpecT_raw data v hs
    rw [← hv] at this
    exact this

/-- **dtlcp `clientHelloMsg.unmarshal` = model**, every receiver, every byte string: accepted with the
model's header fields and body fields, or refused like the model -/
theorem tie_codec_clientHello_dtlcp (m : Src.dtlcp.codec.clientHelloMsg) (data : BV) :
    Agree fieldsD (Src.dtlcp.codec.clientHelloMsg.unmarshal m data)
      (Model.CodecDtlcp.decClientHello codesD (abs data)) := by
  have h := CodecCHDtlcp.tie_clientHello m data
  rw [spec_model_dtlcp]
  cases hs : CodecCHDtlcp.chSpecD data with
  | none => rw [hs] at h; exact h
  | some v =>
    rw [hs] at h
    obtain ⟨m', e, hv⟩ := h
    obtain ⟨_, h2, h3, h4⟩ := chSpecD_hdr data v hs
    refine ⟨m', e, ?_⟩
    unfold fieldsD
    rw [hv, ← h2, ← h3, ← h4, ← hv]
    rfl

theorem clientHello_raw_dtlcp (m m' : Src.dtlcp.codec.clientHelloMsg) (data : BV)
    (h : Src.dtlcp.codec.clientHelloMsg.unmarshal m data = .ok (m', true)) : m'.raw = data := by
  have h0 := CodecCHDtlcp.tie_clientHello m data
  cases hs : CodecCHDtlcp.chSpecD data with
  | none => rw [hs] at h0; obtain ⟨m2, e⟩ := h0; rw [h] at e; cases e
  | some v =>
    rw [hs] at h0
    obtain ⟨m2, e, hv⟩ := h0
    rw [h] at e
    cases e
    have := (chSpecD_hdr data v hs).1
    rw [← hv] at this
    exact this


end Gotlcp.Tie.CodecCHCodec

/-
Consequences of the encoder ties (Tie/CodecEnc*.lean) that Props/C14SrcEnc.lean restates as property
theorems: what a successful translated `marshal` returns is a complete, correctly framed message
(`complete` / `completeD`: the predicates the translated `tlcpIsCompleteMessage` /
`dtlcpIsCompleteMessage` compute), and exactly which objects the small encoders refuse.

Core Lean only.
-/
import Gotlcp.Tie.CodecEncCH
import Gotlcp.Tie.CodecEncDtlcpHello
import Gotlcp.Lemmas.Codec
import Gotlcp.Lemmas.CodecDtlcp

set_option linter.unusedSimpArgs false
set_option linter.unusedVariables false

namespace Gotlcp.Tie.CodecEnc
open Gotlcp Gotlcp.Wire Gotlcp.Wire.Msg Gotlcp.Model.Codec Gotlcp.Tie.CbBuilder
open Gotlcp.Tie.UnmarshalTlcpCodec (abs abs_nil abs_cons abs_append abs_length)
open Gotlcp.Tie.UnmarshalTlcp (complete)

/-! ## tlcp: a successful encoding is a framed message -/

/-- type byte, 24-bit length of the body, body -/
def Framed (T : Nat) (b : Bytes) : Prop := ∃ body, b = u8 T :: (be24 body.length ++ body) ∧ body.length < 16777216

theorem framed_vec24 (T : Nat) {body v : Bytes} (h : vec24 body = some v) : Framed T (u8 T :: v) := by
  obtain ⟨e, hl⟩ := vec24_eq_some h
  exact ⟨body, by rw [e], hl⟩

theorem framed_finished (c : Codes) (m : Blob) {b : Bytes} (h : encFinished c m = some b) : Framed c.tFinished b := by
  unfold encFinished at h
  cases hv : vec24 m.data with
  | none => rw [hv] at h; cases h
  | some v => rw [hv] at h; cases h; exact framed_vec24 _ hv

theorem framed_certificateVerify (c : Codes) (m : Blob) {b : Bytes} (h : encCertificateVerify c m = some b) :
    Framed c.tCertificateVerify b := by
  unfold encCertificateVerify at h
  cases hs : vec16 m.data with
  | none => rw [hs] at h; cases h
  | some s =>
    rw [hs] at h
    simp only at h
    cases hv : vec24 s with
    | none => rw [hv] at h; cases h
    | some v => rw [hv] at h; cases h; exact framed_vec24 _ hv

theorem framed_serverHello (c : Codes) (m : ServerHello) {b : Bytes} (h : encServerHello c m = some b) :
    Framed c.tServerHello b := by
  unfold encServerHello at h
  cases hb : encServerHelloBody c m with
  | none => rw [hb] at h; cases h
  | some body =>
    rw [hb] at h
    simp only at h
    cases hv : vec24 body with
    | none => rw [hv] at h; cases h
    | some v => rw [hv] at h; cases h; exact framed_vec24 _ hv

theorem framed_clientHello (c : Codes) (m : ClientHello) {b : Bytes} (h : encClientHello c m = some b) :
    Framed c.tClientHello b := by
  unfold encClientHello at h
  cases hb : encClientHelloBody c false m with
  | none => rw [hb] at h; cases h
  | some body =>
    rw [hb] at h
    simp only at h
    cases hv : vec24 body with
    | none => rw [hv] at h; cases h
    | some v => rw [hv] at h; cases h; exact framed_vec24 _ hv

theorem framed_keyMsg (T : Nat) (m : Blob) (hl : m.data.length < 16777216) {b : Bytes} (h : encKeyMsg T m = some b) :
    Framed T b := by
  unfold encKeyMsg at h; cases h; exact ⟨m.data, rfl, hl⟩

/-- framed model bytes ⇒ the predicate the translated `tlcpIsCompleteMessage` computes holds of the
translation's bytes -/
theorem complete_of_framed (bytes : BV) (t : BitVec 8) (T : Nat) (hT : u8 T = UInt8.ofBitVec t)
    (h : Framed T (abs bytes)) : complete bytes t = true := by
  obtain ⟨body, e, hl⟩ := h
  have h1 := Gotlcp.Lemmas.Codec.tlcpIsComplete_mk T hl
  rw [← e, Gotlcp.Tie.UnmarshalTlcpCodec.model_isComplete bytes t T hT] at h1
  cases hc : complete bytes t with
  | true => rfl
  | false => rw [hc] at h1; cases h1

/-- `complete` spelled out: type byte, three length bytes whose big-endian value is the number of bytes
that follow -/
theorem complete_iff (bytes : BV) (t : BitVec 8) :
    complete bytes t = true ↔
      ∃ b c d rest, bytes = t :: b :: c :: d :: rest ∧ Gotlcp.Tie.UnmarshalTlcp.u24 b c d = rest.length := by
  constructor
  · exact Gotlcp.Tie.UnmarshalTlcp.complete_true
  · rintro ⟨b, c, d, rest, rfl, h⟩
    simp [complete, h]

/-! ## which objects the small tlcp encoders refuse -/

theorem encFinished_isSome (c : Codes) (m : Blob) :
    (encFinished c m).isSome = decide (m.data.length < 16777216) := by
  unfold encFinished vec24
  by_cases h : m.data.length < 16777216 <;> simp [h]

theorem encCertificateVerify_isSome (c : Codes) (m : Blob) :
    (encCertificateVerify c m).isSome = decide (m.data.length < 65536) := by
  unfold encCertificateVerify
  by_cases h : m.data.length < 65536
  · have hl : (be16 m.data.length ++ m.data).length < 16777216 := by rw [List.length_append, be16_length]; omega
    simp [vec16_of_lt h, vec24_of_lt hl, h]
  · simp [vec16, h]

/-- a hello with a random that is not 32 bytes is refused -/
theorem encServerHello_random (c : Codes) (m : ServerHello) (h : m.random.length ≠ c.randomLen) :
    encServerHello c m = none := by
  unfold encServerHello encServerHelloBody exactly
  cases encServerExtensions c m with
  | none => rfl
  | some e => simp [h]

theorem encServerHello_sessionId (c : Codes) (m : ServerHello) (h : 256 ≤ m.sessionId.length) :
    encServerHello c m = none := by
  unfold encServerHello encServerHelloBody
  have hv : vec8 m.sessionId = none := by unfold vec8; rw [if_neg (by omega)]
  cases encServerExtensions c m with
  | none => rfl
  | some e => cases exactly c.randomLen m.random <;> simp [hv]

theorem encClientHello_random (c : Codes) (m : ClientHello) (h : m.random.length ≠ c.randomLen) :
    encClientHello c m = none := by
  unfold encClientHello encClientHelloBody exactly
  cases encClientExtensions c m with
  | none => rfl
  | some e => simp [h]

theorem encClientHello_sessionId (c : Codes) (m : ClientHello) (h : 256 ≤ m.sessionId.length) :
    encClientHello c m = none := by
  unfold encClientHello encClientHelloBody
  have hv : vec8 m.sessionId = none := by unfold vec8; rw [if_neg (by omega)]
  cases encClientExtensions c m with
  | none => rfl
  | some e => cases exactly c.randomLen m.random <;> simp [hv]

/-! ## the abstractions of the hello objects forget only `raw` -/

section inj
open Gotlcp.Src.tlcp.codec

theorem w16_inj {a b : BitVec 16} (h : w16 a = w16 b) : a = b := by
  rw [Gotlcp.Tie.CodecEncDtlcp.w16_eq, Gotlcp.Tie.CodecEncDtlcp.w16_eq] at h
  unfold W16.ofNat at h
  simp only [Prod.mk.injEq] at h
  have h1 := congrArg UInt8.toNat h.1
  have h2 := congrArg UInt8.toNat h.2
  rw [u8_toNat, u8_toNat] at h1 h2
  have ha := a.isLt; have hb := b.isLt
  exact BitVec.eq_of_toNat_eq (by omega)

theorem map_inj {α β : Type} (f : α → β) (hf : ∀ x y, f x = f y → x = y) :
    ∀ (l1 l2 : List α), l1.map f = l2.map f → l1 = l2
  | [], [], _ => rfl
  | [], _ :: _, h => by simp at h
  | _ :: _, [], h => by simp at h
  | x :: xs, y :: ys, h => by
    simp only [List.map_cons, List.cons.injEq] at h
    rw [hf x y h.1, map_inj f hf xs ys h.2]

theorem ofBitVec_inj {a b : BitVec 8} (h : UInt8.ofBitVec a = UInt8.ofBitVec b) : a = b := congrArg UInt8.toBitVec h

/-- the abstraction of a ServerHello object forgets only `raw` -/
theorem absSH_inj (m1 m2 : serverHelloMsg) (h : absSH m1 = absSH m2) : { m1 with raw := [] } = { m2 with raw := [] } := by
  cases m1; cases m2
  simp only [absSH, ServerHello.mk.injEq] at h
  obtain ⟨h1, h2, h3, h4, h5, h6, h7, h8, h9⟩ := h
  simp only [serverHelloMsg.mk.injEq, true_and]
  exact ⟨w16_inj h1, abs_injective h2, abs_injective h3, w16_inj h4, ofBitVec_inj h5, h6, abs_injective h7,
    abs_injective h8, h9⟩

theorem absTA_inj (t1 t2 : TrustedAuthority) (h : absTA t1 = absTA t2) : t1 = t2 := by
  cases t1; cases t2
  simp only [absTA, TA.mk.injEq] at h
  simp only [TrustedAuthority.mk.injEq]
  exact ⟨ofBitVec_inj h.1, abs_injective h.2⟩

/-- the abstraction of a tlcp ClientHello object forgets only `raw` -/
theorem absCH_inj (m1 m2 : clientHelloMsg) (h : absCH m1 = absCH m2) : { m1 with raw := [] } = { m2 with raw := [] } := by
  cases m1; cases m2
  simp only [absCH, ClientHello.mk.injEq] at h
  obtain ⟨h1, h2, h3, _, h4, h5, h6, h7, h8, h9, h10, h11, h12⟩ := h
  simp only [clientHelloMsg.mk.injEq, true_and]
  exact ⟨w16_inj h1, abs_injective h2, abs_injective h3, map_inj _ (fun _ _ => w16_inj) _ _ h4, abs_injective h5,
    abs_injective h6, map_inj _ absTA_inj _ _ h7, h8, map_inj _ (fun _ _ => w16_inj) _ _ h9,
    map_inj _ (fun _ _ => w16_inj) _ _ h10, map_inj _ (fun _ _ => abs_injective) _ _ h11, abs_injective h12⟩

end inj

/-! ## composing an encoder tie with a decoder tie: the round trip on translated code -/

/-- `Agree` of Tie/UnmarshalTlcpCodec.lean and of Tie/UnmarshalDtlcpCodec.lean are the same predicate -/
theorem agree_accept {M α : Type} {view : M → α} {r : Except String (M × Bool)} {a : α}
    (h : Gotlcp.Tie.UnmarshalTlcpCodec.Agree view r (.ok a)) : ∃ m', r = .ok (m', true) ∧ view m' = a := h
theorem agreeD_accept {M α : Type} {view : M → α} {r : Except String (M × Bool)} {a : α}
    (h : Gotlcp.Tie.UnmarshalDtlcpCodec.Agree view r (.ok a)) : ∃ m', r = .ok (m', true) ∧ view m' = a := h

/-- cryptobyte-based tlcp marshal (`EncAgree`) followed by a decoder that agrees with the model decoder -/
theorem enc_rt {M M' α : Type} {setRaw : BV → M} {m : M} {r : Res M} {o : Option Bytes} {view : M' → α}
    {dec : BV → Except String (M' × Bool)} {decM : Bytes → Outcome α} {a : α}
    (hE : EncAgree setRaw m r o) (hrt : ∃ b, o = some b ∧ decM b = .ok a)
    (hD : ∀ data, ∃ m', decM (abs data) = .ok a → dec data = .ok (m', true) ∧ view m' = a) :
    ∃ bytes m', r = (setRaw bytes, bytes, none) ∧ dec bytes = .ok (m', true) ∧ view m' = a := by
  obtain ⟨b, ho, hd⟩ := hrt
  rw [ho] at hE
  obtain ⟨bytes, e, hab⟩ := hE
  obtain ⟨m', hm⟩ := hD bytes
  rw [hab] at hm
  exact ⟨bytes, m', e, hm hd⟩

/-- what a decoder tie gives, in the shape `enc_rt` wants -/
theorem dec_of_agree {M' α : Type} {view : M' → α} {dec : BV → Except String (M' × Bool)} {decM : Bytes → Outcome α}
    {a : α} (hA : ∀ data, Gotlcp.Tie.UnmarshalTlcpCodec.Agree view (dec data) (decM (abs data))) (data : BV) :
    ∃ m', decM (abs data) = .ok a → dec data = .ok (m', true) ∧ view m' = a := by
  cases hd : decM (abs data) with
  | ok x =>
    have h := hA data
    rw [hd] at h
    obtain ⟨m', e, hv⟩ := h
    exact ⟨m', fun hx => by cases hx; exact ⟨e, hv⟩⟩
  | reject =>
    have h := hA data
    rw [hd] at h
    obtain ⟨m', _⟩ := h
    exact ⟨m', fun hx => by cases hx⟩
  | panic =>
    have h := hA data
    rw [hd] at h
    exact h.elim

theorem dec_of_agreeD {M' α : Type} {view : M' → α} {dec : BV → Except String (M' × Bool)} {decM : Bytes → Outcome α}
    {a : α} (hA : ∀ data, Gotlcp.Tie.UnmarshalDtlcpCodec.Agree view (dec data)
      (decM (Gotlcp.Tie.UnmarshalDtlcpCodec.abs data))) (data : BV) :
    ∃ m', decM (abs data) = .ok a → dec data = .ok (m', true) ∧ view m' = a :=
  dec_of_agree (fun d => hA d) data

/-- hand-written marshal (never an error) followed by a decoder that agrees with the model decoder -/
theorem enc_rt_hand {M M' α : Type} {setRaw : BV → M} {r : Except String (Res M)} {o : Option Bytes} {view : M' → α}
    {dec : BV → Except String (M' × Bool)} {decM : Bytes → Outcome α} {a : α}
    (hE : ∃ bytes, r = .ok (setRaw bytes, bytes, none) ∧ o = some (abs bytes)) (hrt : ∃ b, o = some b ∧ decM b = .ok a)
    (hD : ∀ data, ∃ m', decM (abs data) = .ok a → dec data = .ok (m', true) ∧ view m' = a) :
    ∃ bytes m', r = .ok (setRaw bytes, bytes, none) ∧ dec bytes = .ok (m', true) ∧ view m' = a := by
  obtain ⟨b, ho, hd⟩ := hrt
  obtain ⟨bytes, e, hab⟩ := hE
  rw [hab] at ho
  cases ho
  obtain ⟨m', hm⟩ := hD bytes
  exact ⟨bytes, m', e, hm hd⟩

end Gotlcp.Tie.CodecEnc

namespace Gotlcp.Tie.CodecEncDtlcp
open Gotlcp Gotlcp.Wire Gotlcp.Wire.Msg Gotlcp.Model.CodecDtlcp Gotlcp.Tie.CbBuilder Gotlcp.Tie.CodecEnc
open Gotlcp.Model.Codec (Codes codesD)
open Gotlcp.Tie.UnmarshalTlcpCodec (abs abs_nil abs_cons abs_append abs_length)
open Gotlcp.Tie.UnmarshalDtlcpCodec (hdrView completeD)

/-! ## dtlcp: an object that describes a complete message is encoded as one -/

/-- `header ++ body` of an object with `fragment_offset = 0` and `fragment_length ∈ {0, len body}` passes the
predicate the translated `dtlcpIsCompleteMessage` computes -/
theorem completeD_of_header (bytes : BV) (t : BitVec 8) (T : Nat) (hT : u8 T = UInt8.ofBitVec t) (h : DHdr)
    (body : Bytes) (hw : Spec.Codec.wfDHdr h body.length = true) (e : abs bytes = header T body.length h ++ body) :
    completeD bytes t = true := by
  have hl := Gotlcp.Lemmas.CodecDtlcp.wfDHdr_lt hw
  have h1 := Gotlcp.Lemmas.CodecDtlcp.isComplete_mk T h.seq hl
  rw [← Gotlcp.Lemmas.CodecDtlcp.header_complete T body.length h hw, ← e] at h1
  have h2 := Gotlcp.Tie.UnmarshalDtlcpCodec.model_isComplete bytes t T hT
  rw [show Gotlcp.Tie.UnmarshalDtlcpCodec.abs bytes = abs bytes from rfl, h1] at h2
  cases hc : completeD bytes t with
  | true => rfl
  | false => rw [hc] at h2; cases h2

/-- cryptobyte-based dtlcp marshal (`EncAgreeE`) followed by a decoder that agrees with the model decoder -/
theorem enc_rtE {M M' α : Type} {setRaw : BV → M} {m : M} {r : Except String (Res M)} {o : Option Bytes}
    {view : M' → α} {dec : BV → Except String (M' × Bool)} {decM : Bytes → Outcome α} {a : α}
    (hE : EncAgreeE setRaw m r o) (hrt : ∃ b, o = some b ∧ decM b = .ok a)
    (hD : ∀ data, ∃ m', decM (abs data) = .ok a → dec data = .ok (m', true) ∧ view m' = a) :
    ∃ bytes m', r = .ok (setRaw bytes, bytes, none) ∧ dec bytes = .ok (m', true) ∧ view m' = a := by
  obtain ⟨b, ho, hd⟩ := hrt
  rw [ho] at hE
  obtain ⟨bytes, e, hab⟩ := hE
  obtain ⟨m', hm⟩ := hD bytes
  rw [hab] at hm
  exact ⟨bytes, m', e, hm hd⟩

end Gotlcp.Tie.CodecEncDtlcp

/-
Specification lemmas for the translated `cbBuilder` methods (the stub of `cryptobyte.Builder` that
go2lean writes out statement by statement, see `cbStubs` in harness/cmd/go2lean/main.go; a
continuation `X.AddUintNLengthPrefixed(func(b){BODY})` is rewritten to "run BODY on a fresh child
builder, then `X.addLengthPrefixed (N/8) child`").  Each method, as translated, is a total function
on `cbBuilder = {err : Bool, result : List (BitVec 8)}`; the lemmas below are the rewrite rules the
ties of the cryptobyte-based encoders are built from.

Two abstractions of a builder:
  * `bldv b : Option (List (BitVec 8))` — `none` = the builder carries an error (`Bytes()` fails),
    `some r` = the bytes written so far;
  * `bld b : Option Bytes` — the same over the model's byte type; under `bld` the translated methods
    ARE the model's combinators of `Gotlcp.Wire` (`vec8`, `vec16`, `vec24`, append).

The dtlcp copies of the definitions are the same terms: `dtlcp_*` state the equalities by `rfl`.

Core Lean only.
-/
import Gotlcp.Generated.Src
import Gotlcp.Tie.UnmarshalTlcpCodec

set_option linter.unusedSimpArgs false
set_option linter.unusedVariables false

namespace Gotlcp.Tie.CbBuilder
open Gotlcp Gotlcp.Wire
open Gotlcp.Src.tlcp.codec
open Gotlcp.Tie.UnmarshalTlcpCodec (abs abs_append abs_length)

abbrev BV := List (BitVec 8)

/-! ## the methods as functions -/

theorem add_eq (b : cbBuilder) (x : BV) :
    cbBuilder.add b x = if b.err then b else { b with result := b.result ++ x } := by
  unfold cbBuilder.add
  cases h : b.err <;> simp [Id.run, pure, h]

theorem addUint8_eq (b : cbBuilder) (v : BitVec 8) : cbBuilder.AddUint8 b v = cbBuilder.add b [v] := rfl

theorem addUint16_eq (b : cbBuilder) (v : BitVec 16) :
    cbBuilder.AddUint16 b v = cbBuilder.add b [BitVec.setWidth 8 (v >>> 8), BitVec.setWidth 8 v] := rfl

theorem addUint24_eq (b : cbBuilder) (v : BitVec 32) :
    cbBuilder.AddUint24 b v =
      cbBuilder.add b [BitVec.setWidth 8 (v >>> 16), BitVec.setWidth 8 (v >>> 8), BitVec.setWidth 8 v] := rfl

theorem addUint32_eq (b : cbBuilder) (v : BitVec 32) :
    cbBuilder.AddUint32 b v =
      cbBuilder.add b [BitVec.setWidth 8 (v >>> 24), BitVec.setWidth 8 (v >>> 16), BitVec.setWidth 8 (v >>> 8),
        BitVec.setWidth 8 v] := rfl

theorem addBytes_eq (b : cbBuilder) (v : BV) : cbBuilder.AddBytes b v = cbBuilder.add b v := rfl

theorem setErr_eq (b : cbBuilder) : cbBuilder.setErr b = { b with err := true } := rfl

/-- the `k`-byte big-endian length prefix, as `addLengthPrefixed` writes it (truncating conversions) -/
def lenBytes (k : Nat) (n : Nat) : BV :=
  (if 3 ≤ k then [BitVec.ofInt 8 ((n : Int) >>> 16)] else []) ++
  (if 2 ≤ k then [BitVec.ofInt 8 ((n : Int) >>> 8)] else []) ++ [BitVec.ofInt 8 (n : Int)]

/-- `addLengthPrefixed` as a function: sticky parent error; error when the child has an error or does
not fit a `k`-byte length; otherwise parent ++ length ++ child -/
def lpSpec (b : cbBuilder) (k : Nat) (child : cbBuilder) : cbBuilder :=
  if b.err then b
  else if child.err ∨ 2 ^ (8 * k) ≤ child.result.length then { b with err := true }
  else { b with result := b.result ++ lenBytes k child.result.length ++ child.result }

theorem addLengthPrefixed_eq (b child : cbBuilder) (k : Nat) (hk : k = 1 ∨ k = 2 ∨ k = 3) :
    cbBuilder.addLengthPrefixed b (k : Int) child = lpSpec b k child := by
  unfold cbBuilder.addLengthPrefixed lpSpec lenBytes
  cases hb : b.err
  · cases hc : child.err
    · rcases hk with rfl | rfl | rfl
      · by_cases hn : 2 ^ (8 * 1) ≤ child.result.length
        · have : (child.result.length : Int) > 255 := by omega
          simp [Id.run, pure, hb, hc, hn, this]
        · have : ¬ (child.result.length : Int) > 255 := by omega
          simp [Id.run, pure, hb, hc, hn, this]
      · by_cases hn : 2 ^ (8 * 2) ≤ child.result.length
        · have : (child.result.length : Int) > 65535 := by omega
          simp [Id.run, pure, hb, hc, hn, this]
        · have : ¬ (child.result.length : Int) > 65535 := by omega
          simp [Id.run, pure, hb, hc, hn, this]
      · by_cases hn : 2 ^ (8 * 3) ≤ child.result.length
        · have : (child.result.length : Int) > 16777215 := by omega
          simp [Id.run, pure, hb, hc, hn, this]
        · have : ¬ (child.result.length : Int) > 16777215 := by omega
          simp [Id.run, pure, hb, hc, hn, this]
    · simp [Id.run, pure, hb, hc]
  · simp [Id.run, pure, hb]

theorem addLP1 (b child : cbBuilder) : cbBuilder.addLengthPrefixed b (1 : Int) child = lpSpec b 1 child :=
  addLengthPrefixed_eq b child 1 (Or.inl rfl)
theorem addLP2 (b child : cbBuilder) : cbBuilder.addLengthPrefixed b (2 : Int) child = lpSpec b 2 child :=
  addLengthPrefixed_eq b child 2 (Or.inr (Or.inl rfl))
theorem addLP3 (b child : cbBuilder) : cbBuilder.addLengthPrefixed b (3 : Int) child = lpSpec b 3 child :=
  addLengthPrefixed_eq b child 3 (Or.inr (Or.inr rfl))

theorem bytes_eq (b : cbBuilder) :
    cbBuilder.Bytes b = if b.err then ([], some Go.Error.other) else (b.result, none) := by
  unfold cbBuilder.Bytes
  cases h : b.err <;> simp [Id.run, pure, h]

theorem addBytesWithLength_eq (b : cbBuilder) (v : BV) (n : Nat) :
    addBytesWithLength b v (n : Int) = if v.length = n then cbBuilder.add b v else { b with err := true } := by
  unfold addBytesWithLength
  by_cases h : v.length = n
  · have : ((v.length : Int) != (n : Int)) = false := by simp [h]
    simp [Id.run, pure, h, addBytes_eq]
  · have : ((v.length : Int) != (n : Int)) = true := by
      simp only [bne_iff_ne, ne_eq]; omega
    simp [Id.run, pure, h, this, setErr_eq]

/-! ## the abstraction `bldv` (bytes of the translation) -/

/-- what `Bytes()` would return: `none` = error -/
def bldv (b : cbBuilder) : Option BV := if b.err then none else some b.result

/-- append on optional byte strings (an error on either side is an error) -/
def oapp {α : Type} (x y : Option (List α)) : Option (List α) :=
  match x, y with
  | some a, some b => some (a ++ b)
  | _, _ => none

@[simp] theorem oapp_some {α : Type} (a b : List α) : oapp (some a) (some b) = some (a ++ b) := rfl
@[simp] theorem oapp_none_left {α : Type} (y : Option (List α)) : oapp none y = none := by cases y <;> rfl
@[simp] theorem oapp_none_right {α : Type} (x : Option (List α)) : oapp x none = none := by cases x <;> rfl
theorem oapp_nil_right {α : Type} (x : Option (List α)) : oapp x (some []) = x := by cases x <;> simp [oapp]
theorem oapp_nil_left {α : Type} (x : Option (List α)) : oapp (some []) x = x := by cases x <;> simp [oapp]
theorem oapp_assoc {α : Type} (x y z : Option (List α)) : oapp (oapp x y) z = oapp x (oapp y z) := by
  cases x <;> cases y <;> cases z <;> simp [oapp]

/-- a `k`-byte length-prefixed vector on the translation's bytes -/
def vecN (k : Nat) (c : BV) : Option BV :=
  if c.length < 2 ^ (8 * k) then some (lenBytes k c.length ++ c) else none

theorem bldv_empty : bldv ({} : cbBuilder) = some [] := rfl

theorem bldv_add (b : cbBuilder) (x : BV) : bldv (cbBuilder.add b x) = oapp (bldv b) (some x) := by
  rw [add_eq]; unfold bldv
  cases h : b.err <;> simp [h]

theorem bldv_lpSpec (b child : cbBuilder) (k : Nat) :
    bldv (lpSpec b k child) = oapp (bldv b) ((bldv child).bind (vecN k)) := by
  unfold lpSpec bldv vecN
  cases hb : b.err
  · cases hc : child.err
    · by_cases hn : 2 ^ (8 * k) ≤ child.result.length
      · have : ¬ child.result.length < 2 ^ (8 * k) := by omega
        simp [hb, hc, hn, this]
      · have : child.result.length < 2 ^ (8 * k) := by omega
        simp [hb, hc, hn, this]
    · simp [hb, hc]
  · simp [hb]

theorem bldv_addBytesWithLength (b : cbBuilder) (v : BV) (n : Nat) :
    bldv (addBytesWithLength b v (n : Int)) = oapp (bldv b) (if v.length = n then some v else none) := by
  rw [addBytesWithLength_eq]
  by_cases h : v.length = n
  · rw [if_pos h, if_pos h, bldv_add]
  · rw [if_neg h, if_neg h]; simp [bldv]

/-- `Bytes()` is determined by `bldv` -/
theorem bytes_bldv (b : cbBuilder) :
    cbBuilder.Bytes b = match bldv b with | some r => (r, none) | none => ([], some Go.Error.other) := by
  rw [bytes_eq]; unfold bldv; cases b.err <;> rfl

/-! ## the abstraction `bld` (bytes of the model): the methods are the model's combinators -/

def bld (b : cbBuilder) : Option Bytes := (bldv b).map abs

theorem bld_empty : bld ({} : cbBuilder) = some [] := rfl

theorem map_oapp (x y : Option BV) : (oapp x y).map abs = oapp (x.map abs) (y.map abs) := by
  cases x <;> cases y <;> simp [oapp, abs_append]

theorem bld_add (b : cbBuilder) (x : BV) : bld (cbBuilder.add b x) = oapp (bld b) (some (abs x)) := by
  unfold bld; rw [bldv_add, map_oapp]; rfl

theorem bld_addUint8 (b : cbBuilder) (v : BitVec 8) :
    bld (cbBuilder.AddUint8 b v) = oapp (bld b) (some [UInt8.ofBitVec v]) := by
  rw [addUint8_eq, bld_add]; rfl

/-- a 16-bit value of the translation as the model carries it: its two bytes -/
def w16 (v : BitVec 16) : W16 := (UInt8.ofBitVec (BitVec.setWidth 8 (v >>> 8)), UInt8.ofBitVec (BitVec.setWidth 8 v))

theorem bld_addUint16 (b : cbBuilder) (v : BitVec 16) :
    bld (cbBuilder.AddUint16 b v) = oapp (bld b) (some (w16 v).bytes) := by
  rw [addUint16_eq, bld_add]; rfl

theorem bld_addUint24 (b : cbBuilder) (v : BitVec 32) :
    bld (cbBuilder.AddUint24 b v) = oapp (bld b) (some [UInt8.ofBitVec (BitVec.setWidth 8 (v >>> 16)),
      UInt8.ofBitVec (BitVec.setWidth 8 (v >>> 8)), UInt8.ofBitVec (BitVec.setWidth 8 v)]) := by
  rw [addUint24_eq, bld_add]; rfl

theorem bld_addUint32 (b : cbBuilder) (v : BitVec 32) :
    bld (cbBuilder.AddUint32 b v) = oapp (bld b) (some [UInt8.ofBitVec (BitVec.setWidth 8 (v >>> 24)),
      UInt8.ofBitVec (BitVec.setWidth 8 (v >>> 16)), UInt8.ofBitVec (BitVec.setWidth 8 (v >>> 8)),
      UInt8.ofBitVec (BitVec.setWidth 8 v)]) := by
  rw [addUint32_eq, bld_add]; rfl

theorem bld_addBytes (b : cbBuilder) (v : BV) : bld (cbBuilder.AddBytes b v) = oapp (bld b) (some (abs v)) := by
  rw [addBytes_eq, bld_add]

theorem ofBitVec_ofNat (n : Nat) : UInt8.ofBitVec (BitVec.ofNat 8 n) = u8 n := rfl

/-- `uint8(n >> k)` on a Go `int` that holds a length -/
theorem byte_int (n k : Nat) : UInt8.ofBitVec (BitVec.ofInt 8 ((n : Int) >>> k)) = u8 (n / 2 ^ k) := by
  have : (n : Int) >>> k = ((n / 2 ^ k : Nat) : Int) := by
    rw [Int.shiftRight_eq_div_pow]; norm_cast
  rw [this, BitVec.ofInt_natCast, ofBitVec_ofNat]

theorem byte_int0 (n : Nat) : UInt8.ofBitVec (BitVec.ofInt 8 (n : Int)) = u8 n := by
  rw [BitVec.ofInt_natCast, ofBitVec_ofNat]

theorem abs_lenBytes1 (n : Nat) : abs (lenBytes 1 n) = [u8 n] := by
  show [UInt8.ofBitVec (BitVec.ofInt 8 (n : Int))] = [u8 n]
  rw [byte_int0]
theorem abs_lenBytes2 (n : Nat) : abs (lenBytes 2 n) = be16 n := by
  show [UInt8.ofBitVec (BitVec.ofInt 8 ((n : Int) >>> 8)), UInt8.ofBitVec (BitVec.ofInt 8 (n : Int))] = be16 n
  rw [byte_int0, byte_int]; rfl
theorem abs_lenBytes3 (n : Nat) : abs (lenBytes 3 n) = be24 n := by
  show [UInt8.ofBitVec (BitVec.ofInt 8 ((n : Int) >>> 16)), UInt8.ofBitVec (BitVec.ofInt 8 ((n : Int) >>> 8)),
    UInt8.ofBitVec (BitVec.ofInt 8 (n : Int))] = be24 n
  rw [byte_int0, byte_int, byte_int]; rfl

theorem vecN1_abs (c : BV) : (vecN 1 c).map abs = vec8 (abs c) := by
  unfold vecN vec8
  by_cases h : c.length < 256
  · simp [h, abs_append, abs_lenBytes1]
  · simp [h]
theorem vecN2_abs (c : BV) : (vecN 2 c).map abs = vec16 (abs c) := by
  unfold vecN vec16
  by_cases h : c.length < 65536
  · simp [h, abs_append, abs_lenBytes2]
  · simp [h]
theorem vecN3_abs (c : BV) : (vecN 3 c).map abs = vec24 (abs c) := by
  unfold vecN vec24
  by_cases h : c.length < 16777216
  · simp [h, abs_append, abs_lenBytes3]
  · simp [h]

theorem bind_map_abs (x : Option BV) (f : BV → Option BV) (g : Bytes → Option Bytes)
    (h : ∀ c, (f c).map abs = g (abs c)) : (x.bind f).map abs = (x.map abs).bind g := by
  cases x <;> simp [h]

theorem bld_addLP1 (b child : cbBuilder) :
    bld (cbBuilder.addLengthPrefixed b (1 : Int) child) = oapp (bld b) ((bld child).bind vec8) := by
  rw [addLP1]; unfold bld; rw [bldv_lpSpec, map_oapp, bind_map_abs _ _ _ vecN1_abs]
theorem bld_addLP2 (b child : cbBuilder) :
    bld (cbBuilder.addLengthPrefixed b (2 : Int) child) = oapp (bld b) ((bld child).bind vec16) := by
  rw [addLP2]; unfold bld; rw [bldv_lpSpec, map_oapp, bind_map_abs _ _ _ vecN2_abs]
theorem bld_addLP3 (b child : cbBuilder) :
    bld (cbBuilder.addLengthPrefixed b (3 : Int) child) = oapp (bld b) ((bld child).bind vec24) := by
  rw [addLP3]; unfold bld; rw [bldv_lpSpec, map_oapp, bind_map_abs _ _ _ vecN3_abs]

theorem bld_addBytesWithLength (b : cbBuilder) (v : BV) (n : Nat) :
    bld (addBytesWithLength b v (n : Int)) = oapp (bld b) (if (abs v).length = n then some (abs v) else none) := by
  unfold bld; rw [bldv_addBytesWithLength, map_oapp, abs_length]
  by_cases h : v.length = n <;> simp [h]

/-- `Bytes()` through `bld`: success with exactly the abstracted bytes, or the opaque error and no bytes -/
theorem bytes_bld (b : cbBuilder) :
    match bld b with
    | some r => ∃ bs, cbBuilder.Bytes b = (bs, none) ∧ abs bs = r
    | none => cbBuilder.Bytes b = ([], some Go.Error.other) := by
  rw [bytes_bldv]; unfold bld
  cases bldv b with
  | none => rfl
  | some r => exact ⟨r, rfl, rfl⟩

/-! ## loops that feed a builder -/

/-- `for x in l do b := step b x` in the identity monad is a left fold -/
theorem forIn_fold {α β : Type} (l : List α) (b : β) (step : β → α → β) :
    (forIn (m := Id) l b fun x r => (do pure PUnit.unit; pure (ForInStep.yield (step r x)))) = l.foldl step b := by
  induction l generalizing b with
  | nil => rfl
  | cons x xs ih => simp only [List.forIn_cons, List.foldl_cons]; exact ih _

theorem bld_fold_addUint16 (l : List (BitVec 16)) (b : cbBuilder) :
    bld (l.foldl cbBuilder.AddUint16 b) = oapp (bld b) (some (w16s (l.map w16))) := by
  induction l generalizing b with
  | nil => simp [w16s, concatMap, oapp_nil_right]
  | cons x xs ih =>
    simp only [List.foldl_cons, List.map_cons]
    rw [ih, bld_addUint16, oapp_assoc]; rfl

/-! ## the dtlcp copies

`cbBuilder` is a `structure`, declared once per translated group, so the dtlcp methods live on a
different (isomorphic) type: `cv` converts, and every dtlcp method is the tlcp method through `cv`. -/
section dtlcp
open Gotlcp.Src

def cv (b : dtlcp.codec.cbBuilder) : tlcp.codec.cbBuilder := ⟨b.err, b.result⟩

theorem cv_empty : cv {} = {} := rfl

theorem dtlcp_add (b : dtlcp.codec.cbBuilder) (x : BV) :
    cv (dtlcp.codec.cbBuilder.add b x) = tlcp.codec.cbBuilder.add (cv b) x := by
  unfold dtlcp.codec.cbBuilder.add tlcp.codec.cbBuilder.add cv
  cases h : b.err <;> simp [Id.run, pure, h]
theorem dtlcp_AddUint8 (b : dtlcp.codec.cbBuilder) (v : BitVec 8) :
    cv (dtlcp.codec.cbBuilder.AddUint8 b v) = tlcp.codec.cbBuilder.AddUint8 (cv b) v := dtlcp_add b _
theorem dtlcp_AddUint16 (b : dtlcp.codec.cbBuilder) (v : BitVec 16) :
    cv (dtlcp.codec.cbBuilder.AddUint16 b v) = tlcp.codec.cbBuilder.AddUint16 (cv b) v := dtlcp_add b _
theorem dtlcp_AddUint24 (b : dtlcp.codec.cbBuilder) (v : BitVec 32) :
    cv (dtlcp.codec.cbBuilder.AddUint24 b v) = tlcp.codec.cbBuilder.AddUint24 (cv b) v := dtlcp_add b _
theorem dtlcp_AddUint32 (b : dtlcp.codec.cbBuilder) (v : BitVec 32) :
    cv (dtlcp.codec.cbBuilder.AddUint32 b v) = tlcp.codec.cbBuilder.AddUint32 (cv b) v := dtlcp_add b _
theorem dtlcp_AddBytes (b : dtlcp.codec.cbBuilder) (v : BV) :
    cv (dtlcp.codec.cbBuilder.AddBytes b v) = tlcp.codec.cbBuilder.AddBytes (cv b) v := dtlcp_add b _
theorem dtlcp_setErr (b : dtlcp.codec.cbBuilder) :
    cv (dtlcp.codec.cbBuilder.setErr b) = tlcp.codec.cbBuilder.setErr (cv b) := rfl
theorem dtlcp_addLengthPrefixed (b : dtlcp.codec.cbBuilder) (k : Int) (c : dtlcp.codec.cbBuilder) :
    cv (dtlcp.codec.cbBuilder.addLengthPrefixed b k c) = tlcp.codec.cbBuilder.addLengthPrefixed (cv b) k (cv c) := by
  unfold dtlcp.codec.cbBuilder.addLengthPrefixed tlcp.codec.cbBuilder.addLengthPrefixed cv
  cases hb : b.err
  · cases hc : c.err
    · simp only [Id.run, pure, hb, hc, Bool.false_eq_true, if_false]
      repeat' split
      all_goals rfl
    · simp [Id.run, pure, hb, hc]
  · simp [Id.run, pure, hb]
theorem dtlcp_Bytes (b : dtlcp.codec.cbBuilder) :
    dtlcp.codec.cbBuilder.Bytes b = tlcp.codec.cbBuilder.Bytes (cv b) := by
  unfold dtlcp.codec.cbBuilder.Bytes tlcp.codec.cbBuilder.Bytes cv
  cases h : b.err <;> simp [Id.run, pure, h]
theorem dtlcp_addBytesWithLength (b : dtlcp.codec.cbBuilder) (v : BV) (n : Int) :
    cv (dtlcp.codec.addBytesWithLength b v n) = tlcp.codec.addBytesWithLength (cv b) v n := by
  unfold dtlcp.codec.addBytesWithLength tlcp.codec.addBytesWithLength
  cases h : ((v.length : Int) != n)
  · simp only [Id.run, pure, h, Bool.false_eq_true, if_false]; exact dtlcp_AddBytes b v
  · simp only [Id.run, pure, h, if_true]; rfl

theorem dtlcp_fold_addUint16 (l : List (BitVec 16)) (b : dtlcp.codec.cbBuilder) :
    cv (l.foldl dtlcp.codec.cbBuilder.AddUint16 b) = l.foldl tlcp.codec.cbBuilder.AddUint16 (cv b) := by
  induction l generalizing b with
  | nil => rfl
  | cons x xs ih => simp only [List.foldl_cons]; rw [ih, dtlcp_AddUint16]

end dtlcp

end Gotlcp.Tie.CbBuilder

/-
Tie by translation, pa/conn.go (property C20): `ProtocolDetectConn.ReadFirstHeader`, `ProtocolDetectConn.Read`
and `protocolVersion` are regenerated from the Go source on every run (`Gotlcp.Src.pa`), over a SCRIPTED
transport `goTransport` that stands for the embedded `net.Conn` (a list of `readStep {data, err}`: the most one
`Read` can return, and the error that `Read` reports once the step is used up; end of script = `io.EOF`) and
`goTransport.readFull` = `io.ReadFull` (both written in Go inside go2lean and translated like the rest).

Part 1  closed forms: each translated function equals `.ok` of a total Lean function (`stepRead`, `fullRead`,
        `rfhRes`, `readRes`) — so no call ever yields `Except.error`: no Go panic, and the fuel of the
        `for cond {}` loop of `readFull` (`len(script)+2`) is never exhausted (`loop_run`, by induction with the
        loop state generalised).
Part 2  DIRECTLY on the translated functions, no hand model involved: the byte-accounting invariant
        `pendingBytes c` (header bytes held + all data still in the script); `ReadFirstHeader` leaves it unchanged,
        `Read` hands out exactly a prefix of it, for every script (data together with errors, empty steps, errors
        anywhere) and every buffer; induction over call sequences (`no_byte_lost`, `detect_then_serve`); after a
        successful `ReadFirstHeader`, `(major, minor)` are bytes 1 and 2 of the stream.  The two call orders in
        which bytes ARE lost or invented (a `Read` before the header is complete, a `ReadFirstHeader` between two
        `Read`s that split the header) are excluded by `Call.allowed` and exhibited as examples.
Part 3  the tie to the hand model `Gotlcp.Model.PA` (abstraction `cPD`, `cEv`): the translated functions compute
        what `tRead`, `readFull`+`readFullErr`, `readFirstHeader` and `pdRead` compute, with the parameters this
        tree has (header length 5, version bytes at 1 and 2, resumable header).
-/
import Gotlcp.Generated.Src
import Gotlcp.Model.PA
import Gotlcp.Lemmas.PA

set_option linter.unusedSimpArgs false
set_option linter.unusedVariables false

namespace Gotlcp.Tie.PA
open Gotlcp Gotlcp.Src.pa

abbrev BV := List (BitVec 8)

theorem ok_bind {α β : Type} (a : α) (f : α → Except String β) : Except.bind (.ok a) f = f a := rfl

/-! ## Part 1: closed forms of the translated functions

### the checked helpers on the index patterns that occur -/

theorem slice_to_end {α : Type} (a : List α) (n : Nat) (h : n ≤ a.length) :
    Go.slice a (n : Int) (a.length : Int) = .ok (a.drop n) := by
  unfold Go.slice
  have h1 : ¬ ((n : Int) < 0 ∨ (a.length : Int) < (n : Int) ∨ (a.length : Int) < (a.length : Int)) := by omega
  rw [if_neg h1]
  congr 1
  apply List.take_of_length_le
  simp only [List.length_drop, Int.toNat_natCast]; omega

theorem slice_from_zero {α : Type} (a : List α) (n : Nat) (h : n ≤ a.length) :
    Go.slice a (0 : Int) (n : Int) = .ok (a.take n) := by
  unfold Go.slice
  have h1 : ¬ ((0 : Int) < 0 ∨ (n : Int) < (0 : Int) ∨ (a.length : Int) < (n : Int)) := by omega
  rw [if_neg h1]
  simp

theorem copyInto_front {α : Type} (a src : List α) :
    Go.copyInto a (0 : Int) (a.length : Int) src
      = .ok (src.take (min a.length src.length) ++ a.drop (min a.length src.length)) := by
  unfold Go.copyInto
  have h1 : ¬ ((0 : Int) < 0 ∨ (a.length : Int) < (0 : Int) ∨ (a.length : Int) < (a.length : Int)) := by omega
  rw [if_neg h1]
  simp

theorem copyInto_back {α : Type} (a src : List α) (n : Nat) (h : n ≤ a.length) (hs : src.length = a.length - n) :
    Go.copyInto a (n : Int) (a.length : Int) src = .ok (a.take n ++ src) := by
  unfold Go.copyInto
  have h1 : ¬ ((n : Int) < 0 ∨ (a.length : Int) < (n : Int) ∨ (a.length : Int) < (a.length : Int)) := by omega
  rw [if_neg h1]
  simp only [Int.toNat_natCast]
  have : min (a.length - n) src.length = src.length := by omega
  rw [this, List.take_length]
  have : a.drop (n + src.length) = [] := by apply List.drop_of_length_le; omega
  rw [this, List.append_nil]

/-- one `Read` of the scripted transport into a buffer of length `k`: bytes obtained, the error, the script left -/
def stepRead : List readStep → Nat → BV × Option Go.Error × List readStep
  | s, 0 => ([], none, s)
  | [], _ + 1 => ([], some .eof, [])
  | st :: r, n + 1 =>
    if st.data.length ≤ n + 1 then (st.data, st.err, r)
    else (st.data.take (n + 1), none, { st with data := st.data.drop (n + 1) } :: r)

theorem stepRead_len (s : List readStep) (k : Nat) : (stepRead s k).1.length ≤ k := by
  cases k with
  | zero => simp [stepRead]
  | succ n =>
    cases s with
    | nil => simp [stepRead]
    | cons st r =>
      simp only [stepRead]
      split
      · assumption
      · simp [List.length_take]; omega


theorem idx_zero {α : Type} (x : α) (l : List α) : Go.idx (x :: l) (0 : Int) = .ok x := by
  simp [Go.idx]

theorem set_zero {α : Type} (x y : α) (l : List α) : Go.set (x :: l) (0 : Int) y = .ok (y :: l) := by
  simp [Go.set]

theorem slice_tail {α : Type} (x : α) (l : List α) :
    Go.slice (x :: l) (1 : Int) ((x :: l).length : Int) = .ok l := by
  have := slice_to_end (x :: l) 1 (by simp)
  simpa using this

theorem slice_mid {α : Type} (a : List α) (n : Nat) (h : n ≤ a.length) :
    Go.slice a (n : Int) (a.length : Int) = .ok (a.drop n) := slice_to_end a n h

theorem src_Read (t : goTransport) (b : BV) :
    goTransport.Read t b = .ok ({ script := (stepRead t.script b.length).2.2 },
      (stepRead t.script b.length).1 ++ b.drop (stepRead t.script b.length).1.length,
      ((stepRead t.script b.length).1.length : Int), (stepRead t.script b.length).2.1) := by
  obtain ⟨scr⟩ := t
  unfold goTransport.Read
  simp only [bind, pure, Except.pure]
  cases hb : b with
  | nil => simp [stepRead]
  | cons b0 bs =>
    rw [← hb]
    have hbl : b.length = bs.length + 1 := by rw [hb]; rfl
    have h0 : ((b.length : Int) == 0) = false := by simp [hbl]; omega
    simp only [h0]
    cases scr with
    | nil => simp [stepRead, hbl]
    | cons st r =>
      have h1 : (((st :: r).length : Int) == 0) = false := by simp; omega
      simp only [h1, idx_zero, ok_bind, copyInto_front, set_zero, slice_tail]
      have hlen : (List.take (min b.length st.data.length) st.data ++ List.drop (min b.length st.data.length) b).length
          = b.length := by
        simp only [List.length_append, List.length_take, List.length_drop]; omega
      rw [hlen]
      simp only [hbl, stepRead]
      by_cases hc : st.data.length ≤ bs.length + 1
      · have hm : min (bs.length + 1) st.data.length = st.data.length := by omega
        have hn : ¬ (min ((bs.length + 1 : Nat) : Int) (st.data.length : Int) < (st.data.length : Int)) := by omega
        simp only [hc, if_true, hm, decide_eq_true_eq, hn, if_false, List.take_length]
        have : min ((bs.length + 1 : Nat) : Int) (st.data.length : Int) = (st.data.length : Int) := by omega
        rw [this]
        simp only [Bool.false_eq_true, if_false]
      · have hm : min (bs.length + 1) st.data.length = bs.length + 1 := by omega
        have hn : (min ((bs.length + 1 : Nat) : Int) (st.data.length : Int) < (st.data.length : Int)) := by omega
        have hmi : min ((bs.length + 1 : Nat) : Int) (st.data.length : Int) = ((bs.length + 1 : Nat) : Int) := by omega
        simp only [hc, if_false, hm, decide_eq_true_eq, hn, if_true]
        rw [hmi, slice_mid _ _ (by omega)]
        simp only [ok_bind, List.length_take, hm, Bool.false_eq_true, if_false]

/-- the read loop of `readFull` asking for `k` more bytes: bytes obtained, the error of the last `Read`, the script left -/
def fullRead : List readStep → Nat → BV × Option Go.Error × List readStep
  | s, 0 => ([], none, s)
  | [], _ + 1 => ([], some .eof, [])
  | st :: r, n + 1 =>
    if st.data.length ≤ n + 1 then
      match st.err with
      | some e => (st.data, some e, r)
      | none => ((st.data ++ (fullRead r (n + 1 - st.data.length)).1), (fullRead r (n + 1 - st.data.length)).2.1,
          (fullRead r (n + 1 - st.data.length)).2.2)
    else (st.data.take (n + 1), none, { st with data := st.data.drop (n + 1) } :: r)

theorem fullRead_zero (s : List readStep) : fullRead s 0 = ([], none, s) := by
  cases s <;> simp [fullRead]

/-- `fullRead` is: one `Read`; stop on an error, else go on for the rest -/
theorem fullRead_step (s : List readStep) (k : Nat) (hk : 0 < k) :
    fullRead s k =
      if (stepRead s k).2.1 = none then
        ((stepRead s k).1 ++ (fullRead (stepRead s k).2.2 (k - (stepRead s k).1.length)).1,
          (fullRead (stepRead s k).2.2 (k - (stepRead s k).1.length)).2.1,
          (fullRead (stepRead s k).2.2 (k - (stepRead s k).1.length)).2.2)
      else stepRead s k := by
  cases k with
  | zero => omega
  | succ n =>
    cases s with
    | nil => simp [fullRead, stepRead]
    | cons st r =>
      simp only [fullRead, stepRead]
      by_cases hc : st.data.length ≤ n + 1
      · simp only [hc, if_true]
        cases he : st.err with
        | none => simp
        | some e => simp
      · simp only [hc, if_false, if_true, List.length_take]
        have : n + 1 - min (n + 1) st.data.length = 0 := by omega
        rw [this, fullRead_zero]
        simp

/-- a `Read` that neither fills the buffer nor fails has used up one step of the script -/
theorem stepRead_consumes (s : List readStep) (k : Nat) (he : (stepRead s k).2.1 = none)
    (hl : (stepRead s k).1.length < k) : (stepRead s k).2.2.length + 1 = s.length := by
  cases k with
  | zero => omega
  | succ n =>
    cases s with
    | nil => simp [stepRead] at he
    | cons st r =>
      simp only [stepRead] at he hl ⊢
      by_cases hc : st.data.length ≤ n + 1
      · simp [hc]
      · simp only [hc, if_false, List.length_take] at hl
        omega

abbrev LS := goTransport × BV × Int × Option Go.Error

/-- the body of the translated loop, verbatim -/
def rfBody : Nat → LS → Except String (ForInStep LS) := fun x __s =>
  if (!(decide (__s.snd.snd.fst < ↑__s.snd.fst.length) && !__s.snd.snd.snd.isSome)) = true then
    Except.ok (ForInStep.done (__s.fst, __s.snd.fst, __s.snd.snd.fst, __s.snd.snd.snd))
  else
    (Go.slice __s.snd.fst __s.snd.snd.fst ↑__s.snd.fst.length).bind fun __do_lift =>
      (__s.fst.Read __do_lift).bind fun __do_lift =>
        (Go.copyInto __s.snd.fst __s.snd.snd.fst (↑__s.snd.fst.length) __do_lift.snd.fst).bind
          fun __do_lift_1 =>
          Except.ok
            (ForInStep.yield
              (__do_lift.fst, __do_lift_1, __s.snd.snd.fst + __do_lift.snd.snd.fst,
                __do_lift.snd.snd.snd))

theorem rfBody_done (x : Nat) (scr : List readStep) (pre rest : BV) (err : Option Go.Error)
    (h : ¬ (0 < rest.length ∧ err = none)) :
    rfBody x ({ script := scr }, pre ++ rest, (pre.length : Int), err) =
      .ok (.done ({ script := scr }, pre ++ rest, (pre.length : Int), err)) := by
  unfold rfBody
  have : (!(decide ((pre.length : Int) < ((pre ++ rest).length : Int)) && !err.isSome)) = true := by
    cases err with
    | some e => simp
    | none =>
      simp only [List.length_append, Option.isSome_none, Bool.not_false, Bool.and_true, Bool.not_eq_eq_eq_not,
        Bool.not_true, decide_eq_false_iff_not]
      have : ¬ 0 < rest.length := fun h0 => h ⟨h0, rfl⟩
      omega
  simp only [this, if_true]

theorem rfBody_yield (x : Nat) (scr : List readStep) (pre rest : BV)
    (h : 0 < rest.length) :
    rfBody x ({ script := scr }, pre ++ rest, (pre.length : Int), none) =
      .ok (.yield ({ script := (stepRead scr rest.length).2.2 },
        pre ++ (stepRead scr rest.length).1 ++ rest.drop (stepRead scr rest.length).1.length,
        (((pre ++ (stepRead scr rest.length).1).length : Nat) : Int), (stepRead scr rest.length).2.1)) := by
  unfold rfBody
  have hc : (!(decide ((pre.length : Int) < ((pre ++ rest).length : Int)) && !(none : Option Go.Error).isSome)) = false := by
    simp only [List.length_append, Option.isSome_none, Bool.not_false, Bool.and_true, Bool.not_eq_eq_eq_not,
      Bool.not_false, decide_eq_true_eq]
    omega
  simp only [hc, Bool.false_eq_true, if_false]
  rw [slice_to_end _ _ (by simp), ok_bind, List.drop_left, src_Read, ok_bind]
  have hl := stepRead_len scr rest.length
  rw [copyInto_back _ _ _ (by simp) (by simp [List.length_append, List.length_drop]; omega), ok_bind,
    List.take_left]
  simp only [List.append_assoc, List.length_append, Int.natCast_add]

/-- the state in which the loop ends when started with `pre` already read and `rest` still to fill -/
def loopRes (scr : List readStep) (pre rest : BV) (err : Option Go.Error) : LS :=
  if 0 < rest.length ∧ err = none then
    ({ script := (fullRead scr rest.length).2.2 },
      pre ++ (fullRead scr rest.length).1 ++ rest.drop (fullRead scr rest.length).1.length,
      (((pre ++ (fullRead scr rest.length).1).length : Nat) : Int), (fullRead scr rest.length).2.1)
  else ({ script := scr }, pre ++ rest, (pre.length : Int), err)

theorem loopRes_step (scr : List readStep) (pre rest : BV) (h : 0 < rest.length) :
    loopRes scr pre rest none =
      loopRes (stepRead scr rest.length).2.2 (pre ++ (stepRead scr rest.length).1)
        (rest.drop (stepRead scr rest.length).1.length) (stepRead scr rest.length).2.1 := by
  have hl := stepRead_len scr rest.length
  unfold loopRes
  rw [if_pos ⟨h, rfl⟩, fullRead_step scr rest.length h]
  cases he : (stepRead scr rest.length).2.1 with
  | some e =>
    simp only [reduceCtorEq, if_false, and_false, he]
  | none =>
    simp only [if_true, and_true, List.length_drop]
    by_cases hr : 0 < rest.length - (stepRead scr rest.length).1.length
    · simp only [hr, if_true, List.append_assoc, List.drop_drop, List.length_append]
    · have h0 : rest.length - (stepRead scr rest.length).1.length = 0 := by omega
      simp [h0, fullRead_zero]

theorem loop_run : ∀ (l : List Nat) (scr : List readStep) (pre rest : BV) (err : Option Go.Error),
    ((0 < rest.length ∧ err = none) → scr.length + 1 ≤ l.length) →
    forIn l (({ script := scr }, pre ++ rest, (pre.length : Int), err) : LS) rfBody
      = .ok (loopRes scr pre rest err) := by
  intro l
  induction l with
  | nil =>
    intro scr pre rest err hfuel
    have : ¬ (0 < rest.length ∧ err = none) := fun h => by have := hfuel h; simp at this
    simp [loopRes, this]
    rfl
  | cons x l ih =>
    intro scr pre rest err hfuel
    rw [List.forIn_cons]
    by_cases hc : 0 < rest.length ∧ err = none
    · obtain ⟨hpos, rfl⟩ := hc
      rw [rfBody_yield x scr pre rest hpos]
      show forIn l _ rfBody = _
      rw [ih, ← loopRes_step scr pre rest hpos]
      intro ⟨h1, h2⟩
      have hfu := hfuel ⟨hpos, rfl⟩
      have hcons := stepRead_consumes scr rest.length h2 (by simp only [List.length_drop] at h1; omega)
      simp only [List.length_cons] at hfu
      omega
    · rw [rfBody_done x scr pre rest err hc]
      simp [loopRes, hc]
      rfl

/-- the error `io.ReadFull` reports -/
def fullErr (got need : Nat) (e : Option Go.Error) : Option Go.Error :=
  if need ≤ got then none
  else if 0 < got ∧ e = some .eof then some .unexpectedEOF
  else e

theorem fullRead_len (s : List readStep) : ∀ k, (fullRead s k).1.length ≤ k := by
  induction s with
  | nil => intro k; cases k <;> simp [fullRead]
  | cons st r ih =>
    intro k
    cases k with
    | zero => simp [fullRead]
    | succ n =>
      simp only [fullRead]
      by_cases hc : st.data.length ≤ n + 1
      · simp only [hc, if_true]
        cases he : st.err with
        | some e => simpa using hc
        | none =>
          have := ih (n + 1 - st.data.length)
          simp only [List.length_append]; omega
      · simp only [hc, if_false, List.length_take]; omega

/-- a short result of the loop carries an error (this is why the fuel check never fires) -/
theorem fullRead_short (s : List readStep) : ∀ k, (fullRead s k).1.length < k → (fullRead s k).2.1 ≠ none := by
  induction s with
  | nil => intro k; cases k <;> simp [fullRead]
  | cons st r ih =>
    intro k
    cases k with
    | zero => simp [fullRead]
    | succ n =>
      simp only [fullRead]
      by_cases hc : st.data.length ≤ n + 1
      · simp only [hc, if_true]
        cases he : st.err with
        | some e => simp
        | none =>
          intro hl
          apply ih
          simp only [List.length_append] at hl; omega
      · simp only [hc, if_false, List.length_take]; intro hl; omega

/-- **`goTransport.readFull` in closed form**: never an `Except.error` (no panic, fuel suffices) -/
theorem src_readFull (r : goTransport) (buf : BV) :
    goTransport.readFull r buf = .ok ({ script := (fullRead r.script buf.length).2.2 },
      (fullRead r.script buf.length).1 ++ buf.drop (fullRead r.script buf.length).1.length,
      ((fullRead r.script buf.length).1.length : Int),
      fullErr (fullRead r.script buf.length).1.length buf.length (fullRead r.script buf.length).2.1) := by
  obtain ⟨scr⟩ := r
  unfold goTransport.readFull
  simp only [bind, pure, Except.pure]
  show Except.bind (forIn _ (({ script := scr }, [] ++ buf, (([] : BV).length : Int), none) : LS) rfBody) _ = _
  rw [loop_run _ scr [] buf none (by intro _; simp; omega), ok_bind]
  have hl := fullRead_len scr buf.length
  have hs := fullRead_short scr buf.length
  unfold loopRes
  by_cases hb : 0 < buf.length
  · simp only [hb, and_self, if_true, List.nil_append, List.length_append, List.length_drop]
    generalize fullRead scr buf.length = F at hl hs ⊢
    obtain ⟨out, e, scr'⟩ := F
    simp only at hl hs ⊢
    have hlen : out.length + (buf.length - out.length) = buf.length := by omega
    rw [hlen]
    by_cases hfull : buf.length ≤ out.length
    · have h1 : ¬ ((out.length : Int) < (buf.length : Int)) := by omega
      have h2 : ((out.length : Int) ≥ (buf.length : Int)) := by omega
      simp [h1, h2, fullErr, hfull]
    · have h1 : ((out.length : Int) < (buf.length : Int)) := by omega
      have h2 : ¬ ((out.length : Int) ≥ (buf.length : Int)) := by omega
      have hne := hs (by omega)
      cases e with
      | none => exact absurd rfl hne
      | some e =>
        by_cases hpos : 0 < out.length
        · have h3 : ((out.length : Int) > 0) := by omega
          simp [h1, h2, h3, fullErr, hfull, hpos]
          split <;> simp_all
        · have h3 : ¬ ((out.length : Int) > 0) := by omega
          simp [h1, h2, h3, fullErr, hfull, hpos]
  · have h0 : buf.length = 0 := by omega
    have hnil : buf = [] := List.eq_nil_of_length_eq_zero h0
    subst hnil
    simp [fullRead_zero, fullErr]

abbrev PDC := ProtocolDetectConn

theorem beq_len_false (n : Nat) (h : n ≠ 0) : ((n : Int) == 0) = false := by
  rw [beq_eq_false_iff_ne]; omega

theorem idx_one {α : Type} (l : List α) (d : α) (h : 2 ≤ l.length) : Go.idx l (1 : Int) = .ok (l[1]?.getD d) := by
  match l, h with
  | a :: b :: r, _ => simp [Go.idx]

theorem idx_two {α : Type} (l : List α) (d : α) (h : 3 ≤ l.length) : Go.idx l (2 : Int) = .ok (l[2]?.getD d) := by
  match l, h with
  | a :: b :: c :: r, _ => simp [Go.idx]

/-- what `ReadFirstHeader` leaves when `io.ReadFull` starts from buffer `buf` with fill mark `m` -/
def rfhRes (conn : goTransport) (buf : BV) (m : Nat) : PDC × Option Go.Error :=
  let F := fullRead conn.script (buf.length - m)
  let buf' := buf.take m ++ F.1 ++ buf.drop (m + F.1.length)
  ({ Conn := { script := F.2.2 }, major := buf'[1]?.getD 0#8, minor := buf'[2]?.getD 0#8, recordHeader := buf',
     headerRead := ((m + F.1.length : Nat) : Int) },
   fullErr F.1.length (buf.length - m) F.2.1)

theorem rfh_core (conn : goTransport) (buf : BV) (m : Nat) (hr : Int) (hhr : hr = (m : Int))
    (hm : m ≤ buf.length) (h3 : 3 ≤ buf.length) :
    ((Go.slice buf hr ↑buf.length).bind fun l1 =>
        (conn.readFull l1).bind fun l2 =>
          (Go.copyInto buf hr (↑buf.length) l2.snd.fst).bind fun l3 =>
            (Go.idx l3 1).bind fun a =>
              (Go.idx l3 2).bind fun b =>
                Except.ok
                  (({ Conn := l2.fst, major := a, minor := b, recordHeader := l3,
                      headerRead := hr + l2.snd.snd.fst } : PDC),
                    l2.snd.snd.snd)) = .ok (rfhRes conn buf m) := by
  subst hhr
  have hl := fullRead_len conn.script (buf.length - m)
  rw [slice_to_end _ _ hm, ok_bind, src_readFull, ok_bind]
  simp only [List.length_drop]
  rw [copyInto_back _ _ _ hm (by simp only [List.length_append, List.length_drop]; omega), ok_bind]
  have hb : (buf.take m ++ ((fullRead conn.script (buf.length - m)).1 ++
      List.drop (fullRead conn.script (buf.length - m)).1.length (List.drop m buf)))
      = buf.take m ++ (fullRead conn.script (buf.length - m)).1 ++ buf.drop (m + (fullRead conn.script (buf.length - m)).1.length) := by
    rw [List.drop_drop, List.append_assoc]
  rw [hb]
  have hlen : (buf.take m ++ (fullRead conn.script (buf.length - m)).1 ++ buf.drop (m + (fullRead conn.script (buf.length - m)).1.length)).length = buf.length := by
    simp only [List.length_append, List.length_take, List.length_drop]; omega
  rw [idx_one _ 0#8 (by omega), ok_bind, idx_two _ 0#8 (by omega), ok_bind]
  simp only [rfhRes, Int.natCast_add]

/-- the buffer and the fill mark `io.ReadFull` starts from -/
def rfhStart (c : PDC) : BV × Nat :=
  if (c.recordHeader.isEmpty || decide (c.headerRead > (c.recordHeader.length : Int))) = true then (List.replicate 5 0#8, 0)
  else (c.recordHeader, c.headerRead.toNat)

/-- states in which `ReadFirstHeader` does not panic: the buffer is about to be (re)made, or has room for the
version bytes -/
def RfhPre (c : PDC) : Prop :=
  c.recordHeader = [] ∨ c.headerRead > (c.recordHeader.length : Int) ∨ (3 ≤ c.recordHeader.length ∧ 0 ≤ c.headerRead)

/-- **`ReadFirstHeader` in closed form**: never an `Except.error` -/
theorem src_RFH (c : PDC) (h : RfhPre c) :
    ProtocolDetectConn.ReadFirstHeader c = .ok (rfhRes c.Conn (rfhStart c).1 (rfhStart c).2) := by
  unfold ProtocolDetectConn.ReadFirstHeader rfhStart
  simp only [bind, pure, Except.pure]
  by_cases hf : (c.recordHeader.isEmpty || decide (c.headerRead > (c.recordHeader.length : Int))) = true
  · simp only [hf, if_true]
    have hmk : Go.make (0#8) (5 : Int) = .ok (List.replicate 5 0#8) := by simp [Go.make]
    rw [hmk, ok_bind]
    exact rfh_core c.Conn (List.replicate 5 0#8) 0 0 rfl (by simp) (by simp)
  · simp only [hf, if_false]
    simp only [Bool.or_eq_true, List.isEmpty_iff, decide_eq_true_eq, not_or] at hf
    have h3 : 3 ≤ c.recordHeader.length ∧ 0 ≤ c.headerRead := by
      rcases h with h | h | h
      · exact absurd h hf.1
      · exact absurd h hf.2
      · exact h
    exact rfh_core c.Conn c.recordHeader c.headerRead.toNat c.headerRead (by omega) (by omega) h3.1

/-- what `ProtocolDetectConn.Read(b)` returns: the connection, the buffer, `n`, the error -/
def readRes (c : PDC) (b : BV) : PDC × BV × Int × Option Go.Error :=
  if c.recordHeader.length = 0 then
    ({ c with Conn := { script := (stepRead c.Conn.script b.length).2.2 } },
      (stepRead c.Conn.script b.length).1 ++ b.drop (stepRead c.Conn.script b.length).1.length,
      ((stepRead c.Conn.script b.length).1.length : Int), (stepRead c.Conn.script b.length).2.1)
  else if c.recordHeader.length ≤ b.length then
    if c.recordHeader.length < b.length then
      ({ c with recordHeader := [],
                Conn := { script := (stepRead c.Conn.script (b.length - c.recordHeader.length)).2.2 } },
        c.recordHeader ++ (stepRead c.Conn.script (b.length - c.recordHeader.length)).1 ++
          b.drop (c.recordHeader.length + (stepRead c.Conn.script (b.length - c.recordHeader.length)).1.length),
        ((c.recordHeader.length + (stepRead c.Conn.script (b.length - c.recordHeader.length)).1.length : Nat) : Int),
        (stepRead c.Conn.script (b.length - c.recordHeader.length)).2.1)
    else ({ c with recordHeader := [] }, c.recordHeader ++ b.drop c.recordHeader.length, (c.recordHeader.length : Int), none)
  else ({ c with recordHeader := c.recordHeader.drop b.length }, c.recordHeader.take b.length, (b.length : Int), none)

/-- **`ProtocolDetectConn.Read` in closed form**, every state and every buffer: never an `Except.error` -/
theorem src_PRead (c : PDC) (b : BV) : ProtocolDetectConn.Read c b = .ok (readRes c b) := by
  unfold ProtocolDetectConn.Read readRes
  simp only [bind, pure, Except.pure]
  by_cases h0 : c.recordHeader.length = 0
  · have : ((c.recordHeader.length : Int) == 0) = true := by simp [h0]
    rw [if_pos this, if_pos h0, src_Read, ok_bind]
  · have : ((c.recordHeader.length : Int) == 0) = false := beq_len_false _ h0
    rw [if_neg (by simp [this]), if_neg h0]
    by_cases h1 : c.recordHeader.length ≤ b.length
    · have hd : decide ((b.length : Int) ≥ (c.recordHeader.length : Int)) = true := by simp; omega
      have hmin : min b.length c.recordHeader.length = c.recordHeader.length := by omega
      simp only [hd, if_true, h1, copyInto_front, ok_bind, hmin, List.take_length]
      have hlen : (c.recordHeader ++ List.drop c.recordHeader.length b).length = b.length := by
        simp only [List.length_append, List.length_drop]; omega
      have hmi : min (b.length : Int) (c.recordHeader.length : Int) = (c.recordHeader.length : Int) := by omega
      rw [hlen, hmi]
      by_cases h2 : c.recordHeader.length < b.length
      · have hd2 : decide ((b.length : Int) > (c.recordHeader.length : Int)) = true := by simp; omega
        simp only [hd2, if_true, h2]
        have hsl := slice_to_end (c.recordHeader ++ List.drop c.recordHeader.length b) c.recordHeader.length (by omega)
        rw [hlen] at hsl
        rw [hsl, ok_bind, List.drop_left, src_Read, ok_bind]
        simp only [List.length_drop]
        have hl := stepRead_len c.Conn.script (b.length - c.recordHeader.length)
        have hcp := copyInto_back (c.recordHeader ++ List.drop c.recordHeader.length b)
          ((stepRead c.Conn.script (b.length - c.recordHeader.length)).1 ++
            List.drop (stepRead c.Conn.script (b.length - c.recordHeader.length)).1.length (List.drop c.recordHeader.length b))
          c.recordHeader.length (by omega)
          (by simp only [List.length_append, List.length_drop]; omega)
        rw [hlen] at hcp
        rw [hcp, ok_bind, List.take_left, List.drop_drop, ← List.append_assoc]
        cases he : (stepRead c.Conn.script (b.length - c.recordHeader.length)).2.1 with
        | none => simp [Int.natCast_add]
        | some e => simp [Int.natCast_add]
      · have hd2 : decide ((b.length : Int) > (c.recordHeader.length : Int)) = false := by simp; omega
        simp only [hd2, Bool.false_eq_true, if_false, h2]
    · have hd : decide ((b.length : Int) ≥ (c.recordHeader.length : Int)) = false := by simp; omega
      simp only [hd, Bool.false_eq_true, if_false, h1]
      rw [slice_from_zero _ _ (by omega), ok_bind, copyInto_front, ok_bind]
      have hmin : min b.length (List.take b.length c.recordHeader).length = b.length := by
        simp only [List.length_take]; omega
      rw [hmin]
      have hb : List.take b.length (List.take b.length c.recordHeader) ++ List.drop b.length b
          = List.take b.length c.recordHeader := by simp [List.take_take]
      rw [hb]
      have hbl : (List.take b.length c.recordHeader).length = b.length := by simp only [List.length_take]; omega
      rw [hbl, slice_to_end _ _ (by omega), ok_bind]
      have : (((List.drop b.length c.recordHeader).length : Int) == 0) = false := by
        apply beq_len_false
        simp only [List.length_drop]; omega
      simp only [this, Bool.false_eq_true, if_false]

/-! ## Part 2: no byte is lost, duplicated or reordered — directly on the translated functions -/

/-- all data bytes still in the script, in order -/
def scriptData : List readStep → BV
  | [] => []
  | st :: r => st.data ++ scriptData r

/-- the header bytes the connection holds for the serving stack: the filled part of the buffer while the header
is being read (`recordHeader[:headerRead]`), all of what is left of it while it is being replayed
(`headerRead` then still has its final value 5 ≥ `len(recordHeader)`) -/
def held (c : PDC) : BV := c.recordHeader.take c.headerRead.toNat

/-- **the bytes of the client's stream not yet handed to the caller of `Read`** -/
def pendingBytes (c : PDC) : BV := held c ++ scriptData c.Conn.script

theorem stepRead_data (s : List readStep) (k : Nat) :
    (stepRead s k).1 ++ scriptData (stepRead s k).2.2 = scriptData s := by
  cases k with
  | zero => simp [stepRead]
  | succ n =>
    cases s with
    | nil => simp [stepRead, scriptData]
    | cons st r =>
      simp only [stepRead]
      by_cases hc : st.data.length ≤ n + 1
      · simp [hc, scriptData]
      · simp [hc, scriptData, ← List.append_assoc, List.take_append_drop]

theorem fullRead_data (s : List readStep) : ∀ k,
    (fullRead s k).1 ++ scriptData (fullRead s k).2.2 = scriptData s := by
  induction s with
  | nil => intro k; cases k <;> simp [fullRead, scriptData]
  | cons st r ih =>
    intro k
    cases k with
    | zero => simp [fullRead]
    | succ n =>
      simp only [fullRead]
      by_cases hc : st.data.length ≤ n + 1
      · simp only [hc, if_true]
        cases he : st.err with
        | some e => simp [scriptData]
        | none => simp only [scriptData, List.append_assoc]; rw [ih]
      · simp [hc, scriptData, ← List.append_assoc, List.take_append_drop]

/-- states in which `ReadFirstHeader` may be called: no header buffer yet (or all of it handed on), or the
five-byte buffer with its fill mark -/
def PeekInv (c : PDC) : Prop :=
  c.recordHeader = [] ∨ (c.recordHeader.length = 5 ∧ 0 ≤ c.headerRead ∧ c.headerRead ≤ 5)

/-- the header is complete: five bytes, all read -/
def Ready (c : PDC) : Prop := c.recordHeader.length = 5 ∧ c.headerRead = 5

/-- states in which `Read` may be called: everything in `recordHeader` is client data (nothing of the buffer is
still unfilled) -/
def Full (c : PDC) : Prop := c.recordHeader = [] ∨ (c.recordHeader.length : Int) ≤ c.headerRead

theorem Ready.peek {c : PDC} (h : Ready c) : PeekInv c := Or.inr ⟨h.1, by rw [h.2]; decide, by rw [h.2]; decide⟩
theorem Ready.full {c : PDC} (h : Ready c) : Full c := Or.inr (by rw [h.1, h.2]; decide)

theorem PeekInv.pre {c : PDC} (h : PeekInv c) : RfhPre c := by
  rcases h with h | h
  · exact Or.inl h
  · exact Or.inr (Or.inr ⟨by omega, h.2.1⟩)

theorem held_full {c : PDC} (h : Full c) : held c = c.recordHeader := by
  unfold held
  rcases h with h | h
  · rw [h]; simp
  · apply List.take_of_length_le; omega

/-- on a complete header `ReadFirstHeader` is a no-op that returns nil -/
theorem rfh_ready (c : PDC) (h : Ready c) (hv : c.recordHeader[1]? = some c.major ∧ c.recordHeader[2]? = some c.minor) :
    ProtocolDetectConn.ReadFirstHeader c = .ok (c, none) := by
  rw [src_RFH c h.peek.pre]
  have hst : rfhStart c = (c.recordHeader, 5) := by
    unfold rfhStart
    have hne : c.recordHeader.isEmpty = false := by
      cases hh : c.recordHeader with
      | nil => have := h.1; rw [hh] at this; simp at this
      | cons a l => rfl
    have hgt : decide (c.headerRead > (c.recordHeader.length : Int)) = false := by
      rw [h.1, h.2]; decide
    simp only [hne, hgt, Bool.or_false, Bool.false_eq_true, if_false]
    rw [h.2]; rfl
  rw [hst]
  simp only [rfhRes, h.1, Nat.sub_self, fullRead_zero, List.append_nil, List.length_nil, Nat.add_zero, fullErr]
  have h5 : c.recordHeader.drop 5 = [] := List.drop_of_length_le (by rw [h.1]; exact Nat.le_refl 5)
  have ht : c.recordHeader.take 5 = c.recordHeader := List.take_of_length_le (by rw [h.1]; exact Nat.le_refl 5)
  rw [h5, List.append_nil, ht, hv.1, hv.2]
  obtain ⟨conn, mj, mn, rh, hr⟩ := c
  obtain ⟨scr⟩ := conn
  have h2 : hr = 5 := h.2
  subst h2
  simp only [Option.getD_some, Nat.le_refl, if_true]
  rfl

/-- **one `ReadFirstHeader`** from a state in which it may be called: returns (no panic, fuel suffices), leaves
the five-byte buffer with its fill mark, changes nothing of the pending bytes, and the version bytes are bytes 1
and 2 of the buffer; when it returns nil the header is complete. -/
theorem rfh_step (c : PDC) (h : PeekInv c) :
    ∃ c' e, ProtocolDetectConn.ReadFirstHeader c = .ok (c', e) ∧
      c'.recordHeader.length = 5 ∧ 0 ≤ c'.headerRead ∧ c'.headerRead ≤ 5 ∧
      pendingBytes c' = pendingBytes c ∧
      c'.recordHeader[1]? = some c'.major ∧ c'.recordHeader[2]? = some c'.minor ∧
      (e = none → c'.headerRead = 5) := by
  rw [src_RFH c h.pre]
  refine ⟨_, _, rfl, ?_⟩
  -- the buffer and fill mark ReadFull starts from
  have hst : (rfhStart c).1.length = 5 ∧ (rfhStart c).2 ≤ 5 ∧
      (rfhStart c).1.take (rfhStart c).2 = held c := by
    unfold rfhStart held
    rcases h with h | ⟨h1, h2, h3⟩
    · simp [h, Ready]
    · have hne : c.recordHeader.isEmpty = false := by
        cases hh : c.recordHeader with
        | nil => rw [hh] at h1; simp at h1
        | cons a l => rfl
      have hgt : decide (c.headerRead > (c.recordHeader.length : Int)) = false := by
        rw [h1]; simp; omega
      simp only [hne, hgt, Bool.or_false, Bool.false_eq_true, if_false]
      exact ⟨h1, by omega, trivial⟩
  obtain ⟨hlen, hm, htake⟩ := hst
  generalize rfhStart c = st at hlen hm htake
  obtain ⟨buf, m⟩ := st
  simp only at hlen hm htake
  have hl := fullRead_len c.Conn.script (buf.length - m)
  have hd := fullRead_data c.Conn.script (buf.length - m)
  have hs := fullRead_short c.Conn.script (buf.length - m)
  simp only [rfhRes]
  generalize fullRead c.Conn.script (buf.length - m) = F at hl hd hs
  obtain ⟨out, e, scr'⟩ := F
  simp only at hl hd hs ⊢
  have hblen : (buf.take m ++ out ++ buf.drop (m + out.length)).length = 5 := by
    simp only [List.length_append, List.length_take, List.length_drop]; omega
  refine ⟨hblen, by omega, by omega, ?_, ?_, ?_, ?_⟩
  · -- pending bytes
    unfold pendingBytes held
    simp only [Int.toNat_natCast]
    have : (buf.take m ++ out ++ buf.drop (m + out.length)).take (m + out.length) = buf.take m ++ out := by
      apply List.take_left'
      simp only [List.length_append, List.length_take]; omega
    rw [this, htake, List.append_assoc, hd]
    rfl
  · rw [List.getElem?_eq_getElem (by omega)]; simp
  · rw [List.getElem?_eq_getElem (by omega)]; simp
  · intro he
    unfold fullErr at he
    by_cases hfull : buf.length - m ≤ out.length
    · omega
    · simp only [hfull, if_false] at he
      have hne := hs (by omega)
      by_cases h2 : 0 < out.length ∧ e = some Go.Error.eof
      · simp [h2] at he
      · simp only [h2, if_false] at he; exact absurd he hne

theorem readRes_nil (c : PDC) (b : BV) (h0 : c.recordHeader.length = 0) :
    readRes c b = ({ c with Conn := { script := (stepRead c.Conn.script b.length).2.2 } },
      (stepRead c.Conn.script b.length).1 ++ b.drop (stepRead c.Conn.script b.length).1.length,
      ((stepRead c.Conn.script b.length).1.length : Int), (stepRead c.Conn.script b.length).2.1) := by
  unfold readRes; rw [if_pos h0]

theorem readRes_long (c : PDC) (b : BV) (h0 : c.recordHeader.length ≠ 0) (h2 : c.recordHeader.length < b.length) :
    readRes c b = ({ c with recordHeader := [], Conn := { script := (stepRead c.Conn.script (b.length - c.recordHeader.length)).2.2 } },
        c.recordHeader ++ (stepRead c.Conn.script (b.length - c.recordHeader.length)).1 ++
          b.drop (c.recordHeader.length + (stepRead c.Conn.script (b.length - c.recordHeader.length)).1.length),
        ((c.recordHeader.length + (stepRead c.Conn.script (b.length - c.recordHeader.length)).1.length : Nat) : Int),
        (stepRead c.Conn.script (b.length - c.recordHeader.length)).2.1) := by
  unfold readRes; rw [if_neg h0, if_pos (Nat.le_of_lt h2), if_pos h2]

theorem readRes_exact (c : PDC) (b : BV) (h0 : c.recordHeader.length ≠ 0) (h2 : c.recordHeader.length = b.length) :
    readRes c b = ({ c with recordHeader := [] }, c.recordHeader ++ b.drop c.recordHeader.length,
      (c.recordHeader.length : Int), none) := by
  unfold readRes; rw [if_neg h0, if_pos (Nat.le_of_eq h2), if_neg (by omega)]

theorem readRes_short (c : PDC) (b : BV) (h1 : b.length < c.recordHeader.length) :
    readRes c b = ({ c with recordHeader := c.recordHeader.drop b.length }, c.recordHeader.take b.length,
      (b.length : Int), none) := by
  unfold readRes; rw [if_neg (by omega), if_neg (by omega)]

/-- **one `Read(b)`** from a state in which it may be called, any buffer: returns (no panic); `0 ≤ n ≤ len(b)`; the
buffer keeps its length and its bytes beyond `n`; **the `n` bytes handed out followed by what is pending afterwards
are exactly what was pending before**; the version bytes are not touched. -/
theorem read_step (c : PDC) (b : BV) (h : Full c) :
    ∃ c' b' n e, ProtocolDetectConn.Read c b = .ok (c', b', n, e) ∧
      0 ≤ n ∧ n ≤ (b.length : Int) ∧ b'.length = b.length ∧ b'.drop n.toNat = b.drop n.toNat ∧
      b'.take n.toNat ++ pendingBytes c' = pendingBytes c ∧
      Full c' ∧ c'.major = c.major ∧ c'.minor = c.minor := by
  rw [src_PRead]
  unfold pendingBytes
  rw [held_full h]
  by_cases h0 : c.recordHeader.length = 0
  · have hnil : c.recordHeader = [] := List.eq_nil_of_length_eq_zero h0
    have hl := stepRead_len c.Conn.script b.length
    have hd := stepRead_data c.Conn.script b.length
    rw [readRes_nil c b h0]
    refine ⟨_, _, _, _, rfl, by omega, by omega, ?_, ?_, ?_, Or.inl hnil, rfl, rfl⟩
    · simp only [List.length_append, List.length_drop]; omega
    · rw [Int.toNat_natCast, List.drop_left]
    · rw [Int.toNat_natCast, List.take_left]
      simp only [held, hnil, List.take_nil, List.nil_append]; exact hd
  · by_cases h2 : c.recordHeader.length < b.length
    · have hl := stepRead_len c.Conn.script (b.length - c.recordHeader.length)
      have hd := stepRead_data c.Conn.script (b.length - c.recordHeader.length)
      rw [readRes_long c b h0 h2]
      refine ⟨_, _, _, _, rfl, by omega, by omega, ?_, ?_, ?_, Or.inl rfl, rfl, rfl⟩
      · simp only [List.length_append, List.length_drop]; omega
      · rw [Int.toNat_natCast, List.drop_left' (by simp only [List.length_append])]
      · rw [Int.toNat_natCast, List.take_left' (by simp only [List.length_append]), held_full (Or.inl rfl)]
        simp only [List.nil_append, List.append_assoc]
        rw [hd]
    · by_cases he : c.recordHeader.length = b.length
      · rw [readRes_exact c b h0 he]
        refine ⟨_, _, _, _, rfl, by omega, by omega, ?_, ?_, ?_, Or.inl rfl, rfl, rfl⟩
        · simp only [List.length_append, List.length_drop]; omega
        · rw [Int.toNat_natCast, List.drop_left]
        · rw [Int.toNat_natCast, List.take_left, held_full (Or.inl rfl)]; rfl
      · have h1 : b.length < c.recordHeader.length := by omega
        rw [readRes_short c b h1]
        have hfull' : Full { c with recordHeader := c.recordHeader.drop b.length } := by
          rcases h with h | h
          · rw [h] at h0; simp at h0
          · refine Or.inr ?_
            simp only [List.length_drop]; omega
        refine ⟨_, _, _, _, rfl, by omega, by omega, ?_, ?_, ?_, hfull', rfl, rfl⟩
        · simp only [List.length_take]; omega
        · rw [Int.toNat_natCast, List.drop_of_length_le (by simp only [List.length_take]; omega), List.drop_length]
        · rw [Int.toNat_natCast, List.take_of_length_le (by simp only [List.length_take]; omega), held_full hfull']
          simp only
          rw [← List.append_assoc, List.take_append_drop]

/-! ### call sequences -/

/-- a call on the detecting connection -/
inductive Call where
  | rfh
  | read (b : BV)

/-- what the caller gets back: the bytes handed to it (`b[:n]`; none for `ReadFirstHeader`) and the error -/
structure Out where
  bytes : BV
  err : Option Go.Error
deriving DecidableEq, Repr

/-- one call of the translated code -/
def step (c : PDC) : Call → Except String (PDC × Out)
  | .rfh => (ProtocolDetectConn.ReadFirstHeader c).bind fun r => .ok (r.1, { bytes := [], err := r.2 })
  | .read b => (ProtocolDetectConn.Read c b).bind fun r => .ok (r.1, { bytes := r.2.1.take r.2.2.1.toNat, err := r.2.2.2 })

/-- a sequence of calls -/
def run : PDC → List Call → Except String (PDC × List Out)
  | c, [] => .ok (c, [])
  | c, k :: ks => (step c k).bind fun r1 => (run r1.1 ks).bind fun r2 => .ok (r2.1, r1.2 :: r2.2)

/-- everything the `Read` calls handed out, in order -/
def deliveredBytes (os : List Out) : BV := (os.map (·.bytes)).flatten

/-- the state in which a call may be made: `ReadFirstHeader` while the header is peeked (`PeekInv`), `Read` once
nothing of the buffer is unfilled (`Full`).  Both hold before the first call, after a successful
`ReadFirstHeader` (`Ready`), and whenever `Read` has handed the whole header on. -/
def Call.allowed (c : PDC) : Call → Prop
  | .rfh => PeekInv c
  | .read _ => Full c

/-- every call of the sequence is made in a state in which it is allowed -/
def Disciplined : PDC → List Call → Prop
  | _, [] => True
  | c, k :: ks => k.allowed c ∧ ∀ c1 o, step c k = .ok (c1, o) → Disciplined c1 ks

/-- one allowed call: returns; the bytes handed out followed by what is pending are what was pending -/
theorem step_pending (c : PDC) (k : Call) (h : k.allowed c) :
    ∃ c' o, step c k = .ok (c', o) ∧ o.bytes ++ pendingBytes c' = pendingBytes c := by
  cases k with
  | rfh =>
    obtain ⟨c', e, he, _, _, _, hp, _⟩ := rfh_step c h
    exact ⟨c', ⟨[], e⟩, by simp only [step, he, ok_bind], by simpa using hp⟩
  | read b =>
    obtain ⟨c', b', n, e, he, _, _, _, _, hp, _⟩ := read_step c b h
    exact ⟨c', ⟨b'.take n.toNat, e⟩, by simp only [step, he, ok_bind], hp⟩

/-- **No byte is lost, duplicated or reordered**: for every state, every script in it and every sequence of
`ReadFirstHeader` / `Read(b)` calls (any buffers, any interleaving in which each call is allowed in its state),
the translated code returns from every call, and the bytes handed out by the `Read` calls followed by what is
still pending are exactly what was pending at the start. -/
theorem no_byte_lost : ∀ (ks : List Call) (c : PDC), Disciplined c ks →
    ∃ c' os, run c ks = .ok (c', os) ∧ os.length = ks.length ∧
      deliveredBytes os ++ pendingBytes c' = pendingBytes c := by
  intro ks
  induction ks with
  | nil => intro c _; exact ⟨c, [], rfl, rfl, by simp [deliveredBytes]⟩
  | cons k ks ih =>
    intro c hd
    obtain ⟨hk, hrest⟩ := hd
    obtain ⟨c1, o, hs, hp⟩ := step_pending c k hk
    obtain ⟨c2, os, hr, hl, hp2⟩ := ih c1 (hrest c1 o hs)
    refine ⟨c2, o :: os, by simp only [run, hs, hr, ok_bind], by simp [hl], ?_⟩
    simp only [deliveredBytes, List.map_cons, List.flatten_cons, List.append_assoc]
    simp only [deliveredBytes] at hp2
    rw [hp2, hp]

/-! ### the use `detect` and the serving stack make of it: `ReadFirstHeader` until it returns nil, then `Read`s -/

theorem rfh_step' (c : PDC) (h : PeekInv c) :
    ∃ c' o, step c .rfh = .ok (c', o) ∧ PeekInv c' ∧ pendingBytes c' = pendingBytes c ∧ o.bytes = [] ∧
      c'.recordHeader[1]? = some c'.major ∧ c'.recordHeader[2]? = some c'.minor ∧
      (o.err = none → Ready c') := by
  obtain ⟨c', e, he, h1, h2, h3, hp, hmj, hmn, hok⟩ := rfh_step c h
  exact ⟨c', ⟨[], e⟩, by simp only [step, he, ok_bind], Or.inr ⟨h1, h2, h3⟩, hp, rfl, hmj, hmn,
    fun h0 => ⟨h1, hok h0⟩⟩

/-- the version bytes are consistent with the buffer (true after any `ReadFirstHeader`) -/
def VerOK (c : PDC) : Prop := c.recordHeader[1]? = some c.major ∧ c.recordHeader[2]? = some c.minor

/-- any number of `ReadFirstHeader` calls, whatever they return: all return, the state stays one in which the
call is allowed, nothing is handed out and nothing pending changes; if one of them returned nil, the header is
complete (and later calls were no-ops) -/
theorem rfhs_run : ∀ (k : Nat) (c : PDC), PeekInv c →
    ∃ c' os, run c (List.replicate k .rfh) = .ok (c', os) ∧ os.length = k ∧ PeekInv c' ∧
      pendingBytes c' = pendingBytes c ∧ deliveredBytes os = [] ∧
      (0 < k → VerOK c') ∧
      ((∃ o ∈ os, o.err = none) → Ready c' ∧ VerOK c') ∧
      (Ready c ∧ VerOK c → c' = c) := by
  intro k
  induction k with
  | zero =>
    intro c h
    exact ⟨c, [], rfl, rfl, h, rfl, rfl, by omega, by simp, fun _ => rfl⟩
  | succ k ih =>
    intro c h
    obtain ⟨c1, o, hs, hpk, hp, hb, hmj, hmn, hok⟩ := rfh_step' c h
    obtain ⟨c2, os, hr, hl, hpk2, hp2, hd2, hv2, hok2, hfix2⟩ := ih c1 hpk
    refine ⟨c2, o :: os, by simp only [List.replicate_succ, run, hs, hr, ok_bind], by simp [hl], hpk2,
      by rw [hp2, hp], ?_, ?_, ?_, ?_⟩
    · simp only [deliveredBytes, List.map_cons, List.flatten_cons, hb, List.nil_append]; exact hd2
    · intro _
      cases k with
      | zero =>
        simp only [List.replicate_zero, run] at hr
        injection hr with hr; injection hr with hr1 _
        rw [← hr1]; exact ⟨hmj, hmn⟩
      | succ k => exact hv2 (by omega)
    · intro ⟨o', ho', he'⟩
      simp only [List.mem_cons] at ho'
      rcases ho' with rfl | ho'
      · have hrd := hok he'
        have := hfix2 ⟨hrd, hmj, hmn⟩
        rw [this]; exact ⟨hrd, hmj, hmn⟩
      · exact hok2 ⟨o', ho', he'⟩
    · intro ⟨hrd, hv⟩
      have h1 := rfh_ready c hrd hv
      have : c1 = c := by
        simp only [step, h1, ok_bind] at hs
        injection hs with hs; injection hs with hs1 _
        exact hs1.symm
      rw [this] at hfix2
      exact hfix2 ⟨hrd, hv⟩

/-- `Read` calls only: allowed all along from a `Full` state -/
theorem reads_disciplined : ∀ (bufs : List BV) (c : PDC), Full c → Disciplined c (bufs.map .read) := by
  intro bufs
  induction bufs with
  | nil => intro c _; trivial
  | cons b bs ih =>
    intro c h
    refine ⟨h, ?_⟩
    intro c1 o hs
    obtain ⟨c', b', n, e, he, _, _, _, _, _, hf, _⟩ := read_step c b h
    simp only [step, he, ok_bind] at hs
    injection hs with hs; injection hs with hs1 _
    rw [← hs1]; exact ih c' hf

/-- `Read` calls do not touch the version bytes -/
theorem reads_version : ∀ (bufs : List BV) (c c' : PDC) (os : List Out), Full c →
    run c (bufs.map .read) = .ok (c', os) → c'.major = c.major ∧ c'.minor = c.minor := by
  intro bufs
  induction bufs with
  | nil =>
    intro c c' os _ hr
    simp only [List.map_nil, run] at hr
    injection hr with hr; injection hr with hr1 _
    rw [← hr1]; exact ⟨rfl, rfl⟩
  | cons b bs ih =>
    intro c c' os h hr
    obtain ⟨c1, b', n, e, he, _, _, _, _, _, hf, hmj, hmn⟩ := read_step c b h
    simp only [List.map_cons, run, step, he, ok_bind] at hr
    cases hr2 : run c1 (bs.map .read) with
    | error m => rw [hr2] at hr; simp [Except.bind] at hr
    | ok r2 =>
      rw [hr2, ok_bind] at hr
      injection hr with hr; injection hr with hr1 _
      obtain ⟨i1, i2⟩ := ih c1 r2.1 r2.2 hf hr2
      rw [← hr1, i1, i2]; exact ⟨hmj, hmn⟩

/-- **`detect`, then the serving stack.**  From any state in which the header peek may start (in particular a
fresh connection), for every script: `k` calls of `ReadFirstHeader` (going on after errors) all return, hand
nothing out and lose nothing; and if one of them returned nil then
  * at least five bytes were pending and `(major, minor)` are bytes 1 and 2 of them,
  * every sequence of `Read(b)` calls that follows returns, and what those calls hand out followed by what is
    still pending is exactly what was pending before the first `ReadFirstHeader`;
  * the version bytes stay as they are. -/
theorem detect_then_serve (c : PDC) (h : PeekInv c) (k : Nat) (bufs : List BV) :
    ∃ c1 os1, run c (List.replicate k .rfh) = .ok (c1, os1) ∧ os1.length = k ∧
      deliveredBytes os1 = [] ∧ pendingBytes c1 = pendingBytes c ∧
      ((∃ o ∈ os1, o.err = none) →
        5 ≤ (pendingBytes c).length ∧
        (pendingBytes c)[1]? = some c1.major ∧ (pendingBytes c)[2]? = some c1.minor ∧
        ∃ c2 os2, run c1 (bufs.map .read) = .ok (c2, os2) ∧ os2.length = bufs.length ∧
          deliveredBytes os2 ++ pendingBytes c2 = pendingBytes c ∧
          c2.major = c1.major ∧ c2.minor = c1.minor) := by
  obtain ⟨c1, os1, hr, hl, _, hp, hd, _, hok, _⟩ := rfhs_run k c h
  refine ⟨c1, os1, hr, hl, hd, hp, ?_⟩
  intro hsome
  obtain ⟨hrd, hmj, hmn⟩ := hok hsome
  have hpend : pendingBytes c = c1.recordHeader ++ scriptData c1.Conn.script := by
    rw [← hp]; unfold pendingBytes; rw [held_full hrd.full]
  obtain ⟨c2, os2, hr2, hl2, hp2⟩ := no_byte_lost (bufs.map .read) c1 (reads_disciplined bufs c1 hrd.full)
  obtain ⟨v1, v2⟩ := reads_version bufs c1 c2 os2 hrd.full hr2
  refine ⟨?_, ?_, ?_, c2, os2, hr2, by simpa using hl2, by rw [hp2, hp], v1, v2⟩
  · rw [hpend, List.length_append, hrd.1]; omega
  · rw [hpend, List.getElem?_append_left (by rw [hrd.1]; decide)]; exact hmj
  · rw [hpend, List.getElem?_append_left (by rw [hrd.1]; decide)]; exact hmn

/-! ## Part 3: the tie to the hand model `Gotlcp.Model.PA`

Abstraction (a function from the model's objects to the translation's): bytes `UInt8 ↦ BitVec 8`; a transport
event `data c ↦ {data := c, err := nil}`, `timeout ↦ {data := [], err := <some error>}`; end of script = `io.EOF`
in both; the model's three I/O errors are three distinct Go errors; `PD ↦ ProtocolDetectConn` field by field. -/

open Gotlcp.Model.PA

def bv (l : Bytes) : BV := l.map UInt8.toBitVec

@[simp] theorem bv_length (l : Bytes) : (bv l).length = l.length := List.length_map _
@[simp] theorem bv_nil : bv [] = [] := rfl
theorem bv_take (l : Bytes) (k : Nat) : bv (l.take k) = (bv l).take k := List.map_take
theorem bv_drop (l : Bytes) (k : Nat) : bv (l.drop k) = (bv l).drop k := List.map_drop
theorem bv_append (a b : Bytes) : bv (a ++ b) = bv a ++ bv b := List.map_append
theorem bv_replicate (k : Nat) : bv (List.replicate k 0) = List.replicate k 0#8 := by
  simp [bv, List.map_replicate]
theorem bv_getElem? (l : Bytes) (i : Nat) : (bv l)[i]? = l[i]?.map UInt8.toBitVec := List.getElem?_map
theorem bv_eq_nil (l : Bytes) : bv l = [] ↔ l = [] := List.map_eq_nil_iff

def cErr : IOErr → Go.Error
  | .eof => .eof
  | .unexpectedEOF => .unexpectedEOF
  | .timeout => .other

def cEv : Ev → readStep
  | .data c => { data := bv c, err := none }
  | .timeout => { data := [], err := some .other }

def cScript (evs : List Ev) : List readStep := evs.map cEv

def cPD (s : PD) : PDC :=
  { Conn := { script := cScript s.evs }, major := s.major.toBitVec, minor := s.minor.toBitVec,
    recordHeader := bv s.hdr, headerRead := (s.filled : Int) }

/-- one transport `Read`: the translated stub computes the model's `tRead` -/
theorem tie_stepRead (evs : List Ev) (n : Nat) :
    stepRead (cScript evs) n = (bv (tRead evs n).1, (tRead evs n).2.1.map cErr, cScript (tRead evs n).2.2) := by
  cases n with
  | zero => cases evs <;> simp [stepRead, tRead, cScript]
  | succ n =>
    cases evs with
    | nil => simp [stepRead, tRead, cScript, cErr]
    | cons e r =>
      cases e with
      | timeout => simp [stepRead, tRead, cScript, cEv, cErr]
      | data c =>
        simp only [cScript, List.map_cons, cEv, stepRead, tRead, bv_length]
        by_cases hc : c.length ≤ n + 1
        · simp [hc]
        · simp [hc, bv_take, bv_drop, cEv]

/-- the read loop of `io.ReadFull`: the translated loop computes the model's `readFull` -/
theorem tie_fullRead (evs : List Ev) : ∀ n,
    fullRead (cScript evs) n = (bv (readFull evs n).1, (readFull evs n).2.1.map cErr, cScript (readFull evs n).2.2) := by
  induction evs with
  | nil => intro n; cases n <;> simp [fullRead, readFull, cScript, cErr]
  | cons e r ih =>
    intro n
    cases n with
    | zero => simp [fullRead_zero, readFull]
    | succ n =>
      cases e with
      | timeout => simp [fullRead, readFull, cScript, cEv, cErr]
      | data c =>
        simp only [cScript, List.map_cons, cEv, fullRead, readFull, bv_length]
        by_cases hc : c.length ≤ n + 1
        · have := ih (n + 1 - c.length)
          simp only [cScript] at this
          simp only [hc, if_true, this, bv_append]
        · simp [hc, bv_take, bv_drop, cEv]

theorem tie_fullErr (got need : Nat) (e : Option IOErr) :
    fullErr got need (e.map cErr) = (readFullErr got need e).map cErr := by
  unfold fullErr readFullErr
  by_cases h1 : need ≤ got
  · simp [h1]
  · simp only [h1, if_false]
    have : (e.map cErr = some Go.Error.eof) ↔ e = some .eof := by
      cases e with
      | none => simp
      | some x => cases x <;> simp [cErr]
    by_cases h2 : 0 < got ∧ e = some .eof
    · have h2' : 0 < got ∧ e.map cErr = some Go.Error.eof := ⟨h2.1, this.mpr h2.2⟩
      simp [h2, h2', cErr]
    · have h2' : ¬ (0 < got ∧ e.map cErr = some Go.Error.eof) := fun h => h2 ⟨h.1, this.mp h.2⟩
      simp only [h2, h2', if_false]

/-- **`goTransport.Read` = `Model.PA.tRead`** (every script of the model, every buffer) -/
theorem tie_Read (evs : List Ev) (b : BV) :
    goTransport.Read { script := cScript evs } b =
      .ok ({ script := cScript (tRead evs b.length).2.2 },
        bv (tRead evs b.length).1 ++ b.drop (tRead evs b.length).1.length,
        ((tRead evs b.length).1.length : Int), (tRead evs b.length).2.1.map cErr) := by
  rw [src_Read]; simp only [tie_stepRead, bv_length]

/-- **`goTransport.readFull` = `Model.PA.readFull` + `readFullErr`** (every script of the model, every buffer) -/
theorem tie_readFull (evs : List Ev) (buf : BV) :
    goTransport.readFull { script := cScript evs } buf =
      .ok ({ script := cScript (readFull evs buf.length).2.2 },
        bv (readFull evs buf.length).1 ++ buf.drop (readFull evs buf.length).1.length,
        ((readFull evs buf.length).1.length : Int),
        (readFullErr (readFull evs buf.length).1.length buf.length (readFull evs buf.length).2.1).map cErr) := by
  rw [src_readFull]; simp only [tie_fullRead, bv_length, tie_fullErr]

/-- **`ProtocolDetectConn.Read` = `Model.PA.pdRead`**, every state of the model, every buffer -/
theorem tie_pdRead (s : PD) (b : BV) :
    ProtocolDetectConn.Read (cPD s) b =
      .ok (cPD (pdRead s b.length).2.2,
        bv (pdRead s b.length).1 ++ b.drop (pdRead s b.length).1.length,
        ((pdRead s b.length).1.length : Int), (pdRead s b.length).2.1.map cErr) := by
  rw [src_PRead]
  have hrl : (cPD s).recordHeader.length = s.hdr.length := bv_length _
  have hrh : (cPD s).recordHeader = bv s.hdr := rfl
  have hsc : (cPD s).Conn.script = cScript s.evs := rfl
  unfold pdRead
  by_cases h0 : s.hdr.length = 0
  · rw [readRes_nil _ _ (by rw [hrl]; exact h0), if_pos h0, hsc, tie_stepRead]
    simp only [bv_length]
    rfl
  · rw [if_neg h0]
    by_cases h2 : s.hdr.length < b.length
    · rw [readRes_long _ _ (by rw [hrl]; exact h0) (by rw [hrl]; exact h2), if_pos (Nat.le_of_lt h2), if_pos h2,
        hsc, hrl, hrh, tie_stepRead]
      simp only [bv_length, bv_append, List.length_append]
      rfl
    · by_cases he : s.hdr.length = b.length
      · rw [readRes_exact _ _ (by rw [hrl]; exact h0) (by rw [hrl]; exact he), if_pos (Nat.le_of_eq he), if_neg h2,
          hrl, hrh]
        simp only [Option.map_none]
        rfl
      · have h1 : b.length < s.hdr.length := by omega
        rw [readRes_short _ _ (by rw [hrl]; exact h1), if_neg (by omega), hrh]
        simp only [Option.map_none, List.length_take, bv_take, bv_drop]
        have hm : min b.length s.hdr.length = b.length := by omega
        rw [hm, List.drop_length, List.append_nil]
        simp only [cPD, bv_drop]

/-- the parameters of `Model.PA` that `ReadFirstHeader` determines, as this tree has them -/
def TreeP (P : Params) : Prop :=
  P.headerLen = 5 ∧ P.majorIndex = 1 ∧ P.minorIndex = 2 ∧ P.resumable = true

/-- model states in which `ReadFirstHeader` does not panic -/
def MPre (s : PD) : Prop := s.hdr = [] ∨ s.hdr.length < s.filled ∨ 3 ≤ s.hdr.length

def rfhErr : RFH → Option Go.Error
  | .ok => none
  | .err e => some (cErr e)
  | .panic => none

theorem tie_rfhStart (P : Params) (hP : TreeP P) (s : PD) :
    rfhStart (cPD s) = (bv (hdrStart P s).1, (hdrStart P s).2) := by
  obtain ⟨h5, _, _, hres⟩ := hP
  unfold rfhStart hdrStart
  have hc : ((cPD s).recordHeader.isEmpty || decide ((cPD s).headerRead > ((cPD s).recordHeader.length : Int)))
      = (!P.resumable || s.hdr.isEmpty || decide (s.hdr.length < s.filled)) := by
    rw [hres]
    show ((bv s.hdr).isEmpty || decide ((s.filled : Int) > ((bv s.hdr).length : Int))) = _
    rw [bv_length]
    have h1 : (bv s.hdr).isEmpty = s.hdr.isEmpty := by cases s.hdr <;> rfl
    have h2 : decide ((s.filled : Int) > (s.hdr.length : Int)) = decide (s.hdr.length < s.filled) := by
      apply decide_eq_decide.mpr; omega
    rw [h1, h2]; rfl
  rw [hc]
  by_cases hf : (!P.resumable || s.hdr.isEmpty || decide (s.hdr.length < s.filled)) = true
  · rw [if_pos hf, if_pos hf, h5, bv_replicate]
  · rw [if_neg hf, if_neg hf]; rfl

/-- **`ProtocolDetectConn.ReadFirstHeader` = `Model.PA.readFirstHeader`** with this tree's parameters: same
connection afterwards (buffer, fill mark, version bytes, script left), same error; neither panics -/
theorem tie_readFirstHeader (P : Params) (hP : TreeP P) (s : PD) (h : MPre s) :
    ProtocolDetectConn.ReadFirstHeader (cPD s) =
        .ok (cPD (readFirstHeader P s).2, rfhErr (readFirstHeader P s).1) ∧
      (readFirstHeader P s).1 ≠ .panic := by
  have hpre : RfhPre (cPD s) := by
    rcases h with h | h | h
    · exact Or.inl (by show bv s.hdr = []; rw [h]; rfl)
    · exact Or.inr (Or.inl (by show (s.filled : Int) > ((bv s.hdr).length : Int); rw [bv_length]; omega))
    · exact Or.inr (Or.inr ⟨by show 3 ≤ (bv s.hdr).length; rw [bv_length]; exact h,
        by show (0 : Int) ≤ (s.filled : Int); omega⟩)
  rw [src_RFH _ hpre, tie_rfhStart P hP s]
  -- the buffer `io.ReadFull` starts from has room for the version bytes
  have hst : 3 ≤ (hdrStart P s).1.length ∧ (hdrStart P s).2 ≤ (hdrStart P s).1.length := by
    unfold hdrStart
    by_cases hf : (!P.resumable || s.hdr.isEmpty || decide (s.hdr.length < s.filled)) = true
    · rw [if_pos hf]; simp [hP.1]
    · rw [if_neg hf]
      simp only [Bool.or_eq_true, Bool.not_eq_true', List.isEmpty_iff, decide_eq_true_eq, not_or, Nat.not_lt] at hf
      rcases h with h | h | h
      · exact absurd h hf.1.2
      · omega
      · exact ⟨h, hf.2⟩
  obtain ⟨mjI, mnI⟩ : P.majorIndex = 1 ∧ P.minorIndex = 2 := ⟨hP.2.1, hP.2.2.1⟩
  unfold readFirstHeader
  simp only [mjI, mnI]
  generalize hdrStart P s = st at hst
  obtain ⟨buf, m⟩ := st
  simp only at hst ⊢
  have hsc : (cPD s).Conn.script = cScript s.evs := rfl
  simp only [rfhRes, hsc, bv_length, tie_fullRead, tie_fullErr]
  have hl := Lemmas.PA.readFull_length s.evs (buf.length - m)
  generalize readFull s.evs (buf.length - m) = F at hl
  obtain ⟨out, e, evs'⟩ := F
  simp only at hl ⊢
  have hsp : (bv buf).take m ++ bv out ++ (bv buf).drop (m + out.length) = bv (splice buf m out) := by
    simp only [splice, bv_append, bv_take, bv_drop]
  have hsl : (splice buf m out).length = buf.length := Lemmas.PA.splice_length buf m out (by omega)
  have h1 : 1 < (splice buf m out).length := by omega
  have h2 : 2 < (splice buf m out).length := by omega
  rw [hsp, bv_getElem?, bv_getElem?, List.getElem?_eq_getElem h1, List.getElem?_eq_getElem h2]
  simp only [Option.map_some, Option.getD_some]
  cases herr : readFullErr out.length (buf.length - m) e with
  | none => exact ⟨by simp [cPD, rfhErr], by simp⟩
  | some x => exact ⟨by simp [cPD, rfhErr], by simp⟩

/-! ### the invariant on the model's side, and call sequences -/

/-- reachable shapes of the model's connection: no buffer; the five-byte buffer with its fill mark; what is left
of a complete header while it is replayed (`filled` keeps its final value) -/
def J (s : PD) : Prop := s.hdr = [] ∨ (s.hdr.length = 5 ∧ s.filled ≤ 5) ∨ s.hdr.length < s.filled

/-- the model's `Read` may be called: nothing of the buffer is unfilled -/
def MFull (s : PD) : Prop := s.hdr = [] ∨ s.hdr.length ≤ s.filled

theorem J_init (evs : List Ev) : J { evs := evs } := Or.inl rfl

theorem J.pre {s : PD} (h : J s) : MPre s := by
  rcases h with h | h | h
  · exact Or.inl h
  · exact Or.inr (Or.inr (by omega))
  · exact Or.inr (Or.inl h)

theorem J.hok {s : PD} (P : Params) (hP : TreeP P) (h : J s) : Lemmas.PA.HOK P s := by
  unfold Lemmas.PA.HOK Lemmas.PA.isFresh
  rcases h with h | h | h
  · left; simp [h]
  · right; rw [hP.1]; exact h
  · left; simp [h]

theorem TreeP.valid {P : Params} (hP : TreeP P) : Lemmas.PA.Valid P :=
  ⟨by rw [hP.1]; decide, by rw [hP.1, hP.2.1]; decide, by rw [hP.1, hP.2.2.1]; decide⟩

/-- `readFirstHeader` keeps the invariant -/
theorem J_readFirstHeader (P : Params) (hP : TreeP P) (s : PD) (h : J s) : J (readFirstHeader P s).2 := by
  obtain ⟨h1, h2, _⟩ := Lemmas.PA.rfh_spec P s hP.valid (h.hok P hP)
  rw [hP.1] at h1 h2
  exact Or.inr (Or.inl ⟨h1, h2⟩)

/-- `pdRead` keeps the invariant (and stays callable) when called on a complete or absent header -/
theorem J_pdRead (s : PD) (n : Nat) (hj : J s) (hf : MFull s) : J (pdRead s n).2.2 ∧ MFull (pdRead s n).2.2 := by
  unfold pdRead
  by_cases h0 : s.hdr.length = 0
  · have hnil : s.hdr = [] := List.eq_nil_of_length_eq_zero h0
    simp only [h0, if_true]
    exact ⟨Or.inl hnil, Or.inl hnil⟩
  · simp only [h0, if_false]
    by_cases h1 : s.hdr.length ≤ n
    · simp only [h1, if_true]
      by_cases h2 : s.hdr.length < n
      · simp only [h2, if_true]; exact ⟨Or.inl rfl, Or.inl rfl⟩
      · simp only [h2, if_false]; exact ⟨Or.inl rfl, Or.inl rfl⟩
    · simp only [h1, if_false]
      have hle : s.hdr.length ≤ s.filled := by
        rcases hf with hf | hf
        · rw [hf] at h0; simp at h0
        · exact hf
      refine ⟨?_, Or.inr (by simp only [List.length_drop]; omega)⟩
      cases n with
      | zero =>
        rcases hj with hj | hj | hj
        · exact Or.inl (by simp [hj])
        · exact Or.inr (Or.inl (by simpa using hj))
        · exact Or.inr (Or.inr (by simpa using hj))
      | succ n => exact Or.inr (Or.inr (by simp only [List.length_drop]; omega))

/-- `k` calls of the model's `readFirstHeader`, going on after errors -/
def rfhs (P : Params) : Nat → PD → List RFH × PD
  | 0, s => ([], s)
  | k + 1, s => ((readFirstHeader P s).1 :: (rfhs P k (readFirstHeader P s).2).1, (rfhs P k (readFirstHeader P s).2).2)

/-- **sequences of `ReadFirstHeader`**: the translated code computes the model's states and errors -/
theorem tie_rfhs (P : Params) (hP : TreeP P) : ∀ (k : Nat) (s : PD), J s →
    run (cPD s) (List.replicate k .rfh) =
        .ok (cPD (rfhs P k s).2, (rfhs P k s).1.map fun r => { bytes := [], err := rfhErr r }) ∧
      J (rfhs P k s).2 ∧ ∀ r ∈ (rfhs P k s).1, r ≠ .panic := by
  intro k
  induction k with
  | zero => intro s h; exact ⟨rfl, h, by simp [rfhs]⟩
  | succ k ih =>
    intro s h
    obtain ⟨h1, h2⟩ := tie_readFirstHeader P hP s h.pre
    obtain ⟨i1, i2, i3⟩ := ih (readFirstHeader P s).2 (J_readFirstHeader P hP s h)
    refine ⟨?_, i2, ?_⟩
    · simp only [List.replicate_succ, run, step, h1, ok_bind, i1, rfhs, List.map_cons]
    · intro r hr
      simp only [rfhs, List.mem_cons] at hr
      rcases hr with rfl | hr
      · exact h2
      · exact i3 r hr

/-- **sequences of `Read`**: the translated code computes the model's `reads` (any state, any buffers) -/
theorem tie_reads : ∀ (bufs : List BV) (s : PD),
    run (cPD s) (bufs.map .read) =
      .ok (cPD (reads s (bufs.map List.length)).2,
        (reads s (bufs.map List.length)).1.map fun o => { bytes := bv o.1, err := o.2.map cErr }) := by
  intro bufs
  induction bufs with
  | nil => intro s; rfl
  | cons b bs ih =>
    intro s
    have hstep : step (cPD s) (.read b) = .ok (cPD (pdRead s b.length).2.2,
        { bytes := bv (pdRead s b.length).1, err := (pdRead s b.length).2.1.map cErr }) := by
      simp only [step, tie_pdRead, ok_bind, Int.toNat_natCast]
      rw [List.take_left' (bv_length _)]
    simp only [List.map_cons, run, hstep, ok_bind, ih, reads]

theorem deliveredBytes_map (outs : List (Bytes × Option IOErr)) :
    deliveredBytes (outs.map fun o => { bytes := bv o.1, err := o.2.map cErr }) = bv (delivered outs) := by
  induction outs with
  | nil => rfl
  | cons o os ih =>
    simp only [deliveredBytes, List.map_cons, List.flatten_cons] at ih ⊢
    rw [ih]
    simp only [delivered, List.map_cons, List.flatten_cons, bv_append]

/-- the abstraction maps the model's pending bytes to the translation's, on reachable states -/
theorem pendingBytes_cPD (s : PD) : scriptData (cScript s.evs) = bv (pending s.evs) := by
  induction s.evs with
  | nil => rfl
  | cons e r ih =>
    cases e with
    | data c => simp only [cScript, List.map_cons, cEv, scriptData, pending, bv_append] at ih ⊢; rw [ih]
    | timeout => simp only [cScript, List.map_cons, cEv, scriptData, pending, List.nil_append] at ih ⊢; exact ih

end Gotlcp.Tie.PA

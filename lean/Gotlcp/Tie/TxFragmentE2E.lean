/-
Tie by translation, end to end: the fragment records the TRANSLATED sender (`Src.dtlcp.tx.Conn.writeHandshakeRecord`,
`Gotlcp.Tie.TxFragment`) emits, parsed the way `readHandshake` parses the 12-byte header, fed to the TRANSLATED
receiver (`Src.dtlcp.newFragmentBuffer / fragmentBuffer.addFragment / complete / assembled`, `Gotlcp.Tie.Fragment`)
in any order and with any duplication: every fragment is accepted, the buffer is complete and holds exactly the
body (`sender_receiver`).  The receiver side is `Props.C17.C17_src_rebuilt_when_covered` /
`C17_src_accept_iff_admissible`; the sender side `fragsFrom_mem`, `fragsFrom_cover`.

The header parse (`u24`, `parseFrag`, `parseTotal`) is written here from `readHandshake`'s expressions
`int(data[i])<<16 | int(data[i+1])<<8 | int(data[i+2])`; `readHandshake` itself is not translated (it does I/O);
its parse is tied by the correspondence runs of C17.

The length fields have 24 bits: `u24_be3` needs `< 2^24`, and `parseTotal_fragRec_mod` shows what happens beyond
(the receiver reads the length modulo `2^24`).

Core Lean only.
-/
import Gotlcp.Tie.TxFragment
import Gotlcp.Props.C17

set_option linter.unusedSimpArgs false
set_option linter.unusedVariables false

namespace Gotlcp.Tie.TxFragmentE2E
open Gotlcp
open Gotlcp.Tie.TxFragment
open Gotlcp.Tie.Fragment (SrcFrag absFrag srcSession)
open Gotlcp.Lemmas.Fragment (toSpec)
open Gotlcp.Spec

/-! ## the receiver's reading of a fragment record -/

/-- a 24-bit big-endian number, as `readHandshake` reads it: `int(a)<<16 | int(b)<<8 | int(c)` -/
def u24 (a b c : BitVec 8) : Nat := a.toNat * 65536 + b.toNat * 256 + c.toNat

/-- the announced message length of a fragment record (bytes 1..3) -/
def parseTotal (r : List (BitVec 8)) : BitVec 32 := BitVec.ofNat 32 (u24 (r.getD 1 0#8) (r.getD 2 0#8) (r.getD 3 0#8))

/-- `(fragment_offset, fragment_length, fragment body)` of a fragment record (bytes 6..8, 9..11, 12..), the
arguments `readHandshake` hands to `addFragment` -/
def parseFrag (r : List (BitVec 8)) : SrcFrag :=
  { off := BitVec.ofNat 32 (u24 (r.getD 6 0#8) (r.getD 7 0#8) (r.getD 8 0#8)),
    len := BitVec.ofNat 32 (u24 (r.getD 9 0#8) (r.getD 10 0#8) (r.getD 11 0#8)),
    body := r.drop 12 }

/-- the three bytes the sender writes for a number below `2^24` read back as that number -/
theorem u24_be3 (n : Nat) (h : n < 2 ^ 24) :
    u24 (BitVec.setWidth 8 (BitVec.ofNat 32 n >>> 16)) (BitVec.setWidth 8 (BitVec.ofNat 32 n >>> 8))
      (BitVec.setWidth 8 (BitVec.ofNat 32 n)) = n := by
  unfold u24
  simp only [BitVec.toNat_setWidth, BitVec.toNat_ushiftRight, BitVec.toNat_ofNat, Nat.shiftRight_eq_div_pow]
  omega

/-- beyond `2^24` the three bytes lose the high part: the receiver reads `n mod 2^24` -/
theorem u24_be3_mod (n : Nat) (h : n < 2 ^ 32) :
    u24 (BitVec.setWidth 8 (BitVec.ofNat 32 n >>> 16)) (BitVec.setWidth 8 (BitVec.ofNat 32 n >>> 8))
      (BitVec.setWidth 8 (BitVec.ofNat 32 n)) = n % 2 ^ 24 := by
  unfold u24
  simp only [BitVec.toNat_setWidth, BitVec.toNat_ushiftRight, BitVec.toNat_ofNat, Nat.shiftRight_eq_div_pow]
  omega

theorem parseFrag_fragRec (t : BitVec 8) (seq : BitVec 16) (body : List (BitVec 8)) (o len : Nat)
    (ho : o < 2 ^ 24) (hl : len < 2 ^ 24) :
    parseFrag (fragRec t seq body o len) =
      { off := BitVec.ofNat 32 o, len := BitVec.ofNat 32 len, body := (body.drop o).take len } := by
  unfold parseFrag
  rw [fragRec_drop]
  simp only [fragRec, hdr, be3, List.cons_append, List.nil_append, List.getD_cons_succ, List.getD_cons_zero,
    u24_be3 o ho, u24_be3 len hl]

theorem parseTotal_fragRec (t : BitVec 8) (seq : BitVec 16) (body : List (BitVec 8)) (o len : Nat) (hL : body.length < 2 ^ 24) :
    parseTotal (fragRec t seq body o len) = BitVec.ofNat 32 body.length := by
  unfold parseTotal
  simp only [fragRec, hdr, be3, List.cons_append, List.nil_append, List.getD_cons_succ, List.getD_cons_zero,
    u24_be3 _ hL]

theorem toNat_ofNat32 (n : Nat) (h : n < 2 ^ 32) : (BitVec.ofNat 32 n).toNat = n := by
  rw [BitVec.toNat_ofNat]; exact Nat.mod_eq_of_lt h

/-- for every body below `2^32` bytes the announced length the receiver reads is the length modulo `2^24`: a
body of exactly `2^24` bytes announces an EMPTY message -/
theorem parseTotal_fragRec_mod (t : BitVec 8) (seq : BitVec 16) (body : List (BitVec 8)) (o len : Nat)
    (hL : body.length < 2 ^ 32) :
    parseTotal (fragRec t seq body o len) = BitVec.ofNat 32 (body.length % 2 ^ 24) := by
  unfold parseTotal
  simp only [fragRec, hdr, be3, List.cons_append, List.nil_append, List.getD_cons_succ, List.getD_cons_zero,
    u24_be3_mod _ hL]

/-! ## sender ∘ receiver, both translated -/

/-- **End to end.** The fragment records the translated sender emits for a body of `1 … 2^24 − 1` bytes, at any
fragment body size `m ≥ 1`, delivered in ANY order and with ANY duplication (`l` is any list that contains
exactly those records, each at least once), parsed as `readHandshake` parses them and fed to the translated
`newFragmentBuffer / addFragment / complete / assembled`: every fragment announces the body length, every one
is accepted, the buffer is complete and holds exactly `body`. -/
theorem sender_receiver (t : BitVec 8) (seq : BitVec 16) (body : List (BitVec 8)) (hb : 0 < body.length)
    (h24 : body.length < 2 ^ 24) (m : Nat) (hm : 1 ≤ m) (l : List (List (BitVec 8)))
    (hsub : ∀ r ∈ l, r ∈ fragments t seq body m) (hall : ∀ r ∈ fragments t seq body m, r ∈ l) :
    (∀ r ∈ l, parseTotal r = BitVec.ofNat 32 body.length) ∧
    srcSession (BitVec.ofNat 32 body.length) (l.map parseFrag) = .ok (l.map (fun _ => true), true, body) := by
  have hfr := fragsFrom_eq_fragments t seq body m hm (body.length + 1) (by omega)
  have hshape : ∀ r ∈ l, ∃ o, r = fragRec t seq body o (min m (body.length - o)) ∧ o < body.length := by
    intro r hr
    have := hsub r hr
    rw [← hfr] at this
    obtain ⟨o, e, _, ho⟩ := fragsFrom_mem t seq body m hm _ _ r this
    exact ⟨o, e, ho⟩
  have hparse : ∀ r ∈ l, ∃ o, o < body.length ∧ parseFrag r =
      { off := BitVec.ofNat 32 o, len := BitVec.ofNat 32 (min m (body.length - o)),
        body := (body.drop o).take (min m (body.length - o)) } := by
    intro r hr
    obtain ⟨o, e, ho⟩ := hshape r hr
    exact ⟨o, ho, by rw [e, parseFrag_fragRec _ _ _ _ _ (by omega) (by omega)]⟩
  refine ⟨?_, ?_⟩
  · intro r hr
    obtain ⟨o, e, _⟩ := hshape r hr
    rw [e, parseTotal_fragRec _ _ _ _ _ h24]
  · have hc : ∀ f ∈ l.map parseFrag, f.off.toNat + f.len.toNat ≤ body.length → Props.C17.SrcConsistent body f := by
      intro f hf _
      obtain ⟨r, hr, rfl⟩ := List.mem_map.mp hf
      obtain ⟨o, ho, e⟩ := hparse r hr
      rw [e]
      unfold Props.C17.SrcConsistent
      simp only [toNat_ofNat32 o (by omega), toNat_ofNat32 (min m (body.length - o)) (by omega)]
      refine ⟨by rw [List.length_take, List.length_drop]; omega, ?_⟩
      intro j hj
      rw [List.getElem?_take, if_pos hj, List.getElem?_drop]
    have hadm : ∀ f ∈ (l.map parseFrag).map absFrag, (toSpec f).admissible body.length = true := by
      intro f hf
      obtain ⟨g, hg, rfl⟩ := List.mem_map.mp hf
      obtain ⟨r, hr, rfl⟩ := List.mem_map.mp hg
      obtain ⟨o, ho, e⟩ := hparse r hr
      rw [e]
      simp only [toSpec, absFrag, FragmentSpec.Frag.admissible, toNat_ofNat32 o (by omega),
        toNat_ofNat32 (min m (body.length - o)) (by omega), decide_eq_true_eq]
      omega
    have hcov : FragmentSpec.isComplete body.length (((l.map parseFrag).map absFrag).map toSpec) = true := by
      rw [Lemmas.Fragment.isComplete_iff]
      intro i hi
      obtain ⟨o, hmem, h1, h2⟩ := fragsFrom_cover t seq body m hm (body.length + 1) 0 (by omega) i (by omega) hi
      rw [hfr] at hmem
      have hin := hall _ hmem
      simp only [FragmentSpec.covered, List.any_eq_true]
      refine ⟨toSpec (absFrag (parseFrag (fragRec t seq body o (min m (body.length - o))))), ?_, ?_⟩
      · exact List.mem_map.mpr ⟨_, List.mem_map.mpr ⟨_, List.mem_map.mpr ⟨_, hin, rfl⟩, rfl⟩, rfl⟩
      · rw [parseFrag_fragRec _ _ _ _ _ (by omega) (by omega)]
        simp only [toSpec, absFrag, FragmentSpec.Frag.admissible, FragmentSpec.Frag.covers,
          toNat_ofNat32 o (by omega), toNat_ofNat32 (min m (body.length - o)) (by omega),
          Bool.and_eq_true, decide_eq_true_eq]
        omega
    obtain ⟨oks, e⟩ := Props.C17.C17_src_rebuilt_when_covered body hb (by omega) (l.map parseFrag) hc hcov
    obtain ⟨c', d', e'⟩ := Props.C17.C17_src_accept_iff_admissible (BitVec.ofNat 32 body.length) (l.map parseFrag)
    rw [e] at e'
    injection e' with e'
    have hoks : oks = ((l.map parseFrag).map absFrag).map
        (fun f => (toSpec f).admissible (Props.C17.numBytes (BitVec.ofNat 32 body.length).toNat)) :=
      congrArg Prod.fst e'
    have hnb : Props.C17.numBytes (BitVec.ofNat 32 body.length).toNat = body.length := by
      rw [toNat_ofNat32 _ (by omega)]; unfold Props.C17.numBytes; rw [if_neg (by omega)]
    rw [e, hoks, hnb]
    congr 2
    rw [List.map_map, List.map_map]
    apply List.map_congr_left
    intro r hr
    exact hadm _ (List.mem_map.mpr ⟨_, List.mem_map.mpr ⟨_, hr, rfl⟩, rfl⟩)

/-- the same for every permutation of the fragment list (any delivery order) -/
theorem sender_receiver_perm (t : BitVec 8) (seq : BitVec 16) (body : List (BitVec 8)) (hb : 0 < body.length)
    (h24 : body.length < 2 ^ 24) (m : Nat) (hm : 1 ≤ m) (l : List (List (BitVec 8))) (hp : l.Perm (fragments t seq body m)) :
    srcSession (BitVec.ofNat 32 body.length) (l.map parseFrag) = .ok (l.map (fun _ => true), true, body) :=
  (sender_receiver t seq body hb h24 m hm l (fun r hr => hp.mem_iff.mp hr) (fun r hr => hp.mem_iff.mpr hr)).2

end Gotlcp.Tie.TxFragmentE2E

/-
Tie by translation, `serverHelloMsg.unmarshal`, second half: the closed form `decBody` that
Tie/CodecSH.lean / Tie/CodecSHDtlcp.lean prove the TRANSLATED decoders equal to computes, for EVERY
byte string, what the hand model `Gotlcp.Model.Codec.decServerHelloBody` computes — the same verdict
and, on acceptance, the same nine fields (`view`: `BitVec 8` bytes as `UInt8`, 16-bit values as byte
pairs).  Hence (`tie_codec_serverHello` for each stack) the translated function returns `(m', true)` with
the model's fields exactly when `unmarshalServerHello codesT` / `CodecDtlcp.decServerHello codesD`
accepts, `(m', false)` exactly when it refuses.

The cbString reads correspond one to one to the model's parsers (`readU16_abs`, `readVec_abs`, …);
the extension loop is compared round by round (`step_rel`: per-extension lemmas `ocsp_rel`, `alpn_rel`,
`sni_rel`), the loops by induction on the fuel (`loop_rel`; the translator's `len(data)+1` and the
model's `len(extensions)` both exceed the number of rounds).

Core Lean only.
-/
import Gotlcp.Tie.CodecSHDtlcp
import Gotlcp.Tie.UnmarshalTlcpCodec
import Gotlcp.Lemmas.CodecHello

set_option linter.unusedSimpArgs false
set_option linter.unusedVariables false

namespace Gotlcp.Tie.CodecSHModel
open Gotlcp Gotlcp.Wire Gotlcp.Wire.Msg Gotlcp.Model.Codec
open Gotlcp.Tie.CbString Gotlcp.Tie.CodecSH
open Gotlcp.Tie.UnmarshalTlcpCodec (abs abs_nil abs_cons abs_length abs_drop abs_take abs_append)
open Gotlcp.Tie.UnmarshalDtlcp (u16)
open Gotlcp.Tie.UnmarshalDtlcpCodec (n16 n24 u16_toNat w16_u16 nat_or2)
open Gotlcp.Lemmas.CodecHello (HelloCodes)

/-! ## values -/

/-- a 16-bit value of the translation as the model's byte pair -/
def w16 (v : BitVec 16) : W16 := W16.ofNat v.toNat

/-- the nine fields as the model's `ServerHello` -/
def view (e : SH) : ServerHello :=
  ⟨w16 e.vers, abs e.random, abs e.sessionId, w16 e.cipherSuite, UInt8.ofBitVec e.compressionMethod,
    e.ocspStapling, abs e.ocspResponse, abs e.alpnProtocol, e.serverNameAck⟩

theorem isEmpty_abs (s : BV) : isEmpty (abs s) = s.isEmpty := by cases s <;> rfl

/-! ## the cbString reads are the model's parsers -/

theorem readU8_abs (s : BV) (o : BitVec 8) :
    readU8 (abs s) = if (rd8 s o).2.2 then some (UInt8.ofBitVec (rd8 s o).2.1, abs (rd8 s o).1) else none := by
  cases s <;> rfl

theorem readW16_abs (s : BV) (o : BitVec 16) :
    readW16 (abs s) = if (rd16 s o).2.2 then some (w16 (rd16 s o).2.1, abs (rd16 s o).1) else none := by
  match s with
  | [] => rfl
  | [_] => rfl
  | a :: b :: r =>
    simp only [rd16, abs_cons, readW16, if_true]
    rw [show (BitVec.setWidth 16 a <<< 8 ||| BitVec.setWidth 16 b) = u16 a b from rfl]
    unfold w16
    rw [w16_u16]

theorem readU16_abs (s : BV) (o : BitVec 16) :
    readU16 (abs s) = if (rd16 s o).2.2 then some ((rd16 s o).2.1.toNat, abs (rd16 s o).1) else none := by
  match s with
  | [] => rfl
  | [_] => rfl
  | a :: b :: r =>
    simp only [rd16, abs_cons, readU16, if_true]
    rw [show (BitVec.setWidth 16 a <<< 8 ||| BitVec.setWidth 16 b) = u16 a b from rfl, u16_toNat]
    rfl

theorem readBytes_abs (s o : BV) (n : Nat) :
    readBytes n (abs s) =
      if (rdBytes s o (n : Int)).2.2 then some (abs (rdBytes s o (n : Int)).2.1, abs (rdBytes s o (n : Int)).1) else none := by
  unfold readBytes rdBytes readSpec
  by_cases h : n ≤ s.length
  · have h1 : ¬ ((s.length : Int) < (n : Int) ∨ (n : Int) < 0) := by omega
    simp only [abs_length, h, if_true, h1, if_false, Int.toNat_natCast, abs_take, abs_drop]
  · have h1 : ((s.length : Int) < (n : Int) ∨ (n : Int) < 0) := by omega
    simp only [abs_length, h, if_false, h1, if_true, Bool.false_eq_true]

theorem be32_1 (a : BitVec 8) : (be32 [a]).toNat = a.toNat := by
  have ha := a.isLt
  simp only [be32, List.foldl_cons, List.foldl_nil, BitVec.toNat_or, BitVec.toNat_shiftLeft, BitVec.toNat_setWidth,
    BitVec.toNat_ofNat]
  rw [Nat.mod_eq_of_lt (by omega : a.toNat < 2 ^ 32)]
  simp

theorem be32_2 (a b : BitVec 8) : (be32 [a, b]).toNat = n16 a b := by
  have ha := a.isLt; have hb := b.isLt
  simp only [be32, List.foldl_cons, List.foldl_nil, BitVec.toNat_or, BitVec.toNat_shiftLeft, BitVec.toNat_setWidth,
    BitVec.toNat_ofNat]
  rw [Nat.mod_eq_of_lt (by omega : a.toNat < 2 ^ 32), Nat.mod_eq_of_lt (by omega : b.toNat < 2 ^ 32)]
  simp only [Nat.zero_mod, Nat.zero_shiftLeft, Nat.zero_or]
  have e1 : a.toNat <<< 8 % 2 ^ 32 = a.toNat <<< 8 := by
    apply Nat.mod_eq_of_lt; rw [Nat.shiftLeft_eq]; omega
  rw [e1, nat_or2 _ _ hb]
  rfl

theorem be32_3 (a b c : BitVec 8) : (be32 [a, b, c]).toNat = n24 a b c := by
  have ha := a.isLt; have hb := b.isLt; have hc := c.isLt
  simp only [be32, List.foldl_cons, List.foldl_nil, BitVec.toNat_or, BitVec.toNat_shiftLeft, BitVec.toNat_setWidth,
    BitVec.toNat_ofNat]
  rw [Nat.mod_eq_of_lt (by omega : a.toNat < 2 ^ 32), Nat.mod_eq_of_lt (by omega : b.toNat < 2 ^ 32),
    Nat.mod_eq_of_lt (by omega : c.toNat < 2 ^ 32)]
  simp only [Nat.zero_mod, Nat.zero_shiftLeft, Nat.zero_or]
  have e1 : a.toNat <<< 8 % 2 ^ 32 = a.toNat <<< 8 := by
    apply Nat.mod_eq_of_lt; rw [Nat.shiftLeft_eq]; omega
  rw [e1, nat_or2 _ _ hb]
  have e2 : (a.toNat * 256 + b.toNat) <<< 8 % 2 ^ 32 = (a.toNat * 256 + b.toNat) <<< 8 := by
    apply Nat.mod_eq_of_lt; rw [Nat.shiftLeft_eq]; omega
  rw [e2, nat_or2 _ _ hc]
  unfold n24; omega

/-- the second half of every length-prefixed read -/
theorem readBytes_lp (r : BV) (n : Nat) (o : BV) :
    readBytes n (abs r) =
      if (if r.length < n then (r, o, false) else (r.drop n, r.take n, true)).2.2 then
        some (abs (if r.length < n then (r, o, false) else (r.drop n, r.take n, true)).2.1,
              abs (if r.length < n then (r, o, false) else (r.drop n, r.take n, true)).1)
      else none := by
  unfold readBytes
  by_cases h : r.length < n
  · simp only [abs_length, h, if_true, Bool.false_eq_true, if_false]
    rw [if_neg (by omega)]
  · simp only [abs_length, h, if_false, if_true, abs_take, abs_drop]
    rw [if_pos (by omega)]

theorem readVec8_abs (s o : BV) :
    readVec8 (abs s) = if (lpSpec s o 1).2.2 then some (abs (lpSpec s o 1).2.1, abs (lpSpec s o 1).1) else none := by
  match s with
  | [] => rfl
  | a :: r =>
    unfold lpSpec
    have h1 : ¬ (a :: r).length < 1 := by simp
    simp only [h1, if_false, List.take_succ_cons, List.take_zero, List.drop_succ_cons, List.drop_zero, be32_1]
    simp only [abs_cons, readVec8, readU8, UInt8.toNat_ofBitVec]
    exact readBytes_lp r a.toNat o

theorem readVec16_abs (s o : BV) :
    readVec16 (abs s) = if (lpSpec s o 2).2.2 then some (abs (lpSpec s o 2).2.1, abs (lpSpec s o 2).1) else none := by
  match s with
  | [] => rfl
  | [_] => rfl
  | a :: b :: r =>
    unfold lpSpec
    have h1 : ¬ (a :: b :: r).length < 2 := by simp
    simp only [h1, if_false, List.take_succ_cons, List.take_zero, List.drop_succ_cons, List.drop_zero, be32_2]
    simp only [abs_cons, readVec16, readU16]
    exact readBytes_lp r (n16 a b) o

theorem readVec24_abs (s o : BV) :
    readVec24 (abs s) = if (lpSpec s o 3).2.2 then some (abs (lpSpec s o 3).2.1, abs (lpSpec s o 3).1) else none := by
  match s with
  | [] => rfl
  | [_] => rfl
  | [_, _] => rfl
  | a :: b :: c :: r =>
    unfold lpSpec
    have h1 : ¬ (a :: b :: c :: r).length < 3 := by simp
    simp only [h1, if_false, List.take_succ_cons, List.take_zero, List.drop_succ_cons, List.drop_zero, be32_3]
    simp only [abs_cons, readVec24, readU24]
    exact readBytes_lp r (n24 a b c) o

/-! ## one round of the extension loop -/

variable {M : Type}

/-- what a round of the translated loop has to be for a given answer of the model's step: `return false`
when the model refuses, otherwise go on with the model's state and the model's rest -/
def StepRel (L : Lens M) (out : ForInStep (St M)) (mo : Option (ServerHello × Bytes)) : Prop :=
  match mo with
  | none => ∃ m' st, out = .done (some (m', false), st)
  | some (v, rest) => ∃ m' r, out = .yield (none, m', r) ∧ view (L.get m') = v ∧ abs r = rest

/-- the end of the model's `serverExtStep`: the `extData.Empty()` check unless the case ended in `continue` -/
def post (mc : Option (ServerHello × Bytes × Bool)) (s2 : Bytes) : Option (ServerHello × Bytes) :=
  match mc with
  | none => none
  | some (m', d, cont) => if cont || isEmpty d then some (m', s2) else none

theorem ofBitVec_ne_one {x : BitVec 8} : (UInt8.ofBitVec x ≠ 1) ↔ (x != 1#8) = true := by
  rw [bne_iff_ne]
  constructor
  · intro h e; exact h (by rw [e]; rfl)
  · intro h e; exact h (by simpa using congrArg UInt8.toBitVec e)

/-- `case extensionStatusRequest` -/
theorem ocsp_rel (L : Lens M) (c : Codes) (hc : HelloCodes c) (m : M) (ed rest : BV) :
    StepRel L (ocspG L m ed rest) (post (serverExtCase c (view (L.get m)) 5 (abs ed)) (abs rest)) := by
  unfold serverExtCase ocspG
  rw [hc.status, if_pos rfl, readU8_abs ed 0#8]
  rcases Bool.eq_false_or_eq_true (rd8 ed 0#8).2.2 with h1 | h1
  rotate_left
  · simp only [h1, Bool.not_false, Bool.false_eq_true, if_false, if_true, post]
    exact ⟨_, _, rfl⟩
  simp only [h1, Bool.not_true, Bool.false_eq_true, if_false, if_true]
  by_cases h2 : ((rd8 ed 0#8).2.1 != 1#8) = true
  · have h2' := ofBitVec_ne_one.mpr h2
    simp only [h2, h2', if_true, ne_eq, not_false_eq_true, post]
    exact ⟨_, _, rfl⟩
  have h2' : UInt8.ofBitVec (rd8 ed 0#8).2.1 = 1 := Decidable.not_not.mp (fun h => h2 (ofBitVec_ne_one.mp h))
  simp only [h2, h2', if_false, Bool.false_eq_true, ne_eq, not_true_eq_false]
  rw [readVec24_abs (rd8 ed 0#8).1 (L.get m).ocspResponse]
  rcases Bool.eq_false_or_eq_true (lpSpec (rd8 ed 0#8).1 (L.get m).ocspResponse 3).2.2 with h3 | h3
  rotate_left
  · simp only [h3, Bool.not_false, Bool.false_eq_true, if_false, if_true, post]
    exact ⟨_, _, rfl⟩
  simp only [h3, Bool.not_true, Bool.false_eq_true, if_false, if_true, post, Bool.false_or, isEmpty_abs]
  rcases Bool.eq_false_or_eq_true (lpSpec (rd8 ed 0#8).1 (L.get m).ocspResponse 3).1.isEmpty with h4 | h4
  · simp only [h4, Bool.not_true, Bool.false_eq_true, if_false, if_true]
    exact ⟨_, _, rfl, by rw [L.get_put]; rfl, rfl⟩
  · simp only [h4, Bool.not_false, Bool.false_eq_true, if_false, if_true]
    exact ⟨_, _, rfl⟩

/-- `case extensionALPN` -/
theorem alpn_rel (L : Lens M) (c : Codes) (hc : HelloCodes c) (m : M) (ed rest : BV) :
    StepRel L (alpnG L m ed rest) (post (serverExtCase c (view (L.get m)) 16 (abs ed)) (abs rest)) := by
  unfold serverExtCase alpnG
  rw [hc.status, hc.alpn, if_neg (by decide : ¬ (16 : Nat) = 5), if_pos rfl, readVec16_abs ed []]
  rcases Bool.eq_false_or_eq_true (lpSpec ed [] 2).2.2 with h1 | h1
  rotate_left
  · simp only [h1, Bool.not_false, Bool.true_or, Bool.false_eq_true, if_false, if_true, post]
    exact ⟨_, _, rfl⟩
  simp only [h1, Bool.not_true, Bool.false_or, Bool.false_eq_true, if_false, if_true, isEmpty_abs]
  rcases Bool.eq_false_or_eq_true (lpSpec ed [] 2).2.1.isEmpty with h2 | h2
  · simp only [h2, Bool.false_eq_true, if_false, if_true, post]
    exact ⟨_, _, rfl⟩
  simp only [h2, Bool.false_eq_true, if_false, if_true]
  rw [readVec8_abs (lpSpec ed [] 2).2.1 []]
  rcases Bool.eq_false_or_eq_true (lpSpec (lpSpec ed [] 2).2.1 [] 1).2.2 with h3 | h3
  rotate_left
  · simp only [h3, Bool.not_false, Bool.true_or, Bool.false_eq_true, if_false, if_true, post]
    exact ⟨_, _, rfl⟩
  simp only [h3, Bool.not_true, Bool.false_or, Bool.false_eq_true, if_false, if_true, isEmpty_abs]
  rcases Bool.eq_false_or_eq_true ((lpSpec (lpSpec ed [] 2).2.1 [] 1).2.1.isEmpty ||
      !(lpSpec (lpSpec ed [] 2).2.1 [] 1).1.isEmpty) with h4 | h4
  · simp only [h4, Bool.false_eq_true, if_false, if_true, post]
    exact ⟨_, _, rfl⟩
  simp only [h4, Bool.false_eq_true, if_false, if_true, post, Bool.false_or, isEmpty_abs]
  rcases Bool.eq_false_or_eq_true (lpSpec ed [] 2).1.isEmpty with h5 | h5
  · simp only [h5, Bool.not_true, Bool.false_eq_true, if_false, if_true]
    exact ⟨_, _, rfl, by rw [L.get_put]; rfl, rfl⟩
  · simp only [h5, Bool.not_false, Bool.false_eq_true, if_false, if_true]
    exact ⟨_, _, rfl⟩

/-- `case extensionServerName` -/
theorem sni_rel (L : Lens M) (c : Codes) (hc : HelloCodes c) (m : M) (ed rest : BV) :
    StepRel L (sniG L m ed rest) (post (serverExtCase c (view (L.get m)) 0 (abs ed)) (abs rest)) := by
  unfold serverExtCase sniG
  rw [hc.status, hc.alpn, hc.sni, if_neg (by decide : ¬ (0 : Nat) = 5), if_neg (by decide : ¬ (0 : Nat) = 16), if_pos rfl]
  cases ed with
  | nil =>
    simp only [abs_nil, List.length_nil, ne_eq, not_true_eq_false, if_false, post, Bool.false_or, isEmpty, if_true,
      Int.natCast_zero, bne_self_eq_false, Bool.false_eq_true, List.isEmpty_nil, Bool.not_true]
    exact ⟨_, _, rfl, by rw [L.get_put]; rfl, rfl⟩
  | cons a r =>
    have h1 : (abs (a :: r)).length ≠ 0 := by simp
    have h2 : (((a :: r).length : Int) != 0) = true := by simp only [List.length_cons, bne_iff_ne]; omega
    simp only [h1, h2, ne_eq, not_false_eq_true, if_true, post]
    exact ⟨_, _, rfl⟩

theorem toNat_eq_lit (x : BitVec 16) (k : Nat) (hk : k < 65536) : (x.toNat = k) ↔ (x == BitVec.ofNat 16 k) = true := by
  rw [beq_iff_eq]
  constructor
  · intro h; apply BitVec.eq_of_toNat_eq; rw [h, BitVec.toNat_ofNat]; omega
  · intro h; rw [h, BitVec.toNat_ofNat]; omega

theorem serverExtStep_eq (c : Codes) (v : ServerHello) (s : Bytes) :
    serverExtStep c v s =
      match readU16 s with
      | none => none
      | some (ty, s1) =>
        match readVec16 s1 with
        | none => none
        | some (data, s2) => post (serverExtCase c v ty data) s2 := by
  unfold serverExtStep post
  rfl

/-- the default case of the switch: an unknown extension is skipped without looking at its body -/
theorem default_case (c : Codes) (hc : HelloCodes c) (v : ServerHello) (ty : Nat) (d : Bytes)
    (h5 : ty ≠ 5) (h16 : ty ≠ 16) (h0 : ty ≠ 0) : serverExtCase c v ty d = some (v, d, true) := by
  unfold serverExtCase
  rw [hc.status, hc.alpn, hc.sni, if_neg h5, if_neg h16, if_neg h0]

/-- **one round**: the translated round (`stepG`, any stack) against the model's `serverExtStep` -/
theorem step_rel (L : Lens M) (c : Codes) (hc : HelloCodes c) (r : Option (M × Bool)) (m : M) (exts : BV)
    (hne : exts.isEmpty = false) :
    StepRel L (stepG L (r, m, exts)) (serverExtStep c (view (L.get m)) (abs exts)) := by
  rw [serverExtStep_eq, readU16_abs exts 0#16]
  unfold stepG
  simp only [hne, Bool.false_eq_true, if_false]
  rcases Bool.eq_false_or_eq_true (rd16 exts 0#16).2.2 with h1 | h1
  rotate_left
  · simp only [h1, Bool.not_false, Bool.false_eq_true, if_false, if_true]
    exact ⟨_, _, rfl⟩
  simp only [h1, Bool.not_true, Bool.false_eq_true, if_false, if_true]
  rw [readVec16_abs (rd16 exts 0#16).1 []]
  rcases Bool.eq_false_or_eq_true (lpSpec (rd16 exts 0#16).1 [] 2).2.2 with h2 | h2
  rotate_left
  · simp only [h2, Bool.not_false, Bool.false_eq_true, if_false, if_true]
    exact ⟨_, _, rfl⟩
  simp only [h2, Bool.not_true, Bool.false_eq_true, if_false, if_true]
  unfold caseG
  rcases Bool.eq_false_or_eq_true ((rd16 exts 0#16).2.1 == 5#16) with t5 | t5
  · rw [if_pos t5, ((toNat_eq_lit _ 5 (by omega)).mpr t5)]
    exact ocsp_rel L c hc m _ _
  rw [if_neg (by rw [t5]; exact Bool.false_ne_true)]
  rcases Bool.eq_false_or_eq_true ((rd16 exts 0#16).2.1 == 16#16) with t16 | t16
  · rw [if_pos t16, ((toNat_eq_lit _ 16 (by omega)).mpr t16)]
    exact alpn_rel L c hc m _ _
  rw [if_neg (by rw [t16]; exact Bool.false_ne_true)]
  rcases Bool.eq_false_or_eq_true ((rd16 exts 0#16).2.1 == 0#16) with t0 | t0
  · rw [if_pos t0, ((toNat_eq_lit _ 0 (by omega)).mpr t0)]
    exact sni_rel L c hc m _ _
  rw [if_neg (by rw [t0]; exact Bool.false_ne_true)]
  rw [default_case c hc _ _ _
    (fun h => by rw [(toNat_eq_lit _ 5 (by omega)).mp h] at t5; exact Bool.noConfusion t5)
    (fun h => by rw [(toNat_eq_lit _ 16 (by omega)).mp h] at t16; exact Bool.noConfusion t16)
    (fun h => by rw [(toNat_eq_lit _ 0 (by omega)).mp h] at t0; exact Bool.noConfusion t0)]
  simp only [post, Bool.true_or, if_true]
  exact ⟨_, _, rfl, rfl, rfl⟩

/-! ## the loop, and the whole body -/

/-- verdict and value of a closed-form result against the model's answer -/
def ResRel (L : Lens M) (res : M × Bool) (mo : Option ServerHello) : Prop :=
  match mo with
  | none => res.2 = false
  | some v => res.2 = true ∧ view (L.get res.1) = v

/-- **the extension loop**: with fuel above the number of bytes on both sides, the translated loop and
the model's `foldMany (serverExtStep c)` agree on the verdict and on the final fields -/
theorem loop_rel (L : Lens M) (c : Codes) (hc : HelloCodes c) :
    ∀ (n f2 : Nat) (m : M) (exts : BV), exts.length < n → exts.length ≤ f2 →
      ResRel L (finish (iter (stepG L) n (none, m, exts)))
        (foldMany (serverExtStep c) f2 (view (L.get m)) (abs exts)) := by
  intro n
  induction n with
  | zero => intro f2 m exts h; omega
  | succ n ih =>
    intro f2 m exts h1 h2
    cases exts with
    | nil =>
      have e : stepG L (none, m, []) = .done (none, m, []) := by simp [stepG]
      rw [iter, e]
      cases f2 <;> exact ⟨rfl, rfl⟩
    | cons a t =>
      obtain ⟨f2', rfl⟩ : ∃ f2', f2 = f2' + 1 := ⟨f2 - 1, by simp only [List.length_cons] at h2; omega⟩
      have hs := step_rel L c hc none m (a :: t) rfl
      rw [abs_cons] at hs ⊢
      rw [foldMany]
      cases hmo : serverExtStep c (view (L.get m)) (UInt8.ofBitVec a :: abs t) with
      | none =>
        rw [hmo] at hs
        obtain ⟨m', st, e⟩ := hs
        rw [iter, e]
        rfl
      | some p =>
        obtain ⟨v, rest⟩ := p
        rw [hmo] at hs
        obtain ⟨m', r, e, hv, hr⟩ := hs
        have hy := stepG_yield L _ _ e
        simp only [List.length_cons] at hy h1 h2
        rw [iter, e]
        simp only []
        rw [← hv, ← hr]
        exact ih f2' m' r (by omega) (by omega)

/-- **the body decoder**: `decBody` (what the translated text computes, both stacks) against
`Model.Codec.decServerHelloBody`, for every byte string, given fuel above its length and a receiver
whose nine fields are still zero (`*m = serverHelloMsg{raw: data}`) -/
theorem body_rel (L : Lens M) (c : Codes) (hc : HelloCodes c) (fuel : Nat) (m : M) (s : BV)
    (hm : L.get m = {}) (hf : s.length < fuel) :
    ResRel L (decBody L fuel m s) (decServerHelloBody c (abs s)) := by
  unfold decBody decServerHelloBody decExts
  simp only [L.get_put, L.put_put, hm, hc.rnd]
  rw [readW16_abs s 0#16]
  rcases Bool.eq_false_or_eq_true (rd16 s 0#16).2.2 with h1 | h1
  rotate_left
  · simp only [h1, Bool.not_false, Bool.false_eq_true, if_false, if_true]
    rfl
  simp only [h1, Bool.not_true, Bool.false_eq_true, if_false, if_true]
  have l1 := rd16_len s 0#16
  have e32 : ((32 : Nat) : Int) = 32 := rfl
  rw [readBytes_abs (rd16 s 0#16).1 [] 32, e32]
  rcases Bool.eq_false_or_eq_true (rdBytes (rd16 s 0#16).1 [] 32).2.2 with h2 | h2
  rotate_left
  · simp only [h2, Bool.not_false, Bool.false_eq_true, if_false, if_true]
    rfl
  simp only [h2, Bool.not_true, Bool.false_eq_true, if_false, if_true]
  have l2 := rdBytes_len (rd16 s 0#16).1 [] 32
  rw [readVec8_abs (rdBytes (rd16 s 0#16).1 [] 32).1 []]
  rcases Bool.eq_false_or_eq_true (lpSpec (rdBytes (rd16 s 0#16).1 [] 32).1 [] 1).2.2 with h3 | h3
  rotate_left
  · simp only [h3, Bool.not_false, Bool.false_eq_true, if_false, if_true]
    rfl
  simp only [h3, Bool.not_true, Bool.false_eq_true, if_false, if_true]
  have l3 := lpSpec_len (rdBytes (rd16 s 0#16).1 [] 32).1 [] 1
  rw [readW16_abs (lpSpec (rdBytes (rd16 s 0#16).1 [] 32).1 [] 1).1 0#16]
  rcases Bool.eq_false_or_eq_true (rd16 (lpSpec (rdBytes (rd16 s 0#16).1 [] 32).1 [] 1).1 0#16).2.2 with h4 | h4
  rotate_left
  · simp only [h4, Bool.not_false, Bool.false_eq_true, if_false, if_true]
    rfl
  simp only [h4, Bool.not_true, Bool.false_eq_true, if_false, if_true]
  have l4 := rd16_len (lpSpec (rdBytes (rd16 s 0#16).1 [] 32).1 [] 1).1 0#16
  rw [readU8_abs (rd16 (lpSpec (rdBytes (rd16 s 0#16).1 [] 32).1 [] 1).1 0#16).1 0#8]
  rcases Bool.eq_false_or_eq_true (rd8 (rd16 (lpSpec (rdBytes (rd16 s 0#16).1 [] 32).1 [] 1).1 0#16).1 0#8).2.2 with h5 | h5
  rotate_left
  · simp only [h5, Bool.not_false, Bool.false_eq_true, if_false, if_true]
    rfl
  simp only [h5, Bool.not_true, Bool.false_eq_true, if_false, if_true, isEmpty_abs]
  have l5 := rd8_len (rd16 (lpSpec (rdBytes (rd16 s 0#16).1 [] 32).1 [] 1).1 0#16).1 0#8
  rcases Bool.eq_false_or_eq_true (rd8 (rd16 (lpSpec (rdBytes (rd16 s 0#16).1 [] 32).1 [] 1).1 0#16).1 0#8).1.isEmpty with h6 | h6
  · simp only [h6, if_true]
    exact ⟨rfl, by rw [L.get_put]; rfl⟩
  simp only [h6, Bool.false_eq_true, if_false]
  rw [readVec16_abs (rd8 (rd16 (lpSpec (rdBytes (rd16 s 0#16).1 [] 32).1 [] 1).1 0#16).1 0#8).1 []]
  rcases Bool.eq_false_or_eq_true
    (lpSpec (rd8 (rd16 (lpSpec (rdBytes (rd16 s 0#16).1 [] 32).1 [] 1).1 0#16).1 0#8).1 [] 2).2.2 with h7 | h7
  rotate_left
  · simp only [h7, Bool.not_false, Bool.true_or, Bool.false_eq_true, if_false, if_true]
    rfl
  simp only [h7, Bool.not_true, Bool.false_or, Bool.false_eq_true, if_false, if_true, isEmpty_abs]
  have l6 := lpSpec_child_len _ [] 2 h7
  rcases Bool.eq_false_or_eq_true
    (lpSpec (rd8 (rd16 (lpSpec (rdBytes (rd16 s 0#16).1 [] 32).1 [] 1).1 0#16).1 0#8).1 [] 2).1.isEmpty with h8 | h8
  rotate_left
  · simp only [h8, Bool.not_false, Bool.false_eq_true, if_false, if_true]
    rfl
  simp only [h8, Bool.not_true, Bool.false_eq_true, if_false, if_true, abs_length]
  have := loop_rel L c hc fuel
    (lpSpec (rd8 (rd16 (lpSpec (rdBytes (rd16 s 0#16).1 [] 32).1 [] 1).1 0#16).1 0#8).1 [] 2).2.1.length
    (L.put m { vers := (rd16 s 0#16).2.1, random := (rdBytes (rd16 s 0#16).1 [] 32).2.1,
               sessionId := (lpSpec (rdBytes (rd16 s 0#16).1 [] 32).1 [] 1).2.1,
               cipherSuite := (rd16 (lpSpec (rdBytes (rd16 s 0#16).1 [] 32).1 [] 1).1 0#16).2.1,
               compressionMethod := (rd8 (rd16 (lpSpec (rdBytes (rd16 s 0#16).1 [] 32).1 [] 1).1 0#16).1 0#8).2.1 })
    (lpSpec (rd8 (rd16 (lpSpec (rdBytes (rd16 s 0#16).1 [] 32).1 [] 1).1 0#16).1 0#8).1 [] 2).2.1
    (by omega) (Nat.le_refl _)
  rw [L.get_put] at this
  exact this

/-! ## the decoder writes nothing but the nine fields -/

/-- `x` is `m0` with other values in the nine fields -/
def Framed (L : Lens M) (m0 x : M) : Prop := ∃ e, x = L.put m0 e

theorem framed_put (L : Lens M) (m0 x : M) (h : Framed L m0 x) (e : SH) : Framed L m0 (L.put x e) := by
  obtain ⟨e0, rfl⟩ := h
  exact ⟨e, L.put_put _ _ _⟩

/-- a state whose message (and pending result, if any) is framed -/
def FramedSt (L : Lens M) (m0 : M) (s : St M) : Prop :=
  Framed L m0 s.2.1 ∧ ∀ p, s.1 = some p → Framed L m0 p.1

theorem framedSt_none (L : Lens M) (m0 x : M) (h : Framed L m0 x) (r : BV) : FramedSt L m0 (none, x, r) :=
  ⟨h, fun p hp => by cases hp⟩

theorem framedSt_some (L : Lens M) (m0 x : M) (h : Framed L m0 x) (b : Bool) (r : BV) :
    FramedSt L m0 (some (x, b), x, r) :=
  ⟨h, fun p hp => by cases hp; exact h⟩

theorem caseG_frame (L : Lens M) (m0 m : M) (hm : Framed L m0 m) (ty : BitVec 16) (ed rest : BV) :
    (∀ s', caseG L m ty ed rest = .done s' → FramedSt L m0 s') ∧
    (∀ s', caseG L m ty ed rest = .yield s' → FramedSt L m0 s') := by
  unfold caseG ocspG alpnG sniG
  simp only []
  constructor <;> intro s' h <;> repeat' split at h
  all_goals
    cases h <;> first
      | exact framedSt_none L m0 _ hm _
      | exact framedSt_some L m0 _ hm _ _
      | exact framedSt_none L m0 _ (framed_put L m0 _ hm _) _
      | exact framedSt_some L m0 _ (framed_put L m0 _ hm _) _ _

theorem stepG_frame (L : Lens M) (m0 : M) (s : St M) (hs : Framed L m0 s.2.1) :
    (∀ s', stepG L s = .done s' → FramedSt L m0 s') ∧ (∀ s', stepG L s = .yield s' → FramedSt L m0 s') := by
  unfold stepG
  simp only []
  constructor <;> intro s' h <;> repeat' split at h
  all_goals first
    | exact (caseG_frame L m0 _ hs _ _ _).1 _ h
    | exact (caseG_frame L m0 _ hs _ _ _).2 _ h
    | (cases h <;> first
        | exact framedSt_none L m0 _ hs _
        | exact framedSt_some L m0 _ hs _ _)

theorem iter_frame (L : Lens M) (m0 : M) : ∀ (n : Nat) (s : St M), FramedSt L m0 s →
    FramedSt L m0 (iter (stepG L) n s) := by
  intro n
  induction n with
  | zero => intro s h; exact h
  | succ n ih =>
    intro s h
    rw [iter]
    cases hg : stepG L s with
    | done s' => exact (stepG_frame L m0 s h.1).1 s' hg
    | yield s' => exact ih s' ((stepG_frame L m0 s h.1).2 s' hg)

theorem finish_frame (L : Lens M) (m0 : M) (s : St M) (h : FramedSt L m0 s) : Framed L m0 (finish s).1 := by
  obtain ⟨r, x, e⟩ := s
  cases r with
  | none => exact h.1
  | some p => exact h.2 p rfl

/-- whatever `decBody` returns (accepted or refused) is the receiver with other values in the nine fields -/
theorem decBody_frame (L : Lens M) (fuel : Nat) (m : M) (s : BV) : Framed L m (decBody L fuel m s).1 := by
  unfold decBody decExts
  simp only [L.put_put]
  repeat' split
  all_goals first
    | exact ⟨_, rfl⟩
    | exact finish_frame L m _ (iter_frame L m _ _ (framedSt_none L m _ ⟨_, rfl⟩ _))

/-! ## tlcp: `serverHelloMsg.unmarshal` = `unmarshalServerHello codesT` -/

section tlcp
open Gotlcp.Tie.UnmarshalTlcp (complete complete_true)
open Gotlcp.Tie.UnmarshalTlcpCodec (Agree model_guard)

/-- the extension codes and the random length of the model (regenerated facts) are the literals of the
translated text (5, 16, 0; 32) -/
theorem helloCodesT : HelloCodes codesT := ⟨rfl, rfl, rfl, rfl, rfl, rfl, rfl, rfl, rfl, rfl, rfl, rfl, rfl⟩

/-- message type 2, and `serverHelloMsg.unmarshal` is in the regenerated list of guarded decoders -/
theorem codes_factsT :
    u8 codesT.tServerHello = UInt8.ofBitVec 2#8 ∧ codesT.complete.contains codesT.tServerHello = true := by
  decide

/-- the model's view of a decoded tlcp `serverHelloMsg` -/
def viewT (m : Src.tlcp.codec.serverHelloMsg) : ServerHello := view (getT m)

/-- the closed form against the model, every byte string -/
theorem model_serverHelloT (m : Src.tlcp.codec.serverHelloMsg) (data : BV) :
    match unmarshalServerHello codesT (abs data) with
    | .ok v => (shT m data).2 = true ∧ viewT (shT m data).1 = v
    | .reject => (shT m data).2 = false
    | .panic => False := by
  unfold unmarshalServerHello shT
  rw [model_guard data 2#8 _ codes_factsT.1 codes_factsT.2]
  cases hc : complete data 2#8
  · simp only [Bool.false_eq_true, if_false]
  obtain ⟨b, c, d, rest, rfl, hl⟩ := complete_true hc
  simp only [if_true]
  have hsk : skip 4 (abs (2#8 :: b :: c :: d :: rest)) = some (abs rest) := by
    simp [skip, abs]
  have hdrop : (2#8 :: b :: c :: d :: rest).drop 4 = rest := rfl
  unfold decServerHello
  rw [hsk, hdrop]
  have hb := body_rel lensT codesT helloCodesT ((2#8 :: b :: c :: d :: rest).length + 1)
    { raw := 2#8 :: b :: c :: d :: rest } rest rfl (by simp only [List.length_cons]; omega)
  simp only []
  cases hm : decServerHelloBody codesT (abs rest) with
  | none => rw [hm] at hb; exact hb
  | some v => rw [hm] at hb; exact hb

/-- **`serverHelloMsg.unmarshal` (tlcp) = model**, every receiver, every byte string: accepted with the
model's nine fields, or refused like the model -/
theorem tie_codec_serverHello (m : Src.tlcp.codec.serverHelloMsg) (data : BV) :
    Agree viewT (Src.tlcp.codec.serverHelloMsg.unmarshal m data) (unmarshalServerHello codesT (abs data)) := by
  rw [tie_serverHello]
  have h := model_serverHelloT m data
  cases ho : unmarshalServerHello codesT (abs data) with
  | ok v =>
    rw [ho] at h
    exact ⟨(shT m data).1, by rw [← h.1], h.2⟩
  | reject =>
    rw [ho] at h
    exact ⟨(shT m data).1, by rw [← h]⟩
  | panic => rw [ho] at h; exact h

/-- what the receiver holds afterwards: untouched when the header guard refuses, otherwise `raw = data`
(whether or not the body is then accepted) -/
theorem serverHello_rawT (m m' : Src.tlcp.codec.serverHelloMsg) (data : BV) (b : Bool)
    (h : Src.tlcp.codec.serverHelloMsg.unmarshal m data = .ok (m', b)) :
    (m' = m ∧ b = false ∧ complete data 2#8 = false) ∨ (m'.raw = data ∧ complete data 2#8 = true) := by
  rw [tie_serverHello] at h
  injection h with h
  unfold shT at h
  cases hc : complete data 2#8
  · rw [hc] at h
    simp only [Bool.false_eq_true, if_false] at h
    injection h with h1 h2
    exact Or.inl ⟨h1.symm, h2.symm, rfl⟩
  · rw [hc] at h
    simp only [if_true] at h
    obtain ⟨e, he⟩ := decBody_frame lensT (data.length + 1) { raw := data } (data.drop 4)
    rw [h] at he
    simp only at he
    exact Or.inr ⟨by rw [he]; rfl, rfl⟩

end tlcp

/-! ## dtlcp: `serverHelloMsg.unmarshal` = `CodecDtlcp.decServerHello codesD` -/

section dtlcp
open Gotlcp.Model.CodecDtlcp (unmarshalHeader)
open Gotlcp.Tie.CodecSHDtlcp (getD putD lensD shD hdrM list12)
open Gotlcp.Tie.UnmarshalDtlcp (u16At u24At u24)
open Gotlcp.Tie.UnmarshalDtlcpCodec (completeD completeD_len N24 hdrView u24_toNat nat24_abs)

theorem absD_eq : @Gotlcp.Tie.UnmarshalDtlcpCodec.abs = @abs := rfl

theorem helloCodesD : HelloCodes codesD := ⟨rfl, rfl, rfl, rfl, rfl, rfl, rfl, rfl, rfl, rfl, rfl, rfl, rfl⟩

theorem codes_factsD :
    u8 codesD.tServerHello = UInt8.ofBitVec 2#8 ∧ codesD.complete.contains codesD.tServerHello = true := by
  decide

/-- the model's view of a decoded dtlcp `serverHelloMsg`: the three header fields and the nine body fields -/
def viewD (m : Src.dtlcp.codec.serverHelloMsg) : DHdr × ServerHello :=
  (hdrView m.messageSeq m.fragmentOffset m.fragmentLength, view (getD m))

/-- the model's `dtlcpUnmarshalHeader` on a message that `dtlcpIsCompleteMessage` let through -/
theorem model_header (data : BV) (t : BitVec 8) (hc : completeD data t = true) :
    unmarshalHeader (abs data) =
      some (UInt8.ofBitVec t, N24 data 1, hdrView (u16At data 4) (u24At data 6) (u24At data 9), abs (data.drop 12)) := by
  obtain ⟨hl, hlen, h0⟩ := completeD_len hc
  have h9 : N24 data 9 = N24 data 1 := by
    simp only [completeD, Bool.and_eq_true, decide_eq_true_eq, beq_iff_eq] at hc
    exact hc.2.1.2
  obtain ⟨a0, a1, a2, a3, a4, a5, a6, a7, a8, a9, a10, a11, body, rfl⟩ := list12 data hl
  simp only [N24, u16At, u24At, List.getD_cons_succ, List.getD_cons_zero, List.drop_succ_cons, List.drop_zero,
    Nat.reduceAdd, List.length_cons] at h9 hlen h0 ⊢
  subst h0
  unfold unmarshalHeader
  simp only [abs_cons, readU8, readU24, readW16, nat24_abs]
  have hfl : n24 a9 a10 a11 = body.length := by omega
  have hh : (⟨(UInt8.ofBitVec a4, UInt8.ofBitVec a5), n24 a6 a7 a8, n24 a9 a10 a11⟩ : DHdr) =
      hdrView (BitVec.setWidth 16 a4 <<< 8 ||| BitVec.setWidth 16 a5)
        (BitVec.setWidth 32 a6 <<< 16 ||| BitVec.setWidth 32 a7 <<< 8 ||| BitVec.setWidth 32 a8)
        (BitVec.setWidth 32 a9 <<< 16 ||| BitVec.setWidth 32 a10 <<< 8 ||| BitVec.setWidth 32 a11) := by
    unfold hdrView
    rw [show (BitVec.setWidth 16 a4 <<< 8 ||| BitVec.setWidth 16 a5) = u16 a4 a5 from rfl,
      show (BitVec.setWidth 32 a6 <<< 16 ||| BitVec.setWidth 32 a7 <<< 8 ||| BitVec.setWidth 32 a8) = u24 a6 a7 a8 from rfl,
      show (BitVec.setWidth 32 a9 <<< 16 ||| BitVec.setWidth 32 a10 <<< 8 ||| BitVec.setWidth 32 a11) = u24 a9 a10 a11 from rfl,
      w16_u16, u24_toNat, u24_toNat]
  rw [hh]
  by_cases hpos : n24 a9 a10 a11 > 0
  · rw [if_pos hpos, if_neg (by rw [abs_length]; omega), hfl, ← abs_take, List.take_of_length_le (Nat.le_refl _)]
  · rw [if_neg hpos]

/-- the closed form against the model, every byte string -/
theorem model_serverHelloD (m : Src.dtlcp.codec.serverHelloMsg) (data : BV) :
    match Model.CodecDtlcp.decServerHello codesD (abs data) with
    | .ok v => (shD m data).2 = true ∧ viewD (shD m data).1 = v
    | .reject => (shD m data).2 = false
    | .panic => False := by
  unfold Model.CodecDtlcp.decServerHello shD
  have hg := Gotlcp.Tie.UnmarshalDtlcpCodec.model_guard (α := DHdr × ServerHello) data 2#8 _ codes_factsD.1 codes_factsD.2
  rw [absD_eq] at hg
  rw [hg]
  cases hc : completeD data 2#8
  · simp only [Bool.false_eq_true, if_false]
  simp only [if_true]
  rw [model_header data 2#8 hc]
  simp only [codes_factsD.1, ne_eq, not_true_eq_false, if_false]
  obtain ⟨hl, hlen, h0⟩ := completeD_len hc
  have hb := body_rel lensD codesD helloCodesD (data.length + 1) (hdrM data) (data.drop 12) rfl
    (by rw [List.length_drop]; omega)
  obtain ⟨e, he⟩ := decBody_frame lensD (data.length + 1) (hdrM data) (data.drop 12)
  have hv : viewD (decBody lensD (data.length + 1) (hdrM data) (data.drop 12)).1 =
      (hdrView (u16At data 4) (u24At data 6) (u24At data 9),
       view (lensD.get (decBody lensD (data.length + 1) (hdrM data) (data.drop 12)).1)) := by
    rw [he]; rfl
  cases hm : decServerHelloBody codesD (abs (data.drop 12)) with
  | none => rw [hm] at hb; exact hb
  | some v =>
    rw [hm] at hb
    exact ⟨hb.1, by rw [hv, hb.2]⟩

/-- **`serverHelloMsg.unmarshal` (dtlcp) = model**, every receiver, every byte string: accepted with the
model's header fields and nine body fields, or refused like the model -/
theorem tie_codec_serverHelloD (m : Src.dtlcp.codec.serverHelloMsg) (data : BV) :
    Gotlcp.Tie.UnmarshalDtlcpCodec.Agree viewD (Src.dtlcp.codec.serverHelloMsg.unmarshal m data)
      (Model.CodecDtlcp.decServerHello codesD (Gotlcp.Tie.UnmarshalDtlcpCodec.abs data)) := by
  rw [Gotlcp.Tie.CodecSHDtlcp.tie_serverHello, absD_eq]
  have h := model_serverHelloD m data
  cases ho : Model.CodecDtlcp.decServerHello codesD (abs data) with
  | ok v =>
    rw [ho] at h
    exact ⟨(shD m data).1, by rw [← h.1], h.2⟩
  | reject =>
    rw [ho] at h
    exact ⟨(shD m data).1, by rw [← h]⟩
  | panic => rw [ho] at h; exact h

/-- what the receiver holds afterwards: untouched when the header guard refuses, otherwise `raw = data` and
the three header fields of `data` (whether or not the body is then accepted) -/
theorem serverHello_rawD (m m' : Src.dtlcp.codec.serverHelloMsg) (data : BV) (b : Bool)
    (h : Src.dtlcp.codec.serverHelloMsg.unmarshal m data = .ok (m', b)) :
    (m' = m ∧ b = false ∧ completeD data 2#8 = false) ∨
    (m'.raw = data ∧ m'.messageSeq = u16At data 4 ∧ m'.fragmentOffset = u24At data 6 ∧
      m'.fragmentLength = u24At data 9 ∧ completeD data 2#8 = true) := by
  rw [Gotlcp.Tie.CodecSHDtlcp.tie_serverHello] at h
  injection h with h
  unfold shD at h
  cases hc : completeD data 2#8
  · rw [hc] at h
    simp only [Bool.false_eq_true, if_false] at h
    injection h with h1 h2
    exact Or.inl ⟨h1.symm, h2.symm, rfl⟩
  · rw [hc] at h
    simp only [if_true] at h
    obtain ⟨e, he⟩ := decBody_frame lensD (data.length + 1) (hdrM data) (data.drop 12)
    rw [h] at he
    simp only at he
    exact Or.inr ⟨by rw [he]; rfl, by rw [he]; rfl, by rw [he]; rfl, by rw [he]; rfl, rfl⟩

end dtlcp

end Gotlcp.Tie.CodecSHModel

/-
Tie by translation, `serverHelloMsg.unmarshal` of dtlcp/handshake_messages.go
(`Gotlcp.Src.dtlcp.codec.serverHelloMsg.unmarshal`, regenerated on every run): the body decoder is
the SAME pure function `Tie.CodecSH.decBody` as for tlcp, over the lens of the dtlcp struct (three
more header fields); in front of it `dtlcpIsCompleteMessage` and `dtlcpUnmarshalHeader`.

  * `hdr_eq`: `dtlcpUnmarshalHeader` on at least twelve bytes, in closed form (never an error; the one
    `Go.slice` is guarded by the length comparison before it);
  * `tie_serverHello`: for EVERY receiver and EVERY byte string the translated decoder returns `.ok` of
    the closed form `shD` — no panic, no exhausted loop fuel.

Core Lean only.
-/
import Gotlcp.Tie.CodecSH
import Gotlcp.Tie.UnmarshalDtlcpCodec

set_option linter.unusedSimpArgs false
set_option linter.unusedVariables false

namespace Gotlcp.Tie.CodecSHDtlcp
open Gotlcp Gotlcp.Tie.CbString Gotlcp.Tie.CodecSH
open Gotlcp.Tie.UnmarshalTlcp (ok_bind error_bind)
open Gotlcp.Tie.UnmarshalDtlcp (u16At u24At)
open Gotlcp.Tie.UnmarshalDtlcpCodec (completeD completeD_len isComplete_eq N24 n24 u24_toNat)
open Gotlcp.Src.dtlcp.codec

def getD (m : serverHelloMsg) : SH :=
  ⟨m.vers, m.random, m.sessionId, m.cipherSuite, m.compressionMethod, m.ocspStapling, m.ocspResponse,
    m.alpnProtocol, m.serverNameAck⟩

def putD (m : serverHelloMsg) (e : SH) : serverHelloMsg :=
  { raw := m.raw, vers := e.vers, random := e.random, sessionId := e.sessionId, cipherSuite := e.cipherSuite,
    compressionMethod := e.compressionMethod, ocspStapling := e.ocspStapling, ocspResponse := e.ocspResponse,
    alpnProtocol := e.alpnProtocol, serverNameAck := e.serverNameAck, messageSeq := m.messageSeq,
    fragmentOffset := m.fragmentOffset, fragmentLength := m.fragmentLength }

def lensD : Lens serverHelloMsg := ⟨getD, putD, fun _ _ => rfl, fun _ _ _ => rfl⟩

theorem lensD_get : lensD.get = getD := rfl
theorem lensD_put : lensD.put = putD := rfl

theorem codec_isComplete (data : BV) (t : BitVec 8) :
    Src.dtlcp.codec.dtlcpIsCompleteMessage data t = .ok (completeD data t) := isComplete_eq data t

/-! ## `dtlcpUnmarshalHeader` -/

theorem cons_of_len {α : Type} (l : List α) (n : Nat) (h : n + 1 ≤ l.length) : ∃ a r, l = a :: r ∧ n ≤ r.length := by
  cases l with
  | nil => simp at h
  | cons a r => exact ⟨a, r, rfl, by simp only [List.length_cons] at h; omega⟩

theorem list12 (data : BV) (h : 12 ≤ data.length) :
    ∃ a0 a1 a2 a3 a4 a5 a6 a7 a8 a9 a10 a11 body,
      data = a0 :: a1 :: a2 :: a3 :: a4 :: a5 :: a6 :: a7 :: a8 :: a9 :: a10 :: a11 :: body := by
  obtain ⟨a0, d0, rfl, g0⟩ := cons_of_len data 11 h
  obtain ⟨a1, d1, rfl, g1⟩ := cons_of_len d0 10 g0
  obtain ⟨a2, d2, rfl, g2⟩ := cons_of_len d1 9 g1
  obtain ⟨a3, d3, rfl, g3⟩ := cons_of_len d2 8 g2
  obtain ⟨a4, d4, rfl, g4⟩ := cons_of_len d3 7 g3
  obtain ⟨a5, d5, rfl, g5⟩ := cons_of_len d4 6 g4
  obtain ⟨a6, d6, rfl, g6⟩ := cons_of_len d5 5 g5
  obtain ⟨a7, d7, rfl, g7⟩ := cons_of_len d6 4 g6
  obtain ⟨a8, d8, rfl, g8⟩ := cons_of_len d7 3 g7
  obtain ⟨a9, d9, rfl, g9⟩ := cons_of_len d8 2 g8
  obtain ⟨a10, d10, rfl, g10⟩ := cons_of_len d9 1 g9
  obtain ⟨a11, d11, rfl, g11⟩ := cons_of_len d10 0 g10
  exact ⟨a0, a1, a2, a3, a4, a5, a6, a7, a8, a9, a10, a11, d11, rfl⟩

/-- the end of `dtlcpUnmarshalHeader`: `if fragmentLength > 0 { if int(fragmentLength) > len(s) { fail }; body = s[:fragmentLength] } else { body = s }` -/
theorem hdr_tail {α : Type} (hd : BV → α) (fail : α) (fl : BitVec 32) (body : BV) :
    (if decide (fl > 0#32) = true then
        if decide ((fl.toNat : Int) > (body.length : Int)) = true then (Except.ok fail : Except String α)
        else (Go.slice body (0 : Int) (fl.toNat : Int)).bind fun l => Except.ok (hd l)
      else Except.ok (hd body)) =
      .ok (if fl.toNat > body.length then fail else hd (if fl > 0#32 then body.take fl.toNat else body)) := by
  by_cases hpos : fl > 0#32
  · simp only [hpos, decide_true, if_true]
    by_cases hgt : ((fl.toNat : Int) > (body.length : Int))
    · have : fl.toNat > body.length := by omega
      simp only [hgt, decide_true, if_true, this]
    · have hle : ¬ fl.toNat > body.length := by omega
      have hs : Go.slice body (0 : Int) (fl.toNat : Int) = .ok (body.take fl.toNat) := by
        have := Gotlcp.Tie.UnmarshalTlcp.slice_ok body 0 fl.toNat (by omega) (by omega) 0 (fl.toNat : Int) rfl rfl
        simpa using this
      simp only [hgt, decide_false, Bool.false_eq_true, if_false, hs, ok_bind, hle]
  · have h0 : fl.toNat = 0 := by
      have : ¬ 0 < fl.toNat := fun hh => hpos (by show 0#32 < fl; rw [BitVec.lt_def]; simpa using hh)
      omega
    have hle : ¬ fl.toNat > body.length := by omega
    simp only [hpos, decide_false, Bool.false_eq_true, if_false, hle]

/-- `dtlcpUnmarshalHeader` on a complete header: the five fields; the body is the first
`fragmentLength` bytes after the header when `fragmentLength > 0` and they are there, everything after
the header when `fragmentLength == 0`, and failure otherwise.  Never `Except.error`. -/
theorem hdr_eq (data : BV) (h : 12 ≤ data.length) :
    dtlcpUnmarshalHeader data = .ok (
      if (u24At data 9).toNat > (data.drop 12).length then (0#8, 0#32, 0#16, 0#32, 0#32, [], false)
      else (data.getD 0 0#8, u24At data 1, u16At data 4, u24At data 6, u24At data 9,
            if u24At data 9 > 0#32 then (data.drop 12).take (u24At data 9).toNat else data.drop 12, true)) := by
  obtain ⟨a0, a1, a2, a3, a4, a5, a6, a7, a8, a9, a10, a11, body, rfl⟩ := list12 data h
  unfold dtlcpUnmarshalHeader
  simp only [bind, pure, Except.pure, ok_bind, dtlcp_ReadUint8, dtlcp_ReadUint16, dtlcp_ReadUint24, readUint8_eq,
    readUint16_eq, readUint24_eq, Bool.not_true, Bool.not_false, Bool.false_eq_true, if_false, if_true]
  simp only [u24At, u16At, List.getD_cons_succ, List.getD_cons_zero, List.drop_succ_cons, List.drop_zero,
    Nat.reduceAdd]
  exact hdr_tail (fun l => (a0, BitVec.setWidth 32 a1 <<< 16 ||| BitVec.setWidth 32 a2 <<< 8 ||| BitVec.setWidth 32 a3,
    BitVec.setWidth 16 a4 <<< 8 ||| BitVec.setWidth 16 a5,
    BitVec.setWidth 32 a6 <<< 16 ||| BitVec.setWidth 32 a7 <<< 8 ||| BitVec.setWidth 32 a8,
    BitVec.setWidth 32 a9 <<< 16 ||| BitVec.setWidth 32 a10 <<< 8 ||| BitVec.setWidth 32 a11, l, true)) _ _ body

/-! ## `serverHelloMsg.unmarshal` -/

/-- the receiver after `*m = serverHelloMsg{raw: data}` and the three header assignments -/
def hdrM (data : BV) : serverHelloMsg :=
  { raw := data, messageSeq := u16At data 4, fragmentOffset := u24At data 6, fragmentLength := u24At data 9 }

/-- `serverHelloMsg.unmarshal` (dtlcp) in closed form -/
def shD (m : serverHelloMsg) (data : BV) : serverHelloMsg × Bool :=
  if completeD data 2#8 then decBody lensD (data.length + 1) (hdrM data) (data.drop 12) else (m, false)

/-- after `dtlcpIsCompleteMessage` the header parser succeeds, the type is the one checked, and the body is
everything after the twelve header bytes (`fragment_length = length = len(data) - 12`) -/
theorem hdr_complete (data : BV) (hc : completeD data 2#8 = true) :
    dtlcpUnmarshalHeader data = .ok (2#8, u24At data 1, u16At data 4, u24At data 6, u24At data 9, data.drop 12, true) := by
  obtain ⟨hl, hlen, h0⟩ := completeD_len hc
  rw [hdr_eq data hl]
  have h9 : N24 data 9 = N24 data 1 := by
    simp only [completeD, Bool.and_eq_true, decide_eq_true_eq, beq_iff_eq] at hc
    exact hc.2.1.2
  have e9 : (u24At data 9).toNat = N24 data 9 := u24_toNat _ _ _
  have hfl : (u24At data 9).toNat = (data.drop 12).length := by
    rw [e9, h9, List.length_drop]; omega
  rw [if_neg (by omega), h0]
  by_cases hpos : u24At data 9 > 0#32
  · rw [if_pos hpos, hfl, List.take_of_length_le (Nat.le_refl _)]
  · rw [if_neg hpos]

/-- **`serverHelloMsg.unmarshal` (dtlcp), every receiver, every byte string**: never `Except.error`
(no panic, the extension loop stays within its fuel), and the result is the closed form -/
theorem tie_serverHello (m : serverHelloMsg) (data : BV) :
    serverHelloMsg.unmarshal m data = .ok (shD m data) := by
  unfold serverHelloMsg.unmarshal
  simp only [bind, pure, Except.pure, ok_bind, codec_isComplete, dtlcp_ReadUint8, dtlcp_ReadUint16, dtlcp_ReadBytes,
    dtlcp_ReadUint16LengthPrefixed, dtlcp_ReadUint8LengthPrefixed, dtlcp_readUint8LengthPrefixed,
    dtlcp_readUint24LengthPrefixed, dtlcp_Empty, rU8, rU16, rBytes, readUint8LP_eq,
    readUint16LengthPrefixed_eq, readUint24LP_eq, readUint8LengthPrefixed_eq, empty_eq]
  unfold shD
  cases hc : completeD data 2#8
  · simp only [Bool.not_false, if_true, Bool.false_eq_true, if_false]
  obtain ⟨hl, hlen, h0⟩ := completeD_len hc
  have hrl : (data.drop 12).length < data.length := by rw [List.length_drop]; omega
  have hfuel : ((data.length : Int) + 1).toNat = data.length + 1 := by omega
  rw [hdr_complete data hc, hfuel]
  simp only [ok_bind, Bool.not_true, Bool.false_eq_true, Bool.or_false, bne_self_eq_false, if_false]
  generalize data.drop 12 = rest at hrl ⊢
  unfold decBody decExts hdrM
  simp only [lensD_get, lensD_put, getD, putD]
  rcases Bool.eq_false_or_eq_true (rd16 rest 0#16).2.2 with h1 | h1
  rotate_left
  · simp only [h1, Bool.not_true, Bool.not_false, Bool.false_eq_true, if_false, if_true]
  simp only [h1, Bool.not_true, Bool.not_false, Bool.false_eq_true, if_false, if_true]
  have l1 := rd16_len rest 0#16
  rcases Bool.eq_false_or_eq_true (rdBytes (rd16 rest 0#16).1 [] 32).2.2 with h2 | h2
  rotate_left
  · simp only [h2, Bool.not_true, Bool.not_false, Bool.false_eq_true, if_false, if_true]
  simp only [h2, Bool.not_true, Bool.not_false, Bool.false_eq_true, if_false, if_true]
  have l2 := rdBytes_len (rd16 rest 0#16).1 [] 32
  rcases Bool.eq_false_or_eq_true (lpSpec (rdBytes (rd16 rest 0#16).1 [] 32).1 [] 1).2.2 with h3 | h3
  rotate_left
  · simp only [h3, Bool.not_true, Bool.not_false, Bool.false_eq_true, if_false, if_true]
  simp only [h3, Bool.not_true, Bool.not_false, Bool.false_eq_true, if_false, if_true]
  have l3 := lpSpec_len (rdBytes (rd16 rest 0#16).1 [] 32).1 [] 1
  rcases Bool.eq_false_or_eq_true (rd16 (lpSpec (rdBytes (rd16 rest 0#16).1 [] 32).1 [] 1).1 0#16).2.2 with h4 | h4
  rotate_left
  · simp only [h4, Bool.not_true, Bool.not_false, Bool.false_eq_true, if_false, if_true]
  simp only [h4, Bool.not_true, Bool.not_false, Bool.false_eq_true, if_false, if_true]
  have l4 := rd16_len (lpSpec (rdBytes (rd16 rest 0#16).1 [] 32).1 [] 1).1 0#16
  rcases Bool.eq_false_or_eq_true (rd8 (rd16 (lpSpec (rdBytes (rd16 rest 0#16).1 [] 32).1 [] 1).1 0#16).1 0#8).2.2 with h5 | h5
  rotate_left
  · simp only [h5, Bool.not_true, Bool.not_false, Bool.false_eq_true, if_false, if_true]
  simp only [h5, Bool.not_true, Bool.not_false, Bool.false_eq_true, if_false, if_true]
  have l5 := rd8_len (rd16 (lpSpec (rdBytes (rd16 rest 0#16).1 [] 32).1 [] 1).1 0#16).1 0#8
  rcases Bool.eq_false_or_eq_true (rd8 (rd16 (lpSpec (rdBytes (rd16 rest 0#16).1 [] 32).1 [] 1).1 0#16).1 0#8).1.isEmpty with h6 | h6
  · simp only [h6, Bool.not_true, Bool.not_false, Bool.false_eq_true, if_false, if_true]
  simp only [h6, Bool.not_true, Bool.not_false, Bool.false_eq_true, if_false, if_true]
  rcases Bool.eq_false_or_eq_true (!(lpSpec (rd8 (rd16 (lpSpec (rdBytes (rd16 rest 0#16).1 [] 32).1 [] 1).1 0#16).1 0#8).1 [] 2).2.2 || !(lpSpec (rd8 (rd16 (lpSpec (rdBytes (rd16 rest 0#16).1 [] 32).1 [] 1).1 0#16).1 0#8).1 [] 2).1.isEmpty) with h7 | h7
  · simp only [h7, Bool.not_true, Bool.not_false, Bool.false_eq_true, if_false, if_true]
  simp only [h7, Bool.not_true, Bool.not_false, Bool.false_eq_true, if_false, if_true]
  have hok : (lpSpec (rd8 (rd16 (lpSpec (rdBytes (rd16 rest 0#16).1 [] 32).1 [] 1).1 0#16).1 0#8).1 [] 2).2.2 = true := by
    cases hq : (lpSpec (rd8 (rd16 (lpSpec (rdBytes (rd16 rest 0#16).1 [] 32).1 [] 1).1 0#16).1 0#8).1 [] 2).2.2
    · rw [hq] at h7; simp at h7
    · rfl
  have l6 := lpSpec_child_len _ [] 2 hok
  rw [forIn_pure (stepG lensD) _ ?hf, ok_bind]
  case hf =>
    sh_step lensD_get, lensD_put, getD, putD
  rw [List.length_range]
  generalize hst : iter (stepG lensD) (data.length + 1) _ = st
  have hfu := iter_fuel' lensD _ _ _ _ st hst (by omega)
  obtain ⟨r, m', e⟩ := st
  rcases hfu with ⟨e1, e2⟩ | ⟨m'', e1⟩
  · simp only at e1 e2; subst e1 e2; rfl
  · simp only at e1; subst e1; rfl

end Gotlcp.Tie.CodecSHDtlcp

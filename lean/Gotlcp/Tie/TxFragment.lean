/-
Tie by translation, dtlcp/conn.go — the SENDER's handshake fragmentation `Conn.writeHandshakeRecord`.

`Gotlcp.Src.dtlcp.tx.Conn.writeHandshakeRecord` is regenerated from the Go source on every run by
`harness/cmd/go2lean`, over a view (`txStubs`): the record layer below is a list (`writeRecordLocked` appends the
payload it is handed to `c.sent`, or fails at the `writeErrAt`-th call), the message is a value whose `marshal()`
returns `data` (or fails), the transcript collects what is written, `maxPayloadSizeForWrite` is translated as in
the base group.  The theorems below are about that generated definition, for EVERY view, message and transcript:

  * `src_maxPayload`, `maxPayload_base`: the maximum payload of the tx view is the value the translated
    `maxPayloadSizeForWrite` of the base group returns on the same view (so `Tie.RecordSize` applies);
  * `src_frag_shape` (unconditional): in the fragmenting branch the function is a loop over `stepE` — header
    bytes assembled, the slice `body[offset:fragEnd]` still a checked `Go.slice`;
  * `loop_eq`, `sendAll_eq`: the loop sends `fragsFrom …` until a write fails; `src_eq`: the function equals the
    total function `txSpec` — in particular it returns `Except.ok` (no Go panic, loop fuel never exhausted) —
    for every message of at most `2^32 − 16384` bytes;
  * `src_wraps_beyond_bound`: the bound is real (`uint24` is `uint32` here): for a body of `2^32 − 1` bytes
    `offset + uint24(maxFragBody)` wraps around and `body[offset:fragEnd]` panics;
  * `fragsFrom_eq_fragments`: closed form of the fragment list (`fragments`: fragment `i` starts at `i·m`,
    carries `min m (|body| − i·m)` bytes, `⌈|body|/m⌉` fragments); `fragsFrom_concat` (the fragment bodies, in
    order, are the body: no gap, no overlap), `fragsFrom_cover`, `fragsFrom_mem`; `txPlan_fits`: every record
    handed down is at most the maximum payload;
  * `src_sends`, `src_refuses`, `src_marshal_fails`: the result in the three cases (records up to the failing
    write; transcript written exactly once with the UNFRAGMENTED message; returned count = sum of the lengths).

Proof style: the loop body is compared with `stepE` by unfolding only; nothing depends on the names of the Go
locals, so a rename-only edit keeps the proofs intact, while a change of the arithmetic, of a header field or
of the order of effects changes `stepE`'s counterpart in the generated text and breaks `src_frag_shape`/`src_eq`.

Core Lean only.
-/
import Gotlcp.Generated.Src
import Gotlcp.Tie.RecordSize

set_option linter.unusedSimpArgs false
set_option linter.unusedVariables false

namespace Gotlcp.Tie.TxFragment
open Gotlcp
open Gotlcp.Src.dtlcp.tx

abbrev Bytes := List (BitVec 8)

/-! ## helpers -/

theorem ok_bind {α β : Type} (a : α) (f : α → Except String β) : Except.bind (.ok a) f = f a := rfl

theorem idx_ok (a : Bytes) (i : Nat) (h : i < a.length) (z : Int) (hz : z = (i : Int)) :
    Go.idx a z = .ok (a.getD i 0#8) := by
  subst hz
  unfold Go.idx
  have : ¬ ((i : Int) < 0) := by omega
  simp [this, List.getD_eq_getElem?_getD, List.getElem?_eq_getElem h]

theorem slice_ok {α : Type} (a : List α) (lo hi : Nat) (h1 : lo ≤ hi) (h2 : hi ≤ a.length)
    (zl zh : Int) (hl : zl = (lo : Int)) (hh : zh = (hi : Int)) :
    Go.slice a zl zh = .ok ((a.drop lo).take (hi - lo)) := by
  subst hl hh
  unfold Go.slice
  have : ¬ ((lo : Int) < 0 ∨ (hi : Int) < (lo : Int) ∨ (a.length : Int) < (hi : Int)) := by omega
  simp only [this, if_false, Int.toNat_natCast]

/-! ## the maximum payload of the tx view is that of the base view -/

def baseDyn : Dyn → Src.dtlcp.Dyn
  | .nil => .nil
  | .goStream _ => .goStream {}
  | .goAEAD a => .goAEAD { overhead := a.overhead, nonce := a.nonce }
  | .goCBC b => .goCBC { blockSize := b.blockSize }

/-- the tx view of a connection, read as a view of the base group (`Src.dtlcp.Conn`) -/
def baseConn (c : Conn) : Src.dtlcp.Conn :=
  { config := { PMTU := c.config.PMTU },
    out := { cipher := baseDyn c.out.cipher, mac := { size := c.out.mac.size }, seq := c.out.seq } }

/-- `maxPayloadSizeForWrite` as a total function of the view -/
def maxPayload (c : Conn) : Int :=
  RecordSize.Dtlcp.clamp (RecordSize.Dtlcp.srcRaw (baseConn c))

theorem src_nonce (hc : halfConn) :
    halfConn.explicitNonceLen hc = .ok (match hc.cipher with
      | .nil => 0 | .goStream _ => 0 | .goAEAD a => a.nonce | .goCBC b => b.blockSize) := by
  unfold halfConn.explicitNonceLen
  cases h : hc.cipher <;>
    simp [pure, Except.pure, goAEAD.explicitNonceLen, goCBC.BlockSize, Id.run]

theorem src_maxPayload (c : Conn) (typ : BitVec 8) :
    Conn.maxPayloadSizeForWrite c typ = .ok (maxPayload c) := by
  unfold Conn.maxPayloadSizeForWrite maxPayload RecordSize.Dtlcp.clamp RecordSize.Dtlcp.srcRaw
    RecordSize.Dtlcp.srcPmtu baseConn
  simp only [decide_eq_true_eq]
  simp only [src_nonce]
  by_cases hp : c.config.PMTU ≤ 0 <;>
  cases h : c.out.cipher <;>
    simp only [hp, baseDyn, bind, Except.bind, pure, Except.pure, goAEAD.Overhead, goCBC.BlockSize,
      goSized.Size, Id.run, bne_self_eq_false, Bool.false_eq_true, if_false,
      bne_iff_ne, ne_eq, reduceCtorEq, not_false_eq_true, if_true, Int.sub_zero,
      apply_ite (Except.ok (ε := String))] <;>
    (first | done | rfl | (simp; done))

/-- the same function of the base group on the same view -/
theorem maxPayload_base (c : Conn) (typ : BitVec 8) :
    Conn.maxPayloadSizeForWrite c typ = Src.dtlcp.Conn.maxPayloadSizeForWrite (baseConn c) typ := by
  rw [src_maxPayload, RecordSize.Dtlcp.src_shape]; rfl

theorem maxPayload_range (c : Conn) : 1 ≤ maxPayload c ∧ maxPayload c ≤ 16384 :=
  RecordSize.Dtlcp.clamp_range _


/-! ## the loop of `writeHandshakeRecord`, one iteration -/

def be3 (x : BitVec 32) : Bytes :=
  [BitVec.setWidth 8 (x >>> 16), BitVec.setWidth 8 (x >>> 8), BitVec.setWidth 8 x]

/-- the 12-byte handshake header the loop builds -/
def hdr (t : BitVec 8) (total : BitVec 32) (seq : BitVec 16) (off len : BitVec 32) : Bytes :=
  t :: (be3 total ++ [BitVec.setWidth 8 (seq >>> 8), BitVec.setWidth 8 seq] ++ be3 off ++ be3 len)

abbrev Ret := Conn × goTranscript × Int × Option Go.Error
abbrev St := Option Ret × Conn × Int × BitVec 32

/-- what the loop does not change -/
structure Par where
  body : Bytes
  bodyLen : BitVec 32
  mfb : Int
  typ : BitVec 8
  seq : BitVec 16
  tr : goTranscript

/-- one iteration, as the source text computes it (header assembled) -/
def stepE (P : Par) (s : St) : Except String (ForInStep St) :=
  if ¬ s.2.2.2 < P.bodyLen then .ok (.done (none, s.2.1, s.2.2.1, s.2.2.2))
  else
    let fragEnd := if s.2.2.2 + BitVec.ofInt 32 P.mfb > P.bodyLen then P.bodyLen else s.2.2.2 + BitVec.ofInt 32 P.mfb
    (Go.slice P.body (s.2.2.2.toNat : Int) (fragEnd.toNat : Int)).bind fun fragBody =>
    let w := Conn.writeRecordLocked s.2.1 22#8 (hdr P.typ P.bodyLen P.seq s.2.2.2 (fragEnd - s.2.2.2) ++ fragBody)
    if w.2.2.isSome then .ok (.done (some (w.1, P.tr, s.2.2.1 + w.2.1, w.2.2), w.1, s.2.2.1 + w.2.1, s.2.2.2))
    else .ok (.yield (none, w.1, s.2.2.1 + w.2.1, fragEnd))

/-- after the loop -/
def finish (P : Par) (s : St) : Except String Ret :=
  match s.1 with
  | some r => .ok r
  | none => if s.2.2.2 < P.bodyLen then .error "loop fuel exhausted" else .ok (s.2.1, P.tr, s.2.2.1, none)

def parOf (c : Conn) (msg : goMsg) (tr : goTranscript) : Par :=
  { body := msg.data.drop 12, bodyLen := BitVec.ofInt 32 ((msg.data.length - 12 : Nat) : Int),
    mfb := maxPayload c - 12, typ := msg.data.getD 0 0#8,
    seq := (BitVec.setWidth 16 (msg.data.getD 4 0#8) <<< 8) ||| BitVec.setWidth 16 (msg.data.getD 5 0#8),
    tr := { tr with written := tr.written ++ msg.data } }

theorem forIn_ext {σ α : Type} (l : List α) (s : σ) (f g : α → σ → Except String (ForInStep σ))
    (h : ∀ a s, f a s = g a s) : forIn l s f = forIn l s g := by
  have : f = g := by funext a s; exact h a s
  rw [this]

theorem set12 {β : Type} (t b1 b2 b3 b4 b5 b6 b7 b8 b9 b10 b11 : BitVec 8) (K : Bytes → Except String β) :
    ((Go.set (List.replicate 12 0#8) 0 t).bind fun h =>
      (Go.set h 1 b1).bind fun h =>
      (Go.set h 2 b2).bind fun h =>
      (Go.set h 3 b3).bind fun h =>
      (Go.set h 4 b4).bind fun h =>
      (Go.set h 5 b5).bind fun h =>
      (Go.set h 6 b6).bind fun h =>
      (Go.set h 7 b7).bind fun h =>
      (Go.set h 8 b8).bind fun h =>
      (Go.set h 9 b9).bind fun h =>
      (Go.set h 10 b10).bind fun h =>
      (Go.set h 11 b11).bind fun h =>
      (Go.slice h 0 (h.length : Int)).bind K)
    = K [t, b1, b2, b3, b4, b5, b6, b7, b8, b9, b10, b11] := by
  rfl

/-- **shape**, unconditional: in the fragmenting branch the translated function is its loop over `stepE` -/
theorem src_frag_shape (c : Conn) (msg : goMsg) (tr : goTranscript)
    (hf : msg.fails = false) (h1 : ¬ (msg.data.length : Int) ≤ maxPayload c) (h2 : 12 < msg.data.length)
    (h3 : 12 < maxPayload c) :
    Conn.writeHandshakeRecord c msg tr =
      (forIn (List.range (msg.data.length + 1)) ((none, c, 0, 0#32) : St) (fun _ s => stepE (parOf c msg tr) s)).bind
        (finish (parOf c msg tr)) := by
  unfold Conn.writeHandshakeRecord
  simp only [goMsg.marshal, goTranscript.Write, Id.run, hf, pure, Except.pure, bind, ok_bind, src_maxPayload,
    Bool.false_eq_true, if_false, if_true, Option.isSome_none]
  have hs1 : Go.slice msg.data 0 12 = .ok (msg.data.take 12) := by
    rw [slice_ok msg.data 0 12 (by omega) (by omega) 0 12 rfl rfl]; rfl
  have hs2 : Go.slice msg.data 12 (msg.data.length : Int) = .ok (msg.data.drop 12) := by
    rw [slice_ok msg.data 12 msg.data.length (by omega) (by omega) 12 _ rfl rfl]
    rw [List.take_of_length_le (by simp)]
  have hg (i : Nat) (hi : i < 12) : (msg.data.take 12).getD i 0#8 = msg.data.getD i 0#8 := by
    simp only [List.getD_eq_getElem?_getD, List.getElem?_take, hi, if_true]
  have hl : (msg.data.take 12).length = 12 := by rw [List.length_take]; omega
  have hi0 : Go.idx (msg.data.take 12) 0 = .ok (msg.data.getD 0 0#8) := by
    rw [idx_ok _ 0 (by omega) 0 rfl, hg 0 (by omega)]
  have hi4 : Go.idx (msg.data.take 12) 4 = .ok (msg.data.getD 4 0#8) := by
    rw [idx_ok _ 4 (by omega) 4 rfl, hg 4 (by omega)]
  have hi5 : Go.idx (msg.data.take 12) 5 = .ok (msg.data.getD 5 0#8) := by
    rw [idx_ok _ 5 (by omega) 5 rfl, hg 5 (by omega)]
  have c1 : ¬ (msg.data.length : Int) ≤ 12 := by omega
  have c2 : ¬ maxPayload c - 12 ≤ 0 := by omega
  simp only [h1, c1, c2, decide_false, Bool.false_eq_true, if_false, hs1, hs2, ok_bind, hi0, hi4, hi5, set12]
  have e1 : ((msg.data.length : Int) + 1).toNat = msg.data.length + 1 := by omega
  have e2 : ((List.drop 12 msg.data).length : Int) = ((msg.data.length - 12 : Nat) : Int) := by
    rw [List.length_drop]
  rw [e1]
  simp only [e2]
  refine congr (congrArg Except.bind ?_) ?_
  · apply forIn_ext
    intro a s
    simp only [stepE, parOf, hdr, be3, List.cons_append, List.nil_append]
    by_cases hlt : s.2.2.2 < BitVec.ofInt 32 ((msg.data.length - 12 : Nat) : Int)
    · by_cases hgt : s.2.2.2 + BitVec.ofInt 32 (maxPayload c - 12) > BitVec.ofInt 32 ((msg.data.length - 12 : Nat) : Int)
      · simp only [hlt, hgt, decide_true, Bool.not_true, Bool.false_eq_true, if_true, if_false, not_true_eq_false]
      · simp only [hlt, hgt, decide_true, decide_false, Bool.not_true, Bool.false_eq_true, if_true, if_false,
          not_true_eq_false]
    · simp only [hlt, decide_false, Bool.not_false, if_true, not_false_eq_true]
  · funext s
    simp only [finish, parOf]
    cases s.1 with
    | some r => rfl
    | none =>
      by_cases hlt : s.2.2.2 < BitVec.ofInt 32 ((msg.data.length - 12 : Nat) : Int)
      · simp only [hlt, decide_true, if_true]; rfl
      · simp only [hlt, decide_false, Bool.false_eq_true, if_false]


/-! ## the loop for every body: the list of fragments, sent until a write fails -/

/-- one fragment record: the 12-byte header (message type, total length, message_seq, offset, length — three
bytes each for the numbers) and the `len` bytes of the body from `off` on -/
def fragRec (t : BitVec 8) (seq : BitVec 16) (body : Bytes) (off len : Nat) : Bytes :=
  hdr t (BitVec.ofNat 32 body.length) seq (BitVec.ofNat 32 off) (BitVec.ofNat 32 len) ++ (body.drop off).take len

/-- the fragments from offset `off` on (at most `fuel` of them), fragment bodies of at most `m` bytes -/
def fragsFrom (t : BitVec 8) (seq : BitVec 16) (body : Bytes) (m : Nat) : (fuel off : Nat) → List Bytes
  | 0, _ => []
  | fuel + 1, off =>
    if off < body.length then
      fragRec t seq body off (min m (body.length - off))
        :: fragsFrom t seq body m fuel (off + min m (body.length - off))
    else []

/-- hand the records to `writeRecordLocked` one after the other until one fails; `n` accumulates the
returned counts -/
def sendAll (c : Conn) (n : Int) : List Bytes → Conn × Int × Option Go.Error
  | [] => (c, n, none)
  | r :: rs =>
    if (Conn.writeRecordLocked c 22#8 r).2.2.isSome then
      ((Conn.writeRecordLocked c 22#8 r).1, n + (Conn.writeRecordLocked c 22#8 r).2.1,
        (Conn.writeRecordLocked c 22#8 r).2.2)
    else sendAll (Conn.writeRecordLocked c 22#8 r).1 (n + (Conn.writeRecordLocked c 22#8 r).2.1) rs

def mkSt (P : Par) (r : Conn × Int × Option Go.Error) (o : BitVec 32) : St :=
  (if r.2.2.isSome then some (r.1, P.tr, r.2.1, r.2.2) else none, r.1, r.2.1, o)

theorem bv_lt (x y : BitVec 32) : x < y ↔ x.toNat < y.toNat := BitVec.lt_def

/-- one iteration below the end of the body -/
theorem stepE_lt (P : Par) (m : Nat) (hm : P.mfb = (m : Int)) (hm1 : 1 ≤ m)
    (hbl : P.bodyLen = BitVec.ofNat 32 P.body.length) (hL : P.body.length < 2 ^ 32)
    (r : Option Ret) (c : Conn) (n : Int) (off : Nat) (hoff : off < P.body.length) (hno : off + m < 2 ^ 32) :
    stepE P (r, c, n, BitVec.ofNat 32 off) =
      if (Conn.writeRecordLocked c 22#8 (fragRec P.typ P.seq P.body off (min m (P.body.length - off)))).2.2.isSome then
        .ok (.done (some ((Conn.writeRecordLocked c 22#8 (fragRec P.typ P.seq P.body off (min m (P.body.length - off)))).1, P.tr,
          n + (Conn.writeRecordLocked c 22#8 (fragRec P.typ P.seq P.body off (min m (P.body.length - off)))).2.1,
          (Conn.writeRecordLocked c 22#8 (fragRec P.typ P.seq P.body off (min m (P.body.length - off)))).2.2),
          (Conn.writeRecordLocked c 22#8 (fragRec P.typ P.seq P.body off (min m (P.body.length - off)))).1,
          n + (Conn.writeRecordLocked c 22#8 (fragRec P.typ P.seq P.body off (min m (P.body.length - off)))).2.1,
          BitVec.ofNat 32 off))
      else
        .ok (.yield (none, (Conn.writeRecordLocked c 22#8 (fragRec P.typ P.seq P.body off (min m (P.body.length - off)))).1,
          n + (Conn.writeRecordLocked c 22#8 (fragRec P.typ P.seq P.body off (min m (P.body.length - off)))).2.1,
          BitVec.ofNat 32 (off + min m (P.body.length - off)))) := by
  have t1 : (BitVec.ofNat 32 off).toNat = off := by rw [BitVec.toNat_ofNat]; exact Nat.mod_eq_of_lt (by omega)
  have t2 : (BitVec.ofNat 32 P.body.length).toNat = P.body.length := by
    rw [BitVec.toNat_ofNat]; exact Nat.mod_eq_of_lt hL
  have t3 : (BitVec.ofInt 32 (m : Int)) = BitVec.ofNat 32 m := by rw [BitVec.ofInt_natCast]
  have t4 : (BitVec.ofNat 32 off + BitVec.ofNat 32 m) = BitVec.ofNat 32 (off + m) := by
    rw [BitVec.ofNat_add]
  have t5 : (BitVec.ofNat 32 (off + m)).toNat = off + m := by
    rw [BitVec.toNat_ofNat]; exact Nat.mod_eq_of_lt (by omega)
  have hlt : BitVec.ofNat 32 off < P.bodyLen := by rw [hbl, bv_lt, t1, t2]; exact hoff
  have hfe : (if BitVec.ofNat 32 off + BitVec.ofInt 32 P.mfb > P.bodyLen then P.bodyLen
      else BitVec.ofNat 32 off + BitVec.ofInt 32 P.mfb) = BitVec.ofNat 32 (off + min m (P.body.length - off)) := by
    rw [hm, t3, t4, hbl]
    by_cases hg : BitVec.ofNat 32 (off + m) > BitVec.ofNat 32 P.body.length
    · rw [if_pos hg]
      have : P.body.length < off + m := by
        have := (bv_lt _ _).mp hg; rw [t2, t5] at this; exact this
      congr 1; omega
    · rw [if_neg hg]
      have : ¬ P.body.length < off + m := by
        intro h; apply hg; show BitVec.ofNat 32 P.body.length < _; rw [bv_lt, t2, t5]; exact h
      congr 1; omega
  have t6 : (BitVec.ofNat 32 (off + min m (P.body.length - off))).toNat = off + min m (P.body.length - off) := by
    rw [BitVec.toNat_ofNat]; exact Nat.mod_eq_of_lt (by omega)
  have hsub : BitVec.ofNat 32 (off + min m (P.body.length - off)) - BitVec.ofNat 32 off
      = BitVec.ofNat 32 (min m (P.body.length - off)) := by
    rw [BitVec.ofNat_add, BitVec.add_comm, BitVec.add_sub_cancel]
  unfold stepE
  simp only [hlt, not_true_eq_false, if_false, hfe, t1, t6, hsub]
  rw [slice_ok P.body off (off + min m (P.body.length - off)) (by omega) (by omega) _ _ rfl rfl]
  simp only [Except.bind, Nat.add_sub_cancel_left, fragRec, hbl]
  rfl


theorem stepE_ge (P : Par) (r : Option Ret) (c : Conn) (n : Int) (o : BitVec 32) (h : ¬ o < P.bodyLen) :
    stepE P (r, c, n, o) = .ok (.done (none, c, n, o)) := by
  unfold stepE
  simp only [h, not_false_eq_true, if_true]

/-- **the loop**: with enough iterations left it sends `fragsFrom …` until a write fails, and when no
write failed it ends at (or beyond) the end of the body — so the fuel check after it passes -/
theorem loop_eq (P : Par) (m : Nat) (hm : P.mfb = (m : Int)) (hm1 : 1 ≤ m)
    (hbl : P.bodyLen = BitVec.ofNat 32 P.body.length) (hno : P.body.length + m ≤ 2 ^ 32) :
    ∀ (fuel a off : Nat) (c : Conn) (n : Int), off ≤ P.body.length → P.body.length - off < fuel →
      ∃ o', forIn (List.range' a fuel) ((none, c, n, BitVec.ofNat 32 off) : St) (fun _ s => stepE P s)
            = .ok (mkSt P (sendAll c n (fragsFrom P.typ P.seq P.body m fuel off)) o') ∧
          ((sendAll c n (fragsFrom P.typ P.seq P.body m fuel off)).2.2 = none → ¬ o' < P.bodyLen) := by
  intro fuel
  induction fuel with
  | zero => intro a off c n h1 h2; omega
  | succ k ih =>
    intro a off c n h1 h2
    rw [List.range'_succ, List.forIn_cons]
    by_cases hlt : off < P.body.length
    · rw [stepE_lt P m hm hm1 hbl (by omega) none c n off hlt (by omega)]
      simp only [fragsFrom, hlt, if_true, sendAll]
      by_cases hw : (Conn.writeRecordLocked c 22#8 (fragRec P.typ P.seq P.body off (min m (P.body.length - off)))).2.2.isSome = true
      · simp only [hw, if_true]
        refine ⟨BitVec.ofNat 32 off, ?_, ?_⟩
        · simp only [mkSt, hw, if_true]; rfl
        · intro hn; rw [hn] at hw; simp at hw
      · simp only [hw, Bool.false_eq_true, if_false]
        obtain ⟨o', e, hn⟩ := ih (a + 1) (off + min m (P.body.length - off))
          (Conn.writeRecordLocked c 22#8 (fragRec P.typ P.seq P.body off (min m (P.body.length - off)))).1
          (n + (Conn.writeRecordLocked c 22#8 (fragRec P.typ P.seq P.body off (min m (P.body.length - off)))).2.1)
          (by omega) (by omega)
        refine ⟨o', ?_, hn⟩
        simp only [bind, Except.bind]
        exact e
    · have hL : P.body.length < 2 ^ 32 := by omega
      have hge : ¬ BitVec.ofNat 32 off < P.bodyLen := by
        rw [hbl, bv_lt]
        have : off = P.body.length := by omega
        rw [this]; omega
      rw [stepE_ge P none c n _ hge]
      simp only [fragsFrom, hlt, if_false, sendAll]
      exact ⟨BitVec.ofNat 32 off, rfl, fun _ => hge⟩

/-! ## closed form of `sendAll`: the records before the failing write -/

/-- how many of `k` consecutive calls of `writeRecordLocked` succeed on `c`: all of them, unless the failing call
`writeErrAt` (counted from the first record ever sent) is among them -/
def okWrites (c : Conn) (k : Nat) : Nat :=
  if (c.sent.length : Int) ≤ c.writeErrAt ∧ c.writeErrAt < (c.sent.length : Int) + (k : Int)
  then (c.writeErrAt - (c.sent.length : Int)).toNat else k

def sumLen (l : List Bytes) : Int := (l.map fun r => (r.length : Int)).sum

theorem okWrites_le (c : Conn) (k : Nat) : okWrites c k ≤ k := by
  unfold okWrites; split <;> omega

theorem writeRecordLocked_eq (c : Conn) (typ : BitVec 8) (r : Bytes) :
    Conn.writeRecordLocked c typ r =
      if c.writeErrAt = (c.sent.length : Int) then (c, 0, some Go.Error.other)
      else ({ c with sent := c.sent ++ [r] }, (r.length : Int), none) := by
  unfold Conn.writeRecordLocked
  by_cases he : c.writeErrAt = (c.sent.length : Int)
  · simp only [he, beq_self_eq_true, if_true]; rfl
  · have : (c.writeErrAt == (c.sent.length : Int)) = false := by simp [he]
    simp only [this, he, Bool.false_eq_true, if_false]; rfl

theorem sendAll_eq (l : List Bytes) : ∀ (c : Conn) (n : Int),
    sendAll c n l = ({ c with sent := c.sent ++ l.take (okWrites c l.length) },
      n + sumLen (l.take (okWrites c l.length)),
      if okWrites c l.length < l.length then some Go.Error.other else none) := by
  induction l with
  | nil => intro c n; simp [sendAll, okWrites, sumLen]
  | cons r rs ih =>
    intro c n
    by_cases he : c.writeErrAt = (c.sent.length : Int)
    · have hk : okWrites c (rs.length + 1) = 0 := by
        unfold okWrites; rw [if_pos (by omega)]; omega
      simp [sendAll, writeRecordLocked_eq, he, hk, sumLen]
      rw [← he]
    · have hk : okWrites c (rs.length + 1) = okWrites { c with sent := c.sent ++ [r] } rs.length + 1 := by
        unfold okWrites
        simp only [List.length_append, List.length_cons, List.length_nil]
        split <;> split <;> omega
      simp only [sendAll, writeRecordLocked_eq, he, if_false, Option.isSome_none, Bool.false_eq_true, ih, hk,
        List.take_succ_cons, List.length_cons, Nat.add_lt_add_iff_right]
      simp [sumLen, Int.add_assoc]


/-! ## the whole function -/

/-- `message_seq` as the function reads it from bytes 4 and 5 of the marshalled message -/
def seqOf (data : Bytes) : BitVec 16 :=
  (BitVec.setWidth 16 (data.getD 4 0#8) <<< 8) ||| BitVec.setWidth 16 (data.getD 5 0#8)

/-- the records `writeHandshakeRecord` hands to the record layer for the marshalled message `data` when the
maximum payload is `mp` — `none`: it refuses (message or payload not longer than the 12-byte header) -/
def txPlan (mp : Int) (data : Bytes) : Option (List Bytes) :=
  if (data.length : Int) ≤ mp then some [data]
  else if data.length ≤ 12 ∨ mp ≤ 12 then none
  else some (fragsFrom (data.getD 0 0#8) (seqOf data) (data.drop 12) (mp - 12).toNat (data.length + 1) 0)

/-- the result of `writeHandshakeRecord`, as a total function -/
def txSpec (c : Conn) (msg : goMsg) (tr : goTranscript) : Ret :=
  if msg.fails then (c, tr, 0, some Go.Error.other)
  else
    match txPlan (maxPayload c) msg.data with
    | none => (c, { tr with written := tr.written ++ msg.data }, 0, some Go.Error.other)
    | some l => ((sendAll c 0 l).1, { tr with written := tr.written ++ msg.data }, (sendAll c 0 l).2.1, (sendAll c 0 l).2.2)

/-- **The translated `writeHandshakeRecord` is `txSpec`** — for every view of the connection (any PMTU, any
cipher sizes, any record list already sent, any failing write), every message of at most `2^32 − 16384` bytes,
every transcript.  In particular it returns `Except.ok`: no index or slice bound is violated and the loop
bound `len(data)+1` is never exhausted. -/
theorem src_eq (c : Conn) (msg : goMsg) (tr : goTranscript) (hlen : msg.data.length ≤ 2 ^ 32 - 16384) :
    Conn.writeHandshakeRecord c msg tr = .ok (txSpec c msg tr) := by
  have hr := maxPayload_range c
  by_cases hf : msg.fails = true
  · unfold Conn.writeHandshakeRecord txSpec
    simp only [goMsg.marshal, Id.run, hf, pure, Except.pure, if_true, Option.isSome_some]
  have hf' : msg.fails = false := by simpa using hf
  by_cases h1 : (msg.data.length : Int) ≤ maxPayload c
  · unfold Conn.writeHandshakeRecord txSpec txPlan
    simp only [goMsg.marshal, goTranscript.Write, Id.run, hf', pure, Except.pure, bind, ok_bind, src_maxPayload,
      Bool.false_eq_true, if_false, if_true, Option.isSome_none, h1, decide_true, sendAll]
    by_cases hw : (Conn.writeRecordLocked c 22#8 msg.data).2.2.isSome = true
    · simp only [hw, if_true, Int.zero_add]
    · simp only [hw, Bool.false_eq_true, if_false, Int.zero_add]
      have : (Conn.writeRecordLocked c 22#8 msg.data).2.2 = none := by
        cases h : (Conn.writeRecordLocked c 22#8 msg.data).2.2 with
        | none => rfl
        | some e => rw [h] at hw; simp at hw
      rw [this]
  by_cases h2 : msg.data.length ≤ 12
  · unfold Conn.writeHandshakeRecord txSpec txPlan
    have c1 : (msg.data.length : Int) ≤ 12 := by omega
    simp only [goMsg.marshal, goTranscript.Write, Id.run, hf', pure, Except.pure, bind, ok_bind, src_maxPayload,
      Bool.false_eq_true, if_false, if_true, Option.isSome_none, h1, h2, c1, decide_true, decide_false, true_or]
  by_cases h3 : maxPayload c ≤ 12
  · unfold Conn.writeHandshakeRecord txSpec txPlan
    have c1 : ¬ (msg.data.length : Int) ≤ 12 := by omega
    have c2 : maxPayload c - 12 ≤ 0 := by omega
    have hs1 : Go.slice msg.data 0 12 = .ok (msg.data.take 12) := by
      rw [slice_ok msg.data 0 12 (by omega) (by omega) 0 12 rfl rfl]; rfl
    have hs2 : Go.slice msg.data 12 (msg.data.length : Int) = .ok (msg.data.drop 12) := by
      rw [slice_ok msg.data 12 msg.data.length (by omega) (by omega) 12 _ rfl rfl]
      rw [List.take_of_length_le (by simp)]
    have hl : (msg.data.take 12).length = 12 := by rw [List.length_take]; omega
    have hi4 : Go.idx (msg.data.take 12) 4 = .ok ((msg.data.take 12).getD 4 0#8) := idx_ok _ 4 (by omega) 4 rfl
    have hi5 : Go.idx (msg.data.take 12) 5 = .ok ((msg.data.take 12).getD 5 0#8) := idx_ok _ 5 (by omega) 5 rfl
    simp only [goMsg.marshal, goTranscript.Write, Id.run, hf', pure, Except.pure, bind, ok_bind, src_maxPayload,
      Bool.false_eq_true, if_false, if_true, Option.isSome_none, h1, h2, h3, c1, c2, decide_true, decide_false,
      or_true, false_or, hs1, hs2, hi4, hi5]
  -- the fragmenting branch
  rw [src_frag_shape c msg tr hf' h1 (by omega) (by omega)]
  obtain ⟨m, hm⟩ : ∃ m : Nat, maxPayload c - 12 = (m : Int) := ⟨(maxPayload c - 12).toNat, by omega⟩
  have hbody : (parOf c msg tr).body.length = msg.data.length - 12 := by simp only [parOf, List.length_drop]
  obtain ⟨o', e, hn⟩ := loop_eq (parOf c msg tr) m hm (by omega)
    (by rw [hbody]; simp only [parOf, BitVec.ofInt_natCast]) (by rw [hbody]; omega)
    (msg.data.length + 1) 0 0 c 0 (by omega) (by rw [hbody]; omega)
  rw [List.range_eq_range']
  have e0 : (BitVec.ofNat 32 0) = 0#32 := rfl
  rw [e0] at e
  rw [e, ok_bind]
  have hplan : txPlan (maxPayload c) msg.data
      = some (fragsFrom (parOf c msg tr).typ (parOf c msg tr).seq (parOf c msg tr).body m (msg.data.length + 1) 0) := by
    unfold txPlan
    have c3 : ¬ (msg.data.length ≤ 12 ∨ maxPayload c ≤ 12) := by omega
    simp only [h1, c3, if_false, hm, Int.toNat_natCast]
    rfl
  unfold txSpec
  simp only [hf', Bool.false_eq_true, if_false, hplan]
  generalize sendAll c 0 (fragsFrom (parOf c msg tr).typ (parOf c msg tr).seq (parOf c msg tr).body m (msg.data.length + 1) 0) = r at hn
  unfold finish mkSt
  cases hr2 : r.2.2 with
  | some err => simp only [Option.isSome_some, if_true]; rfl
  | none =>
    have := hn hr2
    simp only [Option.isSome_none, Bool.false_eq_true, if_false, this]
    rfl

/-! ## the fragment list -/

theorem hdr_length (t : BitVec 8) (total : BitVec 32) (seq : BitVec 16) (off len : BitVec 32) :
    (hdr t total seq off len).length = 12 := rfl

theorem fragRec_length (t : BitVec 8) (seq : BitVec 16) (body : Bytes) (off len : Nat) (h : off + len ≤ body.length) :
    (fragRec t seq body off len).length = 12 + len := by
  unfold fragRec
  rw [List.length_append, hdr_length, List.length_take, List.length_drop]
  omega

theorem fragRec_drop (t : BitVec 8) (seq : BitVec 16) (body : Bytes) (off len : Nat) :
    (fragRec t seq body off len).drop 12 = (body.drop off).take len := by
  unfold fragRec
  rw [List.drop_append_of_le_length (by rw [hdr_length]; omega), List.drop_of_length_le (by rw [hdr_length]; omega)]
  rfl

theorem fragRec_take (t : BitVec 8) (seq : BitVec 16) (body : Bytes) (off len : Nat) :
    (fragRec t seq body off len).take 12 =
      hdr t (BitVec.ofNat 32 body.length) seq (BitVec.ofNat 32 off) (BitVec.ofNat 32 len) := by
  unfold fragRec
  rw [List.take_append_of_le_length (by rw [hdr_length]; omega), List.take_of_length_le (by rw [hdr_length]; omega)]

theorem fragsFrom_done (t : BitVec 8) (seq : BitVec 16) (body : Bytes) (m fuel off : Nat) (h : body.length ≤ off) :
    fragsFrom t seq body m fuel off = [] := by
  cases fuel with
  | zero => rfl
  | succ k => unfold fragsFrom; rw [if_neg (by omega)]

/-- every element of the list is a fragment record with `1 ≤ len ≤ m`, `len = min m (|body| − off)`, inside the body -/
theorem fragsFrom_mem (t : BitVec 8) (seq : BitVec 16) (body : Bytes) (m : Nat) (hm : 1 ≤ m) :
    ∀ (fuel off : Nat) (r : Bytes), r ∈ fragsFrom t seq body m fuel off →
      ∃ o, r = fragRec t seq body o (min m (body.length - o)) ∧ off ≤ o ∧ o < body.length := by
  intro fuel
  induction fuel with
  | zero => intro off r h; simp [fragsFrom] at h
  | succ k ih =>
    intro off r h
    unfold fragsFrom at h
    by_cases hlt : off < body.length
    · rw [if_pos hlt] at h
      rcases List.mem_cons.mp h with h | h
      · exact ⟨off, h, Nat.le_refl _, hlt⟩
      · obtain ⟨o, e, h1, h2⟩ := ih _ r h
        exact ⟨o, e, by omega, h2⟩
    · rw [if_neg hlt] at h; simp at h

/-- the fragment bodies, in order, are the body from `off` on: no gap, no overlap, nothing beyond the end -/
theorem fragsFrom_concat (t : BitVec 8) (seq : BitVec 16) (body : Bytes) (m : Nat) (hm : 1 ≤ m) :
    ∀ (fuel off : Nat), body.length - off < fuel →
      (fragsFrom t seq body m fuel off).flatMap (fun r => r.drop 12) = body.drop off := by
  intro fuel
  induction fuel with
  | zero => intro off h; omega
  | succ k ih =>
    intro off h
    unfold fragsFrom
    by_cases hlt : off < body.length
    · rw [if_pos hlt, List.flatMap_cons, fragRec_drop, ih _ (by omega), ← List.drop_drop, List.take_append_drop]
    · rw [if_neg hlt, List.drop_of_length_le (by omega)]; rfl

/-- every byte index of the body lies in exactly the fragment that starts at or before it -/
theorem fragsFrom_cover (t : BitVec 8) (seq : BitVec 16) (body : Bytes) (m : Nat) (hm : 1 ≤ m) :
    ∀ (fuel off : Nat), body.length - off < fuel → ∀ i, off ≤ i → i < body.length →
      ∃ o, fragRec t seq body o (min m (body.length - o)) ∈ fragsFrom t seq body m fuel off ∧
        o ≤ i ∧ i < o + min m (body.length - o) := by
  intro fuel
  induction fuel with
  | zero => intro off h; omega
  | succ k ih =>
    intro off h i h1 h2
    unfold fragsFrom
    rw [if_pos (by omega)]
    by_cases hin : i < off + min m (body.length - off)
    · exact ⟨off, List.mem_cons_self, h1, hin⟩
    · obtain ⟨o, hmem, ho⟩ := ih (off + min m (body.length - off)) (by omega) i (by omega) h2
      exact ⟨o, List.mem_cons_of_mem _ hmem, ho⟩

/-- **closed form**: fragment `i` starts at `i·m` and carries `min m (|body| − i·m)` bytes; there are
`⌈|body| / m⌉` fragments -/
def fragments (t : BitVec 8) (seq : BitVec 16) (body : Bytes) (m : Nat) : List Bytes :=
  (List.range ((body.length + m - 1) / m)).map fun i =>
    fragRec t seq body (i * m) (min m (body.length - i * m))

theorem fragsFrom_range (t : BitVec 8) (seq : BitVec 16) (body : Bytes) (m : Nat) (hm : 1 ≤ m) :
    ∀ (fuel k : Nat), body.length - k * m < fuel → k ≤ (body.length + m - 1) / m →
      fragsFrom t seq body m fuel (k * m) =
        (List.range' k ((body.length + m - 1) / m - k)).map fun i =>
          fragRec t seq body (i * m) (min m (body.length - i * m)) := by
  intro fuel
  induction fuel with
  | zero => intro k h; omega
  | succ f ih =>
    intro k h hk
    have hcnt : ∀ j, j < (body.length + m - 1) / m ↔ j * m < body.length := by
      intro j
      rw [Nat.lt_iff_add_one_le, Nat.le_div_iff_mul_le (by omega), Nat.add_mul]
      omega
    unfold fragsFrom
    by_cases hlt : k * m < body.length
    · have hk1 : k < (body.length + m - 1) / m := (hcnt k).mpr hlt
      rw [if_pos hlt]
      have e : (body.length + m - 1) / m - k = ((body.length + m - 1) / m - (k + 1)) + 1 := by omega
      rw [e, List.range'_succ, List.map_cons]
      congr 1
      by_cases hfull : m ≤ body.length - k * m
      · have e2 : k * m + min m (body.length - k * m) = (k + 1) * m := by
          rw [Nat.min_eq_left hfull, Nat.add_mul]; omega
        rw [e2]
        exact ih (k + 1) (by rw [Nat.add_mul]; omega) (by omega)
      · have e2 : k * m + min m (body.length - k * m) = body.length := by
          rw [Nat.min_eq_right (by omega)]; omega
        rw [e2, fragsFrom_done _ _ _ _ _ _ (Nat.le_refl _)]
        have : ¬ (k + 1) < (body.length + m - 1) / m := by
          rw [hcnt, Nat.add_mul]; omega
        have e3 : (body.length + m - 1) / m - (k + 1) = 0 := by omega
        rw [e3]; rfl
    · rw [if_neg hlt]
      have : ¬ k < (body.length + m - 1) / m := by rw [hcnt]; exact hlt
      have e3 : (body.length + m - 1) / m - k = 0 := by omega
      rw [e3]; rfl

theorem fragsFrom_eq_fragments (t : BitVec 8) (seq : BitVec 16) (body : Bytes) (m : Nat) (hm : 1 ≤ m)
    (fuel : Nat) (h : body.length < fuel) :
    fragsFrom t seq body m fuel 0 = fragments t seq body m := by
  have := fragsFrom_range t seq body m hm fuel 0 (by omega) (Nat.zero_le _)
  rw [Nat.zero_mul] at this
  rw [this, fragments, List.range_eq_range']
  rfl


/-! ## the plan and the result -/

theorem txPlan_single (mp : Int) (data : Bytes) (h : (data.length : Int) ≤ mp) : txPlan mp data = some [data] := by
  unfold txPlan; rw [if_pos h]

theorem txPlan_refuse (mp : Int) (data : Bytes) (h : ¬ (data.length : Int) ≤ mp) (h2 : data.length ≤ 12 ∨ mp ≤ 12) :
    txPlan mp data = none := by
  unfold txPlan; rw [if_neg h, if_pos h2]

/-- in the fragmenting branch the plan is the closed-form fragment list with fragment bodies of `mp − 12` bytes -/
theorem txPlan_frag (mp : Int) (data : Bytes) (h : ¬ (data.length : Int) ≤ mp) (h2 : 12 < data.length) (h3 : 12 < mp) :
    txPlan mp data = some (fragments (data.getD 0 0#8) (seqOf data) (data.drop 12) (mp - 12).toNat) := by
  unfold txPlan
  rw [if_neg h, if_neg (by omega)]
  rw [fragsFrom_eq_fragments _ _ _ _ (by omega) _ (by rw [List.length_drop]; omega)]

/-- every planned record respects the maximum payload -/
theorem txPlan_fits (mp : Int) (data : Bytes) (l : List Bytes) (h : txPlan mp data = some l) :
    ∀ r ∈ l, (r.length : Int) ≤ mp := by
  unfold txPlan at h
  by_cases h1 : (data.length : Int) ≤ mp
  · rw [if_pos h1] at h
    injection h with h; subst h
    intro r hr; simp at hr; subst hr; exact h1
  · rw [if_neg h1] at h
    by_cases h2 : data.length ≤ 12 ∨ mp ≤ 12
    · rw [if_pos h2] at h; cases h
    · rw [if_neg h2] at h
      injection h with h; subst h
      intro r hr
      obtain ⟨o, e, _, ho⟩ := fragsFrom_mem _ _ _ _ (by omega) _ _ r hr
      rw [e, fragRec_length _ _ _ _ _ (by omega)]
      omega

/-- the planned records are never empty lists of records, and never empty records -/
theorem txPlan_nonempty (mp : Int) (data : Bytes) (l : List Bytes) (h : txPlan mp data = some l) (hd : 0 < data.length) :
    ∀ r ∈ l, 0 < r.length := by
  unfold txPlan at h
  by_cases h1 : (data.length : Int) ≤ mp
  · rw [if_pos h1] at h
    injection h with h; subst h
    intro r hr; simp at hr; subst hr; exact hd
  · rw [if_neg h1] at h
    by_cases h2 : data.length ≤ 12 ∨ mp ≤ 12
    · rw [if_pos h2] at h; cases h
    · rw [if_neg h2] at h
      injection h with h; subst h
      intro r hr
      obtain ⟨o, e, _, ho⟩ := fragsFrom_mem _ _ _ _ (by omega) _ _ r hr
      rw [e, fragRec_length _ _ _ _ _ (by omega)]
      omega

theorem src_marshal_fails (c : Conn) (msg : goMsg) (tr : goTranscript) (hf : msg.fails = true) :
    Conn.writeHandshakeRecord c msg tr = .ok (c, tr, 0, some Go.Error.other) := by
  unfold Conn.writeHandshakeRecord
  simp only [goMsg.marshal, Id.run, hf, pure, Except.pure, if_true, Option.isSome_some]

/-- the result when the function sends: the planned records up to the failing write -/
theorem src_sends (c : Conn) (msg : goMsg) (tr : goTranscript) (hlen : msg.data.length ≤ 2 ^ 32 - 16384)
    (hf : msg.fails = false) (l : List Bytes) (hp : txPlan (maxPayload c) msg.data = some l) :
    Conn.writeHandshakeRecord c msg tr = .ok
      ({ c with sent := c.sent ++ l.take (okWrites c l.length) },
       { tr with written := tr.written ++ msg.data },
       sumLen (l.take (okWrites c l.length)),
       if okWrites c l.length < l.length then some Go.Error.other else none) := by
  rw [src_eq c msg tr hlen]
  unfold txSpec
  simp only [hf, Bool.false_eq_true, if_false, hp, sendAll_eq, Int.zero_add]

/-- the result when it refuses: an error, nothing sent, the transcript already written -/
theorem src_refuses (c : Conn) (msg : goMsg) (tr : goTranscript) (hlen : msg.data.length ≤ 2 ^ 32 - 16384)
    (hf : msg.fails = false) (hp : txPlan (maxPayload c) msg.data = none) :
    Conn.writeHandshakeRecord c msg tr = .ok
      (c, { tr with written := tr.written ++ msg.data }, 0, some Go.Error.other) := by
  rw [src_eq c msg tr hlen]
  unfold txSpec
  simp only [hf, Bool.false_eq_true, if_false, hp]

/-! ## beyond the bound: `offset + uint24(maxFragBody)` wraps

`uint24` is `uint32` in this package.  With a body of `2^32 − 1` bytes and the largest maximum payload (16384, so
fragment bodies of 16372 bytes) the loop runs 262336 iterations without incident; in the next one
`offset + 16372` wraps around to a value below `offset`, `fragEnd > bodyLen` is false, and
`body[offset:fragEnd]` panics with inverted bounds.  (Such a message is four gigabytes long; the handshake
messages of this package are bounded by 2^24.) -/

theorem stepE_wraps (P : Par) (m : Nat) (hm : P.mfb = (m : Int)) (hm2 : m < 2 ^ 32)
    (hbl : P.bodyLen = BitVec.ofNat 32 P.body.length) (hL : P.body.length < 2 ^ 32)
    (r : Option Ret) (c : Conn) (n : Int) (off : Nat) (hoff : off < P.body.length) (hw : 2 ^ 32 ≤ off + m) :
    stepE P (r, c, n, BitVec.ofNat 32 off) = .error "slice bounds out of range" := by
  have t1 : (BitVec.ofNat 32 off).toNat = off := by rw [BitVec.toNat_ofNat]; exact Nat.mod_eq_of_lt (by omega)
  have t2 : (BitVec.ofNat 32 P.body.length).toNat = P.body.length := by
    rw [BitVec.toNat_ofNat]; exact Nat.mod_eq_of_lt hL
  have t3 : (BitVec.ofInt 32 (m : Int)) = BitVec.ofNat 32 m := by rw [BitVec.ofInt_natCast]
  have t5 : (BitVec.ofNat 32 off + BitVec.ofNat 32 m).toNat = off + m - 2 ^ 32 := by
    rw [BitVec.toNat_add, BitVec.toNat_ofNat, BitVec.toNat_ofNat, Nat.mod_eq_of_lt (by omega : off < 2 ^ 32),
      Nat.mod_eq_of_lt hm2]
    omega
  have hlt : BitVec.ofNat 32 off < P.bodyLen := by rw [hbl, bv_lt, t1, t2]; exact hoff
  have hng : ¬ (BitVec.ofNat 32 off + BitVec.ofNat 32 m > BitVec.ofNat 32 P.body.length) := by
    rw [gt_iff_lt, bv_lt, t2, t5]; omega
  unfold stepE
  simp only [hlt, not_true_eq_false, if_false]
  simp only [hm, t3, hbl, hng, if_false, t1, t5]
  unfold Go.slice
  rw [if_pos (by omega)]
  rfl

/-- **The bound is real.** A view with maximum payload 16384 whose writes never fail, a message of
`2^32 + 11` bytes (whatever they are): the translated function returns the error that stands for the Go
panic `slice bounds out of range`. -/
theorem src_wraps_beyond_bound (c : Conn) (msg : goMsg) (tr : goTranscript) (hf : msg.fails = false)
    (hmp : maxPayload c = 16384) (hw : c.writeErrAt < 0) (hlen : msg.data.length = 2 ^ 32 + 11) :
    Conn.writeHandshakeRecord c msg tr = .error "slice bounds out of range" := by
  rw [src_frag_shape c msg tr hf (by omega) (by omega) (by omega)]
  have hbody : (parOf c msg tr).body.length = 4294967295 := by simp only [parOf, List.length_drop]; omega
  have hm : (parOf c msg tr).mfb = ((16372 : Nat) : Int) := by simp only [parOf, hmp]; rfl
  have hbl : (parOf c msg tr).bodyLen = BitVec.ofNat 32 (parOf c msg tr).body.length := by
    rw [hbody]; simp only [parOf, hlen, BitVec.ofInt_natCast]
  have key : ∀ (fuel a off : Nat) (c' : Conn) (n : Int), c'.writeErrAt < 0 → off % 16372 = 0 → off < 4294967295 →
      4294967295 - off < fuel →
      forIn (List.range' a fuel) ((none, c', n, BitVec.ofNat 32 off) : St) (fun _ s => stepE (parOf c msg tr) s)
        = .error "slice bounds out of range" := by
    intro fuel
    induction fuel with
    | zero => intro a off c n _ _ _ h; omega
    | succ k ih =>
      intro a off c' n hc hmod hoff hfuel
      rw [List.range'_succ, List.forIn_cons]
      by_cases hov : 2 ^ 32 ≤ off + 16372
      · rw [stepE_wraps _ 16372 hm (by omega) hbl (by omega) none c' n off (by omega) hov]
        rfl
      · rw [stepE_lt _ 16372 hm (by omega) hbl (by omega) none c' n off (by omega) (by omega)]
        have hne : ¬ c'.writeErrAt = (c'.sent.length : Int) := by omega
        simp only [writeRecordLocked_eq, hne, if_false, Option.isSome_none, Bool.false_eq_true, hbody]
        have hmin : min 16372 (4294967295 - off) = 16372 := by omega
        rw [hmin]
        exact ih (a + 1) (off + 16372) _ _ hc (by omega) (by omega) (by omega)
  rw [List.range_eq_range', show (0#32 : BitVec 32) = BitVec.ofNat 32 0 from rfl,
    key (msg.data.length + 1) 0 0 c 0 hw (by omega) (by omega) (by omega)]
  rfl

end Gotlcp.Tie.TxFragment

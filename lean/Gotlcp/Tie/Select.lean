/-
Tie by translation, cipher-suite selection (C01): `Config.cipherSuites`, `mutualCipherSuite`, `selectCipherSuite`,
`serverHandshakeState.cipherSuiteOk`, `serverHandshakeState.pickCipherSuite` and the client's
`clientHandshakeState.pickCipherSuite` (namespaces `Gotlcp.Src.tlcp.sel` / `Gotlcp.Src.dtlcp.sel`) are regenerated
from the Go source of BOTH stacks on every run, together with the package variables
`cipherSuitesPreferenceOrder`, `disabledCipherSuites`, `defaultCipherSuites`.

Conventions of the `sel` group (see `selStubs` in harness/cmd/go2lean/main.go): a struct pointer held in a field is
`Option T` (nil = `none`; a nil dereference is `Except.error nilDeref`, the Go run-time panic); the suite table
`cipherSuites` (a package-level map) is the PARAMETER `tbl : BitVec 16 → Option cipherSuite` of every definition
that indexes it; `s != nil` on a `[]uint16` is the parameter `nn` (`nonNilU16`); `hs.cipherSuiteOk` is passed as a
closure; `sendAlert` appends the alert to `c.alerts`.  Every theorem below holds for EVERY table, EVERY `nn`.

Three layers:

* generic (`Gotlcp.Tie.Select`): loops as plain functions, the closed forms `selectSpec`, `mutualSpec`, `prefList`,
  `pickSpec`, `okFlags`, what they say (`selectSpec_eq_some`, `pickSpec_eq_some`, `pickSpec_eq_none`,
  `pickSpec_congr`: first entry of the priority order that is configured, offered, in the table and admitted;
  order-independent) and their equality with the hand-written model `Gotlcp.Model.Negotiate` (`tie_selectId`,
  `tie_mutualSpec`, `tie_cfgList`, `tie_pick`, `okFlags_model`) through `BitVec.toNat` and `TblAbs`;
* per stack (`Gotlcp.Tie.Select.tlcp`, `Gotlcp.Tie.Select.dtlcp` — the same text twice, the two translations being
  two different families of Lean types): the translated function equals the closed form (`select_eq`, `mutual_eq`,
  `cipherSuiteOk_eq`, `cfgSuites_eq`, `tables_eq`, `pick_eq`, `clientPick_eq`), under exactly the non-nil hypotheses
  named (`NonNil`: `hs.c`, `hs.c.config`, `hs.clientHello`; `ClientNonNil`: `hs.c`, `hs.hello`, `hs.serverHello`);
  outside them the translation returns the nil-dereference error (`pick_nil`, `clientPick_nil`);
* `tie_pickCipherSuite`: the translated `pickCipherSuite` IS the model's `serverPick` for every parameter set
  with `pref = treePref`, `disabled = treeDisabled`, flag constants 2 / 1 and `serverPrefFirst = true` — the
  literals `Model/NegotiateFacts.lean` instantiates the model with.  These proofs are what justifies those
  literals: swapping the two loops of `pickCipherSuite` or the two arguments of `selectCipherSuite`, returning the
  last match, dropping a key-type check of `cipherSuiteOk`, re-ordering the preference table … make a proof below
  fail; renaming a local or re-arranging equivalent statements does not.
-/
import Gotlcp.Generated.Src
import Gotlcp.Model.Negotiate
import Gotlcp.Tie.Negotiate

set_option linter.unusedSimpArgs false
set_option linter.unusedVariables false

namespace Gotlcp.Tie.Select
open Gotlcp.Model.Negotiate (Params KeyFlags treePref treeDisabled)
open Gotlcp.Tie.Negotiate (contains_map_inj toNat_injective16 find?_map_inj)

/-! ### loops -/

/-- a `for … range l` loop with state `β`, as a plain function -/
def loop {α β : Type} (g : α → β → ForInStep β) : List α → β → β
  | [], b => b
  | a :: l, b =>
    match g a b with
    | .done b' => b'
    | .yield b' => loop g l b'

theorem loop_nil {α β : Type} (g : α → β → ForInStep β) (b : β) : loop g [] b = b := rfl
theorem loop_cons {α β : Type} (g : α → β → ForInStep β) (a : α) (l : List α) (b : β) :
    loop g (a :: l) b = match g a b with | .done b' => b' | .yield b' => loop g l b' := rfl

theorem forIn_id_loop {α β : Type} (g : α → β → Id (ForInStep β)) (l : List α) (b : β) :
    forIn (m := Id) l b g = loop g l b := by
  induction l generalizing b with
  | nil => rfl
  | cons a t ih =>
    rw [List.forIn_cons]
    show (match g a b with | .done b' => _ | .yield b' => _) = _
    unfold loop
    cases h : g a b <;> simp only [h]
    · rfl
    · exact ih _

theorem ok_bind {ε α β : Type} (a : α) (f : α → Except ε β) : (Except.ok a >>= f) = f a := rfl
theorem bind_ok {α β : Type} (a : α) (f : α → Except String β) : (Except.ok a : Except String α).bind f = f a := rfl
theorem bind_error {α β : Type} (e : String) (f : α → Except String β) :
    (Except.error e : Except String α).bind f = Except.error e := rfl

/-- the run-time panic of a nil pointer dereference, as the translation reports it -/
def nilDeref : String := "invalid memory address or nil pointer dereference"
theorem deref_some {α : Type} (v : α) : Go.deref (some v) = Except.ok v := rfl
theorem deref_none {α : Type} : Go.deref (none : Option α) = Except.error nilDeref := rfl

/-- an `Except` loop none of whose iterations fails is the plain loop -/
theorem forIn_ok_loop {α β : Type} (f : α → β → Except String (ForInStep β)) (g : α → β → ForInStep β)
    (h : ∀ a b, f a b = Except.ok (g a b)) (l : List α) (b : β) :
    forIn l b f = Except.ok (loop g l b) := by
  induction l generalizing b with
  | nil => rfl
  | cons a t ih =>
    rw [List.forIn_cons, h, ok_bind]
    unfold loop
    cases g a b with
    | done b' => rfl
    | yield b' => exact ih _

/-- `for _, x := range l { if q(x) { return mk(x) } }` -/
theorem loop_find {α γ : Type} (q : α → Bool) (mk : α → γ) (g : α → Option γ × Unit → ForInStep (Option γ × Unit))
    (hg : ∀ x st, g x st = if q x = true then ForInStep.done (some (mk x), ()) else ForInStep.yield (none, ()))
    (l : List α) : (loop g l (none, ())).1 = (l.find? q).map mk := by
  induction l with
  | nil => rfl
  | cons a t ih =>
    rw [loop_cons, hg, List.find?_cons]
    cases q a with
    | true => rfl
    | false => exact ih

/-- `for _, x := range l { if keep(x) { acc = append(acc, x) } }` -/
theorem loop_filter {α : Type} (keep : α → Bool) (g : α → List α → ForInStep (List α))
    (hg : ∀ x acc, g x acc = ForInStep.yield (if keep x = true then acc ++ [x] else acc))
    (l acc : List α) : loop g l acc = acc ++ l.filter keep := by
  induction l generalizing acc with
  | nil => simp [loop_nil]
  | cons a t ih =>
    rw [loop_cons, hg]
    simp only
    rw [ih, List.filter_cons]
    cases keep a <;> simp

/-- `for _, x := range l { if x == s { acc = append(acc, x); break } }` -/
theorem loop_append_if_mem {α : Type} [BEq α] [LawfulBEq α] (s : α) (g : α → List α → ForInStep (List α))
    (hg : ∀ x acc, g x acc = if (x == s) = true then ForInStep.done (acc ++ [x]) else ForInStep.yield acc)
    (l acc : List α) : loop g l acc = if l.contains s = true then acc ++ [s] else acc := by
  induction l with
  | nil => rfl
  | cons a t ih =>
    rw [loop_cons, hg, List.contains_cons]
    by_cases h : (a == s) = true
    · have : a = s := by simpa using h
      subst this
      simp
    · have h' : (a == s) = false := by simpa using h
      have h'' : (s == a) = false := by rw [BEq.comm]; exact h'
      simp only [h', h'', Bool.false_eq_true, if_false, Bool.false_or]
      exact ih

/-- `for _, x := range l { if x == s { found = true; break } }` -/
theorem loop_flag {α : Type} [BEq α] [LawfulBEq α] (s : α) (g : α → Bool → ForInStep Bool)
    (hg : ∀ x b, g x b = if (x == s) = true then ForInStep.done true else ForInStep.yield b)
    (l : List α) (b : Bool) : loop g l b = (l.contains s || b) := by
  induction l with
  | nil => simp [loop_nil]
  | cons a t ih =>
    rw [loop_cons, hg, List.contains_cons]
    by_cases h : (a == s) = true
    · have : a = s := by simpa using h
      subst this
      simp
    · have h' : (a == s) = false := by simpa using h
      have h'' : (s == a) = false := by rw [BEq.comm]; exact h'
      simp only [h', h'', Bool.false_eq_true, if_false, Bool.false_or]
      exact ih

theorem find?_beq_const {α γ : Type} [BEq α] [LawfulBEq α] (a : α) (l : List α) (v : γ) :
    (l.find? (fun x => a == x)).map (fun _ => v) = if l.contains a = true then some v else none := by
  induction l with
  | nil => rfl
  | cons b t ih =>
    rw [List.find?_cons, List.contains_cons]
    cases h : (a == b) with
    | true => simp
    | false => simpa using ih

theorem find?_filter_and {α : Type} (l : List α) (p q : α → Bool) :
    (l.filter p).find? q = l.find? (fun a => p a && q a) := by
  induction l with
  | nil => rfl
  | cons a t ih =>
    rw [List.filter_cons, List.find?_cons]
    cases hp : p a with
    | true => simp only [if_true, List.find?_cons, Bool.true_and]; cases q a <;> simp [ih]
    | false => simp only [Bool.false_eq_true, if_false, Bool.false_and]; exact ih

/-! ### Go `int` flags -/

/-- bit `i` of a Go `int` (two's complement, 64 bit) -/
def intBit (f : Int) (i : Nat) : Bool := (BitVec.ofInt 64 f).getLsbD i

theorem nat_and_pow_ne_zero (n i : Nat) : (n &&& 2 ^ i != 0) = n.testBit i := by
  cases h : n.testBit i with
  | true =>
    simp only [bne_iff_ne, ne_eq]
    intro h0
    have := Nat.testBit_and n (2 ^ i) i
    rw [h0, Nat.zero_testBit, h, Nat.testBit_two_pow] at this
    simp at this
  | false =>
    simp only [bne_eq_false_iff_eq]
    apply Nat.eq_of_testBit_eq
    intro j
    rw [Nat.testBit_and, Nat.testBit_two_pow, Nat.zero_testBit]
    by_cases hij : i = j
    · subst hij; simp [h]
    · simp [hij]

theorem bv_and_pow_ne_zero (x : BitVec 64) (i : Nat) (hi : i < 64) :
    ((x &&& BitVec.ofInt 64 ((2 ^ i : Nat) : Int)).toInt != 0) = x.getLsbD i := by
  have h0 : ∀ y : BitVec 64, (y.toInt != 0) = (y.toNat != 0) := by
    intro y
    rw [Bool.eq_iff_iff]
    simp only [bne_iff_ne, ne_eq]
    rw [← BitVec.toInt_zero (w := 64), BitVec.toInt_inj, ← BitVec.toNat_inj]
    rfl
  rw [h0, BitVec.toNat_and, BitVec.ofInt_natCast, BitVec.toNat_ofNat,
    Nat.mod_eq_of_lt (Nat.pow_lt_pow_right (by omega) hi), nat_and_pow_ne_zero]
  rfl

/-- `flags&suiteECSign != 0` (the constant is folded to 2 by go/types) -/
theorem andInt_two (f : Int) : (Go.andInt f 2 != 0) = intBit f 1 := bv_and_pow_ne_zero _ 1 (by omega)
/-- `flags&suiteECDHE != 0` (the constant is folded to 1) -/
theorem andInt_one (f : Int) : (Go.andInt f 1 != 0) = intBit f 0 := bv_and_pow_ne_zero _ 0 (by omega)

theorem intBit_natCast (n i : Nat) (hi : i < 64) : intBit (n : Int) i = n.testBit i := by
  unfold intBit
  rw [BitVec.ofInt_natCast, BitVec.getLsbD_ofNat]
  simp [hi]

/-! ### closed forms, for any type `σ` of table entries -/

/-- an id that `selectCipherSuite` accepts: the table knows it, `ok` admits its entry, `supported` contains it -/
def admits {σ : Type} (tbl : BitVec 16 → Option σ) (supported : List (BitVec 16)) (ok : σ → Bool) (id : BitVec 16) : Bool :=
  match tbl id with
  | none => false
  | some s => ok s && supported.contains id

/-- the id `selectCipherSuite(ids, supported, ok)` stops at: the FIRST entry of `ids` that the table knows, `ok`
admits and `supported` contains -/
def selectId {σ : Type} (tbl : BitVec 16 → Option σ) (ids supported : List (BitVec 16)) (ok : σ → Bool) :
    Option (BitVec 16) :=
  ids.find? (admits tbl supported ok)

/-- what `selectCipherSuite` returns: the table entry of that id -/
def selectSpec {σ : Type} (tbl : BitVec 16 → Option σ) (ids supported : List (BitVec 16)) (ok : σ → Bool) : Option σ :=
  (selectId tbl ids supported ok).bind tbl

/-- what `mutualCipherSuite(have, want)` returns: the table entry of `want` if `have` contains it -/
def mutualSpec {σ : Type} (tbl : BitVec 16 → Option σ) (have_ : List (BitVec 16)) (want : BitVec 16) : Option σ :=
  if have_.contains want = true then tbl want else none

/-- `cipherSuitesPreferenceOrder` of both stacks: ECC-GCM, ECC-CBC, ECDHE-GCM, ECDHE-CBC -/
def prefOrder : List (BitVec 16) := [0xe053#16, 0xe013#16, 0xe051#16, 0xe011#16]

/-- `Config.cipherSuites()`: `CipherSuites` when non-nil, else `defaultCipherSuites` (= the whole preference
order: nothing is disabled) -/
def cfgList (nn : List (BitVec 16) → Bool) (l : List (BitVec 16)) : List (BitVec 16) :=
  if nn l = true then l else prefOrder

/-- the server's `preferenceList`: the preference order filtered by membership in the configured list -/
def prefList (cfg : List (BitVec 16)) : List (BitVec 16) := prefOrder.filter fun s => cfg.contains s

/-- the suite the server's `pickCipherSuite` hands to `hs.suite` -/
def pickSpec {σ : Type} (tbl : BitVec 16 → Option σ) (cfg offered : List (BitVec 16)) (ok : σ → Bool) : Option σ :=
  selectSpec tbl (prefList cfg) offered ok

/-- what `cipherSuiteOk` computes from the five key flags of the handshake state and the suite's `flags`:
bit 1 (`suiteECSign`) set: an SM2 signing key AND an SM2 decryption key; else bit 0 (`suiteECDHE`) set: ECDHE
support and an RSA signing key; else an RSA decryption key -/
def okFlags (k : KeyFlags) (flags : Int) : Bool :=
  if intBit flags 1 = true then k.ecSignOk && k.ecDecryptOk
  else if intBit flags 0 = true then k.ecdheOk && k.rsaSignOk
  else k.rsaDecryptOk

theorem make_eq {α : Type} (z : α) (n : Nat) : Go.make z (n : Int) = Except.ok (List.replicate n z) := by
  unfold Go.make
  rw [if_neg (by omega)]
  simp

/-- `copy(make([]T, len(src)), src)` -/
theorem copy_eq {α : Type} (z : α) (src : List α) :
    Go.copyInto (List.replicate src.length z) (0 : Int) ((List.replicate src.length z).length : Int) src = Except.ok src := by
  unfold Go.copyInto
  rw [if_neg (by simp)]
  simp

theorem len_beq_zero {α : Type} (l : List α) : ((l.length : Int) == 0) = l.isEmpty := by
  cases l <;> simp <;> omega
theorem len_bne_zero {α : Type} (l : List α) : ((l.length : Int) != 0) = !l.isEmpty := by
  cases l <;> simp <;> omega
theorem len_pos {α : Type} (l : List α) : decide ((l.length : Int) > 0) = !l.isEmpty := by
  cases l <;> simp <;> omega

/-! ### what the closed forms say -/

/-- `x` is the FIRST element of `l` with property `P` -/
def FirstSuch {α : Type} (l : List α) (P : α → Prop) (x : α) : Prop :=
  ∃ before after, l = before ++ x :: after ∧ P x ∧ ∀ y, y ∈ before → ¬ P y

theorem firstSuch_unique {α : Type} {l : List α} {P : α → Prop} {x y : α}
    (hx : FirstSuch l P x) (hy : FirstSuch l P y) : x = y := by
  obtain ⟨b1, a1, e1, p1, n1⟩ := hx
  obtain ⟨b2, a2, e2, p2, n2⟩ := hy
  rw [e1] at e2
  rcases List.append_eq_append_iff.mp e2 with ⟨m, hm, hm2⟩ | ⟨m, hm, hm2⟩
  · cases m with
    | nil => simp at hm2; exact hm2.1
    | cons z t =>
      simp at hm2
      exact absurd p1 (n2 x (by rw [hm, hm2.1]; simp))
  · cases m with
    | nil => simp at hm2; exact hm2.1.symm
    | cons z t =>
      simp at hm2
      exact absurd p2 (n1 y (by rw [hm, hm2.1]; simp))

theorem find?_eq_some_iff_firstSuch {α : Type} (l : List α) (q : α → Bool) (x : α) :
    l.find? q = some x ↔ FirstSuch l (fun a => q a = true) x := by
  rw [List.find?_eq_some_iff_append]
  constructor
  · rintro ⟨hq, as, bs, e, hn⟩
    exact ⟨as, bs, e, hq, fun y hy => by simpa using hn y hy⟩
  · rintro ⟨as, bs, e, hq, hn⟩
    exact ⟨hq, as, bs, e, fun y hy => by simpa using hn y hy⟩

theorem admits_iff {σ : Type} (tbl : BitVec 16 → Option σ) (supported : List (BitVec 16)) (ok : σ → Bool) (id : BitVec 16) :
    admits tbl supported ok id = true ↔ (∃ s, tbl id = some s ∧ ok s = true) ∧ id ∈ supported := by
  unfold admits
  cases h : tbl id with
  | none => simp
  | some s => simp

/-- `selectCipherSuite` returns the table entry of the FIRST id of `ids` that the table knows, whose entry `ok`
admits, and that occurs in `supported`; … -/
theorem selectSpec_eq_some {σ : Type} (tbl : BitVec 16 → Option σ) (ids supported : List (BitVec 16)) (ok : σ → Bool) (s : σ) :
    selectSpec tbl ids supported ok = some s ↔
      ∃ id, FirstSuch ids (fun x => (∃ s', tbl x = some s' ∧ ok s' = true) ∧ x ∈ supported) id ∧ tbl id = some s := by
  unfold selectSpec selectId
  constructor
  · intro h
    cases hf : ids.find? (admits tbl supported ok) with
    | none => rw [hf] at h; cases h
    | some id =>
      rw [hf] at h
      refine ⟨id, ?_, h⟩
      obtain ⟨b, a, e, p, n⟩ := (find?_eq_some_iff_firstSuch _ _ _).mp hf
      exact ⟨b, a, e, (admits_iff _ _ _ _).mp p, fun y hy hp => n y hy ((admits_iff _ _ _ _).mpr hp)⟩
  · rintro ⟨id, ⟨b, a, e, p, n⟩, ht⟩
    have : ids.find? (admits tbl supported ok) = some id :=
      (find?_eq_some_iff_firstSuch _ _ _).mpr
        ⟨b, a, e, (admits_iff _ _ _ _).mpr p, fun y hy hp => n y hy ((admits_iff _ _ _ _).mp hp)⟩
    rw [this]; exact ht

/-- … and nil exactly when `ids` has no such entry. -/
theorem selectSpec_eq_none {σ : Type} (tbl : BitVec 16 → Option σ) (ids supported : List (BitVec 16)) (ok : σ → Bool) :
    selectSpec tbl ids supported ok = none ↔
      ∀ x, x ∈ ids → ¬ ((∃ s', tbl x = some s' ∧ ok s' = true) ∧ x ∈ supported) := by
  unfold selectSpec selectId
  constructor
  · intro h x hx hp
    cases hf : ids.find? (admits tbl supported ok) with
    | none =>
      rw [List.find?_eq_none] at hf
      exact hf x hx ((admits_iff _ _ _ _).mpr hp)
    | some id =>
      rw [hf] at h
      have := (admits_iff _ _ _ _).mp (List.find?_some hf)
      obtain ⟨⟨s', hs', _⟩, _⟩ := this
      simp only [Option.bind_some, hs'] at h
      cases h
  · intro h
    have : ids.find? (admits tbl supported ok) = none := by
      rw [List.find?_eq_none]
      intro x hx hp
      exact h x hx ((admits_iff _ _ _ _).mp (by simpa using hp))
    rw [this]; rfl

theorem selectSpec_singleton {σ : Type} (tbl : BitVec 16 → Option σ) (x : BitVec 16) (supported : List (BitVec 16))
    (ok : σ → Bool) (s : σ) :
    selectSpec tbl [x] supported ok = some s ↔ tbl x = some s ∧ ok s = true ∧ x ∈ supported := by
  unfold selectSpec selectId
  rw [List.find?_cons]
  cases h : admits tbl supported ok x with
  | true =>
    have := (admits_iff _ _ _ _).mp h
    obtain ⟨⟨s', hs', hok⟩, hm⟩ := this
    simp only [Option.bind_some, hs', Option.some.injEq]
    constructor
    · intro e; subst e; exact ⟨rfl, hok, hm⟩
    · intro e; exact e.1
  | false =>
    simp only [List.find?_nil, Option.bind_none]
    constructor
    · intro e; cases e
    · rintro ⟨h1, h2, h3⟩
      have : admits tbl supported ok x = true := (admits_iff _ _ _ _).mpr ⟨⟨s, h1, h2⟩, h3⟩
      rw [h] at this; cases this

/-- an id the server may pick: configured on the server, offered by the client, present in the table with an
entry that `ok` (the key types) admits -/
def Good {σ : Type} (tbl : BitVec 16 → Option σ) (cfg offered : List (BitVec 16)) (ok : σ → Bool) (id : BitVec 16) : Prop :=
  id ∈ cfg ∧ id ∈ offered ∧ ∃ s, tbl id = some s ∧ ok s = true

theorem pickSpec_eq_some {σ : Type} (tbl : BitVec 16 → Option σ) (cfg offered : List (BitVec 16)) (ok : σ → Bool) (s : σ) :
    pickSpec tbl cfg offered ok = some s ↔
      ∃ id, FirstSuch prefOrder (Good tbl cfg offered ok) id ∧ tbl id = some s := by
  unfold pickSpec selectSpec selectId prefList
  rw [find?_filter_and]
  have hq : ∀ a, ((cfg.contains a && admits tbl offered ok a) = true) ↔ Good tbl cfg offered ok a := by
    intro a
    rw [Bool.and_eq_true, admits_iff]
    unfold Good
    simp only [List.contains_iff_mem]
    constructor
    · rintro ⟨h1, h2, h3⟩; exact ⟨h1, h3, h2⟩
    · rintro ⟨h1, h2, h3⟩; exact ⟨h1, h3, h2⟩
  constructor
  · intro h
    cases hf : prefOrder.find? (fun a => cfg.contains a && admits tbl offered ok a) with
    | none => rw [hf] at h; cases h
    | some id =>
      rw [hf] at h
      obtain ⟨b, a, e, p, n⟩ := (find?_eq_some_iff_firstSuch _ _ _).mp hf
      exact ⟨id, ⟨b, a, e, (hq _).mp p, fun y hy hp => n y hy ((hq _).mpr hp)⟩, h⟩
  · rintro ⟨id, ⟨b, a, e, p, n⟩, ht⟩
    have : prefOrder.find? (fun a => cfg.contains a && admits tbl offered ok a) = some id :=
      (find?_eq_some_iff_firstSuch _ _ _).mpr ⟨b, a, e, (hq _).mpr p, fun y hy hp => n y hy ((hq _).mp hp)⟩
    rw [this]; exact ht

theorem pickSpec_eq_none {σ : Type} (tbl : BitVec 16 → Option σ) (cfg offered : List (BitVec 16)) (ok : σ → Bool) :
    pickSpec tbl cfg offered ok = none ↔ ∀ id, id ∈ prefOrder → ¬ Good tbl cfg offered ok id := by
  unfold pickSpec
  rw [selectSpec_eq_none]
  unfold prefList Good
  simp only [List.mem_filter, List.contains_iff_mem]
  constructor
  · intro h id hid ⟨h1, h2, h3⟩; exact h id ⟨hid, h1⟩ ⟨h3, h2⟩
  · intro h id ⟨hid, h1⟩ ⟨h3, h2⟩; exact h id hid ⟨h1, h2, h3⟩

/-- ORDER INDEPENDENCE: the pick depends on the configured list and on the offer only through membership -/
theorem pickSpec_congr {σ : Type} (tbl : BitVec 16 → Option σ) (cfg cfg' offered offered' : List (BitVec 16)) (ok : σ → Bool)
    (hcfg : ∀ x, x ∈ cfg ↔ x ∈ cfg') (hoff : ∀ x, x ∈ offered ↔ x ∈ offered') :
    pickSpec tbl cfg offered ok = pickSpec tbl cfg' offered' ok := by
  have hc : ∀ x, cfg.contains x = cfg'.contains x := fun x => by
    rw [Bool.eq_iff_iff]; simp only [List.contains_iff_mem]; exact hcfg x
  have ho : ∀ x, offered.contains x = offered'.contains x := fun x => by
    rw [Bool.eq_iff_iff]; simp only [List.contains_iff_mem]; exact hoff x
  unfold pickSpec selectSpec selectId prefList admits
  simp only [hc, ho]


/-! ### the closed forms are the model (`Gotlcp.Model.Negotiate`)

Abstraction: a suite id is the `uint16` with that value (`BitVec.toNat`, injective); the suite table of the model
(`Params.known`: id ↦ flags) describes the table parameter `tbl` (`TblAbs`: same domain, same flags); a `flags`
value is the non-negative `int` with that value. -/

/-- … which is the model's `cipherSuiteOk` (dead branch included) whenever the two flag constants are 2 and 1 -/
theorem okFlags_model (p : Model.Negotiate.Params) (h2 : p.flagECSign = 2) (h1 : p.flagECDHE = 1) (k : KeyFlags) (f : Nat) :
    okFlags k (f : Int) = Model.Negotiate.cipherSuiteOk p k f := by
  unfold okFlags Model.Negotiate.cipherSuiteOk
  rw [h2, h1, intBit_natCast _ _ (by omega), intBit_natCast _ _ (by omega),
    show (2 : Nat) = 2 ^ 1 from rfl, show (1 : Nat) = 2 ^ 0 from rfl, nat_and_pow_ne_zero, nat_and_pow_ne_zero]
  cases f.testBit 1 <;> cases f.testBit 0 <;> cases k.ecSignOk <;> cases k.ecDecryptOk <;> cases k.ecdheOk <;>
    cases k.rsaSignOk <;> cases k.rsaDecryptOk <;> rfl
/-- the model's table `p.known` describes `tbl`: the same ids are present, with the same flags -/
def TblAbs {σ : Type} (fl : σ → Int) (p : Params) (tbl : BitVec 16 → Option σ) : Prop :=
  ∀ id : BitVec 16, (tbl id).map fl = (Model.Negotiate.flagsOf p id.toNat).map (fun f : Nat => (f : Int))

theorem admits_model {σ : Type} (fl : σ → Int) (p : Params) (tbl : BitVec 16 → Option σ) (hT : TblAbs fl p tbl)
    (ok : σ → Bool) (okM : Nat → Bool) (hok : ∀ s (f : Nat), fl s = (f : Int) → ok s = okM f)
    (supported : List (BitVec 16)) (id : BitVec 16) :
    admits tbl supported ok id =
      (match Model.Negotiate.flagsOf p id.toNat with
       | none => false
       | some f => okM f && (supported.map (·.toNat)).contains id.toNat) := by
  unfold admits
  have h := hT id
  rw [contains_map_inj (fun v : BitVec 16 => v.toNat) toNat_injective16]
  cases ht : tbl id with
  | none =>
    rw [ht] at h
    cases hf : Model.Negotiate.flagsOf p id.toNat with
    | none => rfl
    | some f => rw [hf] at h; cases h
  | some s =>
    rw [ht] at h
    cases hf : Model.Negotiate.flagsOf p id.toNat with
    | none => rw [hf] at h; cases h
    | some f =>
      rw [hf] at h
      simp only [Option.map_some, Option.some.injEq] at h
      simp only [hok s f h]

/-- the id `selectCipherSuite` stops at IS the model's `selectCipherSuite` -/
theorem tie_selectId {σ : Type} (fl : σ → Int) (p : Params) (tbl : BitVec 16 → Option σ) (hT : TblAbs fl p tbl)
    (ok : σ → Bool) (okM : Nat → Bool) (hok : ∀ s (f : Nat), fl s = (f : Int) → ok s = okM f)
    (ids supported : List (BitVec 16)) :
    (selectId tbl ids supported ok).map (·.toNat) =
      Model.Negotiate.selectCipherSuite p (ids.map (·.toNat)) (supported.map (·.toNat)) okM := by
  unfold selectId Model.Negotiate.selectCipherSuite
  rw [find?_map_inj]
  congr 2
  funext id
  exact admits_model fl p tbl hT ok okM hok supported id

/-- `selectCipherSuite` returns nil exactly when the model's does -/
theorem tie_selectSpec_isSome {σ : Type} (fl : σ → Int) (p : Params) (tbl : BitVec 16 → Option σ) (hT : TblAbs fl p tbl)
    (ok : σ → Bool) (okM : Nat → Bool) (hok : ∀ s (f : Nat), fl s = (f : Int) → ok s = okM f)
    (ids supported : List (BitVec 16)) :
    (selectSpec tbl ids supported ok).isSome =
      (Model.Negotiate.selectCipherSuite p (ids.map (·.toNat)) (supported.map (·.toNat)) okM).isSome := by
  rw [← tie_selectId fl p tbl hT ok okM hok, Option.isSome_map]
  unfold selectSpec
  cases hf : selectId tbl ids supported ok with
  | none => rfl
  | some id =>
    have := (admits_iff _ _ _ _).mp (List.find?_some hf)
    obtain ⟨⟨s, hs, _⟩, _⟩ := this
    simp only [Option.bind_some, hs, Option.isSome_some]

/-- `mutualCipherSuite(have, want)` is non-nil exactly when the model's is -/
theorem tie_mutualSpec {σ : Type} (fl : σ → Int) (p : Params) (tbl : BitVec 16 → Option σ) (hT : TblAbs fl p tbl)
    (have_ : List (BitVec 16)) (want : BitVec 16) :
    (mutualSpec tbl have_ want).isSome = Model.Negotiate.mutualCipherSuite p (have_.map (·.toNat)) want.toNat := by
  unfold mutualSpec Model.Negotiate.mutualCipherSuite
  rw [contains_map_inj (fun v : BitVec 16 => v.toNat) toNat_injective16]
  have h := hT want
  cases have_.contains want with
  | false => rfl
  | true =>
    simp only [if_true, Bool.true_and]
    rw [← Option.isSome_map (f := fl), h, Option.isSome_map]

/-- the model's `ServerCfg.suites` / `ClientCfg.suites` for a Go `CipherSuites` field -/
def absSuites (nn : List (BitVec 16) → Bool) (l : List (BitVec 16)) : Option (List Nat) :=
  if nn l = true then some (l.map (·.toNat)) else none

theorem prefOrder_toNat : prefOrder.map (·.toNat) = treePref := by decide

theorem tie_cfgList (p : Params) (hpref : p.pref = treePref) (hdis : p.disabled = treeDisabled)
    (nn : List (BitVec 16) → Bool) (l : List (BitVec 16)) :
    (cfgList nn l).map (·.toNat) = Model.Negotiate.configSuites p (absSuites nn l) := by
  unfold cfgList absSuites Model.Negotiate.configSuites
  cases nn l with
  | true => rfl
  | false =>
    simp only [Bool.false_eq_true, if_false, hpref, hdis, prefOrder_toNat, treeDisabled]
    rfl

theorem prefList_toNat (cfg : List (BitVec 16)) :
    (prefList cfg).map (·.toNat) = treePref.filter (fun sid => (cfg.map (·.toNat)).contains sid) := by
  unfold prefList
  rw [← prefOrder_toNat, List.filter_map]
  congr 1
  apply List.filter_congr
  intro x _
  exact (contains_map_inj (fun v : BitVec 16 => v.toNat) toNat_injective16 cfg x).symm

/-- the id the server's `pickCipherSuite` settles on IS the model's `serverPick` — for every parameter set with this
tree's preference order, nothing disabled, the two flag constants 2 and 1, and `serverPrefFirst := true` (the
preference list is walked in the outer loop, the client's offer only looked up) -/
theorem tie_pick {σ : Type} (fl : σ → Int) (p : Params) (tbl : BitVec 16 → Option σ) (hT : TblAbs fl p tbl)
    (hpref : p.pref = treePref) (hdis : p.disabled = treeDisabled) (h2 : p.flagECSign = 2) (h1 : p.flagECDHE = 1)
    (hfirst : p.serverPrefFirst = true)
    (nn : List (BitVec 16) → Bool) (l offered : List (BitVec 16)) (k : KeyFlags) (s : Gotlcp.Negotiate.ServerCfg)
    (hs : s.suites = absSuites nn l) :
    (selectId tbl (prefList (cfgList nn l)) offered (fun x => okFlags k (fl x))).map (·.toNat) =
      Model.Negotiate.serverPick p k s (offered.map (·.toNat)) := by
  unfold Model.Negotiate.serverPick
  simp only [hfirst, if_true, hs, ← tie_cfgList p hpref hdis nn l, hpref, ← prefList_toNat]
  exact tie_selectId fl p tbl hT _ _ (fun x f hf => by rw [hf]; exact okFlags_model p h2 h1 k f) _ _


/-- the values of the model's parameters that the ties justify: this tree's preference order, nothing disabled,
`suiteECSign = 2`, `suiteECDHE = 1`, the server's preference list in the outer loop -/
structure TreeParams (p : Params) : Prop where
  pref : p.pref = treePref
  disabled : p.disabled = treeDisabled
  ecSign : p.flagECSign = 2
  ecdhe : p.flagECDHE = 1
  first : p.serverPrefFirst = true

end Gotlcp.Tie.Select

/-! ### TLCP: the translated functions of `Gotlcp.Src.tlcp.sel` -/

namespace Gotlcp.Tie.Select.tlcp
open Gotlcp.Src.tlcp.sel
open Gotlcp.Model.Negotiate (Params KeyFlags treePref treeDisabled)
open Gotlcp.Tie.Negotiate (checkPick Str)

/-- `selectCipherSuite(ids, supported, ok)` never fails and returns the table entry of the FIRST id of `ids` that the
table knows, `ok` admits and `supported` contains (`selectSpec`); nil when there is none -/
theorem select_eq (tbl : BitVec 16 → Option cipherSuite) (ids supported : List (BitVec 16)) (ok : cipherSuite → Bool) :
    selectCipherSuite tbl ids supported ok = .ok (selectSpec tbl ids supported ok) := by
  unfold selectCipherSuite
  simp only [bind, pure, Except.pure]
  have inner : ∀ id' : BitVec 16,
      (forIn supported ((none : Option (Option cipherSuite)), ()) fun suppID __s =>
        if (id' == suppID) = true then (Except.ok (ForInStep.done (some (tbl id'), ())) : Except String _)
        else Except.ok (ForInStep.yield (none, ()))) =
      Except.ok (if supported.contains id' = true then some (tbl id') else none, ()) := by
    intro id'
    rw [forIn_ok_loop _ (fun suppID _ => if (id' == suppID) = true then ForInStep.done (some (tbl id'), ())
      else ForInStep.yield (none, ())) (fun a b => by split <;> rfl)]
    have k := loop_find (fun x => id' == x) (fun _ => tbl id') _ (fun x st => rfl) supported
    rw [find?_beq_const] at k
    generalize loop _ supported _ = r at k
    obtain ⟨r1, r2⟩ := r
    simp only at k
    rw [k]
  rw [forIn_ok_loop _ (fun id' _ =>
    if admits tbl supported ok id' = true
    then ForInStep.done (some (tbl id'), ()) else ForInStep.yield (none, ())) (fun a b => by
      rw [inner]
      unfold admits
      cases h : tbl a with
      | none => rfl
      | some s =>
        simp only [Option.isNone_some, Bool.not_false, if_true, deref_some, bind_ok, Bool.false_eq_true, if_false]
        rcases Bool.eq_false_or_eq_true (ok s) with hok | hok <;>
          rcases Bool.eq_false_or_eq_true (supported.contains a) with hc | hc <;>
          simp only [hok, hc, if_true, if_false, Bool.not_true, Bool.not_false, Bool.true_and, Bool.false_and,
            Bool.and_false, Bool.and_true, Bool.false_eq_true])]
  have k := loop_find (admits tbl supported ok) tbl _
    (fun x st => rfl) ids
  generalize loop _ ids _ = r at k
  obtain ⟨r1, r2⟩ := r
  simp only at k
  subst k
  unfold selectSpec selectId
  simp only [bind_ok]
  generalize List.find? _ ids = o
  cases o <;> rfl

/-- the five key flags of the handshake state -/
def keys (hs : serverHandshakeState) : KeyFlags :=
  { ecdheOk := hs.ecdheOk, ecSignOk := hs.ecSignOk, ecDecryptOk := hs.ecDecryptOk, rsaDecryptOk := hs.rsaDecryptOk,
    rsaSignOk := hs.rsaSignOk }

/-- `cipherSuiteOk` depends on the five key flags and on bits 1 and 0 of the suite's `flags` only (`okFlags`) -/
theorem cipherSuiteOk_eq (hs : serverHandshakeState) (c : cipherSuite) :
    serverHandshakeState.cipherSuiteOk hs c = okFlags (keys hs) c.flags := by
  unfold serverHandshakeState.cipherSuiteOk okFlags keys
  simp only [Id.run, pure, bind, andInt_two, andInt_one]
  cases intBit c.flags 1 <;> cases intBit c.flags 0 <;> cases hs.ecSignOk <;> cases hs.ecDecryptOk <;>
    cases hs.ecdheOk <;> cases hs.rsaSignOk <;> cases hs.rsaDecryptOk <;> rfl

/-- the preference order literal of the source, and `defaultCipherSuites` (= the order minus its last
`len(disabledCipherSuites)` entries; nothing is disabled) -/
theorem tables_eq :
    cipherSuitesPreferenceOrder = prefOrder ∧ disabledCipherSuites = [] ∧ defaultCipherSuites = prefOrder ∧
    defaultCipherSuites = cipherSuitesPreferenceOrder.take (cipherSuitesPreferenceOrder.length - disabledCipherSuites.length) := by
  decide

/-- `Config.cipherSuites()`: the configured list when non-nil, else the default list = the whole preference order -/
theorem cfgSuites_eq (nn : List (BitVec 16) → Bool) (cfg : Config) :
    Config.cipherSuites nn cfg = cfgList nn cfg.CipherSuites := by
  unfold Config.cipherSuites cfgList
  simp only [Id.run, pure, bind, tables_eq.2.2.1]

/-- `mutualCipherSuite(have, want)`: the table entry of `want` (possibly nil) when `have` contains it, else nil -/
theorem mutual_eq (tbl : BitVec 16 → Option cipherSuite) (have_ : List (BitVec 16)) (want : BitVec 16) :
    mutualCipherSuite tbl have_ want = mutualSpec tbl have_ want := by
  unfold mutualCipherSuite mutualSpec
  simp only [Id.run, pure, bind, forIn_id_loop]
  have k := loop_find (fun x => x == want) tbl _ (fun x st => rfl) have_
  generalize loop _ have_ _ = r at k
  obtain ⟨r1, r2⟩ := r
  simp only at k
  subst k
  induction have_ with
  | nil => rfl
  | cons a t ih =>
    rw [List.find?_cons, List.contains_cons]
    by_cases h : (a == want) = true
    · have : a = want := by simpa using h
      subst this
      simp
    · have h' : (a == want) = false := by simpa using h
      have h'' : (want == a) = false := by rw [BEq.comm]; exact h'
      simp only [h', h'', Bool.false_or]
      exact ih

/-- the two nested loops that build `preferenceList` -/
theorem prefLoop_eq (cfgS : List (BitVec 16)) :
    (forIn cipherSuitesPreferenceOrder ([] : List (BitVec 16)) fun suiteID __s =>
        (forIn cfgS __s fun id' __s =>
              if (id' == suiteID) = true then (Except.ok (ForInStep.done (__s ++ [id'])) : Except String _)
              else Except.ok (ForInStep.yield __s)).bind
          fun __s => Except.ok (ForInStep.yield __s)) = Except.ok (prefList cfgS) := by
  rw [forIn_ok_loop _ (fun suiteID acc =>
    ForInStep.yield (if cfgS.contains suiteID = true then acc ++ [suiteID] else acc))
    (fun a b => by
      rw [forIn_ok_loop _ (fun id' acc => if (id' == a) = true then ForInStep.done (acc ++ [id']) else ForInStep.yield acc)
        (fun x y => by split <;> rfl), bind_ok, loop_append_if_mem a _ (fun x acc => rfl)])]
  rw [loop_filter (fun s => cfgS.contains s) _ (fun x acc => rfl), tables_eq.1]
  rfl

/-- the state after a successful / failed `pickCipherSuite` -/
def pickOk (hs : serverHandshakeState) (c : Conn) (s : cipherSuite) : serverHandshakeState :=
  { hs with suite := some s, c := some { c with cipherSuite := s.id } }
def pickFail (hs : serverHandshakeState) (c : Conn) : serverHandshakeState :=
  { hs with suite := none, c := some { c with alerts := c.alerts ++ [40#8] } }

/-- The server's `pickCipherSuite`, for every state with non-nil `hs.c`, `hs.c.config`, `hs.clientHello`: it never
fails; `preferenceList` is the preference order filtered by membership in the configured list; when
`selectCipherSuite(preferenceList, clientHello.cipherSuites, hs.cipherSuiteOk)` finds `s`: `hs.suite = s`,
`c.cipherSuite = s.id`, no alert, nil error; else `hs.suite = nil`, handshake_failure (40) appended to `c.alerts`,
a non-nil error -/
theorem pick_eq (tbl : BitVec 16 → Option cipherSuite) (nn : List (BitVec 16) → Bool) (hs : serverHandshakeState)
    (c : Conn) (cfg : Config) (ch : clientHelloMsg)
    (hc : hs.c = some c) (hcfg : c.config = some cfg) (hch : hs.clientHello = some ch) :
    serverHandshakeState.pickCipherSuite tbl nn hs = .ok
      (match pickSpec tbl (Config.cipherSuites nn cfg) ch.cipherSuites (fun s => okFlags (keys hs) s.flags) with
       | some s => (pickOk hs c s, none)
       | none => (pickFail hs c, some Go.Error.other)) := by
  unfold serverHandshakeState.pickCipherSuite pickSpec
  simp only [bind, pure, Except.pure, hc, hcfg, hch, deref_some, bind_ok, select_eq]
  rw [prefLoop_eq, bind_ok]
  have hok : serverHandshakeState.cipherSuiteOk hs = fun s => okFlags (keys hs) s.flags :=
    funext fun s => cipherSuiteOk_eq hs s
  rw [hok]
  cases selectSpec tbl (prefList (Config.cipherSuites nn cfg)) ch.cipherSuites (fun s => okFlags (keys hs) s.flags) with
  | none =>
    simp only [Option.isNone_none, if_true, pickFail, Conn.sendAlert, Id.run, pure, bind, hc, hcfg, hch]
  | some s =>
    simp only [Option.isNone_some, Bool.false_eq_true, if_false, deref_some, bind_ok, pickOk, hc, hcfg, hch]


/-- the pointers `pickCipherSuite` / `checkForResumption` dereference: `hs.c`, `hs.c.config`, `hs.clientHello` -/
def NonNil (hs : serverHandshakeState) : Prop :=
  ∃ c cfg ch, hs.c = some c ∧ c.config = some cfg ∧ hs.clientHello = some ch

/-- outside `NonNil` the Go code panics: the translation returns the nil-dereference error -/
theorem pick_nil (tbl : BitVec 16 → Option cipherSuite) (nn : List (BitVec 16) → Bool) (hs : serverHandshakeState)
    (h : ¬ NonNil hs) : serverHandshakeState.pickCipherSuite tbl nn hs = .error nilDeref := by
  unfold serverHandshakeState.pickCipherSuite
  cases hc : hs.c with
  | none => simp only [bind, pure, Except.pure, hc, deref_none, bind_error]
  | some c =>
    cases hcfg : c.config with
    | none => simp only [bind, pure, Except.pure, hc, deref_some, bind_ok, hcfg, deref_none, bind_error]
    | some cfg =>
      cases hch : hs.clientHello with
      | some ch => exact absurd ⟨c, cfg, ch, hc, hcfg, hch⟩ h
      | none =>
        simp only [bind, pure, Except.pure, hc, hch, deref_some, bind_ok, hcfg, deref_none, bind_error]
        rw [prefLoop_eq, bind_ok]

/-! #### the translated functions are the model -/

/-- the tables of the source hold the model's literals -/
theorem tie_tables :
    cipherSuitesPreferenceOrder.map (·.toNat) = treePref ∧ disabledCipherSuites.map (·.toNat) = treeDisabled ∧
    defaultCipherSuites.map (·.toNat) = treePref.take (treePref.length - treeDisabled.length) := by
  decide

/-- `Config.cipherSuites()` IS the model's `configSuites` -/
theorem tie_cfgSuites (p : Params) (hp : TreeParams p) (nn : List (BitVec 16) → Bool) (cfg : Config) :
    (Config.cipherSuites nn cfg).map (·.toNat) = Model.Negotiate.configSuites p (absSuites nn cfg.CipherSuites) := by
  rw [cfgSuites_eq]
  exact tie_cfgList p hp.pref hp.disabled nn _

/-- `cipherSuiteOk` IS the model's `cipherSuiteOk` (every branch, the dead ones included), on every flags value -/
theorem tie_cipherSuiteOk (p : Params) (hp : TreeParams p) (hs : serverHandshakeState) (c : cipherSuite) (f : Nat)
    (hf : c.flags = (f : Int)) :
    serverHandshakeState.cipherSuiteOk hs c = Model.Negotiate.cipherSuiteOk p (keys hs) f := by
  rw [cipherSuiteOk_eq, hf]
  exact okFlags_model p hp.ecSign hp.ecdhe _ f

/-- `selectCipherSuite` returns the table entry of the id the model's `selectCipherSuite` returns -/
theorem tie_selectCipherSuite (p : Params) (tbl : BitVec 16 → Option cipherSuite) (hT : TblAbs cipherSuite.flags p tbl)
    (ok : cipherSuite → Bool) (okM : Nat → Bool) (hok : ∀ s (f : Nat), s.flags = (f : Int) → ok s = okM f)
    (ids supported : List (BitVec 16)) :
    selectCipherSuite tbl ids supported ok = .ok ((selectId tbl ids supported ok).bind tbl) ∧
    (selectId tbl ids supported ok).map (·.toNat) =
      Model.Negotiate.selectCipherSuite p (ids.map (·.toNat)) (supported.map (·.toNat)) okM :=
  ⟨select_eq tbl ids supported ok, tie_selectId cipherSuite.flags p tbl hT ok okM hok ids supported⟩

/-- `mutualCipherSuite` is non-nil exactly when the model's is -/
theorem tie_mutualCipherSuite (p : Params) (tbl : BitVec 16 → Option cipherSuite) (hT : TblAbs cipherSuite.flags p tbl)
    (have_ : List (BitVec 16)) (want : BitVec 16) :
    (mutualCipherSuite tbl have_ want).isSome = Model.Negotiate.mutualCipherSuite p (have_.map (·.toNat)) want.toNat := by
  rw [mutual_eq]
  exact tie_mutualSpec cipherSuite.flags p tbl hT have_ want

/-- The translated server-side `pickCipherSuite` IS the model's `serverPick`: for every parameter set with this
tree's literals (`TreeParams`), every table the model's table describes, every state with non-nil `hs.c`,
`hs.c.config`, `hs.clientHello`, and the model configuration `s` whose `suites` is the Go `CipherSuites` field: the
call never fails; when the model picks the id `n`, the result is the table entry of the 16-bit id with that value,
stored in `hs.suite`, its `id` in `c.cipherSuite`, no alert, nil error; when the model picks nothing,
handshake_failure (40) is appended to `c.alerts`, the error is non-nil and `hs.suite` is nil. -/
theorem tie_pickCipherSuite (p : Params) (hp : TreeParams p) (tbl : BitVec 16 → Option cipherSuite)
    (hT : TblAbs cipherSuite.flags p tbl) (nn : List (BitVec 16) → Bool) (hs : serverHandshakeState)
    (c : Conn) (cfg : Config) (ch : clientHelloMsg)
    (hc : hs.c = some c) (hcfg : c.config = some cfg) (hch : hs.clientHello = some ch)
    (s : Gotlcp.Negotiate.ServerCfg) (hs' : s.suites = absSuites nn cfg.CipherSuites) :
    match Model.Negotiate.serverPick p (keys hs) s (ch.cipherSuites.map (·.toNat)) with
    | some n => ∃ id st, id.toNat = n ∧ tbl id = some st ∧
        serverHandshakeState.pickCipherSuite tbl nn hs = .ok (pickOk hs c st, none)
    | none => serverHandshakeState.pickCipherSuite tbl nn hs = .ok (pickFail hs c, some Go.Error.other) := by
  have hm := tie_pick cipherSuite.flags p tbl hT hp.pref hp.disabled hp.ecSign hp.ecdhe hp.first nn cfg.CipherSuites
    ch.cipherSuites (keys hs) s hs'
  rw [pick_eq tbl nn hs c cfg ch hc hcfg hch, cfgSuites_eq]
  unfold pickSpec selectSpec
  cases hsel : selectId tbl (prefList (cfgList nn cfg.CipherSuites)) ch.cipherSuites (fun x => okFlags (keys hs) x.flags) with
  | none =>
    rw [hsel] at hm
    rw [← hm]
    rfl
  | some id =>
    rw [hsel] at hm
    rw [← hm]
    obtain ⟨⟨st, hst, _⟩, _⟩ := (admits_iff _ _ _ _).mp (List.find?_some hsel)
    exact ⟨id, st, rfl, hst, by simp only [Option.bind_some, hst]⟩

/-! #### the client's `pickCipherSuite` -/

theorem checkALPN_eq : ∀ (c : List Str) (p : Str), checkALPN c p = checkPick c p := by
  checkALPN_proof Src.tlcp.sel.checkALPN

/-- `c.sendAlert(a)` on the stub connection -/
def alerted (c : Conn) (a : BitVec 8) : Conn := { c with alerts := c.alerts ++ [a] }

/-- the pointers the client functions dereference: `hs.c`, `hs.hello`, `hs.serverHello` -/
def ClientNonNil (hs : clientHandshakeState) : Prop :=
  ∃ c h sh, hs.c = some c ∧ hs.hello = some h ∧ hs.serverHello = some sh

/-- The client's `pickCipherSuite`, for every state with non-nil `hs.c`, `hs.hello`, `hs.serverHello`: the suite of
the ServerHello is accepted exactly when the ClientHello offered it and the table knows it; then `hs.suite` is its
table entry and `c.cipherSuite` that entry's id; else handshake_failure (40) and a non-nil error -/
theorem clientPick_eq (tbl : BitVec 16 → Option cipherSuite) (hs : clientHandshakeState)
    (c : Conn) (h : clientHelloMsg) (sh : serverHelloMsg)
    (hc : hs.c = some c) (hh : hs.hello = some h) (hsh : hs.serverHello = some sh) :
    clientHandshakeState.pickCipherSuite tbl hs = .ok
      (match mutualSpec tbl h.cipherSuites sh.cipherSuite with
       | some s => ({ hs with suite := some s, c := some { c with cipherSuite := s.id } }, none)
       | none => ({ hs with suite := none, c := some (alerted c 40#8) }, some Go.Error.other)) := by
  unfold clientHandshakeState.pickCipherSuite
  simp only [bind, pure, Except.pure, hc, hh, hsh, deref_some, bind_ok, mutual_eq]
  cases mutualSpec tbl h.cipherSuites sh.cipherSuite with
  | none => simp only [Option.isNone_none, if_true, Conn.sendAlert, Id.run, pure, bind, alerted, hc, hh, hsh]
  | some s => simp only [Option.isNone_some, Bool.false_eq_true, if_false, deref_some, bind_ok, hc, hh, hsh]

/-- outside `ClientNonNil` the Go code panics -/
theorem clientPick_nil (tbl : BitVec 16 → Option cipherSuite) (hs : clientHandshakeState) (h : ¬ ClientNonNil hs) :
    clientHandshakeState.pickCipherSuite tbl hs = .error nilDeref := by
  unfold clientHandshakeState.pickCipherSuite
  cases hh : hs.hello with
  | none => simp only [bind, pure, Except.pure, hh, deref_none, bind_error]
  | some hl =>
    cases hsh : hs.serverHello with
    | none => simp only [bind, pure, Except.pure, hh, hsh, deref_some, bind_ok, deref_none, bind_error]
    | some sh =>
      cases hc : hs.c with
      | some c => exact absurd ⟨c, hl, sh, hc, hh, hsh⟩ h
      | none =>
        simp only [bind, pure, Except.pure, hh, hsh, hc, deref_some, bind_ok, deref_none, bind_error]
        split <;> rfl


end Gotlcp.Tie.Select.tlcp

/-! ### DTLCP: the translated functions of `Gotlcp.Src.dtlcp.sel`

The same statements and proof scripts as in the TLCP section (the two translations are textually identical today,
but they are two families of Lean types, and each is proved on its own: a change of one stack breaks its section). -/

namespace Gotlcp.Tie.Select.dtlcp
open Gotlcp.Src.dtlcp.sel
open Gotlcp.Model.Negotiate (Params KeyFlags treePref treeDisabled)
open Gotlcp.Tie.Negotiate (checkPick Str)

/-- `selectCipherSuite(ids, supported, ok)` never fails and returns the table entry of the FIRST id of `ids` that the
table knows, `ok` admits and `supported` contains (`selectSpec`); nil when there is none -/
theorem select_eq (tbl : BitVec 16 → Option cipherSuite) (ids supported : List (BitVec 16)) (ok : cipherSuite → Bool) :
    selectCipherSuite tbl ids supported ok = .ok (selectSpec tbl ids supported ok) := by
  unfold selectCipherSuite
  simp only [bind, pure, Except.pure]
  have inner : ∀ id' : BitVec 16,
      (forIn supported ((none : Option (Option cipherSuite)), ()) fun suppID __s =>
        if (id' == suppID) = true then (Except.ok (ForInStep.done (some (tbl id'), ())) : Except String _)
        else Except.ok (ForInStep.yield (none, ()))) =
      Except.ok (if supported.contains id' = true then some (tbl id') else none, ()) := by
    intro id'
    rw [forIn_ok_loop _ (fun suppID _ => if (id' == suppID) = true then ForInStep.done (some (tbl id'), ())
      else ForInStep.yield (none, ())) (fun a b => by split <;> rfl)]
    have k := loop_find (fun x => id' == x) (fun _ => tbl id') _ (fun x st => rfl) supported
    rw [find?_beq_const] at k
    generalize loop _ supported _ = r at k
    obtain ⟨r1, r2⟩ := r
    simp only at k
    rw [k]
  rw [forIn_ok_loop _ (fun id' _ =>
    if admits tbl supported ok id' = true
    then ForInStep.done (some (tbl id'), ()) else ForInStep.yield (none, ())) (fun a b => by
      rw [inner]
      unfold admits
      cases h : tbl a with
      | none => rfl
      | some s =>
        simp only [Option.isNone_some, Bool.not_false, if_true, deref_some, bind_ok, Bool.false_eq_true, if_false]
        rcases Bool.eq_false_or_eq_true (ok s) with hok | hok <;>
          rcases Bool.eq_false_or_eq_true (supported.contains a) with hc | hc <;>
          simp only [hok, hc, if_true, if_false, Bool.not_true, Bool.not_false, Bool.true_and, Bool.false_and,
            Bool.and_false, Bool.and_true, Bool.false_eq_true])]
  have k := loop_find (admits tbl supported ok) tbl _
    (fun x st => rfl) ids
  generalize loop _ ids _ = r at k
  obtain ⟨r1, r2⟩ := r
  simp only at k
  subst k
  unfold selectSpec selectId
  simp only [bind_ok]
  generalize List.find? _ ids = o
  cases o <;> rfl

/-- the five key flags of the handshake state -/
def keys (hs : serverHandshakeState) : KeyFlags :=
  { ecdheOk := hs.ecdheOk, ecSignOk := hs.ecSignOk, ecDecryptOk := hs.ecDecryptOk, rsaDecryptOk := hs.rsaDecryptOk,
    rsaSignOk := hs.rsaSignOk }

/-- `cipherSuiteOk` depends on the five key flags and on bits 1 and 0 of the suite's `flags` only (`okFlags`) -/
theorem cipherSuiteOk_eq (hs : serverHandshakeState) (c : cipherSuite) :
    serverHandshakeState.cipherSuiteOk hs c = okFlags (keys hs) c.flags := by
  unfold serverHandshakeState.cipherSuiteOk okFlags keys
  simp only [Id.run, pure, bind, andInt_two, andInt_one]
  cases intBit c.flags 1 <;> cases intBit c.flags 0 <;> cases hs.ecSignOk <;> cases hs.ecDecryptOk <;>
    cases hs.ecdheOk <;> cases hs.rsaSignOk <;> cases hs.rsaDecryptOk <;> rfl

/-- the preference order literal of the source, and `defaultCipherSuites` (= the order minus its last
`len(disabledCipherSuites)` entries; nothing is disabled) -/
theorem tables_eq :
    cipherSuitesPreferenceOrder = prefOrder ∧ disabledCipherSuites = [] ∧ defaultCipherSuites = prefOrder ∧
    defaultCipherSuites = cipherSuitesPreferenceOrder.take (cipherSuitesPreferenceOrder.length - disabledCipherSuites.length) := by
  decide

/-- `Config.cipherSuites()`: the configured list when non-nil, else the default list = the whole preference order -/
theorem cfgSuites_eq (nn : List (BitVec 16) → Bool) (cfg : Config) :
    Config.cipherSuites nn cfg = cfgList nn cfg.CipherSuites := by
  unfold Config.cipherSuites cfgList
  simp only [Id.run, pure, bind, tables_eq.2.2.1]

/-- `mutualCipherSuite(have, want)`: the table entry of `want` (possibly nil) when `have` contains it, else nil -/
theorem mutual_eq (tbl : BitVec 16 → Option cipherSuite) (have_ : List (BitVec 16)) (want : BitVec 16) :
    mutualCipherSuite tbl have_ want = mutualSpec tbl have_ want := by
  unfold mutualCipherSuite mutualSpec
  simp only [Id.run, pure, bind, forIn_id_loop]
  have k := loop_find (fun x => x == want) tbl _ (fun x st => rfl) have_
  generalize loop _ have_ _ = r at k
  obtain ⟨r1, r2⟩ := r
  simp only at k
  subst k
  induction have_ with
  | nil => rfl
  | cons a t ih =>
    rw [List.find?_cons, List.contains_cons]
    by_cases h : (a == want) = true
    · have : a = want := by simpa using h
      subst this
      simp
    · have h' : (a == want) = false := by simpa using h
      have h'' : (want == a) = false := by rw [BEq.comm]; exact h'
      simp only [h', h'', Bool.false_or]
      exact ih

/-- the two nested loops that build `preferenceList` -/
theorem prefLoop_eq (cfgS : List (BitVec 16)) :
    (forIn cipherSuitesPreferenceOrder ([] : List (BitVec 16)) fun suiteID __s =>
        (forIn cfgS __s fun id' __s =>
              if (id' == suiteID) = true then (Except.ok (ForInStep.done (__s ++ [id'])) : Except String _)
              else Except.ok (ForInStep.yield __s)).bind
          fun __s => Except.ok (ForInStep.yield __s)) = Except.ok (prefList cfgS) := by
  rw [forIn_ok_loop _ (fun suiteID acc =>
    ForInStep.yield (if cfgS.contains suiteID = true then acc ++ [suiteID] else acc))
    (fun a b => by
      rw [forIn_ok_loop _ (fun id' acc => if (id' == a) = true then ForInStep.done (acc ++ [id']) else ForInStep.yield acc)
        (fun x y => by split <;> rfl), bind_ok, loop_append_if_mem a _ (fun x acc => rfl)])]
  rw [loop_filter (fun s => cfgS.contains s) _ (fun x acc => rfl), tables_eq.1]
  rfl

/-- the state after a successful / failed `pickCipherSuite` -/
def pickOk (hs : serverHandshakeState) (c : Conn) (s : cipherSuite) : serverHandshakeState :=
  { hs with suite := some s, c := some { c with cipherSuite := s.id } }
def pickFail (hs : serverHandshakeState) (c : Conn) : serverHandshakeState :=
  { hs with suite := none, c := some { c with alerts := c.alerts ++ [40#8] } }

/-- The server's `pickCipherSuite`, for every state with non-nil `hs.c`, `hs.c.config`, `hs.clientHello`: it never
fails; `preferenceList` is the preference order filtered by membership in the configured list; when
`selectCipherSuite(preferenceList, clientHello.cipherSuites, hs.cipherSuiteOk)` finds `s`: `hs.suite = s`,
`c.cipherSuite = s.id`, no alert, nil error; else `hs.suite = nil`, handshake_failure (40) appended to `c.alerts`,
a non-nil error -/
theorem pick_eq (tbl : BitVec 16 → Option cipherSuite) (nn : List (BitVec 16) → Bool) (hs : serverHandshakeState)
    (c : Conn) (cfg : Config) (ch : clientHelloMsg)
    (hc : hs.c = some c) (hcfg : c.config = some cfg) (hch : hs.clientHello = some ch) :
    serverHandshakeState.pickCipherSuite tbl nn hs = .ok
      (match pickSpec tbl (Config.cipherSuites nn cfg) ch.cipherSuites (fun s => okFlags (keys hs) s.flags) with
       | some s => (pickOk hs c s, none)
       | none => (pickFail hs c, some Go.Error.other)) := by
  unfold serverHandshakeState.pickCipherSuite pickSpec
  simp only [bind, pure, Except.pure, hc, hcfg, hch, deref_some, bind_ok, select_eq]
  rw [prefLoop_eq, bind_ok]
  have hok : serverHandshakeState.cipherSuiteOk hs = fun s => okFlags (keys hs) s.flags :=
    funext fun s => cipherSuiteOk_eq hs s
  rw [hok]
  cases selectSpec tbl (prefList (Config.cipherSuites nn cfg)) ch.cipherSuites (fun s => okFlags (keys hs) s.flags) with
  | none =>
    simp only [Option.isNone_none, if_true, pickFail, Conn.sendAlert, Id.run, pure, bind, hc, hcfg, hch]
  | some s =>
    simp only [Option.isNone_some, Bool.false_eq_true, if_false, deref_some, bind_ok, pickOk, hc, hcfg, hch]


/-- the pointers `pickCipherSuite` / `checkForResumption` dereference: `hs.c`, `hs.c.config`, `hs.clientHello` -/
def NonNil (hs : serverHandshakeState) : Prop :=
  ∃ c cfg ch, hs.c = some c ∧ c.config = some cfg ∧ hs.clientHello = some ch

/-- outside `NonNil` the Go code panics: the translation returns the nil-dereference error -/
theorem pick_nil (tbl : BitVec 16 → Option cipherSuite) (nn : List (BitVec 16) → Bool) (hs : serverHandshakeState)
    (h : ¬ NonNil hs) : serverHandshakeState.pickCipherSuite tbl nn hs = .error nilDeref := by
  unfold serverHandshakeState.pickCipherSuite
  cases hc : hs.c with
  | none => simp only [bind, pure, Except.pure, hc, deref_none, bind_error]
  | some c =>
    cases hcfg : c.config with
    | none => simp only [bind, pure, Except.pure, hc, deref_some, bind_ok, hcfg, deref_none, bind_error]
    | some cfg =>
      cases hch : hs.clientHello with
      | some ch => exact absurd ⟨c, cfg, ch, hc, hcfg, hch⟩ h
      | none =>
        simp only [bind, pure, Except.pure, hc, hch, deref_some, bind_ok, hcfg, deref_none, bind_error]
        rw [prefLoop_eq, bind_ok]

/-! #### the translated functions are the model -/

/-- the tables of the source hold the model's literals -/
theorem tie_tables :
    cipherSuitesPreferenceOrder.map (·.toNat) = treePref ∧ disabledCipherSuites.map (·.toNat) = treeDisabled ∧
    defaultCipherSuites.map (·.toNat) = treePref.take (treePref.length - treeDisabled.length) := by
  decide

/-- `Config.cipherSuites()` IS the model's `configSuites` -/
theorem tie_cfgSuites (p : Params) (hp : TreeParams p) (nn : List (BitVec 16) → Bool) (cfg : Config) :
    (Config.cipherSuites nn cfg).map (·.toNat) = Model.Negotiate.configSuites p (absSuites nn cfg.CipherSuites) := by
  rw [cfgSuites_eq]
  exact tie_cfgList p hp.pref hp.disabled nn _

/-- `cipherSuiteOk` IS the model's `cipherSuiteOk` (every branch, the dead ones included), on every flags value -/
theorem tie_cipherSuiteOk (p : Params) (hp : TreeParams p) (hs : serverHandshakeState) (c : cipherSuite) (f : Nat)
    (hf : c.flags = (f : Int)) :
    serverHandshakeState.cipherSuiteOk hs c = Model.Negotiate.cipherSuiteOk p (keys hs) f := by
  rw [cipherSuiteOk_eq, hf]
  exact okFlags_model p hp.ecSign hp.ecdhe _ f

/-- `selectCipherSuite` returns the table entry of the id the model's `selectCipherSuite` returns -/
theorem tie_selectCipherSuite (p : Params) (tbl : BitVec 16 → Option cipherSuite) (hT : TblAbs cipherSuite.flags p tbl)
    (ok : cipherSuite → Bool) (okM : Nat → Bool) (hok : ∀ s (f : Nat), s.flags = (f : Int) → ok s = okM f)
    (ids supported : List (BitVec 16)) :
    selectCipherSuite tbl ids supported ok = .ok ((selectId tbl ids supported ok).bind tbl) ∧
    (selectId tbl ids supported ok).map (·.toNat) =
      Model.Negotiate.selectCipherSuite p (ids.map (·.toNat)) (supported.map (·.toNat)) okM :=
  ⟨select_eq tbl ids supported ok, tie_selectId cipherSuite.flags p tbl hT ok okM hok ids supported⟩

/-- `mutualCipherSuite` is non-nil exactly when the model's is -/
theorem tie_mutualCipherSuite (p : Params) (tbl : BitVec 16 → Option cipherSuite) (hT : TblAbs cipherSuite.flags p tbl)
    (have_ : List (BitVec 16)) (want : BitVec 16) :
    (mutualCipherSuite tbl have_ want).isSome = Model.Negotiate.mutualCipherSuite p (have_.map (·.toNat)) want.toNat := by
  rw [mutual_eq]
  exact tie_mutualSpec cipherSuite.flags p tbl hT have_ want

/-- The translated server-side `pickCipherSuite` IS the model's `serverPick`: for every parameter set with this
tree's literals (`TreeParams`), every table the model's table describes, every state with non-nil `hs.c`,
`hs.c.config`, `hs.clientHello`, and the model configuration `s` whose `suites` is the Go `CipherSuites` field: the
call never fails; when the model picks the id `n`, the result is the table entry of the 16-bit id with that value,
stored in `hs.suite`, its `id` in `c.cipherSuite`, no alert, nil error; when the model picks nothing,
handshake_failure (40) is appended to `c.alerts`, the error is non-nil and `hs.suite` is nil. -/
theorem tie_pickCipherSuite (p : Params) (hp : TreeParams p) (tbl : BitVec 16 → Option cipherSuite)
    (hT : TblAbs cipherSuite.flags p tbl) (nn : List (BitVec 16) → Bool) (hs : serverHandshakeState)
    (c : Conn) (cfg : Config) (ch : clientHelloMsg)
    (hc : hs.c = some c) (hcfg : c.config = some cfg) (hch : hs.clientHello = some ch)
    (s : Gotlcp.Negotiate.ServerCfg) (hs' : s.suites = absSuites nn cfg.CipherSuites) :
    match Model.Negotiate.serverPick p (keys hs) s (ch.cipherSuites.map (·.toNat)) with
    | some n => ∃ id st, id.toNat = n ∧ tbl id = some st ∧
        serverHandshakeState.pickCipherSuite tbl nn hs = .ok (pickOk hs c st, none)
    | none => serverHandshakeState.pickCipherSuite tbl nn hs = .ok (pickFail hs c, some Go.Error.other) := by
  have hm := tie_pick cipherSuite.flags p tbl hT hp.pref hp.disabled hp.ecSign hp.ecdhe hp.first nn cfg.CipherSuites
    ch.cipherSuites (keys hs) s hs'
  rw [pick_eq tbl nn hs c cfg ch hc hcfg hch, cfgSuites_eq]
  unfold pickSpec selectSpec
  cases hsel : selectId tbl (prefList (cfgList nn cfg.CipherSuites)) ch.cipherSuites (fun x => okFlags (keys hs) x.flags) with
  | none =>
    rw [hsel] at hm
    rw [← hm]
    rfl
  | some id =>
    rw [hsel] at hm
    rw [← hm]
    obtain ⟨⟨st, hst, _⟩, _⟩ := (admits_iff _ _ _ _).mp (List.find?_some hsel)
    exact ⟨id, st, rfl, hst, by simp only [Option.bind_some, hst]⟩

/-! #### the client's `pickCipherSuite` -/

theorem checkALPN_eq : ∀ (c : List Str) (p : Str), checkALPN c p = checkPick c p := by
  checkALPN_proof Src.dtlcp.sel.checkALPN

/-- `c.sendAlert(a)` on the stub connection -/
def alerted (c : Conn) (a : BitVec 8) : Conn := { c with alerts := c.alerts ++ [a] }

/-- the pointers the client functions dereference: `hs.c`, `hs.hello`, `hs.serverHello` -/
def ClientNonNil (hs : clientHandshakeState) : Prop :=
  ∃ c h sh, hs.c = some c ∧ hs.hello = some h ∧ hs.serverHello = some sh

/-- The client's `pickCipherSuite`, for every state with non-nil `hs.c`, `hs.hello`, `hs.serverHello`: the suite of
the ServerHello is accepted exactly when the ClientHello offered it and the table knows it; then `hs.suite` is its
table entry and `c.cipherSuite` that entry's id; else handshake_failure (40) and a non-nil error -/
theorem clientPick_eq (tbl : BitVec 16 → Option cipherSuite) (hs : clientHandshakeState)
    (c : Conn) (h : clientHelloMsg) (sh : serverHelloMsg)
    (hc : hs.c = some c) (hh : hs.hello = some h) (hsh : hs.serverHello = some sh) :
    clientHandshakeState.pickCipherSuite tbl hs = .ok
      (match mutualSpec tbl h.cipherSuites sh.cipherSuite with
       | some s => ({ hs with suite := some s, c := some { c with cipherSuite := s.id } }, none)
       | none => ({ hs with suite := none, c := some (alerted c 40#8) }, some Go.Error.other)) := by
  unfold clientHandshakeState.pickCipherSuite
  simp only [bind, pure, Except.pure, hc, hh, hsh, deref_some, bind_ok, mutual_eq]
  cases mutualSpec tbl h.cipherSuites sh.cipherSuite with
  | none => simp only [Option.isNone_none, if_true, Conn.sendAlert, Id.run, pure, bind, alerted, hc, hh, hsh]
  | some s => simp only [Option.isNone_some, Bool.false_eq_true, if_false, deref_some, bind_ok, hc, hh, hsh]

/-- outside `ClientNonNil` the Go code panics -/
theorem clientPick_nil (tbl : BitVec 16 → Option cipherSuite) (hs : clientHandshakeState) (h : ¬ ClientNonNil hs) :
    clientHandshakeState.pickCipherSuite tbl hs = .error nilDeref := by
  unfold clientHandshakeState.pickCipherSuite
  cases hh : hs.hello with
  | none => simp only [bind, pure, Except.pure, hh, deref_none, bind_error]
  | some hl =>
    cases hsh : hs.serverHello with
    | none => simp only [bind, pure, Except.pure, hh, hsh, deref_some, bind_ok, deref_none, bind_error]
    | some sh =>
      cases hc : hs.c with
      | some c => exact absurd ⟨c, hl, sh, hc, hh, hsh⟩ h
      | none =>
        simp only [bind, pure, Except.pure, hh, hsh, hc, deref_some, bind_ok, deref_none, bind_error]
        split <;> rfl


end Gotlcp.Tie.Select.dtlcp

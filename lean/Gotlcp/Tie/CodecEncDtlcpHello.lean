/-
Tie by translation, the ENCODERS of dtlcp/handshake_messages.go, part 2: `serverHelloMsg.marshal` and
`clientHelloMsg.marshal` (cryptobyte body, then `dtlcpMarshalHeader`).

The extension blocks are the same Go text as in tlcp, over the dtlcp group's own copy of the builder
type (`cv` of Tie/CbBuilder.lean converts); the functions run in `Except String` because
`dtlcpMarshalHeader` indexes a slice, so the loops are `forIn` in that monad (`loopE`) and a guarded
block is read in continuation-passing style (`stepKC`).

  * `marshal_serverHello_cps`, `marshal_clientHello_cps`: the generated definitions ARE (`rfl`) chains of
    guarded blocks followed by the common tail `tailKD`;
  * `tie_enc_serverHello`, `tie_enc_clientHello`: every fresh object is encoded exactly as
    `Model.CodecDtlcp.encServerHello / encClientHello codesD` encodes its abstraction, and refused
    (builder error, no bytes, object untouched) exactly when the model refuses; no Go panic.

Core Lean only.
-/
import Gotlcp.Tie.CodecEncDtlcp
import Gotlcp.Tie.CodecEncCH

set_option linter.unusedSimpArgs false
set_option linter.unusedVariables false

namespace Gotlcp.Tie.CodecEncDtlcp
open Gotlcp Gotlcp.Wire Gotlcp.Wire.Msg Gotlcp.Model.CodecDtlcp Gotlcp.Tie.CbBuilder Gotlcp.Tie.CodecEnc
open Gotlcp.Model.Codec (Codes codesD ext vec16x2 prefixed encTA encSNI alpnItem optBytes exactly extBlock
  encClientExtensions encServerExtensions encClientHelloBody encServerHelloBody)
open Gotlcp.Src.dtlcp.codec
open Gotlcp.Tie.UnmarshalTlcpCodec (abs abs_nil abs_cons abs_append abs_length)
open Gotlcp.Tie.UnmarshalDtlcpCodec (hdrView)

/-! ## the dtlcp builder under `bld` -/

/-- the abstraction of a dtlcp builder (through the conversion to the tlcp copy of the type) -/
def bldD (b : cbBuilder) : Option Bytes := bld (cv b)

abbrev D0 : cbBuilder := {}

theorem bldD_D0 : bldD D0 = some [] := rfl
theorem bldD_addUint8 (b : cbBuilder) (v : BitVec 8) :
    bldD (cbBuilder.AddUint8 b v) = oapp (bldD b) (some [UInt8.ofBitVec v]) := by
  unfold bldD; rw [dtlcp_AddUint8, bld_addUint8]
theorem bldD_addUint16 (b : cbBuilder) (v : BitVec 16) :
    bldD (cbBuilder.AddUint16 b v) = oapp (bldD b) (some (w16 v).bytes) := by
  unfold bldD; rw [dtlcp_AddUint16, bld_addUint16]
theorem bldD_addBytes (b : cbBuilder) (v : BV) : bldD (cbBuilder.AddBytes b v) = oapp (bldD b) (some (abs v)) := by
  unfold bldD; rw [dtlcp_AddBytes, bld_addBytes]
theorem bldD_addLP1 (b c : cbBuilder) :
    bldD (cbBuilder.addLengthPrefixed b (1 : Int) c) = oapp (bldD b) ((bldD c).bind vec8) := by
  unfold bldD; rw [dtlcp_addLengthPrefixed, bld_addLP1]
theorem bldD_addLP2 (b c : cbBuilder) :
    bldD (cbBuilder.addLengthPrefixed b (2 : Int) c) = oapp (bldD b) ((bldD c).bind vec16) := by
  unfold bldD; rw [dtlcp_addLengthPrefixed, bld_addLP2]
theorem bldD_addLP3 (b c : cbBuilder) :
    bldD (cbBuilder.addLengthPrefixed b (3 : Int) c) = oapp (bldD b) ((bldD c).bind vec24) := by
  unfold bldD; rw [dtlcp_addLengthPrefixed, bld_addLP3]
theorem bldD_addBytesWithLength (b : cbBuilder) (v : BV) (n : Nat) :
    bldD (addBytesWithLength b v (n : Int)) = oapp (bldD b) (if (abs v).length = n then some (abs v) else none) := by
  unfold bldD; rw [dtlcp_addBytesWithLength, bld_addBytesWithLength]

theorem bytes_bldD (b : cbBuilder) :
    match bldD b with
    | some r => ∃ bs, cbBuilder.Bytes b = (bs, none) ∧ abs bs = r
    | none => cbBuilder.Bytes b = ([], some Go.Error.other) := by
  rw [dtlcp_Bytes]; exact bytes_bld (cv b)

macro "bldD_simp" : tactic => `(tactic| simp only [bldD_addUint8, bldD_addUint16, bldD_addBytes, bldD_addLP1, bldD_addLP2,
  bldD_addLP3, bldD_addBytesWithLength, bldD_D0, oapp_nil_left, oapp_nil_right, oapp_some, Option.bind_some,
  Option.bind_none, oapp_none_left, oapp_none_right, List.nil_append, List.append_nil])

theorem bldD_optExt (c : Bool) (f : cbBuilder → cbBuilder) (e : cbBuilder) (x : Option Bytes)
    (hf : bldD (f e) = oapp (bldD e) x) : bldD (optExt c f e) = oapp (bldD e) (optBytes c x) := by
  unfold optExt optBytes
  cases c
  · simp [oapp_nil_right]
  · simpa using hf

theorem bldD_foldl {α β : Type} (step : cbBuilder → α → cbBuilder) (enc : β → Option Bytes) (ab : α → β)
    (hstep : ∀ s x, bldD (step s x) = oapp (bldD s) (enc (ab x))) (l : List α) (b : cbBuilder) :
    bldD (l.foldl step b) = oapp (bldD b) (Wire.concatMapM enc (l.map ab)) := by
  induction l generalizing b with
  | nil => simp [Wire.concatMapM, oapp_nil_right]
  | cons x xs ih => simp only [List.foldl_cons, List.map_cons]; rw [ih, hstep, oapp_assoc, concatMapM_cons]

theorem bldD_fold16 (l : List (BitVec 16)) : bldD (l.foldl cbBuilder.AddUint16 D0) = some (w16s (l.map w16)) := by
  unfold bldD
  rw [dtlcp_fold_addUint16, bld_fold_addUint16]
  rfl

/-! ## guarded blocks and loops in `Except String` -/

/-- `if c { BLOCK }; rest` where BLOCK may contain a loop: the block in continuation-passing style -/
def stepKC {α R : Type} (c : Bool) (F : α → (α → R) → R) (k : α → R) (e : α) : R := if c then F e k else k e

theorem stepKC_eq {α R : Type} (c : Bool) (F : α → (α → R) → R) (g : α → α) (k : α → R) (e : α)
    (hF : F e k = k (g e)) : stepKC c F k e = k (optExt c g e) := by
  unfold stepKC optExt; cases c
  · rfl
  · simpa using hF

/-- `for x in l { s = step s x }` as the do-notation elaborates it in `Except String` -/
def loopE {α β : Type} (l : List α) (init : β) (step : β → α → β) : Except String β :=
  forIn l init fun x s => pure (ForInStep.yield (step s x))

theorem loopE_eq {α β : Type} (l : List α) (init : β) (step : β → α → β) :
    loopE l init step = .ok (l.foldl step init) := by
  unfold loopE
  induction l generalizing init with
  | nil => rfl
  | cons x xs ih =>
    simp only [List.forIn_cons, List.foldl_cons, pure, Except.pure, bind, ebind_ok] at ih ⊢
    exact ih _

/-! ## the common tail -/

/-- from `extBytes, err := exts.Bytes()` to the `return`; `bodyK` builds the fixed fields (in
continuation-passing style: clientHello has a loop there) -/
def tailKD {M : Type} (setRaw : BV → M) (m : M) (t : BitVec 8) (seq : BitVec 16) (fo fl : BitVec 32)
    (bodyK : (cbBuilder → Except String (Res M)) → Except String (Res M)) (e : cbBuilder) : Except String (Res M) :=
  let t0 := cbBuilder.Bytes e
  if t0.2.isSome then pure (m, [], t0.2) else
  bodyK fun body =>
  stepK (decide ((t0.1.length : Int) > 0)) (fun b => cbBuilder.addLengthPrefixed b 2 (cbBuilder.AddBytes D0 t0.1))
    (fun body =>
      let t1 := cbBuilder.Bytes body
      if t1.2.isSome then pure (m, [], t1.2) else do
      let r ← dtlcpMarshalHeader t t1.1 seq fo fl
      pure (setRaw r.1, r.1, r.2)) body

/-- a dtlcp marshal's answer agrees with the model encoder's (`Except.ok`: no Go panic either way) -/
def EncAgreeE {M : Type} (setRaw : BV → M) (m : M) (r : Except String (Res M)) (o : Option Bytes) : Prop :=
  match o with
  | some b => ∃ bytes, r = .ok (setRaw bytes, bytes, none) ∧ abs bytes = b
  | none => r = .ok (m, [], some Go.Error.other)

/-- the model's view of the tail -/
def tailModelD (T : Nat) (h : DHdr) (oe ob : Option Bytes) : Option Bytes :=
  oe.bind fun x => (oapp ob (extBlock x)).map fun body => header T body.length h ++ body

theorem tailD_agree {M : Type} (setRaw : BV → M) (m : M) (t : BitVec 8) (T : Nat) (hT : u8 T = UInt8.ofBitVec t)
    (seq : BitVec 16) (fo fl : BitVec 32) (bodyK : (cbBuilder → Except String (Res M)) → Except String (Res M))
    (body e : cbBuilder) (hK : ∀ k, bodyK k = k body) (oe ob : Option Bytes) (he : bldD e = oe) (hb : bldD body = ob) :
    EncAgreeE setRaw m (tailKD setRaw m t seq fo fl bodyK e) (tailModelD T (hdrView seq fo fl) oe ob) := by
  unfold tailKD tailModelD
  have hbe := bytes_bldD e
  rw [he] at hbe
  cases oe with
  | none =>
    simp only at hbe
    simp only [hbe, Option.isSome_some, if_true, Option.bind_none, EncAgreeE, pure, Except.pure]
  | some x =>
    obtain ⟨bs, ebs, hbs⟩ := hbe
    simp only [ebs, Option.isSome_none, Bool.false_eq_true, if_false, Option.bind_some, stepK_eq, hK]
    have hopt : bldD (optExt (decide ((bs.length : Int) > 0))
        (fun b => cbBuilder.addLengthPrefixed b 2 (cbBuilder.AddBytes D0 bs)) body) = oapp ob (extBlock x) := by
      rw [bldD_optExt _ _ _ (vec16 x), hb, extBlock_eq, int_pos, ← hbs, abs_length]
      bldD_simp
      rw [hbs]
    have hb2 := bytes_bldD (optExt (decide ((bs.length : Int) > 0))
        (fun b => cbBuilder.addLengthPrefixed b 2 (cbBuilder.AddBytes D0 bs)) body)
    rw [hopt] at hb2
    cases hob : oapp ob (extBlock x) with
    | none =>
      rw [hob] at hb2
      simp only at hb2
      simp only [hb2, Option.isSome_some, if_true, Option.map_none, EncAgreeE, pure, Except.pure]
    | some bb =>
      rw [hob] at hb2
      obtain ⟨bs2, ebs2, hbs2⟩ := hb2
      obtain ⟨xx, hx, hax⟩ := tie_marshalHeader t T hT bs2 seq fo fl
      simp only [ebs2, Option.isSome_none, Bool.false_eq_true, if_false, Option.map_some, EncAgreeE, hx, bind, ebind_ok,
        pure, Except.pure]
      exact ⟨xx, rfl, by rw [hax, ← hbs2, abs_length]⟩

/-! ## serverHelloMsg -/

def absSH (m : serverHelloMsg) : ServerHello :=
  ⟨w16 m.vers, abs m.random, abs m.sessionId, w16 m.cipherSuite, UInt8.ofBitVec m.compressionMethod, m.ocspStapling,
    abs m.ocspResponse, abs m.alpnProtocol, m.serverNameAck⟩

def setRawSH (m : serverHelloMsg) (r : BV) : serverHelloMsg := { m with raw := r }

def shF1 (m : serverHelloMsg) (e : cbBuilder) : cbBuilder :=
  cbBuilder.addLengthPrefixed (cbBuilder.AddUint16 e 5#16) 2
    (cbBuilder.addLengthPrefixed (cbBuilder.AddUint8 D0 1#8) 3 (cbBuilder.AddBytes D0 m.ocspResponse))
def shF2 (m : serverHelloMsg) (e : cbBuilder) : cbBuilder :=
  cbBuilder.addLengthPrefixed (cbBuilder.AddUint16 e 16#16) 2
    (cbBuilder.addLengthPrefixed D0 2 (cbBuilder.addLengthPrefixed D0 1 (cbBuilder.AddBytes D0 m.alpnProtocol)))
def shF3 (e : cbBuilder) : cbBuilder := cbBuilder.AddUint16 (cbBuilder.AddUint16 e 0#16) 0#16

def shBody (m : serverHelloMsg) : cbBuilder :=
  cbBuilder.AddUint8 (cbBuilder.AddUint16 (cbBuilder.addLengthPrefixed
    (addBytesWithLength (cbBuilder.AddUint16 D0 m.vers) m.random 32) 1 (cbBuilder.AddBytes D0 m.sessionId))
    m.cipherSuite) m.compressionMethod

def shExts (m : serverHelloMsg) : cbBuilder :=
  optExt m.serverNameAck shF3
    (optExt (m.alpnProtocol != []) (shF2 m)
      (optExt (m.ocspStapling && decide ((m.ocspResponse.length : Int) > 0)) (shF1 m) D0))

/-- the generated definition, re-read as three guarded blocks and the tail (definitional unfolding) -/
theorem marshal_serverHello_cps (m : serverHelloMsg) : serverHelloMsg.marshal m =
    if !m.raw.isEmpty then pure (m, m.raw, none) else
    stepK (m.ocspStapling && decide ((m.ocspResponse.length : Int) > 0)) (shF1 m)
      (stepK (m.alpnProtocol != []) (shF2 m)
        (stepK m.serverNameAck shF3
          (tailKD (setRawSH m) m 2#8 m.messageSeq m.fragmentOffset m.fragmentLength (fun k => k (shBody m))))) D0 := rfl

theorem marshal_serverHello_cached (m : serverHelloMsg) (h : m.raw ≠ []) :
    serverHelloMsg.marshal m = .ok (m, m.raw, none) := by
  rw [marshal_serverHello_cps, if_pos (not_empty h)]; rfl

theorem marshal_serverHello_eq (m : serverHelloMsg) (h : m.raw = []) :
    serverHelloMsg.marshal m =
      tailKD (setRawSH m) m 2#8 m.messageSeq m.fragmentOffset m.fragmentLength (fun k => k (shBody m)) (shExts m) := by
  rw [marshal_serverHello_cps, h]
  simp only [List.isEmpty_nil, Bool.not_true, Bool.false_eq_true, if_false, stepK_eq]
  rfl

theorem bldD_shF1 (m : serverHelloMsg) (e : cbBuilder) :
    bldD (shF1 m e) = oapp (bldD e) (ext codesD.extStatusRequest (prefixed 1 (vec24 (abs m.ocspResponse)))) := by
  unfold shF1
  rw [ext_eq, prefixed_eq]
  bldD_simp
  rw [oapp_assoc]; rfl

theorem bldD_shF2 (m : serverHelloMsg) (e : cbBuilder) :
    bldD (shF2 m e) = oapp (bldD e) (ext codesD.extALPN (vec16x2 (vec8 (abs m.alpnProtocol)))) := by
  unfold shF2
  rw [ext_eq, vec16x2_eq]
  bldD_simp
  rw [oapp_assoc]; rfl

theorem bldD_shF3 (e : cbBuilder) : bldD (shF3 e) = oapp (bldD e) (some (be16 codesD.extServerName ++ [0, 0])) := by
  unfold shF3
  bldD_simp
  rw [oapp_assoc]; rfl

theorem bldD_shExts (m : serverHelloMsg) : bldD (shExts m) = encServerExtensions codesD (absSH m) := by
  unfold shExts
  rw [bldD_optExt _ _ _ _ (bldD_shF3 _), bldD_optExt _ _ _ _ (bldD_shF2 m _), bldD_optExt _ _ _ _ (bldD_shF1 m _),
    encServerExtensions_eq, bldD_D0, oapp_nil_left, bne_nil, int_pos, ← abs_length m.ocspResponse]
  rfl

/-- the fixed fields of a ServerHello in the model -/
def shBodyModel (c : Codes) (m : ServerHello) : Option Bytes :=
  oapp (oapp (oapp (oapp (some m.vers.bytes) (exactly c.randomLen m.random)) (vec8 m.sessionId))
    (some m.suite.bytes)) (some [m.compression])

theorem encServerHelloBody_eq (c : Codes) (m : ServerHello) :
    encServerHelloBody c m = (encServerExtensions c m).bind fun e => oapp (shBodyModel c m) (extBlock e) := by
  unfold encServerHelloBody shBodyModel
  cases encServerExtensions c m with
  | none => rfl
  | some e =>
    simp only [Option.bind_some]
    cases exactly c.randomLen m.random <;> cases vec8 m.sessionId <;> cases extBlock e <;>
      simp only [oapp, List.append_assoc]

theorem bldD_shBody (m : serverHelloMsg) : bldD (shBody m) = shBodyModel codesD (absSH m) := by
  unfold shBody shBodyModel
  have h32 : ((32 : Int)) = ((32 : Nat) : Int) := rfl
  rw [h32]
  bldD_simp
  rfl

theorem encServerHello_eqD (c : Codes) (h : DHdr) (m : ServerHello) :
    Model.CodecDtlcp.encServerHello c h m =
      tailModelD c.tServerHello h (encServerExtensions c m) (shBodyModel c m) := by
  unfold Model.CodecDtlcp.encServerHello tailModelD
  rw [encServerHelloBody_eq]
  cases encServerExtensions c m with
  | none => rfl
  | some e => simp only [Option.bind_some]; cases oapp (shBodyModel c m) (extBlock e) <;> rfl

/-- **`serverHelloMsg.marshal`** (dtlcp) = model encoder, every fresh message object; no Go panic -/
theorem tie_enc_serverHello (m : serverHelloMsg) (h : m.raw = []) :
    EncAgreeE (setRawSH m) m (serverHelloMsg.marshal m)
      (Model.CodecDtlcp.encServerHello codesD (hdrView m.messageSeq m.fragmentOffset m.fragmentLength) (absSH m)) := by
  rw [marshal_serverHello_eq m h, encServerHello_eqD]
  exact tailD_agree _ m 2#8 _ codes_facts.2.1 _ _ _ _ (shBody m) _ (fun _ => rfl) _ _ (bldD_shExts m) (bldD_shBody m)

/-! ## clientHelloMsg -/

def absTA (t : TrustedAuthority) : TA := ⟨UInt8.ofBitVec t.IdentifierType, abs t.Identifier⟩

def taStep (s : cbBuilder) (ta : TrustedAuthority) : cbBuilder :=
  let c := cbBuilder.AddUint8 s ta.IdentifierType
  if (ta.IdentifierType == 0#8) = true then c
  else if (ta.IdentifierType == 4#8 || ta.IdentifierType == 5#8) = true then cbBuilder.AddBytes c ta.Identifier
  else if (ta.IdentifierType == 2#8) = true then cbBuilder.addLengthPrefixed c 2 (cbBuilder.AddBytes D0 ta.Identifier)
  else c

/-- the trusted-authority loop as the do-notation elaborates it -/
def taLoopE (l : List TrustedAuthority) (init : cbBuilder) : Except String cbBuilder :=
  forIn l init fun ta s =>
    let c := cbBuilder.AddUint8 s ta.IdentifierType
    if (ta.IdentifierType == 0#8) = true then pure (ForInStep.yield c)
    else if (ta.IdentifierType == 4#8 || ta.IdentifierType == 5#8) = true then
      pure (ForInStep.yield (cbBuilder.AddBytes c ta.Identifier))
    else if (ta.IdentifierType == 2#8) = true then
      pure (ForInStep.yield (cbBuilder.addLengthPrefixed c 2 (cbBuilder.AddBytes D0 ta.Identifier)))
    else pure (ForInStep.yield c)

theorem taBodyE_eq (ta : TrustedAuthority) (s : cbBuilder) :
    (let c := cbBuilder.AddUint8 s ta.IdentifierType
     if (ta.IdentifierType == 0#8) = true then (pure (ForInStep.yield c) : Except String (ForInStep cbBuilder))
     else if (ta.IdentifierType == 4#8 || ta.IdentifierType == 5#8) = true then
       pure (ForInStep.yield (cbBuilder.AddBytes c ta.Identifier))
     else if (ta.IdentifierType == 2#8) = true then
       pure (ForInStep.yield (cbBuilder.addLengthPrefixed c 2 (cbBuilder.AddBytes D0 ta.Identifier)))
     else pure (ForInStep.yield c)) = pure (ForInStep.yield (taStep s ta)) := by
  unfold taStep
  simp only
  split
  · rfl
  · split
    · rfl
    · split <;> rfl

theorem taLoopE_eq (l : List TrustedAuthority) (init : cbBuilder) : taLoopE l init = .ok (l.foldl taStep init) := by
  rw [← loopE_eq]
  unfold taLoopE loopE
  refine congrArg (fun f => forIn l init f) ?_
  funext ta s
  exact taBodyE_eq ta s

theorem bldD_taStep (s : cbBuilder) (ta : TrustedAuthority) :
    bldD (taStep s ta) = oapp (bldD s) (encTA codesD (absTA ta)) := by
  unfold taStep encTA absTA
  have c0 : codesD.taPreAgreed = (0#8).toNat := by decide
  have c2 : codesD.taX509Name = (2#8).toNat := by decide
  have c4 : codesD.taKeyHash = (4#8).toNat := by decide
  have c5 : codesD.taCertHash = (5#8).toNat := by decide
  rw [c0, c2, c4, c5]
  by_cases h0 : ta.IdentifierType = 0#8
  · simp only [h0, beq_self_eq_true, if_true]; bldD_simp; rfl
  · have n0 := toNat_ne h0
    have b0 : (ta.IdentifierType == 0#8) = false := by simpa using h0
    simp only [b0, Bool.false_eq_true, if_false, n0]
    by_cases h4 : ta.IdentifierType = 4#8
    · simp only [h4]; rw [if_pos (by decide), if_pos (by decide)]; bldD_simp; rw [oapp_assoc]; rfl
    · by_cases h5 : ta.IdentifierType = 5#8
      · simp only [h5]; rw [if_pos (by decide), if_pos (by decide)]; bldD_simp; rw [oapp_assoc]; rfl
      · have n4 := toNat_ne h4
        have n5 := toNat_ne h5
        have b4 : (ta.IdentifierType == 4#8) = false := by simpa using h4
        have b5 : (ta.IdentifierType == 5#8) = false := by simpa using h5
        simp only [b4, b5, Bool.or_self, Bool.false_eq_true, if_false, n4, n5, or_self]
        by_cases h2 : ta.IdentifierType = 2#8
        · simp only [h2]; rw [if_pos (by decide), if_pos (by decide)]; bldD_simp; rw [prefixed_eq, oapp_assoc]
        · have n2 := toNat_ne h2
          have b2 : (ta.IdentifierType == 2#8) = false := by simpa using h2
          simp only [b2, Bool.false_eq_true, if_false, n2]
          bldD_simp

/-- the model's view of a dtlcp `clientHelloMsg` object (with the cookie) -/
def absCH (m : clientHelloMsg) : ClientHello :=
  ⟨w16 m.vers, abs m.random, abs m.sessionId, abs m.cookie, m.cipherSuites.map w16, abs m.compressionMethods,
    abs m.serverName, m.trustedAuthorities.map absTA, m.ocspStapling, m.supportedCurves.map w16,
    m.supportedSignatureAlgorithms.map w16, m.alpnProtocols.map abs, abs m.ibsdhClientID⟩

def setRawCH (m : clientHelloMsg) (r : BV) : clientHelloMsg := { m with raw := r }

abbrev RCH := Except String (Res clientHelloMsg)

/-- server_name -/
def chF1 (m : clientHelloMsg) (e : cbBuilder) : cbBuilder :=
  cbBuilder.addLengthPrefixed (cbBuilder.AddUint16 e 0#16) 2
    (cbBuilder.addLengthPrefixed D0 2
      (cbBuilder.addLengthPrefixed (cbBuilder.AddUint8 D0 0#8) 2 (cbBuilder.AddBytes D0 m.serverName)))
/-- trusted_ca_keys, with its loop: continuation-passing -/
def chF2K (m : clientHelloMsg) (e : cbBuilder) (k : cbBuilder → RCH) : RCH :=
  taLoopE m.trustedAuthorities D0 >>= fun s =>
    k (cbBuilder.addLengthPrefixed (cbBuilder.AddUint16 e 3#16) 2 (cbBuilder.addLengthPrefixed D0 2 s))
def chF2 (m : clientHelloMsg) (e : cbBuilder) : cbBuilder :=
  cbBuilder.addLengthPrefixed (cbBuilder.AddUint16 e 3#16) 2
    (cbBuilder.addLengthPrefixed D0 2 (m.trustedAuthorities.foldl taStep D0))
/-- status_request -/
def chF3 (e : cbBuilder) : cbBuilder :=
  cbBuilder.addLengthPrefixed (cbBuilder.AddUint16 e 5#16) 2
    (cbBuilder.AddUint16 (cbBuilder.AddUint16 (cbBuilder.AddUint8 D0 1#8) 0#16) 0#16)
/-- supported_groups -/
def chF4K (m : clientHelloMsg) (e : cbBuilder) (k : cbBuilder → RCH) : RCH :=
  loopE m.supportedCurves D0 cbBuilder.AddUint16 >>= fun s =>
    k (cbBuilder.addLengthPrefixed (cbBuilder.AddUint16 e 10#16) 2 (cbBuilder.addLengthPrefixed D0 2 s))
def chF4 (m : clientHelloMsg) (e : cbBuilder) : cbBuilder :=
  cbBuilder.addLengthPrefixed (cbBuilder.AddUint16 e 10#16) 2
    (cbBuilder.addLengthPrefixed D0 2 (m.supportedCurves.foldl cbBuilder.AddUint16 D0))
/-- signature_algorithms -/
def chF5K (m : clientHelloMsg) (e : cbBuilder) (k : cbBuilder → RCH) : RCH :=
  loopE m.supportedSignatureAlgorithms D0 cbBuilder.AddUint16 >>= fun s =>
    k (cbBuilder.addLengthPrefixed (cbBuilder.AddUint16 e 13#16) 2 (cbBuilder.addLengthPrefixed D0 2 s))
def chF5 (m : clientHelloMsg) (e : cbBuilder) : cbBuilder :=
  cbBuilder.addLengthPrefixed (cbBuilder.AddUint16 e 13#16) 2
    (cbBuilder.addLengthPrefixed D0 2 (m.supportedSignatureAlgorithms.foldl cbBuilder.AddUint16 D0))
/-- ALPN -/
def alpnStep (s : cbBuilder) (p : BV) : cbBuilder := cbBuilder.addLengthPrefixed s 1 (cbBuilder.AddBytes D0 p)
def chF6K (m : clientHelloMsg) (e : cbBuilder) (k : cbBuilder → RCH) : RCH :=
  loopE m.alpnProtocols D0 alpnStep >>= fun s =>
    k (cbBuilder.addLengthPrefixed (cbBuilder.AddUint16 e 16#16) 2 (cbBuilder.addLengthPrefixed D0 2 s))
def chF6 (m : clientHelloMsg) (e : cbBuilder) : cbBuilder :=
  cbBuilder.addLengthPrefixed (cbBuilder.AddUint16 e 16#16) 2
    (cbBuilder.addLengthPrefixed D0 2 (m.alpnProtocols.foldl alpnStep D0))
/-- IBSDH client id -/
def chF7 (m : clientHelloMsg) (e : cbBuilder) : cbBuilder :=
  cbBuilder.addLengthPrefixed (cbBuilder.AddUint16 e 66#16) 2
    (cbBuilder.addLengthPrefixed D0 2 (cbBuilder.AddBytes D0 m.ibsdhClientID))

/-- the fixed fields (with the cipher-suite loop: continuation-passing) -/
def chBodyK (m : clientHelloMsg) (k : cbBuilder → RCH) : RCH :=
  loopE m.cipherSuites D0 cbBuilder.AddUint16 >>= fun s =>
    k (cbBuilder.addLengthPrefixed (cbBuilder.addLengthPrefixed (cbBuilder.addLengthPrefixed
      (cbBuilder.addLengthPrefixed (addBytesWithLength (cbBuilder.AddUint16 D0 m.vers) m.random 32) 1
        (cbBuilder.AddBytes D0 m.sessionId)) 1 (cbBuilder.AddBytes D0 m.cookie)) 2 s) 1
      (cbBuilder.AddBytes D0 m.compressionMethods))
def chBody (m : clientHelloMsg) : cbBuilder :=
  cbBuilder.addLengthPrefixed (cbBuilder.addLengthPrefixed (cbBuilder.addLengthPrefixed
    (cbBuilder.addLengthPrefixed (addBytesWithLength (cbBuilder.AddUint16 D0 m.vers) m.random 32) 1
      (cbBuilder.AddBytes D0 m.sessionId)) 1 (cbBuilder.AddBytes D0 m.cookie)) 2
    (m.cipherSuites.foldl cbBuilder.AddUint16 D0)) 1 (cbBuilder.AddBytes D0 m.compressionMethods)

def chExts (m : clientHelloMsg) : cbBuilder :=
  optExt (decide ((m.ibsdhClientID.length : Int) > 0)) (chF7 m)
   (optExt (decide ((m.alpnProtocols.length : Int) > 0)) (chF6 m)
    (optExt (decide ((m.supportedSignatureAlgorithms.length : Int) > 0)) (chF5 m)
     (optExt (decide ((m.supportedCurves.length : Int) > 0)) (chF4 m)
      (optExt m.ocspStapling chF3
       (optExt (decide ((m.trustedAuthorities.length : Int) > 0)) (chF2 m)
        (optExt (decide ((m.serverName.length : Int) > 0)) (chF1 m) D0))))))

/-- the generated definition, re-read as seven guarded blocks and the tail (definitional unfolding) -/
theorem marshal_clientHello_cps (m : clientHelloMsg) : clientHelloMsg.marshal m =
    if !m.raw.isEmpty then pure (m, m.raw, none) else
    stepKC (decide ((m.serverName.length : Int) > 0)) (fun e k => k (chF1 m e))
     (stepKC (decide ((m.trustedAuthorities.length : Int) > 0)) (chF2K m)
      (stepKC m.ocspStapling (fun e k => k (chF3 e))
       (stepKC (decide ((m.supportedCurves.length : Int) > 0)) (chF4K m)
        (stepKC (decide ((m.supportedSignatureAlgorithms.length : Int) > 0)) (chF5K m)
         (stepKC (decide ((m.alpnProtocols.length : Int) > 0)) (chF6K m)
          (stepKC (decide ((m.ibsdhClientID.length : Int) > 0)) (fun e k => k (chF7 m e))
            (tailKD (setRawCH m) m 1#8 m.messageSeq m.fragmentOffset m.fragmentLength (chBodyK m)))))))) D0 := rfl

theorem marshal_clientHello_cached (m : clientHelloMsg) (h : m.raw ≠ []) :
    clientHelloMsg.marshal m = .ok (m, m.raw, none) := by
  rw [marshal_clientHello_cps, if_pos (not_empty h)]; rfl

theorem chF2K_eq (m : clientHelloMsg) (e : cbBuilder) (k : cbBuilder → RCH) : chF2K m e k = k (chF2 m e) := by
  unfold chF2K chF2; rw [taLoopE_eq]; rfl
theorem chF4K_eq (m : clientHelloMsg) (e : cbBuilder) (k : cbBuilder → RCH) : chF4K m e k = k (chF4 m e) := by
  unfold chF4K chF4; rw [loopE_eq]; rfl
theorem chF5K_eq (m : clientHelloMsg) (e : cbBuilder) (k : cbBuilder → RCH) : chF5K m e k = k (chF5 m e) := by
  unfold chF5K chF5; rw [loopE_eq]; rfl
theorem chF6K_eq (m : clientHelloMsg) (e : cbBuilder) (k : cbBuilder → RCH) : chF6K m e k = k (chF6 m e) := by
  unfold chF6K chF6; rw [loopE_eq]; rfl
theorem chBodyK_eq (m : clientHelloMsg) (k : cbBuilder → RCH) : chBodyK m k = k (chBody m) := by
  unfold chBodyK chBody; rw [loopE_eq]; rfl

theorem marshal_clientHello_eq (m : clientHelloMsg) (h : m.raw = []) :
    clientHelloMsg.marshal m =
      tailKD (setRawCH m) m 1#8 m.messageSeq m.fragmentOffset m.fragmentLength (chBodyK m) (chExts m) := by
  rw [marshal_clientHello_cps, h]
  simp only [List.isEmpty_nil, Bool.not_true, Bool.false_eq_true, if_false]
  rw [stepKC_eq _ _ (chF1 m) _ _ rfl, stepKC_eq _ _ (chF2 m) _ _ (chF2K_eq m _ _), stepKC_eq _ _ chF3 _ _ rfl,
    stepKC_eq _ _ (chF4 m) _ _ (chF4K_eq m _ _), stepKC_eq _ _ (chF5 m) _ _ (chF5K_eq m _ _),
    stepKC_eq _ _ (chF6 m) _ _ (chF6K_eq m _ _), stepKC_eq _ _ (chF7 m) _ _ rfl]
  rfl

/-! ### one lemma per extension -/

theorem bldD_chF1 (m : clientHelloMsg) (e : cbBuilder) :
    bldD (chF1 m e) = oapp (bldD e) (encSNI codesD (abs m.serverName)) := by
  unfold chF1 encSNI
  rw [ext_eq, vec16x2_eq, prefixed_eq]
  bldD_simp
  rw [oapp_assoc]; rfl

theorem bldD_chF2 (m : clientHelloMsg) (e : cbBuilder) :
    bldD (chF2 m e) = oapp (bldD e)
      (ext codesD.extTrustedCAKeys (vec16x2 (Wire.concatMapM (encTA codesD) (m.trustedAuthorities.map absTA)))) := by
  unfold chF2
  rw [ext_eq, vec16x2_eq, bldD_addLP2, bldD_addLP2, bldD_foldl taStep (encTA codesD) absTA bldD_taStep]
  bldD_simp
  rw [oapp_assoc]; rfl

theorem bldD_chF3 (e : cbBuilder) :
    bldD (chF3 e) = oapp (bldD e) (ext codesD.extStatusRequest (some [1, 0, 0, 0, 0])) := by
  unfold chF3
  rw [ext_eq]
  bldD_simp
  rw [oapp_assoc]; rfl

theorem bldD_chF4 (m : clientHelloMsg) (e : cbBuilder) :
    bldD (chF4 m e) = oapp (bldD e)
      (ext codesD.extSupportedCurves (vec16x2 (some (w16s (m.supportedCurves.map w16))))) := by
  unfold chF4
  rw [ext_eq, vec16x2_eq, bldD_addLP2, bldD_addLP2, bldD_fold16]
  bldD_simp
  rw [oapp_assoc]; rfl

theorem bldD_chF5 (m : clientHelloMsg) (e : cbBuilder) :
    bldD (chF5 m e) = oapp (bldD e)
      (ext codesD.extSignatureAlgorithms (vec16x2 (some (w16s (m.supportedSignatureAlgorithms.map w16))))) := by
  unfold chF5
  rw [ext_eq, vec16x2_eq, bldD_addLP2, bldD_addLP2, bldD_fold16]
  bldD_simp
  rw [oapp_assoc]; rfl

theorem bldD_alpnStep (s : cbBuilder) (p : BV) : bldD (alpnStep s p) = oapp (bldD s) (alpnItem (abs p)) := by
  unfold alpnStep alpnItem
  bldD_simp

theorem bldD_chF6 (m : clientHelloMsg) (e : cbBuilder) :
    bldD (chF6 m e) = oapp (bldD e)
      (ext codesD.extALPN (vec16x2 (Wire.concatMapM alpnItem (m.alpnProtocols.map abs)))) := by
  unfold chF6
  rw [ext_eq, vec16x2_eq, bldD_addLP2, bldD_addLP2, bldD_foldl alpnStep alpnItem abs bldD_alpnStep]
  bldD_simp
  rw [oapp_assoc]; rfl

theorem bldD_chF7 (m : clientHelloMsg) (e : cbBuilder) :
    bldD (chF7 m e) = oapp (bldD e) (ext codesD.extClientID (vec16x2 (some (abs m.ibsdhClientID)))) := by
  unfold chF7
  rw [ext_eq, vec16x2_eq]
  bldD_simp
  rw [oapp_assoc]; rfl

theorem bldD_chExts (m : clientHelloMsg) : bldD (chExts m) = encClientExtensions codesD (absCH m) := by
  unfold chExts
  rw [bldD_optExt _ _ _ _ (bldD_chF7 m _), bldD_optExt _ _ _ _ (bldD_chF6 m _), bldD_optExt _ _ _ _ (bldD_chF5 m _),
    bldD_optExt _ _ _ _ (bldD_chF4 m _), bldD_optExt _ _ _ _ (bldD_chF3 _), bldD_optExt _ _ _ _ (bldD_chF2 m _),
    bldD_optExt _ _ _ _ (bldD_chF1 m _), encClientExtensions_eq, bldD_D0, oapp_nil_left]
  simp only [int_pos, absCH, abs_length, List.length_map]

theorem bldD_chBody (m : clientHelloMsg) : bldD (chBody m) = chBodyModel codesD true (absCH m) := by
  unfold chBody chBodyModel
  have h32 : ((32 : Int)) = ((32 : Nat) : Int) := rfl
  rw [h32, bldD_addLP1, bldD_addLP2, bldD_addLP1, bldD_addLP1, bldD_fold16]
  bldD_simp
  simp only [optBytes, if_true]
  rfl

theorem encClientHello_eqD (c : Codes) (h : DHdr) (m : ClientHello) :
    Model.CodecDtlcp.encClientHello c h m =
      tailModelD c.tClientHello h (encClientExtensions c m) (chBodyModel c true m) := by
  unfold Model.CodecDtlcp.encClientHello tailModelD
  rw [encClientHelloBody_eq]
  cases encClientExtensions c m with
  | none => rfl
  | some e => simp only [Option.bind_some]; cases oapp (chBodyModel c true m) (extBlock e) <;> rfl

/-- **`clientHelloMsg.marshal`** (dtlcp) = model encoder, every fresh message object; no Go panic -/
theorem tie_enc_clientHello (m : clientHelloMsg) (h : m.raw = []) :
    EncAgreeE (setRawCH m) m (clientHelloMsg.marshal m)
      (Model.CodecDtlcp.encClientHello codesD (hdrView m.messageSeq m.fragmentOffset m.fragmentLength) (absCH m)) := by
  rw [marshal_clientHello_eq m h, encClientHello_eqD]
  exact tailD_agree _ m 1#8 _ codes_facts.1 _ _ _ _ (chBody m) _ (chBodyK_eq m) _ _ (bldD_chExts m) (bldD_chBody m)

end Gotlcp.Tie.CodecEncDtlcp

/-
Tie by translation, tlcp/handshake_messages.go, second half: the translated hand-written decoders
(`Gotlcp.Src.tlcp.*`, regenerated from the Go source on every run) compute, for EVERY byte string,
what the C14 codec model (`Gotlcp.Model.Codec`, instantiated with the regenerated facts `codesT`)
computes: the same Boolean answer and the same decoded fields.  Bytes are `BitVec 8` in the
translation and `UInt8` in the model; `abs` maps one to the other.

Core Lean only.
-/
import Gotlcp.Tie.UnmarshalTlcp
import Gotlcp.Model.CodecParams

set_option linter.unusedSimpArgs false
set_option linter.unusedVariables false

namespace Gotlcp.Tie.UnmarshalTlcpCodec
open Gotlcp Gotlcp.Wire Gotlcp.Wire.Msg Gotlcp.Model.Codec Gotlcp.Tie.UnmarshalTlcp

/-- bytes of the translation → bytes of the model -/
def abs (l : List (BitVec 8)) : Gotlcp.Bytes := l.map UInt8.ofBitVec

@[simp] theorem abs_nil : abs [] = [] := rfl
@[simp] theorem abs_cons (a : BitVec 8) (l : List (BitVec 8)) : abs (a :: l) = UInt8.ofBitVec a :: abs l := rfl
@[simp] theorem abs_length (l : List (BitVec 8)) : (abs l).length = l.length := List.length_map _
theorem abs_drop (n : Nat) (l : List (BitVec 8)) : abs (l.drop n) = (abs l).drop n := by
  simp [abs, List.map_drop]
theorem abs_take (n : Nat) (l : List (BitVec 8)) : abs (l.take n) = (abs l).take n := by
  simp [abs, List.map_take]
theorem abs_append (a b : List (BitVec 8)) : abs (a ++ b) = abs a ++ abs b := by simp [abs]

theorem nat24_abs (a b c : BitVec 8) : nat24 (UInt8.ofBitVec a) (UInt8.ofBitVec b) (UInt8.ofBitVec c) = u24 a b c := rfl

/-- the translated decoder's answer `r` IS the model's outcome `o`: accepted with the same decoded
value (through `view`), or refused; the model outcome `panic` corresponds to nothing -/
def Agree {M α : Type} (view : M → α) (r : Except String (M × Bool)) (o : Outcome α) : Prop :=
  match o with
  | .ok a => ∃ m, r = .ok (m, true) ∧ view m = a
  | .reject => ∃ m, r = .ok (m, false)
  | .panic => False

/-! ## `tlcpIsCompleteMessage` and the guard -/

theorem model_isComplete (data : List (BitVec 8)) (t : BitVec 8) (T : Nat) (hT : u8 T = UInt8.ofBitVec t) :
    Model.Codec.tlcpIsCompleteMessage (abs data) T = .ok (complete data t) := by
  unfold Model.Codec.tlcpIsCompleteMessage
  match data with
  | [] => simp [complete]
  | [_] => simp [complete]
  | [_, _] => simp [complete]
  | [_, _, _] => simp [complete]
  | a :: b :: c :: d :: rest =>
    have h4 : ¬ ((abs (a :: b :: c :: d :: rest)).length < 4) := by simp
    rw [if_neg h4]
    simp only [abs_cons, bind, Outcome.bind, idx, idx24, List.getElem?_cons_zero, List.getElem?_cons_succ, hT,
      nat24_abs, List.length_cons, abs_length, complete]
    by_cases hat : a = t
    · subst hat
      simp only [ne_eq, not_true_eq_false, if_false, beq_self_eq_true, Bool.true_and]
      rw [show rest.length + 1 + 1 + 1 + 1 - 4 = rest.length by omega]
      congr 1
    · have : UInt8.ofBitVec a ≠ UInt8.ofBitVec t := by
        intro h; exact hat (by simpa using congrArg UInt8.toBitVec h)
      simp [this, hat]

/-- the guard in front of a decoder whose message type is in the regenerated list of guarded types -/
theorem model_guard {α : Type} (data : List (BitVec 8)) (t : BitVec 8) (T : Nat) (hT : u8 T = UInt8.ofBitVec t)
    (hon : codesT.complete.contains T = true) (k : Outcome α) :
    guardT codesT T (abs data) k = if complete data t then k else .reject := by
  unfold guardT guardWith
  rw [hon, model_isComplete data t T hT]
  cases complete data t <;> rfl

/-! ## the literals of the translated text are the regenerated facts the model is instantiated with -/

theorem codes_facts :
    u8 codesT.tCertificate = UInt8.ofBitVec 11#8 ∧ u8 codesT.tServerKeyExchange = UInt8.ofBitVec 12#8 ∧
    u8 codesT.tCertificateRequest = UInt8.ofBitVec 13#8 ∧ u8 codesT.tServerHelloDone = UInt8.ofBitVec 14#8 ∧
    u8 codesT.tClientKeyExchange = UInt8.ofBitVec 16#8 ∧
    codesT.complete.contains codesT.tCertificate = true ∧ codesT.complete.contains codesT.tServerKeyExchange = true ∧
    codesT.complete.contains codesT.tCertificateRequest = true ∧ codesT.complete.contains codesT.tServerHelloDone = true ∧
    codesT.complete.contains codesT.tClientKeyExchange = true ∧ codesT.hl = 4 := by
  decide

/-! ## `serverKeyExchangeMsg`, `clientKeyExchangeMsg`, `serverHelloDoneMsg` -/

theorem tie_codec_serverKeyExchange (m : Src.tlcp.serverKeyExchangeMsg) (data : List (BitVec 8)) :
    Agree (fun m' => (⟨abs m'.key⟩ : Blob)) (Src.tlcp.serverKeyExchangeMsg.unmarshal m data)
      (unmarshalServerKeyExchange codesT (abs data)) := by
  rw [tie_serverKeyExchange]
  unfold unmarshalServerKeyExchange
  rw [model_guard data 12#8 _ codes_facts.2.1 codes_facts.2.2.2.2.2.2.1]
  cases hc : complete data 12#8
  · exact ⟨m, rfl⟩
  · obtain ⟨b, c, d, rest, rfl, hl⟩ := complete_true hc
    simp only [if_true, decServerKeyExchange, abs_length, List.length_cons, sliceFrom, bind, Outcome.bind, pure]
    rw [if_neg (by omega), if_pos (by omega)]
    exact ⟨_, rfl, by simp [abs_drop]⟩

theorem tie_codec_clientKeyExchange (m : Src.tlcp.clientKeyExchangeMsg) (data : List (BitVec 8)) :
    Agree (fun m' => (⟨abs m'.ciphertext⟩ : Blob)) (Src.tlcp.clientKeyExchangeMsg.unmarshal m data)
      (unmarshalClientKeyExchange codesT (abs data)) := by
  rw [tie_clientKeyExchange]
  unfold unmarshalClientKeyExchange
  rw [model_guard data 16#8 _ codes_facts.2.2.2.2.1 codes_facts.2.2.2.2.2.2.2.2.2.1]
  cases hc : complete data 16#8
  · exact ⟨m, rfl⟩
  · obtain ⟨b, c, d, rest, rfl, hl⟩ := complete_true hc
    simp only [if_true, decClientKeyExchange, abs_length, List.length_cons, sliceFrom, bind, Outcome.bind, pure,
      abs_cons, idx, idx24, List.getElem?_cons_zero, List.getElem?_cons_succ, nat24_abs]
    rw [if_neg (by omega), if_neg (by omega), if_pos (by omega)]
    exact ⟨_, rfl, by simp [abs_drop]⟩

/-- `serverHelloDoneMsg.unmarshal` returns `true` exactly when the model accepts, `false` exactly when it refuses -/
theorem tie_codec_serverHelloDone (m : Src.tlcp.serverHelloDoneMsg) (data : List (BitVec 8)) :
    ∃ b, Src.tlcp.serverHelloDoneMsg.unmarshal m data = .ok b ∧
      unmarshalServerHelloDone codesT (abs data) = (if b then .ok () else .reject) := by
  refine ⟨_, tie_serverHelloDone m data, ?_⟩
  unfold unmarshalServerHelloDone
  rw [model_guard data 14#8 _ codes_facts.2.2.2.1 codes_facts.2.2.2.2.2.2.2.2.1]
  cases hc : complete data 14#8
  · rfl
  · simp only [if_true, decServerHelloDone, abs_length, Bool.true_and, beq_iff_eq]

/-! ## `certificateMsg`: the closed form of the translated decoder is the model decoder -/

theorem idx24_abs (a b c : BitVec 8) (r : List (BitVec 8)) : idx24 (abs (a :: b :: c :: r)) 0 = .ok (u24 a b c) := by
  simp [idx24, idx, nat24_abs]

theorem sliceFrom_abs3 (a1 a2 a3 : BitVec 8) (r3 : List (BitVec 8)) (u : Nat) (hu : u ≤ r3.length) :
    sliceFrom (abs (a1 :: a2 :: a3 :: r3)) (3 + u) = .ok (abs (r3.drop u)) := by
  unfold sliceFrom
  rw [if_pos (by simp only [abs_length, List.length_cons]; omega), abs_drop]
  simp only [abs_cons]
  rw [Nat.add_comm 3, drop3]

theorem slice_abs3 (a1 a2 a3 : BitVec 8) (r3 : List (BitVec 8)) (u : Nat) (hu : u ≤ r3.length) :
    slice (abs (a1 :: a2 :: a3 :: r3)) 3 (3 + u) = .ok (abs (r3.take u)) := by
  unfold slice
  rw [if_pos (by simp only [abs_length, List.length_cons]; omega), abs_take]
  simp only [abs_cons]
  rw [Nat.add_sub_cancel_left]
  rfl

/-- first loop: model `certCount` (with its `uint32` arithmetic on `certsLen`) = closed form `cnt`,
as long as `certsLen` is the number of bytes left -/
theorem cnt_model : ∀ (f : Nat) (d : List (BitVec 8)) (n : Nat), d.length < 4294967296 →
    certCount f (abs d) d.length n = match cnt f d with | some k => .ok (k + n) | none => .reject := by
  intro f
  induction f with
  | zero => intro d n _; rfl
  | succ f ih =>
    intro d n hd
    rw [certCount, cnt]
    by_cases h0 : d.length = 0
    · rw [if_pos h0, if_pos h0]; simp
    · rw [if_neg h0, if_neg h0]
      by_cases h4 : d.length < 4
      · rw [if_pos (by simpa using h4), if_pos h4]
      · rw [if_neg (by simpa using h4), if_neg h4]
        match d, h4 with
        | a1 :: a2 :: a3 :: r3, _ =>
          simp only [bind, Outcome.bind, idx24_abs, step, abs_length, List.length_cons]
          by_cases hu : u24 a1 a2 a3 ≤ r3.length
          · rw [if_neg (by omega), if_pos hu]
            have hsl := sliceFrom_abs3 a1 a2 a3 r3 _ hu
            rw [hsl]
            simp only
            have hlen : (r3.length + 1 + 1 + 1 + 4294967296 - (3 + u24 a1 a2 a3)) % 4294967296
                = (r3.drop (u24 a1 a2 a3)).length := by
              simp only [List.length_cons] at hd
              rw [List.length_drop]; omega
            rw [hlen, ih _ _ (by simp only [List.length_cons] at hd; rw [List.length_drop]; omega)]
            cases cnt f (r3.drop (u24 a1 a2 a3)) with
            | none => rfl
            | some k => simp only [Option.map_some]; congr 1; omega
          · rw [if_pos (by omega), if_neg hu]
        | [], h => simp at h
        | [_], h => simp at h
        | [_, _], h => simp at h

/-- what the first loop counted can be walked -/
theorem cnt_walk : ∀ (f : Nat) (d : List (BitVec 8)) (n : Nat), cnt f d = some n → ∃ e, walk n d = some e := by
  intro f
  induction f with
  | zero => intro d n h; cases h
  | succ f ih =>
    intro d n h
    rw [cnt] at h
    by_cases h0 : d.length = 0
    · rw [if_pos h0] at h; cases h; exact ⟨d, rfl⟩
    · rw [if_neg h0] at h
      by_cases h4 : d.length < 4
      · rw [if_pos h4] at h; cases h
      · rw [if_neg h4] at h
        cases hs : step d with
        | none => rw [hs] at h; cases h
        | some d' =>
          rw [hs] at h
          simp only at h
          cases hc : cnt f d' with
          | none => rw [hc] at h; cases h
          | some k =>
            rw [hc] at h
            simp only [Option.map_some, Option.some.injEq] at h
            subst h
            obtain ⟨e, he⟩ := ih d' k hc
            exact ⟨e, by rw [walk, hs]; exact he⟩

/-- second loop (which has no checks, in the Go code and in the model): on a list the first loop has
walked, the model `certSplit` succeeds and returns the closed form `split` -/
theorem split_model : ∀ (n : Nat) (d e : List (BitVec 8)), walk n d = some e →
    certSplit n (abs d) = .ok ((split n d).map abs) := by
  intro n
  induction n with
  | zero => intro d e _; cases d <;> rfl
  | succ n ih =>
    intro d e h
    rw [walk] at h
    cases hs : step d with
    | none => rw [hs] at h; cases h
    | some d' =>
      rw [hs] at h
      simp only [Option.bind_some] at h
      obtain ⟨a1, a2, a3, r3, rfl, hu, rfl⟩ := step_some hs
      rw [certSplit]
      have hsl := sliceFrom_abs3 a1 a2 a3 r3 _ hu
      have hsc := slice_abs3 a1 a2 a3 r3 _ hu
      simp only [bind, Outcome.bind, idx24_abs, hsl, hsc, ih _ _ h, pure, split, List.map_cons]

/-- **certificate**: the closed form of the translated decoder is the model decoder on the same bytes -/
theorem model_certificate (m : Src.tlcp.certificateMsg) (data : List (BitVec 8)) :
    unmarshalCertificate codesT (abs data) =
      if (certResult m data).2 then .ok ⟨(certResult m data).1.certificates.map abs⟩ else .reject := by
  unfold unmarshalCertificate
  rw [model_guard data 11#8 _ codes_facts.1 codes_facts.2.2.2.2.2.1]
  cases hc : complete data 11#8
  · simp [certResult, hc]
  · obtain ⟨b, c, d, rest, rfl, hl⟩ := complete_true hc
    have hhl : codesT.hl = 4 := codes_facts.2.2.2.2.2.2.2.2.2.2
    simp only [if_true, decCertificate, decCertificateAt, hhl, abs_length, List.length_cons]
    match rest, hl with
    | [], _ => simp [certResult, hc]
    | [_], _ => simp [certResult, hc]
    | [_, _], _ => simp [certResult, hc]
    | e :: f :: g :: d0, hl =>
      have hi : idx24 (abs (11#8 :: b :: c :: d :: e :: f :: g :: d0)) 4 = .ok (u24 e f g) := by
        simp [idx24, idx, nat24_abs]
      have hsl : sliceFrom (abs (11#8 :: b :: c :: d :: e :: f :: g :: d0)) (4 + 3) = .ok (abs d0) := by
        unfold sliceFrom
        rw [if_pos (by simp)]
        rfl
      simp only [List.length_cons, bind, Outcome.bind, hi, hsl, abs_length]
      rw [if_neg (by omega)]
      by_cases hlen : d0.length = u24 e f g
      · rw [if_neg (by omega)]
        have hlt := u24_lt e f g
        have hcm := cnt_model (d0.length + 1) d0 0 (by omega)
        rw [hlen] at hcm
        simp only [certResult, hc, if_true, hlen]
        rw [hcm]
        cases hcn : cnt (u24 e f g + 1) d0 with
        | none => rfl
        | some n =>
          obtain ⟨e', hw⟩ := cnt_walk _ _ _ hcn
          simp only [Nat.add_zero, split_model n d0 e' hw, pure, if_true]
      · rw [if_pos (by omega)]
        simp [certResult, hc, hlen]

/-- **`certificateMsg.unmarshal`** = model, every receiver, every byte string: accepted with the same
certificate list, or refused -/
theorem tie_codec_certificate (m : Src.tlcp.certificateMsg) (data : List (BitVec 8)) :
    Agree (fun m' => (⟨m'.certificates.map abs⟩ : Certificate)) (Src.tlcp.certificateMsg.unmarshal m data)
      (unmarshalCertificate codesT (abs data)) := by
  rw [tie_certificate, model_certificate m data]
  cases h : (certResult m data).2
  · exact ⟨(certResult m data).1, by rw [← h]⟩
  · exact ⟨(certResult m data).1, by rw [← h], rfl⟩

/-! ## `certificateRequestMsg` -/

theorem nat_or2 (a b : Nat) (hb : b < 256) : a <<< 8 ||| b = a * 256 + b := by
  rw [← Nat.shiftLeft_add_eq_or_of_lt (by omega : b < 2 ^ 8), Nat.shiftLeft_eq]

theorem bv16_toNat (a b : BitVec 8) : (bv16 a b).toNat = a.toNat * 256 + b.toNat := by
  have ha := a.isLt; have hb := b.isLt
  unfold bv16
  simp only [BitVec.toNat_or, BitVec.toNat_shiftLeft, BitVec.toNat_setWidth]
  rw [Nat.mod_eq_of_lt (by omega : a.toNat < 2 ^ 16), Nat.mod_eq_of_lt (by omega : b.toNat < 2 ^ 16)]
  have e4 : a.toNat <<< 8 % 2 ^ 16 = a.toNat <<< 8 := by
    apply Nat.mod_eq_of_lt; rw [Nat.shiftLeft_eq]; omega
  rw [e4]
  exact nat_or2 _ _ hb

theorem idx16_abs (a b : BitVec 8) (r : List (BitVec 8)) : idx16 (abs (a :: b :: r)) 0 = .ok (bv16 a b).toNat := by
  simp [idx16, idx, nat16, bv16_toNat]

/-- the CA-name loop: model `casLoop` = closed form `casList` -/
theorem casList_model : ∀ (f : Nat) (cs : List (BitVec 8)),
    casLoop f (abs cs) = match casList f cs with | some l => .ok (l.map abs) | none => .reject := by
  intro f
  induction f with
  | zero => intro cs; rfl
  | succ f ih =>
    intro cs
    match cs with
    | [] => rfl
    | [_] => rfl
    | y0 :: y1 :: cs2 =>
      rw [casLoop, casList]
      have h0 : ¬ (abs (y0 :: y1 :: cs2)).length = 0 := by simp
      have h2 : ¬ (abs (y0 :: y1 :: cs2)).length < 2 := by simp
      rw [if_neg h0, if_neg h2]
      have hsf : sliceFrom (abs (y0 :: y1 :: cs2)) 2 = .ok (abs cs2) := by
        unfold sliceFrom; rw [if_pos (by simp)]; rfl
      simp only [bind, Outcome.bind, idx16_abs, hsf, abs_length]
      by_cases hlt : cs2.length < (bv16 y0 y1).toNat
      · rw [if_pos hlt, if_pos hlt]
      · rw [if_neg hlt, if_neg hlt]
        have hsl : slice (abs cs2) 0 (bv16 y0 y1).toNat = .ok (abs (cs2.take (bv16 y0 y1).toNat)) := by
          unfold slice; rw [if_pos (by simp only [abs_length]; omega), abs_take]; rfl
        have hsf2 : sliceFrom (abs cs2) (bv16 y0 y1).toNat = .ok (abs (cs2.drop (bv16 y0 y1).toNat)) := by
          unfold sliceFrom; rw [if_pos (by simp only [abs_length]; omega), abs_drop]
        simp only [hsl, hsf2, ih, pure]
        cases casList f (cs2.drop (bv16 y0 y1).toNat) with
        | none => rfl
        | some l => rfl

/-- **certificate request**: the closed form of the translated decoder is the model decoder on the same bytes -/
theorem model_certificateRequest (data : List (BitVec 8)) :
    unmarshalCertificateRequest codesT (abs data) =
      match creqResult data with
      | some (ct, cas) => .ok ⟨abs ct, cas.map abs⟩
      | none => .reject := by
  unfold unmarshalCertificateRequest
  rw [model_guard data 13#8 _ codes_facts.2.2.1 codes_facts.2.2.2.2.2.2.2.1]
  cases hc : complete data 13#8
  · simp [creqResult, hc]
  · obtain ⟨b, c, d, rest, rfl, hl⟩ := complete_true hc
    have hhl : codesT.hl = 4 := codes_facts.2.2.2.2.2.2.2.2.2.2
    simp only [if_true, decCertificateRequest, decCertificateRequestAt, hhl, abs_length, List.length_cons]
    match rest, hl with
    | [], _ => simp [creqResult, hc]
    | e :: rest1, hl =>
      have hi : idx24 (abs (13#8 :: b :: c :: d :: e :: rest1)) 1 = .ok (u24 b c d) := by
        simp [idx24, idx, nat24_abs]
      have hi4 : idx (abs (13#8 :: b :: c :: d :: e :: rest1)) 4 = .ok (UInt8.ofBitVec e) := by
        simp [idx]
      have hsl : sliceFrom (abs (13#8 :: b :: c :: d :: e :: rest1)) (4 + 1) = .ok (abs rest1) := by
        unfold sliceFrom
        rw [if_pos (by simp)]
        rfl
      simp only [List.length_cons, bind, Outcome.bind, hi, hi4, hsl, abs_length, UInt8.toNat_ofBitVec]
      simp only [List.length_cons] at hl
      rw [if_neg (by omega), if_neg (by omega)]
      by_cases hct : e.toNat = 0 ∨ rest1.length ≤ e.toNat
      · rw [if_pos hct]
        simp only [creqResult, hc, if_true, hct]
      · rw [if_neg hct]
        have htl : ¬ ((abs rest1).take e.toNat).length ≠ e.toNat := by
          simp only [List.length_take, abs_length]; omega
        have hsf : sliceFrom (abs rest1) e.toNat = .ok (abs (rest1.drop e.toNat)) := by
          unfold sliceFrom; rw [if_pos (by simp only [abs_length]; omega), abs_drop]
        simp only [htl, if_false, hsf, abs_length]
        simp only [creqResult, hc, if_true, hct, if_false]
        match rest1.drop e.toNat with
        | [] => simp
        | [_] => simp
        | x0 :: x1 :: data3 =>
          have hsf2 : sliceFrom (abs (x0 :: x1 :: data3)) 2 = .ok (abs data3) := by
            unfold sliceFrom; rw [if_pos (by simp)]; rfl
          have h2 : ¬ (x0 :: x1 :: data3).length < 2 := by simp
          simp only [h2, if_false, idx16_abs, hsf2, abs_length]
          by_cases hk : data3.length < (bv16 x0 x1).toNat
          · simp only [hk, if_true]
          · simp only [hk, if_false]
            have hsf3 : sliceFrom (abs data3) (bv16 x0 x1).toNat = .ok (abs (data3.drop (bv16 x0 x1).toNat)) := by
              unfold sliceFrom; rw [if_pos (by simp only [abs_length]; omega), abs_drop]
            have htk : ((abs data3).take (bv16 x0 x1).toNat).length = (bv16 x0 x1).toNat := by
              simp only [List.length_take, abs_length]; omega
            have htk2 : (data3.take (bv16 x0 x1).toNat).length = (bv16 x0 x1).toNat := by
              rw [List.length_take]; omega
            simp only [hsf3, htk, ← abs_take, casList_model, abs_length, List.length_drop, htk2]
            cases casList ((bv16 x0 x1).toNat + 1) (data3.take (bv16 x0 x1).toNat) with
            | none => rfl
            | some l =>
              simp only
              by_cases hend : data3.length = (bv16 x0 x1).toNat
              · rw [if_pos (by omega), if_pos hend]
              · rw [if_neg (by omega), if_neg hend]

/-- **`certificateRequestMsg.unmarshal`** = model, every receiver, every byte string: accepted with the
same certificate types and CA names, or refused -/
theorem tie_codec_certificateRequest (m : Src.tlcp.certificateRequestMsg) (data : List (BitVec 8)) :
    Agree (fun m' => (⟨abs m'.certificateTypes, m'.certificateAuthorities.map abs⟩ : CertificateRequest))
      (Src.tlcp.certificateRequestMsg.unmarshal m data) (unmarshalCertificateRequest codesT (abs data)) := by
  obtain ⟨m', h1, h2⟩ := tie_certificateRequest m data
  rw [h1, model_certificateRequest data]
  cases hr : creqResult data with
  | none => exact ⟨m', rfl⟩
  | some p =>
    obtain ⟨ct, cas⟩ := p
    have := h2 ct cas hr
    exact ⟨m', rfl, by rw [this]⟩

/-- accepted with exactly these certificates (for `decide`d examples; `Except` has no `DecidableEq`) -/
def isOkC (x : Except String (Src.tlcp.certificateMsg × Bool)) (certs : List (List (BitVec 8))) : Bool :=
  match x with
  | .ok (m, true) => decide (m.certificates = certs)
  | _ => false

end Gotlcp.Tie.UnmarshalTlcpCodec

/-
Tie by translation, key schedule: `pHash`, `prf12`, `prfForVersion`, `masterFromPreMasterSecret`
and `keysFromMasterSecret` of prf.go are regenerated from the Go source of BOTH stacks on every run
(`Gotlcp.Src.tlcp`, `Gotlcp.Src.dtlcp`).  For every input and every keyed hash `ext.hmac` whose
output has a fixed positive length the translated functions

* never panic and never exhaust the loop bound the translator gave `for j < len(result)`,
* compute what the hand-written model (`Gotlcp.Model.KeySchedule`) computes, hence P_hash / PRF of
  the standard (`Gotlcp.Crypto.PRF`, `Gotlcp.Spec.KeySchedule`),
* with the labels, the seed ORDER and the order the key block is cut in taken from the translated
  source text (no regex fact in between).

The proofs are written once against the tlcp text; the dtlcp text is proved to be the same function
(`rfl` after unfolding — the two files are textually identical), each in its own theorem so that a
change of one stack names that stack's theorem.
-/
import Gotlcp.Generated.Src
import Gotlcp.Lemmas.KeySchedule

set_option linter.unusedSimpArgs false
set_option linter.unusedVariables false

namespace Gotlcp.Tie.KeySched
open Gotlcp.Crypto

abbrev BV := List (BitVec 8)
def toBytes (l : BV) : Bytes := l.map UInt8.ofBitVec
def ofBytes (l : Bytes) : BV := l.map UInt8.toBitVec

@[simp] theorem toBytes_nil : toBytes [] = [] := rfl
@[simp] theorem toBytes_append (a b : BV) : toBytes (a ++ b) = toBytes a ++ toBytes b := by simp [toBytes]
@[simp] theorem toBytes_length (a : BV) : (toBytes a).length = a.length := by simp [toBytes]
@[simp] theorem ofBytes_length (a : Bytes) : (ofBytes a).length = a.length := by simp [ofBytes]
theorem toBytes_take (a : BV) (n : Nat) : toBytes (a.take n) = (toBytes a).take n := by simp [toBytes, List.map_take]
theorem toBytes_drop (a : BV) (n : Nat) : toBytes (a.drop n) = (toBytes a).drop n := by simp [toBytes, List.map_drop]
@[simp] theorem ofBytes_toBytes (a : BV) : ofBytes (toBytes a) = a := by
  induction a with
  | nil => rfl
  | cons x xs ih => simp only [toBytes, ofBytes, List.map_cons, List.map_map] at ih ⊢; rw [ih]
@[simp] theorem toBytes_ofBytes (a : Bytes) : toBytes (ofBytes a) = a := by
  induction a with
  | nil => rfl
  | cons x xs ih => simp only [toBytes, ofBytes, List.map_cons, List.map_map] at ih ⊢; rw [ih]

/-- the keyed hash of the translated code (`hmac.New(alg, key)`, `Write`s, `Sum(nil)`) as a function on
the models' bytes -/
def hm (ext : Go.Extern) (alg : Go.HashAlg) : Bytes → Bytes → Bytes :=
  fun k x => toBytes (ext.hmac alg (ofBytes k) (ofBytes x))

theorem hm_toBytes (ext : Go.Extern) (alg : Go.HashAlg) (k x : BV) :
    hm ext alg (toBytes k) (toBytes x) = toBytes (ext.hmac alg k x) := by simp [hm]

theorem hm_length (ext : Go.Extern) (alg : Go.HashAlg) (h : Nat) (hl : ∀ k x, (ext.hmac alg k x).length = h) :
    ∀ k m, (hm ext alg k m).length = h := by intro k m; simp [hm, hl]

/-- the other direction: a MAC on the models' bytes as an `Extern` (used for non-vacuity: the
Lean-native HMAC-SM3) -/
def extOf (f : Bytes → Bytes → Bytes) : Go.Extern := ⟨fun _ k x => ofBytes (f (toBytes k) (toBytes x))⟩

theorem hm_extOf (f : Bytes → Bytes → Bytes) (alg : Go.HashAlg) : hm (extOf f) alg = f := by
  funext k x; simp [hm, extOf]

theorem extOf_length (f : Bytes → Bytes → Bytes) (h : Nat) (hl : ∀ k m, (f k m).length = h) (alg : Go.HashAlg) :
    ∀ k x, ((extOf f).hmac alg k x).length = h := by intro k x; simp [extOf, hl]

/-! ### the `for j < len(result)` loop against `pHashLoop` -/

/-- A fuel-bounded loop whose body, from a state related (by `R`) to the model's loop state
`(out, j, a)`, leaves when `¬ j < n` and otherwise continues in a state related to the model's next
state, computes the model's `pHashLoop`; and it has left by itself (`n ≤ j'`) when the fuel exceeds
`n - j` (every MAC returns `h > 0` bytes). -/
theorem loop_tie (hmf : Bytes → Bytes → Bytes) (h : Nat) (hl : ∀ k m, (hmf k m).length = h) (hpos : 0 < h)
    (secret seed : Bytes) (n : Nat) {σ α : Type} (R : σ → Bytes → Nat → Bytes → Prop)
    (f : α → σ → Except String (ForInStep σ))
    (hdone : ∀ x s out j a, R s out j a → ¬ j < n → f x s = .ok (.done s))
    (hstep : ∀ x s out j a, R s out j a → j < n → ∃ s', f x s = .ok (.yield s') ∧
        R s' (out ++ (hmf secret (a ++ seed)).take (n - j)) (j + (hmf secret (a ++ seed)).length) (hmf secret a)) :
    ∀ (l : List α) s out j a, R s out j a →
      ∃ s' j' a', forIn l s f = .ok s' ∧
        R s' (Model.KeySchedule.pHashLoop hmf secret seed n l.length out j a) j' a' ∧ (n < j + l.length → n ≤ j') := by
  intro l
  induction l with
  | nil =>
    intro s out j a hR
    exact ⟨s, j, a, rfl, by simpa [Model.KeySchedule.pHashLoop] using hR, by simp; omega⟩
  | cons x xs ih =>
    intro s out j a hR
    by_cases hj : j < n
    · obtain ⟨s1, h1, hR1⟩ := hstep x s out j a hR hj
      obtain ⟨s', j', a', h2, hR2, hle⟩ := ih s1 _ _ _ hR1
      refine ⟨s', j', a', ?_, ?_, ?_⟩
      · rw [List.forIn_cons, h1]; exact h2
      · simpa [Model.KeySchedule.pHashLoop, hj] using hR2
      · intro hlt
        apply hle
        rw [hl]
        simp only [List.length_cons] at hlt
        omega
    · refine ⟨s, j, a, ?_, ?_, ?_⟩
      · rw [List.forIn_cons, hdone x s out j a hR hj]; rfl
      · simpa [Model.KeySchedule.pHashLoop, hj] using hR
      · intro _; omega

/-- `loop_tie` for a loop followed by a continuation `k` (the shape of a translated function body) -/
theorem loop_tie_bind (hmf : Bytes → Bytes → Bytes) (h : Nat) (hl : ∀ k m, (hmf k m).length = h) (hpos : 0 < h)
    (secret seed : Bytes) (n : Nat) {σ α β : Type} (R : σ → Bytes → Nat → Bytes → Prop)
    (f : α → σ → Except String (ForInStep σ))
    (hdone : ∀ x s out j a, R s out j a → ¬ j < n → f x s = .ok (.done s))
    (hstep : ∀ x s out j a, R s out j a → j < n → ∃ s', f x s = .ok (.yield s') ∧
        R s' (out ++ (hmf secret (a ++ seed)).take (n - j)) (j + (hmf secret (a ++ seed)).length) (hmf secret a))
    (l : List α) (s : σ) (out : Bytes) (j : Nat) (a : Bytes) (hR : R s out j a)
    (k : σ → Except String β) (P : β → Prop)
    (hk : ∀ s' j' a', R s' (Model.KeySchedule.pHashLoop hmf secret seed n l.length out j a) j' a' →
        (n < j + l.length → n ≤ j') → ∃ r, k s' = .ok r ∧ P r) :
    ∃ r, (forIn l s f >>= k) = .ok r ∧ P r := by
  obtain ⟨s', j', a', h1, h2, h3⟩ := loop_tie hmf h hl hpos secret seed n R f hdone hstep l s out j a hR
  obtain ⟨r, h4, h5⟩ := hk s' j' a' h2 h3
  exact ⟨r, by rw [h1]; exact h4, h5⟩

/-- the loop invariant of `pHash`: `result` keeps its length, its first `min j n` bytes are the
model's `out`, `a` is the model's A(i), the keyed hash object still carries the algorithm and the key -/
def Inv (alg : Go.HashAlg) (secret : BV) (n : Nat) (s : BV × Go.Hmac × BV × Int) (out : Bytes) (j : Nat) (a : Bytes) : Prop :=
  s.1.length = n ∧ toBytes (s.1.take (min j n)) = out ∧ s.2.2.2 = (j : Int) ∧ toBytes s.2.2.1 = a ∧
  s.2.1.alg = alg ∧ s.2.1.key = secret

/-- `copy(result[j:], b)` for `j < len(result)`: length kept, the prefix up to `min (j + len b) n`
is the old prefix followed by `b[:n-j]` -/
theorem copy_step (result b : BV) (j : Nat) (hj : j < result.length) :
    ∃ r, Go.copyInto result (j : Int) (result.length : Int) b = .ok r ∧ r.length = result.length ∧
      r.take (min (j + b.length) result.length) = result.take j ++ b.take (result.length - j) := by
  unfold Go.copyInto
  have hc : ¬ ((j : Int) < 0 ∨ (result.length : Int) < (j : Int) ∨ (result.length : Int) < (result.length : Int)) := by omega
  rw [if_neg hc]
  refine ⟨_, rfl, ?_, ?_⟩
  · simp only [Int.toNat_natCast, List.length_append, List.length_take, List.length_drop]
    omega
  · simp only [Int.toNat_natCast]
    have e1 : b.take (min (result.length - j) b.length) = b.take (result.length - j) := by
      rw [List.take_eq_take_iff]; omega
    rw [e1]
    have hl1 : (result.take j ++ b.take (result.length - j)).length = min (j + b.length) result.length := by
      simp only [List.length_append, List.length_take]; omega
    rw [← hl1, List.take_left']
    rfl

/-! ### tlcp -/

/-- `pHash(result, secret, seed, hash)`: for every `result`, `secret`, `seed` the translated tlcp source
returns normally (no panic, loop bound not reached) and fills `result` with the model's P_hash output -/
theorem tie_pHash (ext : Go.Extern) (alg : Go.HashAlg) (h : Nat) (hl : ∀ k x, (ext.hmac alg k x).length = h) (hpos : 0 < h)
    (result secret seed : BV) :
    ∃ r, Src.tlcp.pHash ext result secret seed alg = .ok r ∧ r.length = result.length ∧
      toBytes r = Model.KeySchedule.pHash (hm ext alg) (toBytes secret) (toBytes seed) result.length := by
  unfold Src.tlcp.pHash
  simp only []
  refine loop_tie_bind (hm ext alg) h (hm_length ext alg h hl) hpos (toBytes secret) (toBytes seed) result.length
      (Inv alg secret result.length) _ ?hdone ?hstep _ _ [] 0 (hm ext alg (toBytes secret) (toBytes seed)) ?hR _ _ ?hk
  case hR => exact ⟨rfl, by simp, rfl, by simp [hm_toBytes], rfl, rfl⟩
  case hdone =>
    intro x s out j a hR hj
    obtain ⟨res, hh, av, jv⟩ := s
    obtain ⟨h1, h2, h3, h4, h5, h6⟩ := hR
    dsimp only at h1 h2 h3 h4 h5 h6
    subst h3
    have : ¬ ((j : Int) < (res.length : Int)) := by omega
    simp [this, pure, Except.pure]
  case hstep =>
    intro x s out j a hR hj
    obtain ⟨res, hh, av, jv⟩ := s
    obtain ⟨h1, h2, h3, h4, h5, h6⟩ := hR
    dsimp only at h1 h2 h3 h4 h5 h6
    subst h3
    have hlt : ((j : Int) < (res.length : Int)) := by omega
    obtain ⟨r, hc, hrl, hrt⟩ := copy_step res (ext.hmac alg secret (av ++ seed)) j (by omega)
    refine ⟨(r, { alg := alg, key := secret, input := [] ++ av }, ext.hmac alg secret ([] ++ av),
      (j : Int) + ((ext.hmac alg secret (av ++ seed)).length : Int)), ?_, ?_⟩
    · simp [hlt, h5, h6, hc, bind, Except.bind, pure, Except.pure]
    · have hb : hm ext alg (toBytes secret) (a ++ toBytes seed) = toBytes (ext.hmac alg secret (av ++ seed)) := by
        rw [← h4, ← toBytes_append, hm_toBytes]
      have hmin : min j result.length = j := by omega
      refine ⟨by rw [hrl]; exact h1, ?_, ?_, ?_, rfl, rfl⟩
      · simp only [hb, toBytes_length]
        rw [← h1, hrt, toBytes_append, toBytes_take (ext.hmac alg secret (av ++ seed)), ← h2, hmin]
      · simp only [hb, toBytes_length]; omega
      · simp only [List.nil_append]
        rw [← h4, hm_toBytes]
  case hk =>
    intro s' j' a' hR hle
    obtain ⟨res, hh, av, jv⟩ := s'
    obtain ⟨h1, h2, h3, h4, h5, h6⟩ := hR
    dsimp only at h1 h2 h3 h4 h5 h6
    have hfuel : (List.range (((result.length : Int) + 1)).toNat).length = result.length + 1 := by
      simp only [List.length_range]; omega
    rw [hfuel] at h2 hle
    have hge : result.length ≤ j' := hle (by omega)
    subst h3
    have hnlt : ¬ ((j' : Int) < (res.length : Int)) := by omega
    refine ⟨res, ?_, h1, ?_⟩
    · simp [hnlt, pure, Except.pure]
    · unfold Model.KeySchedule.pHash
      rw [← h2]
      have : min j' result.length = res.length := by omega
      rw [this, List.take_length]

/-- `labelAndSeed := make([]byte, len(label)+len(seed)); copy(labelAndSeed, label);
copy(labelAndSeed[len(label):], seed)` is `label ‖ seed` -/
theorem ls_make (label seed : BV) :
    Go.make 0#8 ((label.length : Int) + (seed.length : Int)) = .ok (List.replicate (label.length + seed.length) 0#8) := by
  unfold Go.make
  rw [if_neg (by omega)]
  congr 2

theorem ls_copy1 (label seed : BV) :
    Go.copyInto (List.replicate (label.length + seed.length) 0#8) (0 : Int)
      ((List.replicate (label.length + seed.length) 0#8).length : Int) label = .ok (label ++ List.replicate seed.length 0#8) := by
  unfold Go.copyInto
  rw [if_neg (by simp; omega)]
  simp only [List.length_replicate, Int.toNat_natCast, Int.toNat_zero, Nat.sub_zero, List.take_zero, List.nil_append,
    Nat.zero_add]
  have : min (label.length + seed.length) label.length = label.length := by omega
  rw [this, List.take_length, List.drop_replicate]
  congr 3; omega

theorem ls_copy2 (label seed : BV) :
    Go.copyInto (label ++ List.replicate seed.length 0#8) (label.length : Int)
      ((label ++ List.replicate seed.length 0#8).length : Int) seed = .ok (label ++ seed) := by
  unfold Go.copyInto
  rw [if_neg (by simp; omega)]
  simp only [List.length_append, List.length_replicate, Int.toNat_natCast]
  have : min (label.length + seed.length - label.length) seed.length = seed.length := by omega
  rw [this, List.take_length, List.take_left', List.drop_eq_nil_of_le (by simp), List.append_nil]
  rfl

/-- `prf12(hash)(result, secret, label, seed)` (translated uncurried) -/
theorem tie_prf12 (ext : Go.Extern) (alg : Go.HashAlg) (h : Nat) (hl : ∀ k x, (ext.hmac alg k x).length = h) (hpos : 0 < h)
    (result secret label seed : BV) :
    ∃ r, Src.tlcp.prf12 ext alg result secret label seed = .ok r ∧ r.length = result.length ∧
      toBytes r = Model.KeySchedule.prf12 (hm ext alg) (toBytes secret) (toBytes label) (toBytes seed) result.length := by
  obtain ⟨r, h1, h2, h3⟩ := tie_pHash ext alg h hl hpos result secret (label ++ seed)
  refine ⟨r, ?_, h2, ?_⟩
  · unfold Src.tlcp.prf12
    simp only [bind, Except.bind, ls_make, ls_copy1, ls_copy2, h1]
    rfl
  · rw [h3, toBytes_append]; rfl

/-- `prfForVersion(version, suite)(result, secret, label, seed)`: the view "every suite uses
`prf12(sm3.New)`" (go2lean checks it against `prfAndHashForVersion` on every run) -/
theorem tie_prfForVersion (ext : Go.Extern) (h : Nat) (hl : ∀ k x, (ext.hmac .sm3 k x).length = h) (hpos : 0 < h)
    (v : BitVec 16) (s : Src.tlcp.cipherSuite) (result secret label seed : BV) :
    ∃ r, Src.tlcp.prfForVersion ext v s result secret label seed = .ok r ∧ r.length = result.length ∧
      toBytes r = Model.KeySchedule.prf12 (hm ext .sm3) (toBytes secret) (toBytes label) (toBytes seed) result.length := by
  obtain ⟨r, h1, h2, h3⟩ := tie_prf12 ext .sm3 h hl hpos result secret label seed
  refine ⟨r, ?_, h2, h3⟩
  unfold Src.tlcp.prfForVersion
  simp only [bind, Except.bind, h1]
  rfl

/-- the model's `prf12` is the standard's PRF (C04_phash_is_P_SM3, restated for the translated MAC) -/
theorem prf12_is_PRF (ext : Go.Extern) (P : Prims) (hP : P.hmac = hm ext .sm3)
    (hl : ∀ k x, (ext.hmac .sm3 k x).length = P.hLen) (hpos : 0 < P.hLen) (secret label seed : Bytes) (n : Nat) :
    Model.KeySchedule.prf12 (hm ext .sm3) secret label seed n = Spec.KeySchedule.prf P secret label seed n := by
  unfold Model.KeySchedule.prf12 Spec.KeySchedule.prf PRF.prf
  rw [hP]
  exact Lemmas.KeySchedule.pHash_eq (hm ext .sm3) P.hLen secret (label ++ seed) (hm_length ext .sm3 P.hLen hl) hpos n

theorem label_master : toBytes Src.tlcp.masterSecretLabel = Spec.KeySchedule.labelMaster := by decide
theorem label_keyExpansion : toBytes Src.tlcp.keyExpansionLabel = Spec.KeySchedule.labelKeyExpansion := by decide

theorem make_nat (n : Nat) : Go.make 0#8 (n : Int) = .ok (List.replicate n 0#8) := by
  unfold Go.make
  rw [if_neg (by omega)]
  rfl

/-- `masterFromPreMasterSecret`: the translated source returns normally, 48 bytes, the standard's
master secret `PRF(pre, "master secret", clientRandom ‖ serverRandom)[0..48]` — label, seed order and
length read from the translated text -/
theorem tie_master (ext : Go.Extern) (P : Prims) (hP : P.hmac = hm ext .sm3)
    (hl : ∀ k x, (ext.hmac .sm3 k x).length = P.hLen) (hpos : 0 < P.hLen)
    (v : BitVec 16) (s : Src.tlcp.cipherSuite) (pre cr sr : BV) :
    ∃ m, Src.tlcp.masterFromPreMasterSecret ext v s pre cr sr = .ok m ∧
      toBytes m = Spec.KeySchedule.masterSecret P (toBytes pre) (toBytes cr) (toBytes sr) := by
  obtain ⟨r, h1, h2, h3⟩ := tie_prfForVersion ext P.hLen hl hpos v s (List.replicate 48 0#8) pre
    Src.tlcp.masterSecretLabel ([] ++ cr ++ sr)
  refine ⟨r, ?_, ?_⟩
  · unfold Src.tlcp.masterFromPreMasterSecret
    have hm48 : Go.make 0#8 (48 : Int) = .ok (List.replicate 48 0#8) := make_nat 48
    simp only [bind, Except.bind, hm48, h1]
    rfl
  · rw [h3, prf12_is_PRF ext P hP hl hpos, label_master]
    simp only [List.nil_append, toBytes_append, List.length_replicate]
    rfl

theorem slice_take (a : BV) (L : Nat) (hL : L ≤ a.length) : Go.slice a (0 : Int) (L : Int) = .ok (a.take L) := by
  unfold Go.slice
  rw [if_neg (by omega)]
  simp

theorem slice_drop (a : BV) (L : Nat) (hL : L ≤ a.length) : Go.slice a (L : Int) (a.length : Int) = .ok (a.drop L) := by
  unfold Go.slice
  rw [if_neg (by omega)]
  simp only [Int.toNat_natCast]
  rw [List.take_of_length_le (by simp)]

/-- `keysFromMasterSecret`: for non-negative lengths the translated source returns normally and its six
slices are the standard's partition of `PRF(master, "key expansion", serverRandom ‖ clientRandom)` in
the order client MAC, server MAC, client key, server key, client IV, server IV -/
theorem tie_keys (ext : Go.Extern) (P : Prims) (hP : P.hmac = hm ext .sm3)
    (hl : ∀ k x, (ext.hmac .sm3 k x).length = P.hLen) (hpos : 0 < P.hLen)
    (v : BitVec 16) (s : Src.tlcp.cipherSuite) (master cr sr : BV) (macLen keyLen ivLen : Int)
    (h1 : 0 ≤ macLen) (h2 : 0 ≤ keyLen) (h3 : 0 ≤ ivLen) (mode : Spec.KeySchedule.Mode) :
    ∃ rest cMAC sMAC cKey sKey cIV sIV,
      Src.tlcp.keysFromMasterSecret ext v s master cr sr macLen keyLen ivLen = .ok (rest, cMAC, sMAC, cKey, sKey, cIV, sIV) ∧
      (⟨toBytes cMAC, toBytes sMAC, toBytes cKey, toBytes sKey, toBytes cIV, toBytes sIV⟩ : Spec.KeySchedule.KeyBlock) =
        Spec.KeySchedule.keyBlock P ⟨mode, macLen.toNat, keyLen.toNat, ivLen.toNat⟩ (toBytes master) (toBytes cr) (toBytes sr) := by
  obtain ⟨m, rfl⟩ := Int.eq_ofNat_of_zero_le h1
  obtain ⟨k, rfl⟩ := Int.eq_ofNat_of_zero_le h2
  obtain ⟨i, rfl⟩ := Int.eq_ofNat_of_zero_le h3
  obtain ⟨km, e1, e2, e3⟩ := tie_prfForVersion ext P.hLen hl hpos v s (List.replicate (2 * m + 2 * k + 2 * i) 0#8) master
    Src.tlcp.keyExpansionLabel ([] ++ sr ++ cr)
  rw [List.length_replicate] at e2 e3
  have hmk : Go.make 0#8 ((2 : Int) * (m : Int) + (2 : Int) * (k : Int) + (2 : Int) * (i : Int))
      = .ok (List.replicate (2 * m + 2 * k + 2 * i) 0#8) := by
    rw [← make_nat]; congr 1
  have a1 := slice_take km m (by omega)
  have b1 := slice_drop km m (by omega)
  have a2 := slice_take (km.drop m) m (by simp; omega)
  have b2 := slice_drop (km.drop m) m (by simp; omega)
  have a3 := slice_take ((km.drop m).drop m) k (by simp; omega)
  have b3 := slice_drop ((km.drop m).drop m) k (by simp; omega)
  have a4 := slice_take (((km.drop m).drop m).drop k) k (by simp; omega)
  have b4 := slice_drop (((km.drop m).drop m).drop k) k (by simp; omega)
  have a5 := slice_take ((((km.drop m).drop m).drop k).drop k) i (by simp; omega)
  have b5 := slice_drop ((((km.drop m).drop m).drop k).drop k) i (by simp; omega)
  have a6 := slice_take (((((km.drop m).drop m).drop k).drop k).drop i) i (by simp; omega)
  refine ⟨((((km.drop m).drop m).drop k).drop k).drop i, km.take m, (km.drop m).take m, ((km.drop m).drop m).take k,
    (((km.drop m).drop m).drop k).take k, ((((km.drop m).drop m).drop k).drop k).take i,
    (((((km.drop m).drop m).drop k).drop k).drop i).take i, ?_, ?_⟩
  · unfold Src.tlcp.keysFromMasterSecret
    simp only [bind, Except.bind, hmk, e1, a1, b1, a2, b2, a3, b3, a4, b4, a5, b5, a6]
    rfl
  · unfold Spec.KeySchedule.keyBlock Spec.KeySchedule.cut Spec.KeySchedule.keyBlockLen
    simp only [Int.toNat_natCast]
    rw [← prf12_is_PRF ext P hP hl hpos, ← label_keyExpansion]
    have e3' : toBytes km = Model.KeySchedule.prf12 (hm ext .sm3) (toBytes master) (toBytes Src.tlcp.keyExpansionLabel)
        (toBytes sr ++ toBytes cr) (2 * m + 2 * k + 2 * i) := by
      rw [e3]; simp only [List.nil_append, toBytes_append]
    rw [← e3']
    simp only [toBytes_take, toBytes_drop]

/-! ### dtlcp

`dtlcp/prf.go` is the same text as `tlcp/prf.go`: each translated dtlcp definition unfolds to the very
term its tlcp twin unfolds to (checked by the kernel, `rfl`).  A change of either file alone breaks
the theorem of the changed function here (and, for tlcp, the proofs above). -/

theorem tie_pHash_dtlcp (ext : Go.Extern) (alg : Go.HashAlg) (h : Nat) (hl : ∀ k x, (ext.hmac alg k x).length = h) (hpos : 0 < h)
    (result secret seed : BV) :
    ∃ r, Src.dtlcp.pHash ext result secret seed alg = .ok r ∧ r.length = result.length ∧
      toBytes r = Model.KeySchedule.pHash (hm ext alg) (toBytes secret) (toBytes seed) result.length := by
  have e : Src.dtlcp.pHash ext result secret seed alg = Src.tlcp.pHash ext result secret seed alg := rfl
  rw [e]; exact tie_pHash ext alg h hl hpos result secret seed

theorem tie_prf12_dtlcp (ext : Go.Extern) (alg : Go.HashAlg) (h : Nat) (hl : ∀ k x, (ext.hmac alg k x).length = h) (hpos : 0 < h)
    (result secret label seed : BV) :
    ∃ r, Src.dtlcp.prf12 ext alg result secret label seed = .ok r ∧ r.length = result.length ∧
      toBytes r = Model.KeySchedule.prf12 (hm ext alg) (toBytes secret) (toBytes label) (toBytes seed) result.length := by
  have e : Src.dtlcp.prf12 ext alg result secret label seed = Src.tlcp.prf12 ext alg result secret label seed := rfl
  rw [e]; exact tie_prf12 ext alg h hl hpos result secret label seed

theorem tie_prfForVersion_dtlcp (ext : Go.Extern) (h : Nat) (hl : ∀ k x, (ext.hmac .sm3 k x).length = h) (hpos : 0 < h)
    (v : BitVec 16) (s : Src.dtlcp.cipherSuite) (result secret label seed : BV) :
    ∃ r, Src.dtlcp.prfForVersion ext v s result secret label seed = .ok r ∧ r.length = result.length ∧
      toBytes r = Model.KeySchedule.prf12 (hm ext .sm3) (toBytes secret) (toBytes label) (toBytes seed) result.length := by
  have e : Src.dtlcp.prfForVersion ext v s result secret label seed
      = Src.tlcp.prfForVersion ext v { id := s.id } result secret label seed := rfl
  rw [e]; exact tie_prfForVersion ext h hl hpos v _ result secret label seed

theorem tie_master_dtlcp (ext : Go.Extern) (P : Prims) (hP : P.hmac = hm ext .sm3)
    (hl : ∀ k x, (ext.hmac .sm3 k x).length = P.hLen) (hpos : 0 < P.hLen)
    (v : BitVec 16) (s : Src.dtlcp.cipherSuite) (pre cr sr : BV) :
    ∃ m, Src.dtlcp.masterFromPreMasterSecret ext v s pre cr sr = .ok m ∧
      toBytes m = Spec.KeySchedule.masterSecret P (toBytes pre) (toBytes cr) (toBytes sr) := by
  have e : Src.dtlcp.masterFromPreMasterSecret ext v s pre cr sr
      = Src.tlcp.masterFromPreMasterSecret ext v { id := s.id } pre cr sr := rfl
  rw [e]; exact tie_master ext P hP hl hpos v _ pre cr sr

theorem tie_keys_dtlcp (ext : Go.Extern) (P : Prims) (hP : P.hmac = hm ext .sm3)
    (hl : ∀ k x, (ext.hmac .sm3 k x).length = P.hLen) (hpos : 0 < P.hLen)
    (v : BitVec 16) (s : Src.dtlcp.cipherSuite) (master cr sr : BV) (macLen keyLen ivLen : Int)
    (h1 : 0 ≤ macLen) (h2 : 0 ≤ keyLen) (h3 : 0 ≤ ivLen) (mode : Spec.KeySchedule.Mode) :
    ∃ rest cMAC sMAC cKey sKey cIV sIV,
      Src.dtlcp.keysFromMasterSecret ext v s master cr sr macLen keyLen ivLen = .ok (rest, cMAC, sMAC, cKey, sKey, cIV, sIV) ∧
      (⟨toBytes cMAC, toBytes sMAC, toBytes cKey, toBytes sKey, toBytes cIV, toBytes sIV⟩ : Spec.KeySchedule.KeyBlock) =
        Spec.KeySchedule.keyBlock P ⟨mode, macLen.toNat, keyLen.toNat, ivLen.toNat⟩ (toBytes master) (toBytes cr) (toBytes sr) := by
  have e : Src.dtlcp.keysFromMasterSecret ext v s master cr sr macLen keyLen ivLen
      = Src.tlcp.keysFromMasterSecret ext v { id := s.id } master cr sr macLen keyLen ivLen := rfl
  rw [e]; exact tie_keys ext P hP hl hpos v _ master cr sr macLen keyLen ivLen h1 h2 h3 mode

end Gotlcp.Tie.KeySched

/-
Tie by translation, tlcp `clientHelloMsg.unmarshal` (cryptobyte based; `Gotlcp.Src.tlcp.codec`, regenerated from
tlcp/handshake_messages.go on every run): for EVERY receiver and EVERY byte string the translated text
returns what the specification `chSpecT` (Gotlcp.Tie.CodecCH) says — never `.error`: no Go panic, and
none of the seven bounded loops (cipher suites, extensions, server names, trusted authorities, curves,
signature algorithms, ALPN protocols) runs out of its `len(data)+1` iterations.

How the proof goes: the text is evaluated symbolically along one path at a time (`ev`, see
Gotlcp.Tie.CodecCH); each read is decided beforehand by a case split on the specification's reader
(`rdU16`, `rdVec`, …); each loop is handed to `loop_rule` with its step specification — one bullet
per extension case below.
-/
import Gotlcp.Tie.CodecCH

set_option linter.unusedSimpArgs false
set_option linter.unusedVariables false

namespace Gotlcp.Tie.CodecCHTlcp
open Gotlcp Gotlcp.Tie.CbString Gotlcp.Tie.CodecCH
open Gotlcp.Tie.UnmarshalTlcp (complete tie_isComplete complete_true u24)
open Gotlcp.Src.tlcp.codec

theorem isComplete_same : @Gotlcp.Src.tlcp.codec.tlcpIsCompleteMessage = @Gotlcp.Src.tlcp.tlcpIsCompleteMessage := rfl

theorem bind_complete {β : Type} (data : BV) (t : BitVec 8) (K : Bool → Except String β) :
    (tlcpIsCompleteMessage data t >>= K) = K (complete data t) := by
  rw [isComplete_same, tie_isComplete]; rfl

/-- the decoded fields of a tlcp `clientHelloMsg` -/
def viewT (m : clientHelloMsg) : CHv :=
  { raw := m.raw, vers := m.vers, random := m.random, sessionId := m.sessionId, suites := m.cipherSuites,
    compression := m.compressionMethods, serverName := m.serverName,
    tas := m.trustedAuthorities.map (fun t => (t.IdentifierType, t.Identifier)), ocsp := m.ocspStapling,
    curves := m.supportedCurves, sigAlgs := m.supportedSignatureAlgorithms, alpn := m.alpnProtocols,
    clientId := m.ibsdhClientID }

/-- lazy symbolic evaluation of the translated text along the path fixed by the given facts -/
macro "ev" "[" ts:Lean.Parser.Tactic.simpLemma,* "]" : tactic =>
  `(tactic| simp only [↓reduceIte, ↓stopAtLoop, ↓bind_ok, ↓bind_complete, ↓bind_skip4_ok, ↓bind_make32, pure_ok, empty_eq,
      Bool.not_true, Bool.not_false, Bool.false_eq_true, Bool.not_not, Bool.or_true, Bool.true_or, Bool.or_false,
      Bool.false_or, Bool.and_true, Bool.true_and, List.isEmpty_nil, List.isEmpty_cons, intlen_ne_zero,
      List.drop_succ_cons, List.drop_zero, $ts,*])

theorem viewT_serverName (m : clientHelloMsg) : (viewT m).serverName = m.serverName := rfl

set_option maxHeartbeats 400000 in
/-- **tlcp `clientHelloMsg.unmarshal`, every receiver, every byte string**: the translated text returns
`(m', true)` with `viewT m'` the specified fields when `chSpecT` accepts, `(_, false)` when it refuses; never
`.error` -/
theorem tie_clientHello (m : clientHelloMsg) (data : BV) :
    Res viewT (clientHelloMsg.unmarshal m data) (chSpecT data) := by
  unfold clientHelloMsg.unmarshal chSpecT
  cases hc : complete data 1#8
  · ev [hc]
    exact Res.reject _
  · obtain ⟨b, c, d, rest, rfl, hl⟩ := complete_true hc
    unfold bodyS
    rcases h1 : rdU16 rest with _ | ⟨vers, s1⟩
    · ev [hc, h1, ↓bind_u16_none h1]
      exact Res.reject _
    rcases h2 : rdBytes 32 s1 with _ | ⟨rnd, s2⟩
    · ev [hc, h1, ↓bind_u16_some h1, h2, ↓bind_bytes32_none h2]
      exact Res.reject _
    rcases h3 : rdVec 1 s2 with _ | ⟨sid, s3⟩
    · ev [hc, h1, ↓bind_u16_some h1, h2, ↓bind_bytes32_some h2, h3, ↓bind_LP8_none h3]
      exact Res.reject _
    rcases h4 : rdVec 2 s3 with _ | ⟨csb, s5⟩
    · ev [hc, h1, ↓bind_u16_some h1, h2, ↓bind_bytes32_some h2, h3, ↓bind_LP8_some h3, h4, ↓bind_lp16_none h4]
      exact Res.reject _
    ev [hc, h1, ↓bind_u16_some h1, h2, ↓bind_bytes32_some h2, h3, ↓bind_LP8_some h3, h4, ↓bind_lp16_some h4]
    have l1 := rdU16_len h1
    have l2 := (rdBytes_len h2).1
    have l3 := rdVec_len h3
    have l4 := rdVec_len h4
    refine loop_rule viewT (fun r => Res viewT r _) _ suiteStep csb.length _ _ csb _ ?_ ?_ (Nat.le_refl _) ?_ ?_ ?_
    · intro x r m
      ev []
    · intro x r m a s hB
      unfold suiteStep
      rcases h : rdU16 (a :: s) with _ | ⟨x16, r'⟩
      · ev [h, ↓bind_u16_none h]
        exact StepOK.ret _ _ _ _
      · ev [h, ↓bind_u16_some h]
        exact StepOK.yield _ _ _ _ rfl (by have := rdU16_len h; omega)
    · simp only [List.length_cons]; omega
    · intro v1 m1 hL hv1
      simp only [viewT, toNat_succ, List.map_nil] at hL
      rcases h5 : rdVec 1 s5 with _ | ⟨cm, s6⟩
      · ev [hL, h5, ↓bind_LP8_none h5]
        exact Res.reject _
      have l5 := rdVec_len h5
      rcases s6 with _ | ⟨e0, s6'⟩
      · ev [hL, h5, ↓bind_LP8_some h5]
        exact Res.accept _ _ (by subst hv1; rfl)
      rcases h6 : rdVec 2 (e0 :: s6') with _ | ⟨exts, s7⟩
      · ev [hL, h5, ↓bind_LP8_some h5, h6, ↓bind_lp16_none h6]
        exact Res.reject _
      have l6 := rdVec_len h6
      rcases s7 with _ | ⟨e1, s7'⟩
      rotate_left
      · ev [hL, h5, ↓bind_LP8_some h5, h6, ↓bind_lp16_some h6]
        exact Res.reject _
      ev [hL, h5, ↓bind_LP8_some h5, h6, ↓bind_lp16_some h6]
      simp only [List.length_cons, List.length_nil] at l5 l6
      refine loop_rule viewT (fun r => Res viewT r _) _ (extStepS false ((1#8 :: b :: c :: d :: rest).length + 1))
        exts.length _ _ exts _ ?_ ?_ (Nat.le_refl _) ?_ ?_ ?_
      · intro x r m
        ev []
      · -- one extension
        intro x r m a s hB
        unfold extStepS
        rcases g1 : rdU16 (a :: s) with _ | ⟨ty, x1⟩
        · ev [g1, ↓bind_u16_none g1]
          exact StepOK.ret _ _ _ _
        have k1 := rdU16_len g1
        rcases g2 : rdVec 2 x1 with _ | ⟨ed, x2⟩
        · ev [g1, ↓bind_u16_some g1, g2, ↓bind_lp16_none g2]
          exact StepOK.ret _ _ _ _
        have k2 := rdVec_len g2
        unfold extCaseS
        cases t0 : ty == 0#16
        rotate_left
        · -- server_name
          rcases g3 : rdVec 2 ed with _ | ⟨nl, ed'⟩
          · ev [g1, ↓bind_u16_some g1, g2, ↓bind_lp16_some g2, t0, g3, ↓bind_lp16_none g3]
            exact StepOK.ret _ _ _ _
          have k3 := rdVec_len g3
          rcases nl with _ | ⟨n0, nl'⟩
          · ev [g1, ↓bind_u16_some g1, g2, ↓bind_lp16_some g2, t0, g3, ↓bind_lp16_some g3]
            exact StepOK.ret _ _ _ _
          ev [g1, ↓bind_u16_some g1, g2, ↓bind_lp16_some g2, t0, g3, ↓bind_lp16_some g3]
          refine loop_rule viewT (StepOK viewT _ _) _ sniStep (n0 :: nl').length _ _ (n0 :: nl') _ ?_ ?_ (Nat.le_refl _) ?_ ?_ ?_
          · intro x r m
            ev []
          · intro x r m a' s' hB'
            unfold sniStep
            rcases q1 : rdU8 (a' :: s') with _ | ⟨t, y1⟩
            · ev [q1, ↓bind_u8_none q1]
              exact StepOK.ret _ _ _ _
            have j1 := rdU8_len q1
            rcases q2 : rdVec 2 y1 with _ | ⟨name, y2⟩
            · ev [q1, ↓bind_u8_some q1, q2, ↓bind_lp16_none q2]
              exact StepOK.ret _ _ _ _
            have j2 := rdVec_len q2
            rcases name with _ | ⟨c0, name'⟩
            · ev [q1, ↓bind_u8_some q1, q2, ↓bind_lp16_some q2]
              exact StepOK.ret _ _ _ _
            cases e1 : t != 0#8
            rotate_left
            · ev [q1, ↓bind_u8_some q1, q2, ↓bind_lp16_some q2, e1]
              exact StepOK.yield _ _ _ _ rfl (by omega)
            cases e2 : m.serverName.isEmpty
            · ev [q1, ↓bind_u8_some q1, q2, ↓bind_lp16_some q2, e1, viewT_serverName, e2]
              exact StepOK.yield _ _ _ _ rfl (by omega)
            cases e3 : Go.hasSuffix (c0 :: name') [46#8]
            · ev [q1, ↓bind_u8_some q1, q2, ↓bind_lp16_some q2, e1, viewT_serverName, e2, e3]
              exact StepOK.yield _ _ _ _ rfl (by omega)
            · ev [q1, ↓bind_u8_some q1, q2, ↓bind_lp16_some q2, e1, viewT_serverName, e2, e3]
              exact StepOK.ret _ _ _ _
          · simp only [List.length_cons] at *; omega
          · intro v' m' hL' hv'
            simp only [toNat_succ] at hL'
            rcases ed' with _ | ⟨z, ed''⟩
            · ev [hL']
              exact StepOK.yield _ _ _ _ hv' (by simp only [List.length_cons] at *; omega)
            · ev [hL']
              exact StepOK.ret _ _ _ _
          · intro hL' m1 m2 s2
            simp only [toNat_succ] at hL'
            ev [hL']
            exact StepOK.ret _ _ _ _
        cases t3 : ty == 3#16
        rotate_left
        · -- trusted_ca_keys
          rcases g3 : rdVec 2 ed with _ | ⟨nl, ed'⟩
          · ev [g1, ↓bind_u16_some g1, g2, ↓bind_lp16_some g2, t0, t3, g3, ↓bind_lp16_none g3]
            exact StepOK.ret _ _ _ _
          have k3 := rdVec_len g3
          rcases nl with _ | ⟨n0, nl'⟩
          · ev [g1, ↓bind_u16_some g1, g2, ↓bind_lp16_some g2, t0, t3, g3, ↓bind_lp16_some g3]
            exact StepOK.ret _ _ _ _
          ev [g1, ↓bind_u16_some g1, g2, ↓bind_lp16_some g2, t0, t3, g3, ↓bind_lp16_some g3]
          refine loop_rule viewT (StepOK viewT _ _) _ taStep (n0 :: nl').length _ _ (n0 :: nl') _ ?_ ?_ (Nat.le_refl _) ?_ ?_ ?_
          · intro x r m
            ev []
          · intro x r m a' s' hB'
            unfold taStep
            rcases q1 : rdU8 (a' :: s') with _ | ⟨t, y1⟩
            · ev [q1, ↓bind_u8_none q1]
              exact StepOK.ret _ _ _ _
            have j1 := rdU8_len q1
            cases e0 : t == 0#8
            rotate_left
            · ev [q1, ↓bind_u8_some q1, e0]
              exact StepOK.yield _ _ _ _ (by simp [viewT]) (by omega)
            cases e45 : (t == 4#8 || t == 5#8)
            rotate_left
            · rcases q2 : rdBytes 32 y1 with _ | ⟨id, y2⟩
              · ev [q1, ↓bind_u8_some q1, e0, e45, q2, ↓bind_bytes32_none q2]
                exact StepOK.ret _ _ _ _
              · ev [q1, ↓bind_u8_some q1, e0, e45, q2, ↓bind_bytes32_some q2]
                exact StepOK.yield _ _ _ _ (by simp [viewT]) (by have := (rdBytes_len q2).1; omega)
            cases e2 : t == 2#8
            · ev [q1, ↓bind_u8_some q1, e0, e45, e2]
              exact StepOK.yield _ _ _ _ rfl (by omega)
            · rcases q2 : rdVec 2 y1 with _ | ⟨id, y2⟩
              · ev [q1, ↓bind_u8_some q1, e0, e45, e2, q2, ↓bind_LP16_none q2]
                exact StepOK.ret _ _ _ _
              · ev [q1, ↓bind_u8_some q1, e0, e45, e2, q2, ↓bind_LP16_some q2]
                exact StepOK.yield _ _ _ _ (by simp [viewT]) (by have := rdVec_len q2; omega)
          · simp only [List.length_cons] at *; omega
          · intro v' m' hL' hv'
            simp only [toNat_succ] at hL'
            rcases ed' with _ | ⟨z, ed''⟩
            · ev [hL']
              exact StepOK.yield _ _ _ _ hv' (by simp only [List.length_cons] at *; omega)
            · ev [hL']
              exact StepOK.ret _ _ _ _
          · intro hL' m1 m2 s2
            simp only [toNat_succ] at hL'
            ev [hL']
            exact StepOK.ret _ _ _ _
        cases t5 : ty == 5#16
        rotate_left
        · -- status_request
          rcases g3 : rdU8 ed with _ | ⟨st, d1⟩
          · ev [g1, ↓bind_u16_some g1, g2, ↓bind_lp16_some g2, t0, t3, t5, g3, ↓bind_u8_none g3]
            exact StepOK.ret _ _ _ _
          rcases g4 : rdVec 2 d1 with _ | ⟨ig1, d2⟩
          · ev [g1, ↓bind_u16_some g1, g2, ↓bind_lp16_some g2, t0, t3, t5, g3, ↓bind_u8_some g3, g4, ↓bind_lp16_none g4]
            exact StepOK.ret _ _ _ _
          rcases g5 : rdVec 2 d2 with _ | ⟨ig2, d3⟩
          · ev [g1, ↓bind_u16_some g1, g2, ↓bind_lp16_some g2, t0, t3, t5, g3, ↓bind_u8_some g3, g4, ↓bind_lp16_some g4, g5, ↓bind_lp16_none g5]
            exact StepOK.ret _ _ _ _
          rcases d3 with _ | ⟨z, d3'⟩
          · ev [g1, ↓bind_u16_some g1, g2, ↓bind_lp16_some g2, t0, t3, t5, g3, ↓bind_u8_some g3, g4, ↓bind_lp16_some g4, g5, ↓bind_lp16_some g5]
            exact StepOK.yield _ _ _ _ rfl (by omega)
          · ev [g1, ↓bind_u16_some g1, g2, ↓bind_lp16_some g2, t0, t3, t5, g3, ↓bind_u8_some g3, g4, ↓bind_lp16_some g4, g5, ↓bind_lp16_some g5]
            exact StepOK.ret _ _ _ _
        cases t10 : ty == 10#16
        rotate_left
        · -- supported curves
          rcases g3 : rdVec 2 ed with _ | ⟨nl, ed'⟩
          · ev [g1, ↓bind_u16_some g1, g2, ↓bind_lp16_some g2, t0, t3, t5, t10, g3, ↓bind_lp16_none g3]
            exact StepOK.ret _ _ _ _
          have k3 := rdVec_len g3
          rcases nl with _ | ⟨n0, nl'⟩
          · ev [g1, ↓bind_u16_some g1, g2, ↓bind_lp16_some g2, t0, t3, t5, t10, g3, ↓bind_lp16_some g3]
            exact StepOK.ret _ _ _ _
          ev [g1, ↓bind_u16_some g1, g2, ↓bind_lp16_some g2, t0, t3, t5, t10, g3, ↓bind_lp16_some g3]
          refine loop_rule viewT (StepOK viewT _ _) _ curveStep (n0 :: nl').length _ _ (n0 :: nl') _ ?_ ?_ (Nat.le_refl _) ?_ ?_ ?_
          · intro x r m
            ev []
          · intro x r m a' s' hB'
            unfold curveStep
            rcases q1 : rdU16 (a' :: s') with _ | ⟨t, y1⟩
            · ev [q1, ↓bind_u16_none q1]
              exact StepOK.ret _ _ _ _
            · ev [q1, ↓bind_u16_some q1]
              exact StepOK.yield _ _ _ _ rfl (by have := rdU16_len q1; omega)
          · simp only [List.length_cons] at *; omega
          · intro v' m' hL' hv'
            simp only [toNat_succ] at hL'
            rcases ed' with _ | ⟨z, ed''⟩
            · ev [hL']
              exact StepOK.yield _ _ _ _ hv' (by simp only [List.length_cons] at *; omega)
            · ev [hL']
              exact StepOK.ret _ _ _ _
          · intro hL' m1 m2 s2
            simp only [toNat_succ] at hL'
            ev [hL']
            exact StepOK.ret _ _ _ _
        cases t13 : ty == 13#16
        rotate_left
        · -- signature algorithms
          rcases g3 : rdVec 2 ed with _ | ⟨nl, ed'⟩
          · ev [g1, ↓bind_u16_some g1, g2, ↓bind_lp16_some g2, t0, t3, t5, t10, t13, g3, ↓bind_lp16_none g3]
            exact StepOK.ret _ _ _ _
          have k3 := rdVec_len g3
          rcases nl with _ | ⟨n0, nl'⟩
          · ev [g1, ↓bind_u16_some g1, g2, ↓bind_lp16_some g2, t0, t3, t5, t10, t13, g3, ↓bind_lp16_some g3]
            exact StepOK.ret _ _ _ _
          ev [g1, ↓bind_u16_some g1, g2, ↓bind_lp16_some g2, t0, t3, t5, t10, t13, g3, ↓bind_lp16_some g3]
          refine loop_rule viewT (StepOK viewT _ _) _ sigAlgStep (n0 :: nl').length _ _ (n0 :: nl') _ ?_ ?_ (Nat.le_refl _) ?_ ?_ ?_
          · intro x r m
            ev []
          · intro x r m a' s' hB'
            unfold sigAlgStep
            rcases q1 : rdU16 (a' :: s') with _ | ⟨t, y1⟩
            · ev [q1, ↓bind_u16_none q1]
              exact StepOK.ret _ _ _ _
            · ev [q1, ↓bind_u16_some q1]
              exact StepOK.yield _ _ _ _ rfl (by have := rdU16_len q1; omega)
          · simp only [List.length_cons] at *; omega
          · intro v' m' hL' hv'
            simp only [toNat_succ] at hL'
            rcases ed' with _ | ⟨z, ed''⟩
            · ev [hL']
              exact StepOK.yield _ _ _ _ hv' (by simp only [List.length_cons] at *; omega)
            · ev [hL']
              exact StepOK.ret _ _ _ _
          · intro hL' m1 m2 s2
            simp only [toNat_succ] at hL'
            ev [hL']
            exact StepOK.ret _ _ _ _
        cases t16 : ty == 16#16
        rotate_left
        · -- ALPN
          rcases g3 : rdVec 2 ed with _ | ⟨nl, ed'⟩
          · ev [g1, ↓bind_u16_some g1, g2, ↓bind_lp16_some g2, t0, t3, t5, t10, t13, t16, g3, ↓bind_lp16_none g3]
            exact StepOK.ret _ _ _ _
          have k3 := rdVec_len g3
          rcases nl with _ | ⟨n0, nl'⟩
          · ev [g1, ↓bind_u16_some g1, g2, ↓bind_lp16_some g2, t0, t3, t5, t10, t13, t16, g3, ↓bind_lp16_some g3]
            exact StepOK.ret _ _ _ _
          ev [g1, ↓bind_u16_some g1, g2, ↓bind_lp16_some g2, t0, t3, t5, t10, t13, t16, g3, ↓bind_lp16_some g3]
          refine loop_rule viewT (StepOK viewT _ _) _ alpnStep (n0 :: nl').length _ _ (n0 :: nl') _ ?_ ?_ (Nat.le_refl _) ?_ ?_ ?_
          · intro x r m
            ev []
          · intro x r m a' s' hB'
            unfold alpnStep
            rcases q1 : rdVec 1 (a' :: s') with _ | ⟨pr, y1⟩
            · ev [q1, ↓bind_lp8_none q1]
              exact StepOK.ret _ _ _ _
            have j1 := rdVec_len q1
            rcases pr with _ | ⟨p0, pr'⟩
            · ev [q1, ↓bind_lp8_some q1]
              exact StepOK.ret _ _ _ _
            · ev [q1, ↓bind_lp8_some q1]
              exact StepOK.yield _ _ _ _ rfl (by simp only [List.length_cons] at *; omega)
          · simp only [List.length_cons] at *; omega
          · intro v' m' hL' hv'
            simp only [toNat_succ] at hL'
            rcases ed' with _ | ⟨z, ed''⟩
            · ev [hL']
              exact StepOK.yield _ _ _ _ hv' (by simp only [List.length_cons] at *; omega)
            · ev [hL']
              exact StepOK.ret _ _ _ _
          · intro hL' m1 m2 s2
            simp only [toNat_succ] at hL'
            ev [hL']
            exact StepOK.ret _ _ _ _
        cases t66 : ty == 66#16
        rotate_left
        · -- IBSDH client id
          rcases g3 : rdVec 2 ed with _ | ⟨id, ed'⟩
          · ev [g1, ↓bind_u16_some g1, g2, ↓bind_lp16_some g2, t0, t3, t5, t10, t13, t16, t66, g3, ↓bind_LP16_none g3]
            exact StepOK.ret _ _ _ _
          rcases ed' with _ | ⟨z, ed''⟩
          · ev [g1, ↓bind_u16_some g1, g2, ↓bind_lp16_some g2, t0, t3, t5, t10, t13, t16, t66, g3, ↓bind_LP16_some g3]
            exact StepOK.yield _ _ _ _ rfl (by omega)
          · ev [g1, ↓bind_u16_some g1, g2, ↓bind_lp16_some g2, t0, t3, t5, t10, t13, t16, t66, g3, ↓bind_LP16_some g3]
            exact StepOK.ret _ _ _ _
        -- unknown extension: `continue`
        ev [g1, ↓bind_u16_some g1, g2, ↓bind_lp16_some g2, t0, t3, t5, t10, t13, t16, t66]
        exact StepOK.yield _ _ _ _ rfl (by omega)
      · simp only [List.length_cons]; omega
      · intro v2 m2 hL2 hv2
        subst hv1
        simp only [toNat_succ] at hL2
        refine Res.of_eq hL2 ?_
        ev []
        exact Res.accept _ _ hv2
      · intro hL2 m3 m4 s4
        subst hv1
        simp only [toNat_succ] at hL2
        refine Res.of_eq hL2 ?_
        ev []
        exact Res.reject _
    · intro hL m1 m2 s2
      simp only [viewT, toNat_succ, List.map_nil] at hL
      ev [hL]
      exact Res.reject _


end Gotlcp.Tie.CodecCHTlcp

/-
Tie by translation, the ENCODERS of tlcp/handshake_messages.go (`marshal` of every message except
certificateMsg and certificateRequestMsg, which write through a moving window of the result and are
refused by the translator's alias analysis: they stay with model + correspondence).
`Gotlcp.Src.tlcp.codec.*.marshal` is regenerated from the Go source on every run by
`harness/cmd/go2lean`, statement by statement; `cryptobyte.Builder` is the stub `cbBuilder` whose
methods `Tie/CbBuilder.lean` specifies.

This file: the shared vocabulary (`EncAgree`: what it means for a translated marshal to compute the
model encoder), the model's option combinators in `oapp`/`bind` form, and the small messages
(finished, certificateVerify, serverKeyExchange, clientKeyExchange, serverHelloDone).  The hello
messages are in Tie/CodecEncSH.lean / CodecEncCH.lean, the dtlcp stack in Tie/CodecEncDtlcp*.lean.

Statement for every marshal `M` and message object `m`:
  * `m.raw ≠ []` (the cache is filled): `M m = (m, m.raw, nil)`;
  * `m.raw = []` (fresh): `EncAgree … (M m) (Model.enc… codes (abs m))` — the model encoder returns
    `some b` exactly when `M` returns a nil error, and then the bytes are `b` and `m.raw` is set to
    them (every other field unchanged); when the model refuses (`none`: a field too long for its
    length prefix, a random of the wrong size) `M` returns the builder's error, no bytes, and leaves
    `m` as it was.

Core Lean only.
-/
import Gotlcp.Tie.CbBuilder
import Gotlcp.Model.CodecParams

set_option linter.unusedSimpArgs false
set_option linter.unusedVariables false

namespace Gotlcp.Tie.CodecEnc
open Gotlcp Gotlcp.Wire Gotlcp.Wire.Msg Gotlcp.Model.Codec Gotlcp.Tie.CbBuilder
open Gotlcp.Src.tlcp.codec
open Gotlcp.Tie.UnmarshalTlcpCodec (abs abs_nil abs_cons abs_append abs_length)

/-- what a marshal returns: the (updated) message object, the bytes, the error -/
abbrev Res (M : Type) := M × BV × Option Go.Error

/-- the translated marshal's answer `r` on the fresh object `m` IS the model encoder's answer `o`:
encoded to the same bytes, cached in `raw` (`setRaw`), nil error — or refused with the builder's
error, no bytes, object unchanged -/
def EncAgree {M : Type} (setRaw : BV → M) (m : M) (r : Res M) (o : Option Bytes) : Prop :=
  match o with
  | some b => ∃ bytes, r = (setRaw bytes, bytes, none) ∧ abs bytes = b
  | none => r = (m, [], some Go.Error.other)

/-- the end of every cryptobyte-based marshal: `m.raw, err = b.Bytes(); return m.raw, err` -/
theorem agree_bytes {M : Type} (setRaw : BV → M) (m : M) (b : cbBuilder) (o : Option Bytes)
    (hb : bld b = o) (h0 : setRaw [] = m) :
    EncAgree setRaw m (setRaw (cbBuilder.Bytes b).1, (cbBuilder.Bytes b).1, (cbBuilder.Bytes b).2) o := by
  have h := bytes_bld b
  rw [hb] at h
  cases o with
  | none => simp only [EncAgree]; rw [h, h0]
  | some x =>
    obtain ⟨bs, e, ha⟩ := h
    simp only [EncAgree]; rw [e]; exact ⟨bs, rfl, ha⟩

theorem encAgree_err_iff {M : Type} {setRaw : BV → M} {m : M} {r : Res M} {o : Option Bytes}
    (h : EncAgree setRaw m r o) : r.2.2 = none ↔ o.isSome = true := by
  cases o with
  | none => simp only [EncAgree] at h; rw [h]; simp
  | some b => obtain ⟨bs, e, _⟩ := h; rw [e]; simp

theorem abs_injective : ∀ {a b : BV}, abs a = abs b → a = b := by
  intro a
  induction a with
  | nil => intro b h; cases b with | nil => rfl | cons _ _ => simp [abs] at h
  | cons x xs ih =>
    intro b h
    cases b with
    | nil => simp [abs] at h
    | cons y ys =>
      simp only [abs_cons, List.cons.injEq] at h
      rw [ih h.2, show x = y from congrArg UInt8.toBitVec h.1]

/-! ## join points: an `if c { exts … }` statement followed by the rest of the function -/

/-- `if c { e = f e }; k e` as the do-notation elaborates it (the continuation `k` in both arms) -/
def stepK {α β : Type} (c : Bool) (f : α → α) (k : α → β) (e : α) : β := if c then k (f e) else k e
/-- `if c { e = f e }` -/
def optExt {α : Type} (c : Bool) (f : α → α) (e : α) : α := if c then f e else e
theorem stepK_eq {α β : Type} (c : Bool) (f : α → α) (k : α → β) (e : α) :
    stepK c f k e = k (optExt c f e) := by
  unfold stepK optExt; cases c <;> rfl

/-- `for x in l { s = step s x }` as the do-notation elaborates it in the identity monad -/
def loopId {α β : Type} (l : List α) (init : β) (step : β → α → β) : β :=
  Id.run (forIn l init fun x s => pure (ForInStep.yield (step s x)))

theorem loopId_eq {α β : Type} (l : List α) (init : β) (step : β → α → β) :
    loopId l init step = l.foldl step init := by
  unfold loopId
  induction l generalizing init with
  | nil => rfl
  | cons x xs ih => simp only [List.forIn_cons, List.foldl_cons, Id.run, pure, bind] at ih ⊢; exact ih _

/-- the empty builder (`cryptobyte.Builder{}` / the fresh child of a length-prefixed continuation) -/
abbrev B0 : cbBuilder := {}

theorem bld_B0 : bld B0 = some [] := rfl

theorem bld_optExt (c : Bool) (f : cbBuilder → cbBuilder) (e : cbBuilder) (x : Option Bytes)
    (hf : bld (f e) = oapp (bld e) x) : bld (optExt c f e) = oapp (bld e) (optBytes c x) := by
  unfold optExt optBytes
  cases c
  · simp [oapp_nil_right]
  · simpa using hf

/-! ## the model's option combinators in `oapp` / `bind` form -/

theorem ext_eq (code : Nat) (body : Option Bytes) : ext code body = oapp (some (be16 code)) (body.bind vec16) := by
  unfold ext
  cases body with
  | none => rfl
  | some b => cases h : vec16 b <;> simp [h, oapp]

theorem vec16x2_eq (inner : Option Bytes) : vec16x2 inner = inner.bind vec16 := by
  cases inner <;> rfl

theorem prefixed_eq (x : UInt8) (o : Option Bytes) : prefixed x o = oapp (some [x]) o := by
  cases o <;> rfl

theorem int_pos (n : Nat) : decide ((n : Int) > 0) = decide (n > 0) := by
  by_cases h : n > 0
  · have : (n : Int) > 0 := by omega
    simp [h, this]
  · have : ¬ (n : Int) > 0 := by omega
    simp [h, this]

/-- a 16-bit value: `AddUint16` writes the model's two bytes -/
theorem w16_bytes (v : BitVec 16) : (w16 v).bytes = [UInt8.ofBitVec (BitVec.setWidth 8 (v >>> 8)), UInt8.ofBitVec (BitVec.setWidth 8 v)] := rfl

/-! ## the rewrite set: a builder expression under `bld` becomes an `oapp`/`bind` expression -/

macro "bld_simp" : tactic => `(tactic| simp only [bld_addUint8, bld_addUint16, bld_addBytes, bld_addLP1, bld_addLP2,
  bld_addLP3, bld_addBytesWithLength, bld_B0, bld_empty, oapp_nil_left, oapp_nil_right, oapp_some, Option.bind_some,
  Option.bind_none, oapp_none_left, oapp_none_right, List.nil_append, List.append_nil])

/-! ## finishedMsg -/

def setRawFin (m : finishedMsg) (r : BV) : finishedMsg := { m with raw := r }

theorem marshal_finished_cached (m : finishedMsg) (h : m.raw ≠ []) :
    finishedMsg.marshal m = (m, m.raw, none) := by
  unfold finishedMsg.marshal
  have : (!m.raw.isEmpty) = true := by cases hr : m.raw with | nil => exact absurd hr h | cons _ _ => rfl
  simp only [Id.run, pure, this, if_true]

/-- the builder `finishedMsg.marshal` fills -/
def finBuilder (m : finishedMsg) : cbBuilder :=
  cbBuilder.addLengthPrefixed (cbBuilder.AddUint8 B0 20#8) 3 (cbBuilder.AddBytes B0 m.verifyData)

theorem marshal_finished_eq (m : finishedMsg) (h : m.raw = []) :
    finishedMsg.marshal m = (setRawFin m (cbBuilder.Bytes (finBuilder m)).1, (cbBuilder.Bytes (finBuilder m)).1,
      (cbBuilder.Bytes (finBuilder m)).2) := by
  unfold finishedMsg.marshal
  simp only [Id.run, pure, h, List.isEmpty_nil, Bool.not_true, Bool.false_eq_true, if_false]
  rfl

theorem bld_finBuilder (m : finishedMsg) : bld (finBuilder m) = encFinished codesT ⟨abs m.verifyData⟩ := by
  unfold finBuilder encFinished
  bld_simp
  cases vec24 (abs m.verifyData) <;> rfl

/-- **`finishedMsg.marshal`** = model encoder, every fresh message object -/
theorem tie_enc_finished (m : finishedMsg) (h : m.raw = []) :
    EncAgree (setRawFin m) m (finishedMsg.marshal m) (encFinished codesT ⟨abs m.verifyData⟩) := by
  rw [marshal_finished_eq m h]
  exact agree_bytes _ m _ _ (bld_finBuilder m) (by cases m; simp only [setRawFin] at *; subst h; rfl)

/-! ## certificateVerifyMsg -/

def setRawCV (m : certificateVerifyMsg) (r : BV) : certificateVerifyMsg := { m with raw := r }

theorem marshal_certificateVerify_cached (m : certificateVerifyMsg) (h : m.raw ≠ []) :
    certificateVerifyMsg.marshal m = (m, m.raw, none) := by
  unfold certificateVerifyMsg.marshal
  have : (!m.raw.isEmpty) = true := by cases hr : m.raw with | nil => exact absurd hr h | cons _ _ => rfl
  simp only [Id.run, pure, this, if_true]

def cvBuilder (m : certificateVerifyMsg) : cbBuilder :=
  cbBuilder.addLengthPrefixed (cbBuilder.AddUint8 B0 15#8) 3
    (cbBuilder.addLengthPrefixed B0 2 (cbBuilder.AddBytes B0 m.signature))

theorem marshal_certificateVerify_eq (m : certificateVerifyMsg) (h : m.raw = []) :
    certificateVerifyMsg.marshal m = (setRawCV m (cbBuilder.Bytes (cvBuilder m)).1, (cbBuilder.Bytes (cvBuilder m)).1,
      (cbBuilder.Bytes (cvBuilder m)).2) := by
  unfold certificateVerifyMsg.marshal
  simp only [Id.run, pure, h, List.isEmpty_nil, Bool.not_true, Bool.false_eq_true, if_false]
  rfl

theorem bld_cvBuilder (m : certificateVerifyMsg) : bld (cvBuilder m) = encCertificateVerify codesT ⟨abs m.signature⟩ := by
  unfold cvBuilder encCertificateVerify
  bld_simp
  cases h : vec16 (abs m.signature) with
  | none => rfl
  | some s => simp only [Option.bind_some]; cases vec24 s <;> rfl

/-- **`certificateVerifyMsg.marshal`** = model encoder -/
theorem tie_enc_certificateVerify (m : certificateVerifyMsg) (h : m.raw = []) :
    EncAgree (setRawCV m) m (certificateVerifyMsg.marshal m) (encCertificateVerify codesT ⟨abs m.signature⟩) := by
  rw [marshal_certificateVerify_eq m h]
  exact agree_bytes _ m _ _ (bld_cvBuilder m) (by cases m; simp only [setRawCV] at *; subst h; rfl)

/-! ## the hand-written encoders: `make`, indexed stores, `copy` -/

/-- sequencing after a statement that returned normally (`Except.bind` stays folded) -/
theorem ebind_ok {ε α β : Type} (a : α) (f : α → Except ε β) : Except.bind (Except.ok a) f = f a := by
  -- deliberately NOT proved by `rfl`: `simp` then records a proof step instead of leaving a definitional
  -- unfolding of a 12-deep `Except.bind` chain for the kernel to rediscover
  cases h : f a <;> simp only [Except.bind, h]

theorem makeN (n k : Nat) : Go.make (0#8) ((n : Int) + (k : Int)) = .ok (List.replicate k 0#8 ++ List.replicate n 0#8) := by
  have : ((n : Int) + (k : Int)) = ((k + n : Nat) : Int) := by omega
  rw [this]
  unfold Go.make
  have h0 : ¬ (((k + n : Nat) : Int) < 0) := by omega
  rw [if_neg h0, Int.toNat_natCast, List.replicate_append_replicate]

theorem make4 (n : Nat) : Go.make (0#8) ((n : Int) + 4) = .ok (0#8 :: 0#8 :: 0#8 :: 0#8 :: List.replicate n 0#8) :=
  makeN n 4

/-- `x[k] = v` on a slice long enough -/
theorem set_at {α : Type} (pre : List α) (a : α) (r : List α) (v : α) (k : Int) (hk : k = pre.length) :
    Go.set (pre ++ a :: r) k v = .ok (pre ++ v :: r) := by
  subst hk
  unfold Go.set
  have h0 : ¬ ((pre.length : Int) < 0) := by omega
  have h1 : (pre.length : Int).toNat < (pre ++ a :: r).length := by
    simp only [Int.toNat_natCast, List.length_append, List.length_cons]; omega
  rw [if_neg h0, if_pos h1, Int.toNat_natCast]
  congr 1
  induction pre with
  | nil => rfl
  | cons p ps ih => simp only [List.cons_append, List.length_cons, List.set_cons_succ, ih (by omega) (by simp)]

theorem set0 {α : Type} (a v : α) (r : List α) :
    Go.set (a :: r) (0 : Int) v = .ok (v :: r) := set_at [] a r v 0 rfl
theorem set1 {α : Type} (x0 a v : α) (r : List α) :
    Go.set (x0 :: a :: r) (1 : Int) v = .ok (x0 :: v :: r) := set_at [x0] a r v 1 rfl
theorem set2 {α : Type} (x0 x1 a v : α) (r : List α) :
    Go.set (x0 :: x1 :: a :: r) (2 : Int) v = .ok (x0 :: x1 :: v :: r) := set_at [x0, x1] a r v 2 rfl
theorem set3 {α : Type} (x0 x1 x2 a v : α) (r : List α) :
    Go.set (x0 :: x1 :: x2 :: a :: r) (3 : Int) v = .ok (x0 :: x1 :: x2 :: v :: r) := set_at [x0, x1, x2] a r v 3 rfl
theorem set4 {α : Type} (x0 x1 x2 x3 a v : α) (r : List α) :
    Go.set (x0 :: x1 :: x2 :: x3 :: a :: r) (4 : Int) v = .ok (x0 :: x1 :: x2 :: x3 :: v :: r) := set_at [x0, x1, x2, x3] a r v 4 rfl
theorem set5 {α : Type} (x0 x1 x2 x3 x4 a v : α) (r : List α) :
    Go.set (x0 :: x1 :: x2 :: x3 :: x4 :: a :: r) (5 : Int) v = .ok (x0 :: x1 :: x2 :: x3 :: x4 :: v :: r) := set_at [x0, x1, x2, x3, x4] a r v 5 rfl
theorem set6 {α : Type} (x0 x1 x2 x3 x4 x5 a v : α) (r : List α) :
    Go.set (x0 :: x1 :: x2 :: x3 :: x4 :: x5 :: a :: r) (6 : Int) v = .ok (x0 :: x1 :: x2 :: x3 :: x4 :: x5 :: v :: r) := set_at [x0, x1, x2, x3, x4, x5] a r v 6 rfl
theorem set7 {α : Type} (x0 x1 x2 x3 x4 x5 x6 a v : α) (r : List α) :
    Go.set (x0 :: x1 :: x2 :: x3 :: x4 :: x5 :: x6 :: a :: r) (7 : Int) v = .ok (x0 :: x1 :: x2 :: x3 :: x4 :: x5 :: x6 :: v :: r) := set_at [x0, x1, x2, x3, x4, x5, x6] a r v 7 rfl
theorem set8 {α : Type} (x0 x1 x2 x3 x4 x5 x6 x7 a v : α) (r : List α) :
    Go.set (x0 :: x1 :: x2 :: x3 :: x4 :: x5 :: x6 :: x7 :: a :: r) (8 : Int) v = .ok (x0 :: x1 :: x2 :: x3 :: x4 :: x5 :: x6 :: x7 :: v :: r) := set_at [x0, x1, x2, x3, x4, x5, x6, x7] a r v 8 rfl
theorem set9 {α : Type} (x0 x1 x2 x3 x4 x5 x6 x7 x8 a v : α) (r : List α) :
    Go.set (x0 :: x1 :: x2 :: x3 :: x4 :: x5 :: x6 :: x7 :: x8 :: a :: r) (9 : Int) v = .ok (x0 :: x1 :: x2 :: x3 :: x4 :: x5 :: x6 :: x7 :: x8 :: v :: r) := set_at [x0, x1, x2, x3, x4, x5, x6, x7, x8] a r v 9 rfl
theorem set10 {α : Type} (x0 x1 x2 x3 x4 x5 x6 x7 x8 x9 a v : α) (r : List α) :
    Go.set (x0 :: x1 :: x2 :: x3 :: x4 :: x5 :: x6 :: x7 :: x8 :: x9 :: a :: r) (10 : Int) v = .ok (x0 :: x1 :: x2 :: x3 :: x4 :: x5 :: x6 :: x7 :: x8 :: x9 :: v :: r) := set_at [x0, x1, x2, x3, x4, x5, x6, x7, x8, x9] a r v 10 rfl
theorem set11 {α : Type} (x0 x1 x2 x3 x4 x5 x6 x7 x8 x9 x10 a v : α) (r : List α) :
    Go.set (x0 :: x1 :: x2 :: x3 :: x4 :: x5 :: x6 :: x7 :: x8 :: x9 :: x10 :: a :: r) (11 : Int) v = .ok (x0 :: x1 :: x2 :: x3 :: x4 :: x5 :: x6 :: x7 :: x8 :: x9 :: x10 :: v :: r) := set_at [x0, x1, x2, x3, x4, x5, x6, x7, x8, x9, x10] a r v 11 rfl
theorem set12 {α : Type} (x0 x1 x2 x3 x4 x5 x6 x7 x8 x9 x10 x11 a v : α) (r : List α) :
    Go.set (x0 :: x1 :: x2 :: x3 :: x4 :: x5 :: x6 :: x7 :: x8 :: x9 :: x10 :: x11 :: a :: r) (12 : Int) v = .ok (x0 :: x1 :: x2 :: x3 :: x4 :: x5 :: x6 :: x7 :: x8 :: x9 :: x10 :: x11 :: v :: r) := set_at [x0, x1, x2, x3, x4, x5, x6, x7, x8, x9, x10, x11] a r v 12 rfl
theorem set13 {α : Type} (x0 x1 x2 x3 x4 x5 x6 x7 x8 x9 x10 x11 x12 a v : α) (r : List α) :
    Go.set (x0 :: x1 :: x2 :: x3 :: x4 :: x5 :: x6 :: x7 :: x8 :: x9 :: x10 :: x11 :: x12 :: a :: r) (13 : Int) v = .ok (x0 :: x1 :: x2 :: x3 :: x4 :: x5 :: x6 :: x7 :: x8 :: x9 :: x10 :: x11 :: x12 :: v :: r) := set_at [x0, x1, x2, x3, x4, x5, x6, x7, x8, x9, x10, x11, x12] a r v 13 rfl
theorem set14 {α : Type} (x0 x1 x2 x3 x4 x5 x6 x7 x8 x9 x10 x11 x12 x13 a v : α) (r : List α) :
    Go.set (x0 :: x1 :: x2 :: x3 :: x4 :: x5 :: x6 :: x7 :: x8 :: x9 :: x10 :: x11 :: x12 :: x13 :: a :: r) (14 : Int) v = .ok (x0 :: x1 :: x2 :: x3 :: x4 :: x5 :: x6 :: x7 :: x8 :: x9 :: x10 :: x11 :: x12 :: x13 :: v :: r) := set_at [x0, x1, x2, x3, x4, x5, x6, x7, x8, x9, x10, x11, x12, x13] a r v 14 rfl

/-- `copy(x[k:], src)` where `x` has exactly `len(src)` bytes after offset `k` -/
theorem copyInto_tail {α : Type} (pre rest src : List α) (k : Int) (hk : k = pre.length) (h : rest.length = src.length) :
    Go.copyInto (pre ++ rest) k ((pre ++ rest).length : Int) src = .ok (pre ++ src) := by
  subst hk
  unfold Go.copyInto
  have : ¬ ((pre.length : Int) < 0 ∨ ((pre ++ rest).length : Int) < (pre.length : Int) ∨
      ((pre ++ rest).length : Int) < ((pre ++ rest).length : Int)) := by
    simp only [List.length_append]; omega
  rw [if_neg this]
  simp only [Int.toNat_natCast, List.length_append, Nat.add_sub_cancel_left, h, Nat.min_self, List.take_left',
    List.take_length, List.append_assoc]
  rw [show pre.length + src.length = (pre ++ rest).length by simp [h], List.drop_length, List.append_nil]

theorem copy4 (a b c d : BitVec 8) (rest src : BV) (h : rest.length = src.length) :
    Go.copyInto (a :: b :: c :: d :: rest) (4 : Int) ((a :: b :: c :: d :: rest).length : Int) src =
      .ok (a :: b :: c :: d :: src) :=
  copyInto_tail [a, b, c, d] rest src 4 rfl h

/-- the four header bytes of a hand-written tlcp marshal, as the model writes them -/
theorem abs_hdr4 (t : BitVec 8) (n : Nat) (body : BV) :
    abs (t :: BitVec.ofInt 8 ((n : Int) >>> 16) :: BitVec.ofInt 8 ((n : Int) >>> 8) :: BitVec.ofInt 8 (n : Int) :: body) =
      UInt8.ofBitVec t :: (be24 n ++ abs body) := by
  simp only [abs_cons, be24, List.cons_append, List.nil_append]
  rw [byte_int n 16, byte_int n 8, byte_int0]

/-! ## serverKeyExchangeMsg, clientKeyExchangeMsg (hand-written, lengths truncate, no error) -/

def setRawSKX (m : serverKeyExchangeMsg) (r : BV) : serverKeyExchangeMsg := { m with raw := r }
def setRawCKX (m : clientKeyExchangeMsg) (r : BV) : clientKeyExchangeMsg := { m with raw := r }

/-- the bytes a hand-written key-exchange marshal produces -/
def keyBytes (t : BitVec 8) (k : BV) : BV :=
  t :: BitVec.ofInt 8 ((k.length : Int) >>> 16) :: BitVec.ofInt 8 ((k.length : Int) >>> 8) ::
    BitVec.ofInt 8 (k.length : Int) :: k

theorem keyBytes_model (t : BitVec 8) (T : Nat) (hT : u8 T = UInt8.ofBitVec t) (k : BV) :
    encKeyMsg T ⟨abs k⟩ = some (abs (keyBytes t k)) := by
  unfold encKeyMsg keyBytes
  rw [abs_hdr4, hT, abs_length]

theorem marshal_serverKeyExchange_cached (m : serverKeyExchangeMsg) (h : m.raw ≠ []) :
    serverKeyExchangeMsg.marshal m = .ok (m, m.raw, none) := by
  unfold serverKeyExchangeMsg.marshal
  have : (!m.raw.isEmpty) = true := by cases hr : m.raw with | nil => exact absurd hr h | cons _ _ => rfl
  simp only [pure, Except.pure, this, if_true]

theorem marshal_serverKeyExchange_eq (m : serverKeyExchangeMsg) (h : m.raw = []) :
    serverKeyExchangeMsg.marshal m = .ok (setRawSKX m (keyBytes 12#8 m.key), keyBytes 12#8 m.key, none) := by
  unfold serverKeyExchangeMsg.marshal
  simp only [h, List.isEmpty_nil, Bool.not_true, Bool.false_eq_true, if_false, make4, bind, ebind_ok, pure,
    Except.pure]
  simp only [set0, set1, set2, set3, ebind_ok]
  rw [copy4 _ _ _ _ _ _ (by simp)]
  rfl

/-- **`serverKeyExchangeMsg.marshal`** = model encoder (never an error; the length bytes truncate) -/
theorem tie_enc_serverKeyExchange (m : serverKeyExchangeMsg) (h : m.raw = []) :
    ∃ bytes, serverKeyExchangeMsg.marshal m = .ok (setRawSKX m bytes, bytes, none) ∧
      encKeyMsg codesT.tServerKeyExchange ⟨abs m.key⟩ = some (abs bytes) :=
  ⟨_, marshal_serverKeyExchange_eq m h, keyBytes_model 12#8 _ (by decide) m.key⟩

theorem marshal_clientKeyExchange_cached (m : clientKeyExchangeMsg) (h : m.raw ≠ []) :
    clientKeyExchangeMsg.marshal m = .ok (m, m.raw, none) := by
  unfold clientKeyExchangeMsg.marshal
  have : (!m.raw.isEmpty) = true := by cases hr : m.raw with | nil => exact absurd hr h | cons _ _ => rfl
  simp only [pure, Except.pure, this, if_true]

theorem marshal_clientKeyExchange_eq (m : clientKeyExchangeMsg) (h : m.raw = []) :
    clientKeyExchangeMsg.marshal m =
      .ok (setRawCKX m (keyBytes 16#8 m.ciphertext), keyBytes 16#8 m.ciphertext, none) := by
  unfold clientKeyExchangeMsg.marshal
  simp only [h, List.isEmpty_nil, Bool.not_true, Bool.false_eq_true, if_false, make4, bind, ebind_ok, pure,
    Except.pure]
  simp only [set0, set1, set2, set3, ebind_ok]
  rw [copy4 _ _ _ _ _ _ (by simp)]
  rfl

/-- **`clientKeyExchangeMsg.marshal`** = model encoder -/
theorem tie_enc_clientKeyExchange (m : clientKeyExchangeMsg) (h : m.raw = []) :
    ∃ bytes, clientKeyExchangeMsg.marshal m = .ok (setRawCKX m bytes, bytes, none) ∧
      encKeyMsg codesT.tClientKeyExchange ⟨abs m.ciphertext⟩ = some (abs bytes) :=
  ⟨_, marshal_clientKeyExchange_eq m h, keyBytes_model 16#8 _ (by decide) m.ciphertext⟩

/-! ## serverHelloDoneMsg (no fields, no cache) -/

/-- **`serverHelloDoneMsg.marshal`** = model encoder: the four bytes `14 0 0 0` -/
theorem tie_enc_serverHelloDone (m : serverHelloDoneMsg) :
    serverHelloDoneMsg.marshal m = .ok ([14#8, 0#8, 0#8, 0#8], none) ∧
      encServerHelloDone codesT = some (abs [14#8, 0#8, 0#8, 0#8]) :=
  ⟨rfl, by decide⟩

end Gotlcp.Tie.CodecEnc

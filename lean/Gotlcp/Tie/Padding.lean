/-
Tie by translation, tlcp/conn.go `extractPadding`, `roundUp` and tlcp/common.go
`requiresClientCert`: the definitions `Gotlcp.Src.tlcp.extractPadding`, `roundUp`,
`requiresClientCert` are regenerated from the Go source on every run by `harness/cmd/go2lean`;
the theorems below prove, for ALL inputs, that they compute what the hand-written models compute:

  * `tie_extractPadding` — every payload (any length, also 0 and > 256): the translated
    constant-time padding check never panics (both `payload[...]` reads are in range) and returns
    exactly `Model.RecordRx.extractPadding` of the same bytes (`UInt8` ↔ `BitVec 8`), so the
    correctness theorem `C05_extractPadding_correct` holds of the translated source text;
  * `tie_roundUp`, `tie_roundUp_panics` — `roundUp a b` is the model's `roundUp` on naturals for
    `a ≥ 0`, `b > 0`, and it panics (integer divide by zero) exactly when `b = 0`;
  * `tie_requiresClientCert` — as a function of the `int` code of `ClientAuthType`, the translated
    switch agrees with the regenerated truth table the C07 model is built from
    (`Model.ServerAuthn.tlcpTables`, i.e. `Facts.tlcp.saPolicyOrder` / `saRequires`) on the six
    policies, and is `false` for every other integer.

Core Lean only.
-/
import Gotlcp.Generated.Src
import Gotlcp.Generated.Facts
import Gotlcp.Model.RecordRx
import Gotlcp.Model.ServerAuthnFacts

set_option linter.unusedSimpArgs false
set_option linter.unusedVariables false

namespace Gotlcp.Tie.Padding
open Gotlcp.Model.RecordRx

/-- an index known to be in range: `a[i]` does not panic -/
theorem idx_ok {α : Type} (a : List α) (i : Nat) (h : i < a.length) (z : Int) (hz : z = (i : Int)) :
    Go.idx a z = .ok a[i] := by
  subst hz
  unfold Go.idx
  have : ¬ ((i : Int) < 0) := by omega
  simp [this, h]

/-- the counting loop, by induction on the bytes it visits, for any loop body `f` that at step
`start + j` reads the `j`-th byte and performs `padStep` (generalised over the start index and the
loop state) -/
theorem loop_range' (pl : BitVec 8) (f : Nat → BitVec 8 → Except String (ForInStep (BitVec 8))) :
    ∀ (bs : Bytes) (start : Nat) (g : BitVec 8),
      (∀ j (h : j < bs.length) s, f (start + j) s = .ok (.yield (padStep pl (start + j) bs[j].toBitVec s))) →
      forIn (List.range' start bs.length) g f = .ok (padLoop pl start bs g) := by
  intro bs
  induction bs with
  | nil => intro start g _; rfl
  | cons b bs ih =>
    intro start g h
    simp only [List.length_cons, List.range'_succ, List.forIn_cons]
    have h0 := h 0 (by simp) g
    simp only [Nat.add_zero, List.getElem_cons_zero] at h0
    rw [h0]
    simp only [bind, Except.bind, padLoop]
    apply ih
    intro j hj s
    have := h (j + 1) (by simp; omega) s
    simp only [List.getElem_cons_succ] at this
    have e : start + 1 + j = start + (j + 1) := by omega
    rw [e]; exact this

/-- `for k in List.range m` with `m` = number of bytes visited -/
theorem loop_range (pl : BitVec 8) (bs : Bytes) {m : Nat} {g : BitVec 8}
    {f : Nat → BitVec 8 → Except String (ForInStep (BitVec 8))}
    (hm : m = bs.length)
    (h : ∀ j (h : j < bs.length) s, f j s = .ok (.yield (padStep pl j bs[j].toBitVec s))) :
    forIn (List.range m) g f = .ok (padLoop pl 0 bs g) := by
  subst hm
  rw [List.range_eq_range']
  apply loop_range'
  intro j hj s
  simpa using h j hj s


/-- `byte(int32(^t) >> 31)` as the translator writes it (`signExtend 8` = truncation) is the
model's `msbMask` -/
theorem mask_eq (t : BitVec 64) :
    BitVec.signExtend 8 ((BitVec.setWidth 32 (~~~t)).sshiftRight 31) = msbMask t := by
  rw [BitVec.signExtend_eq_setWidth_of_le _ (by omega)]
  rfl

/-- iteration `j` reads `payload[len-1-j]`: in range, and it is the `j`-th byte of the reversed
payload the model's `padLoop` walks over -/
theorem idx_rev (p : List (BitVec 8)) (tc j : Nat)
    (hj : j < ((p.map UInt8.ofBitVec).reverse.take tc).length) :
    Go.idx p ((p.length : Int) - 1 - (j : Int)) = .ok (((p.map UInt8.ofBitVec).reverse.take tc)[j]).toBitVec := by
  have hj' : j < p.length := by
    simp only [List.length_take, List.length_reverse, List.length_map] at hj; omega
  rw [idx_ok p (p.length - 1 - j) (by omega) _ (by omega)]
  simp [List.getElem_take, List.getElem_reverse]

theorem getLast_map (p : List (BitVec 8)) (h : 0 < p.length) :
    (p.map UInt8.ofBitVec).getLast? = some (UInt8.ofBitVec p[p.length - 1]) := by
  rw [List.getLast?_eq_getElem?]
  simp [h]

/-- **`extractPadding`, every payload**: no panic, and the result is the model's, bit for bit -/
theorem tie_extractPadding (p : List (BitVec 8)) :
    Src.tlcp.extractPadding p =
      .ok (((extractPadding (p.map UInt8.ofBitVec)).1 : Int), (extractPadding (p.map UInt8.ofBitVec)).2.toBitVec) := by
  unfold Src.tlcp.extractPadding
  by_cases hnil : p = []
  · subst hnil; rfl
  · have hpos : 0 < p.length := List.length_pos_iff.mpr hnil
    have h1 : ¬ ((p.length : Int) < 1) := by omega
    have hidx : Go.idx p ((p.length : Int) - 1) = .ok p[p.length - 1] := idx_ok p _ (by omega) _ (by omega)
    have hof : BitVec.ofInt 64 ((p.length : Int) - 1) = BitVec.ofNat 64 (p.length - 1) := by
      have : (p.length : Int) - 1 = ((p.length - 1 : Nat) : Int) := by omega
      rw [this, BitVec.ofInt_natCast]
    simp only [bind, Except.bind, pure, Except.pure, h1, decide_false, hidx, Bool.false_eq_true, if_false]
    have hl := getLast_map p hpos
    have hlen : (p.map UInt8.ofBitVec).length = p.length := List.length_map _
    unfold extractPadding
    rw [hl]
    simp only [hlen, hof, mask_eq]
    by_cases h256 : 256 > (p.length : Int)
    · have h256' : 256 > p.length := by omega
      simp only [h256, h256', decide_true, if_true]
      rw [loop_range p[p.length - 1] ((p.map UInt8.ofBitVec).reverse.take p.length)]
      · simp only [collapse, Int.natCast_add]; rfl
      · simp
      · intro j hj s
        simp only [idx_rev p _ j hj, BitVec.ofInt_natCast]
        rfl
    · have h256' : ¬ 256 > p.length := by omega
      simp only [h256, h256', decide_false, if_false, Bool.false_eq_true]
      rw [loop_range p[p.length - 1] ((p.map UInt8.ofBitVec).reverse.take 256)]
      · simp only [collapse, Int.natCast_add]; rfl
      · simp; omega
      · intro j hj s
        simp only [idx_rev p _ j hj, BitVec.ofInt_natCast]
        rfl


/-! ## `roundUp` -/

/-- for a non-zero divisor neither `%` panics (Go's `%` is truncated: `Int.tmod`) -/
theorem tie_roundUp_value (a b : Int) (hb : b ≠ 0) :
    Src.tlcp.roundUp a b = .ok (a + Int.tmod (b - Int.tmod a b) b) := by
  unfold Src.tlcp.roundUp Go.modInt
  simp [bind, Except.bind, pure, Except.pure, hb]

/-- **`roundUp`** on the arguments it is called with (lengths and block sizes) -/
theorem tie_roundUp (a b : Int) (ha : 0 ≤ a) (hb : 0 < b) :
    Src.tlcp.roundUp a b = .ok ((roundUp a.toNat b.toNat : Nat) : Int) := by
  rw [tie_roundUp_value a b (by omega)]
  obtain ⟨x, rfl⟩ := Int.eq_ofNat_of_zero_le ha
  obtain ⟨y, rfl⟩ := Int.eq_ofNat_of_zero_le (Int.le_of_lt hb)
  have hy : 0 < y := by omega
  have hlt : x % y < y := Nat.mod_lt _ hy
  simp only [Int.toNat_natCast, roundUp]
  have e1 : Int.tmod (x : Int) (y : Int) = ((x % y : Nat) : Int) := by
    rw [Int.tmod_eq_emod_of_nonneg (by omega)]; rfl
  have e2 : (y : Int) - ((x % y : Nat) : Int) = ((y - x % y : Nat) : Int) := by omega
  have e3 : Int.tmod ((y - x % y : Nat) : Int) (y : Int) = (((y - x % y) % y : Nat) : Int) := by
    rw [Int.tmod_eq_emod_of_nonneg (by omega)]; rfl
  rw [e1, e2, e3]
  rfl

/-- `roundUp` panics exactly when the block size is zero (any `a`, any `b`) -/
theorem tie_roundUp_panics (a b : Int) :
    (∃ e, Src.tlcp.roundUp a b = .error e) ↔ b = 0 := by
  constructor
  · rintro ⟨e, h⟩
    by_cases hb : b = 0
    · exact hb
    · rw [tie_roundUp_value a b hb] at h; cases h
  · rintro rfl
    exact ⟨"integer divide by zero", by unfold Src.tlcp.roundUp Go.modInt; rfl⟩


/-! ## `requiresClientCert` -/
open Gotlcp.Spec.ServerAuthn Gotlcp.Model.ServerAuthn

/-- the translated switch, for every `int` -/
theorem tie_requiresClientCert_iff (c : Int) : Src.tlcp.requiresClientCert c = true ↔ (c = 2 ∨ c = 4 ∨ c = 5) := by
  unfold Src.tlcp.requiresClientCert
  simp only [Id.run, pure]
  by_cases h2 : c = 2 <;> by_cases h4 : c = 4 <;> by_cases h5 : c = 5 <;> simp [h2, h4, h5]

/-- the code (iota value, from the regenerated `saPolicyValues`) and the answer (from the regenerated truth table `saRequires`) -/
def factRows : List (Nat × String × Bool) := Facts.tlcp.saPolicyValues.zip Facts.tlcp.saRequires

/-- row by row against the regenerated facts: six rows, in the order of the iota block, and the
translated function answers each code as the extracted truth table says -/
theorem tie_requiresClientCert_rows :
    factRows.length = 6 ∧ factRows.map (·.2.1) = Facts.tlcp.saPolicyOrder ∧
    ∀ r ∈ factRows, Src.tlcp.requiresClientCert (r.1 : Int) = r.2.2 := by
  decide

/-- **`requiresClientCert`** against the tables the C07 model is instantiated with: the same answer
for each of the six policies (through its numeric code `t.ord p`), `false` for every other `int` -/
theorem tie_requiresClientCert (t : Tables) (ht : tlcpTables = some t) :
    (∀ p : Policy, Src.tlcp.requiresClientCert (t.ord p : Int) = t.requiresClientCert p) ∧
    (∀ c : Int, (∀ p : Policy, c ≠ (t.ord p : Int)) → Src.tlcp.requiresClientCert c = false) := by
  have key : tlcpTables.map (fun t => Policy.all.map (fun p => (t.ord p, t.requiresClientCert p))) =
      some [(0, false), (1, false), (2, true), (3, false), (4, true), (5, true)] := by decide
  rw [ht] at key
  simp only [Option.map_some, Option.some.injEq, Policy.all, List.map_cons, List.map_nil, List.cons.injEq,
    Prod.mk.injEq, and_true] at key
  obtain ⟨⟨o0, r0⟩, ⟨o1, r1⟩, ⟨o2, r2⟩, ⟨o3, r3⟩, ⟨o4, r4⟩, ⟨o5, r5⟩⟩ := key
  constructor
  · intro p
    cases p
    · rw [o0, r0]; rfl
    · rw [o1, r1]; rfl
    · rw [o2, r2]; rfl
    · rw [o3, r3]; rfl
    · rw [o4, r4]; rfl
    · rw [o5, r5]; rfl
  · intro c hc
    cases h : Src.tlcp.requiresClientCert c with
    | false => rfl
    | true =>
      rcases (tie_requiresClientCert_iff c).mp h with rfl | rfl | rfl
      · exact absurd (by rw [o2]; rfl) (hc .requireAnyClientCert)
      · exact absurd (by rw [o4]; rfl) (hc .requireAndVerifyClientCert)
      · exact absurd (by rw [o5]; rfl) (hc .requireAndVerifyAnyKeyUsageClientCert)

end Gotlcp.Tie.Padding

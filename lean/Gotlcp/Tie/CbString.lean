/-
Specification lemmas for the translated `cbString` methods (the stub of `cryptobyte.String` that
go2lean writes out statement by statement, see `cbStubs` in harness/cmd/go2lean/main.go): each
method, as translated, never fails (`Except.error`) and computes the obvious function on lists.
These are the rewrite rules the ties of the cryptobyte-based decoders are built from.

The dtlcp copies of the definitions are the same terms: `dtlcp_*` state the equalities by `rfl`.
-/
import Gotlcp.Generated.Src

namespace Gotlcp.Tie.CbString
open Gotlcp
open Gotlcp.Src.tlcp.codec

abbrev BV := List (BitVec 8)

/-- `read` as a function: `none` = failure (the String is left as it was) -/
def readSpec (s : BV) (n : Int) : BV × BV × Bool :=
  if (s.length : Int) < n ∨ n < 0 then (s, [], false) else (s.drop n.toNat, s.take n.toNat, true)

theorem read_eq (s : BV) (n : Int) : cbString.read s n = .ok (readSpec s n) := by
  unfold cbString.read readSpec
  by_cases h1 : (s.length : Int) < n
  · simp [h1, pure, Except.pure]
  · by_cases h2 : n < 0
    · simp [h2, pure, Except.pure]
    · simp [Go.slice, bind, Except.bind, pure, Except.pure, h1, h2]
      apply List.take_of_length_le
      simp

theorem read_ok' (s : BV) (n : Int) (h0 : 0 ≤ n) (h : n ≤ s.length) :
    cbString.read s n = .ok (s.drop n.toNat, s.take n.toNat, true) := by
  rw [read_eq]; unfold readSpec
  have : ¬ ((s.length : Int) < n ∨ n < 0) := by omega
  rw [if_neg this]

theorem read_fail' (s : BV) (n : Int) (h : (s.length : Int) < n) :
    cbString.read s n = .ok (s, [], false) := by
  rw [read_eq]; unfold readSpec
  rw [if_pos (Or.inl h)]

theorem read_ok (s : BV) (n : Nat) (h : n ≤ s.length) :
    cbString.read s (n : Int) = .ok (s.drop n, s.take n, true) := by
  have := read_ok' s (n : Int) (by omega) (by omega)
  simpa using this

theorem read_fail (s : BV) (n : Nat) (h : s.length < n) :
    cbString.read s (n : Int) = .ok (s, [], false) :=
  read_fail' s (n : Int) (by omega)

theorem skip_eq (s : BV) (n : Int) :
    cbString.Skip s n = .ok ((readSpec s n).1, (readSpec s n).2.2) := by
  unfold cbString.Skip; simp [read_eq, bind, Except.bind, pure, Except.pure]

/-- big-endian value of a byte list, as the loops of the stub compute it -/
def be32 (l : BV) : BitVec 32 := l.foldl (fun acc b => (acc <<< 8) ||| BitVec.setWidth 32 b) 0#32

theorem readUint8_eq (s : BV) (out : BitVec 8) :
    cbString.ReadUint8 s out =
      .ok (match s with | [] => (s, out, false) | b :: r => (r, b, true)) := by
  unfold cbString.ReadUint8
  match s with
  | [] => have e := read_fail' ([] : BV) 1 (by simp); simp [e, bind, Except.bind, pure, Except.pure]
  | b :: r =>
    have e := read_ok' (b :: r) 1 (by omega) (by simp; omega)
    simp [e, bind, Except.bind, pure, Except.pure, Go.idx]

theorem readUint16_eq (s : BV) (out : BitVec 16) :
    cbString.ReadUint16 s out =
      .ok (match s with
        | a :: b :: r => (r, (BitVec.setWidth 16 a <<< 8) ||| BitVec.setWidth 16 b, true)
        | _ => (s, out, false)) := by
  unfold cbString.ReadUint16
  match s with
  | [] => have e := read_fail' ([] : BV) 2 (by simp); simp [e, bind, Except.bind, pure, Except.pure]
  | [a] => have e := read_fail' ([a] : BV) 2 (by simp); simp [e, bind, Except.bind, pure, Except.pure]
  | a :: b :: r =>
    have e := read_ok' (a :: b :: r) 2 (by omega) (by simp; omega)
    simp [e, bind, Except.bind, pure, Except.pure, Go.idx]

theorem readUint24_eq (s : BV) (out : BitVec 32) :
    cbString.ReadUint24 s out =
      .ok (match s with
        | a :: b :: c :: r => (r, ((BitVec.setWidth 32 a <<< 16) ||| (BitVec.setWidth 32 b <<< 8)) ||| BitVec.setWidth 32 c, true)
        | _ => (s, out, false)) := by
  unfold cbString.ReadUint24
  match s with
  | [] => have e := read_fail' ([] : BV) 3 (by simp); simp [e, bind, Except.bind, pure, Except.pure]
  | [a] => have e := read_fail' ([a] : BV) 3 (by simp); simp [e, bind, Except.bind, pure, Except.pure]
  | [a, b] => have e := read_fail' ([a, b] : BV) 3 (by simp); simp [e, bind, Except.bind, pure, Except.pure]
  | a :: b :: c :: r =>
    have e := read_ok' (a :: b :: c :: r) 3 (by omega) (by simp; omega)
    simp [e, bind, Except.bind, pure, Except.pure, Go.idx]

theorem readUint32_eq (s : BV) (out : BitVec 32) :
    cbString.ReadUint32 s out =
      .ok (match s with
        | a :: b :: c :: d :: r =>
          (r, (((BitVec.setWidth 32 a <<< 24) ||| (BitVec.setWidth 32 b <<< 16)) ||| (BitVec.setWidth 32 c <<< 8)) ||| BitVec.setWidth 32 d, true)
        | _ => (s, out, false)) := by
  unfold cbString.ReadUint32
  match s with
  | [] => have e := read_fail' ([] : BV) 4 (by simp); simp [e, bind, Except.bind, pure, Except.pure]
  | [a] => have e := read_fail' ([a] : BV) 4 (by simp); simp [e, bind, Except.bind, pure, Except.pure]
  | [a, b] => have e := read_fail' ([a, b] : BV) 4 (by simp); simp [e, bind, Except.bind, pure, Except.pure]
  | [a, b, c] => have e := read_fail' ([a, b, c] : BV) 4 (by simp); simp [e, bind, Except.bind, pure, Except.pure]
  | a :: b :: c :: d :: r =>
    have e := read_ok' (a :: b :: c :: d :: r) 4 (by omega) (by simp; omega)
    simp [e, bind, Except.bind, pure, Except.pure, Go.idx]

theorem readBytes_eq (s out : BV) (n : Int) :
    cbString.ReadBytes s out n =
      .ok (if (readSpec s n).2.2 then ((readSpec s n).1, (readSpec s n).2.1, true) else (s, out, false)) := by
  unfold cbString.ReadBytes
  simp only [read_eq, bind, Except.bind, pure, Except.pure]
  unfold readSpec
  by_cases h : (s.length : Int) < n ∨ n < 0 <;> simp [h]

theorem empty_eq (s : BV) : cbString.Empty s = s.isEmpty := by
  unfold cbString.Empty; cases s <;> simp [Id.run, pure]; omega

/-- the length loop of `readLengthPrefixed` -/
theorem lenLoop_eq (l : BV) (acc : BitVec 32) :
    (forIn (m := Except String) l acc fun b r => do
        let length := r <<< 8
        let length := length ||| BitVec.setWidth 32 b
        pure PUnit.unit
        pure (ForInStep.yield length)) =
      .ok (l.foldl (fun acc b => (acc <<< 8) ||| BitVec.setWidth 32 b) acc) := by
  induction l generalizing acc with
  | nil => simp [pure, Except.pure]
  | cons b r ih => simp [bind, Except.bind, pure, Except.pure] at ih ⊢; exact ih _

/-- `readLengthPrefixed` as a function: a `lenLen`-byte big-endian length, then that many bytes;
on failure of the SECOND read the length bytes stay consumed (as in the library) -/
def lpSpec (s out : BV) (lenLen : Nat) : BV × BV × Bool :=
  if s.length < lenLen then (s, out, false)
  else
    let n := (be32 (s.take lenLen)).toNat
    let r := s.drop lenLen
    if r.length < n then (r, out, false) else (r.drop n, r.take n, true)

theorem readLengthPrefixed_eq (s out : BV) (lenLen : Nat) :
    cbString.readLengthPrefixed s (lenLen : Int) out = .ok (lpSpec s out lenLen) := by
  unfold cbString.readLengthPrefixed lpSpec
  by_cases h : s.length < lenLen
  · simp [read_fail s lenLen h, h, bind, Except.bind, pure, Except.pure]
  · have hle : lenLen ≤ s.length := by omega
    simp only [read_ok s lenLen hle, bind, Except.bind, pure, Except.pure, h, ↓reduceIte]
    simp only [Bool.not_true, Bool.false_eq_true, ↓reduceIte]
    have hl := lenLoop_eq (s.take lenLen) 0#32
    simp only [bind, Except.bind, pure, Except.pure] at hl
    rw [hl]
    simp only []
    by_cases h2 : (s.drop lenLen).length < (be32 (s.take lenLen)).toNat
    · have := read_fail (s.drop lenLen) _ h2
      simp [be32] at this h2 ⊢
      simp [this, h2]
    · have := read_ok (s.drop lenLen) (be32 (s.take lenLen)).toNat (by omega)
      simp [be32] at this h2 ⊢
      simp [this, h2]

theorem readUint8LengthPrefixed_eq (s out : BV) :
    cbString.ReadUint8LengthPrefixed s out = .ok (lpSpec s out 1) := by
  unfold cbString.ReadUint8LengthPrefixed
  have e : cbString.readLengthPrefixed s (1 : Int) out = .ok (lpSpec s out 1) := readLengthPrefixed_eq s out 1
  simp [e, bind, Except.bind, pure, Except.pure]

theorem readUint16LengthPrefixed_eq (s out : BV) :
    cbString.ReadUint16LengthPrefixed s out = .ok (lpSpec s out 2) := by
  unfold cbString.ReadUint16LengthPrefixed
  have e : cbString.readLengthPrefixed s (2 : Int) out = .ok (lpSpec s out 2) := readLengthPrefixed_eq s out 2
  simp [e, bind, Except.bind, pure, Except.pure]

theorem readUint24LengthPrefixed_eq (s out : BV) :
    cbString.ReadUint24LengthPrefixed s out = .ok (lpSpec s out 3) := by
  unfold cbString.ReadUint24LengthPrefixed
  have e : cbString.readLengthPrefixed s (3 : Int) out = .ok (lpSpec s out 3) := readLengthPrefixed_eq s out 3
  simp [e, bind, Except.bind, pure, Except.pure]

theorem readUint8LP_eq (s out : BV) : readUint8LengthPrefixed s out = .ok (lpSpec s out 1) := by
  unfold readUint8LengthPrefixed; simp [readUint8LengthPrefixed_eq, bind, Except.bind, pure, Except.pure]
theorem readUint16LP_eq (s out : BV) : readUint16LengthPrefixed s out = .ok (lpSpec s out 2) := by
  unfold readUint16LengthPrefixed; simp [readUint16LengthPrefixed_eq, bind, Except.bind, pure, Except.pure]
theorem readUint24LP_eq (s out : BV) : readUint24LengthPrefixed s out = .ok (lpSpec s out 3) := by
  unfold readUint24LengthPrefixed; simp [readUint24LengthPrefixed_eq, bind, Except.bind, pure, Except.pure]

/-- `lpSpec` when it succeeds -/
theorem lpSpec_ok (s out : BV) (k : Nat) (h : (lpSpec s out k).2.2 = true) :
    k ≤ s.length ∧ (be32 (s.take k)).toNat ≤ (s.drop k).length ∧
    lpSpec s out k = ((s.drop k).drop (be32 (s.take k)).toNat, (s.drop k).take (be32 (s.take k)).toNat, true) := by
  unfold lpSpec at h ⊢
  by_cases h1 : s.length < k
  · rw [if_pos h1] at h; simp at h
  · rw [if_neg h1] at h ⊢
    by_cases h2 : (s.drop k).length < (be32 (s.take k)).toNat
    · simp only [h2, ↓reduceIte] at h; simp at h
    · simp only [h2, ↓reduceIte]
      exact ⟨by omega, by omega, trivial⟩

/-- every successful read makes the String strictly shorter when it asked for at least one byte —
the fact behind "the decoding loops cannot spin" -/
theorem lpSpec_shorter (s out : BV) (k : Nat) (hk : 0 < k) (h : (lpSpec s out k).2.2 = true) :
    (lpSpec s out k).1.length < s.length := by
  obtain ⟨h1, h2, e⟩ := lpSpec_ok s out k h
  rw [e]; simp only [List.length_drop] at h2 ⊢; omega

theorem lpSpec_length (s out : BV) (k : Nat) (h : (lpSpec s out k).2.2 = true) :
    (lpSpec s out k).1.length + (lpSpec s out k).2.1.length + k = s.length := by
  obtain ⟨h1, h2, e⟩ := lpSpec_ok s out k h
  rw [e]; simp only [List.length_drop, List.length_take] at h2 ⊢; omega

/-- … and the pieces are the input: length bytes ++ child ++ rest -/
theorem lpSpec_split (s out : BV) (k : Nat) (h : (lpSpec s out k).2.2 = true) :
    s = s.take k ++ (lpSpec s out k).2.1 ++ (lpSpec s out k).1 := by
  obtain ⟨h1, h2, e⟩ := lpSpec_ok s out k h
  rw [e]
  show s = s.take k ++ (s.drop k).take (be32 (s.take k)).toNat ++ (s.drop k).drop (be32 (s.take k)).toNat
  rw [List.append_assoc, List.take_append_drop, List.take_append_drop]

/-! ## the dtlcp copies are the same definitions -/
section dtlcp
open Gotlcp.Src
theorem dtlcp_read : @dtlcp.codec.cbString.read = @tlcp.codec.cbString.read := rfl
theorem dtlcp_Skip : @dtlcp.codec.cbString.Skip = @tlcp.codec.cbString.Skip := rfl
theorem dtlcp_ReadUint8 : @dtlcp.codec.cbString.ReadUint8 = @tlcp.codec.cbString.ReadUint8 := rfl
theorem dtlcp_ReadUint16 : @dtlcp.codec.cbString.ReadUint16 = @tlcp.codec.cbString.ReadUint16 := rfl
theorem dtlcp_ReadUint24 : @dtlcp.codec.cbString.ReadUint24 = @tlcp.codec.cbString.ReadUint24 := rfl
theorem dtlcp_ReadUint32 : @dtlcp.codec.cbString.ReadUint32 = @tlcp.codec.cbString.ReadUint32 := rfl
theorem dtlcp_readLengthPrefixed : @dtlcp.codec.cbString.readLengthPrefixed = @tlcp.codec.cbString.readLengthPrefixed := rfl
theorem dtlcp_ReadUint8LengthPrefixed : @dtlcp.codec.cbString.ReadUint8LengthPrefixed = @tlcp.codec.cbString.ReadUint8LengthPrefixed := rfl
theorem dtlcp_ReadUint16LengthPrefixed : @dtlcp.codec.cbString.ReadUint16LengthPrefixed = @tlcp.codec.cbString.ReadUint16LengthPrefixed := rfl
theorem dtlcp_ReadUint24LengthPrefixed : @dtlcp.codec.cbString.ReadUint24LengthPrefixed = @tlcp.codec.cbString.ReadUint24LengthPrefixed := rfl
theorem dtlcp_ReadBytes : @dtlcp.codec.cbString.ReadBytes = @tlcp.codec.cbString.ReadBytes := rfl
theorem dtlcp_Empty : @dtlcp.codec.cbString.Empty = @tlcp.codec.cbString.Empty := rfl
theorem dtlcp_readUint8LengthPrefixed : @dtlcp.codec.readUint8LengthPrefixed = @tlcp.codec.readUint8LengthPrefixed := rfl
theorem dtlcp_readUint16LengthPrefixed : @dtlcp.codec.readUint16LengthPrefixed = @tlcp.codec.readUint16LengthPrefixed := rfl
theorem dtlcp_readUint24LengthPrefixed : @dtlcp.codec.readUint24LengthPrefixed = @tlcp.codec.readUint24LengthPrefixed := rfl
end dtlcp

end Gotlcp.Tie.CbString

/-
Tie by translation, parameter negotiation (C01): `Config.supportedVersions`, `Config.mutualVersion`,
`negotiateALPN`, `checkALPN` (namespaces `Gotlcp.Src.tlcp.neg` / `Gotlcp.Src.dtlcp.neg`) and
`supportedVersionsFromMax` (`Gotlcp.Src.tlcp` / `Gotlcp.Src.dtlcp`) are regenerated from the Go source of
BOTH stacks on every run.  A Go `string` is its bytes (`List (BitVec 8)`), `uint16` is `BitVec 16`,
`error` is `Option Go.Error`.

Two layers, for each stack:

* `*_eq_*` — what the translated function computes, as a closed expression, for ALL inputs (every list
  of byte strings, valid UTF-8 or not; every 16-bit version window and peer list).  The `C01_src_*`
  theorems of `Props/C01.lean` are read off these.
* `tie_*` — the translated function equals the hand-written model `Gotlcp.Model.Negotiate` through the
  abstraction `strBytes : String → List (BitVec 8)` (UTF-8 bytes, injective) and `BitVec.toNat`, for
  every `Params` whose `versions` is the literal `treeVersions` and whose `alpnServerFirst` is `true`
  — the values `Model/NegotiateFacts.lean` instantiates the model with.  These proofs are what justifies
  those two literals (no text-matching fact does): walking the client's list in the outer loop, dropping
  or changing the h2 / http/1.1 fallback, comparing a version the other way round, adding a version to
  the table … make a proof below fail; renaming a local or re-arranging equivalent statements does not.
-/
import Gotlcp.Generated.Src
import Gotlcp.Model.Negotiate
import Gotlcp.Lemmas.Negotiate

set_option linter.unusedSimpArgs false
set_option linter.unusedVariables false

namespace Gotlcp.Tie.Negotiate
open Gotlcp.Model.Negotiate
open Gotlcp.Spec.Negotiate
open Gotlcp.Lemmas.Negotiate

/-- a Go string -/
abbrev Str := List (BitVec 8)

/-! ### `for … range` over a list in `Id` -/

theorem forIn_id_cons {α β} (a : α) (l : List α) (b : β) (f : α → β → Id (ForInStep β)) :
    forIn (m := Id) (a :: l) b f =
      (match f a b with
       | .done b' => b'
       | .yield b' => forIn (m := Id) l b' f) := by
  rw [List.forIn_cons]
  show (match f a b with | .done b' => _ | .yield b' => _) = _
  cases f a b <;> rfl

/-- a loop that only appends: `for _, v := range l { if !keep(v) { continue }; acc = append(acc, v) }` -/
theorem filter_loop {α : Type} {F : α → List α → Id (ForInStep (List α))} (keep : α → Bool)
    (l acc : List α) {R : List α} (hR : forIn (m := Id) l acc F = R)
    (hF : ∀ x acc, F x acc = ForInStep.yield (if keep x = true then acc ++ [x] else acc)) :
    R = acc ++ l.filter keep := by
  subst hR
  induction l generalizing acc with
  | nil => simp only [List.filter_nil, List.append_nil]; rfl
  | cons a t ih =>
    rw [forIn_id_cons, hF]
    simp only
    rw [ih, List.filter_cons]
    cases keep a <;> simp

/-- a loop that returns from inside: `for _, x := range l { if r, ok := g(x); ok { return r } }` -/
theorem findSome_loop {α β : Type} {F : α → Option β × Unit → Id (ForInStep (Option β × Unit))}
    (g : α → Option β) (l : List α) {R : Option β × Unit} (hR : forIn (m := Id) l (none, ()) F = R)
    (hF : ∀ x st, F x st =
      if (g x).isSome = true then ForInStep.done (g x, ()) else ForInStep.yield (none, ())) :
    R.1 = l.findSome? g := by
  subst hR
  induction l with
  | nil => rfl
  | cons a t ih =>
    rw [forIn_id_cons, hF, List.findSome?_cons]
    cases hg : g a with
    | none => simp only [Option.isSome_none, Bool.false_eq_true, if_false]; exact ih
    | some r => simp only [Option.isSome_some, if_true]

theorem findSome?_ite {α β} (l : List α) (q : α → Bool) (mk : α → β) :
    l.findSome? (fun x => if q x = true then some (mk x) else none) = (l.find? q).map mk := by
  induction l with
  | nil => rfl
  | cons a t ih =>
    rw [List.findSome?_cons, List.find?_cons]
    cases q a <;> simp [ih]

/-! ### strings -/

/-- the bytes of a string (UTF-8), as Go holds them -/
def strBytes (s : String) : Str := s.toByteArray.data.toList.map (·.toBitVec)

theorem strBytes_inj {a b : String} : strBytes a = strBytes b ↔ a = b := by
  constructor
  · intro h
    apply String.toByteArray_inj.mp
    apply ByteArray.ext
    apply Array.toList_inj.mp
    exact (List.map_inj_right (fun x y hxy => UInt8.toBitVec_inj.mp hxy)).mp h
  · intro h; rw [h]

theorem strBytes_injective : Function.Injective strBytes := fun _ _ h => strBytes_inj.mp h

/-- the two literals of the fallback rule, as the translated code spells them -/
def h2 : Str := [104#8, 50#8]
def http11 : Str := [104#8, 116#8, 116#8, 112#8, 47#8, 49#8, 46#8, 49#8]

theorem strBytes_empty : strBytes "" = [] := by decide
theorem strBytes_h2 : strBytes "h2" = h2 := by decide
theorem strBytes_http11 : strBytes "http/1.1" = http11 := by decide

theorem strBytes_eq_nil {a : String} : strBytes a = [] ↔ a = "" := by
  rw [← strBytes_empty]; exact strBytes_inj

theorem contains_map_inj {α β} [BEq α] [LawfulBEq α] [BEq β] [LawfulBEq β] (f : α → β)
    (hf : Function.Injective f) (l : List α) (a : α) : (l.map f).contains (f a) = l.contains a := by
  induction l with
  | nil => rfl
  | cons b t ih =>
    simp only [List.map_cons, List.contains_cons, ih]
    congr 1
    rw [Bool.eq_iff_iff]
    simp only [beq_iff_eq]
    exact ⟨fun h => hf h, fun h => by rw [h]⟩

theorem find?_map_inj {α β} (f : α → β) (l : List α) (p : β → Bool) :
    (l.map f).find? p = (l.find? (fun x => p (f x))).map f := by
  induction l with
  | nil => rfl
  | cons b t ih =>
    simp only [List.map_cons, List.find?_cons]
    cases p (f b) <;> simp [ih]

/-! ### `negotiateALPN`, all inputs -/

/-- the inner loop of the translated `negotiateALPN` (state: pending return value, `http11fallback`) -/
def inner (s : Str) (fb : Bool) (cs : List Str) : Option (Str × Option Go.Error) × Bool :=
  forIn (m := Id) cs (none, fb) fun c __s =>
    if (s == c) = true then ForInStep.done (some (s, none), __s.snd)
    else
      if (s == [104#8, 50#8] && c == [104#8, 116#8, 116#8, 112#8, 47#8, 49#8, 46#8, 49#8]) = true then
        ForInStep.yield (none, true)
      else ForInStep.yield (none, __s.snd)

theorem inner_fold (s : Str) (fb : Bool) (cs : List Str) :
    (forIn (m := Id) cs (none, fb) fun c (__s : Option (Str × Option Go.Error) × Bool) =>
      if (s == c) = true then ForInStep.done (some (s, none), __s.snd)
      else
        if (s == [104#8, 50#8] && c == [104#8, 116#8, 116#8, 112#8, 47#8, 49#8, 46#8, 49#8]) = true then
          ForInStep.yield (none, true)
        else ForInStep.yield (none, __s.snd)) = inner s fb cs := rfl

theorem inner_cons (s c : Str) (fb : Bool) (t : List Str) :
    inner s fb (c :: t) =
      if (s == c) = true then (some (s, none), fb)
      else inner s (fb || (s == h2 && c == http11)) t := by
  unfold inner
  rw [forIn_id_cons]
  by_cases hsc : (s == c) = true
  · simp only [hsc, if_true]
  · have hsc' : (s == c) = false := by simpa using hsc
    simp only [hsc', Bool.false_eq_true, if_false]
    by_cases hf : (s == [104#8, 50#8] && c == [104#8, 116#8, 116#8, 112#8, 47#8, 49#8, 46#8, 49#8]) = true
    · simp only [hf, if_true, h2, http11, Bool.or_true]
    · have hf' : (s == [104#8, 50#8] && c == [104#8, 116#8, 116#8, 112#8, 47#8, 49#8, 46#8, 49#8]) = false := by
        simpa using hf
      simp only [h2, http11, hf', Bool.or_false, Bool.false_eq_true, if_false]

theorem inner_hit (s : Str) (cs : List Str) (fb : Bool) (h : cs.contains s = true) :
    (inner s fb cs).1 = some (s, none) := by
  induction cs generalizing fb with
  | nil => simp at h
  | cons c t ih =>
    rw [inner_cons]
    by_cases hsc : (s == c) = true
    · simp only [hsc, if_true]
    · have hsc' : (s == c) = false := by simpa using hsc
      have ht : t.contains s = true := by
        rw [List.contains_cons] at h
        simpa [hsc'] using h
      simp only [hsc', Bool.false_eq_true, if_false]
      exact ih _ ht

theorem inner_miss (s : Str) (cs : List Str) (fb : Bool) (h : cs.contains s = false) :
    inner s fb cs = (none, fb || (s == h2 && cs.contains http11)) := by
  induction cs generalizing fb with
  | nil => simp only [List.contains_nil, Bool.and_false, Bool.or_false]; rfl
  | cons c t ih =>
    rw [inner_cons]
    simp only [List.contains_cons, Bool.or_eq_false_iff] at h
    obtain ⟨hsc, ht⟩ := h
    simp only [hsc, Bool.false_eq_true, if_false]
    rw [ih _ ht, List.contains_cons, BEq.comm (a := http11)]
    cases fb <;> cases (s == h2) <;> cases (c == http11) <;> cases (t.contains http11) <;> rfl

/-- the outer loop, for any step function that behaves as the translated one does -/
theorem outer_spec {β : Type} {F : Str → Option β × Bool → Id (ForInStep (Option β × Bool))}
    (cs : List Str) (mk : Str → β) (ss : List Str) (fb : Bool) {R : Option β × Bool}
    (hR : forIn (m := Id) ss (none, fb) F = R)
    (hF : ∀ s st, F s st =
      if cs.contains s = true then ForInStep.done (some (mk s), (inner s st.2 cs).2)
      else ForInStep.yield (none, st.2 || (s == h2 && cs.contains http11))) :
    R.1 = (ss.find? (fun a => cs.contains a)).map mk ∧
    (ss.find? (fun a => cs.contains a) = none → R.2 = (fb || (ss.contains h2 && cs.contains http11))) := by
  subst hR
  induction ss generalizing fb with
  | nil => exact ⟨rfl, fun _ => by simp only [List.contains_nil, Bool.false_and, Bool.or_false]; rfl⟩
  | cons a t ih =>
    rw [forIn_id_cons, hF, List.find?_cons]
    cases hc : cs.contains a with
    | true => simp only [if_true, Option.map_some, true_and]; intro h; cases h
    | false =>
      simp only [Bool.false_eq_true, if_false]
      refine ⟨(ih _).1, fun h => ?_⟩
      rw [(ih _).2 h, List.contains_cons, BEq.comm (a := h2)]
      cases fb <;> cases (a == h2) <;> cases (t.contains h2) <;> cases (cs.contains http11) <;> rfl

/-- What the translated `negotiateALPN` computes, for ALL lists of byte strings: nothing when either
side lists nothing; else the first entry of the SERVER's list that the client also lists; else
nothing, without error, exactly when the server lists "h2" and the client "http/1.1"; else an error. -/
def alpnPick (server client : List Str) : Str × Option Go.Error :=
  if server.isEmpty || client.isEmpty then ([], none)
  else
    match server.find? (fun sp => client.contains sp) with
    | some sp => (sp, none)
    | none => if server.contains h2 && client.contains http11 then ([], none) else ([], some Go.Error.other)

theorem length_eq_zero_or {α β} (s : List α) (c : List β) :
    (((s.length : Int) == 0) || ((c.length : Int) == 0)) = (s.isEmpty || c.isEmpty) := by
  cases s <;> cases c <;> simp <;> omega

/-- the proof script shared by the two stacks (the two translated texts are proved separately) -/
macro "negotiateALPN_proof" f:ident : tactic => `(tactic| (
  intro s c
  unfold $f alpnPick
  simp only [Id.run, pure, bind, inner_fold]
  rw [length_eq_zero_or]
  split
  · rfl
  · generalize hR : forIn (m := Id) s ((none : Option (Str × Option Go.Error)), false) _ = R
    obtain ⟨k1, k2⟩ := outer_spec c (fun x => (x, (none : Option Go.Error))) s false hR (fun a st => by
      cases hc : c.contains a with
      | true => simp only [inner_hit a c st.2 hc, if_true]
      | false => simp only [inner_miss a c st.2 hc, Bool.false_eq_true, if_false])
    cases hf : s.find? (fun sp => c.contains sp) with
    | some r => rw [hf] at k1; simp only [Option.map_some] at k1; simp only [k1]
    | none => simp only [hf, Option.map_none] at k1; simp only [k1, k2 hf, Bool.false_or]))

theorem negotiateALPN_eq_tlcp : ∀ s c : List Str, Src.tlcp.neg.negotiateALPN s c = alpnPick s c := by
  negotiateALPN_proof Src.tlcp.neg.negotiateALPN

theorem negotiateALPN_eq_dtlcp : ∀ s c : List Str, Src.dtlcp.neg.negotiateALPN s c = alpnPick s c := by
  negotiateALPN_proof Src.dtlcp.neg.negotiateALPN

/-! ### `checkALPN`, all inputs -/

/-- What the translated `checkALPN` computes, for ALL inputs: no protocol is always fine; a protocol
must be one the client listed. -/
def checkPick (client : List Str) (proto : Str) : Option Go.Error :=
  if proto == [] then none
  else if client.isEmpty then some Go.Error.other
  else if client.contains proto then none else some Go.Error.other

theorem length_eq_zero {α} (c : List α) : ((c.length : Int) == 0) = c.isEmpty := by
  cases c <;> simp <;> omega

macro "checkALPN_proof" f:ident : tactic => `(tactic| (
  intro c p
  unfold $f checkPick
  simp only [Id.run, pure, bind]
  rw [length_eq_zero]
  split
  · rfl
  · split
    · rfl
    · generalize hR : forIn (m := Id) c ((none : Option (Option Go.Error)), ()) _ = R
      have k := findSome_loop (fun x : Str => if (x == p) = true then some (none : Option Go.Error) else none)
        c hR (fun x st => by cases hx : (x == p) <;> simp)
      rw [findSome?_ite c (fun x => x == p) (fun _ => (none : Option Go.Error))] at k
      cases hc : c.contains p with
      | true =>
        obtain ⟨y, hy⟩ : ∃ y, c.find? (fun x => x == p) = some y := by
          rw [← Option.isSome_iff_exists, List.find?_isSome]
          obtain ⟨y, hy, hyp⟩ := List.contains_iff_exists_mem_beq.mp hc
          exact ⟨y, hy, by rw [BEq.comm]; exact hyp⟩
        rw [hy] at k
        simp only [Option.map_some] at k
        simp only [k, if_true]
      | false =>
        have hn : c.find? (fun x => x == p) = none := by
          rw [List.find?_eq_none]
          intro x hx hxp
          have : c.contains p = true := List.contains_iff_exists_mem_beq.mpr ⟨x, hx, by rw [BEq.comm]; exact hxp⟩
          rw [hc] at this; cases this
        rw [hn] at k
        simp only [Option.map_none] at k
        simp only [k, Bool.false_eq_true, if_false]))

theorem checkALPN_eq_tlcp : ∀ (c : List Str) (p : Str), Src.tlcp.neg.checkALPN c p = checkPick c p := by
  checkALPN_proof Src.tlcp.neg.checkALPN

theorem checkALPN_eq_dtlcp : ∀ (c : List Str) (p : Str), Src.dtlcp.neg.checkALPN c p = checkPick c p := by
  checkALPN_proof Src.dtlcp.neg.checkALPN

/-! ### `Config.supportedVersions`, `supportedVersionsFromMax`, `Config.mutualVersion`, all inputs -/

/-- the two `continue` guards of `Config.supportedVersions` -/
def keepVersion (mn mx v : BitVec 16) : Bool :=
  !(mn != 0#16 && decide (v < mn)) && !(mx != 0#16 && decide (v > mx))

macro "supportedVersions_proof" f:ident : tactic => `(tactic| (
  intro c b
  unfold $f
  simp only [Id.run, pure, bind]
  generalize hR : forIn (m := Id) (_ : List (BitVec 16)) ([] : List (BitVec 16)) _ = R
  have k := filter_loop (keepVersion c.MinVersion c.MaxVersion) _ [] hR (fun x acc => by
    simp only [Bool.true_and, keepVersion]
    by_cases h1 : (c.MinVersion != 0#16 && decide (x < c.MinVersion)) = true <;>
      by_cases h2 : (c.MaxVersion != 0#16 && decide (x > c.MaxVersion)) = true <;> simp [h1, h2])
  simpa using k))

theorem supportedVersions_eq_tlcp : ∀ (c : Src.tlcp.neg.Config) (isClient : Bool),
    Src.tlcp.neg.Config.supportedVersions c isClient =
      Src.tlcp.neg.supportedVersions.filter (keepVersion c.MinVersion c.MaxVersion) := by
  supportedVersions_proof Src.tlcp.neg.Config.supportedVersions

theorem supportedVersions_eq_dtlcp : ∀ (c : Src.dtlcp.neg.Config) (isClient : Bool),
    Src.dtlcp.neg.Config.supportedVersions c isClient =
      Src.dtlcp.neg.supportedVersions.filter (keepVersion c.MinVersion c.MaxVersion) := by
  supportedVersions_proof Src.dtlcp.neg.Config.supportedVersions

macro "versionsFromMax_proof" f:ident : tactic => `(tactic| (
  intro m
  unfold $f
  simp only [Id.run, pure, bind]
  split
  · rfl
  · generalize hR : forIn (m := Id) (_ : List (BitVec 16)) ([] : List (BitVec 16)) _ = R
    have k := filter_loop (fun v => !decide (v > m)) _ [] hR (fun x acc => by
      by_cases h1 : decide (x > m) = true <;> simp [h1])
    simpa using k))

theorem versionsFromMax_eq_tlcp : ∀ m : BitVec 16,
    Src.tlcp.supportedVersionsFromMax m =
      if (m &&& 65280#16 == 768#16) = true then []
      else Src.tlcp.supportedVersions.filter (fun v => !decide (v > m)) := by
  versionsFromMax_proof Src.tlcp.supportedVersionsFromMax

theorem versionsFromMax_eq_dtlcp : ∀ m : BitVec 16,
    Src.dtlcp.supportedVersionsFromMax m =
      if (m &&& 65280#16 == 768#16) = true then []
      else Src.dtlcp.supportedVersions.filter (fun v => !decide (v > m)) := by
  versionsFromMax_proof Src.dtlcp.supportedVersionsFromMax

/-- the inner loop of the translated `mutualVersion` -/
def vInner (sup : List (BitVec 16)) (pv : BitVec 16) : Option (BitVec 16 × Bool) × Unit :=
  forIn (m := Id) sup (none, ()) fun v __s =>
    if (v == pv) = true then ForInStep.done (some (v, true), ()) else ForInStep.yield (none, ())

theorem vInner_fold (sup : List (BitVec 16)) (pv : BitVec 16) :
    (forIn (m := Id) sup (none, ()) fun v (__s : Option (BitVec 16 × Bool) × Unit) =>
      if (v == pv) = true then ForInStep.done (some (v, true), ()) else ForInStep.yield (none, ())) =
    vInner sup pv := rfl

theorem vInner_fst (sup : List (BitVec 16)) (pv : BitVec 16) :
    (vInner sup pv).1 = if sup.contains pv = true then some (pv, true) else none := by
  have k := findSome_loop (fun v : BitVec 16 => if (v == pv) = true then some (v, true) else none)
    sup (R := vInner sup pv) rfl (fun x st => by cases hx : (x == pv) <;> simp)
  rw [k, findSome?_ite sup (fun v => v == pv) (fun v => (v, true))]
  clear k
  induction sup with
  | nil => rfl
  | cons a t ih =>
    rw [List.find?_cons, List.contains_cons, BEq.comm (a := pv)]
    cases ha : (a == pv) with
    | true => have : a = pv := by simpa using ha
              subst this; simp
    | false => simpa using ih

/-- What the translated `mutualVersion` computes from the configuration's version list `sup`, for ALL
peer lists: the first PEER entry that `sup` contains (the peer's order has priority). -/
def mutualPick (sup peer : List (BitVec 16)) : BitVec 16 × Bool :=
  match peer.find? (fun pv => sup.contains pv) with
  | some v => (v, true)
  | none => (0#16, false)

macro "mutualVersion_proof" f:ident : tactic => `(tactic| (
  intro c b peer
  unfold $f mutualPick
  simp only [Id.run, pure, bind, vInner_fold]
  generalize hR : forIn (m := Id) peer ((none : Option (BitVec 16 × Bool)), ()) _ = R
  have k := findSome_loop (fun pv : BitVec 16 => (vInner _ pv).1) peer hR (fun x st => by
    generalize (vInner _ x).fst = o
    cases o <;> rfl)
  simp only [vInner_fst] at k
  rw [findSome?_ite peer (fun pv => List.contains _ pv) (fun pv => (pv, true))] at k
  rw [k]
  cases List.find? _ peer <;> rfl))

theorem mutualVersion_eq_tlcp : ∀ (c : Src.tlcp.neg.Config) (isClient : Bool) (peer : List (BitVec 16)),
    Src.tlcp.neg.Config.mutualVersion c isClient peer =
      mutualPick (Src.tlcp.neg.Config.supportedVersions c isClient) peer := by
  mutualVersion_proof Src.tlcp.neg.Config.mutualVersion

theorem mutualVersion_eq_dtlcp : ∀ (c : Src.dtlcp.neg.Config) (isClient : Bool) (peer : List (BitVec 16)),
    Src.dtlcp.neg.Config.mutualVersion c isClient peer =
      mutualPick (Src.dtlcp.neg.Config.supportedVersions c isClient) peer := by
  mutualVersion_proof Src.dtlcp.neg.Config.mutualVersion

/-! ### the translated functions are the model

Abstraction: a model `String` is the Go string with its UTF-8 bytes (`strBytes`, injective), a model
version number is the `uint16` with that value (`BitVec.toNat`, injective). -/

/-- `(string, error)` as `negotiateALPN` returns it -/
def encALPN : Option String → Str × Option Go.Error
  | some s => (strBytes s, none)
  | none => ([], some Go.Error.other)

/-- `error` as `checkALPN` returns it -/
def encCheck (ok : Bool) : Option Go.Error := if ok then none else some Go.Error.other

/-- `(uint16, bool)` as `mutualVersion` returns it -/
def encVersion : Option Nat → BitVec 16 × Bool
  | some v => (BitVec.ofNat 16 v, true)
  | none => (0#16, false)

/-- the model with the outer loop over its first list is the documented rule
(`Lemmas.Negotiate.negotiateALPN_ref` for every parameter set) -/
theorem negotiateALPN_rule (P : Params) (hP : P.alpnServerFirst = true) (server client : List String) :
    negotiateALPN P server client = alpnRule server client := by
  unfold negotiateALPN alpnRule
  simp only [hP, if_true]
  split
  · rfl
  · cases hf : server.find? (fun sp => client.contains sp) with
    | some r =>
      have h1 := alpnOuter_hit server client false r hf
      cases hx : alpnOuter true server client false with
      | mk x y => rw [hx] at h1; simp only at h1; subst h1; rfl
    | none =>
      rw [alpnOuter_miss server client false hf]
      cases server.contains "h2" <;> cases client.contains "http/1.1" <;> rfl

theorem alpnPick_map (s c : List String) :
    alpnPick (s.map strBytes) (c.map strBytes) = encALPN (alpnRule s c) := by
  unfold alpnPick alpnRule
  have hc : ∀ x : String, (c.map strBytes).contains (strBytes x) = c.contains x :=
    contains_map_inj strBytes strBytes_injective c
  have hs : ∀ x : String, (s.map strBytes).contains (strBytes x) = s.contains x :=
    contains_map_inj strBytes strBytes_injective s
  rw [find?_map_inj, ← strBytes_h2, ← strBytes_http11, hs, hc]
  simp only [hc, List.isEmpty_map]
  split
  · simp only [encALPN, strBytes_empty]
  · cases s.find? (fun x => c.contains x) with
    | some r => rfl
    | none =>
      simp only [Option.map_none]
      cases s.contains "h2" && c.contains "http/1.1" <;> simp [encALPN, strBytes_empty]

theorem checkPick_map (c : List String) (p : String) :
    checkPick (c.map strBytes) (strBytes p) = encCheck (checkALPN c p) := by
  unfold checkPick checkALPN encCheck
  have he : (strBytes p == []) = (p == "") := by
    rw [Bool.eq_iff_iff]; simp only [beq_iff_eq]; exact strBytes_eq_nil
  rw [he, contains_map_inj strBytes strBytes_injective c, List.isEmpty_map]
  cases (p == "") <;> cases c.isEmpty <;> cases c.contains p <;> rfl

/-- For every parameter set whose ALPN shape is `alpnServerFirst := true`, the translated TLCP
`negotiateALPN` IS the model's, on every pair of protocol lists. -/
theorem tie_negotiateALPN_tlcp (P : Params) (hP : P.alpnServerFirst = true) (s c : List String) :
    Src.tlcp.neg.negotiateALPN (s.map strBytes) (c.map strBytes) = encALPN (negotiateALPN P s c) := by
  rw [negotiateALPN_eq_tlcp, alpnPick_map, negotiateALPN_rule P hP]

theorem tie_negotiateALPN_dtlcp (P : Params) (hP : P.alpnServerFirst = true) (s c : List String) :
    Src.dtlcp.neg.negotiateALPN (s.map strBytes) (c.map strBytes) = encALPN (negotiateALPN P s c) := by
  rw [negotiateALPN_eq_dtlcp, alpnPick_map, negotiateALPN_rule P hP]

/-- the translated `checkALPN` IS the model's -/
theorem tie_checkALPN_tlcp (c : List String) (p : String) :
    Src.tlcp.neg.checkALPN (c.map strBytes) (strBytes p) = encCheck (checkALPN c p) := by
  rw [checkALPN_eq_tlcp, checkPick_map]

theorem tie_checkALPN_dtlcp (c : List String) (p : String) :
    Src.dtlcp.neg.checkALPN (c.map strBytes) (strBytes p) = encCheck (checkALPN c p) := by
  rw [checkALPN_eq_dtlcp, checkPick_map]

/-- the `supportedVersions` tables of both stacks (the one `Config.supportedVersions` walks and the
one `supportedVersionsFromMax` walks — the same Go variable, translated once per group) hold exactly
the model's literal `treeVersions` -/
theorem tie_versions_table_tlcp :
    Src.tlcp.neg.supportedVersions.map (·.toNat) = treeVersions ∧
    Src.tlcp.supportedVersions.map (·.toNat) = treeVersions := by decide

theorem tie_versions_table_dtlcp :
    Src.dtlcp.neg.supportedVersions.map (·.toNat) = treeVersions ∧
    Src.dtlcp.supportedVersions.map (·.toNat) = treeVersions := by decide

theorem toNat_injective16 : Function.Injective (fun v : BitVec 16 => v.toNat) :=
  fun _ _ h => BitVec.eq_of_toNat_eq h

theorem keepVersion_toNat (mn mx v : BitVec 16) :
    keepVersion mn mx v =
      (!(mn.toNat != 0 && decide (v.toNat < mn.toNat)) && !(mx.toNat != 0 && decide (v.toNat > mx.toNat))) := by
  unfold keepVersion
  have h0 : ∀ x : BitVec 16, (x != 0#16) = (x.toNat != 0) := by
    intro x
    rw [Bool.eq_iff_iff]
    simp only [bne_iff_ne, ne_eq]
    constructor
    · intro h e; exact h (BitVec.eq_of_toNat_eq (by simpa using e))
    · intro h e; exact h (by rw [e]; rfl)
  rw [h0, h0]
  rfl

theorem supportedVersions_map (P : Params) (tbl : List (BitVec 16)) (hP : P.versions = tbl.map (·.toNat))
    (mn mx : BitVec 16) :
    (tbl.filter (keepVersion mn mx)).map (·.toNat) = supportedVersions P mn.toNat mx.toNat := by
  unfold supportedVersions
  rw [hP, List.filter_map]
  congr 1
  apply List.filter_congr
  intro v _
  rw [keepVersion_toNat]
  rfl

/-- For every parameter set whose version table is `treeVersions`, the translated
`Config.supportedVersions` IS the model's (whatever `isClient`). -/
theorem tie_supportedVersions_tlcp (P : Params) (hP : P.versions = treeVersions)
    (c : Src.tlcp.neg.Config) (isClient : Bool) :
    (Src.tlcp.neg.Config.supportedVersions c isClient).map (·.toNat) =
      supportedVersions P c.MinVersion.toNat c.MaxVersion.toNat := by
  rw [supportedVersions_eq_tlcp]
  exact supportedVersions_map P _ (by rw [hP, tie_versions_table_tlcp.1]) _ _

theorem tie_supportedVersions_dtlcp (P : Params) (hP : P.versions = treeVersions)
    (c : Src.dtlcp.neg.Config) (isClient : Bool) :
    (Src.dtlcp.neg.Config.supportedVersions c isClient).map (·.toNat) =
      supportedVersions P c.MinVersion.toNat c.MaxVersion.toNat := by
  rw [supportedVersions_eq_dtlcp]
  exact supportedVersions_map P _ (by rw [hP, tie_versions_table_dtlcp.1]) _ _

theorem mutualPick_map (sup peer : List (BitVec 16)) :
    mutualPick sup peer =
      encVersion ((peer.map (·.toNat)).find? (fun pv => (sup.map (·.toNat)).contains pv)) := by
  unfold mutualPick
  rw [find?_map_inj]
  have hc : ∀ x : BitVec 16, (sup.map (·.toNat)).contains x.toNat = sup.contains x :=
    contains_map_inj (fun v : BitVec 16 => v.toNat) toNat_injective16 sup
  simp only [hc]
  cases peer.find? (fun pv => sup.contains pv) with
  | none => rfl
  | some v => simp only [Option.map_some, encVersion, BitVec.ofNat_toNat, BitVec.setWidth_eq]

/-- … and the translated `Config.mutualVersion` IS the model's, on every peer list. -/
theorem tie_mutualVersion_tlcp (P : Params) (hP : P.versions = treeVersions)
    (c : Src.tlcp.neg.Config) (isClient : Bool) (peer : List (BitVec 16)) :
    Src.tlcp.neg.Config.mutualVersion c isClient peer =
      encVersion (mutualVersion P c.MinVersion.toNat c.MaxVersion.toNat (peer.map (·.toNat))) := by
  rw [mutualVersion_eq_tlcp, mutualPick_map, tie_supportedVersions_tlcp P hP]
  rfl

theorem tie_mutualVersion_dtlcp (P : Params) (hP : P.versions = treeVersions)
    (c : Src.dtlcp.neg.Config) (isClient : Bool) (peer : List (BitVec 16)) :
    Src.dtlcp.neg.Config.mutualVersion c isClient peer =
      encVersion (mutualVersion P c.MinVersion.toNat c.MaxVersion.toNat (peer.map (·.toNat))) := by
  rw [mutualVersion_eq_dtlcp, mutualPick_map, tie_supportedVersions_dtlcp P hP]
  rfl

theorem versionsFromMax_map (P : Params) (tbl : List (BitVec 16)) (hP : P.versions = tbl.map (·.toNat))
    (m : BitVec 16) :
    (if (m &&& 65280#16 == 768#16) = true then [] else tbl.filter (fun v => !decide (v > m))).map (·.toNat) =
      versionsFromMax P m.toNat := by
  unfold versionsFromMax
  have h0 : (m &&& 65280#16 == 768#16) = (m.toNat &&& 0xFF00 == 0x0300) := by
    rw [Bool.eq_iff_iff]
    simp only [beq_iff_eq]
    constructor
    · intro h
      have := congrArg BitVec.toNat h
      simpa [BitVec.toNat_and] using this
    · intro h
      apply BitVec.eq_of_toNat_eq
      simpa [BitVec.toNat_and] using h
  rw [h0]
  split
  · rfl
  · rw [hP, List.filter_map]
    congr 1

/-- … and the translated `supportedVersionsFromMax` IS the model's `versionsFromMax`. -/
theorem tie_versionsFromMax_tlcp (P : Params) (hP : P.versions = treeVersions) (m : BitVec 16) :
    (Src.tlcp.supportedVersionsFromMax m).map (·.toNat) = versionsFromMax P m.toNat := by
  rw [versionsFromMax_eq_tlcp]
  exact versionsFromMax_map P _ (by rw [hP, tie_versions_table_tlcp.2]) m

theorem tie_versionsFromMax_dtlcp (P : Params) (hP : P.versions = treeVersions) (m : BitVec 16) :
    (Src.dtlcp.supportedVersionsFromMax m).map (·.toNat) = versionsFromMax P m.toNat := by
  rw [versionsFromMax_eq_dtlcp]
  exact versionsFromMax_map P _ (by rw [hP, tie_versions_table_dtlcp.2]) m

end Gotlcp.Tie.Negotiate

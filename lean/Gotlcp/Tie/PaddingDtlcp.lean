/-
Tie by translation, dtlcp/conn.go `extractPadding` (the padding check of the two SM4-CBC suites on
the 13-byte-header stack): `Gotlcp.Src.dtlcp.extractPadding` is regenerated from the Go source on
every run by `harness/cmd/go2lean`; `tie_extractPadding_dtlcp` proves, for ALL payloads (any
length, also 0 and > 256), that it never panics and returns exactly what the bit-level model
`Model.RecordRx.extractPadding` returns on the same bytes — the same statement
`Tie.Padding.tie_extractPadding` makes of the tlcp function (the two function texts are
identical today; each is tied on its own so that an edit of either one breaks its own theorem).

Core Lean only.
-/
import Gotlcp.Tie.Padding

set_option linter.unusedSimpArgs false
set_option linter.unusedVariables false

namespace Gotlcp.Tie.PaddingDtlcp
open Gotlcp.Model.RecordRx
open Gotlcp.Tie.Padding

/-- **dtlcp `extractPadding`, every payload**: no panic, and the result is the model's, bit for bit -/
theorem tie_extractPadding_dtlcp (p : List (BitVec 8)) :
    Src.dtlcp.extractPadding p =
      .ok (((extractPadding (p.map UInt8.ofBitVec)).1 : Int), (extractPadding (p.map UInt8.ofBitVec)).2.toBitVec) := by
  unfold Src.dtlcp.extractPadding
  by_cases hnil : p = []
  · subst hnil; rfl
  · have hpos : 0 < p.length := List.length_pos_iff.mpr hnil
    have h1 : ¬ ((p.length : Int) < 1) := by omega
    have hidx : Go.idx p ((p.length : Int) - 1) = .ok p[p.length - 1] := idx_ok p _ (by omega) _ (by omega)
    have hof : BitVec.ofInt 64 ((p.length : Int) - 1) = BitVec.ofNat 64 (p.length - 1) := by
      have : (p.length : Int) - 1 = ((p.length - 1 : Nat) : Int) := by omega
      rw [this, BitVec.ofInt_natCast]
    simp only [bind, Except.bind, pure, Except.pure, h1, decide_false, hidx, Bool.false_eq_true, if_false]
    have hl := getLast_map p hpos
    have hlen : (p.map UInt8.ofBitVec).length = p.length := List.length_map _
    unfold extractPadding
    rw [hl]
    simp only [hlen, hof, mask_eq]
    by_cases h256 : 256 > (p.length : Int)
    · have h256' : 256 > p.length := by omega
      simp only [h256, h256', decide_true, if_true]
      rw [loop_range p[p.length - 1] ((p.map UInt8.ofBitVec).reverse.take p.length)]
      · simp only [collapse, Int.natCast_add]; rfl
      · simp
      · intro j hj s
        simp only [idx_rev p _ j hj, BitVec.ofInt_natCast]
        rfl
    · have h256' : ¬ 256 > p.length := by omega
      simp only [h256, h256', decide_false, if_false, Bool.false_eq_true]
      rw [loop_range p[p.length - 1] ((p.map UInt8.ofBitVec).reverse.take 256)]
      · simp only [collapse, Int.natCast_add]; rfl
      · simp; omega
      · intro j hj s
        simp only [idx_rev p _ j hj, BitVec.ofInt_natCast]
        rfl

end Gotlcp.Tie.PaddingDtlcp

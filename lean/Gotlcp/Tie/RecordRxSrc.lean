/-
Tie by translation, the RECEIVE side of the record layer: `halfConn.decrypt` of tlcp/conn.go and of
dtlcp/conn.go (with `tls10MAC`, `extractPadding`, `roundUp`, `halfConn.explicitNonceLen`, tlcp `halfConn.incSeq`
and the cipher stubs `goAEAD.Open`, `goCBC.SetIV/CryptBlocks`) are regenerated from the Go source on every run
(`Gotlcp.Src.tlcp.rx`, `Gotlcp.Src.dtlcp.rx`).  This file proves, for ALL records of at least one header
and ALL well-formed connection states, that the translated functions

  * never return `Except.error` (a Go run-time panic: index / slice out of range, division by zero, the
    `crypto/cipher` length panics, a nil `hash.Hash`) — except the deliberate panic of tlcp `incSeq` at
    sequence number 2^64 - 1, and
  * return exactly what the hand-written model `Gotlcp.Model.RecordRx.decrypt` returns: on `.ok pt` the
    plaintext `pt`, the record type `record[0]`, a nil error and (tlcp) the sequence number + 1; on `.fail a _`
    the error `alert 20` (bad_record_mac), no plaintext, record type 0 and an unchanged sequence number

(`tie_decrypt_tlcp`, `tie_decrypt_dtlcp`).  Records shorter than a header make the Go code panic and the
translation return `Except.error` (`decrypt_tlcp_short`, `decrypt_dtlcp_short`); callers never pass them.

What is a parameter and what is assumed
  * `ext : Go.Extern` (HMAC) and `rx : Go.RxExtern` (AEAD open, CBC decryption) are arbitrary functions; the one
    library contract used is that CBC decryption preserves the length (`WellFormed.cbcLen`).
  * `WellFormed`: `hc.seq` has 8 bytes; the cipher is nil (no MAC), an AEAD (no MAC, non-negative nonce and
    overhead lengths) or a CBC block mode (a MAC is present, block size > 0); never a stream cipher (no TLCP
    suite has one).  "AEAD ⇒ no MAC" is what makes the value-semantics translation of the in-place
    `c.Open(payload[:0], …)` sound (see the reviewed alias note above `halfConn.decrypt` in Src.lean); it holds
    in the tree because every entry of `cipherSuites` has an `aead` exactly when it has no `mac`/`cipher` and
    `establishKeys` leaves the hash nil on the AEAD path (facts `rxSuiteShapes`, `rxEstablishKeysMacNilWithAead`,
    pinned by `C05_facts_wellformed`).
  * Go `int` is unbounded `Int` in the translation; `record.length < 2^63` makes `subtle.ConstantTimeSelect` on
    64-bit words exact (records are at most 18 437 bytes).
  * After-state: only `hc.seq` is compared (`hc.scratchBuf` and the chaining state inside the cipher objects are
    not modelled); the record buffer, whose two length bytes the tlcp CBC arm overwrites, is described by
    `SameFrame`.

The rx copies of `extractPadding` / `roundUp` are the same definitions as `Src.tlcp.extractPadding` … (`rfl`),
so `Tie.Padding` / `Tie.PaddingDtlcp` are reused; `incSeq` of the rx view is tied to `Model.KeySchedule.incSeq`
the way `Tie.Seq` does it and turned into numbers with `Lemmas.KeySchedule`.  Core Lean only.
-/
import Gotlcp.Tie.Padding
import Gotlcp.Tie.PaddingDtlcp
import Gotlcp.Tie.KeySched
import Gotlcp.Tie.Seq
import Gotlcp.Lemmas.KeySchedule

set_option linter.unusedSimpArgs false
set_option linter.unusedVariables false

namespace Gotlcp.Tie.RecordRxSrc
open Gotlcp.Model.RecordRx
open Gotlcp.Tie.KeySched (BV toBytes ofBytes toBytes_nil toBytes_append toBytes_length ofBytes_length
  toBytes_take toBytes_drop ofBytes_toBytes toBytes_ofBytes)

theorem ok_bind {ε α β : Type} (a : α) (f : α → Except ε β) : Except.bind (.ok a) f = f a := rfl

/-! ### checked helpers on arguments in range -/

theorem idx_ok {α : Type} (a : List α) (i : Nat) (h : i < a.length) : Go.idx a (i : Int) = .ok a[i] :=
  Tie.Padding.idx_ok a i h _ rfl

theorem slice_ok {α : Type} (a : List α) (lo hi : Nat) (h1 : lo ≤ hi) (h2 : hi ≤ a.length) :
    Go.slice a (lo : Int) (hi : Int) = .ok ((a.drop lo).take (hi - lo)) := by
  unfold Go.slice
  have : ¬ ((lo : Int) < 0 ∨ (hi : Int) < (lo : Int) ∨ (a.length : Int) < (hi : Int)) := by omega
  rw [if_neg this]
  simp

theorem slice_from {α : Type} (a : List α) (k : Nat) (hk : k ≤ a.length) :
    Go.slice a (k : Int) (a.length : Int) = .ok (a.drop k) := by
  rw [slice_ok a k a.length hk (Nat.le_refl _)]
  rw [List.take_of_length_le (by simp)]

theorem slice_to {α : Type} (a : List α) (k : Nat) (hk : k ≤ a.length) :
    Go.slice a 0 (k : Int) = .ok (a.take k) := by
  have := slice_ok a 0 k (Nat.zero_le _) hk
  simpa using this

theorem slice_all {α : Type} (a : List α) : Go.slice a 0 (a.length : Int) = .ok a := by
  have := slice_to a a.length (Nat.le_refl _)
  simpa using this

theorem slice_00 {α : Type} (a : List α) : Go.slice a 0 0 = .ok [] := by
  have := slice_to a 0 (Nat.zero_le _)
  simpa using this

theorem set_ok {α : Type} (a : List α) (i : Nat) (v : α) (h : i < a.length) :
    Go.set a (i : Int) v = .ok (a.set i v) := by
  unfold Go.set
  have : ¬ ((i : Int) < 0) := by omega
  simp [this, h]

theorem modInt_nat (a b : Nat) (hb : 0 < b) : Go.modInt (a : Int) (b : Int) = .ok ((a % b : Nat) : Int) := by
  unfold Go.modInt
  have : ¬ ((b : Int) = 0) := by omega
  simp only [this, if_false]
  rw [Int.tmod_eq_emod_of_nonneg (by omega)]
  rfl

/-- `copy(dst, src)` with `len(src) = len(dst)`: the whole of `src` -/
theorem copyInto_full {α : Type} (dst src : List α) (h : src.length = dst.length) :
    Go.copyInto dst 0 (dst.length : Int) src = .ok src := by
  unfold Go.copyInto
  have : ¬ ((0 : Int) < 0 ∨ (dst.length : Int) < 0 ∨ (dst.length : Int) < (dst.length : Int)) := by omega
  rw [if_neg this]
  simp only [Int.toNat_zero, Int.toNat_natCast, Nat.sub_zero, h, Nat.min_self, List.take_zero, List.nil_append,
    Nat.zero_add, List.drop_length, List.append_nil]
  rw [List.take_of_length_le (Nat.le_of_eq h)]

/-! ### integer and bit arithmetic of the MAC section -/

theorem andInt_zero_right (x : Int) : Go.andInt x 0 = 0 := by
  unfold Go.andInt; simp
theorem andInt_zero_left (x : Int) : Go.andInt 0 x = 0 := by
  unfold Go.andInt; simp

theorem ofInt_toInt_self (n : Int) (hlo : -(2:Int)^63 ≤ n) (hhi : n < (2:Int)^63) : (BitVec.ofInt 64 n).toInt = n := by
  rw [BitVec.toInt_ofInt]
  apply Int.bmod_eq_of_le <;> omega

/-- `subtle.ConstantTimeSelect(1, 0, n) = 0` -/
theorem cts_one (n : Int) : Go.constantTimeSelect 1 0 n = 0 := by
  unfold Go.constantTimeSelect
  simp only [Int.sub_self, andInt_zero_right, andInt_zero_left]
  unfold Go.orInt; simp

/-- `subtle.ConstantTimeSelect(0, 0, n) = n` for a 64-bit `n` -/
theorem cts_zero (n : Int) (hlo : -(2:Int)^63 ≤ n) (hhi : n < (2:Int)^63) : Go.constantTimeSelect 0 0 n = n := by
  unfold Go.constantTimeSelect
  simp only [andInt_zero_right]
  unfold Go.orInt Go.andInt
  have e : BitVec.ofInt 64 (0 - 1) = BitVec.allOnes 64 := by decide
  rw [e]
  simp only [BitVec.allOnes_and, BitVec.ofInt_toInt]
  simp [ofInt_toInt_self n hlo hhi]

theorem sign32 (n : Int) :
    (((BitVec.ofInt 32 n) >>> 31).toNat : Int) = (n % 4294967296) / 2147483648 := by
  rw [BitVec.toNat_ushiftRight, BitVec.toNat_ofInt, Nat.shiftRight_eq_div_pow]
  have h0 : 0 ≤ n % 2 ^ 32 := Int.emod_nonneg _ (by decide)
  omega

theorem sign32_01 (n : Int) : (n % 4294967296) / 2147483648 = 0 ∨ (n % 4294967296) / 2147483648 = 1 := by
  omega

theorem ob_ofInt8 (x : Int) : UInt8.ofBitVec (BitVec.ofInt 8 x) = UInt8.ofNat (x % 256).toNat := by
  apply UInt8.toBitVec_inj.mp
  apply BitVec.eq_of_toNat_eq
  simp [BitVec.toNat_ofInt]
  omega

theorem int16be_src (n : Int) :
    toBytes [BitVec.ofInt 8 (n >>> 8), BitVec.ofInt 8 n] = int16be n := by
  simp only [toBytes, List.map, ob_ofInt8, int16be]
  have : n >>> 8 = n / 256 := by
    rw [Int.shiftRight_eq_div_pow]; rfl
  rw [this]

theorem andInt_cmp (p : Prop) [Decidable p] (g : BitVec 8) :
    (Go.andInt (if p then 1 else 0) ((g.toNat : Nat) : Int) != 1) =
      (Nat.land (if p then 1 else 0) g.toNat != 1) := by
  by_cases hp : p
  · simp only [hp, if_true]
    revert g; decide
  · simp only [hp, if_false]
    rw [Go.andInt]
    simp

/-- the sequence number held in `hc.seq` (8 bytes, big-endian) as the model's natural number -/
def seqNat (s : BV) : Nat := Crypto.fromBE (toBytes s)

theorem seqNat_lt (s : BV) (h : s.length = 8) : seqNat s < 2 ^ 64 := by
  match s, h with
  | [b0, b1, b2, b3, b4, b5, b6, b7], _ =>
    simp only [seqNat, toBytes, List.map, Crypto.fromBE, List.foldl]
    have := (UInt8.ofBitVec b0).toNat_lt; have := (UInt8.ofBitVec b1).toNat_lt
    have := (UInt8.ofBitVec b2).toNat_lt; have := (UInt8.ofBitVec b3).toNat_lt
    have := (UInt8.ofBitVec b4).toNat_lt; have := (UInt8.ofBitVec b5).toNat_lt
    have := (UInt8.ofBitVec b6).toNat_lt; have := (UInt8.ofBitVec b7).toNat_lt
    omega

theorem u8_ofNat_toNat (b : UInt8) (n : Nat) (h : n = b.toNat) : UInt8.ofNat n = b := by
  subst h; simp

/-- `hc.seq[:]` is the model's `be64` of the number it denotes -/
theorem be64_seqNat (s : BV) (h : s.length = 8) : be64 (seqNat s) = toBytes s := by
  match s, h with
  | [b0, b1, b2, b3, b4, b5, b6, b7], _ =>
    simp only [seqNat, toBytes, List.map, Crypto.fromBE, List.foldl, be64]
    have := (UInt8.ofBitVec b0).toNat_lt; have := (UInt8.ofBitVec b1).toNat_lt
    have := (UInt8.ofBitVec b2).toNat_lt; have := (UInt8.ofBitVec b3).toNat_lt
    have := (UInt8.ofBitVec b4).toNat_lt; have := (UInt8.ofBitVec b5).toNat_lt
    have := (UInt8.ofBitVec b6).toNat_lt; have := (UInt8.ofBitVec b7).toNat_lt
    have c : ∀ (n : Nat) (b : UInt8) (l l' : Bytes), n = b.toNat → l = l' → UInt8.ofNat n :: l = b :: l' := by
      intro n b l l' h1 h2; rw [u8_ofNat_toNat b n h1, h2]
    refine c _ _ _ _ ?_ (c _ _ _ _ ?_ (c _ _ _ _ ?_ (c _ _ _ _ ?_ (c _ _ _ _ ?_ (c _ _ _ _ ?_ (c _ _ _ _ ?_ (c _ _ _ _ ?_ rfl)))))))
    all_goals omega


/-! ### `incSeq` of the receive-side view -/

theorem incSeq_tlcp (hc : Src.tlcp.rx.halfConn) (h : hc.seq.length = 8) :
    Src.tlcp.rx.halfConn.incSeq hc =
      match Model.KeySchedule.incSeq (toBytes hc.seq) with
      | some s' => .ok { hc with seq := ofBytes s' }
      | none => .error "panic: tlcp: sequence number wraparound" := by
  obtain ⟨ci, mac, seq, scr⟩ := hc
  simp only at h
  match seq, h with
  | [b0, b1, b2, b3, b4, b5, b6, b7], _ =>
  unfold Src.tlcp.rx.halfConn.incSeq Model.KeySchedule.incSeq
  have hz : ∀ b : BitVec 8, b + 1#8 = 0#8 → (UInt8.ofBitVec b + 1 != 0) = false := by
    intro b hb; rw [← Tie.Seq.ob_add_one, Tie.Seq.ob_ne_zero, hb]; rfl
  have hnz : ∀ b : BitVec 8, ¬ b + 1#8 = 0#8 → (UInt8.ofBitVec b + 1 != 0) = true := by
    intro b hb; rw [← Tie.Seq.ob_add_one, Tie.Seq.ob_ne_zero]; simp [hb]
  have tb : ∀ b : BitVec 8, (UInt8.ofBitVec b + 1).toBitVec = b + 1#8 := fun _ => rfl
  by_cases h7 : b7 + 1#8 = 0#8
  · by_cases h6 : b6 + 1#8 = 0#8
    · by_cases h5 : b5 + 1#8 = 0#8
      · by_cases h4 : b4 + 1#8 = 0#8
        · by_cases h3 : b3 + 1#8 = 0#8
          · by_cases h2 : b2 + 1#8 = 0#8
            · by_cases h1 : b1 + 1#8 = 0#8
              · by_cases h0 : b0 + 1#8 = 0#8
                · simp [List.range, List.range.loop, Go.idx, Go.set, bind, Except.bind, pure, Except.pure, tb,
                    toBytes, ofBytes, Model.KeySchedule.incSeqRev, hz, hnz, throw, throwThe, MonadExceptOf.throw, h7, h6, h5, h4, h3, h2, h1, h0]
                · simp [List.range, List.range.loop, Go.idx, Go.set, bind, Except.bind, pure, Except.pure, tb,
                    toBytes, ofBytes, Model.KeySchedule.incSeqRev, hz, hnz, throw, throwThe, MonadExceptOf.throw, h7, h6, h5, h4, h3, h2, h1, h0]
              · simp [List.range, List.range.loop, Go.idx, Go.set, bind, Except.bind, pure, Except.pure, tb,
                  toBytes, ofBytes, Model.KeySchedule.incSeqRev, hz, hnz, throw, throwThe, MonadExceptOf.throw, h7, h6, h5, h4, h3, h2, h1]
            · simp [List.range, List.range.loop, Go.idx, Go.set, bind, Except.bind, pure, Except.pure, tb,
                toBytes, ofBytes, Model.KeySchedule.incSeqRev, hz, hnz, throw, throwThe, MonadExceptOf.throw, h7, h6, h5, h4, h3, h2]
          · simp [List.range, List.range.loop, Go.idx, Go.set, bind, Except.bind, pure, Except.pure, tb,
              toBytes, ofBytes, Model.KeySchedule.incSeqRev, hz, hnz, throw, throwThe, MonadExceptOf.throw, h7, h6, h5, h4, h3]
        · simp [List.range, List.range.loop, Go.idx, Go.set, bind, Except.bind, pure, Except.pure, tb,
            toBytes, ofBytes, Model.KeySchedule.incSeqRev, hz, hnz, throw, throwThe, MonadExceptOf.throw, h7, h6, h5, h4]
      · simp [List.range, List.range.loop, Go.idx, Go.set, bind, Except.bind, pure, Except.pure, tb,
          toBytes, ofBytes, Model.KeySchedule.incSeqRev, hz, hnz, throw, throwThe, MonadExceptOf.throw, h7, h6, h5]
    · simp [List.range, List.range.loop, Go.idx, Go.set, bind, Except.bind, pure, Except.pure, tb,
        toBytes, ofBytes, Model.KeySchedule.incSeqRev, hz, hnz, throw, throwThe, MonadExceptOf.throw, h7, h6]
  · simp [List.range, List.range.loop, Go.idx, Go.set, bind, Except.bind, pure, Except.pure, tb,
      toBytes, ofBytes, Model.KeySchedule.incSeqRev, hz, hnz, throw, throwThe, MonadExceptOf.throw, h7]


theorem seqNat_ofBytes (b : Bytes) : seqNat (ofBytes b) = Crypto.fromBE b := by simp [seqNat]

theorem fromLE_all255 (l : Bytes) (h : ∀ b ∈ l, b = 255) : Lemmas.KeySchedule.fromLE l + 1 = 256 ^ l.length := by
  induction l with
  | nil => rfl
  | cons b l ih =>
    have hb : b = 255 := h b (by simp)
    have hl : ∀ x ∈ l, x = 255 := fun x hx => h x (by simp [hx])
    have := ih hl
    have e : (255 : UInt8).toNat = 255 := rfl
    rw [Lemmas.KeySchedule.fromLE, List.length_cons, Nat.pow_succ, hb, e]; omega

theorem fromBE_all255 (l : Bytes) (h : ∀ b ∈ l, b = 255) : Crypto.fromBE l + 1 = 256 ^ l.length := by
  rw [Lemmas.KeySchedule.fromBE_eq_fromLE_reverse]
  have := fromLE_all255 l.reverse (fun b hb => h b (by simpa using hb))
  simpa using this

/-- **`incSeq` in numbers**: below `2^64 - 1` the 8 bytes afterwards are `be64 (n + 1)` and nothing else
changes; at `2^64 - 1` the function panics -/
theorem incSeq_tlcp_num (hc : Src.tlcp.rx.halfConn) (h : hc.seq.length = 8) :
    Src.tlcp.rx.halfConn.incSeq hc =
      if seqNat hc.seq + 1 < 2 ^ 64 then .ok { hc with seq := ofBytes (be64 (seqNat hc.seq + 1)) }
      else .error "panic: tlcp: sequence number wraparound" := by
  rw [incSeq_tlcp hc h]
  cases hi : Model.KeySchedule.incSeq (toBytes hc.seq) with
  | some s' =>
    obtain ⟨h1, h2⟩ := Lemmas.KeySchedule.incSeq_some _ _ hi
    have hl : (ofBytes s').length = 8 := by simp [h2, h]
    have hlt := seqNat_lt (ofBytes s') hl
    rw [seqNat_ofBytes, h1] at hlt
    have hb := be64_seqNat (ofBytes s') hl
    rw [seqNat_ofBytes, h1, toBytes_ofBytes] at hb
    have : seqNat hc.seq + 1 < 2 ^ 64 := hlt
    simp only [this, if_true]
    rw [show Crypto.fromBE (toBytes hc.seq) = seqNat hc.seq from rfl] at hb
    rw [hb]
  | none =>
    unfold Model.KeySchedule.incSeq at hi
    have hr : Model.KeySchedule.incSeqRev (toBytes hc.seq).reverse = none := by
      cases hx : Model.KeySchedule.incSeqRev (toBytes hc.seq).reverse with
      | none => rfl
      | some r => simp [hx] at hi
    have hall := (Lemmas.KeySchedule.incSeqRev_none _).mp hr
    have h255 : ∀ b ∈ toBytes hc.seq, b = 255 := fun b hb => hall b (by simpa using hb)
    have := fromBE_all255 _ h255
    rw [toBytes_length, h] at this
    have hn : ¬ seqNat hc.seq + 1 < 2 ^ 64 := by
      unfold seqNat; omega
    simp only [hn, if_false]

/-! ### the abstraction: connection state ↦ the model's cipher -/

/-- the dynamic type of `hc.cipher` with the numbers the receive path reads from it -/
inductive Shape where
  | none
  | stream
  | aead (nonce overhead : Int)
  | cbc (blockSize : Int)

/-- what `decrypt` reads of a `halfConn`, the same for both stacks -/
structure View where
  shape : Shape
  mac : Go.Hmac
  seq : BV

def viewT (hc : Src.tlcp.rx.halfConn) : View :=
  { shape := match hc.cipher with
      | .nil => .none | .goStream _ => .stream
      | .goAEAD a => .aead a.nonce a.overhead | .goCBC c => .cbc c.blockSize,
    mac := hc.mac, seq := hc.seq }

def viewD (hc : Src.dtlcp.rx.halfConn) : View :=
  { shape := match hc.cipher with
      | .nil => .none | .goStream _ => .stream
      | .goAEAD a => .aead a.nonce a.overhead | .goCBC c => .cbc c.blockSize,
    mac := hc.mac, seq := hc.seq }

instance : Coe Src.tlcp.rx.halfConn View := ⟨viewT⟩
instance : Coe Src.dtlcp.rx.halfConn View := ⟨viewD⟩

/-- **The states the theorems are about.**  `hc.seq` is the 8-byte array; the library's CBC decryption returns as
many bytes as it was given; and the (cipher, MAC) pair is one of the three `prepareCipherSpec` /
`changeCipherSpec` ever install: no cipher and no MAC, an AEAD WITHOUT a MAC (the hypothesis under which the
value-semantics translation of the in-place `Open` models the Go function), a CBC block mode WITH a MAC and a
positive block size.  A `cipher.Stream` is excluded (no TLCP suite constructs one; the model omits that arm). -/
structure WellFormed (rx : Go.RxExtern) (v : View) : Prop where
  seqLen : v.seq.length = 8
  cbcLen : ∀ iv s, (rx.cbcDecrypt iv s).length = s.length
  shape : match v.shape with
    | .none => v.mac.present = false
    | .stream => False
    | .aead nonce overhead => v.mac.present = false ∧ 0 ≤ nonce ∧ 0 ≤ overhead
    | .cbc bs => v.mac.present = true ∧ 0 < bs

/-- the model's cipher for a connection state: the modelled library functions `rx` / `ext` become the model's
crypto parameters (mind the argument order: the model's `aopen nonce ad ct`, the library's
`Open(dst, nonce, ciphertext, additionalData)`); `macSize` is `Go.hashSize` = 32 (HMAC-SM3) -/
def absCipher (ext : Go.Extern) (rx : Go.RxExtern) (v : View) : Cipher :=
  match v.shape with
  | .none => .none
  | .stream => .none
  | .aead nonce overhead =>
    .aead { explicitNonceLen := nonce.toNat, overhead := overhead.toNat,
            aopen := fun nonce ad ct =>
              if rx.aeadOk (ofBytes nonce) (ofBytes ct) (ofBytes ad)
              then some (toBytes (rx.aeadPlain (ofBytes nonce) (ofBytes ct) (ofBytes ad))) else none }
  | .cbc bs =>
    .cbc { blockSize := bs.toNat, macSize := 32,
           dec := fun iv body => toBytes (rx.cbcDecrypt (ofBytes iv) (ofBytes body)),
           mac := fun seq hdr data => toBytes (ext.hmac v.mac.alg v.mac.key (ofBytes (be64 seq ++ hdr ++ data))) }

theorem hdrLen_tlcp : tlcpParams.hdrLen = 5 := rfl
theorem aBad_tlcp : tlcpParams.aBadMAC = 20 := rfl

theorem toBytes_inj {a b : BV} : toBytes a = toBytes b ↔ a = b := by
  constructor
  · intro h; have := congrArg ofBytes h; simpa using this
  · intro h; rw [h]

theorem tls10MAC_tlcp (ext rx) (h : Go.Hmac) (seq hdr data extra : BV) :
    Src.tlcp.rx.tls10MAC ext rx h [] seq hdr data extra = ext.hmac h.alg h.key (seq ++ hdr ++ data) := by
  unfold Src.tlcp.rx.tls10MAC
  simp only [Id.run, pure, List.nil_append]
  split <;> rfl

theorem tls10MAC_dtlcp (ext rx) (h : Go.Hmac) (seq hdr data extra : BV) :
    Src.dtlcp.rx.tls10MAC ext rx h [] seq hdr data extra = ext.hmac h.alg h.key (seq ++ hdr ++ data) := by
  unfold Src.dtlcp.rx.tls10MAC
  simp only [Id.run, pure, List.nil_append]
  split <;> rfl

/-! ## tlcp -/

/-- nil cipher, no MAC (before ChangeCipherSpec) -/
theorem decrypt_tlcp_nil (ext rx) (mac seq scr) (record : BV) (hm : mac.present = false) (hs : seq.length = 8)
    (hlen : 5 ≤ record.length) :
    Src.tlcp.rx.halfConn.decrypt ext rx ⟨.nil, mac, seq, scr⟩ record =
      (Src.tlcp.rx.halfConn.incSeq ⟨.nil, mac, seq, scr⟩).bind fun hc' =>
        .ok (hc', record, record.drop 5, record[0], none) := by
  unfold Src.tlcp.rx.halfConn.decrypt Src.tlcp.rx.halfConn.explicitNonceLen
  have h0 : Go.idx record 0 = .ok record[0] := idx_ok record 0 (by omega)
  have h1 : Go.slice record 5 (record.length : Int) = .ok (record.drop 5) := slice_from record 5 hlen
  simp only [bind, pure, Except.pure, h0, h1, ok_bind, hm]
  simp [ok_bind]

abbrev ResT := Except String (Src.tlcp.rx.halfConn × BV × BV × BitVec 8 × Option Go.Error)

/-- the record buffer afterwards: same length, type/version bytes and body untouched (the CBC arm
overwrites the two length bytes `record[3]`, `record[4]` with the plaintext length for the MAC) -/
def SameFrame (h : Nat) (record rec' : BV) : Prop :=
  rec'.length = record.length ∧ rec'.take 3 = record.take 3 ∧ rec'.drop h = record.drop h

theorem SameFrame.rfl' (h : Nat) (record : BV) : SameFrame h record record := ⟨rfl, rfl, rfl⟩

/-- "the translated tlcp `decrypt` returned what the model says", up to `incSeq` -/
def AgreeT (hc : Src.tlcp.rx.halfConn) (record : BV) (typ : BitVec 8) (o : DecOut) (r : ResT) : Prop :=
  match o with
  | .ok pt => ∃ rec', SameFrame 5 record rec' ∧
      r = (Src.tlcp.rx.halfConn.incSeq hc).bind fun hc' => .ok (hc', rec', ofBytes pt, typ, none)
  | .fail a _ => ∃ rec', SameFrame 5 record rec' ∧
      r = .ok (hc, rec', [], 0#8, some (.alert (BitVec.ofNat 8 a)))

theorem open_tlcp (rx) (a : Src.tlcp.rx.goAEAD) (nonce ct ad : BV) :
    Src.tlcp.rx.goAEAD.Open rx a [] nonce ct ad =
      if rx.aeadOk nonce ct ad = true then (rx.aeadPlain nonce ct ad, none) else ([], some Go.Error.other) := by
  unfold Src.tlcp.rx.goAEAD.Open
  simp only [Id.run, pure, List.nil_append]
  cases rx.aeadOk nonce ct ad <;> rfl

/-- the AEAD arm (SM4-GCM suites) -/
theorem agree_tlcp_aead (ext rx) (N O : Nat) (mac seq scr) (record : BV) (hm : mac.present = false)
    (hs : seq.length = 8) (hlen : 5 ≤ record.length) :
    AgreeT ⟨.goAEAD ⟨O, N⟩, mac, seq, scr⟩ record (record[0]'(by omega))
      (decrypt tlcpParams (absCipher ext rx ⟨.aead N O, mac, seq⟩) (seqNat seq) (toBytes record))
      (Src.tlcp.rx.halfConn.decrypt ext rx ⟨.goAEAD ⟨O, N⟩, mac, seq, scr⟩ record) := by
  unfold Src.tlcp.rx.halfConn.decrypt Src.tlcp.rx.halfConn.explicitNonceLen
  have h0 : Go.idx record 0 = .ok record[0] := idx_ok record 0 (by omega)
  have h1 : Go.slice record 5 (record.length : Int) = .ok (record.drop 5) := slice_from record 5 hlen
  have h2 : Go.slice record 0 3 = .ok (record.take 3) := slice_to record 3 (by omega)
  simp only [bind, pure, Except.pure, h0, h1, h2, ok_bind, hm, slice_00, slice_all, 
    Src.tlcp.rx.goAEAD.explicitNonceLen, Src.tlcp.rx.goAEAD.Overhead, Id.run]
  simp only [show (Src.tlcp.rx.Dyn.goAEAD ⟨O, N⟩ == Src.tlcp.rx.Dyn.nil) = false from rfl,
     show (Src.tlcp.rx.Dyn.goAEAD ⟨O, N⟩ != Src.tlcp.rx.Dyn.nil) = true from rfl, if_true, if_false, Bool.false_eq_true, ok_bind]
  simp only [decrypt, absCipher, hdrLen_tlcp, aBad_tlcp, Int.toNat_natCast, ← toBytes_drop, ← toBytes_take, toBytes_length,
    be64_seqNat seq hs, ofBytes_toBytes]
  by_cases hshort : (record.drop 5).length < N
  · have : ((record.drop 5).length : Int) < (N : Int) := by omega
    simp only [hshort, this, decide_true, if_true, AgreeT]
    exact ⟨record, SameFrame.rfl' _ _, rfl⟩
  · have hn : ¬ ((record.drop 5).length : Int) < (N : Int) := by omega
    have h3 : Go.slice (record.drop 5) 0 (N : Int) = .ok ((record.drop 5).take N) := slice_to _ N (by omega)
    have h4 : Go.slice (record.drop 5) (N : Int) ((record.drop 5).length : Int) = .ok ((record.drop 5).drop N) :=
      slice_from _ N (by omega)
    simp only [hshort, hn, decide_false, if_false, Bool.false_eq_true, h3, h4, ok_bind]
    generalize record.drop 5 = pay
    have had : ofBytes (toBytes seq ++ toBytes (record.take 3) ++ int16be (((pay.drop N).length : Int) - (O : Int))) =
        [] ++ seq ++ record.take 3 ++ [BitVec.ofInt 8 ((((pay.drop N).length : Int) - (O : Int)) >>> 8),
          BitVec.ofInt 8 (((pay.drop N).length : Int) - (O : Int))] := by
      rw [← int16be_src, ← toBytes_append, ← toBytes_append, ofBytes_toBytes, List.nil_append]
    rw [had]
    have hnonce : ofBytes (if (pay.take N).length = 0 then toBytes seq else toBytes (pay.take N)) =
        if (pay.take N).length = 0 then seq else pay.take N := by
      split <;> simp
    rw [hnonce]
    by_cases he : (pay.take N).length = 0
    · have he' : (((pay.take N).length : Int) == 0) = true := by simp [he]
      simp only [he, he', if_true, open_tlcp]
      by_cases hok : rx.aeadOk seq (pay.drop N) ([] ++ seq ++ record.take 3 ++
          [BitVec.ofInt 8 ((((pay.drop N).length : Int) - (O : Int)) >>> 8), BitVec.ofInt 8 (((pay.drop N).length : Int) - (O : Int))]) = true
      · simp only [hok, if_true, AgreeT, Option.isSome_none, Bool.false_eq_true, if_false, ofBytes_toBytes, Bool.not_true]
        exact ⟨record, SameFrame.rfl' _ _, rfl⟩
      · simp only [hok, if_false, AgreeT, Option.isSome_some, if_true, Bool.not_false, Bool.not_eq_true]
        exact ⟨record, SameFrame.rfl' _ _, rfl⟩
    · have he' : ¬ (((pay.take N).length : Int) == 0) = true := by simpa using he
      simp only [he, he', if_false, open_tlcp]
      by_cases hok : rx.aeadOk (pay.take N) (pay.drop N) ([] ++ seq ++ record.take 3 ++
          [BitVec.ofInt 8 ((((pay.drop N).length : Int) - (O : Int)) >>> 8), BitVec.ofInt 8 (((pay.drop N).length : Int) - (O : Int))]) = true
      · simp only [hok, if_true, AgreeT, Option.isSome_none, Bool.false_eq_true, if_false, ofBytes_toBytes, Bool.not_true]
        exact ⟨record, SameFrame.rfl' _ _, rfl⟩
      · simp only [hok, if_false, AgreeT, Option.isSome_some, if_true, Bool.not_false, Bool.not_eq_true]
        exact ⟨record, SameFrame.rfl' _ _, rfl⟩

/-! ### pieces of the CBC arm -/

theorem slice_int {α : Type} (a : List α) (lo hi : Int) (l h : Nat) (hl : lo = (l : Int)) (hh : hi = (h : Int))
    (h1 : l ≤ h) (h2 : h ≤ a.length) : Go.slice a lo hi = .ok ((a.drop l).take (h - l)) := by
  subst hl hh; exact slice_ok a l h h1 h2

theorem take5_set (record : BV) (hlen : 5 ≤ record.length) (x y : BitVec 8) :
    ((record.set 3 x).set 4 y).take 5 = record.take 3 ++ [x, y] := by
  match record, hlen with
  | a :: b :: c :: d :: e :: rest, _ => rfl

theorem sameFrame_set (record : BV) (x y : BitVec 8) : SameFrame 5 record ((record.set 3 x).set 4 y) := by
  refine ⟨by simp, ?_, ?_⟩
  · match record with
    | [] => rfl
    | [a] => rfl
    | [a, b] => rfl
    | [a, b, c] => rfl
    | [a, b, c, d] => rfl
    | a :: b :: c :: d :: e :: rest => rfl
  · match record with
    | [] => rfl
    | [a] => rfl
    | [a, b] => rfl
    | [a, b, c] => rfl
    | [a, b, c, d] => rfl
    | a :: b :: c :: d :: e :: rest => rfl

theorem hdr3 (record : BV) (hlen : 3 ≤ record.length) (x y : BitVec 8) :
    [record[0], record[1], record[2], x, y] = record.take 3 ++ [x, y] := by
  match record, hlen with
  | a :: b :: c :: rest, _ => rfl

/-- the model's `extractPadding` removes at most 256 bytes -/
theorem extractPadding_fst_le (p : Bytes) : (extractPadding p).1 ≤ 256 := by
  unfold extractPadding
  cases p.getLast? with
  | none => simp
  | some l =>
    simp only
    have := (l.toBitVec &&& collapse (padLoop l.toBitVec 0 (List.take (if 256 > p.length then p.length else 256) p.reverse)
      (msbMask (BitVec.ofNat 64 (p.length - 1) - BitVec.setWidth 64 l.toBitVec)))).isLt
    omega

/-- the clamp of `n = len - macSize - paddingLen`: a natural number that leaves room for the MAC -/
theorem clamp_nat (len pad : Nat) (h32 : 32 ≤ len) (hpad : pad ≤ 256) :
    ∃ k : Nat, clampNeg ((len : Int) - 32 - (pad : Int)) = (k : Int) ∧ k + 32 ≤ len := by
  unfold clampNeg
  split
  · exact ⟨0, rfl, by omega⟩
  · rename_i hsign
    have : 0 ≤ (len : Int) - 32 - (pad : Int) := by omega
    exact ⟨((len : Int) - 32 - (pad : Int)).toNat, by omega, by omega⟩

/-- the translated clamp is the model's -/
theorem select_eq_clamp (n : Int) (hlo : -(2:Int)^63 ≤ n) (hhi : n < (2:Int)^63) :
    Go.constantTimeSelect (((BitVec.ofInt 32 n) >>> 31).toNat : Int) 0 n = clampNeg n := by
  rw [sign32]
  unfold clampNeg
  rcases sign32_01 n with h | h
  · rw [h, cts_zero n hlo hhi]; simp
  · rw [h, cts_one]; simp

theorem cryptBlocks_tlcp (rx : Go.RxExtern) (hcl : ∀ iv s, (rx.cbcDecrypt iv s).length = s.length)
    (B : Nat) (hB : 0 < B) (iv s : BV) (hs : s.length % B = 0) :
    Src.tlcp.rx.goCBC.CryptBlocks rx ⟨B, iv⟩ s s = .ok (rx.cbcDecrypt iv s) := by
  unfold Src.tlcp.rx.goCBC.CryptBlocks
  simp only [bind, pure, Except.pure, modInt_nat s.length B hB, ok_bind, hs]
  simp [copyInto_full s _ (hcl iv s), ok_bind]

theorem cryptBlocks_dtlcp (rx : Go.RxExtern) (hcl : ∀ iv s, (rx.cbcDecrypt iv s).length = s.length)
    (B : Nat) (hB : 0 < B) (iv s : BV) (hs : s.length % B = 0) :
    Src.dtlcp.rx.goCBC.CryptBlocks rx ⟨B, iv⟩ s s = .ok (rx.cbcDecrypt iv s) := by
  unfold Src.dtlcp.rx.goCBC.CryptBlocks
  simp only [bind, pure, Except.pure, modInt_nat s.length B hB, ok_bind, hs]
  simp [copyInto_full s _ (hcl iv s), ok_bind]

theorem extractPadding_tlcp (p : BV) :
    Src.tlcp.rx.extractPadding p = .ok (((extractPadding (toBytes p)).1 : Int), (extractPadding (toBytes p)).2.toBitVec) :=
  Tie.Padding.tie_extractPadding p

theorem extractPadding_dtlcp (p : BV) :
    Src.dtlcp.rx.extractPadding p = .ok (((extractPadding (toBytes p)).1 : Int), (extractPadding (toBytes p)).2.toBitVec) :=
  Tie.PaddingDtlcp.tie_extractPadding_dtlcp p

theorem roundUp_tlcp (B : Nat) (hB : 0 < B) : Src.tlcp.rx.roundUp (32 + 1) (B : Int) = .ok ((roundUp 33 B : Nat) : Int) := by
  have := Tie.Padding.tie_roundUp 33 (B : Int) (by omega) (by omega)
  rw [show Src.tlcp.rx.roundUp = Src.tlcp.roundUp from rfl]
  simpa using this

theorem roundUp_dtlcp (B : Nat) (hB : 0 < B) : Src.dtlcp.rx.roundUp (32 + 1) (B : Int) = .ok ((roundUp 33 B : Nat) : Int) := by
  have := Tie.Padding.tie_roundUp 33 (B : Int) (by omega) (by omega)
  rw [show Src.dtlcp.rx.roundUp = Src.tlcp.roundUp from rfl]
  simpa using this

/-- the CBC arm (SM4-CBC + HMAC-SM3 suites): length checks, `SetIV`/`CryptBlocks`, `extractPadding`, the clamp
of `n`, the MAC over `seq ‖ type ‖ version ‖ n ‖ data` and the combined MAC-and-padding test -/
theorem agree_tlcp_cbc (ext rx) (B : Nat) (iv0 : BV) (mac seq scr) (record : BV) (hm : mac.present = true) (hB : 0 < B)
    (hcl : ∀ iv s, (rx.cbcDecrypt iv s).length = s.length)
    (hs : seq.length = 8) (hlen : 5 ≤ record.length) (hbig : record.length < 2 ^ 63) :
    AgreeT ⟨.goCBC ⟨B, iv0⟩, mac, seq, scr⟩ record (record[0]'(by omega))
      (decrypt tlcpParams (absCipher ext rx ⟨.cbc B, mac, seq⟩) (seqNat seq) (toBytes record))
      (Src.tlcp.rx.halfConn.decrypt ext rx ⟨.goCBC ⟨B, iv0⟩, mac, seq, scr⟩ record) := by
  unfold Src.tlcp.rx.halfConn.decrypt Src.tlcp.rx.halfConn.explicitNonceLen
  have h0 : Go.idx record 0 = .ok record[0] := idx_ok record 0 (by omega)
  have h1 : Go.slice record 5 (record.length : Int) = .ok (record.drop 5) := slice_from record 5 hlen
  have hhs : Go.hashSize mac = .ok 32 := by
    unfold Go.hashSize; unfold Go.Hmac.present at hm
    have : ¬ mac.alg = .none := by simpa using hm
    simp [this]
  simp only [bind, pure, Except.pure, h0, h1, ok_bind, hm, slice_00, slice_all, hhs, roundUp_tlcp B hB,
    Src.tlcp.rx.goCBC.BlockSize, Src.tlcp.rx.goCBC.SetIV, Id.run]
  simp only [show (Src.tlcp.rx.Dyn.goCBC ⟨B, iv0⟩ == Src.tlcp.rx.Dyn.nil) = false from rfl,
     show (Src.tlcp.rx.Dyn.goCBC ⟨B, iv0⟩ != Src.tlcp.rx.Dyn.nil) = true from rfl, if_true, if_false, Bool.false_eq_true, ok_bind]
  simp only [decrypt, absCipher, hdrLen_tlcp, aBad_tlcp, Int.toNat_natCast, ← toBytes_drop, ← toBytes_take, toBytes_length,
    be64_seqNat seq hs, ofBytes_toBytes, show 32 + 1 = 33 from rfl]
  have hpl : (record.drop 5).length ≤ record.length := by simp
  generalize hpay : record.drop 5 = pay at hpl
  rw [modInt_nat pay.length B hB]
  simp only [ok_bind]
  have hBpos : decide ((B : Int) > 0) = true := by simp; omega
  by_cases hmod : pay.length % B ≠ 0
  · have : (((pay.length % B : Nat) : Int) != 0) = true := by simp; omega
    rw [if_pos hmod]
    simp only [this, Bool.true_or, if_true, AgreeT]
    exact ⟨record, SameFrame.rfl' _ _, rfl⟩
  · have hmod' : (((pay.length % B : Nat) : Int) != 0) = false := by simp; omega
    by_cases hshort : pay.length < B + roundUp 33 B
    · have : decide ((pay.length : Int) < (B : Int) + ((roundUp 33 B : Nat) : Int)) = true := by simp; omega
      rw [if_neg hmod, if_pos hshort]
      simp only [this, Bool.or_true, if_true, if_false, AgreeT]
      exact ⟨record, SameFrame.rfl' _ _, rfl⟩
    · have hns : decide ((pay.length : Int) < (B : Int) + ((roundUp 33 B : Nat) : Int)) = false := by simp; omega
      have h3 : Go.slice pay 0 (B : Int) = .ok (pay.take B) := slice_to _ B (by omega)
      have h4 : Go.slice pay (B : Int) (pay.length : Int) = .ok (pay.drop B) := slice_from _ B (by omega)
      have hmod0 : pay.length % B = 0 := by omega
      have hbl : (pay.drop B).length % B = 0 := by
        rw [List.length_drop, ← Nat.mod_eq_sub_mod (by omega)]; exact hmod0
      rw [if_neg hmod, if_neg hshort]
      simp only [hmod', hns, Bool.or_false, if_false, hBpos, if_true, h3, h4, ok_bind, Bool.false_eq_true,
        cryptBlocks_tlcp rx hcl B hB _ _ hbl, extractPadding_tlcp]
      have hptl : (rx.cbcDecrypt (pay.take B) (pay.drop B)).length ≤ record.length := by
        rw [hcl, List.length_drop]; omega
      generalize rx.cbcDecrypt (pay.take B) (pay.drop B) = pt at hptl
      have hpp := extractPadding_fst_le (toBytes pt)
      generalize extractPadding (toBytes pt) = pp at hpp
      by_cases hms : pt.length < 32
      · have : decide ((pt.length : Int) < 32) = true := by simp; omega
        rw [if_pos hms]
        simp only [this, if_true, AgreeT]
        exact ⟨record, SameFrame.rfl' _ _, rfl⟩
      · have hms' : decide ((pt.length : Int) < 32) = false := by simp; omega
        obtain ⟨k, hk, hk32⟩ := clamp_nat pt.length pp.1 (by omega) hpp
        have hsel := select_eq_clamp ((pt.length : Int) - 32 - (pp.1 : Int)) (by omega) (by omega)
        rw [if_neg hms]
        have hset3 : Go.set record 3 (BitVec.ofInt 8 ((k : Int) >>> 8)) = .ok (record.set 3 (BitVec.ofInt 8 ((k : Int) >>> 8))) :=
          set_ok record 3 _ (by omega)
        have hset4 : Go.set (record.set 3 (BitVec.ofInt 8 ((k : Int) >>> 8))) 4 (BitVec.ofInt 8 (k : Int)) =
            .ok ((record.set 3 (BitVec.ofInt 8 ((k : Int) >>> 8))).set 4 (BitVec.ofInt 8 (k : Int))) :=
          set_ok _ 4 _ (by simp; omega)
        have hsl5 : Go.slice ((record.set 3 (BitVec.ofInt 8 ((k : Int) >>> 8))).set 4 (BitVec.ofInt 8 (k : Int))) 0 5 =
            .ok (record.take 3 ++ [BitVec.ofInt 8 ((k : Int) >>> 8), BitVec.ofInt 8 (k : Int)]) := by
          rw [← take5_set record hlen]; exact slice_to _ 5 (by simp; omega)
        have hslr : Go.slice pt (k : Int) ((k : Int) + 32) = .ok ((pt.drop k).take 32) := by
          have := slice_int pt (k : Int) ((k : Int) + 32) k (k + 32) rfl (by omega) (by omega) (by omega)
          rw [this]; congr 2; omega
        have hsld : Go.slice pt 0 (k : Int) = .ok (pt.take k) := slice_to _ k (by omega)
        have hsle : Go.slice pt ((k : Int) + 32) (pt.length : Int) = .ok (pt.drop (k + 32)) := by
          have := slice_int pt ((k : Int) + 32) (pt.length : Int) (k + 32) pt.length (by omega) rfl (by omega) (by omega)
          rw [this, List.take_of_length_le (by simp)]
        simp only [hms', if_false, Bool.false_eq_true, hsel, Int.cast_ofNat_Int, hk, Int.toNat_natCast, hset3, hset4, hsl5,
          hslr, hsld, hsle, ok_bind, tls10MAC_tlcp, Go.constantTimeCompare]
        have hmacin : ofBytes (toBytes seq ++ (toBytes (record.take 3) ++ int16be (k : Int)) ++ toBytes (pt.take k)) =
            seq ++ (record.take 3 ++ [BitVec.ofInt 8 ((k : Int) >>> 8), BitVec.ofInt 8 (k : Int)]) ++ pt.take k := by
          rw [← int16be_src, ← toBytes_append, ← toBytes_append, ← toBytes_append, ofBytes_toBytes]
        rw [hmacin]
        simp only [toBytes_inj, andInt_cmp]
        have htn : pp.2.toBitVec.toNat = pp.2.toNat := rfl
        rw [htn]
        by_cases hc : Nat.land (if ext.hmac mac.alg mac.key (seq ++ (record.take 3 ++ [BitVec.ofInt 8 ((k : Int) >>> 8),
            BitVec.ofInt 8 (k : Int)]) ++ pt.take k) = (pt.drop k).take 32 then 1 else 0) pp.2.toNat ≠ 1
        · rw [if_pos hc]
          have : (Nat.land (if ext.hmac mac.alg mac.key (seq ++ (record.take 3 ++ [BitVec.ofInt 8 ((k : Int) >>> 8),
            BitVec.ofInt 8 (k : Int)]) ++ pt.take k) = (pt.drop k).take 32 then 1 else 0) pp.2.toNat != 1) = true := by
            simpa using hc
          simp only [this, if_true, AgreeT]
          exact ⟨_, sameFrame_set record _ _, rfl⟩
        · rw [if_neg hc]
          have : (Nat.land (if ext.hmac mac.alg mac.key (seq ++ (record.take 3 ++ [BitVec.ofInt 8 ((k : Int) >>> 8),
            BitVec.ofInt 8 (k : Int)]) ++ pt.take k) = (pt.drop k).take 32 then 1 else 0) pp.2.toNat != 1) = false := by
            simpa using hc
          simp only [this, if_false, Bool.false_eq_true, AgreeT, ofBytes_toBytes]
          exact ⟨_, sameFrame_set record _ _, rfl⟩

/-- every refusal of the model's `decrypt` carries the one alert `p.aBadMAC` -/
theorem decrypt_fail_alert (p : Params) (c : Cipher) (seq : Nat) (record : Bytes) (a : Nat) (why : DecFail)
    (h : decrypt p c seq record = .fail a why) : a = p.aBadMAC := by
  cases c with
  | none => simp [decrypt] at h
  | aead s =>
    simp only [decrypt] at h
    repeat' split at h
    all_goals (cases h <;> rfl)
  | cbc s =>
    simp only [decrypt] at h
    repeat' split at h
    all_goals (cases h <;> rfl)

theorem agree_tlcp_nil (ext rx) (mac seq scr) (record : BV) (hm : mac.present = false) (hs : seq.length = 8)
    (hlen : 5 ≤ record.length) :
    AgreeT ⟨.nil, mac, seq, scr⟩ record (record[0]'(by omega))
      (decrypt tlcpParams (absCipher ext rx ⟨.none, mac, seq⟩) (seqNat seq) (toBytes record))
      (Src.tlcp.rx.halfConn.decrypt ext rx ⟨.nil, mac, seq, scr⟩ record) := by
  rw [decrypt_tlcp_nil ext rx mac seq scr record hm hs hlen]
  simp only [decrypt, absCipher, hdrLen_tlcp, ← toBytes_drop, AgreeT, ofBytes_toBytes]
  exact ⟨record, SameFrame.rfl' _ _, rfl⟩

/-- the translated tlcp `decrypt` agrees with the model (up to `incSeq`) in every well-formed state -/
theorem agree_tlcp (ext : Go.Extern) (rx : Go.RxExtern) (hc : Src.tlcp.rx.halfConn) (record : BV)
    (wf : WellFormed rx hc) (hlen : 5 ≤ record.length) (hbig : record.length < 2 ^ 63) :
    AgreeT hc record (record[0]'(by omega))
      (decrypt tlcpParams (absCipher ext rx hc) (seqNat hc.seq) (toBytes record))
      (Src.tlcp.rx.halfConn.decrypt ext rx hc record) := by
  obtain ⟨ci, mac, seq, scr⟩ := hc
  obtain ⟨hs, hcl, hsh⟩ := wf
  cases ci with
  | nil => exact agree_tlcp_nil ext rx mac seq scr record hsh hs hlen
  | goStream s => exact absurd hsh (by simp [viewT])
  | goAEAD a =>
    obtain ⟨ov, no⟩ := a
    obtain ⟨hm, hn, ho⟩ := hsh
    simp only [viewT] at hn ho hm
    obtain ⟨N, rfl⟩ := Int.eq_ofNat_of_zero_le hn
    obtain ⟨O, rfl⟩ := Int.eq_ofNat_of_zero_le ho
    exact agree_tlcp_aead ext rx N O mac seq scr record hm hs hlen
  | goCBC c =>
    obtain ⟨bs, iv0⟩ := c
    obtain ⟨hm, hb⟩ := hsh
    simp only [viewT] at hm hb
    obtain ⟨B, rfl⟩ := Int.eq_ofNat_of_zero_le (Int.le_of_lt hb)
    exact agree_tlcp_cbc ext rx B iv0 mac seq scr record hm (by omega) hcl hs hlen hbig

/-- **tlcp `halfConn.decrypt` = the model**, every well-formed state, every record of at least a header:
no panic but `incSeq`'s at 2^64 - 1; plaintext, record type, error and the new sequence number are the model's -/
theorem tie_decrypt_tlcp (ext : Go.Extern) (rx : Go.RxExtern) (hc : Src.tlcp.rx.halfConn) (record : BV)
    (wf : WellFormed rx hc) (hlen : 5 ≤ record.length) (hbig : record.length < 2 ^ 63) :
    match decrypt tlcpParams (absCipher ext rx hc) (seqNat hc.seq) (toBytes record) with
    | .ok pt =>
      if seqNat hc.seq + 1 < 2 ^ 64 then
        ∃ rec', SameFrame 5 record rec' ∧
          Src.tlcp.rx.halfConn.decrypt ext rx hc record =
            .ok ({ hc with seq := ofBytes (be64 (seqNat hc.seq + 1)) }, rec', ofBytes pt, record[0]'(by omega), none)
      else Src.tlcp.rx.halfConn.decrypt ext rx hc record = .error "panic: tlcp: sequence number wraparound"
    | .fail a _ =>
      a = 20 ∧ ∃ rec', SameFrame 5 record rec' ∧
        Src.tlcp.rx.halfConn.decrypt ext rx hc record = .ok (hc, rec', [], 0#8, some (.alert 20#8)) := by
  have hag := agree_tlcp ext rx hc record wf hlen hbig
  have hinc := incSeq_tlcp_num hc wf.seqLen
  cases hd : decrypt tlcpParams (absCipher ext rx hc) (seqNat hc.seq) (toBytes record) with
  | ok pt =>
    rw [hd] at hag
    obtain ⟨rec', hf, hr⟩ := hag
    simp only
    by_cases hw : seqNat hc.seq + 1 < 2 ^ 64
    · simp only [hw, if_true] at hinc ⊢
      refine ⟨rec', hf, ?_⟩
      rw [hr, hinc]; rfl
    · simp only [hw, if_false] at hinc ⊢
      rw [hr, hinc]; rfl
  | fail a why =>
    rw [hd] at hag
    obtain ⟨rec', hf, hr⟩ := hag
    have ha : a = 20 := decrypt_fail_alert _ _ _ _ _ _ hd
    subst ha
    exact ⟨rfl, rec', hf, hr⟩

/-- a record shorter than its header: `record[0]` / `record[recordHeaderLen:]` panic in Go (slice bounds out of
range) and the translation returns `Except.error`.  Never reached: `readRecordOrCCS` reads the whole header
(`readFromUntil(c.conn, recordHeaderLen)`) before it hands `record` to `decrypt`. -/
theorem decrypt_tlcp_short (ext : Go.Extern) (rx : Go.RxExtern) (hc : Src.tlcp.rx.halfConn) (record : BV)
    (hlen : record.length < 5) : ∃ e, Src.tlcp.rx.halfConn.decrypt ext rx hc record = .error e := by
  unfold Src.tlcp.rx.halfConn.decrypt
  have hsl : Go.slice record 5 (record.length : Int) = .error "slice bounds out of range" := by
    unfold Go.slice
    have : (5 : Int) < 0 ∨ (record.length : Int) < 5 ∨ (record.length : Int) < (record.length : Int) := by omega
    rw [if_pos this]
  cases hi : Go.idx record 0 with
  | error e => exact ⟨e, by simp only [bind, Except.bind, hi]⟩
  | ok t => exact ⟨"slice bounds out of range", by simp only [bind, Except.bind, hi, hsl]⟩

section NonVacuity
/-- toy primitives: CBC "decryption" is the identity, every MAC is 32 bytes `07`, the AEAD opens
exactly the ciphertexts that start with `aa` and returns the rest -/
def toyExt : Go.Extern := ⟨fun _ _ _ => List.replicate 32 7#8⟩
def toyRx : Go.RxExtern :=
  { xorKeyStream := id, aeadOk := fun _ ct _ => ct.head? == some 0xaa#8, aeadPlain := fun _ ct _ => ct.drop 1,
    cbcDecrypt := fun _ s => s, nonNil := fun l => !l.isEmpty }
def toyCbcT : Src.tlcp.rx.halfConn :=
  { cipher := .goCBC { blockSize := 16, iv := [] }, mac := { alg := .sm3, key := [1#8] } }
def toyAeadT : Src.tlcp.rx.halfConn :=
  { cipher := .goAEAD { overhead := 16, nonce := 8 }, mac := { alg := .none } }
-- header ‖ IV (16) ‖ 15 data bytes ‖ MAC (32) ‖ padding `00`
def toyCbcRecord : BV := [23#8, 1#8, 1#8, 0#8, 64#8] ++ List.replicate 16 0#8 ++ List.replicate 15 9#8 ++ List.replicate 32 7#8 ++ [0#8]
-- header ‖ explicit nonce (8) ‖ `aa` ‖ 3 plaintext bytes
def toyAeadRecord : BV := [23#8, 1#8, 1#8, 0#8, 12#8] ++ List.replicate 8 0#8 ++ [0xaa#8, 1#8, 2#8, 3#8]

theorem toyCbcT_wf : WellFormed toyRx toyCbcT :=
  ⟨rfl, fun _ _ => rfl, ⟨rfl, by decide⟩⟩
theorem toyAeadT_wf : WellFormed toyRx toyAeadT :=
  ⟨rfl, fun _ _ => rfl, ⟨rfl, by decide, by decide⟩⟩

-- the translated function itself, evaluated (`toOption`: `Except` has no `DecidableEq`; `none` would be a panic):
-- new sequence number, plaintext, record type, error
set_option maxRecDepth 20000 in
example : (Src.tlcp.rx.halfConn.decrypt toyExt toyRx toyCbcT toyCbcRecord).toOption.map (fun r => (r.1.seq, r.2.2)) =
    some ([0#8, 0#8, 0#8, 0#8, 0#8, 0#8, 0#8, 1#8], List.replicate 15 9#8, 23#8, none) := by decide
set_option maxRecDepth 20000 in
example : (Src.tlcp.rx.halfConn.decrypt toyExt toyRx toyCbcT (toyCbcRecord.set 42 8#8)).toOption.map (fun r => (r.1.seq, r.2.2)) =
    some (List.replicate 8 0#8, [], 0#8, some (.alert 20#8)) := by decide   -- a damaged MAC byte
set_option maxRecDepth 20000 in
example : (Src.tlcp.rx.halfConn.decrypt toyExt toyRx toyCbcT (toyCbcRecord.set 68 1#8)).toOption.map (fun r => (r.1.seq, r.2.2)) =
    some (List.replicate 8 0#8, [], 0#8, some (.alert 20#8)) := by decide   -- damaged padding: the same answer
set_option maxRecDepth 20000 in
example : (Src.tlcp.rx.halfConn.decrypt toyExt toyRx toyAeadT toyAeadRecord).toOption.map (fun r => (r.1.seq, r.2.2)) =
    some ([0#8, 0#8, 0#8, 0#8, 0#8, 0#8, 0#8, 1#8], [1#8, 2#8, 3#8], 23#8, none) := by decide
set_option maxRecDepth 20000 in
example : (Src.tlcp.rx.halfConn.decrypt toyExt toyRx { toyAeadT with seq := List.replicate 8 255#8 } toyAeadRecord).toOption = none := by
  decide   -- the sequence number wrap-around panic
-- … and the theorem instantiated: hypotheses satisfiable, conclusion about a concrete record
example : ∃ rec', Src.tlcp.rx.halfConn.decrypt toyExt toyRx toyCbcT toyCbcRecord =
    .ok ({ toyCbcT with seq := [0#8, 0#8, 0#8, 0#8, 0#8, 0#8, 0#8, 1#8] }, rec', List.replicate 15 9#8, 23#8, none) := by
  have h := tie_decrypt_tlcp toyExt toyRx toyCbcT toyCbcRecord toyCbcT_wf (by decide) (by decide)
  have hm : decrypt tlcpParams (absCipher toyExt toyRx toyCbcT) (seqNat toyCbcT.seq) (toBytes toyCbcRecord) =
      .ok (List.replicate 15 9) := by decide
  rw [hm] at h
  have hlt : seqNat toyCbcT.seq + 1 < 2 ^ 64 := by decide
  simp only [hlt, if_true] at h
  obtain ⟨rec', _, hr⟩ := h
  exact ⟨rec', hr⟩
end NonVacuity

/-! ## dtlcp -/

/-- the model's parameters for the datagram stack.  `decrypt` reads `hdrLen` (13: type, version, epoch,
48-bit sequence number, length) and `aBadMAC` only; the other fields are the dtlcp constants of the same
names (the stream-specific parts of `Model.RecordRx` — `rx`, `pump`, `readCall` — are not used for dtlcp,
whose receive loop is `Model.DtlcpRx*`) -/
def dtlcpParams : Params :=
  { maxCiphertext := Facts.dtlcp.maxCiphertext, maxPlaintext := Facts.dtlcp.maxPlaintext,
    maxUseless := Facts.dtlcp.maxUselessRecords, hdrLen := Facts.dtlcp.recordHeaderLen,
    tCCS := Facts.dtlcp.recordTypeChangeCipherSpec, tAlert := Facts.dtlcp.recordTypeAlert,
    tHandshake := Facts.dtlcp.recordTypeHandshake, tApp := Facts.dtlcp.recordTypeApplicationData,
    lvlWarning := Facts.dtlcp.alertLevelWarning, lvlError := Facts.dtlcp.alertLevelError,
    aCloseNotify := Facts.dtlcp.alertCloseNotify, aUnexpected := Facts.dtlcp.alertUnexpectedMessage,
    aBadMAC := Facts.dtlcp.alertBadRecordMAC, aOverflow := Facts.dtlcp.alertRecordOverflow,
    aDecodeError := Facts.dtlcp.alertDecodeError, aProtoVersion := Facts.dtlcp.alertProtocolVersion,
    aInternal := Facts.dtlcp.alertInternalError, aNoRenegotiation := Facts.dtlcp.alertNoRenegotiation,
    vers := Facts.dtlcp.VersionTLCP, postHsRefused := false }

theorem hdrLen_dtlcp : dtlcpParams.hdrLen = 13 := rfl
theorem aBad_dtlcp : dtlcpParams.aBadMAC = 20 := rfl

abbrev ResD := Except String (BV × BitVec 8 × Option Go.Error)

/-- "the translated dtlcp `decrypt` returned what the model says" (there is no `incSeq`: the sequence number
is explicit in the record header and `hc.seq` is loaded by the caller) -/
def AgreeD (typ : BitVec 8) (o : DecOut) (r : ResD) : Prop :=
  match o with
  | .ok pt => r = .ok (ofBytes pt, typ, none)
  | .fail a _ => r = .ok ([], 0#8, some (.alert (BitVec.ofNat 8 a)))

theorem open_dtlcp (rx) (a : Src.dtlcp.rx.goAEAD) (nonce ct ad : BV) :
    Src.dtlcp.rx.goAEAD.Open rx a [] nonce ct ad =
      if rx.aeadOk nonce ct ad = true then (rx.aeadPlain nonce ct ad, none) else ([], some Go.Error.other) := by
  unfold Src.dtlcp.rx.goAEAD.Open
  simp only [Id.run, pure, List.nil_append]
  cases rx.aeadOk nonce ct ad <;> rfl

theorem agree_dtlcp_nil (ext rx) (mac seq scr) (record : BV) (hm : mac.present = false)
    (hlen : 13 ≤ record.length) :
    AgreeD (record[0]'(by omega))
      (decrypt dtlcpParams (absCipher ext rx ⟨.none, mac, seq⟩) (seqNat seq) (toBytes record))
      (Src.dtlcp.rx.halfConn.decrypt ext rx ⟨.nil, mac, seq, scr⟩ record) := by
  unfold Src.dtlcp.rx.halfConn.decrypt Src.dtlcp.rx.halfConn.explicitNonceLen
  have h0 : Go.idx record 0 = .ok record[0] := idx_ok record 0 (by omega)
  have h1 : Go.slice record 13 (record.length : Int) = .ok (record.drop 13) := slice_from record 13 hlen
  simp only [bind, pure, Except.pure, h0, h1, ok_bind, hm]
  simp only [decrypt, absCipher, hdrLen_dtlcp, ← toBytes_drop, AgreeD, ofBytes_toBytes]
  simp [ok_bind]

/-- the AEAD arm -/
theorem agree_dtlcp_aead (ext rx) (N O : Nat) (mac seq scr) (record : BV) (hm : mac.present = false)
    (hs : seq.length = 8) (hlen : 13 ≤ record.length) :
    AgreeD (record[0]'(by omega))
      (decrypt dtlcpParams (absCipher ext rx ⟨.aead N O, mac, seq⟩) (seqNat seq) (toBytes record))
      (Src.dtlcp.rx.halfConn.decrypt ext rx ⟨.goAEAD ⟨O, N⟩, mac, seq, scr⟩ record) := by
  unfold Src.dtlcp.rx.halfConn.decrypt Src.dtlcp.rx.halfConn.explicitNonceLen
  have h0 : Go.idx record 0 = .ok record[0] := idx_ok record 0 (by omega)
  have hr1 : Go.idx record 1 = .ok record[1] := idx_ok record 1 (by omega)
  have hr2 : Go.idx record 2 = .ok record[2] := idx_ok record 2 (by omega)
  have h1 : Go.slice record 13 (record.length : Int) = .ok (record.drop 13) := slice_from record 13 hlen
  simp only [bind, pure, Except.pure, h0, hr1, hr2, h1, ok_bind, hm, slice_00, slice_all,
    Src.dtlcp.rx.goAEAD.explicitNonceLen, Src.dtlcp.rx.goAEAD.Overhead, Id.run]
  simp only [show (Src.dtlcp.rx.Dyn.goAEAD ⟨O, N⟩ == Src.dtlcp.rx.Dyn.nil) = false from rfl,
     show (Src.dtlcp.rx.Dyn.goAEAD ⟨O, N⟩ != Src.dtlcp.rx.Dyn.nil) = true from rfl, if_true, if_false, Bool.false_eq_true, ok_bind]
  simp only [decrypt, absCipher, hdrLen_dtlcp, aBad_dtlcp, Int.toNat_natCast, ← toBytes_drop, ← toBytes_take, toBytes_length,
    be64_seqNat seq hs, ofBytes_toBytes]
  by_cases hshort : (record.drop 13).length < N
  · have : ((record.drop 13).length : Int) < (N : Int) := by omega
    simp only [hshort, this, decide_true, if_true, AgreeD]
  · have hn : ¬ ((record.drop 13).length : Int) < (N : Int) := by omega
    have h3 : Go.slice (record.drop 13) 0 (N : Int) = .ok ((record.drop 13).take N) := slice_to _ N (by omega)
    have h4 : Go.slice (record.drop 13) (N : Int) ((record.drop 13).length : Int) = .ok ((record.drop 13).drop N) :=
      slice_from _ N (by omega)
    simp only [hshort, hn, decide_false, if_false, Bool.false_eq_true, h3, h4, ok_bind]
    generalize record.drop 13 = pay
    have had : ofBytes (toBytes seq ++ toBytes (record.take 3) ++ int16be (((pay.drop N).length : Int) - (O : Int))) =
        [] ++ seq ++ [record[0]] ++ [record[1], record[2]] ++ [BitVec.ofInt 8 ((((pay.drop N).length : Int) - (O : Int)) >>> 8),
          BitVec.ofInt 8 (((pay.drop N).length : Int) - (O : Int))] := by
      rw [← int16be_src, ← toBytes_append, ← toBytes_append, ofBytes_toBytes, List.nil_append]
      have := hdr3 record (by omega) (BitVec.ofInt 8 ((((pay.drop N).length : Int) - (O : Int)) >>> 8))
        (BitVec.ofInt 8 (((pay.drop N).length : Int) - (O : Int)))
      simp only [List.append_assoc, List.cons_append, List.nil_append] at this ⊢
      rw [← this]
    rw [had]
    have hnonce : ofBytes (if (pay.take N).length = 0 then toBytes seq else toBytes (pay.take N)) =
        if (pay.take N).length = 0 then seq else pay.take N := by
      split <;> simp
    rw [hnonce]
    by_cases he : (pay.take N).length = 0
    · have he' : (((pay.take N).length : Int) == 0) = true := by simp [he]
      simp only [he', if_true, open_dtlcp]
      simp only [he, if_true]
      by_cases hok : rx.aeadOk seq (pay.drop N) ([] ++ seq ++ [record[0]] ++ [record[1], record[2]] ++
          [BitVec.ofInt 8 ((((pay.drop N).length : Int) - (O : Int)) >>> 8), BitVec.ofInt 8 (((pay.drop N).length : Int) - (O : Int))]) = true
      · simp only [hok, if_true, AgreeD, Option.isSome_none, Bool.false_eq_true, if_false, ofBytes_toBytes, Bool.not_true]
      · simp only [hok, if_false, AgreeD, Option.isSome_some, if_true, Bool.not_false, Bool.not_eq_true, Bool.false_eq_true]
    · have he' : ¬ (((pay.take N).length : Int) == 0) = true := by simpa using he
      simp only [he', if_false, open_dtlcp]
      simp only [he, if_false]
      by_cases hok : rx.aeadOk (pay.take N) (pay.drop N) ([] ++ seq ++ [record[0]] ++ [record[1], record[2]] ++
          [BitVec.ofInt 8 ((((pay.drop N).length : Int) - (O : Int)) >>> 8), BitVec.ofInt 8 (((pay.drop N).length : Int) - (O : Int))]) = true
      · simp only [hok, if_true, AgreeD, Option.isSome_none, Bool.false_eq_true, if_false, ofBytes_toBytes, Bool.not_true]
      · simp only [hok, if_false, AgreeD, Option.isSome_some, if_true, Bool.not_false, Bool.not_eq_true, Bool.false_eq_true]

/-- the CBC arm -/
theorem agree_dtlcp_cbc (ext rx) (B : Nat) (iv0 : BV) (mac seq scr) (record : BV) (hm : mac.present = true) (hB : 0 < B)
    (hcl : ∀ iv s, (rx.cbcDecrypt iv s).length = s.length)
    (hs : seq.length = 8) (hlen : 13 ≤ record.length) (hbig : record.length < 2 ^ 63) :
    AgreeD (record[0]'(by omega))
      (decrypt dtlcpParams (absCipher ext rx ⟨.cbc B, mac, seq⟩) (seqNat seq) (toBytes record))
      (Src.dtlcp.rx.halfConn.decrypt ext rx ⟨.goCBC ⟨B, iv0⟩, mac, seq, scr⟩ record) := by
  unfold Src.dtlcp.rx.halfConn.decrypt Src.dtlcp.rx.halfConn.explicitNonceLen
  have h0 : Go.idx record 0 = .ok record[0] := idx_ok record 0 (by omega)
  have hr1 : Go.idx record 1 = .ok record[1] := idx_ok record 1 (by omega)
  have hr2 : Go.idx record 2 = .ok record[2] := idx_ok record 2 (by omega)
  have h1 : Go.slice record 13 (record.length : Int) = .ok (record.drop 13) := slice_from record 13 hlen
  have hhs : Go.hashSize mac = .ok 32 := by
    unfold Go.hashSize; unfold Go.Hmac.present at hm
    have : ¬ mac.alg = .none := by simpa using hm
    simp [this]
  simp only [bind, pure, Except.pure, h0, hr1, hr2, h1, ok_bind, hm, slice_00, slice_all, hhs, roundUp_dtlcp B hB,
    Src.dtlcp.rx.goCBC.BlockSize, Src.dtlcp.rx.goCBC.SetIV, Id.run]
  simp only [show (Src.dtlcp.rx.Dyn.goCBC ⟨B, iv0⟩ == Src.dtlcp.rx.Dyn.nil) = false from rfl,
     show (Src.dtlcp.rx.Dyn.goCBC ⟨B, iv0⟩ != Src.dtlcp.rx.Dyn.nil) = true from rfl, if_true, if_false, Bool.false_eq_true, ok_bind]
  simp only [decrypt, absCipher, hdrLen_dtlcp, aBad_dtlcp, Int.toNat_natCast, ← toBytes_drop, ← toBytes_take, toBytes_length,
    be64_seqNat seq hs, ofBytes_toBytes, show 32 + 1 = 33 from rfl]
  have hpl : (record.drop 13).length ≤ record.length := by simp
  generalize hpay : record.drop 13 = pay at hpl
  rw [modInt_nat pay.length B hB]
  simp only [ok_bind]
  have hBpos : decide ((B : Int) > 0) = true := by simp; omega
  by_cases hmod : pay.length % B ≠ 0
  · have : (((pay.length % B : Nat) : Int) != 0) = true := by simp; omega
    rw [if_pos hmod]
    simp only [this, Bool.true_or, if_true, AgreeD]
  · have hmod' : (((pay.length % B : Nat) : Int) != 0) = false := by simp; omega
    by_cases hshort : pay.length < B + roundUp 33 B
    · have : decide ((pay.length : Int) < (B : Int) + ((roundUp 33 B : Nat) : Int)) = true := by simp; omega
      rw [if_neg hmod, if_pos hshort]
      simp only [this, Bool.or_true, if_true, if_false, AgreeD]
    · have hns : decide ((pay.length : Int) < (B : Int) + ((roundUp 33 B : Nat) : Int)) = false := by simp; omega
      have h3 : Go.slice pay 0 (B : Int) = .ok (pay.take B) := slice_to _ B (by omega)
      have h4 : Go.slice pay (B : Int) (pay.length : Int) = .ok (pay.drop B) := slice_from _ B (by omega)
      have hmod0 : pay.length % B = 0 := by omega
      have hbl : (pay.drop B).length % B = 0 := by
        rw [List.length_drop, ← Nat.mod_eq_sub_mod (by omega)]; exact hmod0
      rw [if_neg hmod, if_neg hshort]
      simp only [hmod', hns, Bool.or_false, if_false, hBpos, if_true, h3, h4, ok_bind, Bool.false_eq_true,
        cryptBlocks_dtlcp rx hcl B hB _ _ hbl, extractPadding_dtlcp]
      have hptl : (rx.cbcDecrypt (pay.take B) (pay.drop B)).length ≤ record.length := by
        rw [hcl, List.length_drop]; omega
      generalize rx.cbcDecrypt (pay.take B) (pay.drop B) = pt at hptl
      have hpp := extractPadding_fst_le (toBytes pt)
      generalize extractPadding (toBytes pt) = pp at hpp
      by_cases hms : pt.length < 32
      · have : decide ((pt.length : Int) < 32) = true := by simp; omega
        rw [if_pos hms]
        simp only [this, if_true, AgreeD]
      · have hms' : decide ((pt.length : Int) < 32) = false := by simp; omega
        obtain ⟨k, hk, hk32⟩ := clamp_nat pt.length pp.1 (by omega) hpp
        have hsel := select_eq_clamp ((pt.length : Int) - 32 - (pp.1 : Int)) (by omega) (by omega)
        rw [if_neg hms]
        have hslr : Go.slice pt (k : Int) ((k : Int) + 32) = .ok ((pt.drop k).take 32) := by
          have := slice_int pt (k : Int) ((k : Int) + 32) k (k + 32) rfl (by omega) (by omega) (by omega)
          rw [this]; congr 2; omega
        have hsld : Go.slice pt 0 (k : Int) = .ok (pt.take k) := slice_to _ k (by omega)
        have hsle : Go.slice pt ((k : Int) + 32) (pt.length : Int) = .ok (pt.drop (k + 32)) := by
          have := slice_int pt ((k : Int) + 32) (pt.length : Int) (k + 32) pt.length (by omega) rfl (by omega) (by omega)
          rw [this, List.take_of_length_le (by simp)]
        simp only [hms', if_false, Bool.false_eq_true, hsel, Int.cast_ofNat_Int, hk, Int.toNat_natCast,
          hslr, hsld, hsle, ok_bind, tls10MAC_dtlcp, Go.constantTimeCompare, hdr3 record (by omega)]
        have hmacin : ofBytes (toBytes seq ++ (toBytes (record.take 3) ++ int16be (k : Int)) ++ toBytes (pt.take k)) =
            seq ++ (record.take 3 ++ [BitVec.ofInt 8 ((k : Int) >>> 8), BitVec.ofInt 8 (k : Int)]) ++ pt.take k := by
          rw [← int16be_src, ← toBytes_append, ← toBytes_append, ← toBytes_append, ofBytes_toBytes]
        rw [hmacin]
        simp only [toBytes_inj, andInt_cmp]
        have htn : pp.2.toBitVec.toNat = pp.2.toNat := rfl
        rw [htn]
        by_cases hc : Nat.land (if ext.hmac mac.alg mac.key (seq ++ (record.take 3 ++ [BitVec.ofInt 8 ((k : Int) >>> 8),
            BitVec.ofInt 8 (k : Int)]) ++ pt.take k) = (pt.drop k).take 32 then 1 else 0) pp.2.toNat ≠ 1
        · rw [if_pos hc]
          have : (Nat.land (if ext.hmac mac.alg mac.key (seq ++ (record.take 3 ++ [BitVec.ofInt 8 ((k : Int) >>> 8),
            BitVec.ofInt 8 (k : Int)]) ++ pt.take k) = (pt.drop k).take 32 then 1 else 0) pp.2.toNat != 1) = true := by
            simpa using hc
          simp only [this, if_true, AgreeD]
        · rw [if_neg hc]
          have : (Nat.land (if ext.hmac mac.alg mac.key (seq ++ (record.take 3 ++ [BitVec.ofInt 8 ((k : Int) >>> 8),
            BitVec.ofInt 8 (k : Int)]) ++ pt.take k) = (pt.drop k).take 32 then 1 else 0) pp.2.toNat != 1) = false := by
            simpa using hc
          simp only [this, if_false, Bool.false_eq_true, AgreeD, ofBytes_toBytes]

theorem agree_dtlcp (ext : Go.Extern) (rx : Go.RxExtern) (hc : Src.dtlcp.rx.halfConn) (record : BV)
    (wf : WellFormed rx hc) (hlen : 13 ≤ record.length) (hbig : record.length < 2 ^ 63) :
    AgreeD (record[0]'(by omega))
      (decrypt dtlcpParams (absCipher ext rx hc) (seqNat hc.seq) (toBytes record))
      (Src.dtlcp.rx.halfConn.decrypt ext rx hc record) := by
  obtain ⟨ci, mac, seq, scr⟩ := hc
  obtain ⟨hs, hcl, hsh⟩ := wf
  cases ci with
  | nil => exact agree_dtlcp_nil ext rx mac seq scr record hsh hlen
  | goStream s => exact absurd hsh (by simp [viewD])
  | goAEAD a =>
    obtain ⟨ov, no⟩ := a
    obtain ⟨hm, hn, ho⟩ := hsh
    simp only [viewD] at hn ho hm
    obtain ⟨N, rfl⟩ := Int.eq_ofNat_of_zero_le hn
    obtain ⟨O, rfl⟩ := Int.eq_ofNat_of_zero_le ho
    exact agree_dtlcp_aead ext rx N O mac seq scr record hm hs hlen
  | goCBC c =>
    obtain ⟨bs, iv0⟩ := c
    obtain ⟨hm, hb⟩ := hsh
    simp only [viewD] at hm hb
    obtain ⟨B, rfl⟩ := Int.eq_ofNat_of_zero_le (Int.le_of_lt hb)
    exact agree_dtlcp_cbc ext rx B iv0 mac seq scr record hm (by omega) hcl hs hlen hbig

/-- **dtlcp `halfConn.decrypt` = the model** instantiated with the 13-byte header (`dtlcpParams`): no panic at
all (the datagram stack has no `incSeq`), plaintext, record type and error are the model's.  The MAC header /
additional data `record[0], record[1], record[2], byte(n>>8), byte(n)` is the model's `record.take 3 ++ int16be n`. -/
theorem tie_decrypt_dtlcp (ext : Go.Extern) (rx : Go.RxExtern) (hc : Src.dtlcp.rx.halfConn) (record : BV)
    (wf : WellFormed rx hc) (hlen : 13 ≤ record.length) (hbig : record.length < 2 ^ 63) :
    match decrypt dtlcpParams (absCipher ext rx hc) (seqNat hc.seq) (toBytes record) with
    | .ok pt => Src.dtlcp.rx.halfConn.decrypt ext rx hc record = .ok (ofBytes pt, record[0]'(by omega), none)
    | .fail a _ =>
      a = 20 ∧ Src.dtlcp.rx.halfConn.decrypt ext rx hc record = .ok ([], 0#8, some (.alert 20#8)) := by
  have hag := agree_dtlcp ext rx hc record wf hlen hbig
  cases hd : decrypt dtlcpParams (absCipher ext rx hc) (seqNat hc.seq) (toBytes record) with
  | ok pt => rw [hd] at hag; exact hag
  | fail a why =>
    rw [hd] at hag
    have ha : a = 20 := decrypt_fail_alert _ _ _ _ _ _ hd
    subst ha
    exact ⟨rfl, hag⟩

/-- records shorter than the 13-byte header panic (`record[recordHeaderLen:]`); `readRecordOrCCS` of dtlcp checks
`len(buf) < recordHeaderLen` and the record length before it calls `decrypt` -/
theorem decrypt_dtlcp_short (ext : Go.Extern) (rx : Go.RxExtern) (hc : Src.dtlcp.rx.halfConn) (record : BV)
    (hlen : record.length < 13) : ∃ e, Src.dtlcp.rx.halfConn.decrypt ext rx hc record = .error e := by
  unfold Src.dtlcp.rx.halfConn.decrypt
  have hsl : Go.slice record 13 (record.length : Int) = .error "slice bounds out of range" := by
    unfold Go.slice
    have : (13 : Int) < 0 ∨ (record.length : Int) < 13 ∨ (record.length : Int) < (record.length : Int) := by omega
    rw [if_pos this]
  cases hi : Go.idx record 0 with
  | error e => exact ⟨e, by simp only [bind, Except.bind, hi]⟩
  | ok t => exact ⟨"slice bounds out of range", by simp only [bind, Except.bind, hi, hsl]⟩

section NonVacuity
def toyCbcD : Src.dtlcp.rx.halfConn :=
  { cipher := .goCBC { blockSize := 16, iv := [] }, mac := { alg := .sm3, key := [1#8] },
    seq := [0#8, 1#8, 0#8, 0#8, 0#8, 0#8, 0#8, 5#8] }
def toyAeadD : Src.dtlcp.rx.halfConn :=
  { cipher := .goAEAD { overhead := 16, nonce := 8 }, mac := { alg := .none },
    seq := [0#8, 1#8, 0#8, 0#8, 0#8, 0#8, 0#8, 5#8] }
-- 13-byte header (type, version, epoch 1, sequence 5, length) ‖ IV ‖ 15 data bytes ‖ MAC ‖ padding `00`
def toyCbcRecordD : BV := [23#8, 1#8, 1#8, 0#8, 1#8, 0#8, 0#8, 0#8, 0#8, 0#8, 5#8, 0#8, 64#8] ++
  List.replicate 16 0#8 ++ List.replicate 15 9#8 ++ List.replicate 32 7#8 ++ [0#8]
def toyAeadRecordD : BV := [23#8, 1#8, 1#8, 0#8, 1#8, 0#8, 0#8, 0#8, 0#8, 0#8, 5#8, 0#8, 12#8] ++
  List.replicate 8 0#8 ++ [0xaa#8, 1#8, 2#8, 3#8]

theorem toyCbcD_wf : WellFormed toyRx toyCbcD := ⟨rfl, fun _ _ => rfl, ⟨rfl, by decide⟩⟩
theorem toyAeadD_wf : WellFormed toyRx toyAeadD := ⟨rfl, fun _ _ => rfl, ⟨rfl, by decide, by decide⟩⟩

set_option maxRecDepth 20000 in
example : (Src.dtlcp.rx.halfConn.decrypt toyExt toyRx toyCbcD toyCbcRecordD).toOption =
    some (List.replicate 15 9#8, 23#8, none) := by decide
set_option maxRecDepth 20000 in
example : (Src.dtlcp.rx.halfConn.decrypt toyExt toyRx toyCbcD (toyCbcRecordD.set 50 8#8)).toOption =
    some ([], 0#8, some (.alert 20#8)) := by decide   -- a damaged MAC byte
set_option maxRecDepth 20000 in
example : (Src.dtlcp.rx.halfConn.decrypt toyExt toyRx toyCbcD (toyCbcRecordD.set 76 1#8)).toOption =
    some ([], 0#8, some (.alert 20#8)) := by decide   -- damaged padding: the same answer
set_option maxRecDepth 20000 in
example : (Src.dtlcp.rx.halfConn.decrypt toyExt toyRx toyAeadD toyAeadRecordD).toOption =
    some ([1#8, 2#8, 3#8], 23#8, none) := by decide
-- the theorem instantiated (hypotheses satisfiable, a concrete conclusion)
example : Src.dtlcp.rx.halfConn.decrypt toyExt toyRx toyAeadD toyAeadRecordD = .ok ([1#8, 2#8, 3#8], 23#8, none) := by
  have h := tie_decrypt_dtlcp toyExt toyRx toyAeadD toyAeadRecordD toyAeadD_wf (by decide) (by decide)
  have hm : decrypt dtlcpParams (absCipher toyExt toyRx toyAeadD) (seqNat toyAeadD.seq) (toBytes toyAeadRecordD) =
      .ok [1, 2, 3] := by decide
  rw [hm] at h
  exact h
end NonVacuity
end Gotlcp.Tie.RecordRxSrc

/-
Tie by translation, part "Small" of the cryptobyte-based decoders (DESIGN.md 12.4):
`finishedMsg.unmarshal`, `certificateVerifyMsg.unmarshal` of tlcp, and `readUint64` (both stacks).
The dtlcp decoders are in `Gotlcp.Tie.CodecSmallDtlcp`.

The definitions `Gotlcp.Src.tlcp.codec.*` are regenerated from tlcp/handshake_messages.go by
`harness/cmd/go2lean` on every run; `cryptobyte.String` is the stub `cbString` whose methods are
specified in `Gotlcp.Tie.CbString` (`lpSpec` = a length-prefixed read).  For EVERY receiver and EVERY
byte string:

  * `finished_eq`, `certificateVerify_eq`: the translated decoder returns `.ok (closed form)` — it
    never panics (there is no loop in these two);
  * `model_finished`, `model_certificateVerify`: the closed form is the C14 codec model
    (`Gotlcp.Model.Codec.unmarshalFinished / unmarshalCertificateVerify codesT`) on the same bytes;
  * `tie_codec_finished`, `tie_codec_certificateVerify`: the two combined (`Agree`);
  * `lp8_model`, `lp16_model`, `lp24_model`: `lpSpec s out k` is the model's `readVec8/16/24`;
  * `readUint64_eq`: `readUint64` reads two big-endian 32-bit halves; when only the first half is
    there the String is left four bytes shorter (as the library does) and `out` is untouched.

Core Lean only.
-/
import Gotlcp.Tie.CbString
import Gotlcp.Tie.UnmarshalTlcpCodec

set_option linter.unusedSimpArgs false
set_option linter.unusedVariables false

namespace Gotlcp.Tie.CodecSmall
open Gotlcp Gotlcp.Wire Gotlcp.Wire.Msg Gotlcp.Model.Codec
open Gotlcp.Tie.CbString
open Gotlcp.Tie.UnmarshalTlcp (complete complete_true tie_isComplete u24 u24_lt nat_or3 NoPanic)
open Gotlcp.Tie.UnmarshalTlcpCodec (abs abs_nil abs_cons abs_length abs_drop abs_take Agree model_guard nat24_abs)

/-! ## big-endian values as the length loop of `readLengthPrefixed` computes them -/

theorem or_shift (x k y : Nat) (hy : y < 2 ^ k) : x <<< k ||| y = x * 2 ^ k + y := by
  rw [← Nat.shiftLeft_add_eq_or_of_lt hy, Nat.shiftLeft_eq]

/-- one round of `length = length << 8; length = length | uint32(b)` -/
theorem step_toNat (acc : BitVec 32) (b : BitVec 8) (h : acc.toNat < 2 ^ 24) :
    ((acc <<< 8) ||| BitVec.setWidth 32 b).toNat = acc.toNat * 256 + b.toNat := by
  have hb := b.isLt
  simp only [BitVec.toNat_or, BitVec.toNat_shiftLeft, BitVec.toNat_setWidth]
  rw [Nat.mod_eq_of_lt (by omega : b.toNat < 2 ^ 32)]
  have e : acc.toNat <<< 8 % 2 ^ 32 = acc.toNat <<< 8 := by
    apply Nat.mod_eq_of_lt; rw [Nat.shiftLeft_eq]; omega
  rw [e, or_shift _ 8 _ (by omega)]

theorem be32_1 (a : BitVec 8) : (be32 [a]).toNat = a.toNat := by
  have h := step_toNat 0#32 a (by simp)
  simpa [be32] using h

theorem be32_2 (a b : BitVec 8) : (be32 [a, b]).toNat = a.toNat * 256 + b.toNat := by
  have ha := a.isLt
  have h1 := step_toNat 0#32 a (by simp)
  have h2 := step_toNat ((0#32 <<< 8) ||| BitVec.setWidth 32 a) b (by rw [h1]; simp; omega)
  rw [h1] at h2
  simpa [be32] using h2

theorem be32_3 (a b c : BitVec 8) : (be32 [a, b, c]).toNat = u24 a b c := by
  have ha := a.isLt; have hb := b.isLt
  have h1 := step_toNat 0#32 a (by simp)
  have h2 := step_toNat ((0#32 <<< 8) ||| BitVec.setWidth 32 a) b (by rw [h1]; simp; omega)
  rw [h1] at h2
  have h3 := step_toNat ((((0#32 <<< 8) ||| BitVec.setWidth 32 a) <<< 8) ||| BitVec.setWidth 32 b) c
    (by rw [h2]; simp; omega)
  rw [h2] at h3
  unfold u24
  simp only [be32, List.foldl_cons, List.foldl_nil]
  rw [h3]; simp; omega

/-! ## `lpSpec` is the model's `readVecN` -/

theorem readBytes_abs (n : Nat) (r : BV) :
    readBytes n (abs r) = if r.length < n then none else some (abs (r.take n), abs (r.drop n)) := by
  unfold readBytes
  rw [abs_length]
  by_cases h : r.length < n
  · rw [if_neg (by omega), if_pos h]
  · rw [if_pos (by omega), if_neg h, abs_take, abs_drop]

/-- `ReadUint8LengthPrefixed` = `readVec8` -/
theorem lp8_model (s out : BV) :
    readVec8 (abs s) =
      if (lpSpec s out 1).2.2 then some (abs (lpSpec s out 1).2.1, abs (lpSpec s out 1).1) else none := by
  match s with
  | [] => simp [lpSpec, readVec8, readU8]
  | a :: r =>
    simp only [lpSpec, readVec8, readU8, abs_cons, List.length_cons, List.take_succ_cons, List.take_zero,
      List.drop_succ_cons, List.drop_zero, be32_1, readBytes_abs, UInt8.toNat_ofBitVec]
    have h0 : ¬ (r.length + 1 < 1) := by omega
    simp only [h0, if_false]
    by_cases h : r.length < a.toNat <;> simp [h]

/-- `ReadUint16LengthPrefixed` = `readVec16` -/
theorem lp16_model (s out : BV) :
    readVec16 (abs s) =
      if (lpSpec s out 2).2.2 then some (abs (lpSpec s out 2).2.1, abs (lpSpec s out 2).1) else none := by
  match s with
  | [] => simp [lpSpec, readVec16, readU16]
  | [_] => simp [lpSpec, readVec16, readU16]
  | a :: b :: r =>
    simp only [lpSpec, readVec16, readU16, abs_cons, List.length_cons, List.take_succ_cons, List.take_zero,
      List.drop_succ_cons, List.drop_zero, be32_2, readBytes_abs, nat16, UInt8.toNat_ofBitVec]
    have h0 : ¬ (r.length + 1 + 1 < 2) := by omega
    simp only [h0, if_false]
    by_cases h : r.length < a.toNat * 256 + b.toNat <;> simp [h]

/-- `ReadUint24LengthPrefixed` = `readVec24` -/
theorem lp24_model (s out : BV) :
    readVec24 (abs s) =
      if (lpSpec s out 3).2.2 then some (abs (lpSpec s out 3).2.1, abs (lpSpec s out 3).1) else none := by
  match s with
  | [] => simp [lpSpec, readVec24, readU24]
  | [_] => simp [lpSpec, readVec24, readU24]
  | [_, _] => simp [lpSpec, readVec24, readU24]
  | a :: b :: c :: r =>
    simp only [lpSpec, readVec24, readU24, abs_cons, List.length_cons, List.take_succ_cons, List.take_zero,
      List.drop_succ_cons, List.drop_zero, be32_3, readBytes_abs, nat24_abs]
    have h0 : ¬ (r.length + 1 + 1 + 1 < 3) := by omega
    simp only [h0, if_false]
    by_cases h : r.length < u24 a b c <;> simp [h]

theorem isEmpty_abs (s : BV) : Model.Codec.isEmpty (abs s) = s.isEmpty := by
  cases s <;> rfl

/-! ## reading an `Agree` -/

/-- what the translated decoder accepted is what the model accepts -/
theorem agree_accept {M α : Type} {view : M → α} {r : Except String (M × Bool)} {o : Outcome α} {m' : M}
    (ha : Agree view r o) (h : r = .ok (m', true)) : o = .ok (view m') := by
  cases o with
  | ok a => obtain ⟨m2, h2, hv⟩ := ha; rw [h] at h2; cases h2; rw [hv]
  | reject => obtain ⟨m2, h2⟩ := ha; rw [h] at h2; cases h2
  | panic => exact ha.elim

/-- what the translated decoder refused the model refuses -/
theorem agree_refuse {M α : Type} {view : M → α} {r : Except String (M × Bool)} {o : Outcome α} {m' : M}
    (ha : Agree view r o) (h : r = .ok (m', false)) : o = .reject := by
  cases o with
  | ok a => obtain ⟨m2, h2, hv⟩ := ha; rw [h] at h2; cases h2
  | reject => rfl
  | panic => exact ha.elim

theorem agree_noPanic {M α : Type} {view : M → α} {r : Except String (M × Bool)} {o : Outcome α}
    (ha : Agree view r o) : ∃ x, r = .ok x := by
  cases o with
  | ok a => obtain ⟨m2, h2, _⟩ := ha; exact ⟨_, h2⟩
  | reject => obtain ⟨m2, h2⟩ := ha; exact ⟨_, h2⟩
  | panic => exact ha.elim

/-- the inverse of `abs` (bytes of the model → bytes of the translation) -/
def unabs (b : Gotlcp.Bytes) : BV := b.map UInt8.toBitVec

theorem abs_unabs (b : Gotlcp.Bytes) : abs (unabs b) = b := by
  induction b with
  | nil => rfl
  | cons x xs ih => simp only [unabs, List.map_cons, abs_cons] at ih ⊢; rw [ih]

/-! ## the literals of the translated text are the regenerated facts -/

theorem codes_facts :
    u8 codesT.tFinished = UInt8.ofBitVec 20#8 ∧ u8 codesT.tCertificateVerify = UInt8.ofBitVec 15#8 ∧
    codesT.complete.contains codesT.tFinished = true ∧ codesT.complete.contains codesT.tCertificateVerify = true := by
  decide

/-- the codec group's copy of `tlcpIsCompleteMessage` is the same term -/
theorem codec_isComplete (data : BV) (t : BitVec 8) :
    Src.tlcp.codec.tlcpIsCompleteMessage data t = .ok (complete data t) := tie_isComplete data t

theorem skip_ok (s : BV) (n : Int) (h0 : 0 ≤ n) (h : n ≤ s.length) :
    Src.tlcp.codec.cbString.Skip s n = .ok (s.drop n.toNat, true) := by
  rw [skip_eq]; unfold readSpec
  rw [if_neg (by omega)]

/-! ## `finishedMsg.unmarshal` -/

/-- what `finishedMsg.unmarshal` computes: the guard, then `Skip(1)` and a 24-bit length-prefixed vector — the
length prefix IS the length field of the handshake header — that must end the message; `raw` is set once the
guard has passed, `verifyData` only when the vector was read -/
def finSpec (m : Src.tlcp.codec.finishedMsg) (data : BV) : Src.tlcp.codec.finishedMsg × Bool :=
  if complete data 20#8 then
    ({ raw := data, verifyData := (lpSpec (data.drop 1) m.verifyData 3).2.1 },
      (lpSpec (data.drop 1) m.verifyData 3).2.2 && (lpSpec (data.drop 1) m.verifyData 3).1.isEmpty)
  else (m, false)

theorem finished_eq (m : Src.tlcp.codec.finishedMsg) (data : BV) :
    Src.tlcp.codec.finishedMsg.unmarshal m data = .ok (finSpec m data) := by
  unfold Src.tlcp.codec.finishedMsg.unmarshal finSpec
  simp only [bind, Except.bind, pure, Except.pure, codec_isComplete]
  cases hc : complete data 20#8
  · simp
  · obtain ⟨b, c, d, rest, rfl, hl⟩ := complete_true hc
    have hs : Src.tlcp.codec.cbString.Skip (20#8 :: b :: c :: d :: rest) 1 = .ok (b :: c :: d :: rest, true) := by
      exact skip_ok _ 1 (by omega) (by simp only [List.length_cons]; omega)
    simp only [Bool.not_true, Bool.false_eq_true, if_false, hs, if_true, readUint24LP_eq, empty_eq,
      List.drop_succ_cons, List.drop_zero]

/-- the closed form is the model decoder on the same bytes -/
theorem model_finished (m : Src.tlcp.codec.finishedMsg) (data : BV) :
    unmarshalFinished codesT (abs data) =
      if (finSpec m data).2 then .ok ⟨abs (finSpec m data).1.verifyData⟩ else .reject := by
  unfold unmarshalFinished
  rw [model_guard data 20#8 _ codes_facts.1 codes_facts.2.2.1]
  unfold finSpec
  cases hc : complete data 20#8
  · simp
  · obtain ⟨b, c, d, rest, rfl, hl⟩ := complete_true hc
    have hsk : skip 1 (abs (20#8 :: b :: c :: d :: rest)) = some (abs (b :: c :: d :: rest)) := by
      simp [skip]
    simp only [if_true, decFinished, hsk, lp24_model (b :: c :: d :: rest) m.verifyData, List.drop_succ_cons,
      List.drop_zero]
    cases h1 : (lpSpec (b :: c :: d :: rest) m.verifyData 3).2.2
    · simp
    · simp only [if_true, isEmpty_abs, Bool.true_and]

/-- **`finishedMsg.unmarshal`** = model, every receiver, every byte string: accepted with the same
verify_data, or refused -/
theorem tie_codec_finished (m : Src.tlcp.codec.finishedMsg) (data : BV) :
    Agree (fun m' => (⟨abs m'.verifyData⟩ : Blob)) (Src.tlcp.codec.finishedMsg.unmarshal m data)
      (unmarshalFinished codesT (abs data)) := by
  rw [finished_eq, model_finished m data]
  cases h : (finSpec m data).2
  · exact ⟨(finSpec m data).1, by rw [← h]⟩
  · exact ⟨(finSpec m data).1, by rw [← h], rfl⟩

theorem no_panic_finished (m : Src.tlcp.codec.finishedMsg) (data : BV) :
    ∃ r, Src.tlcp.codec.finishedMsg.unmarshal m data = .ok r := ⟨_, finished_eq m data⟩

/-- on refusal the receiver is untouched (guard failed) or only `raw` was set / `verifyData` kept -/
theorem finished_refused_raw (m m' : Src.tlcp.codec.finishedMsg) (data : BV)
    (h : Src.tlcp.codec.finishedMsg.unmarshal m data = .ok (m', false)) :
    m' = m ∨ m'.raw = data := by
  rw [finished_eq] at h
  unfold finSpec at h
  cases hc : complete data 20#8
  · rw [hc] at h; simp at h; exact Or.inl h.symm
  · rw [hc] at h; simp at h; exact Or.inr (by rw [← h.1])

/-- an accepted verify_data is the input without the 4-byte header (whose 24-bit length is the vector length) -/
theorem finSpec_len (m : Src.tlcp.codec.finishedMsg) (data : BV) (h : (finSpec m data).2 = true) :
    (finSpec m data).1.verifyData.length + 4 = data.length := by
  unfold finSpec at h ⊢
  cases hc : complete data 20#8
  · rw [hc] at h; simp at h
  · obtain ⟨b, c, d, rest, rfl, hl⟩ := complete_true hc
    rw [hc] at h
    simp only [if_true, Bool.and_eq_true, List.drop_succ_cons, List.drop_zero, List.isEmpty_iff] at h ⊢
    have := lpSpec_length _ _ _ h.1
    rw [h.2] at this
    simp only [List.length_cons, List.length_nil] at this ⊢
    omega

/-! ## `certificateVerifyMsg.unmarshal` -/

/-- what `certificateVerifyMsg.unmarshal` computes: the guard, the 4 header bytes skipped, then a
16-bit length-prefixed signature that must end the message -/
def cvSpec (m : Src.tlcp.codec.certificateVerifyMsg) (data : BV) : Src.tlcp.codec.certificateVerifyMsg × Bool :=
  if complete data 15#8 then
    ({ raw := data, signature := (lpSpec (data.drop 4) m.signature 2).2.1 },
      (lpSpec (data.drop 4) m.signature 2).2.2 && (lpSpec (data.drop 4) m.signature 2).1.isEmpty)
  else (m, false)

theorem certificateVerify_eq (m : Src.tlcp.codec.certificateVerifyMsg) (data : BV) :
    Src.tlcp.codec.certificateVerifyMsg.unmarshal m data = .ok (cvSpec m data) := by
  unfold Src.tlcp.codec.certificateVerifyMsg.unmarshal cvSpec
  simp only [bind, Except.bind, pure, Except.pure, codec_isComplete]
  cases hc : complete data 15#8
  · simp
  · obtain ⟨b, c, d, rest, rfl, hl⟩ := complete_true hc
    have hs : Src.tlcp.codec.cbString.Skip (15#8 :: b :: c :: d :: rest) 4 = .ok (rest, true) := by
      exact skip_ok _ 4 (by omega) (by simp only [List.length_cons]; omega)
    simp only [Bool.not_true, Bool.false_eq_true, if_false, hs, if_true, readUint16LP_eq, empty_eq,
      List.drop_succ_cons, List.drop_zero]

theorem model_certificateVerify (m : Src.tlcp.codec.certificateVerifyMsg) (data : BV) :
    unmarshalCertificateVerify codesT (abs data) =
      if (cvSpec m data).2 then .ok ⟨abs (cvSpec m data).1.signature⟩ else .reject := by
  unfold unmarshalCertificateVerify
  rw [model_guard data 15#8 _ codes_facts.2.1 codes_facts.2.2.2]
  unfold cvSpec
  cases hc : complete data 15#8
  · simp
  · obtain ⟨b, c, d, rest, rfl, hl⟩ := complete_true hc
    have hsk : skip 4 (abs (15#8 :: b :: c :: d :: rest)) = some (abs rest) := by
      simp [skip]
    simp only [if_true, decCertificateVerify, hsk, lp16_model rest m.signature, List.drop_succ_cons,
      List.drop_zero]
    cases h1 : (lpSpec rest m.signature 2).2.2
    · simp
    · simp only [if_true, isEmpty_abs, Bool.true_and]

/-- **`certificateVerifyMsg.unmarshal`** = model: accepted with the same signature, or refused -/
theorem tie_codec_certificateVerify (m : Src.tlcp.codec.certificateVerifyMsg) (data : BV) :
    Agree (fun m' => (⟨abs m'.signature⟩ : Blob)) (Src.tlcp.codec.certificateVerifyMsg.unmarshal m data)
      (unmarshalCertificateVerify codesT (abs data)) := by
  rw [certificateVerify_eq, model_certificateVerify m data]
  cases h : (cvSpec m data).2
  · exact ⟨(cvSpec m data).1, by rw [← h]⟩
  · exact ⟨(cvSpec m data).1, by rw [← h], rfl⟩

theorem no_panic_certificateVerify (m : Src.tlcp.codec.certificateVerifyMsg) (data : BV) :
    ∃ r, Src.tlcp.codec.certificateVerifyMsg.unmarshal m data = .ok r := ⟨_, certificateVerify_eq m data⟩

/-- an accepted signature is the input without the 4-byte header and the 2-byte length -/
theorem cvSpec_len (m : Src.tlcp.codec.certificateVerifyMsg) (data : BV) (h : (cvSpec m data).2 = true) :
    (cvSpec m data).1.signature.length + 6 = data.length := by
  unfold cvSpec at h ⊢
  cases hc : complete data 15#8
  · rw [hc] at h; simp at h
  · obtain ⟨b, c, d, rest, rfl, hl⟩ := complete_true hc
    rw [hc] at h
    simp only [if_true, Bool.and_eq_true, List.drop_succ_cons, List.drop_zero, List.isEmpty_iff] at h ⊢
    have := lpSpec_length _ _ _ h.1
    rw [h.2] at this
    simp only [List.length_cons, List.length_nil] at this ⊢
    omega

/-! ## `readUint64` (the same term in both stacks) -/

/-- `uint32(a)<<24 | uint32(b)<<16 | uint32(c)<<8 | uint32(d)`, as `ReadUint32` computes it -/
def be4 (a b c d : BitVec 8) : BitVec 32 :=
  BitVec.setWidth 32 a <<< 24 ||| BitVec.setWidth 32 b <<< 16 ||| BitVec.setWidth 32 c <<< 8 ||| BitVec.setWidth 32 d

theorem nat_or4 (a b c d : Nat) (hb : b < 256) (hc : c < 256) (hd : d < 256) :
    a <<< 24 ||| b <<< 16 ||| c <<< 8 ||| d = a * 16777216 + b * 65536 + c * 256 + d := by
  have e1 : a <<< 24 = (a <<< 16) <<< 8 := by rw [← Nat.shiftLeft_add]
  have e2 : b <<< 16 = (b <<< 8) <<< 8 := by rw [← Nat.shiftLeft_add]
  rw [e1, e2, ← Nat.shiftLeft_or_distrib, ← Nat.shiftLeft_or_distrib, nat_or3 a b c hb hc,
    or_shift _ 8 _ (by omega)]
  omega

theorem be4_toNat (a b c d : BitVec 8) :
    (be4 a b c d).toNat = a.toNat * 16777216 + b.toNat * 65536 + c.toNat * 256 + d.toNat := by
  have ha := a.isLt; have hb := b.isLt; have hc := c.isLt; have hd := d.isLt
  unfold be4
  simp only [BitVec.toNat_or, BitVec.toNat_shiftLeft, BitVec.toNat_setWidth]
  rw [Nat.mod_eq_of_lt (by omega : a.toNat < 2 ^ 32), Nat.mod_eq_of_lt (by omega : b.toNat < 2 ^ 32),
    Nat.mod_eq_of_lt (by omega : c.toNat < 2 ^ 32), Nat.mod_eq_of_lt (by omega : d.toNat < 2 ^ 32)]
  have e3 : a.toNat <<< 24 % 2 ^ 32 = a.toNat <<< 24 := by
    apply Nat.mod_eq_of_lt; rw [Nat.shiftLeft_eq]; omega
  have e4 : b.toNat <<< 16 % 2 ^ 32 = b.toNat <<< 16 := by
    apply Nat.mod_eq_of_lt; rw [Nat.shiftLeft_eq]; omega
  have e5 : c.toNat <<< 8 % 2 ^ 32 = c.toNat <<< 8 := by
    apply Nat.mod_eq_of_lt; rw [Nat.shiftLeft_eq]; omega
  rw [e3, e4, e5]
  exact nat_or4 _ _ _ _ hb hc hd

/-- `uint64(hi)<<32 | uint64(lo)` -/
theorem hilo_toNat (hi lo : BitVec 32) :
    ((BitVec.setWidth 64 hi <<< 32) ||| BitVec.setWidth 64 lo).toNat = hi.toNat * 4294967296 + lo.toNat := by
  have h1 := hi.isLt; have h2 := lo.isLt
  simp only [BitVec.toNat_or, BitVec.toNat_shiftLeft, BitVec.toNat_setWidth]
  rw [Nat.mod_eq_of_lt (by omega : hi.toNat < 2 ^ 64), Nat.mod_eq_of_lt (by omega : lo.toNat < 2 ^ 64)]
  have e : hi.toNat <<< 32 % 2 ^ 64 = hi.toNat <<< 32 := by
    apply Nat.mod_eq_of_lt; rw [Nat.shiftLeft_eq]; omega
  rw [e, or_shift _ 32 _ (by omega)]

/-- big-endian value of a byte list -/
def beNat (l : BV) : Nat := l.foldl (fun acc b => acc * 256 + b.toNat) 0

/-- what `readUint64` computes: the String after it, the output variable after it, the answer -/
def u64Spec (s : BV) (out : BitVec 64) : BV × BitVec 64 × Bool :=
  match s with
  | a :: b :: c :: d :: e :: f :: g :: h :: r =>
    (r, (BitVec.setWidth 64 (be4 a b c d) <<< 32) ||| BitVec.setWidth 64 (be4 e f g h), true)
  | _ :: _ :: _ :: _ :: r => (r, out, false)
  | _ => (s, out, false)

theorem readUint64_eq (s : BV) (out : BitVec 64) :
    Src.tlcp.codec.readUint64 s out = .ok (u64Spec s out) := by
  unfold Src.tlcp.codec.readUint64
  simp only [bind, Except.bind, pure, Except.pure, readUint32_eq]
  match s with
  | [] => rfl
  | [_] => rfl
  | [_, _] => rfl
  | [_, _, _] => rfl
  | [_, _, _, _] => rfl
  | [_, _, _, _, _] => rfl
  | [_, _, _, _, _, _] => rfl
  | [_, _, _, _, _, _, _] => rfl
  | a :: b :: c :: d :: e :: f :: g :: h :: r => rfl

theorem dtlcp_readUint64 : @Src.dtlcp.codec.readUint64 = @Src.tlcp.codec.readUint64 := rfl

/-- **`readUint64`**: never an error; succeeds exactly on 8 or more bytes, then it consumed 8 bytes and
`out` is their big-endian value; on failure `out` is untouched and the String lost 4 bytes if it had
that many (the first `ReadUint32` succeeded), none otherwise -/
theorem readUint64_spec (s : BV) (out : BitVec 64) :
    ∃ s' v ok, Src.tlcp.codec.readUint64 s out = .ok (s', v, ok) ∧
      (ok = true ↔ 8 ≤ s.length) ∧
      (ok = true → s' = s.drop 8 ∧ v.toNat = beNat (s.take 8)) ∧
      (ok = false → v = out ∧ s' = if 4 ≤ s.length then s.drop 4 else s) := by
  refine ⟨_, _, _, readUint64_eq s out, ?_⟩
  match s with
  | [] => simp [u64Spec]
  | [_] => simp [u64Spec]
  | [_, _] => simp [u64Spec]
  | [_, _, _] => simp [u64Spec]
  | [_, _, _, _] => simp [u64Spec]
  | [_, _, _, _, _] => simp [u64Spec]
  | [_, _, _, _, _, _] => simp [u64Spec]
  | [_, _, _, _, _, _, _] => simp [u64Spec]
  | a :: b :: c :: d :: e :: f :: g :: h :: r =>
    simp only [u64Spec, List.length_cons, true_iff, forall_const, List.drop_succ_cons, List.drop_zero,
      List.take_succ_cons, List.take_zero, true_and, Bool.true_eq_false, false_imp_iff, and_true]
    refine ⟨by omega, ?_⟩
    rw [hilo_toNat, be4_toNat, be4_toNat]
    simp only [beNat, List.foldl_cons, List.foldl_nil]
    omega

end Gotlcp.Tie.CodecSmall

/-
Galois/Counter Mode, written from NIST SP 800-38D, for a 128-bit block cipher, 96-bit IVs and
128-bit tags (the only parameters TLCP uses: RFC 8998 / GB/T 38636 SM4-GCM).

  6.3  multiplication in GF(2^128):  R = 11100001 ‖ 0^120, bit 0 is the MOST significant bit
  6.4  GHASH_H(X) :  Y_0 = 0,  Y_i = (Y_{i-1} xor X_i) • H
  6.5  GCTR_K(ICB, X) with inc_32
  7.1  GCM-AE:  H = E(0^128);  J_0 = IV ‖ 0^31 ‖ 1;  C = GCTR(inc32(J_0), P);
                S = GHASH_H(A ‖ 0^v ‖ C ‖ 0^u ‖ [len A]_64 ‖ [len C]_64);  T = GCTR(J_0, S)
  7.2  GCM-AD:  recompute T over the received C and A, compare, then decrypt
The block function is a parameter.  Core Lean only.
-/
import Gotlcp.Crypto.SM4

namespace Gotlcp.Crypto.GCM

/-- a 128-bit block as two big-endian 64-bit halves -/
structure B128 where
  hi : UInt64
  lo : UInt64
  deriving BEq

def be64 (l : Bytes) : UInt64 := (l.take 8).foldl (fun acc b => (acc <<< 8) ||| b.toUInt64) 0

/-- read a (possibly short) block, padding with zero bytes on the right -/
def toB128 (l : Bytes) : B128 :=
  let p := l.take 16 ++ List.replicate (16 - l.length) 0
  ⟨be64 p, be64 (p.drop 8)⟩

def bytes64 (x : UInt64) : Bytes :=
  [(x >>> 56).toUInt8, (x >>> 48).toUInt8, (x >>> 40).toUInt8, (x >>> 32).toUInt8,
   (x >>> 24).toUInt8, (x >>> 16).toUInt8, (x >>> 8).toUInt8, x.toUInt8]

def ofB128 (b : B128) : Bytes := bytes64 b.hi ++ bytes64 b.lo

/-- algorithm 1 of 6.3: Z = X • Y, processing the bits of X from the most significant one -/
def mulLoop : Nat → Nat → UInt64 → UInt64 → UInt64 → UInt64 → UInt64 → UInt64 → B128
  | 0, _, _, _, zh, zl, _, _ => ⟨zh, zl⟩
  | n+1, i, xh, xl, zh, zl, vh, vl =>
    let bit := if i < 64 then (xh >>> (UInt64.ofNat (63 - i))) &&& 1 else (xl >>> (UInt64.ofNat (127 - i))) &&& 1
    let zh' := if bit == 1 then zh ^^^ vh else zh
    let zl' := if bit == 1 then zl ^^^ vl else zl
    let lsb := vl &&& 1
    let vl' := (vl >>> 1) ||| (vh <<< 63)
    let vh' := vh >>> 1
    let vh'' := if lsb == 1 then vh' ^^^ 0xe100000000000000 else vh'
    mulLoop n (i+1) xh xl zh' zl' vh'' vl'

def mul (x y : B128) : B128 := mulLoop 128 0 x.hi x.lo 0 0 y.hi y.lo

/-- GHASH over `n` blocks of `data` (the last one zero-padded), continuing from `y` -/
def ghashBlocks (h : B128) : Nat → B128 → Bytes → B128
  | 0, y, _ => y
  | n+1, y, data =>
    let x := toB128 (data.take 16)
    ghashBlocks h n (mul ⟨y.hi ^^^ x.hi, y.lo ^^^ x.lo⟩ h) (data.drop 16)

def nblocks (len : Nat) : Nat := (len + 15) / 16

/-- S = GHASH_H(A ‖ pad ‖ C ‖ pad ‖ [len A]_64 ‖ [len C]_64) -/
def ghash (h : B128) (a c : Bytes) : B128 :=
  let y1 := ghashBlocks h (nblocks a.length) ⟨0, 0⟩ a
  let y2 := ghashBlocks h (nblocks c.length) y1 c
  mul ⟨y2.hi ^^^ UInt64.ofNat (a.length * 8), y2.lo ^^^ UInt64.ofNat (c.length * 8)⟩ h

/-- inc_32: increment the rightmost 32 bits modulo 2^32 -/
def inc32 (b : B128) : B128 :=
  ⟨b.hi, (b.lo &&& 0xffffffff00000000) ||| ((b.lo + 1) &&& 0x00000000ffffffff)⟩

def xorBytes (a b : Bytes) : Bytes := List.zipWith (· ^^^ ·) a b

/-- GCTR: xor `data` with E(cb), E(inc32 cb), …; the last block may be partial -/
def gctr (E : Bytes → Bytes) : Nat → B128 → Bytes → Bytes
  | 0, _, _ => []
  | n+1, cb, data => xorBytes (data.take 16) (E (ofB128 cb)) ++ gctr E n (inc32 cb) (data.drop 16)

def j0 (iv : Bytes) : B128 := toB128 (iv.take 12 ++ [0, 0, 0, 1])

def tag (E : Bytes → Bytes) (iv a c : Bytes) : Bytes :=
  let h := toB128 (E (List.replicate 16 0))
  xorBytes (ofB128 (ghash h a c)) (E (ofB128 (j0 iv)))

/-- GCM-AE with a 96-bit IV: ciphertext ‖ 16-byte tag -/
def aeSeal (E : Bytes → Bytes) (iv a p : Bytes) : Bytes :=
  let c := gctr E (nblocks p.length) (inc32 (j0 iv)) p
  c ++ tag E iv a c

/-- GCM-AD: `none` is FAIL -/
def aeOpen (E : Bytes → Bytes) (iv a ct : Bytes) : Option Bytes :=
  if ct.length < 16 then none else
  let c := ct.take (ct.length - 16)
  let t := ct.drop (ct.length - 16)
  if tag E iv a c == t then some (gctr E (nblocks c.length) (inc32 (j0 iv)) c) else none

def sm4Seal (key iv a p : Bytes) : Bytes :=
  let rk := SM4.expandKey key
  aeSeal (SM4.cryptBlock rk false) iv a p

def sm4Open (key iv a ct : Bytes) : Option Bytes :=
  let rk := SM4.expandKey key
  aeOpen (SM4.cryptBlock rk false) iv a ct

def tagSize : Nat := 16

/-! ### known-answer tests, checked at build time -/

private def hx (s : String) : Bytes := (Hex.decode s).getD []

-- GHASH alone is cipher independent: test case 2 of the GCM specification (McGrew–Viega,
-- reproduced in the SP 800-38D validation vectors): H = AES_0(0), one ciphertext block
#guard
  let h := toB128 (hx "66e94bd4ef8a2c3b884cfa59ca342b2e")
  Hex.encode (ofB128 (ghash h [] (hx "0388dace60b6a392f328c2b971b2fe78"))) == "f38cbb1ad69223dcc3457ae5b6b0f885"
-- the same document, test case 1: GHASH of nothing is 0
#guard
  let h := toB128 (hx "66e94bd4ef8a2c3b884cfa59ca342b2e")
  Hex.encode (ofB128 (ghash h [] [])) == "00000000000000000000000000000000"
-- multiplication by the identity element (the block 10…0) and commutativity
#guard mul ⟨0x8000000000000000, 0⟩ ⟨0x0123456789abcdef, 0xfedcba9876543210⟩ == ⟨0x0123456789abcdef, 0xfedcba9876543210⟩
#guard mul ⟨0x1234, 0x5678⟩ ⟨0xdeadbeef, 0xcafe⟩ == mul ⟨0xdeadbeef, 0xcafe⟩ ⟨0x1234, 0x5678⟩
-- inc_32 wraps within the low 32 bits only
#guard inc32 ⟨7, 0x00000001ffffffff⟩ == ⟨7, 0x0000000100000000⟩

-- SM4-GCM: RFC 8998 appendix A.1
#guard
  let key := hx "0123456789abcdeffedcba9876543210"
  let iv := hx "00001234567800000000abcd"
  let aad := hx "feedfacedeadbeeffeedfacedeadbeefabaddad2"
  let p := hx "aaaaaaaaaaaaaaaabbbbbbbbbbbbbbbbccccccccccccccccddddddddddddddddeeeeeeeeeeeeeeeeffffffffffffffffeeeeeeeeeeeeeeeeaaaaaaaaaaaaaaaa"
  Hex.encode (sm4Seal key iv aad p) ==
    "17f399f08c67d5ee19d0dc9969c4bb7d5fd46fd3756489069157b282bb200735d82710ca5c22f0ccfa7cbf93d496ac15a56834cbcf98c397b4024a2691233b8d" ++
    "83de3541e4c2b58177e065a9bf7b62ec"
#guard
  let key := hx "0123456789abcdeffedcba9876543210"
  let iv := hx "00001234567800000000abcd"
  let aad := hx "feedfacedeadbeef"
  let p : Bytes := (List.range 37).map UInt8.ofNat
  sm4Open key iv aad (sm4Seal key iv aad p) == some p &&
  sm4Open key iv (aad ++ [0]) (sm4Seal key iv aad p) == none &&
  sm4Open key iv aad [] == none

end Gotlcp.Crypto.GCM

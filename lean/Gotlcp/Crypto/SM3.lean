/-
SM3 cryptographic hash, written from GB/T 32905-2016 (sections 4.1–5.3.3).
Core Lean only; `UInt32` arithmetic over a `ByteArray` so that the compiled oracle is fast.

  IV, T_j, FF_j, GG_j, P0, P1      : 4.1–4.4
  padding                          : 5.2   (bit "1", k zero bits, 64-bit big-endian bit length)
  message expansion W, W'          : 5.3.2
  compression function CF          : 5.3.3
-/
import Gotlcp.Base.Hex

namespace Gotlcp.Crypto.SM3

@[inline] def rotl (x : UInt32) (n : UInt32) : UInt32 :=
  let n := n % 32
  if n == 0 then x else (x <<< n) ||| (x >>> (32 - n))

@[inline] def p0 (x : UInt32) : UInt32 := x ^^^ rotl x 9 ^^^ rotl x 17
@[inline] def p1 (x : UInt32) : UInt32 := x ^^^ rotl x 15 ^^^ rotl x 23

@[inline] def tj (j : Nat) : UInt32 := if j < 16 then 0x79cc4519 else 0x7a879d8a

@[inline] def ff (j : Nat) (x y z : UInt32) : UInt32 :=
  if j < 16 then x ^^^ y ^^^ z else (x &&& y) ||| (x &&& z) ||| (y &&& z)

@[inline] def gg (j : Nat) (x y z : UInt32) : UInt32 :=
  if j < 16 then x ^^^ y ^^^ z else (x &&& y) ||| ((~~~ x) &&& z)

structure State where
  a : UInt32
  b : UInt32
  c : UInt32
  d : UInt32
  e : UInt32
  f : UInt32
  g : UInt32
  h : UInt32

def iv : State :=
  ⟨0x7380166f, 0x4914b2b9, 0x172442d7, 0xda8a0600, 0xa96f30bc, 0x163138aa, 0xe38dee4d, 0xb0fb0e4e⟩

@[inline] def be32 (m : ByteArray) (i : Nat) : UInt32 :=
  ((m.get! i).toUInt32 <<< 24) ||| ((m.get! (i+1)).toUInt32 <<< 16) |||
  ((m.get! (i+2)).toUInt32 <<< 8) ||| (m.get! (i+3)).toUInt32

/-- W_0..W_67 of the block starting at byte `off` -/
def expand (m : ByteArray) (off : Nat) : Array UInt32 := Id.run do
  let mut w : Array UInt32 := Array.mkEmpty 68
  for j in [0:16] do
    w := w.push (be32 m (off + 4*j))
  for j in [16:68] do
    let x := w[j-16]! ^^^ w[j-9]! ^^^ rotl w[j-3]! 15
    w := w.push (p1 x ^^^ rotl w[j-13]! 7 ^^^ w[j-6]!)
  return w

def round (w : Array UInt32) (j : Nat) (s : State) : State :=
  let a12 := rotl s.a 12
  let ss1 := rotl (a12 + s.e + rotl (tj j) (UInt32.ofNat (j % 32))) 7
  let ss2 := ss1 ^^^ a12
  let tt1 := ff j s.a s.b s.c + s.d + ss2 + (w[j]! ^^^ w[j+4]!)
  let tt2 := gg j s.e s.f s.g + s.h + ss1 + w[j]!
  ⟨tt1, s.a, rotl s.b 9, s.c, p0 tt2, s.e, rotl s.f 19, s.g⟩

def rounds (w : Array UInt32) : Nat → Nat → State → State
  | 0, _, s => s
  | n+1, j, s => rounds w n (j+1) (round w j s)

/-- CF(V, B) -/
def compress (v : State) (m : ByteArray) (off : Nat) : State :=
  let w := expand m off
  let s := rounds w 64 0 v
  ⟨s.a ^^^ v.a, s.b ^^^ v.b, s.c ^^^ v.c, s.d ^^^ v.d, s.e ^^^ v.e, s.f ^^^ v.f, s.g ^^^ v.g, s.h ^^^ v.h⟩

def blocks (m : ByteArray) : Nat → Nat → State → State
  | 0, _, v => v
  | n+1, off, v => blocks m n (off + 64) (compress v m off)

def pushBE32 (o : ByteArray) (x : UInt32) : ByteArray :=
  (((o.push (x >>> 24).toUInt8).push (x >>> 16).toUInt8).push (x >>> 8).toUInt8).push x.toUInt8

def pushBE64 (o : ByteArray) (x : UInt64) : ByteArray :=
  pushBE32 (pushBE32 o (x >>> 32).toUInt32) x.toUInt32

/-- 5.2: append bit 1, then zero bits up to 448 mod 512, then the 64-bit length in bits -/
def pad (m : ByteArray) : ByteArray :=
  let l := m.size
  let k := (64 + 56 - (l + 1) % 64) % 64
  let m1 := m.push 0x80
  let m2 := Nat.fold k (fun _ _ acc => acc.push 0) m1
  pushBE64 m2 (UInt64.ofNat (l * 8))

/-- the final chaining value as 32 bytes -/
def digest (s : State) : ByteArray :=
  [s.a, s.b, s.c, s.d, s.e, s.f, s.g, s.h].foldl pushBE32 ByteArray.empty

def hashBA (m : ByteArray) : ByteArray :=
  let p := pad m
  digest (blocks p (p.size / 64) 0 iv)

/-- SM3 over byte lists (the interface used by models and specs) -/
def hash (m : Bytes) : Bytes := (hashBA (ByteArray.mk m.toArray)).data.toList

def size : Nat := 32
def blockSize : Nat := 64

theorem pushBE32_size (o : ByteArray) (x : UInt32) : (pushBE32 o x).size = o.size + 4 := by
  simp [pushBE32, ByteArray.size_push]

theorem digest_size (s : State) : (digest s).size = 32 := by
  unfold digest
  simp only [List.foldl_cons, List.foldl_nil, pushBE32_size]
  rfl

theorem hashBA_size (m : ByteArray) : (hashBA m).size = 32 := digest_size _

/-- every digest has 32 bytes -/
theorem hash_length (m : Bytes) : (hash m).length = 32 := by
  unfold hash
  rw [Array.length_toList, ByteArray.size_data, hashBA_size]

/-! ### known-answer tests (GB/T 32905-2016 appendix A), checked at build time -/

-- A.1  "abc"
#guard Hex.encode (hash "abc".toUTF8.toList) ==
  "66c7f0f462eeedd9d1f2d46bdc10e4e24167c4875cf2f7a2297da02b8f4ba8e0"
-- A.2  "abcd" × 16 (512 bits, two blocks after padding)
#guard Hex.encode (hash (List.replicate 16 "abcd".toUTF8.toList).flatten) ==
  "debe9ff92275b8a138604889c18e5a4d6fdb70e5387e5765293dcba39c0c5732"
-- lengths around the padding boundary are self-consistent with the block structure
#guard (pad (ByteArray.mk (Array.replicate 55 0))).size == 64
#guard (pad (ByteArray.mk (Array.replicate 56 0))).size == 128
#guard (pad (ByteArray.mk (Array.replicate 64 0))).size == 128
#guard (pad ByteArray.empty).size == 64

end Gotlcp.Crypto.SM3

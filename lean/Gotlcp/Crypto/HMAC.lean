/-
HMAC (RFC 2104, section 2) over an arbitrary hash with block size `B`:

    HMAC(K, text) = H((K' xor opad) ‖ H((K' xor ipad) ‖ text))

K' = K padded with zeros to B bytes; keys longer than B are first hashed.
ipad = 0x36 repeated, opad = 0x5c repeated.   Core Lean only.
-/
import Gotlcp.Crypto.SM3

namespace Gotlcp.Crypto.HMAC

def padKey (H : Bytes → Bytes) (B : Nat) (key : Bytes) : Bytes :=
  let k := if key.length > B then H key else key
  k ++ List.replicate (B - k.length) 0

def hmac (H : Bytes → Bytes) (B : Nat) (key text : Bytes) : Bytes :=
  let k := padKey H B key
  H (k.map (· ^^^ 0x5c) ++ H (k.map (· ^^^ 0x36) ++ text))

/-- HMAC-SM3 -/
def sm3 (key text : Bytes) : Bytes := hmac SM3.hash SM3.blockSize key text

theorem sm3_length (key text : Bytes) : (sm3 key text).length = 32 := by
  simp [sm3, hmac, SM3.hash_length]

/-! ### build-time checks -/

#guard (sm3 [] []).length == 32
-- a key of exactly one block, a longer key (hashed first) and a short key give different MACs
#guard sm3 (List.replicate 64 1) [1,2,3] != sm3 (List.replicate 65 1) [1,2,3]
-- long keys are replaced by their hash (RFC 2104 section 2)
#guard sm3 (List.replicate 100 7) [9] == sm3 (SM3.hash (List.replicate 100 7)) [9]
-- RFC 2202 test case 2 inputs under SM3 (value as published in the GmSSL / BouncyCastle test
-- suites); HMAC-SM3 is additionally compared with emmansun/gmsm on every correspondence run
#guard Hex.encode (sm3 "Jefe".toUTF8.toList "what do ya want for nothing?".toUTF8.toList) ==
  "2e87f1d16862e6d964b50a5200bf2b10b764faa9680a296a2405f24bec39f882"

end Gotlcp.Crypto.HMAC

/-
The TLS pseudo-random function as GB/T 38636-2020 section 6.5 (= RFC 5246 section 5) defines it:

    P_hash(secret, seed) = HMAC(secret, A(1) ‖ seed) ‖ HMAC(secret, A(2) ‖ seed) ‖ …
    A(0) = seed,   A(i) = HMAC(secret, A(i-1))
    PRF(secret, label, seed) = P_SM3(secret, label ‖ seed)

"P_hash can be iterated as many times as necessary to produce the required quantity of data";
surplus output of the last iteration is discarded.

This is a literal transcription (A(i) is recomputed from the definition for every i); it is the
specification the Go loop is proved against (Props.C04_phash_is_P_SM3) and compared with on real
inputs.  The MAC is a parameter so that theorems hold for any HMAC.   Core Lean only.
-/
import Gotlcp.Crypto.HMAC

namespace Gotlcp.Crypto.PRF

/-- A(i) -/
def a (hm : Bytes → Bytes → Bytes) (secret seed : Bytes) : Nat → Bytes
  | 0 => seed
  | i+1 => hm secret (a hm secret seed i)

/-- the i-th output block (i ≥ 1): HMAC(secret, A(i) ‖ seed) -/
def block (hm : Bytes → Bytes → Bytes) (secret seed : Bytes) (i : Nat) : Bytes :=
  hm secret (a hm secret seed i ++ seed)

/-- the first `n` blocks concatenated -/
def blocks (hm : Bytes → Bytes → Bytes) (secret seed : Bytes) : Nat → Bytes
  | 0 => []
  | n+1 => blocks hm secret seed n ++ block hm secret seed (n+1)

/-- P_hash truncated to `len` bytes, for a MAC with `hLen`-byte output -/
def pHash (hm : Bytes → Bytes → Bytes) (hLen : Nat) (secret seed : Bytes) (len : Nat) : Bytes :=
  (blocks hm secret seed ((len + hLen - 1) / hLen)).take len

/-- PRF(secret, label, seed)[0..len) -/
def prf (hm : Bytes → Bytes → Bytes) (hLen : Nat) (secret label seed : Bytes) (len : Nat) : Bytes :=
  pHash hm hLen secret (label ++ seed) len

/-- the TLCP PRF: P_SM3 -/
def prfSM3 (secret label seed : Bytes) (len : Nat) : Bytes := prf HMAC.sm3 SM3.size secret label seed len

/-! ### build-time checks -/

#guard (prfSM3 [1,2,3] "master secret".toUTF8.toList [4,5,6] 48).length == 48
#guard (prfSM3 [1,2,3] "key expansion".toUTF8.toList [4,5,6] 0) == []
-- shorter outputs are prefixes of longer ones
#guard (prfSM3 [1] [2] [3] 100).take 33 == prfSM3 [1] [2] [3] 33
-- first block by hand
#guard prfSM3 [1] [2] [3] 32 == HMAC.sm3 [1] (HMAC.sm3 [1] [2,3] ++ [2,3])

end Gotlcp.Crypto.PRF

/-
Big-endian integer encoding shared by the key-schedule spec and model (core Lean only).
-/
import Gotlcp.Base.Hex

namespace Gotlcp.Crypto

/-- the `k` low-order bytes of `n`, most significant first (values ≥ 256^k are truncated) -/
def be : Nat → Nat → Bytes
  | 0, _ => []
  | k+1, n => be k (n / 256) ++ [UInt8.ofNat (n % 256)]

/-- big-endian value of a byte string -/
def fromBE (l : Bytes) : Nat := l.foldl (fun acc b => acc * 256 + b.toNat) 0

#guard be 2 0x0101 == [1, 1]
#guard be 8 1 == [0,0,0,0,0,0,0,1]
#guard be 2 0x12345 == [0x23, 0x45]
#guard fromBE (be 6 0xa1b2c3d4e5f6) == 0xa1b2c3d4e5f6

end Gotlcp.Crypto

/-
CBC mode (GB/T 17964 / NIST SP 800-38A section 6.2) over an arbitrary 16-byte block function.

    C_0 = IV,  C_i = E(P_i xor C_{i-1});        P_i = D(C_i) xor C_{i-1}

The block function is a parameter, so that the round-trip theorem of C04 can be stated for
*any* block permutation and the oracle instantiates it with SM4.   Core Lean only.
-/
import Gotlcp.Crypto.SM4

namespace Gotlcp.Crypto.CBC

def xor (a b : Bytes) : Bytes := List.zipWith (· ^^^ ·) a b

/-- encrypt `n` blocks of `data` chained from `prev` -/
def encN (E : Bytes → Bytes) : Nat → Bytes → Bytes → Bytes
  | 0, _, _ => []
  | n+1, prev, data =>
    let c := E (xor (data.take 16) prev)
    c ++ encN E n c (data.drop 16)

/-- decrypt `n` blocks of `data` chained from `prev` -/
def decN (D : Bytes → Bytes) : Nat → Bytes → Bytes → Bytes
  | 0, _, _ => []
  | n+1, prev, data =>
    let c := data.take 16
    xor (D c) prev ++ decN D n c (data.drop 16)

/-- CBC encryption of a whole number of blocks (callers pad first) -/
def encrypt (E : Bytes → Bytes) (iv data : Bytes) : Bytes := encN E (data.length / 16) iv data

def decrypt (D : Bytes → Bytes) (iv data : Bytes) : Bytes := decN D (data.length / 16) iv data

/-- SM4-CBC -/
def sm4Encrypt (key iv data : Bytes) : Bytes :=
  let rk := SM4.expandKey key
  encrypt (SM4.cryptBlock rk false) iv data

def sm4Decrypt (key iv data : Bytes) : Bytes :=
  let rk := SM4.expandKey key
  decrypt (SM4.cryptBlock rk true) iv data

/-! ### build-time checks -/

-- one block with a zero IV is the raw block cipher (GB/T 32907 A.1)
#guard Hex.encode (sm4Encrypt SM4.katKey (List.replicate 16 0) SM4.katKey) == "681edf34d206965e86b3e94f536e4246"
-- the second block is chained from the first ciphertext block
#guard
  let c := sm4Encrypt SM4.katKey (List.replicate 16 0) (SM4.katKey ++ SM4.katKey)
  c.drop 16 == SM4.encryptBlock SM4.katKey (xor SM4.katKey (c.take 16))
#guard
  let iv : Bytes := (List.range 16).map UInt8.ofNat
  let p : Bytes := (List.range 80).map (fun i => UInt8.ofNat (i * 7 + 3))
  sm4Decrypt SM4.katKey iv (sm4Encrypt SM4.katKey iv p) == p
-- GB/T 17964-2021 style example (SM4-CBC; also RFC 8998 / draft-ribose-cfrg-sm4 A.2.2.1)
#guard
  let key := SM4.katKey
  let iv : Bytes := [0,1,2,3,4,5,6,7,8,9,10,11,12,13,14,15]
  let p := (Hex.decode "aaaaaaaabbbbbbbbccccccccddddddddeeeeeeeeffffffffaaaaaaaabbbbbbbb").getD []
  Hex.encode (sm4Encrypt key iv p) == "78ebb11cc40b0a48312aaeb2040244cb4cb7016951909226979b0d15dc6a8f6d"

end Gotlcp.Crypto.CBC

/-
The primitives the key schedule and the record layer are built from, as one parameter.
Theorems of C04 quantify over any `Prims` (with the laws they need as hypotheses); the oracle
uses `sm`, the Lean-native SM3 / HMAC-SM3 / SM4 / SM4-GCM.   Core Lean only.
-/
import Gotlcp.Crypto.PRF
import Gotlcp.Crypto.CBC
import Gotlcp.Crypto.GCM
import Gotlcp.Crypto.BE

namespace Gotlcp.Crypto

structure Prims where
  hash : Bytes → Bytes
  hmac : Bytes → Bytes → Bytes
  /-- output length of `hmac` -/
  hLen : Nat
  /-- block cipher: key → 16-byte block → 16-byte block -/
  enc : Bytes → Bytes → Bytes
  dec : Bytes → Bytes → Bytes
  /-- AEAD: key → nonce → additional data → plaintext → ciphertext ‖ tag -/
  aeadSeal : Bytes → Bytes → Bytes → Bytes → Bytes
  aeadOpen : Bytes → Bytes → Bytes → Bytes → Option Bytes
  /-- tag length of the AEAD -/
  tagLen : Nat

/-- SM3 / HMAC-SM3 / SM4 / SM4-GCM -/
def sm : Prims where
  hash := SM3.hash
  hmac := HMAC.sm3
  hLen := 32
  enc := fun k => SM4.cryptBlock (SM4.expandKey k) false
  dec := fun k => SM4.cryptBlock (SM4.expandKey k) true
  aeadSeal := GCM.sm4Seal
  aeadOpen := GCM.sm4Open
  tagLen := 16

end Gotlcp.Crypto
